#!/bin/bash
# Run once in /verif after a fresh restore, offline: builds the framework from files on disk only.
set -e
cd /verif
export GOFLAGS=-mod=mod GOPROXY=off
unset GOSUMDB
mkdir -p .bin .scratch out evidence
# translator + generated Lean modules
(cd tools/gen && go build -o /verif/.bin/verifgen .)
(cd /repo && /verif/.bin/verifgen /verif/lean/OtterVerif/Gen)
# Lean library (all theorem modules) and the two drivers
(cd lean && lake build OtterVerif seqdrv otterdrv)
# warm the Go build cache with the harness
./harness/build.sh /verif/.scratch/verifh.warm
rm -f /verif/.scratch/verifh.warm
echo "setup ok"
