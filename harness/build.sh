#!/bin/bash
# Build the harness inside /repo's module with an overlay (adds files, replaces none).
# usage: build.sh <output-binary> [extra go build flags...]
set -e
OUT="$1"; shift
REPO="${VERIF_REPO:-/repo}"
H=${VERIF_HOME:-/verif}/harness
export GOFLAGS=-mod=mod GOPROXY=off
OVL="$(dirname "$OUT")/overlay.$$.json"
mkdir -p "$(dirname "$OUT")"
{
  echo '{"Replace":{'
  first=1
  for f in $H/verifh/*.go; do
    [ $first = 1 ] || echo ','
    first=0
    printf '"%s/cmd/verifh/%s":"%s"' "$REPO" "$(basename $f)" "$f"
  done
  # in-package export files: harness/export/<pkgdir with / replaced by __>/file.go
  for d in $H/export/*/; do
    [ -d "$d" ] || continue
    pkg=$(basename "$d" | sed 's#__#/#g')
    [ "$pkg" = "root" ] && pkg="."
    for f in "$d"*.go; do
      [ -f "$f" ] || continue
      printf ',\n"%s/%s/%s":"%s"' "$REPO" "$pkg" "$(basename $f)" "$f"
    done
  done
  echo '}}'
} > "$OVL"
cd "$REPO"
go build -tags verif -overlay "$OVL" "$@" -o "$OUT" ./cmd/verifh
rm -f "$OVL"
