//go:build verif

package hashmap

import (
	"github.com/maypok86/otter/v2/internal/generated/node"
)

// VerifStaleResize replays, in one goroutine, the call sequence of a writer that lost a resize race: it decided to
// resize while looking at table `known`, and by the time it wins the `resizing` flag the table has already been replaced
// (grown `growths` times, or shrunk after deletions) by somebody else.  The late resize must work from the CURRENT
// table.  Returns how many keys should be present and how many Get / Range / Size see.
func VerifStaleResize(n, growths int, lateGrow bool, deleteFrac int) (want, found, ranged, size int) {
	nm := node.NewManager[int, int](node.Config{})
	m := New[int, int, node.Node[int, int]](nm)
	put := func(k int) {
		m.Compute(k, func(node.Node[int, int]) node.Node[int, int] { return nm.Create(k, k, 0, 0, 1) })
	}
	present := map[int]bool{}
	known := m.table.Load()
	k := 0
	for g := 0; g < growths; g++ {
		start := m.table.Load()
		for m.table.Load() == start && k < 1<<22 {
			put(k)
			present[k] = true
			k++
		}
	}
	for i := 0; i < n; i++ {
		put(k)
		present[k] = true
		k++
	}
	if deleteFrac > 0 {
		for d := range present {
			if d%deleteFrac != 0 {
				m.Compute(d, func(node.Node[int, int]) node.Node[int, int] { return nil })
				delete(present, d)
			}
		}
	}
	if lateGrow {
		m.resize(known, mapGrowHint)
	} else {
		m.resize(known, mapShrinkHint)
	}
	want = len(present)
	for d := range present {
		if nd := m.Get(d); nd != nil && nd.Value() == d {
			found++
		}
	}
	m.Range(func(nd node.Node[int, int]) bool {
		if present[nd.Key()] {
			ranged++
		} else {
			ranged += 1 << 20
		}
		return true
	})
	size = m.Size()
	return want, found, ranged, size
}
