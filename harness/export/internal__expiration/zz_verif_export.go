//go:build verif

package expiration

import (
	"fmt"
	"strings"

	"github.com/maypok86/otter/v2/internal/generated/node"
)

// White-box access for the verification harness (/verif). Added by `go build -overlay`.

// VerifDump lists the non-empty buckets in link order: "lvl:slot:id,id;...".
func (v *Variable[K, V]) VerifDump(id func(n node.Node[K, V]) int) string {
	var parts []string
	for i := range v.wheel {
		for j := range v.wheel[i] {
			root := v.wheel[i][j]
			var ids []string
			for n := root.NextExp(); !node.Equals(n, root); n = n.NextExp() {
				ids = append(ids, fmt.Sprint(id(n)))
				if len(ids) > 100000 {
					ids = append(ids, "CYCLE")
					break
				}
			}
			if len(ids) > 0 {
				parts = append(parts, fmt.Sprintf("%d:%d:%s", i, j, strings.Join(ids, ",")))
			}
		}
	}
	return strings.Join(parts, ";")
}

func (v *Variable[K, V]) VerifTime() uint64 { return v.time }

func VerifConsts() (b, sp, sh []uint64) { return buckets, spans, shift }
