//go:build verif

package otter

import (
	"math"
	"fmt"
	"strings"
	"unsafe"

	"github.com/maypok86/otter/v2/internal/deque"
	"github.com/maypok86/otter/v2/internal/generated/node"
)

// White-box access for the verification harness (/verif). Added by `go build -overlay`; never committed to the repository.

// VerifSketch exposes the frequency sketch.
type VerifSketch struct{ s *sketch[int] }

func NewVerifSketch() *VerifSketch             { return &VerifSketch{s: newSketch[int]()} }
func (v *VerifSketch) EnsureCapacity(n uint64) { v.s.ensureCapacity(n) }
func (v *VerifSketch) Increment(k int)         { v.s.increment(k) }
func (v *VerifSketch) Frequency(k int) uint64  { return v.s.frequency(k) }
func (v *VerifSketch) Table() []uint64         { return v.s.table }
func (v *VerifSketch) Size() uint64            { return v.s.size }
func (v *VerifSketch) SampleSize() uint64      { return v.s.sampleSize }
func (v *VerifSketch) BlockMask() uint64       { return v.s.blockMask }
func (v *VerifSketch) RawHash(k int) uint64    { return v.s.hasher.Hash(k) }
func (v *VerifSketch) IsNotInitialized() bool  { return v.s.isNotInitialized() }
func (v *VerifSketch) Reset()                  { v.s.reset() }
func VerifSpread(h uint64) uint64              { return spread(h) }
func VerifRehash(h uint64) uint64              { return rehash(h) }

// VerifAdmit runs policy.admit over this sketch with the given random draw.
func (v *VerifSketch) VerifAdmit(candidate, victim int, draw uint32) bool {
	p := newPolicy[int, int](false)
	p.sketch = v.s
	p.rand = func() uint32 { return draw }
	return p.admit(candidate, victim)
}

// VerifDrainState reports the drain status word, the write buffer size and whether the eviction lock is free.
func VerifDrainState[K comparable, V any](c *Cache[K, V]) (ds uint32, wb uint64, lockFree bool) {
	ds = c.cache.drainStatus.Load()
	if c.cache.writeBuffer != nil {
		wb = c.cache.writeBuffer.Size()
	}
	lockFree = c.cache.evictionMutex.TryLock()
	if lockFree {
		c.cache.evictionMutex.Unlock()
	}
	return
}

// VerifPolicy drives the eviction policy directly (white box).
type VerifPolicy struct {
	p        *policy[int, int]
	nm       *node.Manager[int, int]
	ids      map[unsafe.Pointer]int
	Nodes    map[int]node.Node[int, int]
	Evicted  []int
	Draws    []uint32
	NextDraw func() uint32
}

func NewVerifPolicy(weighted bool) *VerifPolicy {
	v := &VerifPolicy{ids: map[unsafe.Pointer]int{}, Nodes: map[int]node.Node[int, int]{}}
	v.p = newPolicy[int, int](weighted)
	v.nm = node.NewManager[int, int](node.Config{WithSize: !weighted, WithWeight: weighted})
	v.p.rand = func() uint32 {
		d := v.NextDraw()
		v.Draws = append(v.Draws, d)
		return d
	}
	return v
}

func (v *VerifPolicy) evict(n node.Node[int, int], _ int64) {
	v.p.delete(n)
	v.Evicted = append(v.Evicted, v.ids[n.AsPointer()])
}

func (v *VerifPolicy) NewNode(id, key int, weight uint32) {
	n := v.nm.Create(key, id, 0, 0, weight)
	v.ids[n.AsPointer()] = id
	v.Nodes[id] = n
}
func (v *VerifPolicy) Add(id int)           { v.p.add(v.Nodes[id], v.evict) }
func (v *VerifPolicy) Update(id, old int)   { v.p.update(v.Nodes[id], v.Nodes[old], v.evict) }
func (v *VerifPolicy) Delete(id int)        { v.p.delete(v.Nodes[id]) }
func (v *VerifPolicy) Access(id int)        { v.p.access(v.Nodes[id]) }
func (v *VerifPolicy) Retire(id int)        { v.Nodes[id].Retire() }
func (v *VerifPolicy) SetMaximum(m uint64)  { v.p.setMaximumSize(m) }
func (v *VerifPolicy) EvictNodes()          { v.p.evictNodes(v.evict) }
func (v *VerifPolicy) Climb()               { v.p.climb() }
func (v *VerifPolicy) SketchLen() int       { return len(v.p.sketch.table) }
func (v *VerifPolicy) RawHash(k int) uint64 { return v.p.sketch.hasher.Hash(k) }
func (v *VerifPolicy) State(id int) string {
	n := v.Nodes[id]
	switch {
	case n.IsAlive():
		return "alive"
	case n.IsRetired():
		return "retired"
	}
	return "dead"
}

func (v *VerifPolicy) Dump() string {
	l := func(d *deque.Linked[int, int]) string {
		var s []string
		cnt := 0
		for n := range d.All() {
			s = append(s, fmt.Sprint(v.ids[n.AsPointer()]))
			cnt++
			if cnt > 100000 {
				s = append(s, "CYCLE")
				break
			}
		}
		return strings.Join(s, ",")
	}
	p := v.p
	ev := make([]string, len(v.Evicted))
	for i, e := range v.Evicted {
		ev[i] = fmt.Sprint(e)
	}
	return fmt.Sprintf("w=[%s] p=[%s] q=[%s] ws=%d wws=%d pws=%d max=%d wmax=%d pmax=%d adj=%d ev=[%s]",
		l(p.window), l(p.probation), l(p.protected), p.weightedSize, p.windowWeightedSize, p.mainProtectedWeightedSize,
		p.maximum, p.windowMaximum, p.mainProtectedMaximum, p.adjustment, strings.Join(ev, ","))
}

// VerifAudit compares the table with the eviction policy's bookkeeping (call at quiescence, after CleanUp).
func VerifAudit[K comparable, V any](c *Cache[K, V]) string {
	cc := c.cache
	cc.evictionMutex.Lock()
	defer cc.evictionMutex.Unlock()
	p := cc.evictionPolicy
	linked := map[unsafe.Pointer]int{}
	deadLinked, sumLinked := 0, uint64(0)
	for _, d := range []*deque.Linked[K, V]{p.window, p.probation, p.protected} {
		n := 0
		for nd := range d.All() {
			linked[nd.AsPointer()]++
			if !nd.IsAlive() {
				deadLinked++
			}
			sumLinked += uint64(nd.Weight())
			n++
			if n > 10000000 {
				break
			}
		}
	}
	dup := 0
	for _, c := range linked {
		if c > 1 {
			dup++
		}
	}
	table, unlinked, notAlive, sumTable := 0, 0, 0, uint64(0)
	cc.hashmap.Range(func(n node.Node[K, V]) bool {
		table++
		sumTable += uint64(n.Weight())
		if !n.IsAlive() {
			notAlive++
		}
		if linked[n.AsPointer()] == 0 {
			unlinked++
		}
		return true
	})
	rb := 0
	if cc.readBuffer != nil {
		rb = cc.readBuffer.Len()
	}
	return fmt.Sprintf("table=%d linked=%d dup=%d deadlinked=%d unlinked=%d notalive=%d ws=%d sumlinked=%d sumtable=%d max=%d ds=%d wb=%d rb=%d",
		table, len(linked), dup, deadLinked, unlinked, notAlive, p.weightedSize, sumLinked, sumTable, p.maximum, cc.drainStatus.Load(), cc.writeBuffer.Size(), rb)
}

// VerifInflight returns the number of load calls still registered.
func VerifInflight[K comparable, V any](c *Cache[K, V]) int {
	g := c.cache.singleflight
	if !g.isInitialized.Load() {
		return 0
	}
	return g.calls.Size()
}

// verifEqualKeys records key a `n` times in a fresh sketch of capacity `capacity` and returns the estimate of key b, which is
// equal to a by == but may be represented differently.
func verifEqualKeys[K comparable](a, b K, n int, capacity uint64) uint64 {
	s := newSketch[K]()
	s.ensureCapacity(capacity)
	for i := 0; i < n; i++ {
		s.increment(a)
	}
	return s.frequency(b)
}

// VerifSketchEqualKeys: estimates through an equal key of another representation, one line per key type.
func VerifSketchEqualKeys(n int, capacity uint64) []string {
	negZero := math.Copysign(0, -1)
	negZero32 := float32(negZero)
	var b strings.Builder
	b.WriteString("ab")
	dyn := b.String()
	type st struct {
		F float64
		S string
	}
	return []string{
		fmt.Sprintf("eqkeys type=float64 n=%d f=%d", n, verifEqualKeys[float64](0, negZero, n, capacity)),
		fmt.Sprintf("eqkeys type=float64r n=%d f=%d", n, verifEqualKeys[float64](negZero, 0, n, capacity)),
		fmt.Sprintf("eqkeys type=float32 n=%d f=%d", n, verifEqualKeys[float32](0, negZero32, n, capacity)),
		fmt.Sprintf("eqkeys type=string n=%d f=%d", n, verifEqualKeys[string]("ab", dyn, n, capacity)),
		fmt.Sprintf("eqkeys type=array n=%d f=%d", n, verifEqualKeys[[2]float64]([2]float64{0, 1}, [2]float64{negZero, 1}, n, capacity)),
		fmt.Sprintf("eqkeys type=struct n=%d f=%d", n, verifEqualKeys[st](st{0, "ab"}, st{negZero, dyn}, n, capacity)),
		fmt.Sprintf("eqkeys type=any n=%d f=%d", n, verifEqualKeys[any](0.0, negZero, n, capacity)),
		fmt.Sprintf("eqkeys type=complex n=%d f=%d", n, verifEqualKeys[complex128](complex(0, 0), complex(negZero, negZero), n, capacity)),
		fmt.Sprintf("eqkeys type=int n=%d f=%d", n, verifEqualKeys[int](7, 7, n, capacity)),
	}
}
