//go:build verif

package otter

// White-box access for the verification harness (/verif). Added by `go build -overlay`; never committed to the repository.

// VerifSketch exposes the frequency sketch.
type VerifSketch struct{ s *sketch[int] }

func NewVerifSketch() *VerifSketch             { return &VerifSketch{s: newSketch[int]()} }
func (v *VerifSketch) EnsureCapacity(n uint64) { v.s.ensureCapacity(n) }
func (v *VerifSketch) Increment(k int)         { v.s.increment(k) }
func (v *VerifSketch) Frequency(k int) uint64  { return v.s.frequency(k) }
func (v *VerifSketch) Table() []uint64         { return v.s.table }
func (v *VerifSketch) Size() uint64            { return v.s.size }
func (v *VerifSketch) SampleSize() uint64      { return v.s.sampleSize }
func (v *VerifSketch) BlockMask() uint64       { return v.s.blockMask }
func (v *VerifSketch) RawHash(k int) uint64    { return v.s.hasher.Hash(k) }
func (v *VerifSketch) IsNotInitialized() bool  { return v.s.isNotInitialized() }
func (v *VerifSketch) Reset()                  { v.s.reset() }
func VerifSpread(h uint64) uint64              { return spread(h) }
func VerifRehash(h uint64) uint64              { return rehash(h) }

// VerifAdmit runs policy.admit over this sketch with the given random draw.
func (v *VerifSketch) VerifAdmit(candidate, victim int, draw uint32) bool {
	p := newPolicy[int, int](false)
	p.sketch = v.s
	p.rand = func() uint32 { return draw }
	return p.admit(candidate, victim)
}

// VerifDrainState reports the drain status word, the write buffer size and whether the eviction lock is free.
func VerifDrainState[K comparable, V any](c *Cache[K, V]) (ds uint32, wb uint64, lockFree bool) {
	ds = c.cache.drainStatus.Load()
	if c.cache.writeBuffer != nil {
		wb = c.cache.writeBuffer.Size()
	}
	lockFree = c.cache.evictionMutex.TryLock()
	if lockFree {
		c.cache.evictionMutex.Unlock()
	}
	return
}
