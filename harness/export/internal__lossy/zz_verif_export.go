//go:build verif

package lossy

import (
	"sync/atomic"
	"unsafe"

	"github.com/maypok86/otter/v2/internal/generated/node"
)

// White-box access for the verification harness (/verif). Added by `go build -overlay`.

// VerifRing exposes one ring buffer.
type VerifRing[K comparable, V any] struct{ r *ring[K, V] }

func NewVerifRing[K comparable, V any](nm *node.Manager[K, V], first node.Node[K, V]) *VerifRing[K, V] {
	return &VerifRing[K, V]{r: newRing(nm, first)}
}
func (v *VerifRing[K, V]) Add(n node.Node[K, V]) Status      { return v.r.add(n) }
func (v *VerifRing[K, V]) DrainTo(f func(n node.Node[K, V])) { v.r.drainTo(f) }
func (v *VerifRing[K, V]) Len() int                          { return v.r.len() }
func (v *VerifRing[K, V]) Head() uint64                      { return v.r.head.Load() }
func (v *VerifRing[K, V]) Tail() uint64                      { return v.r.tail.Load() }

// VerifStripes reports the number of stripes and attached rings of a striped buffer.
func (s *Striped[K, V]) VerifStripes() (length, rings int) {
	bs := s.striped.Load()
	if bs == nil {
		return 0, 0
	}
	for i := 0; i < bs.len; i++ {
		if bs.buffers[i].Load() != nil {
			rings++
		}
	}
	return bs.len, rings
}

// VerifHookedNode is a regular node whose AsPointer — the last thing a producer evaluates before its entry (or the new ring
// holding it) becomes visible — first runs Hook once: the harness places another goroutine's action exactly there.
type VerifHookedNode[K comparable, V any] struct {
	node.Node[K, V]
	Hook func()
}

func (h *VerifHookedNode[K, V]) AsPointer() unsafe.Pointer {
	if f := h.Hook; f != nil {
		h.Hook = nil
		f()
	}
	return h.Node.AsPointer()
}

// VerifGrow does what a contended producer does in expandOrRetry when it decides to expand: if (and only if) the busy flag is
// free it doubles the table (up to maxLen), carrying the attached rings over.
func (s *Striped[K, V]) VerifGrow() bool {
	bs := s.striped.Load()
	if bs == nil || bs.len >= s.maxLen {
		return false
	}
	if s.busy.Load() != 0 || !s.busy.CompareAndSwap(0, 1) {
		return false
	}
	grown := false
	if s.striped.Load() == bs {
		length := bs.len << 1
		ns := &striped[K, V]{buffers: make([]atomic.Pointer[ring[K, V]], length), len: length}
		for j := 0; j < bs.len; j++ {
			ns.buffers[j].Store(bs.buffers[j].Load())
		}
		s.striped.Store(ns)
		grown = true
	}
	s.busy.Store(0)
	return grown
}

// VerifSteerToken makes the next Add of this goroutine (very likely) start at stripe index idx.
func VerifSteerToken(idx uint32) {
	for tokenPool.Get() != nil { //nolint:revive // emptying the pool
	}
	tokenPool.Put(&token{idx: idx})
}
