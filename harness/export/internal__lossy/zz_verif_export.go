//go:build verif

package lossy

import (
	"github.com/maypok86/otter/v2/internal/generated/node"
)

// White-box access for the verification harness (/verif). Added by `go build -overlay`.

// VerifRing exposes one ring buffer.
type VerifRing[K comparable, V any] struct{ r *ring[K, V] }

func NewVerifRing[K comparable, V any](nm *node.Manager[K, V], first node.Node[K, V]) *VerifRing[K, V] {
	return &VerifRing[K, V]{r: newRing(nm, first)}
}
func (v *VerifRing[K, V]) Add(n node.Node[K, V]) Status      { return v.r.add(n) }
func (v *VerifRing[K, V]) DrainTo(f func(n node.Node[K, V])) { v.r.drainTo(f) }
func (v *VerifRing[K, V]) Len() int                          { return v.r.len() }
func (v *VerifRing[K, V]) Head() uint64                      { return v.r.head.Load() }
func (v *VerifRing[K, V]) Tail() uint64                      { return v.r.tail.Load() }

// VerifStripes reports the number of stripes and attached rings of a striped buffer.
func (s *Striped[K, V]) VerifStripes() (length, rings int) {
	bs := s.striped.Load()
	if bs == nil {
		return 0, 0
	}
	for i := 0; i < bs.len; i++ {
		if bs.buffers[i].Load() != nil {
			rings++
		}
	}
	return bs.len, rings
}
