//go:build verif

package queue

import "fmt"

// White-box access for the verification harness (/verif). Added by `go build -overlay`.

// VerifDump prints the index words and chunk lengths.
func (m *MPSC[T]) VerifDump() string {
	return fmt.Sprintf("pI=%d pL=%d pM=%d cI=%d cM=%d plen=%d clen=%d",
		m.producerIndex.Load(), m.producerLimit.Load(), m.producerMask.Load(),
		m.consumerIndex.Load(), m.consumerMask.Load(),
		len(m.producerBuffer.Load().data), len(m.consumerBuffer.Load().data))
}

func (m *MPSC[T]) VerifCapacity() int { return m.capacity() }
