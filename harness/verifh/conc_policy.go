package main

// CONC-policy: real goroutines rewriting, invalidating and reading a handful of keys of a small bounded cache (the order in
// which their write events reach the maintenance thread is up to the scheduler).  At quiescence, after CleanUp, the
// table and the eviction policy's bookkeeping must agree (C05) and the bound must hold (C04).

import (
	"bufio"
	"flag"
	"fmt"
	"runtime"
	"sync"
	"sync/atomic"
	"time"

	otter "github.com/maypok86/otter/v2"
)

func concPolicy(args []string, out *bufio.Writer) {
	fs := flag.NewFlagSet("conc-policy", flag.ExitOnError)
	seed := fs.Uint64("seed", 1, "")
	n := fs.Int("n", 10, "")
	from := fs.Int("from", 0, "")
	fs.Parse(args)
	for i := *from; i < *from+*n; i++ {
		r := &rng{s: scriptSeed(*seed, "concpolicy", i)}
		fmt.Fprintf(out, "script concpolicy-%d-%d\n", *seed, i)
		weighted := r.chance(0.5)
		maxv := 2 + r.intn(6)
		o := &otter.Options[int, int]{}
		if weighted {
			o.MaximumWeight = uint64(maxv * 3)
			o.Weigher = func(k, v int) uint32 { return uint32((k + v) % 4) }
		} else {
			o.MaximumSize = maxv
		}
		// every fourth script stalls the executor: the maintenance task is scheduled but never runs, the write buffer fills
		// up (128 * rounded GOMAXPROCS events) and writers fall back to performing the maintenance themselves, handing their
		// own event over directly (afterWriteTask → performCleanUp(t)); the queued tasks run at the end of the round
		stall := i%4 == 3
		var (
			stMu     sync.Mutex
			stQueued []func()
		)
		if stall {
			o.Executor = func(fn func()) {
				stMu.Lock()
				stQueued = append(stQueued, fn)
				stMu.Unlock()
			}
		}
		// one script in seven gets an executor that runs some tasks on the caller's goroutine and the others on their own
		var mixN atomic.Int64
		if i%7 == 3 && !stall {
			o.Executor = func(fn func()) {
				if mixN.Add(1)%3 == 0 {
					fn()
				} else {
					go fn()
				}
			}
		}
		// two scripts in seven also expire: reads push the deadline out (ExpiryAccessing) while a ticker goroutine moves an
		// atomic clock forward, so sweeps, reads that extend deadlines and writes race; the audit is the same (an entry that is
		// in the table is known to the policies, none is tracked twice or dead)
		expiring := (i%7 == 2 || i%7 == 5) && !stall
		var aclk *atomicClock
		if expiring {
			aclk = &atomicClock{}
			aclk.now.Store(1 << 40)
			o.Clock = aclk
			o.ExpiryCalculator = slowReadExpiry{ttl: time.Duration(2 << 30)}
		}
		// every fifth script is "big": thousands of keys below a large maximum, with a processor count that does not divide the
		// table length, so that the table grows through the parallel copy while the policy is told about every entry
		big := i%5 == 4 && !stall
		prevProcs := runtime.GOMAXPROCS(0)
		if big {
			runtime.GOMAXPROCS(pick(r, []int{3, 5, 6, 7, 12}))
			if weighted {
				o.MaximumWeight = 40000
			} else {
				o.MaximumSize = 20000
			}
		}
		c := otter.Must(o)
		nkeys := 2 + r.intn(8)
		writers := 2 + r.intn(7)
		rounds := 10 + r.intn(20)
		if big {
			nkeys = 3000 + r.intn(4000)
			writers = 2 + r.intn(3)
			rounds = 2
		}
		if stall {
			writers = 1 + r.intn(3)
			rounds = 2 + r.intn(3)
		}
		// in a third of the ordinary scripts InvalidateAll runs again and again while the writers write: whatever the write buffer
		// accepted meanwhile must still reach the policy
		sweeper := !big && !stall && i%3 == 1
		for round := 0; round < rounds; round++ {
			var wg sync.WaitGroup
			stopSweeper := make(chan struct{})
			sweeperDone := make(chan struct{})
			go func() {
				defer close(sweeperDone)
				if !sweeper {
					return
				}
				for {
					select {
					case <-stopSweeper:
						return
					default:
					}
					c.InvalidateAll()
					time.Sleep(30 * time.Microsecond)
				}
			}()
			stopTicker := make(chan struct{})
			tickerDone := make(chan struct{})
			go func() {
				defer close(tickerDone)
				if aclk == nil {
					return
				}
				tr := &rng{s: r.next()}
				for {
					select {
					case <-stopTicker:
						return
					default:
					}
					aclk.now.Add(int64(1<<29) + int64(tr.intn(1<<31)))
					time.Sleep(time.Duration(5+tr.intn(40)) * time.Microsecond)
				}
			}()
			for w := 0; w < writers; w++ {
				wg.Add(1)
				ws := r.next()
				go func(w int) {
					defer wg.Done()
					lr := &rng{s: ws}
					ops := 40 + lr.intn(200)
					if big {
						ops = 2 * nkeys / writers
					}
					if stall {
						ops = (160*runtime.GOMAXPROCS(0))/writers + lr.intn(400)
					}
					for j := 0; j < ops; j++ {
						k := lr.intn(nkeys)
						op := lr.intn(10)
						if expiring && lr.chance(0.25) {
							op = 8
						}
						if stall && op > 6 {
							op = 0 // writes only: every operation adds an event
						}
						switch op {
						case 0, 1, 2, 3, 4, 5:
							c.Set(k, j*16+w)
						case 6:
							c.Invalidate(k)
						case 8:
							if expiring {
								// on a present key this is a read made under the key's bucket lock: it parks a sweep that wants
								// the same bucket while the deadline is being pushed out
								c.SetIfAbsent(k, j*16+w)
							} else {
								c.GetIfPresent(k)
							}
						case 7:
							c.Compute(k, func(old int, found bool) (int, otter.ComputeOp) {
								if found {
									return old + 1, otter.WriteOp
								}
								return 0, otter.CancelOp
							})
						default:
							c.GetIfPresent(k)
						}
						if lr.chance(0.05) {
							runtime.Gosched()
						}
					}
				}(w)
			}
			wg.Wait()
			close(stopSweeper)
			<-sweeperDone
			close(stopTicker)
			<-tickerDone
			// the maximum changes at run time: lowered, raised far above the current size, set back — with reads recorded just
			// before (they must still reach the policy: nothing may be left in the read buffer at the audit)
			if !big && !stall && r.chance(0.35) {
				for q := 0; q < 1+r.intn(12); q++ {
					c.GetIfPresent(r.intn(nkeys))
				}
				c.SetMaximum(uint64(pick(r, []int{0, 1, 3, 8, 64, 1024, 5000})))
			}
			_, wbFull, _ := otter.VerifDrainState(c)
			if stall {
				for {
					stMu.Lock()
					q := stQueued
					stQueued = nil
					stMu.Unlock()
					if len(q) == 0 {
						break
					}
					for _, fn := range q {
						fn()
					}
				}
			}
			for t := 0; t < 400; t++ {
				ds, wb, free := otter.VerifDrainState(c)
				if ds == 0 && wb == 0 && free {
					break
				}
				time.Sleep(50 * time.Microsecond)
			}
			c.CleanUp()
			coldest, all := 0, 0
			for range c.Coldest() {
				coldest++
			}
			for range c.All() {
				all++
			}
			fmt.Fprintf(out, "audit round=%d %s all=%d coldest=%d wsize=%d stalled=%v wbpeak=%d\n", round, otter.VerifAudit(c), all, coldest, c.WeightedSize(), stall, wbFull)
		}
		c.StopAllGoroutines()
		runtime.GOMAXPROCS(prevProcs)
	}
}

// atomicClock: a manual clock that other goroutines may move while the cache reads it
type atomicClock struct{ now atomic.Int64 }

func (c *atomicClock) NowNano() int64                      { return c.now.Load() }
func (c *atomicClock) Tick(time.Duration) <-chan time.Time { return make(chan time.Time) }

// slowReadExpiry resets the deadline on every access (like ExpiryAccessing) but takes its time to answer for a read: the
// window between "this entry looked fresh / due" and "the new deadline is stored" becomes wide enough for another goroutine
type slowReadExpiry struct{ ttl time.Duration }

func (s slowReadExpiry) ExpireAfterCreate(otter.Entry[int, int]) time.Duration      { return s.ttl }
func (s slowReadExpiry) ExpireAfterUpdate(otter.Entry[int, int], int) time.Duration { return s.ttl }
func (s slowReadExpiry) ExpireAfterRead(e otter.Entry[int, int]) time.Duration {
	if (e.Key+e.Value)%2 == 0 {
		runtime.Gosched()
		time.Sleep(60 * time.Microsecond)
	}
	return s.ttl
}
