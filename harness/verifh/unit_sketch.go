package main

// UNIT-sketch: white-box differential of sketch.go against Impl.Sketch (exact table digest after every call).

import (
	"bufio"
	"flag"
	"fmt"

	otter "github.com/maypok86/otter/v2"
)

func fnvWords(t []uint64) uint64 {
	h := uint64(14695981039346656037)
	for _, w := range t {
		h = (h ^ w) * 1099511628211
	}
	return h
}

func unitSketch(args []string, out *bufio.Writer) {
	fs := flag.NewFlagSet("unit-sketch", flag.ExitOnError)
	seed := fs.Uint64("seed", 1, "")
	n := fs.Int("n", 10, "")
	from := fs.Int("from", 0, "")
	fs.Parse(args)
	for i := *from; i < *from+*n; i++ {
		r := &rng{s: scriptSeed(*seed, "sketch", i)}
		fmt.Fprintf(out, "script sketch-%d-%d\n", *seed, i)
		s := otter.NewVerifSketch()
		nkeys := 3 + r.intn(40)
		reportHashes := func() {
			for k := 0; k < nkeys; k++ {
				fmt.Fprintf(out, "hash %d %d\n", k, s.RawHash(k))
			}
		}
		nops := 50 + r.intn(1500)
		// a key recorded n times has an estimate of at least min(n, 15) under every representation of that key (keys are
		// compared with ==: +0.0 and -0.0, equal strings from different allocations, ...)
		for _, l := range otter.VerifSketchEqualKeys(1+r.intn(20), pick(r, []uint64{8, 64, 1000})) {
			fmt.Fprintln(out, l)
		}
		// frequency before initialisation
		fmt.Fprintf(out, "freq %d => %d\n", 0, s.Frequency(0))
		s.Increment(0)
		fmt.Fprintf(out, "incr %d => size=%d digest=%d\n", 0, s.Size(), fnvWords(s.Table()))
		for j := 0; j < nops; j++ {
			switch {
			case j == 0 || r.chance(0.01):
				caps := []uint64{0, 1, 2, 3, 5, 7, 8, 9, 15, 16, 17, 31, 33, 64, 100, 127, 128, 512, 1000, 1024, 4097}
				c := pick(r, caps)
				if r.chance(0.3) {
					c = uint64(r.intn(300))
				}
				before := len(s.Table())
				s.EnsureCapacity(c)
				changed := 0
				if len(s.Table()) != before || (before == 0 && len(s.Table()) > 0) {
					changed = 1
				}
				// a same-length reallocation is detected through the digest/size comparison
				fmt.Fprintf(out, "ensure %d => len=%d sample=%d mask=%d size=%d init=%v digest=%d\n", c, len(s.Table()), s.SampleSize(), s.BlockMask(), s.Size(), !s.IsNotInitialized(), fnvWords(s.Table()))
				_ = changed
				reportHashes()
			case r.chance(0.25):
				k := r.intn(nkeys)
				fmt.Fprintf(out, "freq %d => %d\n", k, s.Frequency(k))
			case r.chance(0.2):
				// admission decision over the current estimates, random draw injected
				c, v := r.intn(nkeys), r.intn(nkeys)
				draw := uint32(r.next())
				if r.chance(0.5) {
					draw &^= 127 // the 1/128 case
				}
				fmt.Fprintf(out, "admit %d %d %d => %v cf=%d vf=%d\n", c, v, draw, s.VerifAdmit(c, v, draw), s.Frequency(c), s.Frequency(v))
			default:
				k := r.intn(nkeys)
				if r.chance(0.5) {
					k = r.intn(3) // hot keys: saturation and reset crossings
				}
				s.Increment(k)
				fmt.Fprintf(out, "incr %d => size=%d digest=%d\n", k, s.Size(), fnvWords(s.Table()))
			}
		}
		for k := 0; k < nkeys; k++ {
			fmt.Fprintf(out, "freq %d => %d\n", k, s.Frequency(k))
		}
	}
	// mixers on boundary and random inputs (cross-checks the translator)
	r := &rng{s: *seed}
	fmt.Fprintf(out, "script mixers-%d\n", *seed)
	for j := 0; j < 200; j++ {
		x := r.next()
		if j < 4 {
			x = []uint64{0, 1, ^uint64(0), 1 << 63}[j]
		}
		fmt.Fprintf(out, "mix %d => %d %d\n", x, otter.VerifSpread(x), otter.VerifRehash(x))
	}
}
