package main

// CONC-resize: a Compute whose remapping function is still running (it holds its bucket's lock and has passed the resize
// checks) while other goroutines grow or shrink the table.  The resizer must wait for it: afterwards the write is visible,
// nothing is lost or counted twice, and the remapping function ran exactly once (C15, C02).  Unbounded cache: no eviction,
// the table is the only state.

import (
	"bufio"
	"flag"
	"fmt"
	"runtime"
	"sync"
	"sync/atomic"
	"time"

	otter "github.com/maypok86/otter/v2"
	"github.com/maypok86/otter/v2/internal/hashmap"
)

func concResize(args []string, out *bufio.Writer) {
	fs := flag.NewFlagSet("conc-resize", flag.ExitOnError)
	seed := fs.Uint64("seed", 1, "")
	n := fs.Int("n", 10, "")
	from := fs.Int("from", 0, "")
	fs.Parse(args)
	for i := *from; i < *from+*n; i++ {
		r := &rng{s: scriptSeed(*seed, "concresize", i)}
		fmt.Fprintf(out, "script concresize-%d-%d\n", *seed, i)
		// the parallel table copy splits the buckets over min(tableLen/64, GOMAXPROCS) goroutines: also run with processor
		// counts that do not divide the table length
		prevProcs := runtime.GOMAXPROCS(pick(r, []int{3, 5, 6, 7, 12, 16, 16}))
		c := otter.Must(&otter.Options[int, int]{})
		present := map[int]int{}
		// table sizes on both sides of the parallel-copy threshold (128 buckets ~ 480 entries)
		prefill := []int{0, 10, 100, 130, 400, 500, 900, 2000}[r.intn(8)]
		next := 0
		for j := 0; j < prefill; j++ {
			c.Set(next, next)
			present[next] = next
			next++
		}
		rounds := 3 + r.intn(6)
		for round := 0; round < rounds; round++ {
			blockers := 1 + r.intn(4)
			gate := make(chan struct{})
			var entered atomic.Int32
			var wg sync.WaitGroup
			type res struct {
				key, val int
				calls    *atomic.Int32
				ret      int
				ok       bool
			}
			results := make([]*res, blockers)
			used := map[int]bool{}
			for b := 0; b < blockers; b++ {
				var k int
				if r.chance(0.5) && len(present) > 0 {
					k = r.intn(next) // probably present
				} else {
					k = 1000000 + r.intn(1000000) // absent, random bucket (often an empty one)
				}
				if used[k] {
					k = 3000000 + round*10 + b
				}
				used[k] = true
				rs := &res{key: k, val: 7000000 + round*100 + b, calls: &atomic.Int32{}}
				results[b] = rs
				wg.Add(1)
				go func() {
					defer wg.Done()
					rs.ret, rs.ok = c.Compute(rs.key, func(old int, found bool) (int, otter.ComputeOp) {
						if rs.calls.Add(1) == 1 {
							entered.Add(1)
							<-gate
						}
						return rs.val, otter.WriteOp
					})
				}()
			}
			// blockers that share a bucket with another blocker queue up behind its lock and enter after the gate opens
			for t := 0; t < 100 && int(entered.Load()) < blockers; t++ {
				time.Sleep(20 * time.Microsecond)
			}
			// now resize behind their backs
			grow := r.chance(0.6) || len(present) < 50
			var hw sync.WaitGroup
			var mu sync.Mutex
			workers := 1 + r.intn(3)
			if grow {
				add := len(present) + 200 + r.intn(600)
				base := next
				next += add
				for w := 0; w < workers; w++ {
					hw.Add(1)
					go func(w int) {
						defer hw.Done()
						for k := base + w; k < base+add; k += workers {
							c.Set(k, k)
						}
					}(w)
				}
				for k := base; k < base+add; k++ {
					present[k] = k
				}
			} else {
				var del []int
				for k := range present {
					if !used[k] && r.chance(0.97) {
						del = append(del, k)
					}
				}
				for _, k := range del {
					delete(present, k)
				}
				for w := 0; w < workers; w++ {
					hw.Add(1)
					go func(w int) {
						defer hw.Done()
						for j := w; j < len(del); j += workers {
							c.Invalidate(del[j])
						}
					}(w)
				}
			}
			_ = &mu
			time.Sleep(time.Duration(200+r.intn(600)) * time.Microsecond)
			close(gate)
			done := make(chan struct{})
			go func() { wg.Wait(); hw.Wait(); close(done) }()
			hang := 0
			select {
			case <-done:
			case <-time.After(10 * time.Second):
				hang = 1
			}
			if hang == 1 {
				fmt.Fprintf(out, "round %d hang=1\n", round)
				break
			}
			for _, rs := range results {
				present[rs.key] = rs.val
				v, ok := c.GetIfPresent(rs.key)
				fmt.Fprintf(out, "compute key=%d calls=%d ret=%d retok=%v want=%d get=%d getok=%v\n", rs.key, rs.calls.Load(), rs.ret, rs.ok, rs.val, v, ok)
			}
			// whole-table agreement
			bad, cnt := 0, 0
			for k, v := range c.All() {
				cnt++
				if pv, ok := present[k]; !ok || pv != v {
					bad++
				}
			}
			missing := 0
			for k, v := range present {
				if gv, ok := c.GetIfPresent(k); !ok || gv != v {
					missing++
				}
			}
			fmt.Fprintf(out, "table round=%d grow=%v size=%d want=%d all=%d wrong=%d missing=%d\n", round, grow, c.EstimatedSize(), len(present), cnt, bad, missing)
		}
		c.StopAllGoroutines()
		// the loser of a resize race: its resize starts from a table that has already been replaced (white box, one goroutine)
		{
			growths := 1 + r.intn(3)
			extra := r.intn(300)
			lateGrow := r.chance(0.7)
			del := 0
			if !lateGrow || r.chance(0.3) {
				del = 2 + r.intn(20)
			}
			want, found, ranged, size := hashmap.VerifStaleResize(extra, growths, lateGrow, del)
			fmt.Fprintf(out, "table round=%d grow=%v size=%d want=%d all=%d wrong=%d missing=%d\n", 1000+growths, lateGrow, size, want, ranged, 0, want-found)
		}
		runtime.GOMAXPROCS(prevProcs)
	}
}
