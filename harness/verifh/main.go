// Command verifh is the verification harness.  It is compiled *inside* the otter module from
// /repo's working tree by `go build -overlay` (see /verif/check); nothing here is committed to /repo.
package main

import (
	"bufio"
	"flag"
	"fmt"
	"hash/fnv"
	"os"
	"strings"
	"sync"
	"time"
)

func scriptSeed(seed uint64, profile string, i int) uint64 {
	h := fnv.New64a()
	fmt.Fprintf(h, "%d/%s/%d", seed, profile, i)
	return h.Sum64()
}

func main() {
	if len(os.Args) < 2 {
		fmt.Fprintln(os.Stderr, "usage: verifh <engine> ...")
		os.Exit(2)
	}
	out := bufio.NewWriterSize(os.Stdout, 1<<20)
	defer out.Flush()
	switch os.Args[1] {
	case "seq":
		fs := flag.NewFlagSet("seq", flag.ExitOnError)
		seed := fs.Uint64("seed", 1, "")
		profile := fs.String("profile", "mix", "")
		n := fs.Int("n", 10, "number of scripts")
		from := fs.Int("from", 0, "first script index")
		script := fs.String("script", "", "run this script file instead of generating")
		printOnly := fs.Bool("print", false, "print the generated scripts instead of running them")
		fs.Parse(os.Args[2:])
		if *script != "" {
			data, err := os.ReadFile(*script)
			if err != nil {
				fmt.Fprintln(os.Stderr, err)
				os.Exit(2)
			}
			runScriptGuarded("file:"+*script, strings.Split(string(data), "\n"), out)
			return
		}
		for i := *from; i < *from+*n; i++ {
			lines := genSeqScript(scriptSeed(*seed, *profile, i), *profile)
			id := fmt.Sprintf("%s-%d-%d", *profile, *seed, i)
			if *printOnly {
				fmt.Fprintf(out, "# script %s\n%s\n", id, strings.Join(lines, "\n"))
				continue
			}
			runScriptGuarded(id, lines, out)
			out.Flush()
		}
	default:
		if !unitDispatch(os.Args[1], os.Args[2:], out) {
			fmt.Fprintf(os.Stderr, "verifh: unknown engine %q\n", os.Args[1])
			os.Exit(2)
		}
	}
}

// runScriptGuarded runs a script with a watchdog: an operation that never returns (a waiter on an
// in-flight record nobody will complete) is reported as a `hang` line instead of blocking the run.
func runScriptGuarded(id string, lines []string, out *bufio.Writer) {
	done := make(chan struct{})
	var buf strings.Builder
	w := bufio.NewWriterSize(&buf, 1<<16)
	var mu sync.Mutex
	go func() {
		defer close(done)
		runScriptLocked(id, lines, w, &mu)
	}()
	select {
	case <-done:
		mu.Lock()
		w.Flush()
		out.WriteString(buf.String())
		mu.Unlock()
	case <-time.After(4 * time.Second):
		mu.Lock()
		w.Flush()
		out.WriteString(buf.String())
		// close any open operation brackets textually so the judge sees where it hung
		fmt.Fprintf(out, "hang | \n")
		mu.Unlock()
	}
}
