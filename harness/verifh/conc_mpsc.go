package main

// CONC-mpsc: real producers and one consumer on internal/deque/queue.MPSC.  Delivery log judged by the Lean driver:
// exactly once, per-producer order, nothing invented; and (no consumer, total offers <= capacity) no refusal.

import (
	"bufio"
	"flag"
	"fmt"
	"runtime"
	"sync"
	"sync/atomic"
	"time"

	"github.com/maypok86/otter/v2/internal/deque/queue"
)

type ev struct{ p, seq int }

func concMpsc(args []string, out *bufio.Writer) {
	fs := flag.NewFlagSet("conc-mpsc", flag.ExitOnError)
	seed := fs.Uint64("seed", 1, "")
	n := fs.Int("n", 10, "")
	from := fs.Int("from", 0, "")
	fs.Parse(args)
	for i := *from; i < *from+*n; i++ {
		r := &rng{s: scriptSeed(*seed, "concmpsc", i)}
		fmt.Fprintf(out, "script concmpsc-%d-%d\n", *seed, i)
		if i%3 == 2 {
			// scenario C: many fresh tiny queues that three producers keep completely full while the consumer crosses every
			// link to the next chunk: each element exactly once, in its producer's order, and the consumer never spins forever
			trials := 300
			for tr := 0; tr < trials; tr++ {
				q := queue.NewMPSC[ev](2, 4)
				fmt.Fprintf(out, "scenario tiny trial=%d\n", tr)
				var stop atomic.Bool
				var wg sync.WaitGroup
				for p := 0; p < 3; p++ {
					wg.Add(1)
					go func(p int) {
						defer wg.Done()
						for s := 0; !stop.Load(); {
							if q.TryPush(&ev{p, s}) {
								s++
							}
						}
					}(p)
				}
				popped := 0
				hang := false
				done := make(chan struct{})
				var got []ev
				go func() {
					defer close(done)
					for popped < 12 {
						if e := q.TryPop(); e != nil {
							got = append(got, *e)
							popped++
						}
					}
				}()
				select {
				case <-done:
				case <-time.After(3 * time.Second):
					hang = true
				}
				stop.Store(true)
				if hang {
					fmt.Fprintf(out, "hang popped=%d\n", popped)
					fmt.Fprintf(out, "end\n")
					return // the consumer goroutine is lost inside TryPop: end this run
				}
				wg.Wait()
				for _, e := range got {
					fmt.Fprintf(out, "deliver %d %d\n", e.p, e.seq)
				}
				fmt.Fprintf(out, "end\n")
			}
			continue
		}
		if i%3 == 1 && r.chance(0.6) {
			// scenario T: producers take one of capacity-1 tickets before every offer and the consumer hands the ticket back
			// after the poll, so the queue never holds its maximum: no offer may be refused.  A producer that read its
			// indices before the consumer and another producer moved on (stale producer index, newer consumer index) must
			// still see "room left".
			ini := pick(r, []uint32{2, 4, 4, 8})
			mx := pick(r, []uint32{4, 4, 8, 32})
			if mx < ini {
				mx = ini
			}
			q := queue.NewMPSC[ev](ini, mx)
			capacity := q.VerifCapacity()
			producers := 4 + r.intn(8)
			tickets := int64(capacity - 1)
			if tickets < 1 {
				tickets = 1
			}
			fmt.Fprintf(out, "scenario ticket producers=%d per=0 capacity=%d\n", producers, capacity)
			prev := runtime.GOMAXPROCS(4 * runtime.NumCPU())
			var inFlight atomic.Int64
			var stop atomic.Bool
			refused := make([]int, producers)
			sent := make([]int, producers)
			var wg sync.WaitGroup
			for p := 0; p < producers; p++ {
				wg.Add(1)
				go func(p int) {
					defer wg.Done()
					for !stop.Load() {
						n := inFlight.Load()
						if n >= tickets || !inFlight.CompareAndSwap(n, n+1) {
							continue
						}
						if !q.TryPush(&ev{p, sent[p]}) {
							refused[p]++
							inFlight.Add(-1)
							stop.Store(true)
							return
						}
						sent[p]++
					}
				}(p)
			}
			var got []ev
			cdone := make(chan struct{})
			go func() {
				defer close(cdone)
				for !stop.Load() {
					if e := q.TryPop(); e != nil {
						got = append(got, *e)
						inFlight.Add(-1)
					}
				}
			}()
			budget := time.Duration(20+r.intn(40)) * time.Millisecond
			t0 := time.Now()
			for !stop.Load() && time.Since(t0) < budget && len(got) < 60000 {
				time.Sleep(time.Millisecond)
			}
			stop.Store(true)
			wg.Wait()
			<-cdone
			runtime.GOMAXPROCS(prev)
			for {
				e := q.TryPop()
				if e == nil {
					break
				}
				got = append(got, *e)
			}
			for p := 0; p < producers; p++ {
				fmt.Fprintf(out, "refused %d %d size=%d\n", p, refused[p], q.Size())
			}
			if len(got) > 4000 {
				// keep the transcript small: the per-producer order of a suffix is checked from its first sequence numbers on
				got = got[:4000]
				for p := range sent {
					sent[p] = -1
				}
			}
			for _, e := range got {
				fmt.Fprintf(out, "deliver %d %d\n", e.p, e.seq)
			}
			for p := 0; p < producers; p++ {
				if sent[p] >= 0 {
					fmt.Fprintf(out, "sent %d %d\n", p, sent[p])
				}
			}
			fmt.Fprintf(out, "end\n")
			continue
		}
		ini := pick(r, []uint32{2, 4, 8, 16})
		mx := pick(r, []uint32{4, 8, 32, 128, 1024, 2048})
		if mx < ini {
			mx = ini * 2
		}
		q := queue.NewMPSC[ev](ini, mx)
		capacity := q.VerifCapacity()
		producers := 1 + r.intn(12)
		if r.chance(0.4) {
			// scenario A: no consumer, everything fits: no offer may be refused
			per := capacity / producers
			if per == 0 {
				per = 1
				producers = capacity
			}
			fmt.Fprintf(out, "scenario nofull producers=%d per=%d capacity=%d\n", producers, per, capacity)
			refused := make([]int, producers)
			var wg sync.WaitGroup
			for p := 0; p < producers; p++ {
				wg.Add(1)
				go func(p int) {
					defer wg.Done()
					for s := 0; s < per; s++ {
						if !q.TryPush(&ev{p, s}) {
							refused[p]++
						}
					}
				}(p)
			}
			wg.Wait()
			for p := 0; p < producers; p++ {
				fmt.Fprintf(out, "refused %d %d size=%d\n", p, refused[p], q.Size())
			}
			for {
				e := q.TryPop()
				if e == nil {
					break
				}
				fmt.Fprintf(out, "deliver %d %d\n", e.p, e.seq)
			}
			for p := 0; p < producers; p++ {
				fmt.Fprintf(out, "sent %d %d\n", p, per-refused[p])
			}
			fmt.Fprintf(out, "end\n")
			continue
		}
		per := 50 + r.intn(400)
		fmt.Fprintf(out, "scenario stream producers=%d per=%d capacity=%d\n", producers, per, capacity)
		var wg sync.WaitGroup
		for p := 0; p < producers; p++ {
			wg.Add(1)
			go func(p int) {
				defer wg.Done()
				for s := 0; s < per; s++ {
					for !q.TryPush(&ev{p, s}) {
						runtime.Gosched()
					}
				}
			}(p)
		}
		total := producers * per
		got := make([]ev, 0, total)
		for len(got) < total {
			e := q.TryPop()
			if e == nil {
				runtime.Gosched()
				continue
			}
			got = append(got, *e)
		}
		wg.Wait()
		extra := q.TryPop()
		for _, e := range got {
			fmt.Fprintf(out, "deliver %d %d\n", e.p, e.seq)
		}
		if extra != nil {
			fmt.Fprintf(out, "deliver %d %d\n", extra.p, extra.seq)
		}
		for p := 0; p < producers; p++ {
			fmt.Fprintf(out, "sent %d %d\n", p, per)
		}
		fmt.Fprintf(out, "end\n")
	}
}
