package main

// SEQ engine: drives the real cache through its public API from one goroutine with a manual
// clock and a same-goroutine (or deferred, manually pumped) executor, and writes the
// transcript judged by `otterdrv seq` (Spec.Check).  See DESIGN.md §3b and Appendix A.

import (
	"bufio"
	"bytes"
	"context"
	"encoding/gob"
	"errors"
	"fmt"
	"os"
	"path/filepath"
	"sort"
	"strconv"
	"strings"
	"sync"
	"time"

	otter "github.com/maypok86/otter/v2"
	"github.com/maypok86/otter/v2/stats"
)

// manualClock is the script's clock.  `hook`, when armed, runs once inside the next NowNano call: the cache samples the
// clock at the start of afterDeleteCall, i.e. between the loader's return and the installation of its result, so the hook
// places operations exactly in that window from a single goroutine (C09).
type manualClock struct {
	now  int64
	hook func()
}

func (c *manualClock) NowNano() int64 {
	if h := c.hook; h != nil {
		c.hook = nil
		h()
	}
	return c.now
}

func (c *manualClock) Tick(time.Duration) <-chan time.Time { return make(chan time.Time) }

type tbl struct {
	dflt int64
	ents map[int]int64
}

func (t *tbl) get(k int) int64 {
	if t == nil {
		return 0
	}
	if d, ok := t.ents[k]; ok {
		return d
	}
	return t.dflt
}

type customExpiry struct{ create, update, read *tbl }

func (c *customExpiry) ExpireAfterCreate(e otter.Entry[int, int]) time.Duration {
	return time.Duration(c.create.get(e.Key))
}
func (c *customExpiry) ExpireAfterUpdate(e otter.Entry[int, int], _ int) time.Duration {
	if d := c.update.get(e.Key); d > 0 {
		return time.Duration(d)
	}
	return e.ExpiresAfter()
}
func (c *customExpiry) ExpireAfterRead(e otter.Entry[int, int]) time.Duration {
	if d := c.read.get(e.Key); d > 0 {
		return time.Duration(d)
	}
	return e.ExpiresAfter()
}

type customRefresh struct{ create, update, reload, fail *tbl }

func (c *customRefresh) RefreshAfterCreate(e otter.Entry[int, int]) time.Duration {
	return time.Duration(c.create.get(e.Key))
}
func (c *customRefresh) RefreshAfterUpdate(e otter.Entry[int, int], _ int) time.Duration {
	if d := c.update.get(e.Key); d > 0 {
		return time.Duration(d)
	}
	return e.RefreshableAfter()
}
func (c *customRefresh) RefreshAfterReload(e otter.Entry[int, int], _ int) time.Duration {
	if d := c.reload.get(e.Key); d > 0 {
		return time.Duration(d)
	}
	return e.RefreshableAfter()
}
func (c *customRefresh) RefreshAfterReloadFailure(e otter.Entry[int, int], _ error) time.Duration {
	if d := c.fail.get(e.Key); d > 0 {
		return time.Duration(d)
	}
	return e.RefreshableAfter()
}

type nopLogger struct{}

func (nopLogger) Warn(context.Context, string, error)  {}
func (nopLogger) Error(context.Context, string, error) {}

var errLoader = errors.New("loader-error")

// seqRun executes one script.
type seqRun struct {
	out      *bufio.Writer
	cache    *otter.Cache[int, int]
	clock    *manualClock
	events   []string
	deferred bool
	queue    []func()
	chans    map[int]<-chan otter.RefreshResult[int, int]
	bchans   map[int]<-chan []otter.RefreshResult[int, int]
	nextRid  int
	tbls     map[string]*tbl
	wt       []uint32
	// current loader op
	outcomes   []string
	invIdx     int
	nested     []string
	afterRet   []string // operations to run between the loader's return and the installation (clock hook)
	nestedDone bool
	cfg        map[string]string
	mu         *sync.Mutex
	slots      map[int][]byte
}

func (r *seqRun) flushEvents() string {
	s := strings.Join(r.events, " ")
	r.events = r.events[:0]
	return s
}

func (r *seqRun) emit(format string, a ...any) {
	line := fmt.Sprintf(format, a...)
	ev := r.flushEvents()
	if r.mu != nil {
		r.mu.Lock()
		defer r.mu.Unlock()
	}
	fmt.Fprintf(r.out, "%s | %s\n", line, ev)
}

func parseTblLine(toks []string) *tbl {
	t := &tbl{ents: map[int]int64{}}
	for _, tok := range toks {
		kv := strings.SplitN(tok, "=", 2)
		if len(kv) != 2 {
			continue
		}
		d, _ := strconv.ParseInt(kv[1], 10, 64)
		if kv[0] == "*" {
			t.dflt = d
		} else {
			k, _ := strconv.Atoi(kv[0])
			t.ents[k] = d
		}
	}
	return t
}

func (r *seqRun) build() {
	r.cache = otter.Must(r.options(true, ""))
	r.chans = map[int]<-chan otter.RefreshResult[int, int]{}
	r.bchans = map[int]<-chan []otter.RefreshResult[int, int]{}
	r.nextRid = 1
}

// options builds the cache options from the script's configuration; the main cache reports its deletion
// events, a load target (C19) does not.
func (r *seqRun) options(main bool, maxOverride string) *otter.Options[int, int] {
	cfg := r.cfg
	o := &otter.Options[int, int]{}
	b := strings.Split(cfg["bound"], ":")
	if maxOverride != "" && maxOverride != "same" && len(b) == 2 {
		b[1] = maxOverride
	}
	switch b[0] {
	case "size":
		n, _ := strconv.Atoi(b[1])
		o.MaximumSize = n
	case "weight":
		n, _ := strconv.ParseUint(b[1], 10, 64)
		o.MaximumWeight = n
		wt := r.wt
		o.Weigher = func(k, v int) uint32 { return wt[(k+v)%len(wt)] }
	}
	e := strings.Split(cfg["expiry"], ":")
	dur := func(s []string) time.Duration {
		d, _ := strconv.ParseInt(s[1], 10, 64)
		return time.Duration(d)
	}
	switch e[0] {
	case "creating":
		o.ExpiryCalculator = otter.ExpiryCreating[int, int](dur(e))
	case "writing":
		o.ExpiryCalculator = otter.ExpiryWriting[int, int](dur(e))
	case "accessing":
		o.ExpiryCalculator = otter.ExpiryAccessing[int, int](dur(e))
	case "custom":
		o.ExpiryCalculator = &customExpiry{r.tbls["expcreate"], r.tbls["expupdate"], r.tbls["expread"]}
	}
	f := strings.Split(cfg["refresh"], ":")
	switch f[0] {
	case "creating":
		o.RefreshCalculator = otter.RefreshCreating[int, int](dur(f))
	case "writing":
		o.RefreshCalculator = otter.RefreshWriting[int, int](dur(f))
	case "custom":
		o.RefreshCalculator = &customRefresh{r.tbls["refcreate"], r.tbls["refupdate"], r.tbls["refreload"], r.tbls["reffail"]}
	}
	if c, ok := cfg["cap"]; ok {
		n, _ := strconv.Atoi(c)
		o.InitialCapacity = n
	}
	if main {
		c0, _ := strconv.ParseInt(cfg["clock0"], 10, 64)
		r.clock = &manualClock{now: c0}
	}
	o.Clock = r.clock
	o.Logger = nopLogger{}
	o.StatsRecorder = stats.NewCounter()
	if !main {
		o.Executor = func(fn func()) { fn() }
		return o
	}
	r.deferred = cfg["exec"] == "deferred"
	if r.deferred {
		o.Executor = func(fn func()) { r.queue = append(r.queue, fn) }
	} else {
		o.Executor = func(fn func()) { fn() }
	}
	o.OnAtomicDeletion = func(e otter.DeletionEvent[int, int]) {
		r.events = append(r.events, fmt.Sprintf("A:%d:%d:%s", e.Key, e.Value, e.Cause))
	}
	o.OnDeletion = func(e otter.DeletionEvent[int, int]) {
		r.events = append(r.events, fmt.Sprintf("D:%d:%d:%s", e.Key, e.Value, e.Cause))
	}
	return o
}

func errTok(err error) string {
	switch {
	case err == nil:
		return "nil"
	case errors.Is(err, otter.ErrNotFound):
		return "nf"
	case errors.Is(err, errLoader):
		return "err"
	default:
		return "other(" + strings.ReplaceAll(err.Error(), " ", "_") + ")"
	}
}

func fmtKV(m map[int]int) string {
	ks := make([]int, 0, len(m))
	for k := range m {
		ks = append(ks, k)
	}
	sort.Ints(ks)
	var sb []string
	for _, k := range ks {
		sb = append(sb, fmt.Sprintf("%d=%d", k, m[k]))
	}
	return strings.Join(sb, ",")
}

func parseKVs(s string) map[int]int {
	m := map[int]int{}
	for _, p := range strings.Split(s, ",") {
		kv := strings.SplitN(p, "=", 2)
		if len(kv) != 2 {
			continue
		}
		k, _ := strconv.Atoi(kv[0])
		v, _ := strconv.Atoi(kv[1])
		m[k] = v
	}
	return m
}

func parseInts(s string) []int {
	var out []int
	for _, p := range strings.Split(s, ",") {
		if p == "" {
			continue
		}
		k, _ := strconv.Atoi(p)
		out = append(out, k)
	}
	return out
}

// pollChans collects delivered refresh results (non-blocking).
func (r *seqRun) pollChans() string {
	var parts []string
	rids := make([]int, 0)
	for rid := range r.chans {
		rids = append(rids, rid)
	}
	for rid := range r.bchans {
		rids = append(rids, rid)
	}
	sort.Ints(rids)
	for _, rid := range rids {
		if ch, ok := r.chans[rid]; ok {
			select {
			case res := <-ch:
				parts = append(parts, fmt.Sprintf("%d=%d:%d:%s", rid, res.Key, res.Value, errTok(res.Err)))
				// a second delivery would be a violation: check non-blockingly
				select {
				case res2 := <-ch:
					parts = append(parts, fmt.Sprintf("%d=%d:%d:%s", rid, res2.Key, res2.Value, errTok(res2.Err)))
				default:
				}
				delete(r.chans, rid)
			default:
			}
		} else if ch, ok := r.bchans[rid]; ok {
			select {
			case res := <-ch:
				sort.Slice(res, func(i, j int) bool { return res[i].Key < res[j].Key })
				var ps []string
				for _, x := range res {
					ps = append(ps, fmt.Sprintf("%d:%d:%s", x.Key, x.Value, errTok(x.Err)))
				}
				body := strings.Join(ps, ",")
				if len(res) == 0 {
					body = "[]"
				}
				parts = append(parts, fmt.Sprintf("%d=%s", rid, body))
				delete(r.bchans, rid)
			default:
			}
		}
	}
	if len(parts) == 0 {
		return ""
	}
	return " chans:" + strings.Join(parts, ";")
}

// loader used by load/bulkget/refresh ops: outcome per invocation from r.outcomes.
type scriptLoader struct{ r *seqRun }

func (l scriptLoader) outcome() string {
	r := l.r
	i := r.invIdx
	if i >= len(r.outcomes) {
		i = len(r.outcomes) - 1
	}
	r.invIdx++
	return r.outcomes[i]
}

func (l scriptLoader) runNested() {
	r := l.r
	if r.nestedDone {
		return
	}
	r.nestedDone = true
	nested := r.nested
	// nested ops must not clobber the loader bookkeeping of the enclosing op
	for _, op := range nested {
		r.execSimple(strings.Fields(op))
	}
}

func (l scriptLoader) armAfterRet() {
	r := l.r
	if len(r.afterRet) == 0 {
		return
	}
	ops := r.afterRet
	r.afterRet = nil
	r.clock.hook = func() {
		for _, op := range ops {
			r.execSimple(strings.Fields(op))
		}
	}
}

func (l scriptLoader) single(kind string, key int, old int) (int, error) {
	r := l.r
	oc := l.outcome()
	if kind == "reload" {
		r.emit("call reload %d=%d", key, old)
	} else {
		r.emit("call load %d", key)
	}
	l.runNested()
	r.emit("ret %s", oc)
	l.armAfterRet()
	p := strings.SplitN(oc, ":", 2)
	v := 0
	if len(p) == 2 {
		v, _ = strconv.Atoi(p[1])
	}
	switch p[0] {
	case "ok":
		return v, nil
	case "err":
		return v, errLoader
	case "nf":
		return v, notFoundErr(v)
	default:
		panic("loader-panic")
	}
}

// isNotFoundErr is an error type that answers errors.Is(err, otter.ErrNotFound) through its own Is method
type isNotFoundErr struct{}

func (isNotFoundErr) Error() string        { return "record is gone" }
func (isNotFoundErr) Is(target error) bool { return target == otter.ErrNotFound }

// notFoundErr: the ways a loader can say "not found" (everything errors.Is(err, otter.ErrNotFound) accepts): the sentinel itself,
// wrapped once, wrapped together with another error (two %w verbs, errors.Join), or a type with an Is method.  The choice is a
// function of the script's value so that a replay makes the same one.
func notFoundErr(v int) error {
	switch v % 6 {
	case 1:
		return fmt.Errorf("loading: %w", otter.ErrNotFound)
	case 2:
		return fmt.Errorf("%w (%w)", errors.New("backend said no"), otter.ErrNotFound)
	case 3:
		return errors.Join(errors.New("backend said no"), otter.ErrNotFound)
	case 4:
		return isNotFoundErr{}
	case 5:
		return fmt.Errorf("outer: %w", errors.Join(otter.ErrNotFound))
	default:
		return otter.ErrNotFound
	}
}

func (l scriptLoader) Load(_ context.Context, key int) (int, error) {
	return l.single("load", key, 0)
}
func (l scriptLoader) Reload(_ context.Context, key int, old int) (int, error) {
	return l.single("reload", key, old)
}

func (l scriptLoader) bulk(kind string, keys []int, olds []int) (map[int]int, error) {
	r := l.r
	oc := l.outcome()
	if kind == "bulkreload" {
		m := map[int]int{}
		for i, k := range keys {
			m[k] = olds[i]
		}
		r.emit("call bulkreload %s", fmtKV(m))
	} else {
		ks := append([]int{}, keys...)
		sort.Ints(ks)
		var sb []string
		for _, k := range ks {
			sb = append(sb, strconv.Itoa(k))
		}
		r.emit("call bulkload %s", strings.Join(sb, ","))
	}
	l.runNested()
	r.emit("ret %s", oc)
	l.armAfterRet()
	p := strings.SplitN(oc, ":", 2)
	var m map[int]int
	if len(p) == 2 {
		m = parseKVs(p[1])
	} else {
		m = map[int]int{}
	}
	if len(m) == 0 && len(keys)%2 == 1 {
		// a loader with nothing to report may just as well return a nil map (with or without an error)
		m = nil
	}
	switch p[0] {
	case "ok":
		return m, nil
	case "err":
		return m, errLoader
	default:
		panic("loader-panic")
	}
}

func (l scriptLoader) BulkLoad(_ context.Context, keys []int) (map[int]int, error) {
	return l.bulk("bulkload", keys, nil)
}
func (l scriptLoader) BulkReload(_ context.Context, keys []int, olds []int) (map[int]int, error) {
	return l.bulk("bulkreload", keys, olds)
}

func fmtEntry(e otter.Entry[int, int], ok bool) string {
	if !ok {
		return "-"
	}
	return fmt.Sprintf("%d %d %d %d %d", e.Value, e.Weight, e.ExpiresAtNano, e.RefreshableAtNano, e.SnapshotAtNano)
}

func parseAct(s string, v *int) otter.ComputeOp {
	switch {
	case s == "inv":
		return otter.InvalidateOp
	case s == "can":
		return otter.CancelOp
	case s == "bad":
		return otter.ComputeOp(77)
	case strings.HasPrefix(s, "w"):
		*v, _ = strconv.Atoi(s[1:])
		return otter.WriteOp
	}
	return otter.CancelOp
}

func (r *seqRun) execSimple(t []string) {
	c := r.cache
	name := strings.Join(t, " ")
	atoi := func(s string) int { n, _ := strconv.Atoi(s); return n }
	switch t[0] {
	case "set":
		v, ok := c.Set(atoi(t[1]), atoi(t[2]))
		r.emit("op %s => %d %v", name, v, ok)
	case "sia":
		v, ok := c.SetIfAbsent(atoi(t[1]), atoi(t[2]))
		r.emit("op %s => %d %v", name, v, ok)
	case "get":
		v, ok := c.GetIfPresent(atoi(t[1]))
		r.emit("op %s => %d %v", name, v, ok)
	case "entry":
		e, ok := c.GetEntry(atoi(t[1]))
		r.emit("op %s => %s", name, fmtEntry(e, ok))
	case "qentry":
		e, ok := c.GetEntryQuietly(atoi(t[1]))
		r.emit("op %s => %s", name, fmtEntry(e, ok))
	case "compute":
		cb := "cb=none"
		res := func() (s string) {
			defer func() {
				if p := recover(); p != nil {
					s = "panic"
				}
			}()
			v, ok := c.Compute(atoi(t[1]), func(old int, found bool) (int, otter.ComputeOp) {
				a := t[3]
				if found {
					a = t[2]
					cb = fmt.Sprintf("cb=f%d", old)
				} else {
					cb = "cb=a"
				}
				if a == "pan" {
					panic("callback-panic")
				}
				var nv int
				op := parseAct(a, &nv)
				return nv, op
			})
			return fmt.Sprintf("%d %v", v, ok)
		}()
		r.emit("op %s => %s %s", name, res, cb)
	case "cia":
		cb := "cb=none"
		res := func() (s string) {
			defer func() {
				if p := recover(); p != nil {
					s = "panic"
				}
			}()
			v, ok := c.ComputeIfAbsent(atoi(t[1]), func() (int, bool) {
				cb = "cb=a"
				if t[2] == "pan" {
					panic("callback-panic")
				}
				if t[2] == "can" {
					return 0, true
				}
				var nv int
				parseAct(t[2], &nv)
				return nv, false
			})
			return fmt.Sprintf("%d %v", v, ok)
		}()
		r.emit("op %s => %s %s", name, res, cb)
	case "cip":
		cb := "cb=none"
		res := func() (s string) {
			defer func() {
				if p := recover(); p != nil {
					s = "panic"
				}
			}()
			v, ok := c.ComputeIfPresent(atoi(t[1]), func(old int) (int, otter.ComputeOp) {
				cb = fmt.Sprintf("cb=f%d", old)
				if t[2] == "pan" {
					panic("callback-panic")
				}
				var nv int
				op := parseAct(t[2], &nv)
				return nv, op
			})
			return fmt.Sprintf("%d %v", v, ok)
		}()
		r.emit("op %s => %s %s", name, res, cb)
	case "inval":
		v, ok := c.Invalidate(atoi(t[1]))
		r.emit("op %s => %d %v", name, v, ok)
	case "invalall":
		c.InvalidateAll()
		r.emit("op %s =>", name)
	case "expafter":
		d, _ := strconv.ParseInt(t[2], 10, 64)
		c.SetExpiresAfter(atoi(t[1]), time.Duration(d))
		r.emit("op %s =>", name)
	case "refafter":
		d, _ := strconv.ParseInt(t[2], 10, 64)
		c.SetRefreshableAfter(atoi(t[1]), time.Duration(d))
		r.emit("op %s =>", name)
	case "setmax":
		n, _ := strconv.ParseUint(t[1], 10, 64)
		c.SetMaximum(n)
		r.emit("op %s =>", name)
	case "getmax":
		r.emit("op %s => %d", name, c.GetMaximum())
	case "adv":
		d, _ := strconv.ParseInt(t[1], 10, 64)
		r.clock.now += d
		r.emit("op %s =>", name)
	case "cleanup":
		c.CleanUp()
		r.emit("op %s =>", name)
	case "settle":
		for i := 0; i < 3; i++ {
			r.clock.now += 1 << 31
			c.CleanUp()
		}
		r.emit("op %s =>", name)
	case "bound":
		c.CleanUp()
		r.emit("op %s =>", name)
	case "all":
		m := map[int]int{}
		dup := false
		for k, v := range c.All() {
			if _, ok := m[k]; ok {
				dup = true
			}
			m[k] = v
		}
		s := fmtKV(m)
		if dup {
			s += ",DUP"
		}
		r.emit("op %s => %s", name, s)
	case "iteradv":
		// iterate; after the first element has been received the clock jumps by d (no maintenance in between)
		d, _ := strconv.ParseInt(t[2], 10, 64)
		first := "-"
		var rest []string
		got := 0
		yield := func(tok string) {
			if got == 0 {
				first = tok
				r.clock.now += d
			} else {
				rest = append(rest, tok)
			}
			got++
		}
		switch t[1] {
		case "all":
			for k, v := range c.All() {
				yield(fmt.Sprintf("%d=%d", k, v))
			}
		case "keys":
			for k := range c.Keys() {
				yield(fmt.Sprint(k))
			}
		default:
			for v := range c.Values() {
				yield(fmt.Sprint(v))
			}
		}
		if got == 0 {
			r.clock.now += d
		}
		sort.Strings(rest)
		r.emit("op %s => first=%s rest=%s", name, first, strings.Join(rest, ","))
	case "keys":
		var ks []int
		for k := range c.Keys() {
			ks = append(ks, k)
		}
		sort.Ints(ks)
		r.emit("op %s => %s", name, joinInts(ks))
	case "values":
		var vs []int
		for v := range c.Values() {
			vs = append(vs, v)
		}
		sort.Ints(vs)
		r.emit("op %s => %s", name, joinInts(vs))
	case "hottest", "coldest":
		it := c.Hottest()
		if t[0] == "coldest" {
			it = c.Coldest()
		}
		var es []string
		type kv struct{ k, v int }
		var l []kv
		for e := range it {
			l = append(l, kv{e.Key, e.Value})
		}
		sort.Slice(l, func(i, j int) bool { return l[i].k < l[j].k || (l[i].k == l[j].k && l[i].v < l[j].v) })
		for _, x := range l {
			es = append(es, fmt.Sprintf("%d=%d", x.k, x.v))
		}
		r.emit("op %s => %s", name, strings.Join(es, ","))
	case "size":
		r.emit("op %s => %d", name, c.EstimatedSize())
	case "wsize":
		r.emit("op %s => %d", name, c.WeightedSize())
	case "stats":
		s := c.Stats()
		r.emit("op %s => %d %d %d %d %d %d", name, s.Hits, s.Misses, s.LoadSuccesses, s.LoadFailures, s.Evictions, s.EvictionWeight)
	case "save":
		var buf bytes.Buffer
		var err error
		if atoi(t[1])%2 == 1 {
			// odd slots go through the file variants (into a directory that does not exist yet)
			dir, derr := os.MkdirTemp("", "verifh-persist")
			if derr != nil {
				panic(derr)
			}
			path := filepath.Join(dir, "a", "b", "cache.gob")
			err = otter.SaveCacheToFile(c, path)
			data, _ := os.ReadFile(path)
			buf.Write(data)
			os.RemoveAll(dir)
		} else {
			err = otter.SaveCacheTo(c, &buf)
		}
		if r.slots == nil {
			r.slots = map[int][]byte{}
		}
		r.slots[atoi(t[1])] = append([]byte{}, buf.Bytes()...)
		// decode what was written (the standard gob decoder is the reference reader)
		dec := gob.NewDecoder(bytes.NewReader(buf.Bytes()))
		var mx uint64
		var parts []string
		if derr := dec.Decode(&mx); derr == nil {
			for {
				var e otter.Entry[int, int]
				if derr := dec.Decode(&e); derr != nil {
					break
				}
				parts = append(parts, fmt.Sprintf("%d:%d:%d:%d:%d", e.Key, e.Value, e.Weight, e.ExpiresAtNano, e.RefreshableAtNano))
			}
		}
		r.emit("op %s => %s max=%d %s", name, errTok(err), mx, strings.Join(parts, ","))
	case "loadfrom":
		// loadfrom <slot> <max|same>: a fresh cache of the same configuration (optionally another maximum)
		target := otter.Must(r.options(false, t[2]))
		if len(t) > 3 && t[3] == "used" {
			// an EMPTIED cache instead of a fresh one: a history that leaves state behind in the policies (entries inserted,
			// demoted to probation, promoted by reads, overwritten - with an oversized weight where the weigher table has
			// one -, maximum lowered and restored), then InvalidateAll.  C19 speaks of "an empty cache of the same configuration".
			r.useTarget(target)
			name = strings.Join(t[:3], " ")
		}
		var err error
		if atoi(t[1])%2 == 1 {
			dir, derr := os.MkdirTemp("", "verifh-persist")
			if derr != nil {
				panic(derr)
			}
			path := filepath.Join(dir, "cache.gob")
			if werr := os.WriteFile(path, r.slots[atoi(t[1])], 0o600); werr != nil {
				panic(werr)
			}
			err = otter.LoadCacheFromFile(target, path)
			os.RemoveAll(dir)
		} else {
			err = otter.LoadCacheFrom(target, bytes.NewReader(r.slots[atoi(t[1])]))
		}
		target.CleanUp()
		var parts []string
		keys := []int{}
		for k := range target.Keys() {
			keys = append(keys, k)
		}
		sort.Ints(keys)
		for _, k := range keys {
			if e, ok := target.GetEntryQuietly(k); ok {
				parts = append(parts, fmt.Sprintf("%d:%d:%d:%d:%d", e.Key, e.Value, e.Weight, e.ExpiresAtNano, e.RefreshableAtNano))
			}
		}
		tm := target.GetMaximum()
		target.StopAllGoroutines()
		r.emit("op %s => %s max=%d %s", name, errTok(err), tm, strings.Join(parts, ","))
	case "quiesce":
		r.emit("quiesce")
	default:
		fmt.Fprintf(os.Stderr, "verifh seq: unknown op %q\n", name)
		os.Exit(2)
	}
}

func joinInts(a []int) string {
	var sb []string
	for _, x := range a {
		sb = append(sb, strconv.Itoa(x))
	}
	return strings.Join(sb, ",")
}

// execLoader runs load/bulkget/refresh/bulkrefresh/runexec: "<kind> <keys> <outcome[/outcome..]> { nested ; nested }"
func (r *seqRun) execLoader(line string) {
	head := line
	r.nested = nil
	r.afterRet = nil
	if i := strings.Index(line, "!{"); i >= 0 {
		body := strings.TrimSpace(strings.TrimSuffix(strings.TrimSpace(line[i+2:]), "}"))
		for _, p := range strings.Split(body, ";") {
			if p = strings.TrimSpace(p); p != "" {
				r.afterRet = append(r.afterRet, p)
			}
		}
		line = strings.TrimSpace(line[:i])
		head = line
	}
	if i := strings.Index(line, "{"); i >= 0 {
		head = strings.TrimSpace(line[:i])
		body := strings.TrimSpace(strings.TrimSuffix(strings.TrimSpace(line[i+1:]), "}"))
		for _, p := range strings.Split(body, ";") {
			if p = strings.TrimSpace(p); p != "" {
				r.nested = append(r.nested, p)
			}
		}
	}
	t := strings.Fields(head)
	r.invIdx = 0
	r.nestedDone = false
	if len(t) >= 3 {
		r.outcomes = strings.Split(t[2], "/")
	} else {
		r.outcomes = []string{"ok:0"}
	}
	ld := scriptLoader{r}
	ctx := context.Background()
	if strings.HasSuffix(t[0], "~") {
		// the caller's context is already cancelled: the cache hands loaders a context.WithoutCancel, so the operation
		// must behave exactly as with a live context (same transcript, same judge)
		cctx, cancel := context.WithCancel(ctx)
		cancel()
		ctx = cctx
		t[0] = strings.TrimSuffix(t[0], "~")
	}
	defer func() { r.clock.hook = nil }()
	c := r.cache
	switch t[0] {
	case "load":
		k, _ := strconv.Atoi(t[1])
		r.emit("begin load %d", k)
		res := func() (s string) {
			defer func() {
				if p := recover(); p != nil {
					s = "panic"
				}
			}()
			v, err := c.Get(ctx, k, ld)
			return fmt.Sprintf("%d %s", v, errTok(err))
		}()
		r.emit("end => %s%s", res, r.pollChans())
	case "bulkget":
		ks := parseInts(t[1])
		r.emit("begin bulkget %s", t[1])
		res := func() (s string) {
			defer func() {
				if p := recover(); p != nil {
					s = "panic"
				}
			}()
			m, err := c.BulkGet(ctx, ks, ld)
			return fmt.Sprintf("%s %s", fmtKV(m), errTok(err))
		}()
		r.emit("end => %s%s", res, r.pollChans())
	case "refresh":
		k, _ := strconv.Atoi(t[1])
		r.emit("begin refresh %d", k)
		res := func() (s string) {
			defer func() {
				if p := recover(); p != nil {
					s = "panic"
				}
			}()
			ch := c.Refresh(ctx, k, ld)
			if ch == nil {
				return "nochan"
			}
			rid := r.nextRid
			r.nextRid++
			r.chans[rid] = ch
			return "chan"
		}()
		if res == "panic" {
			// the refresh id was consumed by the model as well: keep numbering aligned
			r.nextRid++
		}
		r.emit("end => %s%s", res, r.pollChans())
	case "bulkrefresh":
		ks := parseInts(t[1])
		r.emit("begin bulkrefresh %s", t[1])
		res := func() (s string) {
			defer func() {
				if p := recover(); p != nil {
					s = "panic"
				}
			}()
			ch := c.BulkRefresh(ctx, ks, ld)
			if ch == nil {
				return "nochan"
			}
			rid := r.nextRid
			r.nextRid++
			r.bchans[rid] = ch
			return "chan"
		}()
		if res == "panic" {
			r.nextRid++
		}
		r.emit("end => %s%s", res, r.pollChans())
	case "runexec":
		r.emit("begin runexec")
		res := func() (s string) {
			defer func() {
				if p := recover(); p != nil {
					s = "panic"
				}
			}()
			for len(r.queue) > 0 {
				fn := r.queue[0]
				r.queue = r.queue[1:]
				fn()
			}
			return ""
		}()
		r.emit("end => %s%s", res, r.pollChans())
	}
}

// useTarget gives a load target a past and then empties it (see "loadfrom ... used").
func (r *seqRun) useTarget(c *otter.Cache[int, int]) {
	const base = 100000
	n := 24
	light, heavy := 0, -1
	if len(r.wt) > 0 {
		mx := c.GetMaximum()
		for v := 0; v < len(r.wt); v++ {
			// value v for key base+i has weight wt[(base+i+v)%len]; pick per key below
			_ = v
		}
		_ = mx
	}
	valFor := func(k int, wantHeavy bool) int {
		if len(r.wt) == 0 {
			return 1
		}
		mx := c.GetMaximum()
		best := 0
		for v := 0; v < len(r.wt); v++ {
			w := uint64(r.wt[(k+v)%len(r.wt)])
			if wantHeavy && w > mx {
				return v
			}
			if !wantHeavy && w >= 1 && w <= 2 {
				best = v
			}
		}
		if wantHeavy {
			return -1
		}
		return best
	}
	_, _ = light, heavy
	for round := 0; round < 3; round++ {
		for i := 0; i < n; i++ {
			c.Set(base+i, valFor(base+i, false))
		}
		c.CleanUp()
		for rep := 0; rep < 3; rep++ {
			for i := 0; i < n; i++ {
				c.GetIfPresent(base + i)
			}
			c.CleanUp()
		}
	}
	for i := 0; i < n; i++ {
		if v := valFor(base+i, true); v >= 0 {
			c.Set(base+i, v) // an oversized replacement of an entry that may sit in any of the policy's queues
		} else {
			c.Set(base+i, valFor(base+i, false)+len(r.wt))
		}
	}
	c.CleanUp()
	if mx := c.GetMaximum(); mx > 1 && mx < 1<<62 {
		c.SetMaximum(mx / 2)
		c.CleanUp()
		c.SetMaximum(mx)
	}
	c.InvalidateAll()
	c.CleanUp()
}

// runScript executes the script text and writes the transcript.
func runScript(id string, script []string, out *bufio.Writer) { runScriptLocked(id, script, out, nil) }

func runScriptLocked(id string, script []string, out *bufio.Writer, mu *sync.Mutex) {
	r := &seqRun{out: out, tbls: map[string]*tbl{}, wt: []uint32{1}, mu: mu}
	fmt.Fprintf(out, "script %s\n", id)
	built := false
	defer func() {
		if r.cache != nil {
			r.cache.StopAllGoroutines()
		}
	}()
	for _, line := range script {
		line = strings.TrimSpace(line)
		if line == "" || strings.HasPrefix(line, "#") {
			continue
		}
		t := strings.Fields(line)
		switch t[0] {
		case "cfg":
			r.cfg = map[string]string{}
			for _, kv := range t[1:] {
				p := strings.SplitN(kv, "=", 2)
				if len(p) == 2 {
					r.cfg[p[0]] = p[1]
				}
			}
			fmt.Fprintln(out, line)
			continue
		case "tbl":
			r.tbls[t[1]] = parseTblLine(t[2:])
			fmt.Fprintln(out, line)
			continue
		case "wt":
			r.wt = nil
			for _, x := range t[1:] {
				n, _ := strconv.ParseUint(x, 10, 32)
				r.wt = append(r.wt, uint32(n))
			}
			fmt.Fprintln(out, line)
			continue
		}
		if !built {
			r.build()
			built = true
		}
		switch strings.TrimSuffix(t[0], "~") {
		case "load", "bulkget", "refresh", "bulkrefresh", "runexec":
			r.execLoader(line)
		default:
			r.execSimple(t)
		}
	}
}
