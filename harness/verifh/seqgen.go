package main

// Script generator for the SEQ engine.  Every random choice derives from one splitmix64
// state, so a (seed, profile, index) triple replays exactly on any Go toolchain.

import (
	"fmt"
	"math"
	"strings"
)

type rng struct{ s uint64 }

func (r *rng) next() uint64 {
	r.s += 0x9e3779b97f4a7c15
	z := r.s
	z = (z ^ (z >> 30)) * 0xbf58476d1ce4e5b9
	z = (z ^ (z >> 27)) * 0x94d049bb133111eb
	return z ^ (z >> 31)
}
func (r *rng) intn(n int) int        { return int(r.next() % uint64(n)) }
func (r *rng) chance(p float64) bool { return float64(r.next()%1000000)/1000000.0 < p }
func pick[T any](r *rng, xs []T) T   { return xs[r.intn(len(xs))] }

type seqGen struct {
	r        *rng
	lines    []string
	nkeys    int
	nextVal  int
	unit     int64
	ttl      int64
	withExp  bool
	withRef  bool
	bounded  bool
	weighted bool
	giant    bool
	wide     bool
	max      int
	deferred bool
	clock    int64
	profile  string
	saved    map[int]bool
	dirty    map[int]bool // deferred executor: keys written since the executor last ran
	avoidK1  bool
	zeroUsed bool
}

// keys include 0 and, once per script, the value 0 is written: zero values are where encoders and "absent" markers go wrong
func (g *seqGen) key() int { return g.r.intn(g.nkeys + 1) }

// cx: every eighth loading call is made with an already-cancelled context (suffix "~" on the op name)
func (g *seqGen) cx() string {
	if g.r.chance(0.12) {
		return "~"
	}
	return ""
}
func (g *seqGen) val() int {
	if !g.zeroUsed && g.r.chance(0.08) {
		g.zeroUsed = true
		return 0
	}
	g.nextVal++
	return g.nextVal
}
func (g *seqGen) add(f string, a ...any) {
	line := fmt.Sprintf(f, a...)
	if g.avoidK1 {
		// known finding K1: a key rewritten before the executor replayed its previous write event ends up
		// unknown to the eviction policy.  Keep this profile K1-free: pump the executor first.
		t := strings.Fields(line)
		if len(t) > 0 {
			t[0] = strings.TrimSuffix(t[0], "~")
		}
		writes := map[string]bool{"set": true, "sia": true, "compute": true, "cia": true, "cip": true, "inval": true,
			"load": true, "bulkget": true, "refresh": true, "bulkrefresh": true, "invalall": true, "loadfrom": true, "save": true}
		if len(t) > 0 && (t[0] == "runexec" || t[0] == "cleanup" || t[0] == "bound") {
			g.dirty = map[int]bool{}
		} else if len(t) > 1 && writes[t[0]] {
			if len(g.dirty) > 0 {
				g.lines = append(g.lines, "runexec")
				g.dirty = map[int]bool{}
			}
			g.dirty[1] = true
		}
	}
	g.lines = append(g.lines, line)
}

func (g *seqGen) dur() int64 {
	// durations around the configured ttl, plus boundary values
	r := g.r
	switch r.intn(12) {
	case 0:
		return 1
	case 1:
		return g.ttl - 1
	case 2:
		return g.ttl + 1
	case 3:
		return g.unit
	case 4:
		if g.profile == "huge" {
			return math.MaxInt64
		}
		return g.ttl * 3
	case 5:
		if g.profile == "huge" {
			return math.MaxInt64 - g.clock - int64(r.intn(3)) + 1
		}
		return g.ttl / 2
	default:
		return g.ttl * int64(1+r.intn(3)) / int64(1+r.intn(2))
	}
}

func (g *seqGen) posdur() int64 {
	d := g.dur()
	if d <= 0 {
		d = 1
	}
	return d
}

func (g *seqGen) adv() {
	r := g.r
	var d int64
	switch r.intn(10) {
	case 0:
		d = 1
	case 1:
		d = g.ttl
	case 2:
		d = g.ttl - 1
	case 3:
		d = g.ttl + 1
	case 4:
		d = g.ttl * 5
	case 5:
		d = (1 << 30) + int64(r.intn(3)) - 1
	case 6:
		d = int64(3e9)
	default:
		d = g.ttl / int64(1+r.intn(4))
	}
	if d <= 0 {
		d = 1
	}
	if g.clock > math.MaxInt64-d-(1<<41) {
		return // keep the clock away from overflow itself
	}
	g.clock += d
	g.add("adv %d", d)
}

func (g *seqGen) act() string {
	switch g.r.intn(10) {
	case 0, 1, 2, 3, 4:
		return fmt.Sprintf("w%d", g.val())
	case 5, 6:
		return "inv"
	case 7, 8:
		return "can"
	default:
		if g.r.chance(0.5) {
			return "pan"
		}
		return "bad"
	}
}

func (g *seqGen) simpleOp(nested bool, k int) string {
	r := g.r
	if k == 0 || r.chance(0.5) {
		k = g.key()
	}
	n := r.intn(100)
	switch {
	case n < 22:
		return fmt.Sprintf("set %d %d", k, g.val())
	case n < 28:
		return fmt.Sprintf("sia %d %d", k, g.val())
	case n < 42:
		return fmt.Sprintf("get %d", k)
	case n < 46:
		return fmt.Sprintf("entry %d", k)
	case n < 52:
		return fmt.Sprintf("qentry %d", k)
	case n < 60:
		return fmt.Sprintf("compute %d %s %s", k, g.act(), g.act())
	case n < 65:
		a := g.act()
		if a == "inv" || a == "bad" {
			a = "can"
		}
		return fmt.Sprintf("cia %d %s", k, a)
	case n < 70:
		return fmt.Sprintf("cip %d %s", k, g.act())
	case n < 78:
		return fmt.Sprintf("inval %d", k)
	case n < 82 && g.withExp:
		return fmt.Sprintf("expafter %d %d", k, g.posdur())
	case n < 85 && g.withRef:
		return fmt.Sprintf("refafter %d %d", k, g.posdur())
	case n < 88:
		return "cleanup"
	case n < 90 && g.bounded && !nested:
		return fmt.Sprintf("setmax %d", pick(r, []int{0, 1, 2, g.max, g.max * 2, g.max + 1}))
	case n < 92 && !nested:
		return "invalall"
	case n < 95 && g.withExp && !nested:
		// an iteration during which the clock passes deadlines: nothing may be yielded after its expiration time
		d := g.posdur()
		if d > 1<<40 {
			d = 1 << 40
		}
		if g.clock > math.MaxInt64-d-(1<<41) {
			return fmt.Sprintf("get %d", k)
		}
		g.clock += d // the advance is part of the operation
		return fmt.Sprintf("iteradv %s %d", pick(r, []string{"all", "keys", "values"}), d)
	default:
		return fmt.Sprintf("get %d", k)
	}
}

func (g *seqGen) outcome() string {
	switch g.r.intn(10) {
	case 0, 1, 2, 3, 4, 5:
		return fmt.Sprintf("ok:%d", g.val())
	case 6, 7:
		return fmt.Sprintf("err:%d", g.val())
	case 8:
		return fmt.Sprintf("nf:%d", g.val())
	default:
		return "pan"
	}
}

func (g *seqGen) bulkOutcome(keys []int) string {
	r := g.r
	n := r.intn(10)
	var kv []string
	seen := map[int]bool{}
	for _, k := range keys {
		if seen[k] {
			continue
		}
		seen[k] = true
		if r.chance(0.75) {
			kv = append(kv, fmt.Sprintf("%d=%d", k, g.val()))
		}
	}
	if r.chance(0.3) {
		k := g.key()
		if !seen[k] {
			kv = append(kv, fmt.Sprintf("%d=%d", k, g.val()))
		}
	}
	body := strings.Join(kv, ",")
	if r.chance(0.1) {
		body = "" // the loader reports nothing at all (nil or empty map)
	}
	switch {
	case n < 7:
		return "ok:" + body
	case n < 9:
		return "err:" + body
	default:
		return "pan"
	}
}

func (g *seqGen) nestedBlock(keys []int) string {
	if g.avoidK1 || !g.r.chance(0.35) {
		return ""
	}
	var ops []string
	for i := 0; i < 1+g.r.intn(3); i++ {
		if g.r.chance(0.2) {
			// clock advance inside the loader
			d := g.ttl / int64(1+g.r.intn(3))
			if d <= 0 {
				d = 1
			}
			if g.clock < math.MaxInt64-d-(1<<41) {
				g.clock += d
				ops = append(ops, fmt.Sprintf("adv %d", d))
			}
			continue
		}
		ops = append(ops, g.simpleOp(true, pick(g.r, keys)))
	}
	return " { " + strings.Join(ops, " ; ") + " }"
}

// afterRetBlock: writes placed between the loader's return and the installation of its result (never blocking operations)
func (g *seqGen) afterRetBlock(keys []int) string {
	if g.avoidK1 || !g.r.chance(0.3) {
		return ""
	}
	var ops []string
	for i := 0; i < 1+g.r.intn(2); i++ {
		k := pick(g.r, keys)
		switch g.r.intn(5) {
		case 0, 1:
			ops = append(ops, fmt.Sprintf("set %d %d", k, g.val()))
		case 2:
			ops = append(ops, fmt.Sprintf("inval %d", k))
		case 3:
			ops = append(ops, fmt.Sprintf("compute %d %s %s", k, g.act(), g.act()))
		default:
			ops = append(ops, fmt.Sprintf("get %d", k))
		}
	}
	return " !{ " + strings.Join(ops, " ; ") + " }"
}

// staleLoad: a key whose entry has expired but is still in the table is loaded, and the key is written, computed or
// invalidated while that load runs (inside the loader, or between its return and the installation): the load's result must
// not replace the write (C09), whatever the table held before
func (g *seqGen) staleLoad() {
	k := g.key()
	g.add("set %d %d", k, g.val())
	d := g.ttl + int64(g.r.intn(3))
	if d <= 0 {
		d = 1
	}
	if g.clock > math.MaxInt64-d-(1<<41) {
		return
	}
	g.clock += d
	g.add("adv %d", d)
	var w string
	switch g.r.intn(6) {
	case 0, 1:
		w = fmt.Sprintf("set %d %d", k, g.val())
	case 2:
		w = fmt.Sprintf("sia %d %d", k, g.val())
	case 3:
		w = fmt.Sprintf("compute %d w%d w%d", k, g.val(), g.val())
	case 4:
		w = fmt.Sprintf("cia %d w%d", k, g.val())
	default:
		w = fmt.Sprintf("inval %d", k)
	}
	op := "load"
	if g.withRef && g.r.chance(0.3) {
		op = "refresh"
	}
	if g.r.chance(0.6) {
		g.add("%s %d ok:%d/ok:%d { %s }", op, k, g.val(), g.val(), w)
	} else {
		g.add("%s %d ok:%d/ok:%d !{ %s }", op, k, g.val(), g.val(), w)
	}
	g.add("get %d", k)
}

// foreverThenFinite: an entry whose deadline is exactly "never" (the saturated MaxInt64) gets a finite lifetime, the clock
// passes it and maintenance runs: the entry is swept and reported like any other (C13, C06)
func (g *seqGen) foreverThenFinite() {
	k := g.key()
	g.add("set %d %d", k, g.val())
	g.add("expafter %d %d", k, int64(math.MaxInt64)-int64(g.r.intn(2)))
	if g.r.chance(0.5) {
		g.add("get %d", k)
	}
	d := g.unit * int64(1+g.r.intn(4))
	g.add("expafter %d %d", k, d)
	adv := d + (1 << 31) + int64(g.r.intn(1000))
	if g.clock > math.MaxInt64-adv-(1<<41) {
		return
	}
	g.clock += adv
	g.add("adv %d", adv)
	g.add("cleanup")
}

// quietRefresh: an explicit refresh (failing, not-found or successful) of an entry some time after its last access, then a
// look at the entry's deadlines: Refresh is not a read (C11: a failed reload leaves the entry and its expiry untouched; C12)
func (g *seqGen) quietRefresh() {
	k := g.key()
	g.add("set %d %d", k, g.val())
	d := g.ttl / int64(2+g.r.intn(3))
	if d <= 0 {
		d = 1
	}
	if g.clock <= math.MaxInt64-d-(1<<41) {
		g.clock += d
		g.add("adv %d", d)
	}
	oc := pick(g.r, []string{"err", "err", "nf", "ok"})
	if g.r.chance(0.7) {
		g.add("refresh %d %s:%d/%s:%d", k, oc, g.val(), oc, g.val())
	} else {
		g.add("bulkrefresh %d,%d %s/%s", k, g.key(), g.bulkOutcome([]int{k}), g.bulkOutcome([]int{k}))
	}
	g.add("qentry %d", k)
}

// wideBulk: one bulk load of a hundred or more keys (the table of in-flight calls outgrows its buckets), during which many
// of the keys are written or invalidated: none of those writes may be replaced by the load's result (C09), the others are
// installed (C10)
func (g *seqGen) wideBulk() {
	r := g.r
	n := 90 + r.intn(90)
	base := 1000 + r.intn(3)*500
	var ks []int
	var ss, kv []string
	for i := 0; i < n; i++ {
		ks = append(ks, base+i)
	}
	for i := n - 1; i > 0; i-- {
		j := r.intn(i + 1)
		ks[i], ks[j] = ks[j], ks[i]
	}
	for _, k := range ks {
		ss = append(ss, fmt.Sprint(k))
		kv = append(kv, fmt.Sprintf("%d=%d", k, g.val()))
	}
	var ops, after []string
	for i := 0; i < n/2; i++ {
		k := pick(r, ks)
		switch r.intn(4) {
		case 0, 1:
			ops = append(ops, fmt.Sprintf("set %d %d", k, g.val()))
		case 2:
			ops = append(ops, fmt.Sprintf("inval %d", k))
		default:
			ops = append(ops, fmt.Sprintf("compute %d w%d w%d", k, g.val(), g.val()))
		}
		after = append(after, fmt.Sprintf("get %d", k))
	}
	oc := "ok:" + strings.Join(kv, ",")
	g.add("bulkget %s %s/%s { %s }", strings.Join(ss, ","), oc, oc, strings.Join(ops, " ; "))
	for _, a := range after {
		g.add("%s", a)
	}
	for _, k := range ks {
		g.add("inval %d", k)
	}
}

func (g *seqGen) loaderOp() {
	r := g.r
	if g.profile == "load" && !g.bounded && !g.avoidK1 && !g.deferred && !g.wide && r.chance(0.03) {
		g.wide = true
		g.wideBulk()
		return
	}
	if g.withExp && !g.avoidK1 && r.chance(0.12) {
		g.staleLoad()
		return
	}
	if g.withExp && g.withRef && !g.avoidK1 && r.chance(0.1) {
		g.quietRefresh()
		return
	}
	switch r.intn(10) {
	case 0, 1, 2, 3:
		k := g.key()
		g.add("load%s %d %s/%s%s%s", g.cx(), k, g.outcome(), g.outcome(), g.nestedBlock([]int{k}), g.afterRetBlock([]int{k}))
	case 4, 5, 6:
		n := 1 + r.intn(4)
		var ks []int
		var ss []string
		for i := 0; i < n; i++ {
			k := g.key()
			ks = append(ks, k)
			ss = append(ss, fmt.Sprint(k))
		}
		g.add("bulkget%s %s %s/%s%s%s", g.cx(), strings.Join(ss, ","), g.bulkOutcome(ks), g.bulkOutcome(ks), g.nestedBlock(ks), g.afterRetBlock(ks))
	case 7, 8:
		k := g.key()
		g.add("refresh%s %d %s/%s%s%s", g.cx(), k, g.outcome(), g.outcome(), g.nestedBlock([]int{k}), g.afterRetBlock([]int{k}))
	default:
		n := 1 + r.intn(3)
		var ks []int
		var ss []string
		for i := 0; i < n; i++ {
			k := g.key()
			ks = append(ks, k)
			ss = append(ss, fmt.Sprint(k))
		}
		g.add("bulkrefresh%s %s %s/%s%s", g.cx(), strings.Join(ss, ","), g.bulkOutcome(ks), g.bulkOutcome(ks), g.nestedBlock(ks))
	}
}

func (g *seqGen) audit() {
	if g.deferred {
		g.add("runexec")
	}
	g.add("bound")
	if g.deferred {
		g.add("runexec")
	}
	g.add("size")
	g.add("wsize")
	g.add("all")
	g.add("keys")
	g.add("values")
	g.add("hottest")
	g.add("coldest")
	g.add("getmax")
	g.add("stats")
	if g.deferred {
		g.add("runexec")
	}
	g.add("quiesce")
}

func tblLine(r *rng, name string, nkeys int, g *seqGen, allowKeep bool) string {
	var parts []string
	dflt := g.posdur()
	parts = append(parts, fmt.Sprintf("*=%d", dflt))
	for k := 1; k <= nkeys; k++ {
		if r.chance(0.5) {
			d := g.posdur()
			if allowKeep && r.chance(0.4) {
				d = 0
			}
			if !allowKeep && r.chance(0.2) {
				d = 0 // "no deadline" on creation: the entry gets one later (SetExpiresAfter / a read / an update), or never
			}
			parts = append(parts, fmt.Sprintf("%d=%d", k, d))
		}
	}
	return "tbl " + name + " " + strings.Join(parts, " ")
}

// genSeqScript builds one script.  profile ∈ mix, expiry, huge, load, bound, deferred.
// wrapReadScript: an entry WITHOUT a deadline (the creation calculator returns 0) is read under a read calculator that
// returns d, at a clock reading chosen so that `d - entry.ExpiresAfter()` - computed in int64 - is MinInt64 or next to it:
// MaxInt64 - now wraps to d - 2^63 exactly when now = -(d+1).  The read must store now + d (C12: for all clock values).
func wrapReadScript(r *rng) []string {
	d := pick(r, []int64{1, 7, 1000, 1000000000, 1 << 30, 1 << 40, 1 << 50})
	c0 := -(d + 1) + pick(r, []int64{0, 0, 0, 0, 1, -1, 2})
	k := 1 + r.intn(5)
	lines := []string{
		fmt.Sprintf("cfg bound=none expiry=custom refresh=none exec=sync clock0=%d", c0),
		"tbl expcreate *=0", "tbl expupdate *=0", fmt.Sprintf("tbl expread *=%d", d),
		fmt.Sprintf("set %d %d", k, 10+r.intn(50)), fmt.Sprintf("qentry %d", k),
	}
	switch r.intn(3) {
	case 0:
		lines = append(lines, fmt.Sprintf("get %d", k))
	case 1:
		lines = append(lines, fmt.Sprintf("entry %d", k))
	default:
		lines = append(lines, fmt.Sprintf("sia %d %d", k, 99))
	}
	lines = append(lines, fmt.Sprintf("qentry %d", k), fmt.Sprintf("adv %d", d), fmt.Sprintf("get %d", k), fmt.Sprintf("qentry %d", k))
	return lines
}

// wrapLoadScript (known finding F20): a cache is saved under a clock far in the positive range and loaded under one far
// in the negative range, so that the remaining lifetime of an entry (saved deadline - load clock) is 2^63 ns or more and
// the int64 subtraction in LoadCacheFrom wraps.  C19 quantifies over all clock offsets between save and load.
func wrapLoadScript(r *rng) []string {
	c0 := int64(1)<<62 + int64(r.intn(1000000))
	ttl := pick(r, []int64{1000000000, 3600000000000, 1 << 50})
	back := int64(math.MaxInt64) - int64(r.intn(1000000)) // the clock moves back by almost 2^63
	kind := pick(r, []string{"writing", "creating", "accessing"})
	lines := []string{fmt.Sprintf("cfg bound=none expiry=%s:%d refresh=none exec=sync clock0=%d", kind, ttl, c0)}
	n := 1 + r.intn(3)
	for k := 1; k <= n; k++ {
		lines = append(lines, fmt.Sprintf("set %d %d", k, 10+r.intn(50)))
	}
	lines = append(lines, "save 2", fmt.Sprintf("adv -%d", back), "loadfrom 2 same")
	return lines
}

func genSeqScript(seed uint64, profile string) []string {
	r := &rng{s: seed}
	if profile == "persist" && r.chance(0.03) {
		return wrapLoadScript(r)
	}
	if profile == "huge" && r.chance(0.15) {
		return wrapReadScript(r)
	}
	g := &seqGen{r: r, profile: profile}
	g.nkeys = 3 + r.intn(6)
	g.unit = pick(r, []int64{1, 10, 1000, 1 << 30, (1 << 30) + 7, 1 << 36})
	g.ttl = g.unit * int64(2+r.intn(6))
	g.clock = pick(r, []int64{1, 1000000000, 1800000000000000000, 1800000000000000000, math.MaxInt64 - (1 << 50), -5000000000000000, -9000000000000000000})
	if profile == "huge" {
		g.clock = pick(r, []int64{1, 1800000000000000000, -5000000000000000})
	}
	bound := "none"
	switch {
	case profile == "bound" || r.chance(0.6):
		g.bounded = true
		if r.chance(0.5) {
			g.max = 1 + r.intn(8)
			bound = fmt.Sprintf("size:%d", g.max)
		} else {
			g.weighted = true
			g.max = 2 + r.intn(12)
			if profile == "bound" && r.chance(0.2) {
				// weights and maxima around the limits of the number types (weights are uint32, totals uint64)
				g.giant = true
				g.max = pick(r, []int{1 << 31, 1<<32 - 1, 1 << 32, 1<<32 + 5, 3 << 30, 1 << 33, 5 << 30})
			}
			bound = fmt.Sprintf("weight:%d", g.max)
		}
	}
	expiry := "none"
	// (the persist profile saves and loads mostly expiring caches, but also refresh-only ones and ones without any time policy)
	if profile == "expiry" || profile == "huge" || (profile == "persist" && r.chance(0.7)) || (profile != "persist" && r.chance(0.65)) {
		g.withExp = true
		expiry = pick(r, []string{"creating", "writing", "accessing", "custom"})
		if expiry != "custom" {
			d := g.ttl
			if profile == "huge" && r.chance(0.5) {
				d = g.dur()
				if d <= 0 {
					d = 1
				}
			}
			expiry = fmt.Sprintf("%s:%d", expiry, d)
		}
	}
	refresh := "none"
	// (the load profile mostly refreshes, but a quarter of its caches load without refresh being configured)
	if (profile == "load" && r.chance(0.75)) || (profile != "load" && r.chance(0.4)) {
		g.withRef = true
		refresh = pick(r, []string{"creating", "writing", "custom"})
		if refresh != "custom" {
			d := g.ttl / 2
			if d <= 0 {
				d = 1
			}
			refresh = fmt.Sprintf("%s:%d", refresh, d)
		}
	}
	exec := "sync"
	if profile == "deferred" || profile == "deferredk1" {
		exec = "deferred"
		g.deferred = true
		g.avoidK1 = false // K1 is repaired: no avoidance any more
		g.dirty = map[int]bool{}
	}
	capS := ""
	if r.chance(0.5) {
		capS = fmt.Sprintf(" cap=%d", pick(r, []int{1, 7, 64, 1000}))
	}
	g.add("cfg bound=%s expiry=%s refresh=%s exec=%s clock0=%d%s", bound, expiry, refresh, exec, g.clock, capS)
	if strings.HasPrefix(expiry, "custom") {
		// in half of the scripts reads leave the deadline alone: then "reads only ever extend deadlines" holds and the sweep
		// guarantee (C13) is checked for per-entry durations too — an overwrite may well SHORTEN a deadline
		expread := tblLine(r, "expread", g.nkeys, g, true)
		if r.chance(0.5) {
			expread = "tbl expread *=0"
		}
		g.lines = append(g.lines, tblLine(r, "expcreate", g.nkeys, g, false), tblLine(r, "expupdate", g.nkeys, g, true), expread)
	}
	if strings.HasPrefix(refresh, "custom") {
		g.lines = append(g.lines, tblLine(r, "refcreate", g.nkeys, g, false), tblLine(r, "refupdate", g.nkeys, g, true),
			tblLine(r, "refreload", g.nkeys, g, true), tblLine(r, "reffail", g.nkeys, g, true))
	}
	if g.weighted {
		var ws []string
		for i := 0; i < 8; i++ {
			w := pick(r, []int{0, 1, 1, 2, 2, 3, g.max - 1, g.max, g.max + 1})
			if g.giant {
				w = pick(r, []int{0, 1, 1 << 30, 1 << 30, 1<<31 - 1, 1 << 31, 1<<31 + 1, 1<<32 - 1, 3 << 29, g.max - 1, g.max, g.max + 1})
				if w > math.MaxUint32 {
					w = math.MaxUint32
				}
			}
			ws = append(ws, fmt.Sprint(w))
		}
		g.add("wt %s", strings.Join(ws, " "))
	}
	nops := 40 + r.intn(100)
	pLoad := 0.08
	if profile == "load" {
		pLoad = 0.35
	}
	pAdv := 0.12
	if profile == "expiry" || profile == "huge" {
		pAdv = 0.2
	}
	for i := 0; i < nops; i++ {
		switch {
		case r.chance(pAdv):
			g.adv()
		case r.chance(pLoad):
			g.loaderOp()
		case g.deferred && r.chance(0.15):
			g.add("runexec")
		case r.chance(0.04):
			g.audit()
		case (profile == "persist" && r.chance(0.12)) || r.chance(0.01):
			if g.saved == nil {
				g.saved = map[int]bool{}
			}
			slot := 1 + r.intn(2)
			if g.saved[slot] && r.chance(0.6) {
				tm := "same"
				if g.bounded && r.chance(0.5) {
					tm = fmt.Sprint(pick(r, []int{1, 2, g.max, g.max + 3, g.max * 2}))
				}
				if r.chance(0.4) {
					g.add("loadfrom %d %s used", slot, tm) // into an emptied cache with a past instead of a fresh one
				} else {
					g.add("loadfrom %d %s", slot, tm)
				}
			} else {
				if g.deferred {
					g.add("runexec")
				}
				g.add("save %d", slot)
				g.saved[slot] = true
			}
		default:
			if profile == "huge" && g.withExp && r.chance(0.05) {
				g.foreverThenFinite()
			} else {
				g.add("%s", g.simpleOp(false, 0))
			}
		}
	}
	if expiry != "none" && !g.deferred && g.clock < math.MaxInt64-(1<<40) {
		// C06 "values written = values present + values reported": three further maintenance runs, two timer ticks apart -
		// after them every value whose deadline has passed has been reported
		g.add("settle")
		g.clock += 3 << 31
	}
	g.audit()
	return g.lines
}
