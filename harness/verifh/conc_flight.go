package main

// CONC-flight: concurrent Get / BulkGet / Refresh callers over overlapping keys with loaders that block until released.
// Judged by the Lean driver: loader executions for one key never overlap (no write happens in these runs), a successful
// load is executed once per round, every caller returns with the outcome of a load that overlapped its call, and at
// quiescence no in-flight record is left behind — for value / error / not-found / panic outcomes (C08).

import (
	"bufio"
	"context"
	"errors"
	"flag"
	"fmt"
	"runtime"
	"sort"
	"sync"
	"sync/atomic"
	"time"

	otter "github.com/maypok86/otter/v2"
	"github.com/maypok86/otter/v2/stats"
)

// number of loader invocations (Load or BulkLoad calls) of the current script: statistics must record exactly that many loads
var flightInvocations atomic.Int64

type flightLoader struct {
	stamp   *atomic.Int64
	gate    chan struct{}
	outcome string
	val     int
	mu      *sync.Mutex
	log     *[]string
}

func (l flightLoader) run(keys []int) {
	flightInvocations.Add(1)
	enter := l.stamp.Add(1)
	<-l.gate
	exit := l.stamp.Add(1)
	l.mu.Lock()
	for _, k := range keys {
		*l.log = append(*l.log, fmt.Sprintf("load %d %d %d %s", k, enter, exit, l.outcome))
	}
	l.mu.Unlock()
}

func (l flightLoader) result(k int) (int, error) {
	switch l.outcome {
	case "ok":
		return l.val + k, nil
	case "err":
		return 0, errLoader
	case "nf":
		return 0, otter.ErrNotFound
	}
	panic("loader-panic")
}

func (l flightLoader) Load(_ context.Context, k int) (int, error) {
	l.run([]int{k})
	return l.result(k)
}
func (l flightLoader) Reload(ctx context.Context, k int, _ int) (int, error) { return l.Load(ctx, k) }
func (l flightLoader) BulkLoad(_ context.Context, keys []int) (map[int]int, error) {
	l.run(keys)
	m := map[int]int{}
	for _, k := range keys {
		v, err := l.result(k)
		if err != nil {
			if errors.Is(err, otter.ErrNotFound) {
				continue
			}
			return nil, err
		}
		m[k] = v
	}
	return m, nil
}
func (l flightLoader) BulkReload(ctx context.Context, keys []int, _ []int) (map[int]int, error) {
	return l.BulkLoad(ctx, keys)
}

func concFlight(args []string, out *bufio.Writer) {
	fs := flag.NewFlagSet("conc-flight", flag.ExitOnError)
	seed := fs.Uint64("seed", 1, "")
	n := fs.Int("n", 10, "")
	from := fs.Int("from", 0, "")
	fs.Parse(args)
	for i := *from; i < *from+*n; i++ {
		r := &rng{s: scriptSeed(*seed, "concflight", i)}
		fmt.Fprintf(out, "script concflight-%d-%d\n", *seed, i)
		counter := stats.NewCounter()
		fo := &otter.Options[int, int]{Logger: nopLogger{}, StatsRecorder: counter}
		if i%3 == 0 {
			// a weigher that takes its time: it runs inside the critical section that installs a loaded value, so everything
			// the leader does before that (releasing the waiters, say) gets ahead of the installation by a visible margin
			fo.MaximumWeight = 1 << 40
			fo.Weigher = func(k, v int) uint32 {
				runtime.Gosched()
				time.Sleep(20 * time.Microsecond)
				return 1
			}
		}
		c := otter.Must(fo)
		flightInvocations.Store(0)
		var stamp atomic.Int64
		rounds := 5 + r.intn(15)
		for round := 0; round < rounds; round++ {
			if r.chance(0.25) {
				ok := supersedeRound(c, r, round, &stamp, out)
				sn := counter.Snapshot()
				fmt.Fprintf(out, "stats loadsrec=%d invocations=%d\n", sn.LoadSuccesses+sn.LoadFailures, flightInvocations.Load())
				if !ok {
					break
				}
				continue
			}
			outcome := pick(r, []string{"ok", "ok", "err", "nf", "pan"})
			callers := 2 + r.intn(8)
			nkeys := 1 + r.intn(3)
			var mu sync.Mutex
			var log []string
			gate := make(chan struct{})
			ld := flightLoader{stamp: &stamp, gate: gate, outcome: outcome, val: 1000 * (round + 1), mu: &mu, log: &log}
			for k := 0; k < nkeys; k++ {
				c.Invalidate(k)
			}
			fmt.Fprintf(out, "round %d outcome=%s callers=%d keys=%d base=%d\n", round, outcome, callers, nkeys, ld.val)
			var wg sync.WaitGroup
			var hangs atomic.Int64
			results := make([]string, callers)
			for w := 0; w < callers; w++ {
				wg.Add(1)
				bulk := r.chance(0.4)
				k := r.intn(nkeys)
				// one caller in eight arrives with an already-cancelled context: loaders get a context.WithoutCancel, so
				// nothing may change (in particular no in-flight record may be orphaned)
				ctx := context.Background()
				if r.chance(0.12) {
					cctx, cancel := context.WithCancel(ctx)
					cancel()
					ctx = cctx
				}
				go func(w int) {
					defer wg.Done()
					start := stamp.Add(1)
					res := func() (s string) {
						defer func() {
							if p := recover(); p != nil {
								s = "panic"
							}
						}()
						if bulk {
							keys := make([]int, nkeys)
							for j := range keys {
								keys[j] = j
							}
							m, err := c.BulkGet(ctx, keys, ld)
							ks := make([]int, 0, len(m))
							for kk := range m {
								ks = append(ks, kk)
							}
							sort.Ints(ks)
							s = "bulk"
							for _, kk := range ks {
								s += fmt.Sprintf(",%d=%d", kk, m[kk])
							}
							return s + " " + errTok2(err)
						}
						v, err := c.Get(ctx, k, ld)
						// read-your-own-load: what Get returned (also to a caller that only joined the load) is in the cache when Get
						// returns — nothing removes entries in these rounds
						after := "-"
						if err == nil {
							v2, ok2 := c.GetIfPresent(k)
							after = fmt.Sprintf("%d:%v", v2, ok2)
						}
						return fmt.Sprintf("get,%d=%d,after=%s %s", k, v, after, errTok2(err))
					}()
					end := stamp.Add(1)
					results[w] = fmt.Sprintf("call %d %d %d %s", w, start, end, res)
				}(w)
			}
			// let the callers pile up behind the in-flight loads, then release the loaders
			time.Sleep(time.Duration(200+r.intn(800)) * time.Microsecond)
			close(gate)
			done := make(chan struct{})
			go func() { wg.Wait(); close(done) }()
			select {
			case <-done:
			case <-time.After(5 * time.Second):
				hangs.Store(1)
			}
			mu.Lock()
			for _, l := range log {
				fmt.Fprintln(out, l)
			}
			mu.Unlock()
			if hangs.Load() == 0 {
				for _, s := range results {
					fmt.Fprintln(out, s)
				}
			}
			fmt.Fprintf(out, "quiescent hangs=%d inflight=%d\n", hangs.Load(), otter.VerifInflight(c))
			if hangs.Load() != 0 {
				break
			}
			sn := counter.Snapshot()
			fmt.Fprintf(out, "stats loadsrec=%d invocations=%d\n", sn.LoadSuccesses+sn.LoadFailures, flightInvocations.Load())
		}
	}
}

// gatedLoader blocks every invocation on its own gate and finishes it with its own outcome.
type gatedLoader struct {
	stamp    *atomic.Int64
	mu       *sync.Mutex
	log      *[]string
	calls    *atomic.Int32
	gates    []chan struct{}
	outcomes []string
	entered  []chan struct{}
	base     int
}

func (l gatedLoader) Load(_ context.Context, k int) (int, error) {
	inv := int(l.calls.Add(1)) - 1
	flightInvocations.Add(1)
	enter := l.stamp.Add(1)
	oc := "ok"
	if inv < len(l.gates) {
		close(l.entered[inv])
		<-l.gates[inv]
		oc = l.outcomes[inv]
	}
	exit := l.stamp.Add(1)
	l.mu.Lock()
	*l.log = append(*l.log, fmt.Sprintf("load %d %d %d %s", k, enter, exit, oc))
	l.mu.Unlock()
	switch oc {
	case "ok":
		return l.base + inv, nil
	case "err":
		return 0, errLoader
	case "nf":
		return 0, otter.ErrNotFound
	}
	panic("loader-panic")
}
func (l gatedLoader) Reload(ctx context.Context, k int, _ int) (int, error) { return l.Load(ctx, k) }

// supersedeRound: Get(k) starts load 1; the key is invalidated (or written) while load 1 runs; Get(k) starts load 2; load 1
// finishes (any outcome) while load 2 is still running; a third Get(k) must join load 2 instead of starting a load 3.
// Overlapping loads are legitimate here only because of the invalidation between them (C08).
func supersedeRound(c *otter.Cache[int, int], r *rng, round int, stamp *atomic.Int64, out *bufio.Writer) bool {
	var mu sync.Mutex
	var log []string
	k := r.intn(3)
	c.Invalidate(k)
	ld := gatedLoader{stamp: stamp, mu: &mu, log: &log, calls: &atomic.Int32{}, base: 100000 * (round + 1)}
	for i := 0; i < 3; i++ {
		ld.gates = append(ld.gates, make(chan struct{}))
		ld.entered = append(ld.entered, make(chan struct{}))
	}
	ld.outcomes = []string{pick(r, []string{"err", "err", "ok", "nf", "pan"}), pick(r, []string{"ok", "err"}), "ok"}
	fmt.Fprintf(out, "round %d outcome=mixed callers=3 keys=1 base=%d\n", round, ld.base)
	var wg sync.WaitGroup
	get := func() {
		wg.Add(1)
		go func() {
			defer wg.Done()
			defer func() { _ = recover() }()
			_, _ = c.Get(context.Background(), k, ld)
		}()
	}
	waitCh := func(ch chan struct{}, d time.Duration) bool {
		select {
		case <-ch:
			return true
		case <-time.After(d):
			return false
		}
	}
	get() // caller A: load 1
	if !waitCh(ld.entered[0], 2*time.Second) {
		fmt.Fprintf(out, "quiescent hangs=1 inflight=%d\n", otter.VerifInflight(c))
		return false
	}
	if r.chance(0.7) {
		c.Invalidate(k)
	} else {
		c.Set(k, -1)
		c.Invalidate(k)
	}
	fmt.Fprintf(out, "kill %d %d\n", k, stamp.Add(1))
	get() // caller B: load 2 (the record of load 1 was removed)
	second := waitCh(ld.entered[1], 20*time.Millisecond)
	close(ld.gates[0]) // load 1 finishes while load 2 is in flight
	time.Sleep(time.Duration(100+r.intn(400)) * time.Microsecond)
	get() // caller C: must join load 2
	time.Sleep(time.Duration(200+r.intn(600)) * time.Microsecond)
	third := int(ld.calls.Load())
	close(ld.gates[1])
	close(ld.gates[2])
	done := make(chan struct{})
	go func() { wg.Wait(); close(done) }()
	hangs := 0
	if !waitCh(done, 5*time.Second) {
		hangs = 1
	}
	mu.Lock()
	for _, l := range log {
		fmt.Fprintln(out, l)
	}
	mu.Unlock()
	fmt.Fprintf(out, "supersede second=%v loads_while_second_in_flight=%d\n", second, third)
	if hangs == 0 {
		v, ok := c.GetIfPresent(k)
		fmt.Fprintf(out, "final key=%d present=%v value=%d stale=%d firstoutcome=%s secondoutcome=%s fresh=%d loads=%d\n", k, ok, v, ld.base, ld.outcomes[0], ld.outcomes[1], ld.base+1, ld.calls.Load())
	}
	fmt.Fprintf(out, "quiescent hangs=%d inflight=%d\n", hangs, otter.VerifInflight(c))
	return hangs == 0
}

func errTok2(err error) string {
	switch {
	case err == nil:
		return "nil"
	case errors.Is(err, otter.ErrNotFound):
		return "nf"
	case errors.Is(err, errLoader):
		return "err"
	}
	return "other"
}
