package main

// CONC-flight: concurrent Get / BulkGet / Refresh callers over overlapping keys with loaders that block until released.
// Judged by the Lean driver: loader executions for one key never overlap (no write happens in these runs), a successful
// load is executed once per round, every caller returns with the outcome of a load that overlapped its call, and at
// quiescence no in-flight record is left behind — for value / error / not-found / panic outcomes (C08).

import (
	"bufio"
	"context"
	"errors"
	"flag"
	"fmt"
	"sort"
	"sync"
	"sync/atomic"
	"time"

	otter "github.com/maypok86/otter/v2"
)

type flightLoader struct {
	stamp   *atomic.Int64
	gate    chan struct{}
	outcome string
	val     int
	mu      *sync.Mutex
	log     *[]string
}

func (l flightLoader) run(keys []int) {
	enter := l.stamp.Add(1)
	<-l.gate
	exit := l.stamp.Add(1)
	l.mu.Lock()
	for _, k := range keys {
		*l.log = append(*l.log, fmt.Sprintf("load %d %d %d %s", k, enter, exit, l.outcome))
	}
	l.mu.Unlock()
}

func (l flightLoader) result(k int) (int, error) {
	switch l.outcome {
	case "ok":
		return l.val + k, nil
	case "err":
		return 0, errLoader
	case "nf":
		return 0, otter.ErrNotFound
	}
	panic("loader-panic")
}

func (l flightLoader) Load(_ context.Context, k int) (int, error) {
	l.run([]int{k})
	return l.result(k)
}
func (l flightLoader) Reload(ctx context.Context, k int, _ int) (int, error) { return l.Load(ctx, k) }
func (l flightLoader) BulkLoad(_ context.Context, keys []int) (map[int]int, error) {
	l.run(keys)
	m := map[int]int{}
	for _, k := range keys {
		v, err := l.result(k)
		if err != nil {
			if errors.Is(err, otter.ErrNotFound) {
				continue
			}
			return nil, err
		}
		m[k] = v
	}
	return m, nil
}
func (l flightLoader) BulkReload(ctx context.Context, keys []int, _ []int) (map[int]int, error) {
	return l.BulkLoad(ctx, keys)
}

func concFlight(args []string, out *bufio.Writer) {
	fs := flag.NewFlagSet("conc-flight", flag.ExitOnError)
	seed := fs.Uint64("seed", 1, "")
	n := fs.Int("n", 10, "")
	from := fs.Int("from", 0, "")
	fs.Parse(args)
	for i := *from; i < *from+*n; i++ {
		r := &rng{s: scriptSeed(*seed, "concflight", i)}
		fmt.Fprintf(out, "script concflight-%d-%d\n", *seed, i)
		c := otter.Must(&otter.Options[int, int]{Logger: nopLogger{}})
		var stamp atomic.Int64
		rounds := 5 + r.intn(15)
		for round := 0; round < rounds; round++ {
			outcome := pick(r, []string{"ok", "ok", "err", "nf", "pan"})
			callers := 2 + r.intn(8)
			nkeys := 1 + r.intn(3)
			var mu sync.Mutex
			var log []string
			gate := make(chan struct{})
			ld := flightLoader{stamp: &stamp, gate: gate, outcome: outcome, val: 1000 * (round + 1), mu: &mu, log: &log}
			for k := 0; k < nkeys; k++ {
				c.Invalidate(k)
			}
			fmt.Fprintf(out, "round %d outcome=%s callers=%d keys=%d base=%d\n", round, outcome, callers, nkeys, ld.val)
			var wg sync.WaitGroup
			var hangs atomic.Int64
			results := make([]string, callers)
			for w := 0; w < callers; w++ {
				wg.Add(1)
				bulk := r.chance(0.4)
				k := r.intn(nkeys)
				// one caller in eight arrives with an already-cancelled context: loaders get a context.WithoutCancel, so
				// nothing may change (in particular no in-flight record may be orphaned)
				ctx := context.Background()
				if r.chance(0.12) {
					cctx, cancel := context.WithCancel(ctx)
					cancel()
					ctx = cctx
				}
				go func(w int) {
					defer wg.Done()
					start := stamp.Add(1)
					res := func() (s string) {
						defer func() {
							if p := recover(); p != nil {
								s = "panic"
							}
						}()
						if bulk {
							keys := make([]int, nkeys)
							for j := range keys {
								keys[j] = j
							}
							m, err := c.BulkGet(ctx, keys, ld)
							ks := make([]int, 0, len(m))
							for kk := range m {
								ks = append(ks, kk)
							}
							sort.Ints(ks)
							s = "bulk"
							for _, kk := range ks {
								s += fmt.Sprintf(",%d=%d", kk, m[kk])
							}
							return s + " " + errTok2(err)
						}
						v, err := c.Get(ctx, k, ld)
						return fmt.Sprintf("get,%d=%d %s", k, v, errTok2(err))
					}()
					end := stamp.Add(1)
					results[w] = fmt.Sprintf("call %d %d %d %s", w, start, end, res)
				}(w)
			}
			// let the callers pile up behind the in-flight loads, then release the loaders
			time.Sleep(time.Duration(200+r.intn(800)) * time.Microsecond)
			close(gate)
			done := make(chan struct{})
			go func() { wg.Wait(); close(done) }()
			select {
			case <-done:
			case <-time.After(5 * time.Second):
				hangs.Store(1)
			}
			mu.Lock()
			for _, l := range log {
				fmt.Fprintln(out, l)
			}
			mu.Unlock()
			if hangs.Load() == 0 {
				for _, s := range results {
					fmt.Fprintln(out, s)
				}
			}
			fmt.Fprintf(out, "quiescent hangs=%d inflight=%d\n", hangs.Load(), otter.VerifInflight(c))
			if hangs.Load() != 0 {
				break
			}
		}
	}
}

func errTok2(err error) string {
	switch {
	case err == nil:
		return "nil"
	case errors.Is(err, otter.ErrNotFound):
		return "nf"
	case errors.Is(err, errLoader):
		return "err"
	}
	return "other"
}
