package main

// CONC-window: directed rounds that place one goroutine's action inside another's critical window through callbacks the cache
// itself invokes (the statistics recorder, a remapping function that holds the bucket lock), for the load/write interplay of
// C09 and the waiter guarantees of C08.  Each round prints one line; the Lean judge states what the property demands of it.
//
//   missgap      A's Get misses; inside A's miss bookkeeping (RecordMisses runs between the lookup and the registration of
//                the load) B creates the key; A's load starts anyway; while its loader runs, the now live entry is updated
//                by Set / Compute / ComputeIfPresent / SetIfAbsent-after-invalidate.  That write happened while the load
//                was in flight: the loaded value must not replace it.
//   lockedwrite  A's load is in flight; B runs Compute on the key and is still inside its remapping function (holding the
//                bucket lock, not yet having written) when A's loader returns; B then writes.  B's write must survive.
//   failretry    a load fails while the key's bucket is held by a Compute that changes nothing; a caller that had joined the
//                load retries the key as soon as it gets the failure: the retry must load afresh (the failed call leaves no
//                record behind that a later Get could still find).

import (
	"bufio"
	"context"
	"flag"
	"fmt"
	"runtime"
	"sync"
	"sync/atomic"
	"time"

	otter "github.com/maypok86/otter/v2"
)

type hookRecorder struct {
	onMiss atomic.Pointer[func()]
}

func (h *hookRecorder) RecordHits(int) {}
func (h *hookRecorder) RecordMisses(int) {
	if f := h.onMiss.Swap(nil); f != nil {
		(*f)()
	}
}
func (h *hookRecorder) RecordEviction(uint32)           {}
func (h *hookRecorder) RecordLoadSuccess(time.Duration) {}
func (h *hookRecorder) RecordLoadFailure(time.Duration) {}

type windowLoader struct {
	entered chan struct{}
	gate    chan struct{}
	val     int
	fail    bool
	calls   atomic.Int32
}

func (l *windowLoader) Load(_ context.Context, k int) (int, error) {
	if l.calls.Add(1) == 1 && l.entered != nil {
		close(l.entered)
	}
	if l.gate != nil {
		<-l.gate
	}
	if l.fail {
		return 0, errLoader
	}
	return l.val, nil
}

func (l *windowLoader) Reload(ctx context.Context, k int, _ int) (int, error) { return l.Load(ctx, k) }

func waitOr(ch <-chan struct{}, d time.Duration) bool {
	select {
	case <-ch:
		return true
	case <-time.After(d):
		return false
	}
}

func concWindow(args []string, out *bufio.Writer) {
	fs := flag.NewFlagSet("conc-window", flag.ExitOnError)
	seed := fs.Uint64("seed", 1, "")
	n := fs.Int("n", 10, "")
	from := fs.Int("from", 0, "")
	fs.Parse(args)
	for i := *from; i < *from+*n; i++ {
		r := &rng{s: scriptSeed(*seed, "concwindow", i)}
		fmt.Fprintf(out, "script concwindow-%d-%d\n", *seed, i)
		rec := &hookRecorder{}
		var hexp *hookExpiry
		var href *hookRefresh
		var wclk *atomicClock
		o := &otter.Options[int, int]{Logger: nopLogger{}, StatsRecorder: rec,
			// a replaced value is reported before its successor is published: dwelling here widens that window a little
			OnAtomicDeletion: func(e otter.DeletionEvent[int, int]) {
				if e.Cause == otter.CauseReplacement {
					runtime.Gosched()
				}
			}}
		switch r.intn(4) {
		case 1:
			o.MaximumSize = 1000
		case 2:
			hexp = &hookExpiry{}
			o.ExpiryCalculator = hexp
			wclk = &atomicClock{}
			wclk.now.Store(1 << 40)
			o.Clock = wclk
		case 3:
			o.MaximumSize = 1000
			href = &hookRefresh{}
			o.RefreshCalculator = href
		}
		c := otter.Must(o)
		fmt.Fprintf(out, "cfg bounded=%v expiry=%v refresh=%v\n", o.MaximumSize != 0, o.ExpiryCalculator != nil, o.RefreshCalculator != nil)
		rounds := 6 + r.intn(10)
		for round := 0; round < rounds; round++ {
			k := r.intn(4)
			c.Invalidate(k)
			kind := r.intn(4)
			if hexp != nil && r.chance(0.3) {
				kind = 4
			}
			if href != nil && r.chance(0.3) {
				kind = 5
			}
			switch kind {
			case 4:
				// ---- siaread: SetIfAbsent on a present key is a read made under the key's bucket lock; while its calculator is
				// being asked (ExpireAfterRead), another goroutine overwrites the key.  The writer has to wait for the lock, so
				// the read's deadline is in place when the update (which keeps the deadline) copies it: the entry ends up with
				// read time + 50 s, not with the deadline it had before the read.
				c.Set(k, 1)
				wclk.now.Add(int64(10 * time.Second))
				readAt := wclk.now.Load()
				wdone := make(chan struct{})
				hook := func() {
					go func() {
						c.Set(k, 2)
						close(wdone)
					}()
					waitOr(wdone, 30*time.Millisecond)
				}
				hexp.onRead.Store(&hook)
				got, inserted := c.SetIfAbsent(k, 99)
				hexp.onRead.Store(nil)
				finished := waitOr(wdone, 5*time.Second)
				e, ok := c.GetEntryQuietly(k)
				fmt.Fprintf(out, "siaread key=%d got=%d inserted=%v finished=%v present=%v value=%d expoffset=%d want=%d\n",
					k, got, inserted, finished, ok, e.Value, e.ExpiresAtNano-readAt, int64(50*time.Second))
				if !finished {
					return
				}
			case 5:
				// ---- refreshfail: an explicit Refresh fails; while the calculator is asked what to do about the failure
				// (RefreshAfterReloadFailure, which answers "keep"), another goroutine sets the key's refresh time to one hour.
				// That override must survive: "keep" means keep what is there now, not what was there when the question was asked
				c.Set(k, 1)
				odone := make(chan struct{})
				hook := func() {
					go func() {
						c.SetRefreshableAfter(k, time.Hour)
						close(odone)
					}()
					waitOr(odone, 2*time.Second)
				}
				href.onFailure.Store(&hook)
				ld := &windowLoader{fail: true}
				ch := c.Refresh(context.Background(), k, ld)
				delivered := false
				if ch != nil {
					select {
					case <-ch:
						delivered = true
					case <-time.After(5 * time.Second):
					}
				}
				href.onFailure.Store(nil)
				e, ok := c.GetEntryQuietly(k)
				fmt.Fprintf(out, "refreshfail key=%d delivered=%v present=%v refreshmin=%d\n", k, delivered, ok, int64(e.RefreshableAfter()/time.Minute))
				if !delivered {
					return
				}
			case 3:
				// ---- hotget: the key is present throughout (it is only ever overwritten); loader-backed Gets run against the
				// overwrites: each returns one of the written values and the loader is never asked
				base := 500000 + 1000*round
				c.Set(k, base)
				nw := 100 + r.intn(200)
				ld := &windowLoader{val: 999999}
				var bad atomic.Int32
				var wg sync.WaitGroup
				wg.Add(1)
				go func() {
					defer wg.Done()
					for j := 1; j <= nw; j++ {
						c.Set(k, base+j)
					}
				}()
				for q := 0; q < 3; q++ {
					wg.Add(1)
					go func(q int) {
						defer wg.Done()
						for j := 0; j < nw; j++ {
							var v int
							var err error
							if (j+q)%3 == 0 {
								var m map[int]int
								m, err = c.BulkGet(context.Background(), []int{k}, windowBulk{ld})
								v = m[k]
							} else {
								v, err = c.Get(context.Background(), k, ld)
							}
							if err != nil || v < base || v > base+nw {
								bad.Add(1)
							}
						}
					}(q)
				}
				wg.Wait()
				final, ok := c.GetIfPresent(k)
				fmt.Fprintf(out, "hotget key=%d loads=%d bad=%d final=%d present=%v want=%d\n", k, ld.calls.Load(), bad.Load(), final, ok, base+nw)
			case 0:
				// ---- missgap
				ld := &windowLoader{entered: make(chan struct{}), gate: make(chan struct{}), val: 333000 + round}
				created := 111000 + round
				hook := func() { c.Set(k, created) }
				rec.onMiss.Store(&hook)
				var got int
				var gerr error
				done := make(chan struct{})
				go func() {
					got, gerr = c.Get(context.Background(), k, ld)
					close(done)
				}()
				entered := waitOr(ld.entered, 2*time.Second)
				want := 222000 + round
				how := r.intn(4)
				if entered {
					switch how {
					case 0:
						c.Set(k, want)
					case 1:
						c.Compute(k, func(int, bool) (int, otter.ComputeOp) { return want, otter.WriteOp })
					case 2:
						c.ComputeIfPresent(k, func(int) (int, otter.ComputeOp) { return want, otter.WriteOp })
					default:
						c.Invalidate(k)
						c.SetIfAbsent(k, want)
					}
				}
				close(ld.gate)
				finished := waitOr(done, 5*time.Second)
				rec.onMiss.Store(nil)
				final, ok := c.GetIfPresent(k)
				fmt.Fprintf(out, "missgap key=%d how=%d entered=%v finished=%v got=%d goterr=%v final=%d present=%v want=%d created=%d loaded=%d\n",
					k, how, entered, finished, got, gerr != nil, final, ok, want, created, ld.val)
				if !finished {
					return
				}
			case 1:
				// ---- lockedwrite
				ld := &windowLoader{entered: make(chan struct{}), gate: make(chan struct{}), val: 333000 + round}
				done := make(chan struct{})
				go func() {
					c.Get(context.Background(), k, ld)
					close(done)
				}()
				entered := waitOr(ld.entered, 2*time.Second)
				want := 222000 + round
				inFn := make(chan struct{})
				gateB := make(chan struct{})
				doneB := make(chan struct{})
				var once sync.Once
				go func() {
					c.Compute(k, func(int, bool) (int, otter.ComputeOp) {
						once.Do(func() { close(inFn) })
						<-gateB
						return want, otter.WriteOp
					})
					close(doneB)
				}()
				holding := waitOr(inFn, 2*time.Second)
				close(ld.gate) // the loader returns while B is inside its remapping function
				time.Sleep(time.Duration(500+r.intn(2000)) * time.Microsecond)
				close(gateB)
				finished := waitOr(done, 5*time.Second) && waitOr(doneB, 5*time.Second)
				final, ok := c.GetIfPresent(k)
				fmt.Fprintf(out, "lockedwrite key=%d entered=%v holding=%v finished=%v final=%d present=%v want=%d loaded=%d\n",
					k, entered, holding, finished, final, ok, want, ld.val)
				if !finished {
					return
				}
			default:
				// ---- failretry
				ld := &windowLoader{entered: make(chan struct{}), gate: make(chan struct{}), fail: true}
				fresh := &windowLoader{val: 444000 + round}
				doneA := make(chan struct{})
				go func() {
					c.Get(context.Background(), k, ld)
					close(doneA)
				}()
				entered := waitOr(ld.entered, 2*time.Second)
				var retryVal int
				var retryErr error
				joinedErr := false
				doneW := make(chan struct{})
				go func() {
					_, err := c.Get(context.Background(), k, ld) // joins the failing load
					joinedErr = err != nil
					retryVal, retryErr = c.Get(context.Background(), k, fresh) // and retries at once
					close(doneW)
				}()
				time.Sleep(time.Duration(300+r.intn(700)) * time.Microsecond)
				inFn := make(chan struct{})
				gateH := make(chan struct{})
				doneH := make(chan struct{})
				var once sync.Once
				go func() {
					c.Compute(k, func(int, bool) (int, otter.ComputeOp) {
						once.Do(func() { close(inFn) })
						<-gateH
						return 0, otter.CancelOp
					})
					close(doneH)
				}()
				holding := waitOr(inFn, 2*time.Second)
				close(ld.gate) // the load fails while the bucket is held
				time.Sleep(time.Duration(500+r.intn(2000)) * time.Microsecond)
				close(gateH)
				finished := waitOr(doneA, 5*time.Second) && waitOr(doneW, 5*time.Second) && waitOr(doneH, 5*time.Second)
				fmt.Fprintf(out, "failretry key=%d entered=%v holding=%v finished=%v joinederr=%v retry=%d retryerr=%v want=%d freshcalls=%d failcalls=%d\n",
					k, entered, holding, finished, joinedErr, retryVal, retryErr != nil, fresh.val, fresh.calls.Load(), ld.calls.Load())
				if !finished {
					return
				}
			}
		}
		c.StopAllGoroutines()
	}
}

// windowBulk adapts a windowLoader to the bulk interface (every requested key is loaded by it)
type windowBulk struct{ l *windowLoader }

func (b windowBulk) BulkLoad(ctx context.Context, keys []int) (map[int]int, error) {
	m := map[int]int{}
	for _, k := range keys {
		v, err := b.l.Load(ctx, k)
		if err != nil {
			return nil, err
		}
		m[k] = v
	}
	return m, nil
}

func (b windowBulk) BulkReload(ctx context.Context, keys []int, _ []int) (map[int]int, error) {
	return b.BulkLoad(ctx, keys)
}

// hookExpiry: 100 s after a creation, unchanged by an update, 50 s after a read; a read can be made to call a hook first
type hookExpiry struct {
	onRead atomic.Pointer[func()]
}

func (h *hookExpiry) ExpireAfterCreate(otter.Entry[int, int]) time.Duration { return 100 * time.Second }
func (h *hookExpiry) ExpireAfterUpdate(e otter.Entry[int, int], _ int) time.Duration {
	return e.ExpiresAfter()
}
func (h *hookExpiry) ExpireAfterRead(e otter.Entry[int, int]) time.Duration {
	if f := h.onRead.Swap(nil); f != nil {
		(*f)()
	}
	return 50 * time.Second
}

// hookRefresh: refreshable one minute after a write or reload, unchanged by a failed reload (asked through a hook)
type hookRefresh struct {
	onFailure atomic.Pointer[func()]
}

func (h *hookRefresh) RefreshAfterCreate(otter.Entry[int, int]) time.Duration      { return time.Minute }
func (h *hookRefresh) RefreshAfterUpdate(otter.Entry[int, int], int) time.Duration { return time.Minute }
func (h *hookRefresh) RefreshAfterReload(otter.Entry[int, int], int) time.Duration { return time.Minute }
func (h *hookRefresh) RefreshAfterReloadFailure(e otter.Entry[int, int], _ error) time.Duration {
	if f := h.onFailure.Swap(nil); f != nil {
		(*f)()
	}
	return e.RefreshableAfter()
}
