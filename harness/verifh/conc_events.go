package main

// CONC-events: real goroutines writing unique values into a small bounded cache whose maximum changes under them; both
// deletion handlers log every event.  After a final InvalidateAll every value ever written must have been reported exactly
// once by OnAtomicDeletion and exactly once by OnDeletion, with the same cause, and nothing else may be reported (C06, C07).

import (
	"bufio"
	"flag"
	"fmt"
	"runtime"
	"sync"
	"sync/atomic"
	"time"

	otter "github.com/maypok86/otter/v2"
)

func concEvents(args []string, out *bufio.Writer) {
	fs := flag.NewFlagSet("conc-events", flag.ExitOnError)
	seed := fs.Uint64("seed", 1, "")
	n := fs.Int("n", 10, "")
	from := fs.Int("from", 0, "")
	fs.Parse(args)
	for i := *from; i < *from+*n; i++ {
		r := &rng{s: scriptSeed(*seed, "concevents", i)}
		fmt.Fprintf(out, "script concevents-%d-%d\n", *seed, i)
		var mu sync.Mutex
		var atomicEv, delEv []string
		var pending sync.WaitGroup
		var mixN atomic.Int64
		var cref atomic.Pointer[otter.Cache[int, int]]
		var handlerVal atomic.Int64
		handlerVal.Store(9000000)
		var handlerWritten []int
		o := &otter.Options[int, int]{
			MaximumSize: 1 + r.intn(5),
			OnAtomicDeletion: func(e otter.DeletionEvent[int, int]) {
				mu.Lock()
				atomicEv = append(atomicEv, fmt.Sprintf("%d %d %s", e.Key, e.Value, e.Cause))
				mu.Unlock()
			},
			OnDeletion: func(e otter.DeletionEvent[int, int]) {
				mu.Lock()
				delEv = append(delEv, fmt.Sprintf("%d %d %s", e.Key, e.Value, e.Cause))
				mu.Unlock()
				// a listener may use the cache: now and then it writes a value of its own back (under another key) or
				// invalidates a neighbour - those values are accounted for like every other written value
				cc := cref.Load()
				if cc != nil && e.Value%13 == 0 && e.Value < 9000000 {
					nv := int(handlerVal.Add(1))
					mu.Lock()
					handlerWritten = append(handlerWritten, nv)
					mu.Unlock()
					cc.Set(e.Key+1, nv)
				} else if cc != nil && e.Value%13 == 1 && e.Value < 9000000 {
					cc.Invalidate(e.Key + 1)
				}
			},
			// the default executor with bookkeeping, so that the end of all notifications can be awaited
			Executor: func(fn func()) {
				pending.Add(1)
				// in every fifth script a third of the tasks run on the caller's goroutine (an executor may do that)
				if i%5 == 1 && mixN.Add(1)%3 == 0 {
					defer pending.Done()
					fn()
					return
				}
				go func() {
					defer pending.Done()
					fn()
				}()
			},
		}
		// every fourth script is "big": thousands of distinct keys below a large maximum and a processor count that does not
		// divide the table length: whatever leaves the table during growth must be reported as well
		big := i%4 == 3
		prevProcs := runtime.GOMAXPROCS(0)
		if big {
			runtime.GOMAXPROCS(pick(r, []int{3, 5, 6, 7, 12}))
			o.MaximumSize = 50000
		}
		// the kind of cache: bounded (most), without any maintenance at all (no bound, no expiry: writers never touch the eviction
		// lock, InvalidateAll is the only bulk path), expiry only
		kind := "bounded"
		var aclk *atomicClock
		if !big {
			switch i % 6 {
			case 4:
				kind = "plain"
				o.MaximumSize = 0
			case 5:
				// expiry only, on a clock that another goroutine moves while the writers run: entries expire, are swept,
				// rewritten and invalidated concurrently (every value must still be reported exactly once, by both handlers,
				// with the same cause)
				kind = "expiring"
				o.MaximumSize = 0
				aclk = &atomicClock{}
				aclk.now.Store(1 << 40)
				o.Clock = aclk
				if i%12 == 5 {
					o.ExpiryCalculator = slowReadExpiry{ttl: time.Duration(2 << 30)}
				} else {
					o.ExpiryCalculator = otter.ExpiryWriting[int, int](time.Duration(2 << 30))
				}
			case 2:
				// bounded and expiring, same moving clock
				aclk = &atomicClock{}
				aclk.now.Store(1 << 40)
				o.Clock = aclk
				o.ExpiryCalculator = otter.ExpiryAccessing[int, int](time.Duration(3 << 30))
			}
		}
		// in half of the scripts InvalidateAll runs concurrently with the writers, again and again
		sweeper := r.chance(0.5)
		c := otter.Must(o)
		if i%2 == 0 {
			cref.Store(c)
		}
		fmt.Fprintf(out, "cfg kind=%s big=%v sweeper=%v\n", kind, big, sweeper)
		nkeys := 1 + r.intn(6)
		writers := 2 + r.intn(7)
		if big {
			nkeys = 4000 + r.intn(4000)
			writers = 2 + r.intn(3)
		}
		written := make([][]int, writers)
		var wg sync.WaitGroup
		stopTicker := make(chan struct{})
		tickerDone := make(chan struct{})
		go func() {
			defer close(tickerDone)
			if aclk == nil {
				return
			}
			tr := &rng{s: r.next()}
			for {
				select {
				case <-stopTicker:
					return
				default:
				}
				aclk.now.Add(int64(1<<29) + int64(tr.intn(1<<31)))
				time.Sleep(time.Duration(5+tr.intn(40)) * time.Microsecond)
			}
		}()
		stopSweeper := make(chan struct{})
		sweeperDone := make(chan struct{})
		go func() {
			defer close(sweeperDone)
			if !sweeper {
				return
			}
			for {
				select {
				case <-stopSweeper:
					return
				default:
				}
				c.InvalidateAll()
				time.Sleep(time.Duration(20+r.intn(200)) * time.Microsecond)
			}
		}()
		for w := 0; w < writers; w++ {
			wg.Add(1)
			ws := r.next()
			go func(w int) {
				defer wg.Done()
				lr := &rng{s: ws}
				ops := 60 + lr.intn(300)
				if big {
					ops = 2 * nkeys / writers
				}
				for j := 0; j < ops; j++ {
					k := lr.intn(nkeys)
					v := (w+1)*1000000 + j
					op := lr.intn(12)
					if big && op == 9 {
						op = 0 // keep the large maximum
					}
					switch op {
					case 0, 1, 2, 3, 4, 5:
						c.Set(k, v)
						written[w] = append(written[w], v)
					case 6:
						c.Invalidate(k)
					case 7, 8:
						wrote := false
						c.Compute(k, func(old int, found bool) (int, otter.ComputeOp) {
							if lr.chance(0.2) {
								runtime.Gosched() // widen the critical section a little
							}
							if found && lr.chance(0.3) {
								return 0, otter.InvalidateOp
							}
							wrote = true
							return v, otter.WriteOp
						})
						if wrote {
							written[w] = append(written[w], v)
						}
					case 9:
						if kind == "bounded" {
							c.SetMaximum(uint64(lr.intn(6)))
						} else {
							c.Set(k, v)
							written[w] = append(written[w], v)
						}
					default:
						c.GetIfPresent(k)
					}
					if lr.chance(0.05) {
						runtime.Gosched()
					}
				}
			}(w)
		}
		wg.Wait()
		close(stopSweeper)
		<-sweeperDone
		close(stopTicker)
		<-tickerDone
		settle := func() {
			for t := 0; t < 2000; t++ {
				pending.Wait()
				ds, wb, free := otter.VerifDrainState(c)
				if ds == 0 && wb == 0 && free {
					pending.Wait()
					return
				}
				time.Sleep(50 * time.Microsecond)
				c.CleanUp()
			}
		}
		settle()
		cref.Store(nil) // the listeners stop writing back: what follows empties the cache
		settle()
		c.InvalidateAll()
		c.CleanUp()
		settle()
		for w := range written {
			for _, v := range written[w] {
				fmt.Fprintf(out, "written %d\n", v)
			}
		}
		mu.Lock()
		for _, v := range handlerWritten {
			fmt.Fprintf(out, "written %d\n", v)
		}
		mu.Unlock()
		mu.Lock()
		for _, e := range atomicEv {
			fmt.Fprintf(out, "atomic %s\n", e)
		}
		for _, e := range delEv {
			fmt.Fprintf(out, "deletion %s\n", e)
		}
		mu.Unlock()
		fmt.Fprintf(out, "end size=%d\n", c.EstimatedSize())
		c.StopAllGoroutines()
		runtime.GOMAXPROCS(prevProcs)
	}
}
