package main

// CONC-refresh: refresh under real concurrency with the DEFAULT executor (C11: "serves the old value and swaps atomically or
// not at all", for asynchronous executors; C08 for the reload's single flight).
//
// One round: key k holds v0 and its refresh time has passed (manual clock).  A crowd of readers (Get with a loader, GetIfPresent,
// GetEntry) hits the key; the first Get hands a reload to the executor; the reload blocks on a gate.  While it is blocked a
// second crowd reads.  Then the reload finishes with its outcome:
//   ok   the new value replaces the old one, exactly once
//   err  the old value and its expiration time stay
//   nf   the entry is removed
// Every read of both crowds must have returned v0 (never the reloaded value, never "absent"), the loader's Reload must have
// run exactly once, Load never.  In half of the rounds the reload is started by an explicit Refresh instead: its channel
// delivers exactly one result.

import (
	"bufio"
	"context"
	"errors"
	"flag"
	"fmt"
	"sync"
	"sync/atomic"
	"time"

	otter "github.com/maypok86/otter/v2"
)

type refreshLoader struct {
	loads, reloads    atomic.Int32
	active, maxActive atomic.Int32
	entered           chan struct{}
	gate              chan struct{}
	outcome           string
	newVal            int
	oldSeen           atomic.Int64
}

func (l *refreshLoader) enter() {
	a := l.active.Add(1)
	for {
		m := l.maxActive.Load()
		if a <= m || l.maxActive.CompareAndSwap(m, a) {
			break
		}
	}
}

// Load: only a reload task that runs after the entry was removed (not-found outcome) may end up here
func (l *refreshLoader) Load(_ context.Context, k int) (int, error) {
	l.enter()
	defer l.active.Add(-1)
	l.loads.Add(1)
	return l.newVal + 2, nil
}

func (l *refreshLoader) Reload(_ context.Context, k int, old int) (int, error) {
	l.enter()
	defer l.active.Add(-1)
	idx := l.reloads.Add(1)
	if idx == 1 {
		l.oldSeen.Store(int64(old))
		close(l.entered)
	}
	<-l.gate
	if idx > 1 {
		// a reload task queued by an earlier stale read that runs after the first reload has finished (or was superseded):
		// it succeeds with a value of its own, so that the judge can tell whose result the cache holds
		return l.newVal + 100*int(idx-1), nil
	}
	switch l.outcome {
	case "ok":
		return l.newVal, nil
	case "err":
		return 0, errLoader
	default:
		return 0, notFoundErr(l.newVal)
	}
}

func concRefresh(args []string, out *bufio.Writer) {
	fs := flag.NewFlagSet("conc-refresh", flag.ExitOnError)
	seed := fs.Uint64("seed", 1, "")
	n := fs.Int("n", 10, "")
	from := fs.Int("from", 0, "")
	fs.Parse(args)
	for i := *from; i < *from+*n; i++ {
		r := &rng{s: scriptSeed(*seed, "concrefresh", i)}
		fmt.Fprintf(out, "script concrefresh-%d-%d\n", *seed, i)
		clk := &manualClock{now: 1000000000}
		// the default executor (one goroutine per task) with bookkeeping, so that a round can wait for every task it caused:
		// a reload task that ran only in the next round would act on that round's entry
		var pending sync.WaitGroup
		o := &otter.Options[int, int]{
			Logger:            nopLogger{},
			Clock:             clk,
			RefreshCalculator: otter.RefreshWriting[int, int](time.Minute),
			Executor: func(fn func()) {
				pending.Add(1)
				go func() {
					defer pending.Done()
					fn()
				}()
			},
		}
		// every third script: a bounded executor - ONE worker running the tasks in submission order (a task that waits for
		// work queued behind it would block everything: C08 "every waiter terminates")
		var queue chan func()
		var holdFirst atomic.Bool
		if i%3 == 2 {
			queue = make(chan func(), 1024)
			go func() {
				for fn := range queue {
					fn()
					pending.Done()
				}
			}()
			o.Executor = func(fn func()) {
				pending.Add(1)
				// the first submission of a round is held back a little on its caller's goroutine, so that a later submission
				// overtakes it in the queue: the order in which tasks are ACCEPTED must not matter
				if holdFirst.CompareAndSwap(true, false) {
					time.Sleep(300 * time.Microsecond)
				}
				queue <- fn
			}
		}
		withExpiry := r.chance(0.6)
		if withExpiry {
			o.ExpiryCalculator = otter.ExpiryWriting[int, int](time.Hour)
		}
		if r.chance(0.5) {
			o.MaximumSize = 100
		}
		c := otter.Must(o)
		fmt.Fprintf(out, "cfg expiry=%v bounded=%v oneworker=%v\n", withExpiry, o.MaximumSize != 0, queue != nil)
		rounds := 4 + r.intn(8)
		val := 10
		for round := 0; round < rounds; round++ {
			k := r.intn(3)
			val += 10
			v0 := val
			c.Set(k, v0)
			before, _ := c.GetEntryQuietly(k)
			clk.now += int64(time.Minute) + int64(r.intn(1000))
			ld := &refreshLoader{entered: make(chan struct{}), gate: make(chan struct{}), outcome: pick(r, []string{"ok", "ok", "err", "nf"}), newVal: v0 + 5}
			explicit := r.chance(0.5)
			var readsOld, readsOther atomic.Int32
			var otherSample atomic.Int64
			otherSample.Store(-999)
			read := func(kind int) {
				var v int
				var ok bool
				switch kind {
				case 0:
					vv, err := c.Get(context.Background(), k, ld)
					v, ok = vv, err == nil
				case 1:
					v, ok = c.GetIfPresent(k)
				default:
					e, present := c.GetEntry(k)
					v, ok = e.Value, present
				}
				if ok && v == v0 {
					readsOld.Add(1)
				} else {
					readsOther.Add(1)
					if ok {
						otherSample.Store(int64(v))
					} else {
						otherSample.Store(-1)
					}
				}
			}
			// (one to three callers refresh explicitly and concurrently: each gets its own channel and exactly one result on it)
			var chs []<-chan otter.RefreshResult[int, int]
			if explicit {
				nref := 1 + r.intn(3)
				holdFirst.Store(nref > 1)
				chs = make([]<-chan otter.RefreshResult[int, int], nref)
				var rwg sync.WaitGroup
				for q := 0; q < nref; q++ {
					rwg.Add(1)
					go func(q int) {
						defer rwg.Done()
						chs[q] = c.Refresh(context.Background(), k, ld)
					}(q)
				}
				rwg.Wait()
			}
			crowd := func(size int) {
				var wg sync.WaitGroup
				for w := 0; w < size; w++ {
					wg.Add(1)
					kind := r.intn(3)
					if !explicit && w == 0 {
						kind = 0 // somebody has to trigger the reload
					}
					go func() {
						defer wg.Done()
						read(kind)
					}()
				}
				wg.Wait()
			}
			crowd(2 + r.intn(6))
			started := true
			select {
			case <-ld.entered:
			case <-time.After(3 * time.Second):
				started = false
			}
			if started {
				crowd(2 + r.intn(6)) // while the reload is in flight
			}
			// in a third of the rounds the key is written while the reload is in flight: whatever the reload's outcome, the
			// write stays (C09: not replaced by the reloaded value, not removed by a not-found, not touched by a failure)
			superseded := -1
			if started && r.chance(0.33) {
				superseded = v0 + 7
				if r.chance(0.5) {
					c.Set(k, superseded)
				} else {
					c.Compute(k, func(int, bool) (int, otter.ComputeOp) { return superseded, otter.WriteOp })
				}
			}
			close(ld.gate)
			// wait for the reload to be finished and applied: no call left in flight
			settled := false
			for t := 0; t < 60000; t++ {
				if otter.VerifInflight(c) == 0 {
					settled = true
					break
				}
				time.Sleep(50 * time.Microsecond)
			}
			pdone := make(chan struct{})
			go func() { pending.Wait(); close(pdone) }()
			select {
			case <-pdone:
			case <-time.After(5 * time.Second):
				settled = false
			}
			// results = what the worst channel delivered (every channel must deliver exactly one result, all the same)
			results, chanErr := 0, "-"
			for qi, ch := range chs {
				got, tok := 0, "-"
				if ch != nil {
					timeout := time.After(3 * time.Second)
				collect:
					for {
						select {
						case res, ok := <-ch:
							if !ok {
								break collect
							}
							got++
							switch {
							case res.Err == nil:
								tok = fmt.Sprintf("nil:%d", res.Value)
							case errors.Is(res.Err, otter.ErrNotFound):
								tok = "nf"
							default:
								tok = "err"
							}
							if got > 1 {
								break collect
							}
							// a second result must not follow: give it a moment
							timeout = time.After(20 * time.Millisecond)
						case <-timeout:
							break collect
						}
					}
				}
				if qi == 0 || got != 1 || (tok != chanErr && results == 1) {
					results, chanErr = got, tok
				}
				if results != 1 {
					break
				}
			}
			after, present := c.GetEntryQuietly(k)
			afterTok := "absent"
			if present {
				afterTok = fmt.Sprint(after.Value)
			}
			expSame := present && after.ExpiresAtNano == before.ExpiresAtNano
			fmt.Fprintf(out, "rround key=%d old=%d outcome=%s new=%d explicit=%v started=%v settled=%v readsold=%d readsother=%d sample=%d loads=%d reloads=%d overlap=%d reloadsaw=%d after=%s expsame=%v results=%d chan=%s expiry=%v superseded=%d\n",
				k, v0, ld.outcome, ld.newVal, explicit, started, settled, readsOld.Load(), readsOther.Load(), otherSample.Load(), ld.loads.Load(), ld.reloads.Load(), ld.maxActive.Load(), ld.oldSeen.Load(), afterTok, expSame, results, chanErr, withExpiry, superseded)
			if !started || !settled {
				break
			}
		}
		c.StopAllGoroutines()
		if queue != nil {
			close(queue)
		}
	}
}
