package main

// CONC-drain: real goroutines, default executor.  After every cache call has returned and the goroutines the cache
// started have had time to finish, and WITHOUT any further cache call, the drain status must be idle and the write
// buffer empty (C14), all deletion notifications delivered (C06) and the size bound restored (C04).

import (
	"bufio"
	"flag"
	"fmt"
	"os"
	"os/exec"
	"runtime"
	"sync"
	"sync/atomic"
	"time"

	otter "github.com/maypok86/otter/v2"
)

func concDrain(args []string, out *bufio.Writer) {
	fs := flag.NewFlagSet("conc-drain", flag.ExitOnError)
	seed := fs.Uint64("seed", 1, "")
	n := fs.Int("n", 10, "")
	from := fs.Int("from", 0, "")
	lockHolders := fs.Bool("lockholders", true, "include InvalidateAll/Hottest/Coldest/GetMaximum callers")
	backlogChild := fs.Bool("backlogchild", false, "internal: the backlog scenario of script -from, in this process")
	fs.Parse(args)
	if *backlogChild {
		drainBacklog(&rng{s: scriptSeed(*seed, "concdrain-backlog", *from)}, out)
		drainBurst(&rng{s: scriptSeed(*seed, "concdrain-burst", *from)}, out)
		drainOrder(&rng{s: scriptSeed(*seed, "concdrain-order", *from)}, out)
		return
	}
	for i := *from; i < *from+*n; i++ {
		r := &rng{s: scriptSeed(*seed, "concdrain", i)}
		fmt.Fprintf(out, "script concdrain-%d-%d\n", *seed, i)
		if i%6 == 5 {
			// the backlog scenario in a process of its own, started with a processor count that is not a power of two: the
			// cache sizes its buffers from GOMAXPROCS when the package is initialised
			out.Flush()
			cmd := exec.Command(os.Args[0], "conc-drain", "-backlogchild", "-seed", fmt.Sprint(*seed), "-from", fmt.Sprint(i))
			cmd.Env = append(os.Environ(), fmt.Sprintf("GOMAXPROCS=%d", pick(r, []int{3, 5, 6, 7, 12, 16})))
			res, err := cmd.Output()
			out.Write(res)
			if err != nil {
				fmt.Fprintf(out, "childfailed %v\n", err)
			}
			continue
		}
		if i%6 == 4 {
			drainTail(r, out)
			continue
		}
		maxSize := 2 + r.intn(6)
		var atomicEv, delEv atomic.Int64
		do := &otter.Options[int, int]{
			MaximumSize:      maxSize,
			OnAtomicDeletion: func(e otter.DeletionEvent[int, int]) { atomicEv.Add(1) },
			OnDeletion:       func(e otter.DeletionEvent[int, int]) { delEv.Add(1) },
		}
		// a quarter of the caches expire only (no size bound), a quarter do both; their clock is a manual one that never ticks,
		// so the periodic clean-up of an expiring cache cannot paper over a lost wake-up
		switch i % 4 {
		case 2:
			do.MaximumSize = 0
			maxSize = 1 << 30
			do.ExpiryCalculator = otter.ExpiryWriting[int, int](time.Hour)
			do.Clock = &manualClock{now: 1000000000}
		case 3:
			do.ExpiryCalculator = otter.ExpiryWriting[int, int](time.Hour)
			do.Clock = &manualClock{now: 1000000000}
		}
		c := otter.Must(do)
		writers := 1 + r.intn(4)
		others := 0
		if *lockHolders {
			others = 1 + r.intn(3)
		}
		rounds := 20 + r.intn(60)
		stranded := 0
		for round := 0; round < rounds && stranded == 0; round++ {
			var wg sync.WaitGroup
			for w := 0; w < writers; w++ {
				wg.Add(1)
				// each writer owns a disjoint key range (no concurrent rewrites of one key: known finding K1 stays out)
				base := 1000*w + round*7
				nw := 1 + int(r.next()%3)
				go func() {
					defer wg.Done()
					for j := 0; j < nw; j++ {
						c.Set(base+j, j)
						runtime.Gosched()
					}
				}()
			}
			for o := 0; o < others; o++ {
				wg.Add(1)
				kind := int(r.next() % 7)
				early := r.next()%2 == 0
				go func() {
					defer wg.Done()
					switch kind {
					case 0:
						c.InvalidateAll()
					case 1:
						for range c.Coldest() {
							runtime.Gosched()
							if early {
								break // an iteration that is left early must hand the maintenance over just the same
							}
						}
					case 2:
						for range c.Hottest() {
							runtime.Gosched()
							if early {
								break
							}
						}
					case 3:
						_ = c.GetMaximum()
					case 4:
						_, _ = c.GetIfPresent(1)
					default:
						// a maintenance run driven by a caller (performCleanUp) while the writers write
						c.CleanUp()
					}
				}()
			}
			wg.Wait()
			// let the goroutines started by the cache (default executor) finish
			var ds uint32
			var wb uint64
			var free bool
			// (a stranded state never settles, so waiting long costs nothing on correct code and keeps a loaded machine, on
			// which the cache's own goroutines may not be scheduled for a while, from looking like a lost wake-up)
			deadline := time.Now().Add(1500 * time.Millisecond)
			for t := 0; ; t++ {
				time.Sleep(50 * time.Microsecond)
				ds, wb, free = otter.VerifDrainState(c)
				if ds == 0 && wb == 0 && free && atomicEv.Load() == delEv.Load() {
					break
				}
				if t >= 200 && time.Now().After(deadline) {
					break
				}
				if t >= 200 {
					time.Sleep(time.Millisecond)
				}
			}
			size := c.EstimatedSize() // hash-table counter only: not a maintenance trigger
			fmt.Fprintf(out, "quiescent round=%d writers=%d others=%d ds=%d wb=%d lockfree=%v atomic=%d delivered=%d size=%d max=%d\n",
				round, writers, others, ds, wb, free, atomicEv.Load(), delEv.Load(), size, maxSize)
			if ds != 0 || wb != 0 {
				stranded++
			}
		}
		c.StopAllGoroutines()
	}
}

// drainBacklog: writers run while an iteration holds the eviction lock, so that a backlog of write events builds up (the
// write buffer fills, further writers queue for the lock); the iteration ends; after every call has returned and WITHOUT a
// further cache call everything buffered must have been processed (C14: a maintenance run that stops before the buffer is
// empty hands over to a successor).
func drainBacklog(r *rng, out *bufio.Writer) {
	procs := runtime.GOMAXPROCS(0)
	rounded := 1
	for rounded < procs {
		rounded <<= 1
	}
	maxSize := 20 + r.intn(60)
	var atomicEv, delEv atomic.Int64
	c := otter.Must(&otter.Options[int, int]{
		MaximumSize:      maxSize,
		OnAtomicDeletion: func(e otter.DeletionEvent[int, int]) { atomicEv.Add(1) },
		OnDeletion:       func(e otter.DeletionEvent[int, int]) { delEv.Add(1) },
	})
	for k := 0; k < 10; k++ {
		c.Set(k, k)
	}
	c.CleanUp()
	rounds := 2 + r.intn(3)
	for round := 0; round < rounds; round++ {
		writers := 2 + r.intn(5)
		// enough writes to fill the write buffer (128 * the processor count rounded up to a power of two) and some more
		total := 128*rounded + 16 + r.intn(200)
		fits := r.chance(0.7)
		if fits {
			// ... or a backlog that just fits: more than 128 * the processor count, fewer than the buffer holds - every writer
			// returns while the lock is still held, and the one maintenance run that follows must see to all of it
			total = 128*rounded - 2 - r.intn(100)
			if rounded > procs {
				total = 128*procs + 2 + r.intn(128*(rounded-procs)-4)
			}
		}
		release := make(chan struct{})
		holding := make(chan struct{})
		var wg sync.WaitGroup
		wg.Add(1)
		go func() {
			defer wg.Done()
			first := true
			for range c.Coldest() {
				if first {
					first = false
					close(holding)
					<-release
				}
				break
			}
			if first {
				close(holding)
			}
		}()
		<-holding
		var wwg sync.WaitGroup
		left := total
		for w := 0; w < writers; w++ {
			wg.Add(1)
			wwg.Add(1)
			base := 100000*(round+1) + 10000*w
			nw := total / writers
			if w == writers-1 {
				nw = left
			}
			left -= nw
			go func() {
				defer wg.Done()
				defer wwg.Done()
				for j := 0; j < nw; j++ {
					c.Set(base+j, j)
				}
			}()
		}
		if fits {
			wdone := make(chan struct{})
			go func() { wwg.Wait(); close(wdone) }()
			select {
			case <-wdone:
			case <-time.After(2 * time.Second):
			}
		}
		// the writers fill the buffer and then queue for the lock; give them time, then let the iteration end
		for t := 0; t < 400; t++ {
			time.Sleep(500 * time.Microsecond)
			if _, wb, _ := otter.VerifDrainState(c); wb >= uint64(128*rounded)-1 {
				break
			}
		}
		time.Sleep(time.Duration(r.intn(2000)) * time.Microsecond)
		close(release)
		wg.Wait()
		var ds uint32
		var wb uint64
		var free bool
		deadline := time.Now().Add(1500 * time.Millisecond)
		for t := 0; ; t++ {
			time.Sleep(50 * time.Microsecond)
			ds, wb, free = otter.VerifDrainState(c)
			if ds == 0 && wb == 0 && free && atomicEv.Load() == delEv.Load() {
				break
			}
			if t >= 200 && time.Now().After(deadline) {
				break
			}
			if t >= 200 {
				time.Sleep(time.Millisecond)
			}
		}
		size := c.EstimatedSize()
		fmt.Fprintf(out, "quiescent round=%d writers=%d others=1 ds=%d wb=%d lockfree=%v atomic=%d delivered=%d size=%d max=%d backlog=%d fits=%v procs=%d\n",
			round, writers, ds, wb, free, atomicEv.Load(), delEv.Load(), size, maxSize, total, fits, procs)
		if ds != 0 || wb != 0 {
			break
		}
	}
	c.StopAllGoroutines()
	out.Flush()
}

// drainTail: single writes aimed at the very END of a concurrent maintenance run.  One goroutine calls CleanUp in a loop
// (each call is a whole maintenance run that ends with the processing -> idle transition); the main goroutine issues one
// Set per round after a varying busy-wait, so that over the rounds its push and its look at the drain status land before,
// inside and after that final transition.  Then the CleanUp loop is stopped and, WITHOUT any further cache call, the event
// must be processed (C14: a write that finds the maintenance finishing re-reads the status and schedules a successor).
func drainTail(r *rng, out *bufio.Writer) {
	maxSize := 4 + r.intn(8)
	var atomicEv, delEv atomic.Int64
	c := otter.Must(&otter.Options[int, int]{
		MaximumSize:      maxSize,
		OnAtomicDeletion: func(e otter.DeletionEvent[int, int]) { atomicEv.Add(1) },
		OnDeletion:       func(e otter.DeletionEvent[int, int]) { delEv.Add(1) },
	})
	rounds := 150 + r.intn(150)
	spinMax := 200 + r.intn(3000)
	sink := 0
	for round := 0; round < rounds; round++ {
		var stop atomic.Bool
		var started atomic.Int32
		done := make(chan struct{})
		go func() {
			defer close(done)
			for !stop.Load() {
				c.CleanUp()
				started.Add(1)
			}
		}()
		for started.Load() < 2 {
			runtime.Gosched()
		}
		spin := r.intn(spinMax)
		for j := 0; j < spin; j++ {
			sink += j
		}
		c.Set(round, round)
		stop.Store(true)
		<-done
		var ds uint32
		var wb uint64
		var free bool
		deadline := time.Now().Add(1500 * time.Millisecond)
		for t := 0; ; t++ {
			time.Sleep(20 * time.Microsecond)
			ds, wb, free = otter.VerifDrainState(c)
			if ds == 0 && wb == 0 && free && atomicEv.Load() == delEv.Load() {
				break
			}
			if t >= 200 && time.Now().After(deadline) {
				break
			}
			if t >= 200 {
				time.Sleep(time.Millisecond)
			}
		}
		size := c.EstimatedSize()
		fmt.Fprintf(out, "quiescent round=%d writers=1 others=1 ds=%d wb=%d lockfree=%v atomic=%d delivered=%d size=%d max=%d tail=%d\n",
			round, ds, wb, free, atomicEv.Load(), delEv.Load(), size, maxSize, spin)
		if ds != 0 || wb != 0 {
			break
		}
	}
	_ = sink
	c.StopAllGoroutines()
}

// burstRecorder pauses the maintenance goroutine at chosen evictions (RecordEviction is only called from the maintenance).
type burstRecorder struct {
	evictions atomic.Int64
	pauseAt   [2]int64
	paused    chan int64
	resume    chan struct{}
}

func (r *burstRecorder) RecordHits(int)                  {}
func (r *burstRecorder) RecordMisses(int)                {}
func (r *burstRecorder) RecordLoadSuccess(time.Duration) {}
func (r *burstRecorder) RecordLoadFailure(time.Duration) {}
func (r *burstRecorder) RecordEviction(uint32) {
	n := r.evictions.Add(1)
	if n == r.pauseAt[0] || n == r.pauseAt[1] {
		select {
		case r.paused <- n:
			<-r.resume
		case <-time.After(2 * time.Second):
		}
	}
}

// drainBurst: a burst of writes arrives while ONE slow maintenance run is draining the write buffer, so that this single
// run reaches its per-run drain limit with writes still queued; every writer has long returned (it saw a maintenance in
// progress and only flagged it).  WITHOUT a further cache call everything buffered must be processed (C14: a run that
// stops at its drain limit asks for a successor).  Maximum 0: every insertion is evicted as soon as it is drained, and
// the eviction is where the maintenance is paused.
func drainBurst(r *rng, out *bufio.Writer) {
	procs := runtime.GOMAXPROCS(0)
	rounded := 1
	for rounded < procs {
		rounded <<= 1
	}
	limit := 128 * rounded
	second := limit/2 + r.intn(limit/4)
	rec := &burstRecorder{pauseAt: [2]int64{1, int64(second)}, paused: make(chan int64), resume: make(chan struct{})}
	c := otter.Must(&otter.Options[int, int]{MaximumSize: 1, StatsRecorder: rec})
	c.SetMaximum(0)
	key := 0
	c.Set(key, key)
	wait := func() bool {
		select {
		case <-rec.paused:
			return true
		case <-time.After(2 * time.Second):
			return false
		}
	}
	ok := wait()
	if ok {
		for i := 0; i < limit-8-r.intn(8); i++ {
			key++
			c.Set(key, key)
		}
		rec.resume <- struct{}{}
		if wait() {
			for i := 0; i < second-8-r.intn(8); i++ {
				key++
				c.Set(key, key)
			}
			rec.resume <- struct{}{}
		}
	}
	total := key + 1
	var ds uint32
	var wb uint64
	var free bool
	deadline := time.Now().Add(2 * time.Second)
	for t := 0; ; t++ {
		time.Sleep(100 * time.Microsecond)
		ds, wb, free = otter.VerifDrainState(c)
		if ds == 0 && wb == 0 && free && rec.evictions.Load() == int64(total) {
			break
		}
		if time.Now().After(deadline) {
			break
		}
	}
	size := c.EstimatedSize()
	fmt.Fprintf(out, "quiescent round=0 writers=1 others=0 ds=%d wb=%d lockfree=%v atomic=%d delivered=%d size=%d max=0 burst=%d paused=%v procs=%d\n",
		ds, wb, free, total, rec.evictions.Load(), size, total, ok, procs)
	c.StopAllGoroutines()
	out.Flush()
}

// drainOrder: ONE goroutine rewrites one key many more times than the write buffer holds while the executor is stalled
// (submitted maintenance runs are kept, not run), so the buffer fills up and the writer, after its offers were refused,
// performs the maintenance itself with its own event in hand.  Its older events still in the buffer must be processed
// before that event (C16: events of one producer are consumed in submission order, also on the hand-over path): the
// replaced values reach OnDeletion in the order they were written.
func drainOrder(r *rng, out *bufio.Writer) {
	procs := runtime.GOMAXPROCS(0)
	rounded := 1
	for rounded < procs {
		rounded <<= 1
	}
	var mu sync.Mutex
	var held []func()
	var got []int
	c := otter.Must(&otter.Options[int, int]{
		MaximumSize: 100,
		Executor: func(fn func()) {
			mu.Lock()
			held = append(held, fn)
			mu.Unlock()
		},
		OnDeletion: func(e otter.DeletionEvent[int, int]) {
			if e.Key == 1 {
				got = append(got, e.Value)
			}
		},
	})
	total := 128*rounded*2 + r.intn(128*rounded)
	for i := 0; i < total; i++ {
		c.Set(1, i)
	}
	mu.Lock()
	fns := held
	held = nil
	mu.Unlock()
	for _, fn := range fns {
		fn()
	}
	c.CleanUp()
	mu.Lock()
	fns = held
	held = nil
	mu.Unlock()
	for _, fn := range fns {
		fn()
	}
	bad, firstBad, prevAt := 0, -1, -1
	for i, v := range got {
		if i > 0 && v < got[i-1] {
			bad++
			if firstBad < 0 {
				firstBad, prevAt = v, got[i-1]
			}
		}
	}
	fmt.Fprintf(out, "order writes=%d reported=%d bad=%d first=%d after=%d procs=%d\n", total, len(got), bad, firstBad, prevAt, procs)
	c.StopAllGoroutines()
	out.Flush()
}
