package main

// CONC-lin: concurrent histories of the cache (C02) and of the hash table alone (C15), judged for linearizability by
// the Lean driver (Lin.Check).  Every written value is unique; every operation is logged as (seen, wrote) with call and
// return stamps from one atomic counter; automatic removals enter the history at the instant the atomic deletion
// handler reports them.

import (
	"bufio"
	"flag"
	"fmt"
	"runtime"
	"sync"
	"sync/atomic"
	"time"

	otter "github.com/maypok86/otter/v2"
	"github.com/maypok86/otter/v2/internal/generated/node"
	"github.com/maypok86/otter/v2/internal/hashmap"
	"github.com/maypok86/otter/v2/stats"
)

type hop struct {
	key       int
	tag       string
	call, ret int64
	seen      int // -1 absent
	wrote     int // -2 read, -1 removal, >=0 value
	cbCount   int
	lin       int64
}

func fmtOpt(v int) string {
	if v < 0 {
		return "-"
	}
	return fmt.Sprint(v)
}

func printHops(out *bufio.Writer, hs []hop) {
	for _, h := range hs {
		w := "-"
		if h.wrote == -1 {
			w = "del"
		} else if h.wrote >= 0 {
			w = fmt.Sprint(h.wrote)
		}
		fmt.Fprintf(out, "h %d %s %d %d %s %s cb=%d lin=%d\n", h.key, h.tag, h.call, h.ret, fmtOpt(h.seen), w, h.cbCount, h.lin)
	}
}

func concLin(args []string, out *bufio.Writer) {
	fs := flag.NewFlagSet("conc-lin", flag.ExitOnError)
	seed := fs.Uint64("seed", 1, "")
	n := fs.Int("n", 10, "")
	from := fs.Int("from", 0, "")
	target := fs.String("target", "cache", "cache | table")
	fs.Parse(args)
	for i := *from; i < *from+*n; i++ {
		r := &rng{s: scriptSeed(*seed, "conclin"+*target, i)}
		fmt.Fprintf(out, "script conclin-%s-%d-%d\n", *target, *seed, i)
		var stamp, nextVal atomic.Int64
		nextVal.Store(1)
		workers := 2 + r.intn(7)
		nkeys := 1 + r.intn(5)
		nops := 20 + r.intn(120)
		logs := make([][]hop, workers+1)
		var evMu sync.Mutex
		var wg sync.WaitGroup
		if *target == "cache" {
			o := &otter.Options[int, int]{InitialCapacity: pick(r, []int{1, 16, 1000})}
			bounded := r.chance(0.5)
			if bounded {
				o.MaximumSize = 1 + r.intn(4)
			}
			// stamps taken inside the critical section of every write: the expiry calculator runs while the new node is
			// built under the bucket lock, the atomic deletion handler while the old value is unlinked
			var wroteAt, removedAt sync.Map
			o.ExpiryCalculator = otter.ExpiryWritingFunc(func(e otter.Entry[int, int]) time.Duration {
				if e.Key < 1000 {
					wroteAt.Store(e.Value, stamp.Add(1))
				}
				return 24 * time.Hour
			})
			o.OnAtomicDeletion = func(e otter.DeletionEvent[int, int]) {
				if e.Key >= 1000 {
					return
				}
				s := stamp.Add(1)
				removedAt.Store(e.Value, s)
				if e.Cause == otter.CauseOverflow || e.Cause == otter.CauseExpiration {
					evMu.Lock()
					logs[workers] = append(logs[workers], hop{key: e.Key, tag: "evict", call: s, ret: s, lin: s, seen: e.Value, wrote: -1, cbCount: 1})
					evMu.Unlock()
				}
			}
			// the automatic removal is published (pointer cleared) after the atomic handler returned and before the
			// ordinary deletion handler is invoked: that bounds the removal's interval
			var evictDone sync.Map
			o.OnDeletion = func(e otter.DeletionEvent[int, int]) {
				if e.Key < 1000 && (e.Cause == otter.CauseOverflow || e.Cause == otter.CauseExpiration) {
					evictDone.Store(e.Value, stamp.Add(1))
				}
			}
			linOf := func(h *hop) {
				if h.wrote >= 0 {
					if s, ok := wroteAt.Load(h.wrote); ok {
						h.lin = s.(int64)
					}
				} else if h.wrote == -1 {
					if s, ok := removedAt.Load(h.seen); ok {
						h.lin = s.(int64)
					}
				}
			}
			counter := stats.NewCounter()
			o.StatsRecorder = counter
			var lookups atomic.Int64
			c := otter.Must(o)
			fmt.Fprintf(out, "cfg target=cache workers=%d keys=%d bounded=%v\n", workers, nkeys, bounded)
			for w := 0; w < workers; w++ {
				wg.Add(1)
				ws := r.next()
				go func(w int) {
					defer wg.Done()
					lr := &rng{s: ws}
					for j := 0; j < nops; j++ {
						k := lr.intn(nkeys)
						if lr.chance(0.15) {
							// side keys force the table through growth and shrink
							sk := 1000 + lr.intn(400)
							if lr.chance(0.5) {
								c.Set(sk, 0)
							} else {
								c.Invalidate(sk)
							}
							continue
						}
						h := hop{key: k, cbCount: 1}
						h.call = stamp.Add(1)
						switch lr.intn(10) {
						case 8:
							v := int(nextVal.Add(1))
							ran := false
							got, ok := c.ComputeIfAbsent(k, func() (int, bool) { ran = true; return v, false })
							lookups.Add(1)
							h.tag = "cia"
							if ran {
								h.seen, h.wrote = -1, v
							} else if ok {
								h.seen, h.wrote = got, -2
							} else {
								h.seen, h.wrote = -1, -2
							}
						case 9:
							v := int(nextVal.Add(1))
							ran := false
							seen := -1
							_, _ = c.ComputeIfPresent(k, func(old int) (int, otter.ComputeOp) { ran = true; seen = old; return v, otter.WriteOp })
							lookups.Add(1)
							h.tag = "cip"
							if ran {
								h.seen, h.wrote = seen, v
							} else {
								h.seen, h.wrote = -1, -2
							}
						case 0, 1:
							v := int(nextVal.Add(1))
							old, inserted := c.Set(k, v)
							h.tag, h.wrote = "set", v
							if inserted {
								h.seen = -1
							} else {
								h.seen = old
							}
						case 2:
							v := int(nextVal.Add(1))
							got, inserted := c.SetIfAbsent(k, v)
							h.tag = "sia"
							if inserted {
								h.seen, h.wrote = -1, v
							} else {
								h.seen, h.wrote = got, -2
							}
						case 3, 4:
							got, ok := c.GetIfPresent(k)
							lookups.Add(1)
							h.tag, h.wrote = "get", -2
							if ok {
								h.seen = got
							} else {
								h.seen = -1
							}
						case 5:
							v := int(nextVal.Add(1))
							mode := lr.intn(3)
							cb := 0
							seen := -1
							c.Compute(k, func(old int, found bool) (int, otter.ComputeOp) {
								cb++
								if found {
									seen = old
								} else {
									seen = -1
								}
								switch mode {
								case 0:
									return v, otter.WriteOp
								case 1:
									return 0, otter.InvalidateOp
								}
								return 0, otter.CancelOp
							})
							lookups.Add(1)
							h.tag, h.seen, h.cbCount = "compute", seen, cb
							switch mode {
							case 0:
								h.wrote = v
							case 1:
								h.wrote = -1
								if seen == -1 {
									h.wrote = -2 // removing an absent key changes nothing
								}
							default:
								h.wrote = -2
							}
						case 6:
							old, ok := c.Invalidate(k)
							h.tag = "inval"
							if ok {
								h.seen, h.wrote = old, -1
							} else {
								h.seen, h.wrote = -1, -2
							}
						default:
							e, ok := c.GetEntry(k)
							lookups.Add(1)
							h.tag, h.wrote = "entry", -2
							if ok {
								h.seen = e.Value
							} else {
								h.seen = -1
							}
						}
						h.ret = stamp.Add(1)
						linOf(&h)
						logs[w] = append(logs[w], h)
						if lr.chance(0.1) {
							runtime.Gosched()
						}
					}
				}(w)
			}
			wg.Wait()
			c.CleanUp()
			time.Sleep(2 * time.Millisecond)
			end := stamp.Add(1)
			for i := range logs[workers] {
				h := &logs[workers][i]
				if s, ok := evictDone.Load(h.seen); ok {
					h.ret = s.(int64)
				} else {
					h.ret = end
				}
			}
			st := counter.Snapshot()
			fmt.Fprintf(out, "stats hits=%d misses=%d lookups=%d\n", st.Hits, st.Misses, lookups.Load())
			c.StopAllGoroutines()
		} else {
			nm := node.NewManager[int, int](node.Config{})
			m := hashmap.NewWithSize[int, int, node.Node[int, int]](nm, pick(r, []int{0, 1, 64}))
			fmt.Fprintf(out, "cfg target=table workers=%d keys=%d\n", workers, nkeys)
			for w := 0; w < workers; w++ {
				wg.Add(1)
				ws := r.next()
				go func(w int) {
					defer wg.Done()
					lr := &rng{s: ws}
					for j := 0; j < nops; j++ {
						k := lr.intn(nkeys)
						if lr.chance(0.25) {
							sk := 1000 + lr.intn(600)
							if lr.chance(0.5) {
								m.Compute(sk, func(node.Node[int, int]) node.Node[int, int] { return nm.Create(sk, 0, 0, 0, 1) })
							} else {
								m.Compute(sk, func(node.Node[int, int]) node.Node[int, int] { return nil })
							}
							continue
						}
						h := hop{key: k, cbCount: 1}
						h.call = stamp.Add(1)
						switch lr.intn(4) {
						case 0:
							got := m.Get(k)
							h.tag, h.wrote = "get", -2
							if got == nil {
								h.seen = -1
							} else {
								h.seen = got.Value()
							}
						default:
							v := int(nextVal.Add(1))
							mode := lr.intn(3)
							cb := 0
							seen := -1
							m.Compute(k, func(old node.Node[int, int]) node.Node[int, int] {
								cb++
								h.lin = stamp.Add(1)
								if old == nil {
									seen = -1
								} else {
									seen = old.Value()
								}
								switch mode {
								case 0:
									return nm.Create(k, v, 0, 0, 1)
								case 1:
									return nil
								}
								return old
							})
							h.tag, h.seen, h.cbCount = "compute", seen, cb
							switch mode {
							case 0:
								h.wrote = v
							case 1:
								h.wrote = -1
								if seen == -1 {
									h.wrote = -2
								}
							default:
								h.wrote = -2
							}
						}
						h.ret = stamp.Add(1)
						logs[w] = append(logs[w], h)
					}
				}(w)
			}
			wg.Wait()
			// quiescent: size equals the number of keys, iteration yields each once
			cnt := map[int]int{}
			m.Range(func(nd node.Node[int, int]) bool { cnt[nd.Key()]++; return true })
			dups := 0
			for _, c := range cnt {
				if c > 1 {
					dups++
				}
			}
			fmt.Fprintf(out, "tablesize size=%d ranged=%d dups=%d\n", m.Size(), len(cnt), dups)
		}
		for _, l := range logs {
			printHops(out, l)
		}
		fmt.Fprintf(out, "end\n")
	}
}
