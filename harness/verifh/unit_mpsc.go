package main

// UNIT-mpsc: sequential white-box differential of internal/deque/queue/mpsc.go against Impl.Mpsc
// (index words and chunk lengths after every call) plus the FIFO / refuse-iff-full oracle.

import (
	"bufio"
	"flag"
	"fmt"

	"github.com/maypok86/otter/v2/internal/deque/queue"
)

func unitMpsc(args []string, out *bufio.Writer) {
	fs := flag.NewFlagSet("unit-mpsc", flag.ExitOnError)
	seed := fs.Uint64("seed", 1, "")
	n := fs.Int("n", 10, "")
	from := fs.Int("from", 0, "")
	fs.Parse(args)
	for i := *from; i < *from+*n; i++ {
		r := &rng{s: scriptSeed(*seed, "mpsc", i)}
		fmt.Fprintf(out, "script mpsc-%d-%d\n", *seed, i)
		inits := []uint32{2, 3, 4, 5, 7, 8, 16, 31, 64, 100}
		maxs := []uint32{4, 5, 7, 8, 9, 16, 17, 32, 64, 100, 128, 500, 2048}
		ini := pick(r, inits)
		mx := pick(r, maxs)
		func() {
			defer func() {
				if p := recover(); p != nil {
					fmt.Fprintf(out, "new %d %d => panic\n", ini, mx)
				}
			}()
			q := queue.NewMPSC[int](ini, mx)
			fmt.Fprintf(out, "new %d %d => cap=%d %s\n", ini, mx, q.VerifCapacity(), q.VerifDump())
			next := 1
			nops := 50 + r.intn(4*int(mx)+200)
			// phases: mostly pushing, mostly popping, mixed — to cross every chunk switch and the full/empty boundaries
			bias := 0.7
			for j := 0; j < nops; j++ {
				if r.chance(0.02) {
					bias = pick(r, []float64{0.9, 0.7, 0.5, 0.3, 0.1})
				}
				if r.chance(bias) {
					v := new(int)
					*v = next
					ok := q.TryPush(v)
					fmt.Fprintf(out, "push %d => %v size=%d %s\n", next, ok, q.Size(), q.VerifDump())
					next++
				} else {
					p := q.TryPop()
					if p == nil {
						fmt.Fprintf(out, "pop => nil size=%d %s\n", q.Size(), q.VerifDump())
					} else {
						fmt.Fprintf(out, "pop => %d size=%d %s\n", *p, q.Size(), q.VerifDump())
					}
				}
			}
		}()
	}
}
