package main

import "bufio"

// unitDispatch runs a UNIT engine; returns false if the name is unknown.
func unitDispatch(name string, args []string, out *bufio.Writer) bool {
	switch name {
	case "unit-sketch":
		unitSketch(args, out)
		return true
	case "unit-ring":
		unitRing(args, out)
		return true
	case "conc-ring":
		concRing(args, out)
		return true
	case "hook-ring":
		hookRing(args, out)
		return true
	case "conc-flight":
		concFlight(args, out)
		return true
	case "conc-events":
		concEvents(args, out)
		return true
	case "conc-resize":
		concResize(args, out)
		return true
	case "conc-lin":
		concLin(args, out)
		return true
	case "conc-policy":
		concPolicy(args, out)
		return true
	case "conc-mpsc":
		concMpsc(args, out)
		return true
	case "conc-drain":
		concDrain(args, out)
		return true
	case "unit-policy":
		unitPolicy(args, out)
		return true
	case "unit-mpsc":
		unitMpsc(args, out)
		return true
	case "conc-window":
		concWindow(args, out)
		return true
	case "conc-refresh":
		concRefresh(args, out)
		return true
	case "unit-keys":
		unitKeys(args, out)
		return true
	case "unit-wheel":
		unitWheel(args, out)
		return true
	}
	return false
}
