package main

// UNIT-ring (sequential differential of lossy/ring.go) and CONC-ring (recorders racing one draining consumer on the
// striped buffer: delivery log judged for no-invention / at-most-once / capacity / quiescent delivery).

import (
	"bufio"
	"flag"
	"fmt"
	"runtime"
	"sync"
	"sync/atomic"

	"github.com/maypok86/otter/v2/internal/generated/node"
	"github.com/maypok86/otter/v2/internal/lossy"
)

func unitRing(args []string, out *bufio.Writer) {
	fs := flag.NewFlagSet("unit-ring", flag.ExitOnError)
	seed := fs.Uint64("seed", 1, "")
	n := fs.Int("n", 10, "")
	from := fs.Int("from", 0, "")
	fs.Parse(args)
	nm := node.NewManager[int, int](node.Config{WithSize: true})
	for i := *from; i < *from+*n; i++ {
		r := &rng{s: scriptSeed(*seed, "ring", i)}
		fmt.Fprintf(out, "script ring-%d-%d\n", *seed, i)
		next := 1
		mk := func() node.Node[int, int] { nd := nm.Create(next, next, 0, 0, 1); next++; return nd }
		first := mk()
		rg := lossy.NewVerifRing(nm, first)
		fmt.Fprintf(out, "new %d => head=%d tail=%d len=%d\n", first.Key(), rg.Head(), rg.Tail(), rg.Len())
		bias := 0.8
		for j := 0; j < 100+r.intn(400); j++ {
			if r.chance(0.03) {
				bias = pick(r, []float64{0.95, 0.8, 0.5})
			}
			if r.chance(bias) {
				nd := mk()
				st := rg.Add(nd)
				fmt.Fprintf(out, "add %d => %d head=%d tail=%d len=%d\n", nd.Key(), st, rg.Head(), rg.Tail(), rg.Len())
			} else {
				var got []string
				rg.DrainTo(func(nd node.Node[int, int]) { got = append(got, fmt.Sprint(nd.Key())) })
				fmt.Fprintf(out, "drain => %s head=%d tail=%d len=%d\n", joinS(got), rg.Head(), rg.Tail(), rg.Len())
			}
		}
	}
}

func joinS(a []string) string {
	s := "["
	for i, x := range a {
		if i > 0 {
			s += ","
		}
		s += x
	}
	return s + "]"
}

func concRing(args []string, out *bufio.Writer) {
	fs := flag.NewFlagSet("conc-ring", flag.ExitOnError)
	seed := fs.Uint64("seed", 1, "")
	n := fs.Int("n", 10, "")
	from := fs.Int("from", 0, "")
	fs.Parse(args)
	nm := node.NewManager[int, int](node.Config{WithSize: true})
	for i := *from; i < *from+*n; i++ {
		r := &rng{s: scriptSeed(*seed, "concring", i)}
		fmt.Fprintf(out, "script concring-%d-%d\n", *seed, i)
		maxLen := pick(r, []int{1, 2, 4, 16, 64})
		s := lossy.NewStriped(maxLen, nm)
		recorders := 1 + r.intn(16)
		per := 50 + r.intn(300)
		var delivered []int
		var mu sync.Mutex
		var stop atomic.Bool
		var cwg sync.WaitGroup
		maxLenSeen := 0
		cwg.Add(1)
		go func() {
			defer cwg.Done()
			for !stop.Load() {
				if l := s.Len(); l > maxLenSeen {
					maxLenSeen = l
				}
				s.DrainTo(func(nd node.Node[int, int]) {
					mu.Lock()
					delivered = append(delivered, nd.Key())
					mu.Unlock()
				})
				runtime.Gosched()
			}
		}()
		accepted := make([][]int, recorders)
		var wg sync.WaitGroup
		for p := 0; p < recorders; p++ {
			wg.Add(1)
			go func(p int) {
				defer wg.Done()
				for j := 0; j < per; j++ {
					id := p*1000000 + j
					nd := nm.Create(id, id, 0, 0, 1)
					if s.Add(nd) == lossy.Success {
						accepted[p] = append(accepted[p], id)
					}
					if j%7 == 0 {
						runtime.Gosched()
					}
				}
			}(p)
		}
		wg.Wait()
		stop.Store(true)
		cwg.Wait()
		// quiescent: one more drain delivers whatever was recorded and not yet handed over
		s.DrainTo(func(nd node.Node[int, int]) { delivered = append(delivered, nd.Key()) })
		length, rings := s.VerifStripes()
		fmt.Fprintf(out, "cfg recorders=%d per=%d maxlen=%d stripes=%d rings=%d maxlenseen=%d finallen=%d\n", recorders, per, maxLen, length, rings, maxLenSeen, s.Len())
		for p := 0; p < recorders; p++ {
			for _, id := range accepted[p] {
				fmt.Fprintf(out, "accepted %d\n", id)
			}
		}
		for _, id := range delivered {
			fmt.Fprintf(out, "delivered %d\n", id)
		}
		fmt.Fprintf(out, "end\n")
	}
}

// HOOK-ring: the striped buffer driven from one goroutine, with "another goroutine's" action (table expansion, another
// recording, a drain) placed exactly at a producer's publication point through a hooked node.  Same transcript and judge as
// CONC-ring: everything successfully recorded is delivered exactly once, nothing else is.
func hookRing(args []string, out *bufio.Writer) {
	fs := flag.NewFlagSet("hook-ring", flag.ExitOnError)
	seed := fs.Uint64("seed", 1, "")
	n := fs.Int("n", 10, "")
	from := fs.Int("from", 0, "")
	fs.Parse(args)
	nm := node.NewManager[int, int](node.Config{WithSize: true})
	for i := *from; i < *from+*n; i++ {
		r := &rng{s: scriptSeed(*seed, "hookring", i)}
		fmt.Fprintf(out, "script hookring-%d-%d\n", *seed, i)
		maxLen := pick(r, []int{2, 4, 8, 16})
		s := lossy.NewStriped(maxLen, nm)
		var accepted, delivered []int
		next := 1
		maxLenSeen := 0
		note := func() {
			if l := s.Len(); l > maxLenSeen {
				maxLenSeen = l
			}
		}
		drain := func() {
			s.DrainTo(func(nd node.Node[int, int]) { delivered = append(delivered, nd.Key()) })
		}
		plainAdd := func() {
			id := next
			next++
			if r.chance(0.7) {
				lossy.VerifSteerToken(uint32(r.intn(16)))
			}
			if s.Add(nm.Create(id, id, 0, 0, 1)) == lossy.Success {
				accepted = append(accepted, id)
			}
			note()
		}
		steps := 60 + r.intn(240)
		for j := 0; j < steps; j++ {
			switch x := r.intn(10); {
			case x < 4:
				plainAdd()
			case x < 8:
				id := next
				next++
				action := r.intn(4)
				h := &lossy.VerifHookedNode[int, int]{Node: nm.Create(id, id, 0, 0, 1)}
				h.Hook = func() {
					switch action {
					case 0:
						s.VerifGrow()
					case 1:
						plainAdd()
					case 2:
						drain()
					default:
						s.VerifGrow()
						plainAdd()
					}
				}
				lossy.VerifSteerToken(uint32(r.intn(16)))
				if s.Add(h) == lossy.Success {
					accepted = append(accepted, id)
				}
				note()
			case x < 9:
				drain()
			default:
				s.VerifGrow()
			}
		}
		drain()
		drain()
		length, rings := s.VerifStripes()
		fmt.Fprintf(out, "cfg recorders=1 per=%d maxlen=%d stripes=%d rings=%d maxlenseen=%d finallen=%d\n", steps, maxLen, length, rings, maxLenSeen, s.Len())
		for _, id := range accepted {
			fmt.Fprintf(out, "accepted %d\n", id)
		}
		for _, id := range delivered {
			fmt.Fprintf(out, "delivered %d\n", id)
		}
		fmt.Fprintf(out, "end\n")
	}
}
