package main

// UNIT-policy: white-box differential of policy.go against Impl.Policy: the three deques in order, the six counters
// and the evicted nodes after every call; hashes and random draws are reported.  Includes out-of-order task
// sequences (add of a retired node, update whose old node is unlinked, delete before add).

import (
	"bufio"
	"flag"
	"fmt"
	"sort"
	"strings"

	otter "github.com/maypok86/otter/v2"
)

func unitPolicy(args []string, out *bufio.Writer) {
	fs := flag.NewFlagSet("unit-policy", flag.ExitOnError)
	seed := fs.Uint64("seed", 1, "")
	n := fs.Int("n", 10, "")
	from := fs.Int("from", 0, "")
	ooo := fs.Bool("ooo", false, "include out-of-order task sequences")
	fs.Parse(args)
	for i := *from; i < *from+*n; i++ {
		r := &rng{s: scriptSeed(*seed, "policy", i)}
		fmt.Fprintf(out, "script policy-%d-%d\n", *seed, i)
		weighted := r.chance(0.5)
		v := otter.NewVerifPolicy(weighted)
		v.NextDraw = func() uint32 {
			d := uint32(r.next())
			if r.chance(0.3) {
				d &^= 127
			}
			return d
		}
		max := uint64(2 + r.intn(30))
		if weighted {
			max = uint64(5 + r.intn(60))
		}
		// one weighted script in six works near the limits of the number types: weights up to MaxUint32, maxima around 2^32
		huge := weighted && i%6 == 5
		if huge {
			max = pick(r, []uint64{1<<32 - 1, 1 << 32, 1<<33 + 5, 3 * (1<<32 - 1), 1 << 40})
		}
		nkeys := 3 + r.intn(40)
		fmt.Fprintf(out, "new weighted=%v\n", weighted)
		nextID := 1
		cur := map[int]int{} // key -> current (alive) node id
		var live []int
		sketchLen := v.SketchLen()
		noAudit := false
		emit := func(op string) {
			draws := make([]string, len(v.Draws))
			for j, d := range v.Draws {
				draws[j] = fmt.Sprint(d)
			}
			v.Draws = nil
			if v.SketchLen() != sketchLen {
				// the sketch was re-seeded inside this call: the model needs the new hashes to replay it
				sketchLen = v.SketchLen()
				for k := 0; k <= nkeys; k++ {
					fmt.Fprintf(out, "hash %d %d\n", k, v.RawHash(k))
				}
			}
			fmt.Fprintf(out, "%s => %s rands=%s\n", op, v.Dump(), strings.Join(draws, ","))
			defer func() {
				if noAudit {
					noAudit = false
					return
				}
				// the nodes the table currently maps (after removing what this call evicted): the policy must know exactly these
				var ids []int
				for _, id := range cur {
					ids = append(ids, id)
				}
				sort.Ints(ids)
				fmt.Fprintf(out, "live %s\n", joinInts(ids))
			}()
			// entries evicted by the policy leave the table
			for _, e := range v.Evicted {
				for k, id := range cur {
					if id == e {
						delete(cur, k)
					}
				}
			}
			v.Evicted = nil
		}
		weight := func() uint32 {
			if !weighted {
				return 1
			}
			if huge {
				return uint32(pick(r, []uint64{0, 1, 1 << 31, 1<<32 - 1, 1<<32 - 2, 1 << 30, (max - 1) & (1<<32 - 1)}))
			}
			return uint32(pick(r, []uint64{0, 1, 1, 2, 3, 5, max - 1, max, max + 1}))
		}
		v.SetMaximum(max)
		emit(fmt.Sprintf("setmax %d", max))
		nops := 60 + r.intn(300)
		_ = live
		for j := 0; j < nops; j++ {
			k := r.intn(nkeys)
			id, present := cur[k]
			switch {
			case r.chance(0.35):
				w := weight()
				nid := nextID
				nextID++
				v.NewNode(nid, k, w)
				if present {
					v.Retire(id)
					if *ooo && r.chance(0.15) {
						// update processed although the old node was never added / already gone
						v.Delete(id)
						noAudit = true // the table already maps the new node whose event comes next
						emit(fmt.Sprintf("delete %d", id))
					}
					v.Update(nid, id)
					cur[k] = nid
					emit(fmt.Sprintf("update %d %d %d %d", nid, id, k, w))
				} else {
					if *ooo && r.chance(0.1) {
						// add task of a node that was already replaced: out-of-order write
						v.Retire(nid)
						v.Add(nid)
						emit(fmt.Sprintf("addretired %d %d %d", nid, k, w))
						continue
					}
					v.Add(nid)
					cur[k] = nid
					emit(fmt.Sprintf("add %d %d %d", nid, k, w))
				}
			case r.chance(0.35) && present:
				v.Access(id)
				emit(fmt.Sprintf("access %d", id))
			case r.chance(0.12) && present:
				v.Retire(id)
				v.Delete(id)
				delete(cur, k)
				emit(fmt.Sprintf("delete %d", id))
			case r.chance(0.05):
				base := int(max % (1 << 40))
				if base == 0 {
					base = 1
				}
				m := uint64(r.intn(base * 2))
				if huge {
					m = pick(r, []uint64{0, 1<<32 - 1, 1 << 32, 1<<32 + 1, 1 << 33, 1 << 31, max})
				}
				v.SetMaximum(m)
				emit(fmt.Sprintf("setmax %d", m))
			case r.chance(0.5):
				v.EvictNodes()
				emit("evict")
				v.Climb()
				emit("climb")
			}
		}
		v.EvictNodes()
		emit("evict")
	}
}
