package main

// UNIT-keys: the cache as a map keyed by Go's `==`, for key types whose equality is not bit equality or whose hashing goes
// through a different path (floats with +0/-0, strings built in different ways, arrays and structs containing them,
// interface keys holding different dynamic types, complex numbers, pointers).  Each script takes one key type and a list of
// key values; their equivalence classes are computed with `==` (the language is the oracle of key equality) and every
// operation is reported with the class of its key, so that the Lean judge can replay the script on a plain finite map.
// Filler keys force the table through several growth steps (every table has its own hash seed) and InvalidateAll replaces it.
// Serves C01 (abstract map) and C15 (a key inserted and not removed is always found).

import (
	"bufio"
	"context"
	"flag"
	"fmt"
	"math"
	"sort"
	"strings"

	otter "github.com/maypok86/otter/v2"
)

type keyStruct struct {
	F float64
	S string
	I int8
}

type keyNested struct {
	A any
	B [2]float32
}

func runKeys[K comparable](out *bufio.Writer, r *rng, tname string, reps []K, fillers []K) {
	// classes by ==
	class := make([]int, len(reps))
	for i := range reps {
		class[i] = i
		for j := 0; j < i; j++ {
			if reps[j] == reps[i] {
				class[i] = class[j]
				break
			}
		}
	}
	fillerBase := len(reps)
	classOf := func(k K) int {
		for i := range reps {
			if reps[i] == k {
				return class[i]
			}
		}
		for i := range fillers {
			if fillers[i] == k {
				return fillerBase + i
			}
		}
		return -1
	}
	o := &otter.Options[K, int]{Logger: nopLogger{}, Executor: func(fn func()) { fn() }}
	switch r.intn(4) {
	case 1:
		o.MaximumSize = 1 << 20
	case 2:
		o.InitialCapacity = 1 + r.intn(2000)
	case 3:
		o.MaximumSize = 1 << 20
		o.InitialCapacity = 1 + r.intn(64)
	}
	c := otter.Must(o)
	fmt.Fprintf(out, "cfg type=%s reps=%d classes=%d fillers=%d max=%d cap=%d\n", tname, len(reps), countDistinct(class), len(fillers), o.MaximumSize, o.InitialCapacity)
	val := 1
	nextFiller := 0
	ops := 150 + r.intn(250)
	for j := 0; j < ops; j++ {
		i := r.intn(len(reps))
		k := reps[i]
		cl := class[i]
		switch r.intn(14) {
		case 0, 1, 2:
			val++
			c.Set(k, val)
			fmt.Fprintf(out, "set %d %d\n", cl, val)
		case 3, 4, 5:
			v, ok := c.GetIfPresent(k)
			fmt.Fprintf(out, "get %d => %d %v\n", cl, v, ok)
		case 6:
			val++
			v, ok := c.SetIfAbsent(k, val)
			fmt.Fprintf(out, "sia %d %d => %d %v\n", cl, val, v, ok)
		case 7:
			v, ok := c.Invalidate(k)
			fmt.Fprintf(out, "inv %d => %d %v\n", cl, v, ok)
		case 8:
			val++
			nv := val
			calls := 0
			v, ok := c.Compute(k, func(old int, found bool) (int, otter.ComputeOp) {
				calls++
				if found && old%3 == 0 {
					return 0, otter.InvalidateOp
				}
				return nv, otter.WriteOp
			})
			fmt.Fprintf(out, "cmp %d %d => %d %v calls=%d\n", cl, nv, v, ok, calls)
		case 9:
			e, ok := c.GetEntry(k)
			kc := -1
			if ok {
				kc = classOf(e.Key)
			}
			fmt.Fprintf(out, "entry %d => %d %v keyclass=%d\n", cl, e.Value, ok, kc)
		case 10:
			// a burst of filler keys: the table grows (new hash seed), the representatives must stay reachable
			// (the insertion that makes the table grow is a Set, a Compute, a ComputeIfAbsent or a loading Get, in turn)
			burst := 1 + r.intn(300)
			mode := r.intn(4)
			for b := 0; b < burst && nextFiller < len(fillers); b++ {
				val++
				fk, fc, nv := fillers[nextFiller], fillerBase+nextFiller, val
				switch mode {
				case 0:
					c.Set(fk, nv)
					fmt.Fprintf(out, "set %d %d\n", fc, nv)
				case 1:
					calls := 0
					v, ok := c.Compute(fk, func(old int, found bool) (int, otter.ComputeOp) {
						calls++
						return nv, otter.WriteOp
					})
					fmt.Fprintf(out, "cmpw %d %d => %d %v calls=%d\n", fc, nv, v, ok, calls)
				case 2:
					calls := 0
					v, ok := c.ComputeIfAbsent(fk, func() (int, bool) {
						calls++
						return nv, false
					})
					fmt.Fprintf(out, "cia %d %d => %d %v calls=%d\n", fc, nv, v, ok, calls)
				case 3:
					calls := 0
					v, err := c.Get(context.Background(), fk, otter.LoaderFunc[K, int](func(ctx context.Context, key K) (int, error) {
						calls++
						return nv, nil
					}))
					after, aok := c.GetIfPresent(fk)
					fmt.Fprintf(out, "load %d %d => %d %v calls=%d after=%d:%v\n", fc, nv, v, err == nil, calls, after, aok)
				}
				nextFiller++
			}
		case 11:
			c.CleanUp()
			var items []string
			seen := map[int]int{}
			for kk, vv := range c.All() {
				cc := classOf(kk)
				seen[cc]++
				items = append(items, fmt.Sprintf("%d:%d", cc, vv))
			}
			sort.Strings(items)
			dup := 0
			for _, n := range seen {
				if n > 1 {
					dup++
				}
			}
			fmt.Fprintf(out, "all size=%d dup=%d => %s\n", c.EstimatedSize(), dup, strings.Join(items, ","))
		case 12:
			if r.chance(0.15) {
				c.InvalidateAll()
				fmt.Fprintf(out, "clear\n")
			}
		case 13:
			// the same key through another representative of its class, back to back
			val++
			c.Set(k, val)
			fmt.Fprintf(out, "set %d %d\n", cl, val)
			for i2 := range reps {
				if class[i2] == cl && i2 != i {
					v, ok := c.GetIfPresent(reps[i2])
					fmt.Fprintf(out, "get %d => %d %v\n", cl, v, ok)
				}
			}
		}
	}
	c.StopAllGoroutines()
}

func countDistinct(xs []int) int {
	m := map[int]bool{}
	for _, x := range xs {
		m[x] = true
	}
	return len(m)
}

func unitKeys(args []string, out *bufio.Writer) {
	fs := flag.NewFlagSet("unit-keys", flag.ExitOnError)
	seed := fs.Uint64("seed", 1, "")
	n := fs.Int("n", 10, "")
	from := fs.Int("from", 0, "")
	fs.Parse(args)
	negZero := math.Copysign(0, -1)
	negZero32 := float32(math.Copysign(0, -1))
	dyn := func(parts ...string) string { // a string built at run time (not the interned literal)
		var b strings.Builder
		for _, p := range parts {
			b.WriteString(p)
		}
		return b.String()
	}
	long := strings.Repeat("otter", 40)
	p1, p2 := new(int), new(int)
	for i := *from; i < *from+*n; i++ {
		r := &rng{s: scriptSeed(*seed, "keys", i)}
		fmt.Fprintf(out, "script keys-%d-%d\n", *seed, i)
		nf := []int{0, 50, 400, 1500}[r.intn(4)]
		switch i % 10 {
		case 0:
			fill := make([]float64, nf)
			for j := range fill {
				fill[j] = float64(j) + 0.25
			}
			runKeys(out, r, "float64", []float64{0.0, negZero, 1.5, -1.5, math.Inf(1), math.Inf(-1), 5e-324, -5e-324, math.MaxFloat64, 1 << 53, float64(float32(0.1)), 0.1}, fill)
		case 1:
			fill := make([]float32, nf)
			for j := range fill {
				fill[j] = float32(j) + 0.25
			}
			runKeys(out, r, "float32", []float32{0, negZero32, 1.5, -1.5, float32(math.Inf(1)), 1e-45, -1e-45}, fill)
		case 2:
			fill := make([]string, nf)
			for j := range fill {
				fill[j] = fmt.Sprintf("filler-%d", j)
			}
			runKeys(out, r, "string", []string{"", dyn(), "a", dyn("a"), "ab", dyn("a", "b"), long, dyn(long[:100], long[100:]), "a\x00", dyn("a", "\x00"), "\x00a", "A"}, fill)
		case 3:
			fill := make([][2]float64, nf)
			for j := range fill {
				fill[j] = [2]float64{float64(j) + 0.5, 1}
			}
			runKeys(out, r, "[2]float64", [][2]float64{{0, 0}, {negZero, 0}, {0, negZero}, {negZero, negZero}, {1, 2}, {2, 1}, {1, negZero}, {1, 0}}, fill)
		case 4:
			fill := make([]keyStruct, nf)
			for j := range fill {
				fill[j] = keyStruct{float64(j) + 0.5, "f", 3}
			}
			runKeys(out, r, "struct", []keyStruct{{0, "x", 1}, {negZero, dyn("x"), 1}, {0, "y", 1}, {0, "x", 2}, {1, "", 0}, {1, dyn(), 0}, {}, {negZero, "", 0}}, fill)
		case 5:
			fill := make([]any, nf)
			for j := range fill {
				fill[j] = j + 100
			}
			runKeys(out, r, "any", []any{1, int64(1), int32(1), uint8(1), 1.0, float32(1), 0.0, negZero, float32(0), negZero32, "1", dyn("1"), true, [1]int{1}, struct{}{}, nil, keyStruct{0, "x", 1}, keyStruct{negZero, "x", 1}, p1, p2, complex(0, 0), complex(negZero, 0)}, fill)
		case 6:
			fill := make([]complex128, nf)
			for j := range fill {
				fill[j] = complex(float64(j)+0.5, 1)
			}
			runKeys(out, r, "complex128", []complex128{0, complex(negZero, 0), complex(0, negZero), complex(negZero, negZero), 1 + 1i, 1 - 1i, complex(1, negZero), 1}, fill)
		case 7:
			fill := make([]*int, nf)
			for j := range fill {
				fill[j] = new(int)
			}
			q := p1
			runKeys(out, r, "*int", []*int{p1, p2, q, nil, (*int)(nil)}, fill)
		case 8:
			fill := make([]keyNested, nf)
			for j := range fill {
				fill[j] = keyNested{j, [2]float32{1, 2}}
			}
			runKeys(out, r, "nested", []keyNested{{0.0, [2]float32{0, 0}}, {negZero, [2]float32{negZero32, 0}}, {0, [2]float32{0, 0}}, {"s", [2]float32{1, 0}}, {dyn("s"), [2]float32{1, negZero32}}, {nil, [2]float32{}}, {int8(0), [2]float32{}}}, fill)
		case 9:
			fill := make([]uint64, nf)
			for j := range fill {
				fill[j] = uint64(j)*2654435761 + 17
			}
			runKeys(out, r, "uint64", []uint64{0, 1, math.MaxUint64, 1 << 63, 1 << 32, 1<<32 - 1, 1 << 31}, fill)
		}
	}
}
