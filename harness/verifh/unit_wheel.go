package main

// UNIT-wheel: white-box differential of internal/expiration/variable.go against Impl.Wheel
// (exact bucket contents in link order after every call).

import (
	"bufio"
	"flag"
	"fmt"
	"math"
	"strings"

	"github.com/maypok86/otter/v2/internal/expiration"
	"github.com/maypok86/otter/v2/internal/generated/node"
)

func unitWheel(args []string, out *bufio.Writer) {
	fs := flag.NewFlagSet("unit-wheel", flag.ExitOnError)
	seed := fs.Uint64("seed", 1, "")
	n := fs.Int("n", 10, "")
	from := fs.Int("from", 0, "")
	fs.Parse(args)
	b, sp, sh := expiration.VerifConsts()
	for i := *from; i < *from+*n; i++ {
		r := &rng{s: scriptSeed(*seed, "wheel", i)}
		fmt.Fprintf(out, "script wheel-%d-%d\n", *seed, i)
		fmt.Fprintf(out, "consts buckets=%s spans=%s shift=%s\n", joinU(b), joinU(sp), joinU(sh))
		nm := node.NewManager[int, int](node.Config{WithExpiration: true})
		w := expiration.NewVariable(nm)
		ids := map[node.Node[int, int]]int{}
		nodes := map[int]node.Node[int, int]{}
		idOf := func(n node.Node[int, int]) int { return ids[n] }
		linked := map[int]bool{}
		nextID := 1
		now := pick(r, []int64{0, 1, 1000000000, 1800000000000000000, -5000000000000000, math.MaxInt64 - (1 << 55)})
		dump := func() string { return fmt.Sprintf("time=%d dump=%s", w.VerifTime(), w.VerifDump(idOf)) }
		deadline := func() int64 {
			// durations across all five levels and their boundaries, plus deadlines behind the clock
			units := []int64{1, 1 << 29, 1 << 30, (1 << 30) + 1, 1 << 35, 1 << 36, (1 << 36) - 1, 1 << 41, 1 << 42, 1 << 46, 1 << 47, 1 << 48, 1 << 49, (1 << 49) + 5, 1 << 52}
			u := pick(r, units)
			d := u*int64(1+r.intn(3)) + int64(r.intn(3)) - 1
			if r.chance(0.08) {
				d = -d // behind the clock (a write that sampled the clock before a later maintenance)
			}
			if now > math.MaxInt64-d-1 {
				return math.MaxInt64
			}
			return now + d
		}
		nops := 30 + r.intn(120)
		for j := 0; j < nops; j++ {
			switch {
			case r.chance(0.45):
				id := nextID
				nextID++
				d := deadline()
				nd := nm.Create(id, id, d, math.MaxInt64, 1)
				ids[nd] = id
				nodes[id] = nd
				w.Add(nd)
				linked[id] = true
				fmt.Fprintf(out, "add %d %d => %s\n", id, d, dump())
			case r.chance(0.15) && len(linked) > 0:
				id := anyKey(r, linked)
				w.Delete(nodes[id])
				delete(linked, id)
				fmt.Fprintf(out, "del %d => %s\n", id, dump())
			case r.chance(0.15) && len(linked) > 0:
				// deadline extension by a read: Delete + Add with the new deadline (cache.onAccess)
				id := anyKey(r, linked)
				d := deadline()
				nodes[id].SetExpiresAt(d)
				w.Delete(nodes[id])
				w.Add(nodes[id])
				fmt.Fprintf(out, "readd %d %d => %s\n", id, d, dump())
			default:
				adv := pick(r, []int64{1, 1 << 29, 1 << 30, (1 << 30) + 3, 1 << 33, 1 << 36, (1 << 36) + 1, 1 << 40, 1 << 42, 1 << 45, 1 << 47, 1 << 49, 1 << 50, 3 << 49}) * int64(1+r.intn(3))
				if now > math.MaxInt64-adv-(1<<56) {
					adv = 1
				}
				now += adv
				var expired []string
				w.DeleteExpired(now, func(nd node.Node[int, int], _ int64) {
					expired = append(expired, fmt.Sprint(ids[nd]))
					w.Delete(nd)
					delete(linked, ids[nd])
				})
				fmt.Fprintf(out, "sweep %d => expired=%s %s\n", now, strings.Join(expired, ","), dump())
			}
		}
	}
}

func joinU(a []uint64) string {
	var s []string
	for _, x := range a {
		s = append(s, fmt.Sprint(x))
	}
	return strings.Join(s, ",")
}

func anyKey(r *rng, m map[int]bool) int {
	ks := make([]int, 0, len(m))
	for k := range m {
		ks = append(ks, k)
	}
	// deterministic order
	for i := 1; i < len(ks); i++ {
		for j := i; j > 0 && ks[j-1] > ks[j]; j-- {
			ks[j-1], ks[j] = ks[j], ks[j-1]
		}
	}
	return ks[r.intn(len(ks))]
}
