-- root of the library: every module that `lake build OtterVerif` must check
import OtterVerif.Basic
import OtterVerif.Spec.Core
import OtterVerif.Spec.Check
import OtterVerif.Proofs.MapLemmas
import OtterVerif.Props.C01
import OtterVerif.Props.C03
import OtterVerif.Props.C06
import OtterVerif.Props.C07
import OtterVerif.Props.C10
import OtterVerif.Props.C11
import OtterVerif.Props.C12
import OtterVerif.Props.C19
import OtterVerif.Props.C20
import OtterVerif.Props.C18
import OtterVerif.Props.C13
import OtterVerif.Props.C14
import OtterVerif.Props.C16
