import Driver.Seq

def main (_args : List String) : IO UInt32 := do
  Driver.Seq.seqLoop (← IO.getStdin) [{}] "" 0 false {}
  return 0
