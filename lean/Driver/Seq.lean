/- SEQ transcript judge (imports only the Spec: stays buildable when generated modules change) -/
import OtterVerif.Spec.Check

open OtterVerif

namespace Driver.Seq

structure Tot where
  nScripts : Nat := 0
  nFailed : Nat := 0
  nOps : Nat := 0
  nEv : Nat := 0
  nDead : Nat := 0
  nLoads : Nat := 0
  maxCands : Nat := 1

def Tot.absorb (t : Tot) (cs : Spec.Check.CS) : Tot :=
  { t with nOps := t.nOps + cs.nOps, nEv := t.nEv + cs.nEvictions, nDead := t.nDead + cs.nDeadTouches, nLoads := t.nLoads + cs.nLoads }

/-- run one line on one candidate explanation; returns the surviving successor candidates or the error -/
def stepCand (l : Spec.Check.Line) (cs : Spec.Check.CS) : Except (String × Spec.Check.CS) (List Spec.Check.CS) :=
  let run (choice : Nat) := (Spec.Check.step l).run.run { cs with choice := choice, solCount := 1 }
  match run 0 with
  | (.error e, csE) => .error (e, csE)
  | (.ok (), cs0) =>
    let others := (List.range (cs0.solCount - 1)).filterMap (fun j =>
      match run (j + 1) with
      | (.ok (), csj) => some csj
      | _ => none)
    .ok (cs0 :: others)

partial def seqLoop (h : IO.FS.Stream) (cands : List Spec.Check.CS) (script : String) (lineNo : Nat) (skipping : Bool)
    (t : Tot) : IO Unit := do
  let line ← h.getLine
  let first := cands.head?.getD {}
  if line.isEmpty then
    let t := t.absorb first
    IO.println s!"summary scripts={t.nScripts} failed={t.nFailed} ops={t.nOps} evictions={t.nEv} deadtouch={t.nDead} loads={t.nLoads} maxcands={t.maxCands}"
    return
  let line := (line.dropEndWhile (fun c => c == '\n' || c == '\r')).toString
  if line.startsWith "script " then
    seqLoop h [{}] ((line.drop 7).toString) 0 false { t.absorb first with nScripts := t.nScripts + 1 }
  else if skipping then
    seqLoop h cands script (lineNo + 1) true t
  else
    match Spec.Check.parseLine line with
    | .error e =>
      IO.println s!"FAIL script={script} line={lineNo} :: parse error {e} :: {line}"
      seqLoop h cands script (lineNo + 1) true { t with nFailed := t.nFailed + 1 }
    | .ok l =>
      let mut next : List Spec.Check.CS := []
      let mut firstErr : Option (String × Spec.Check.CS) := none
      for cs in cands do
        match stepCand l cs with
        | .ok cs' =>
          for c in cs' do
            if next.length < 32 && !(next.any (fun (o : Spec.Check.CS) => Spec.Check.sameModStats o.s c.s && o.frames.length == c.frames.length && o.owed == c.owed && o.queue.length == c.queue.length && o.chanExpect == c.chanExpect)) then
              next := next ++ [c]
        | .error e => if firstErr.isNone then firstErr := some e
      if next.isEmpty then
        let (msg, csE) := firstErr.getD ("?", {})
        let dead := csE.nDeadTouches > first.nDeadTouches
        let cls : String :=
          if msg.startsWith "C04" then "C04" else if msg.startsWith "C05" then "C05"
          else if msg.startsWith "C06" then "C06" else if msg.startsWith "C08" then "C08"
          else if msg.startsWith "C10" then "C10" else if msg.startsWith "C11" then "C11"
          else if msg.startsWith "C20" then "C20" else if msg.startsWith "C19" then "C19" else if msg.startsWith "C13" then "C13"
          else if msg.startsWith "GetEntry" then "entry"
          else if (msg.splitOn "no explanation").length > 1 then "events"
          else "result"
        let opName := (l.kind :: l.toks.take 1).foldl (fun a b => if a == "" then b else a ++ "_" ++ b) ""
        IO.println s!"FAIL script={script} line={lineNo} class={cls} op={opName} dead={if dead then 1 else 0} nested={if csE.sawNestedWrite then 1 else 0} k1risk={if csE.k1risk then 1 else 0} :: {msg} :: {line}"
        if (← IO.getEnv "VERIF_DEBUG").isSome then
          for cs' in cands do
            IO.println s!"  STATE now={cs'.s.now} max={cs'.s.maximum} total={cs'.s.totalWeight} m={cs'.s.m.map (fun p => (p.1, p.2.val, p.2.weight, p.2.exp, p.2.ref))} inflight={cs'.s.inflight}"
        seqLoop h cands script (lineNo + 1) true { t with nFailed := t.nFailed + 1 }
      else
        -- soft failures (the script goes on): reported only if every explanation that is still alive carries one
        let opName := (l.kind :: l.toks.take 1).foldl (fun a b => if a == "" then b else a ++ "_" ++ b) ""
        let mut t := t
        if next.all (fun c => !c.soft.isEmpty) then
          for msg in (next.head?.getD {}).soft do
            let cls : String := if msg.startsWith "C13" then "C13" else "result"
            IO.println s!"FAIL script={script} line={lineNo} class={cls} op={opName} dead=0 nested=0 k1risk=0 :: {msg} :: {line}"
            t := { t with nFailed := t.nFailed + 1 }
        let next' := next.map (fun c => { c with soft := [] })
        seqLoop h next' script (lineNo + 1) false { t with maxCands := max t.maxCands next'.length }


end Driver.Seq
