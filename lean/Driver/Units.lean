/- dispatch for the UNIT engines: each reads a transcript of the real component and replays it on the model -/
import OtterVerif.Impl.Sketch
import OtterVerif.Impl.Wheel
import OtterVerif.Impl.Mpsc
import OtterVerif.Impl.Policy
import OtterVerif.Impl.Ring
import OtterVerif.Lin.Check

namespace Driver.Units
open OtterVerif

def splitWs (s : String) : List String := (s.splitOn " ").filter (· ≠ "")

def kvOf (toks : List String) (key : String) : Option String :=
  toks.findSome? (fun t => if t.startsWith (key ++ "=") then some ((t.drop (key.length + 1)).toString) else none)

def natOf (toks : List String) (key : String) : Nat := ((kvOf toks key).bind (·.toNat?)).getD 0

structure Tally where
  scripts : Nat := 0
  failed : Nat := 0
  lines : Nat := 0
  extra : List (String × Nat) := []

def Tally.bump (t : Tally) (k : String) (n : Nat := 1) : Tally :=
  match t.extra.find? (·.1 == k) with
  | some _ => { t with extra := t.extra.map (fun p => if p.1 == k then (p.1, p.2 + n) else p) }
  | none => { t with extra := t.extra ++ [(k, n)] }

def Tally.summary (t : Tally) : String :=
  s!"summary scripts={t.scripts} failed={t.failed} lines={t.lines} " ++ " ".intercalate (t.extra.map (fun p => s!"{p.1}={p.2}"))

/-! ### sketch -/

structure SkSt where
  s : Impl.Sketch.Sketch := {}
  hashes : List (Nat × BitVec 64) := []

def skHash (st : SkSt) (k : Nat) : BitVec 64 :=
  Gen.SketchMix.spread (((st.hashes.find? (·.1 == k)).map (·.2)).getD 0)

def skStep (st : SkSt) (line : String) (t : Tally) : Except String (SkSt × Tally) :=
  let ws := splitWs line
  match ws with
  | "eqkeys" :: rest =>
    let n := natOf rest "n"
    let f := natOf rest "f"
    if f < min n 15 then .error s!"C18: a {(kvOf rest "type").getD "?"} key recorded {n} times has estimate {f} when asked through an equal (==) key of another representation"
    else .ok (st, t.bump "equal_key_estimates")
  | ["hash", k, h] => .ok ({ st with hashes := (k.toNat!, BitVec.ofNat 64 h.toNat!) :: st.hashes.filter (·.1 != k.toNat!) }, t)
  | "ensure" :: n :: "=>" :: rest =>
    let (s', changed) := Impl.Sketch.ensureCapacity st.s (BitVec.ofNat 64 n.toNat!)
    let got := s!"len={s'.table.size} sample={s'.sampleSize.toNat} mask={s'.blockMask.toNat} size={s'.size.toNat} init={s'.initialized} digest={(Impl.Sketch.digest s').toNat}"
    let want := " ".intercalate rest
    if got != want then .error s!"ensureCapacity {n}: implementation {want}, model {got}"
    else .ok ({ st with s := s', hashes := if changed then [] else st.hashes }, t.bump (if changed then "resizes" else "ensure_noop"))
  | ["incr", k, "=>", sz, dg] =>
    let s' := Impl.Sketch.incrementH st.s (skHash st k.toNat!)
    let got := s!"size={s'.size.toNat} digest={(Impl.Sketch.digest s').toNat}"
    let want := s!"{sz} {dg}"
    let t := if s'.size.toNat < st.s.size.toNat then t.bump "resets" else t
    if got != want then .error s!"increment {k}: implementation {want}, model {got}"
    else .ok ({ st with s := s' }, t.bump "increments")
  | ["freq", k, "=>", f] =>
    let got := (Impl.Sketch.frequencyH st.s (skHash st k.toNat!)).toNat
    let t := if got == 15 then t.bump "saturated_reads" else t
    if toString got != f then .error s!"frequency {k}: implementation {f}, model {got}"
    else .ok (st, t.bump "frequencies")
  | ["admit", _c, _v, draw, "=>", res, cf, vf] =>
    let cfN := natOf [cf] "cf"
    let vfN := natOf [vf] "vf"
    let got := Impl.Sketch.admitDecision (BitVec.ofNat 64 cfN) (BitVec.ofNat 64 vfN) (BitVec.ofNat 32 draw.toNat!)
    let t := if got then t.bump "admitted" else t.bump "rejected"
    let t := if cfN ≥ 6 && cfN ≤ vfN && draw.toNat! % 128 == 0 then t.bump "jitter_cases" else t
    if toString got != res then .error s!"admit (candidate estimate {cfN}, victim estimate {vfN}, draw {draw}): implementation {res}, model {got}"
    else .ok (st, t)
  | ["mix", x, "=>", a, b] =>
    let xv := BitVec.ofNat 64 x.toNat!
    let ga := (Gen.SketchMix.spread xv).toNat
    let gb := (Gen.SketchMix.rehash xv).toNat
    if toString ga != a || toString gb != b then .error s!"mixers on {x}: implementation {a} {b}, translated {ga} {gb}"
    else .ok (st, t.bump "mixer_points")
  | _ => .error s!"unknown line"

/-! ### wheel -/

def parseIntS (s : String) : Int :=
  if s.startsWith "-" then -(((s.drop 1).toString.toNat?).getD 0 : Int) else ((s.toNat?).getD 0 : Int)

def whStep (w : Impl.Wheel.Wheel) (line : String) (t : Tally) : Except String (Impl.Wheel.Wheel × Tally) :=
  let ws := splitWs line
  let check (w' : Impl.Wheel.Wheel) (rest : List String) (what : String) (t : Tally) : Except String (Impl.Wheel.Wheel × Tally) :=
    let got := s!"time={w'.time} dump={Impl.Wheel.dump w'}"
    let want := " ".intercalate rest
    if got != want then .error s!"{what}: implementation {want}, model {got}" else .ok (w', t)
  match ws with
  | ["consts", b, sp, sh] =>
    let want := s!"buckets={",".intercalate (Impl.Wheel.nBuckets.map toString)} spans={",".intercalate (Impl.Wheel.spans.map toString)} shift={",".intercalate (Impl.Wheel.shifts.map toString)}"
    if s!"{b} {sp} {sh}" != want then .error s!"wheel constants: implementation {b} {sp} {sh}, model {want}" else .ok (w, t)
  | "add" :: n :: d :: "=>" :: rest =>
    let dn := Impl.Wheel.wheelTime (parseIntS d)
    let lvl := (Impl.Wheel.findBucket w.time dn).1
    let t := t.bump s!"add_level{lvl}"
    let t := if dn < w.time then t.bump "add_behind_clock" else t
    check (Impl.Wheel.add w n.toNat! dn) rest s!"Add {n} {d}" t
  | "del" :: n :: "=>" :: rest => check (Impl.Wheel.delete w n.toNat!) rest s!"Delete {n}" (t.bump "deletes")
  | "readd" :: n :: d :: "=>" :: rest =>
    let dn := Impl.Wheel.wheelTime (parseIntS d)
    check (Impl.Wheel.add (Impl.Wheel.delete w n.toNat!) n.toNat! dn) rest s!"re-Add {n} {d}" (t.bump "readds")
  | "sweep" :: now :: "=>" :: ex :: rest =>
    let (w', e) := Impl.Wheel.deleteExpired w (Impl.Wheel.wheelTime (parseIntS now))
    let gotEx := "expired=" ++ ",".intercalate (e.map toString)
    if gotEx != ex then .error s!"DeleteExpired {now}: implementation {ex}, model {gotEx}"
    else
      -- C13 oracle on the implementation's own bucket dump: after a sweep at T no linked node is overdue by a full tick,
      -- and nothing was expired early
      let T := Impl.Wheel.wheelTime (parseIntS now)
      let early := e.filter (fun n => w.deadline n ≥ T)
      let linkedIds := w'.entries.map (·.id)
      -- (a node added with its deadline already behind the wheel's clock is scheduled for the tick of the Add: C13 exempts
      --  entries written less than one tick before T, and the property is about deadlines MORE than a tick before T)
      let overdue := linkedIds.filter (fun n => (w'.effective n) >>> 30 < T >>> 30)
      if !early.isEmpty then .error s!"C13/C07: DeleteExpired {now} expired nodes {early} whose deadline has not passed"
      else if !overdue.isEmpty then
        .error s!"C13: after DeleteExpired {now} nodes {overdue} are still scheduled although their deadlines ({overdue.map (fun n => T - w'.deadline n)} ns ago) and their Add lie in an earlier tick than the sweep"
      else check w' rest s!"DeleteExpired {now}" ((t.bump "sweeps").bump "expired" e.length)
  | _ => .error "unknown line"

/-! ### mpsc -/

structure MqSt where
  q : Impl.Mpsc.Q := {}
  spec : List Nat := []          -- the bounded FIFO the queue must behave as
  cap : Nat := 0
  dead : Bool := false

def mqStep (st : MqSt) (line : String) (t : Tally) : Except String (MqSt × Tally) :=
  let ws := splitWs line
  match ws with
  | "new" :: ini :: mx :: "=>" :: rest =>
    match Impl.Mpsc.newQ (BitVec.ofNat 32 ini.toNat!) (BitVec.ofNat 32 mx.toNat!) with
    | .error _ => if rest == ["panic"] then .ok ({ st with dead := true }, t.bump "ctor_panics") else .error s!"NewMPSC {ini} {mx}: model rejects the capacities, implementation accepted them"
    | .ok q =>
      let cap := q.maxCap.toNat / 2
      let got := s!"cap={cap} {Impl.Mpsc.dump q}"
      if got != " ".intercalate rest then .error s!"NewMPSC {ini} {mx}: implementation {" ".intercalate rest}, model {got}"
      else .ok ({ q := q, spec := [], cap := cap, dead := false }, t)
  | "push" :: x :: "=>" :: ok :: sz :: rest =>
    if st.dead then .error "operation on a queue whose constructor panicked" else
    match Impl.Mpsc.tryPush st.q x.toNat! with
    | .error (.panic m) => .error s!"TryPush {x}: model reaches a panic ({m})"
    | .ok (q', acc) =>
      -- C16 oracle: an offer is refused only when the buffer holds its maximum number of events
      let shouldAccept := st.spec.length < st.cap
      if (ok == "true") != shouldAccept then
        .error s!"C16: TryPush {x} returned {ok} with {st.spec.length} of {st.cap} events buffered"
      else
      let got := s!"{acc} size={Impl.Mpsc.size q'} {Impl.Mpsc.dump q'}"
      let want := s!"{ok} {sz} {" ".intercalate rest}"
      let t := if Impl.Mpsc.bufLen q' q'.pBuf != Impl.Mpsc.bufLen st.q st.q.pBuf then t.bump "growths" else t
      let t := if !acc then t.bump "refused_full" else t
      if got != want then .error s!"TryPush {x}: implementation {want}, model {got}"
      else .ok ({ st with q := q', spec := if acc then st.spec ++ [x.toNat!] else st.spec }, t.bump "pushes")
  | "pop" :: "=>" :: v :: sz :: rest =>
    if st.dead then .error "operation on a queue whose constructor panicked" else
    match Impl.Mpsc.tryPop st.q with
    | .error (.panic m) => .error s!"TryPop: model reaches a panic ({m})"
    | .ok (q', r) =>
      -- C16 oracle: FIFO, exactly once
      let wantSpec := match st.spec with | [] => "nil" | x :: _ => toString x
      if v != wantSpec then .error s!"C16: TryPop returned {v}, the oldest accepted and unconsumed event is {wantSpec}" else
      let got := s!"{match r with | some x => toString x | none => "nil"} size={Impl.Mpsc.size q'} {Impl.Mpsc.dump q'}"
      let want := s!"{v} {sz} {" ".intercalate rest}"
      let t := if q'.cBuf != st.q.cBuf then t.bump "consumer_jumps" else t
      let t := if r.isNone then t.bump "pop_empty" else t
      if got != want then .error s!"TryPop: implementation {want}, model {got}"
      else .ok ({ st with q := q', spec := st.spec.drop 1 }, t.bump "pops")
  | _ => .error "unknown line"

/-! ### conc-drain: quiescence oracle (the statement of Conc.Drain.no_stranded, evaluated on the real cache) -/

def cdStep (_st : Unit) (line : String) (t : Tally) : Except String (Unit × Tally) :=
  let ws := splitWs line
  match ws with
  | "quiescent" :: rest =>
    let ds := natOf rest "ds"
    let wb := natOf rest "wb"
    let t := t.bump "quiescent_points"
    if ds != 0 || wb != 0 then
      .error s!"C14: all cache calls returned and the cache's goroutines finished, yet drainStatus={ds} (0 = idle) and {wb} write event(s) are still buffered with nobody scheduled"
    else if natOf rest "atomic" != natOf rest "delivered" then
      .error s!"C14/C06: quiescent with {natOf rest "atomic"} atomic deletion events but {natOf rest "delivered"} OnDeletion deliveries"
    else if natOf rest "size" > natOf rest "max" then
      .error s!"C14/C04: quiescent with {natOf rest "size"} entries above the maximum {natOf rest "max"}"
    else .ok ((), t)
  | "order" :: rest =>
    let t := t.bump "order_runs"
    if natOf rest "bad" != 0 then
      .error s!"C16: write events of ONE producer were processed out of submission order: of {natOf rest "writes"} successive writes of one key by one goroutine, the replaced value {natOf rest "first"} was reported after value {natOf rest "after"} ({natOf rest "bad"} inversions; the writer's hand-over after a full buffer overtook its older buffered events)"
    else if natOf rest "reported" + 1 != natOf rest "writes" then
      .error s!"C16/C06: {natOf rest "writes"} successive writes of one key replaced {natOf rest "writes" - 1} values but {natOf rest "reported"} were reported"
    else .ok ((), t)
  | _ => .error "unknown line"

/-! ### conc-mpsc: delivery-log judge (exactly once, per-producer order, no invention, no refusal below capacity) -/

structure CmSt where
  nextSeq : List (Nat × Nat) := []      -- producer ↦ next sequence number expected from it
  nofull : Bool := false

def cmStep (st : CmSt) (line : String) (t : Tally) : Except String (CmSt × Tally) :=
  let ws := splitWs line
  match ws with
  | "scenario" :: kind :: _ => .ok ({ nextSeq := [], nofull := kind == "nofull" || kind == "ticket" }, t.bump s!"scenario_{kind}")
  | ["refused", p, n, _] =>
    if st.nofull && n != "0" then
      .error s!"C16: producer {p} had {n} offer(s) refused although the queue never held its maximum capacity (all offers together fit it, or producers held one of capacity-1 tickets)"
    else .ok (st, t)
  | ["deliver", p, sq] =>
    let p := p.toNat!; let sq := sq.toNat!
    let want := ((st.nextSeq.find? (·.1 == p)).map (·.2)).getD 0
    if sq < want then .error s!"C16: event ({p},{sq}) delivered twice or out of its producer's order (next expected from producer {p} is {want})"
    else if sq > want then .error s!"C16: event ({p},{want}) lost or overtaken: ({p},{sq}) delivered first"
    else .ok ({ st with nextSeq := (p, sq + 1) :: st.nextSeq.filter (·.1 != p) }, t.bump "delivered")
  | ["sent", p, n] =>
    let got := ((st.nextSeq.find? (·.1 == p.toNat!)).map (·.2)).getD 0
    if got != n.toNat! then .error s!"C16: producer {p} had {n} events accepted but {got} were delivered" else .ok (st, t)
  | "hang" :: rest => .error s!"C16: the consumer never returned from TryPop (after {natOf rest "popped"} elements of a queue that producers keep full): an accepted element was lost and its slot stays empty"
  | ["end"] => .ok (st, t)
  | _ => .error "unknown line"

/-! ### policy -/

def plStep (p : Impl.Policy.Policy) (line : String) (t : Tally) : Except String (Impl.Policy.Policy × Tally) :=
  let ws := splitWs line
  let (toks, res) := (ws.takeWhile (· ≠ "=>"), (ws.dropWhile (· ≠ "=>")).drop 1)
  match toks with
  | ["hash", k, h] => .ok ({ p with nextHashes := (k.toNat!, BitVec.ofNat 64 h.toNat!) :: p.nextHashes.filter (·.1 != k.toNat!) }, t)
  | ["new", wtok] => .ok ({ isWeighted := wtok == "weighted=true" }, t)
  | "live" :: rest =>
    -- C04/C05 audit of the policy bookkeeping (the state is the implementation's: the model reproduced its dump)
    let live := ((rest.headD "").splitOn ",").filterMap (·.toNat?)
    let linked := p.window ++ p.probation ++ p.prot
    let sumW (l : List Nat) := (l.map (fun id => (p.node id).weight)).foldl (· + ·) 0
    let dup := linked.eraseDups.length != linked.length
    let badQt := (p.window.any (fun id => (p.node id).qt != 0)) || (p.probation.any (fun id => (p.node id).qt != 1)) || (p.prot.any (fun id => (p.node id).qt != 2))
    let deadLinked := linked.filter (fun id => (p.node id).st == .dead)
    let missing := live.filter (fun id => !linked.contains id)
    let extra := linked.filter (fun id => !live.contains id)
    let t := t.bump "audits"
    if dup then .error s!"C05: a node is linked twice in the policy deques: {linked}"
    else if badQt then .error "C05: a node's queue type disagrees with the deque that links it"
    else if !deadLinked.isEmpty then .error s!"C05: removed (dead) nodes {deadLinked} are still tracked by the eviction policy"
    else if !missing.isEmpty then .error s!"C05: entries present in the table are unknown to the eviction policy (in no deque): nodes {missing}"
    else if !extra.isEmpty then .error s!"C05: nodes {extra} are tracked by the eviction policy but no longer mapped by the table"
    else if p.weightedSize.toNat != sumW linked then .error s!"C05: weightedSize = {p.weightedSize.toNat} but the linked nodes weigh {sumW linked}"
    else if p.windowWeightedSize.toNat != sumW p.window then .error s!"C05: windowWeightedSize = {p.windowWeightedSize.toNat} but the window weighs {sumW p.window}"
    else if p.mainProtectedWeightedSize.toNat != sumW p.prot then .error s!"C05: mainProtectedWeightedSize = {p.mainProtectedWeightedSize.toNat} but the protected queue weighs {sumW p.prot}"
    else if p.lastWasEvict && p.weightedSize.toNat > p.maximum.toNat && linked.any (fun id => (p.node id).weight != 0) then
      .error s!"C04: after evictNodes the weighted size {p.weightedSize.toNat} still exceeds the maximum {p.maximum.toNat} although evictable entries remain"
    else .ok (p, t)
  | _ =>
    -- random draws consumed by this call are reported at the end of the line
    let randsTok := ((res.getLast?.getD "").drop 6).toString
    let rands := (randsTok.splitOn ",").filterMap (·.toNat?)
    let p0 := { p with rands := rands, evicted := [] }
    let mk (id key w : Nat) (st : Impl.Policy.NState) (p : Impl.Policy.Policy) := Impl.Policy.mkNode p id key w st
    let retire (id : Nat) (p : Impl.Policy.Policy) := Impl.Policy.retire p id
    let r : Except String (Impl.Policy.Policy × String) := match toks with
      | ["setmax", m] => .ok (Impl.Policy.setMaximumSize p0 (BitVec.ofNat 64 m.toNat!), "setmax")
      | ["add", id, k, w] => .ok (Impl.Policy.add (mk id.toNat! k.toNat! w.toNat! .alive p0) id.toNat!, "add")
      | ["addretired", id, k, w] => .ok (Impl.Policy.add (mk id.toNat! k.toNat! w.toNat! .retired p0) id.toNat!, "add_out_of_order")
      | ["update", id, old, k, w] =>
          let unlinked := (Impl.Policy.linkedIn p0 old.toNat!).isNone
          .ok (Impl.Policy.update (mk id.toNat! k.toNat! w.toNat! .alive (retire old.toNat! p0)) id.toNat! old.toNat!,
               if unlinked then "update_old_unlinked" else "update")
      | ["delete", id] => .ok (Impl.Policy.delete (retire id.toNat! p0) id.toNat!, "delete")
      | ["access", id] => .ok (Impl.Policy.access p0 id.toNat!, "access")
      | ["evict"] =>
          -- the model's loop bound must never cut the eviction loop short (hypothesis of Props.C04.c04_bound_after_evictNodes)
          if Impl.Policy.evictNodesRanOut p0 then .error "evictNodes: the model's loop bound was reached (the code's loop is unbounded)"
          else .ok (Impl.Policy.evictNodes p0, "evictNodes")
      | ["climb"] => .ok (Impl.Policy.climb p0, "climb")
      | _ => .error "unknown line"
    -- the hypothesis of Proofs.PolicyLink.Reach, checked on the real trace: a node is introduced at most once
    let intro : Option Nat := match toks with
      | ["add", id, _, _] => some id.toNat!
      | ["addretired", id, _, _] => some id.toNat!
      | ["update", id, _, _, _] => some id.toNat!
      | _ => none
    let twice := match intro with | some id => p.introduced.contains id | none => false
    match r with
    | .error e => .error e
    | .ok (p', what) =>
      if twice then .error s!"{what} {toks}: the trace introduces node {intro.getD 0} twice (outside the hypothesis of the C05 theorems)" else
      let p' := match intro with | some id => { p' with introduced := id :: p'.introduced } | none => p'
      let got := Impl.Policy.dump p' ++ " rands=" ++ randsTok
      let want := " ".intercalate res
      let t := (t.bump what).bump "evictions" p'.evicted.length
      let t := if rands.length > 0 then t.bump "jitter_draws" rands.length else t
      if !p'.rands.isEmpty then .error s!"{what}: the implementation drew {rands.length} random numbers, the model consumed {rands.length - p'.rands.length}"
      else if got != want then .error s!"{what} {toks}: implementation {want}, model {got}"
      else .ok ({ p' with reseeded := false, lastWasEvict := what == "evictNodes" }, t)

/-! ### conc-policy: quiescent audit of table vs eviction policy (C04/C05) -/

def cpStep (_st : Unit) (line : String) (t : Tally) : Except String (Unit × Tally) :=
  let ws := splitWs line
  match ws with
  | "audit" :: rest =>
    let g := natOf rest
    let t := (t.bump "audits").bump "entries" (g "table")
    if g "unlinked" != 0 then .error s!"C05: {g "unlinked"} of {g "table"} entries present in the table are unknown to the eviction policy (linked in no deque)"
    else if g "deadlinked" != 0 then .error s!"C05: {g "deadlinked"} removed entries are still tracked by the eviction policy"
    else if g "dup" != 0 then .error s!"C05: {g "dup"} nodes are linked more than once"
    else if g "notalive" != 0 then .error s!"C05: {g "notalive"} of {g "table"} nodes installed in the table are retired or dead (a removed entry is still present)"
    else if g "linked" != g "table" then .error s!"C05: the eviction policy tracks {g "linked"} nodes, the table holds {g "table"}"
    else if g "ws" != g "sumtable" then .error s!"C05: weightedSize = {g "ws"} but the entries present weigh {g "sumtable"}"
    else if g "coldest" != g "all" then .error s!"C05: Coldest enumerates {g "coldest"} entries, All {g "all"}"
    else if g "sumtable" > g "max" then .error s!"C04: at quiescence after CleanUp the entries weigh {g "sumtable"}, maximum {g "max"}"
    else if g "rb" != 0 then .error s!"C17: {g "rb"} successfully recorded reads are still in the read buffer although the cache is quiescent and maintenance has run"
    else .ok ((), t)
  | _ => .error "unknown line"

/-! ### conc-events: every written value is reported exactly once by each deletion handler (C06, C07) -/

structure CeSt where
  written : List Nat := []
  atomicE : List (Nat × String) := []      -- value, cause
  delE : List (Nat × String) := []

def ceStep (st : CeSt) (line : String) (t : Tally) : Except String (CeSt × Tally) :=
  let ws := splitWs line
  match ws with
  | "cfg" :: rest => .ok (st, (t.bump ("kind_" ++ (kvOf rest "kind").getD "?")).bump ("sweeper_" ++ (kvOf rest "sweeper").getD "?"))
  | ["written", v] => .ok ({ st with written := v.toNat! :: st.written }, t.bump "written")
  | ["atomic", _k, v, c] => .ok ({ st with atomicE := (v.toNat!, c) :: st.atomicE }, t.bump "atomic_events")
  | ["deletion", _k, v, c] => .ok ({ st with delE := (v.toNat!, c) :: st.delE }, t.bump "deletion_events")
  | "end" :: rest =>
    let t := t.bump "runs"
    let srt (l : List (Nat × String)) := l.mergeSort (fun a b => a.1 ≤ b.1)
    let a := srt st.atomicE
    let d := srt st.delE
    let w := st.written.mergeSort (· ≤ ·)
    let rec dupOf : List (Nat × String) → Option Nat
      | x :: y :: rest => if x.1 == y.1 then some x.1 else dupOf (y :: rest)
      | _ => none
    if natOf rest "size" != 0 then .error s!"C06: {natOf rest "size"} entries are present after InvalidateAll and CleanUp"
    else match dupOf a with
    | some v => .error s!"C06: value {v} was reported more than once by OnAtomicDeletion: {a.filter (·.1 == v)}"
    | none =>
      match dupOf d with
      | some v => .error s!"C06: value {v} was reported more than once by OnDeletion: {d.filter (·.1 == v)}"
      | none =>
        match w.find? (fun v => !(a.any (·.1 == v))) with
        | some v => .error s!"C06: written value {v} left the cache without an OnAtomicDeletion event"
        | none =>
          match w.find? (fun v => !(d.any (·.1 == v))) with
          | some v => .error s!"C06: written value {v} left the cache without an OnDeletion event"
          | none =>
            match a.find? (fun x => !(w.contains x.1)) with
            | some x => .error s!"C06/C07: OnAtomicDeletion reported value {x.1} ({x.2}) that was never written"
            | none =>
              match d.find? (fun x => !(w.contains x.1)) with
              | some x => .error s!"C06/C07: OnDeletion reported value {x.1} ({x.2}) that was never written"
              | none =>
                -- same cause in both handlers (the lists are sorted by value and duplicate free)
                match (a.zip d).find? (fun (x, y) => x.1 == y.1 && x.2 != y.2) with
                | some (x, y) => .error s!"C06: value {x.1} was reported with cause {x.2} by OnAtomicDeletion and {y.2} by OnDeletion"
                | none => .ok ({}, t)
  | _ => .error "unknown line"

/-! ### unit-keys: the cache as a map keyed by `==` (classes of equal keys), replayed on a plain finite map (C01, C15) -/

def ukFind (m : List (Nat × Nat)) (c : Nat) : Option Nat := (m.find? (·.1 == c)).map (·.2)
def ukPut (m : List (Nat × Nat)) (c v : Nat) : List (Nat × Nat) := (c, v) :: m.filter (·.1 != c)
def ukDel (m : List (Nat × Nat)) (c : Nat) : List (Nat × Nat) := m.filter (·.1 != c)

def ukStep (m : List (Nat × Nat)) (line : String) (t : Tally) : Except String (List (Nat × Nat) × Tally) :=
  let ws := splitWs line
  let showR (o : Option Nat) : String := match o with | some v => s!"{v} true" | none => "0 false"
  match ws with
  | "cfg" :: rest => .ok (m, t.bump ("type_" ++ (kvOf rest "type").getD "?"))
  | ["set", c, v] => .ok (ukPut m c.toNat! v.toNat!, t.bump "set")
  | ["get", c, "=>", v, ok] =>
    let want := showR (ukFind m c.toNat!)
    if s!"{v} {ok}" != want then .error s!"C01/C15: GetIfPresent of a key equal (==) to class {c} returned {v} {ok}, the map holds {want}"
    else .ok (m, t.bump "get")
  | ["entry", c, "=>", v, ok, kc] =>
    let want := showR (ukFind m c.toNat!)
    if s!"{v} {ok}" != want then .error s!"C01/C15: GetEntry of a key equal (==) to class {c} returned {v} {ok}, the map holds {want}"
    else if ok == "true" && kc != s!"keyclass={c}" then .error s!"C01/C15: GetEntry for class {c} returned an entry whose key is of {kc}"
    else .ok (m, t.bump "entry")
  | ["sia", c, v, "=>", rv, ok] =>
    match ukFind m c.toNat! with
    | some old =>
      if s!"{rv} {ok}" != s!"{old} false" then .error s!"C01/C15: SetIfAbsent on present class {c} returned {rv} {ok}, the map holds {old}"
      else .ok (m, t.bump "sia_present")
    | none =>
      if s!"{rv} {ok}" != s!"{v} true" then .error s!"C01/C15: SetIfAbsent on absent class {c} returned {rv} {ok}, expected {v} true"
      else .ok (ukPut m c.toNat! v.toNat!, t.bump "sia_absent")
  | ["inv", c, "=>", v, ok] =>
    let want := showR (ukFind m c.toNat!)
    if s!"{v} {ok}" != want then .error s!"C01/C15: Invalidate of a key equal (==) to class {c} returned {v} {ok}, the map holds {want}"
    else .ok (ukDel m c.toNat!, t.bump "inv")
  | ["cmp", c, nv, "=>", v, ok, calls] =>
    if calls != "calls=1" then .error s!"C02/C15: the remapping function of one Compute call ran {calls}"
    else match ukFind m c.toNat! with
      | some old =>
        if old % 3 == 0 then
          if s!"{v} {ok}" != "0 false" then .error s!"C01/C15: Compute (invalidate) on class {c} returned {v} {ok}" else .ok (ukDel m c.toNat!, t.bump "cmp_inv")
        else if s!"{v} {ok}" != s!"{nv} true" then .error s!"C01/C15: Compute (write) on class {c} returned {v} {ok}, expected {nv} true"
        else .ok (ukPut m c.toNat! nv.toNat!, t.bump "cmp_write")
      | none =>
        if s!"{v} {ok}" != s!"{nv} true" then .error s!"C01/C15: Compute (create) on class {c} returned {v} {ok}, expected {nv} true"
        else .ok (ukPut m c.toNat! nv.toNat!, t.bump "cmp_create")
  | ["cmpw", c, nv, "=>", v, ok, calls] =>
    if calls != "calls=1" then .error s!"C02/C15: the remapping function of one Compute call ran {calls} (insertion of class {c})"
    else if s!"{v} {ok}" != s!"{nv} true" then .error s!"C01/C15: Compute (create) on class {c} returned {v} {ok}, expected {nv} true"
    else .ok (ukPut m c.toNat! nv.toNat!, t.bump "cmp_create")
  | ["cia", c, nv, "=>", v, ok, calls] =>
    match ukFind m c.toNat! with
    | some old =>
      if calls != "calls=0" || s!"{v} {ok}" != s!"{old} true" then .error s!"C01/C15: ComputeIfAbsent on present class {c} returned {v} {ok} {calls}"
      else .ok (m, t.bump "cia_present")
    | none =>
      if calls != "calls=1" then .error s!"C02/C15: the mapping function of one ComputeIfAbsent call ran {calls} (insertion of class {c})"
      else if s!"{v} {ok}" != s!"{nv} true" then .error s!"C01/C15: ComputeIfAbsent on absent class {c} returned {v} {ok}, expected {nv} true"
      else .ok (ukPut m c.toNat! nv.toNat!, t.bump "cia_absent")
  | ["load", c, nv, "=>", v, ok, calls, after] =>
    match ukFind m c.toNat! with
    | some old =>
      if calls != "calls=0" || s!"{v} {ok}" != s!"{old} true" then .error s!"C01/C10: Get on present class {c} returned {v} {ok} {calls}"
      else .ok (m, t.bump "load_present")
    | none =>
      if calls != "calls=1" then .error s!"C10/C08: the loader of one Get call ran {calls} (class {c})"
      else if s!"{v} {ok}" != s!"{nv} true" then .error s!"C10: Get on absent class {c} returned {v} {ok}, the loader produced {nv}"
      else if after != s!"after={nv}:true" then .error s!"C10/C01: Get returned the loaded value {nv} for class {c} but it is not cached ({after})"
      else .ok (ukPut m c.toNat! nv.toNat!, t.bump "load_absent")
  | "all" :: rest =>
    let items := match rest.reverse with
      | last :: "=>" :: _ => ((last.splitOn ",").filter (· != "")).filterMap (fun (it : String) => match it.splitOn ":" with
          | [a, b] => (match a.toNat?, b.toNat? with | some x, some y => some (x, y) | _, _ => none)
          | _ => none)
      | _ => []
    let t := t.bump "iterations"
    if natOf rest "dup" != 0 then .error s!"C15: iteration yields {natOf rest "dup"} key(s) (classes of ==) more than once"
    else match items.find? (fun (c, v) => ukFind m c != some v) with
      | some (c, v) => .error s!"C01/C15: iteration yields class {c} with value {v}, the map holds {showR (ukFind m c)}"
      | none =>
        if items.length != m.length then .error s!"C01/C15: iteration yields {items.length} entries, the map holds {m.length}"
        else if natOf rest "size" != m.length then .error s!"C15: EstimatedSize = {natOf rest "size"}, the map holds {m.length} keys"
        else .ok (m, t)
  | ["clear"] => .ok ([], t.bump "clear")
  | _ => .error "unknown line"

/-! ### conc-window: one goroutine's action placed inside another's critical window (C09, C08) -/

def cwStep (_st : Unit) (line : String) (t : Tally) : Except String (Unit × Tally) :=
  let ws := splitWs line
  match ws with
  | "cfg" :: _ => .ok ((), t)
  | "missgap" :: rest =>
    let g := natOf rest
    let kv (k : String) := (kvOf rest k).getD ""
    if kv "finished" != "true" then .error s!"C08: a Get whose key was created by another goroutine between its lookup and the registration of its load never returned"
    else if kv "entered" != "true" then .ok ((), t.bump "missgap_inconclusive")
    else if kv "present" != "true" || g "final" != g "want" then
      .error s!"C09: key {g "key"} was written ({g "want"}) while a load for it was in flight (the loader was running), yet afterwards the cache holds {g "final"} present={kv "present"} — the loaded value {g "loaded"} replaced the write (write kind {g "how"})"
    else .ok ((), t.bump "missgap_rounds")
  | "lockedwrite" :: rest =>
    let g := natOf rest
    let kv (k : String) := (kvOf rest k).getD ""
    if kv "finished" != "true" then .error s!"C08: a load whose completion raced a Compute on the same key never returned"
    else if kv "entered" != "true" || kv "holding" != "true" then .ok ((), t.bump "lockedwrite_inconclusive")
    else if kv "present" != "true" || g "final" != g "want" then
      .error s!"C09: key {g "key"}: a Compute that was inside its remapping function when the loader returned wrote {g "want"}, yet afterwards the cache holds {g "final"} present={kv "present"} — the loaded value {g "loaded"} was installed over the write"
    else .ok ((), t.bump "lockedwrite_rounds")
  | "siaread" :: rest =>
    let g := natOf rest
    let kv (k : String) := (kvOf rest k).getD ""
    if kv "finished" != "true" then .error s!"C02: a Set racing a SetIfAbsent on the same key never returned"
    else if kv "inserted" != "false" || g "got" != 1 then .error s!"C01/C02: SetIfAbsent on the present key {g "key"} returned {g "got"} inserted={kv "inserted"}"
    else if kv "present" != "true" || g "value" != 2 then .error s!"C02: after SetIfAbsent (a read) and a Set of key {g "key"} the cache holds {g "value"} present={kv "present"}, expected 2"
    else if kv "expoffset" != kv "want" then
      .error s!"C12: key {g "key"} was read (SetIfAbsent on a present key: ExpireAfterRead = 50 s) and then updated by a Set that keeps the deadline; its expiration time lies {kv "expoffset"} ns after the read, expected {kv "want"} — the deadline computed for the read was stored after the bucket lock had been released and landed on the replaced node"
    else .ok ((), t.bump "siaread_rounds")
  | "refreshfail" :: rest =>
    let g := natOf rest
    let kv (k : String) := (kvOf rest k).getD ""
    if kv "delivered" != "true" then .error s!"C11: an explicit Refresh whose reload failed delivered no result"
    else if kv "present" != "true" then .error s!"C11: a failed reload removed key {g "key"}"
    else if g "refreshmin" < 50 then
      .error s!"C12/C11: SetRefreshableAfter(1h) on key {g "key"} was made while a failed reload's calculator answered 'keep the refresh time'; afterwards the entry is refreshable in {g "refreshmin"} min — the override was overwritten with the value read before it"
    else .ok ((), t.bump "refreshfail_rounds")
  | "hotget" :: rest =>
    let g := natOf rest
    let kv (k : String) := (kvOf rest k).getD ""
    if g "loads" != 0 then .error s!"C11/C02: key {g "key"} was present and fresh throughout (it is only ever overwritten), yet loader-backed Gets invoked the loader {g "loads"} times (a read of a fresh entry triggers nothing; a present key is never loaded)"
    else if g "bad" != 0 then .error s!"C02: {g "bad"} loader-backed Gets of key {g "key"} returned a value that was never written (or an error)"
    else if kv "present" != "true" || g "final" != g "want" then .error s!"C09/C02: the last completed Set of key {g "key"} wrote {g "want"}, the cache holds {g "final"} present={kv "present"} (a load or reload replaced a newer write)"
    else .ok ((), t.bump "hotget_rounds")
  | "failretry" :: rest =>
    let g := natOf rest
    let kv (k : String) := (kvOf rest k).getD ""
    if kv "finished" != "true" then .error s!"C08: a caller of a failing load (or its retry) never returned"
    else if kv "entered" != "true" || kv "holding" != "true" || kv "joinederr" != "true" then .ok ((), t.bump "failretry_inconclusive")
    else if kv "retryerr" == "true" || g "retry" != g "want" || g "freshcalls" == 0 then
      .error s!"C08: a caller that had joined a failed load retried key {g "key"} at once and got {g "retry"} (error={kv "retryerr"}, loader invoked {g "freshcalls"} times): the failed call was still registered, the retry did not load afresh"
    else .ok ((), t.bump "failretry_rounds")
  | _ => .error "unknown line"

/-! ### conc-refresh: a reload in flight behind concurrent readers, default executor (C11, C08) -/

def crfStep (_st : Unit) (line : String) (t : Tally) : Except String (Unit × Tally) :=
  let ws := splitWs line
  match ws with
  | "cfg" :: _ => .ok ((), t)
  | "rround" :: rest =>
    let g := natOf rest
    let kv (k : String) := (kvOf rest k).getD ""
    let oc := kv "outcome"
    let t := (t.bump "rounds").bump ("outcome_" ++ oc)
    let t := if kv "explicit" == "true" then t.bump "explicit_refreshes" else t.bump "stale_read_refreshes"
    let superseded := kv "superseded" != "-1" && kv "superseded" != ""
    -- the FIRST Reload of a round (the one the readers wait behind) has the round's outcome and value `new`; a reload task
    -- queued by an earlier stale read may run after it has finished (or after a write superseded it): such a later Reload
    -- returns new+100j (j ≥ 1), so that the judge can tell whose result the cache holds
    let later (tok : String) : Bool := g "reloads" ≥ 2 && (List.range 60).any (fun j => j ≥ 1 && tok == toString (g "new" + 100 * j))
    if kv "started" != "true" then .error s!"C08/C11: the refresh time of key {g "key"} had passed but no reload was started within 3 s (nothing was handed to the executor, or a task that waits for work queued behind it blocks a bounded executor)"
    else if kv "settled" != "true" then .error s!"C08/C11: the reload of key {g "key"} returned but its call is still registered as in flight"
    else if g "readsother" != 0 then
      .error s!"C11: {g "readsother"} read(s) made before the reload finished did not return the cached value {g "old"} (one returned {kv "sample"}; -1 = absent)"
    else if g "loads" != 0 && oc != "nf" then .error s!"C11: Load was invoked {g "loads"} times for a key that was present (a refresh must use Reload)"
    else if g "reloads" == 0 then .error s!"C11: no Reload was invoked for the refresh of key {g "key"}"
    else if g "overlap" > 1 && !superseded then .error s!"C08/C11: {g "overlap"} loader invocations for key {g "key"} were in progress at once although the key was not written in between (readers arriving while a reload is in flight must not start another)"
    else if g "reloadsaw" != g "old" then .error s!"C11: Reload was given old value {g "reloadsaw"}, the cached value was {g "old"}"
    else
      let after := kv "after"
      let okAfter : Bool :=
        if superseded then after == kv "superseded" || later after
        else if oc == "ok" then after == toString (g "new") || later after
        else if oc == "err" then after == toString (g "old") || later after
        else after == "absent" || later after || (g "loads" != 0 && after == toString (g "new" + 2))
      if !okAfter then
        if superseded then .error s!"C09: key {g "key"} was written ({kv "superseded"}) while its reload was in flight (outcome {oc}, value {g "new"}), afterwards the cache holds {after}"
        else .error s!"C11: after a reload with outcome {oc} (value {g "new"}, cached before: {g "old"}) the cache holds {after} for key {g "key"}"
      else if oc == "err" && !superseded && after == toString (g "old") && kv "expiry" == "true" && kv "expsame" != "true" then
        .error s!"C11: a failed reload changed the expiration time of key {g "key"}"
      else if kv "explicit" == "true" then
        let ch := kv "chan"
        let okCh : Bool :=
          (if oc == "ok" then ch == s!"nil:{g "new"}" else ch == oc)
          || (List.range 60).any (fun j => j ≥ 1 && ch == s!"nil:{g "new" + 100 * j}")
        if g "results" != 1 then .error s!"C11: the channel of an explicit Refresh delivered {g "results"} results"
        else if !okCh then .error s!"C11: the channel of an explicit Refresh delivered {ch}, the reload's outcome was {oc} (value {g "new"})"
        else .ok ((), if superseded then t.bump "superseded_reloads" else t)
      else .ok ((), if superseded then t.bump "superseded_reloads" else t)
  | _ => .error "unknown line"

/-! ### conc-resize: a Compute in progress while the table is resized (C15, C02) -/

def czStep (_st : Unit) (line : String) (t : Tally) : Except String (Unit × Tally) :=
  let ws := splitWs line
  match ws with
  | "compute" :: rest =>
    let g := natOf rest
    let t := t.bump "computes"
    if g "calls" != 1 then .error s!"C15: the remapping function of one Compute call ran {g "calls"} times (key {g "key"})"
    else if (kvOf rest "retok").getD "" != "true" || g "ret" != g "want" then
      .error s!"C15: Compute({g "key"}) returned {g "ret"} {(kvOf rest "retok").getD ""}, its function produced {g "want"}"
    else if (kvOf rest "getok").getD "" != "true" || g "get" != g "want" then
      .error s!"C15/C02: the value written by a Compute that was in progress during a resize is lost: key {g "key"} reads {g "get"} {(kvOf rest "getok").getD ""}, written {g "want"}"
    else .ok ((), t)
  | "table" :: rest =>
    let g := natOf rest
    let t := (t.bump "tables").bump "entries" (g "want")
    let t := t.bump (if (kvOf rest "grow").getD "" == "true" then "grow_rounds" else "shrink_rounds")
    if g "wrong" != 0 then .error s!"C15: iteration yields {g "wrong"} entries that were never written (or stale values) after a resize"
    else if g "missing" != 0 then .error s!"C15: {g "missing"} written entries cannot be read back after a resize"
    else if g "all" != g "want" then .error s!"C15: iteration yields {g "all"} entries, {g "want"} were written"
    else if g "size" != g "want" then .error s!"C15: EstimatedSize = {g "size"}, {g "want"} entries are present"
    else .ok ((), t)
  | "round" :: _ => .error "C15: a Compute or a writer never returned while the table was being resized"
  | _ => .error "unknown line"

/-! ### ring (sequential) and conc-ring (delivery log) -/

def rgStep (r : Impl.Ring.Ring) (line : String) (t : Tally) : Except String (Impl.Ring.Ring × Tally) :=
  let ws := splitWs line
  let dumpR (r : Impl.Ring.Ring) := s!"head={r.head} tail={r.tail} len={Impl.Ring.len r}"
  match ws with
  | "new" :: x :: "=>" :: rest =>
    let r' := Impl.Ring.newRing x.toNat!
    if dumpR r' != " ".intercalate rest then .error s!"newRing: implementation {" ".intercalate rest}, model {dumpR r'}" else .ok (r', t)
  | "add" :: x :: "=>" :: st :: rest =>
    let (r', s) := Impl.Ring.add r x.toNat!
    let code := match s with | .success => "0" | .failed => "-1" | .full => "1"
    let t := if s == .full then t.bump "full" else t.bump "added"
    if Impl.Ring.len r' > 16 then .error s!"C17: the ring holds {Impl.Ring.len r'} entries, capacity 16"
    else if s!"{code} {dumpR r'}" != s!"{st} {" ".intercalate rest}" then .error s!"add {x}: implementation {st} {" ".intercalate rest}, model {code} {dumpR r'}"
    else .ok (r', t)
  | "drain" :: "=>" :: got :: rest =>
    let (r', xs) := Impl.Ring.drainTo r
    let g := "[" ++ ",".intercalate (xs.map toString) ++ "]"
    if s!"{g} {dumpR r'}" != s!"{got} {" ".intercalate rest}" then .error s!"drainTo: implementation {got} {" ".intercalate rest}, model {g} {dumpR r'}"
    else .ok (r', (t.bump "drains").bump "drained" xs.length)
  | _ => .error "unknown line"

structure CrSt where
  accepted : List Nat := []
  delivered : List Nat := []
  maxlen : Nat := 0

def crStep (st : CrSt) (line : String) (t : Tally) : Except String (CrSt × Tally) :=
  let ws := splitWs line
  match ws with
  | "cfg" :: rest =>
    let seen := natOf rest "maxlenseen"
    let stripes := natOf rest "stripes"
    if seen > 16 * (max stripes 1) then .error s!"C17: the buffer held {seen} entries with {stripes} stripes of capacity 16"
    else if natOf rest "finallen" != 0 then .error s!"C17: after all recorders finished and a drain ran, {natOf rest "finallen"} recorded entries are still undelivered"
    else if stripes > max (natOf rest "maxlen") 1 then .error s!"C17: {stripes} stripes exceed the configured maximum {natOf rest "maxlen"}"
    else .ok ({ accepted := [], delivered := [], maxlen := natOf rest "maxlen" }, t.bump "runs")
  | ["accepted", x] => .ok ({ st with accepted := x.toNat! :: st.accepted }, t.bump "accepted")
  | ["delivered", x] => .ok ({ st with delivered := x.toNat! :: st.delivered }, t.bump "delivered")
  | ["end"] =>
    let acc := st.accepted.mergeSort (· ≤ ·)
    let del := st.delivered.mergeSort (· ≤ ·)
    let rec dupOf : List Nat → Option Nat
      | a :: b :: rest => if a == b then some a else dupOf (b :: rest)
      | _ => none
    match dupOf del with
    | some d => .error s!"C17: recorded entry {d} was handed to the consumer more than once"
    | none =>
      match del.find? (fun x => !acc.contains x) with
      | some x => .error s!"C17: entry {x} was handed to the consumer but was never successfully recorded"
      | none =>
        match acc.find? (fun x => !del.contains x) with
        | some x => .error s!"C17: successfully recorded entry {x} was never delivered although the buffer is quiescent and was drained"
        | none => .ok (st, t)
  | _ => .error "unknown line"

/-! ### conc-lin: linearizability of recorded histories (C02 cache, C15 table) -/

structure LnSt where
  ops : List (Nat × Lin.Op) := []

def lnStep (st : LnSt) (line : String) (t : Tally) : Except String (LnSt × Tally) :=
  let ws := splitWs line
  match ws with
  | "cfg" :: _ => .ok ({ ops := [] }, t.bump "histories")
  | "stats" :: rest =>
    if natOf rest "hits" + natOf rest "misses" != natOf rest "lookups" then
      .error s!"C20: hits ({natOf rest "hits"}) + misses ({natOf rest "misses"}) ≠ {natOf rest "lookups"} counted lookups performed by the concurrent history"
    else .ok (st, t.bump "stats_tallies")
  | "tablesize" :: rest =>
    if natOf rest "size" != natOf rest "ranged" then .error s!"C15: at quiescence Size() = {natOf rest "size"} but iteration yields {natOf rest "ranged"} keys"
    else if natOf rest "dups" != 0 then .error s!"C15: iteration yielded {natOf rest "dups"} keys more than once"
    else .ok (st, t)
  | ["h", k, tag, call, ret, seen, wrote, cb, lin] =>
    if cb != "cb=1" then .error s!"C02/C15: the compute callback of {tag} on key {k} ran {cb} times for one call" else
    let seenO := seen.toNat?
    let wroteO : Option (Option Nat) := if wrote == "-" then none else if wrote == "del" then some none else some (wrote.toNat?)
    let op : Lin.Op := { call := call.toNat!, ret := ret.toNat!, seen := seenO, wrote := wroteO, lin := natOf [lin] "lin", tag := s!"{tag}@{call}" }
    .ok ({ ops := (k.toNat!, op) :: st.ops }, (t.bump "operations").bump (if tag == "evict" then "evictions_in_history" else s!"op_{tag}"))
  | ["end"] =>
    let keys := (st.ops.map (·.1)).eraseDups
    let rec chk (ks : List Nat) : Except String Unit :=
      match ks with
      | [] => .ok ()
      | k :: rest =>
        match Lin.checkKey ((st.ops.filter (·.1 == k)).map (·.2)) with
        | .ok () => chk rest
        | .error e => .error s!"history of key {k} is not linearizable: {e}"
    match chk keys with
    | .ok () => .ok ({ ops := [] }, t.bump "keys_checked" keys.length)
    | .error e => .error e
  | _ => .error "unknown line"

/-! ### conc-flight: single-flight judge (C08) -/

structure CfSt where
  outcome : String := ""
  base : Nat := 0
  loads : List (Nat × Nat × Nat) := []        -- key, enter, exit
  calls : List (Nat × Nat) := []              -- start, end of every caller of the round
  kills : List (Nat × Nat) := []              -- key, stamp of every invalidation / write of the round
  deriving Inhabited

/-- C08 allows a second, NON-overlapping load of a key whose first load succeeded only for a caller that may have missed
    the cache before the first result was stored: a caller spanning the second load that started before the end of some
    caller spanning the first (the leader of the first load, who stores the value, is one of those). -/
def cfRedundant (loads : List (Nat × Nat × Nat)) (calls : List (Nat × Nat)) : Option (Nat × Nat × Nat) :=
  loads.findSome? (fun (k, en2, ex2) =>
    match loads.find? (fun (k', en1, ex1) => k' == k && ex1 < en2 && en1 != en2) with
    | none => none
    | some (_, en1, ex1) =>
      let storeBound := ((calls.filter (fun (s, e) => s < en1 && ex1 < e)).map (·.2)).foldl max 0
      if calls.any (fun (s, e) => s < en2 && ex2 < e && s < storeBound) then none else some (k, en1, en2))

def cfStep (st : CfSt) (line : String) (t : Tally) : Except String (CfSt × Tally) :=
  let ws := splitWs line
  match ws with
  | "round" :: _ :: rest =>
    .ok ({ outcome := (kvOf rest "outcome").getD "", base := natOf rest "base", loads := [], kills := [] }, t.bump s!"rounds_{(kvOf rest "outcome").getD ""}")
  | "stats" :: rest =>
    -- C20: the statistics record exactly one load per loader invocation (no phantom loads for callers that only joined)
    if natOf rest "loadsrec" != natOf rest "invocations" then
      .error s!"C20: the statistics record {natOf rest "loadsrec"} loads (successes + failures), the loaders were invoked {natOf rest "invocations"} times"
    else .ok (st, t.bump "stats_points")
  | ["kill", k, s] => .ok ({ st with kills := (k.toNat!, s.toNat!) :: st.kills }, t.bump "kills")
  | "final" :: rest =>
    -- C09: the result of the load that the invalidation superseded must never end up in the cache
    let present := (kvOf rest "present").getD "" == "true"
    if present && (kvOf rest "firstoutcome").getD "" == "ok" && natOf rest "value" == natOf rest "stale" then
      .error s!"C09: key {natOf rest "key"} holds {natOf rest "value"}, the result of a load that an invalidation had superseded"
    else if natOf rest "loads" == 2 && (kvOf rest "secondoutcome").getD "" == "ok" && !(present && natOf rest "value" == natOf rest "fresh") then
      .error s!"C09/C10: after the second (valid) load succeeded with {natOf rest "fresh"} the key reads present={present} value={natOf rest "value"}"
    else .ok (st, t.bump "supersede_finals")
  | "supersede" :: rest =>
    -- while the second load (started after the invalidation) is in flight, a third caller must join it
    if (kvOf rest "second").getD "" == "true" && natOf rest "loads_while_second_in_flight" > 2 then
      .error s!"C08: a Get arriving while a load was in flight started another loader execution ({natOf rest "loads_while_second_in_flight"} executions) although nothing was written or invalidated in between"
    else .ok (st, t.bump "supersede_rounds")
  | ["load", k, enter, exit, _] =>
    let k := k.toNat!; let en := enter.toNat!; let ex := exit.toNat!
    -- loader executions for one key must not overlap in time (no write, invalidation or eviction happens in these runs)
    -- … unless the key was written / invalidated between the starts of the two executions
    let killedBetween (a b : Nat) : Bool := st.kills.any (fun (k', s) => k' == k && min a b < s && s < max a b)
    match st.loads.find? (fun (k', en', ex') => k' == k && en < ex' && en' < ex && (en', ex') != (en, ex) && !killedBetween en en') with
    | some (_, en', ex') => .error s!"C08: two loader executions for key {k} overlap in time: [{en'}, {ex'}] and [{en}, {ex}] and the key was not written, invalidated or evicted in between"
    | none =>
      let t := t.bump "loader_invocations"
      let t := if st.loads.any (fun (k', en', _) => k' == k && en' != en) then t.bump "sequential_reloads" else t
      .ok ({ st with loads := (k, en, ex) :: st.loads }, t)
  | "call" :: _w :: start :: end_ :: res :: err :: [] =>
    let t := t.bump "callers"
    -- the caller returns the outcome of the round's loader
    let wantErr := match st.outcome with | "ok" => "nil" | "err" => "err" | "nf" => "nf" | _ => "panic"
    let parts := res.splitOn ","
    let kind := parts.headD ""
    let kvs := (parts.drop 1).filterMap (fun p => match p.splitOn "=" with
      | [a, b] => (match a.toNat?, b.toNat? with | some x, some y => some (x, y) | _, _ => none)
      | _ => none)
    let st := { st with calls := (start.toNat!, end_.toNat!) :: st.calls }
    if st.outcome == "pan" then
      if res == "panic" || err == "panic" || err == "other" || err == "nil" then .ok (st, t) else .error s!"C08: caller got {res} {err} from a panicking loader"
    else if st.outcome == "ok" then
      let afterTok := ((parts.find? (·.startsWith "after=")).map (fun p => (p.drop 6).toString)).getD "-"
      let gotV := (kvs.head?.map (·.2)).getD 0
      if err != "nil" then .error s!"C08: caller got error {err} although the load succeeded"
      else if kind == "get" && afterTok != "-" && afterTok != s!"{gotV}:true" then
        .error s!"C10/C02: Get returned {gotV} but the same goroutine's GetIfPresent right afterwards saw {afterTok} (nothing removes entries in this round): the loaded value was returned before it was cached"
      else match kvs.find? (fun (k, v) => v != st.base + k) with
        | some (k, v) => .error s!"C08/C10: caller received {v} for key {k}, the loader returned {st.base + k}"
        | none => .ok (st, t)
    else if kind == "get" then
      if err != wantErr then .error s!"C08: Get returned error class {err}, the loader's outcome was {st.outcome}" else .ok (st, t)
    else
      -- BulkGet: a failing bulk load yields its error; not-found keys are simply absent from the result
      if st.outcome == "err" && err != "err" then .error s!"C08: BulkGet returned {err}, the bulk loader failed"
      else if st.outcome == "nf" && (err != "nil" || !kvs.isEmpty) then .error s!"C08/C10: BulkGet returned {res} {err} although the loader supplied no key"
      else .ok (st, t)
  | "call" :: _ => .ok (st, t.bump "callers")
  | "quiescent" :: rest =>
    if natOf rest "hangs" != 0 then .error "C08: a caller never returned: it waits for an in-flight load that nobody completes"
    else if natOf rest "inflight" != 0 then .error s!"C08: {natOf rest "inflight"} in-flight record(s) left behind after every call returned"
    else match (if st.outcome == "ok" then cfRedundant st.loads st.calls else none) with
      | some (k, en1, en2) => .error s!"C08: key {k} was loaded again (loader entered at {en2}) after its load entered at {en1} had succeeded and been stored, by a caller that started after that — the result was not retained"
      | none => .ok (st, t.bump "quiescent_points")
  | _ => .error "unknown line"

/-- generic script loop: `step` per line, first failure of a script is reported, rest of the script skipped -/
partial def loop {σ : Type} (h : IO.FS.Stream) (init : σ) (step : σ → String → Tally → Except String (σ × Tally))
    (st : σ) (script : String) (lineNo : Nat) (skipping : Bool) (t : Tally) : IO Unit := do
  let line ← h.getLine
  if line.isEmpty then
    IO.println t.summary
    return
  let line := (line.dropEndWhile (fun c => c == '\n' || c == '\r')).toString
  if line.startsWith "script " then
    loop h init step init ((line.drop 7).toString) 0 false { t with scripts := t.scripts + 1 }
  else if skipping || line.isEmpty then
    loop h init step st script (lineNo + 1) skipping t
  else
    match step st line { t with lines := t.lines + 1 } with
    | .ok (st', t') => loop h init step st' script (lineNo + 1) false t'
    | .error e =>
      IO.println s!"FAIL script={script} line={lineNo} :: {e} :: {line}"
      loop h init step st script (lineNo + 1) true { t with failed := t.failed + 1, lines := t.lines + 1 }

def dispatch (cmd : String) (_args : List String) (h : IO.FS.Stream) : IO UInt32 := do
  match cmd with
  | "sketch" => loop h ({} : SkSt) skStep {} "" 0 false {}; return 0
  | "ring" => loop h ({} : Impl.Ring.Ring) rgStep {} "" 0 false {}; return 0
  | "concring" => loop h ({} : CrSt) crStep {} "" 0 false {}; return 0
  | "concflight" => loop h ({} : CfSt) cfStep {} "" 0 false {}; return 0
  | "conclin" => loop h ({} : LnSt) lnStep {} "" 0 false {}; return 0
  | "concpolicy" => loop h () cpStep () "" 0 false {}; return 0
  | "concresize" => loop h () czStep () "" 0 false {}; return 0
  | "keys" => loop h ([] : List (Nat × Nat)) ukStep [] "" 0 false {}; return 0
  | "concrefresh" => loop h () crfStep () "" 0 false {}; return 0
  | "concwindow" => loop h () cwStep () "" 0 false {}; return 0
  | "concevents" => loop h ({} : CeSt) ceStep {} "" 0 false {}; return 0
  | "concmpsc" => loop h ({} : CmSt) cmStep {} "" 0 false {}; return 0
  | "concdrain" => loop h () cdStep () "" 0 false {}; return 0
  | "policy" => loop h ({} : Impl.Policy.Policy) plStep {} "" 0 false {}; return 0
  | "mpsc" => loop h ({} : MqSt) mqStep {} "" 0 false {}; return 0
  | "wheel" => loop h ({} : Impl.Wheel.Wheel) whStep {} "" 0 false {}; return 0
  | _ =>
    IO.eprintln s!"unknown engine {cmd}"
    return 2

end Driver.Units
