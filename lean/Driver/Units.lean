/- dispatch for the UNIT engines (filled in as the component models are added) -/
namespace Driver.Units

def dispatch (cmd : String) (_args : List String) (_h : IO.FS.Stream) : IO UInt32 := do
  IO.eprintln s!"unknown engine {cmd}"
  return 2

end Driver.Units
