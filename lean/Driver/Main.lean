/-
  otterdrv — line-protocol driver for the executable component models (core Lean only).
    otterdrv <engine> [args] < transcript
  (the SEQ judge is the separate executable `seqdrv`)
-/
import Driver.Units

def main (args : List String) : IO UInt32 := do
  let stdin ← IO.getStdin
  match args with
  | cmd :: rest => Driver.Units.dispatch cmd rest stdin
  | [] => IO.eprintln "usage: otterdrv <engine>"; return 2
