/-
  otterdrv — line-protocol driver for the executable models (core Lean only).
    otterdrv seq        < transcript      judge SEQ transcripts against Spec
-/
import OtterVerif.Spec.Check
import Driver.Units

open OtterVerif

partial def seqLoop (h : IO.FS.Stream) (cs : Spec.Check.CS) (script : String) (lineNo : Nat) (skipping : Bool)
    (nScripts nFailed nOps nEv nDead nLoads : Nat) : IO Unit := do
  let line ← h.getLine
  if line.isEmpty then
    let nOps := nOps + cs.nOps; let nEv := nEv + cs.nEvictions; let nDead := nDead + cs.nDeadTouches; let nLoads := nLoads + cs.nLoads
    IO.println s!"summary scripts={nScripts} failed={nFailed} ops={nOps} evictions={nEv} deadtouch={nDead} loads={nLoads}"
    return
  let line := (line.dropEndWhile (fun c => c == '\n' || c == '\r')).toString
  if line.startsWith "script " then
    seqLoop h {} ((line.drop 7).toString) 0 false (nScripts + 1) nFailed (nOps + cs.nOps) (nEv + cs.nEvictions) (nDead + cs.nDeadTouches) (nLoads + cs.nLoads)
  else if skipping then
    seqLoop h cs script (lineNo + 1) true nScripts nFailed nOps nEv nDead nLoads
  else
    match Spec.Check.parseLine line with
    | .error e =>
      IO.println s!"FAIL script={script} line={lineNo} :: parse error {e} :: {line}"
      seqLoop h cs script (lineNo + 1) true nScripts (nFailed + 1) nOps nEv nDead nLoads
    | .ok l =>
      let (r, cs') := (Spec.Check.step l).run.run cs
      match r with
      | .ok () => seqLoop h cs' script (lineNo + 1) false nScripts nFailed nOps nEv nDead nLoads
      | .error e =>
        IO.println s!"FAIL script={script} line={lineNo} :: {e} :: {line}"
        if (← IO.getEnv "VERIF_DEBUG").isSome then
          IO.println s!"  STATE now={cs'.s.now} max={cs'.s.maximum} total={cs'.s.totalWeight} m={cs'.s.m.map (fun p => (p.1, p.2.val, p.2.weight, p.2.exp, p.2.ref))} inflight={cs'.s.inflight}"
        seqLoop h cs' script (lineNo + 1) true nScripts (nFailed + 1) nOps nEv nDead nLoads

def main (args : List String) : IO UInt32 := do
  let stdin ← IO.getStdin
  match args with
  | ["seq"] => seqLoop stdin {} "" 0 false 0 0 0 0 0 0; return 0
  | cmd :: rest => Driver.Units.dispatch cmd rest stdin
  | [] => IO.eprintln "usage: otterdrv <engine>"; return 2
