/-
  Pin.CalcSites — HAND-OWNED (bootstrapped once by tools/mkpins.py, then reviewed): what every pure computation that
  the translator extracts into Gen.CalcSites is expected to mean.  Re-checked against the regenerated Gen.CalcSites on every
  run; a pin that no longer proves names the Go expression whose meaning changed.
-/
import OtterVerif.Gen.CalcSites

namespace OtterVerif.Pin.CalcSites
open OtterVerif OtterVerif.Gen.CalcSites

/-- `rfl` when the regenerated term is the recorded one; otherwise try to see through a harmless rewrite
    (operand order of commutative operators) -/
local macro "pin_tac" d:ident : tactic =>
  `(tactic| first
    | rfl
    | (simp only [$d:ident]; ac_rfl)
    | (simp [$d:ident, BitVec.add_comm, BitVec.and_comm, BitVec.or_comm, BitVec.xor_comm, BitVec.mul_comm, Bool.and_comm, Bool.or_comm]))

theorem Entry_ExpiresAfter_r0_pin (e_ExpiresAtNano : BitVec 64) (e_SnapshotAtNano : BitVec 64) :
    Gen.CalcSites.Entry_ExpiresAfter_r0 e_ExpiresAtNano e_SnapshotAtNano = (e_ExpiresAtNano - e_SnapshotAtNano) := by pin_tac Gen.CalcSites.Entry_ExpiresAfter_r0

theorem Entry_HasExpired_r0_pin (e_ExpiresAtNano : BitVec 64) (e_SnapshotAtNano : BitVec 64) :
    Gen.CalcSites.Entry_HasExpired_r0 e_ExpiresAtNano e_SnapshotAtNano = (BitVec.slt e_ExpiresAtNano e_SnapshotAtNano) := by pin_tac Gen.CalcSites.Entry_HasExpired_r0

theorem Entry_RefreshableAfter_r0_pin (e_RefreshableAtNano : BitVec 64) (e_SnapshotAtNano : BitVec 64) :
    Gen.CalcSites.Entry_RefreshableAfter_r0 e_RefreshableAtNano e_SnapshotAtNano = (e_RefreshableAtNano - e_SnapshotAtNano) := by pin_tac Gen.CalcSites.Entry_RefreshableAfter_r0

theorem varExpiryCreating_ExpireAfterCreate_r0_pin (c_f_entry : BitVec 64) :
    Gen.CalcSites.varExpiryCreating_ExpireAfterCreate_r0 c_f_entry = c_f_entry := by pin_tac Gen.CalcSites.varExpiryCreating_ExpireAfterCreate_r0

theorem varExpiryCreating_ExpireAfterUpdate_r0_pin (entry_ExpiresAfter : BitVec 64) :
    Gen.CalcSites.varExpiryCreating_ExpireAfterUpdate_r0 entry_ExpiresAfter = entry_ExpiresAfter := by pin_tac Gen.CalcSites.varExpiryCreating_ExpireAfterUpdate_r0

theorem varExpiryCreating_ExpireAfterRead_r0_pin (entry_ExpiresAfter : BitVec 64) :
    Gen.CalcSites.varExpiryCreating_ExpireAfterRead_r0 entry_ExpiresAfter = entry_ExpiresAfter := by pin_tac Gen.CalcSites.varExpiryCreating_ExpireAfterRead_r0

theorem varExpiryWriting_ExpireAfterCreate_r0_pin (w_f_entry : BitVec 64) :
    Gen.CalcSites.varExpiryWriting_ExpireAfterCreate_r0 w_f_entry = w_f_entry := by pin_tac Gen.CalcSites.varExpiryWriting_ExpireAfterCreate_r0

theorem varExpiryWriting_ExpireAfterUpdate_r0_pin (w_f_entry : BitVec 64) :
    Gen.CalcSites.varExpiryWriting_ExpireAfterUpdate_r0 w_f_entry = w_f_entry := by pin_tac Gen.CalcSites.varExpiryWriting_ExpireAfterUpdate_r0

theorem varExpiryWriting_ExpireAfterRead_r0_pin (entry_ExpiresAfter : BitVec 64) :
    Gen.CalcSites.varExpiryWriting_ExpireAfterRead_r0 entry_ExpiresAfter = entry_ExpiresAfter := by pin_tac Gen.CalcSites.varExpiryWriting_ExpireAfterRead_r0

theorem varExpiryAccessing_ExpireAfterCreate_r0_pin (a_f_entry : BitVec 64) :
    Gen.CalcSites.varExpiryAccessing_ExpireAfterCreate_r0 a_f_entry = a_f_entry := by pin_tac Gen.CalcSites.varExpiryAccessing_ExpireAfterCreate_r0

theorem varExpiryAccessing_ExpireAfterUpdate_r0_pin (a_f_entry : BitVec 64) :
    Gen.CalcSites.varExpiryAccessing_ExpireAfterUpdate_r0 a_f_entry = a_f_entry := by pin_tac Gen.CalcSites.varExpiryAccessing_ExpireAfterUpdate_r0

theorem varExpiryAccessing_ExpireAfterRead_r0_pin (a_f_entry : BitVec 64) :
    Gen.CalcSites.varExpiryAccessing_ExpireAfterRead_r0 a_f_entry = a_f_entry := by pin_tac Gen.CalcSites.varExpiryAccessing_ExpireAfterRead_r0

theorem varRefreshCreating_RefreshAfterCreate_r0_pin (c_f_entry : BitVec 64) :
    Gen.CalcSites.varRefreshCreating_RefreshAfterCreate_r0 c_f_entry = c_f_entry := by pin_tac Gen.CalcSites.varRefreshCreating_RefreshAfterCreate_r0

theorem varRefreshCreating_RefreshAfterUpdate_r0_pin (entry_RefreshableAfter : BitVec 64) :
    Gen.CalcSites.varRefreshCreating_RefreshAfterUpdate_r0 entry_RefreshableAfter = entry_RefreshableAfter := by pin_tac Gen.CalcSites.varRefreshCreating_RefreshAfterUpdate_r0

theorem varRefreshCreating_RefreshAfterReload_r0_pin (entry_RefreshableAfter : BitVec 64) :
    Gen.CalcSites.varRefreshCreating_RefreshAfterReload_r0 entry_RefreshableAfter = entry_RefreshableAfter := by pin_tac Gen.CalcSites.varRefreshCreating_RefreshAfterReload_r0

theorem varRefreshCreating_RefreshAfterReloadFailure_r0_pin (entry_RefreshableAfter : BitVec 64) :
    Gen.CalcSites.varRefreshCreating_RefreshAfterReloadFailure_r0 entry_RefreshableAfter = entry_RefreshableAfter := by pin_tac Gen.CalcSites.varRefreshCreating_RefreshAfterReloadFailure_r0

theorem varRefreshWriting_RefreshAfterCreate_r0_pin (w_f_entry : BitVec 64) :
    Gen.CalcSites.varRefreshWriting_RefreshAfterCreate_r0 w_f_entry = w_f_entry := by pin_tac Gen.CalcSites.varRefreshWriting_RefreshAfterCreate_r0

theorem varRefreshWriting_RefreshAfterUpdate_r0_pin (w_f_entry : BitVec 64) :
    Gen.CalcSites.varRefreshWriting_RefreshAfterUpdate_r0 w_f_entry = w_f_entry := by pin_tac Gen.CalcSites.varRefreshWriting_RefreshAfterUpdate_r0

theorem varRefreshWriting_RefreshAfterReload_r0_pin (w_f_entry : BitVec 64) :
    Gen.CalcSites.varRefreshWriting_RefreshAfterReload_r0 w_f_entry = w_f_entry := by pin_tac Gen.CalcSites.varRefreshWriting_RefreshAfterReload_r0

theorem varRefreshWriting_RefreshAfterReloadFailure_r0_pin (entry_RefreshableAfter : BitVec 64) :
    Gen.CalcSites.varRefreshWriting_RefreshAfterReloadFailure_r0 entry_RefreshableAfter = entry_RefreshableAfter := by pin_tac Gen.CalcSites.varRefreshWriting_RefreshAfterReloadFailure_r0

theorem siteParams_pin : Gen.CalcSites.siteParams = [("Entry_ExpiresAfter_r0", ["e_ExpiresAtNano", "e_SnapshotAtNano"]),
  ("Entry_HasExpired_r0", ["e_ExpiresAtNano", "e_SnapshotAtNano"]),
  ("Entry_RefreshableAfter_r0", ["e_RefreshableAtNano", "e_SnapshotAtNano"]),
  ("varExpiryCreating_ExpireAfterCreate_r0", ["c_f_entry"]),
  ("varExpiryCreating_ExpireAfterUpdate_r0", ["entry_ExpiresAfter"]),
  ("varExpiryCreating_ExpireAfterRead_r0", ["entry_ExpiresAfter"]),
  ("varExpiryWriting_ExpireAfterCreate_r0", ["w_f_entry"]),
  ("varExpiryWriting_ExpireAfterUpdate_r0", ["w_f_entry"]),
  ("varExpiryWriting_ExpireAfterRead_r0", ["entry_ExpiresAfter"]),
  ("varExpiryAccessing_ExpireAfterCreate_r0", ["a_f_entry"]),
  ("varExpiryAccessing_ExpireAfterUpdate_r0", ["a_f_entry"]),
  ("varExpiryAccessing_ExpireAfterRead_r0", ["a_f_entry"]),
  ("varRefreshCreating_RefreshAfterCreate_r0", ["c_f_entry"]),
  ("varRefreshCreating_RefreshAfterUpdate_r0", ["entry_RefreshableAfter"]),
  ("varRefreshCreating_RefreshAfterReload_r0", ["entry_RefreshableAfter"]),
  ("varRefreshCreating_RefreshAfterReloadFailure_r0", ["entry_RefreshableAfter"]),
  ("varRefreshWriting_RefreshAfterCreate_r0", ["w_f_entry"]),
  ("varRefreshWriting_RefreshAfterUpdate_r0", ["w_f_entry"]),
  ("varRefreshWriting_RefreshAfterReload_r0", ["w_f_entry"]),
  ("varRefreshWriting_RefreshAfterReloadFailure_r0", ["entry_RefreshableAfter"])] := by rfl

theorem shape_pin : Gen.CalcSites.shape = [("Entry_ExpiresAt", [0, 0, 0, 1, 0, 0, 0]),
  ("Entry_ExpiresAfter", [0, 0, 0, 1, 0, 0, 0]),
  ("Entry_HasExpired", [0, 0, 0, 1, 0, 0, 0]),
  ("Entry_RefreshableAt", [0, 0, 0, 1, 0, 0, 0]),
  ("Entry_RefreshableAfter", [0, 0, 0, 1, 0, 0, 0]),
  ("Entry_SnapshotAt", [0, 0, 0, 1, 0, 0, 0]),
  ("varExpiryCreating_ExpireAfterCreate", [0, 0, 0, 1, 0, 0, 0]),
  ("varExpiryCreating_ExpireAfterUpdate", [0, 0, 0, 1, 0, 0, 0]),
  ("varExpiryCreating_ExpireAfterRead", [0, 0, 0, 1, 0, 0, 0]),
  ("ExpiryCreating", [0, 0, 0, 1, 0, 0, 0]),
  ("ExpiryCreatingFunc", [0, 0, 0, 1, 0, 0, 0]),
  ("varExpiryWriting_ExpireAfterCreate", [0, 0, 0, 1, 0, 0, 0]),
  ("varExpiryWriting_ExpireAfterUpdate", [0, 0, 0, 1, 0, 0, 0]),
  ("varExpiryWriting_ExpireAfterRead", [0, 0, 0, 1, 0, 0, 0]),
  ("ExpiryWriting", [0, 0, 0, 1, 0, 0, 0]),
  ("ExpiryWritingFunc", [0, 0, 0, 1, 0, 0, 0]),
  ("varExpiryAccessing_ExpireAfterCreate", [0, 0, 0, 1, 0, 0, 0]),
  ("varExpiryAccessing_ExpireAfterUpdate", [0, 0, 0, 1, 0, 0, 0]),
  ("varExpiryAccessing_ExpireAfterRead", [0, 0, 0, 1, 0, 0, 0]),
  ("ExpiryAccessing", [0, 0, 0, 1, 0, 0, 0]),
  ("ExpiryAccessingFunc", [0, 0, 0, 1, 0, 0, 0]),
  ("varRefreshCreating_RefreshAfterCreate", [0, 0, 0, 1, 0, 0, 0]),
  ("varRefreshCreating_RefreshAfterUpdate", [0, 0, 0, 1, 0, 0, 0]),
  ("varRefreshCreating_RefreshAfterReload", [0, 0, 0, 1, 0, 0, 0]),
  ("varRefreshCreating_RefreshAfterReloadFailure", [0, 0, 0, 1, 0, 0, 0]),
  ("RefreshCreating", [0, 0, 0, 1, 0, 0, 0]),
  ("RefreshCreatingFunc", [0, 0, 0, 1, 0, 0, 0]),
  ("varRefreshWriting_RefreshAfterCreate", [0, 0, 0, 1, 0, 0, 0]),
  ("varRefreshWriting_RefreshAfterUpdate", [0, 0, 0, 1, 0, 0, 0]),
  ("varRefreshWriting_RefreshAfterReload", [0, 0, 0, 1, 0, 0, 0]),
  ("varRefreshWriting_RefreshAfterReloadFailure", [0, 0, 0, 1, 0, 0, 0]),
  ("RefreshWriting", [0, 0, 0, 1, 0, 0, 0]),
  ("RefreshWritingFunc", [0, 0, 0, 1, 0, 0, 0])] := by rfl

end OtterVerif.Pin.CalcSites
