/-
  Pin.CacheMisc — HAND-OWNED (bootstrapped once by tools/mkpins.py, then reviewed): what every pure computation that
  the translator extracts into Gen.CacheMisc is expected to mean.  Re-checked against the regenerated Gen.CacheMisc on every
  run; a pin that no longer proves names the Go expression whose meaning changed.
-/
import OtterVerif.Gen.CacheMisc

namespace OtterVerif.Pin.CacheMisc
open OtterVerif OtterVerif.Gen.CacheMisc

/-- `rfl` when the regenerated term is the recorded one; otherwise try to see through a harmless rewrite
    (operand order of commutative operators) -/
local macro "pin_tac" d:ident : tactic =>
  `(tactic| first
    | rfl
    | (simp only [$d:ident]; ac_rfl)
    | (simp [$d:ident, BitVec.add_comm, BitVec.and_comm, BitVec.or_comm, BitVec.xor_comm, BitVec.mul_comm, Bool.and_comm, Bool.or_comm]))

theorem newCache_c0_pin (withStats : Bool) :
    Gen.CacheMisc.newCache_c0 withStats = withStats := by pin_tac Gen.CacheMisc.newCache_c0

theorem newCache_c1_pin (withStats : Bool) :
    Gen.CacheMisc.newCache_c1 withStats = (!withStats) := by pin_tac Gen.CacheMisc.newCache_c1

theorem newCache_c2_pin (ok : Bool) :
    Gen.CacheMisc.newCache_c2 ok = ok := by pin_tac Gen.CacheMisc.newCache_c2

theorem newCache_c3_pin (withStats : Bool) :
    Gen.CacheMisc.newCache_c3 withStats = withStats := by pin_tac Gen.CacheMisc.newCache_c3

theorem newCache_c4_pin (c_withEviction : Bool) :
    Gen.CacheMisc.newCache_c4 c_withEviction = c_withEviction := by pin_tac Gen.CacheMisc.newCache_c4

theorem newCache_c5_pin (o_hasInitialCapacity : Bool) :
    Gen.CacheMisc.newCache_c5 o_hasInitialCapacity = o_hasInitialCapacity := by pin_tac Gen.CacheMisc.newCache_c5

theorem newCache_c6_pin (o_ExpiryCalculatornot_nil : Bool) :
    Gen.CacheMisc.newCache_c6 o_ExpiryCalculatornot_nil = o_ExpiryCalculatornot_nil := by pin_tac Gen.CacheMisc.newCache_c6

theorem newCache_c7_pin (c_withMaintenance : Bool) :
    Gen.CacheMisc.newCache_c7 c_withMaintenance = c_withMaintenance := by pin_tac Gen.CacheMisc.newCache_c7

theorem newCache_c8_pin (c_withTime : Bool) :
    Gen.CacheMisc.newCache_c8 c_withTime = c_withTime := by pin_tac Gen.CacheMisc.newCache_c8

theorem newCache_c9_pin (c_withExpiration : Bool) :
    Gen.CacheMisc.newCache_c9 c_withExpiration = c_withExpiration := by pin_tac Gen.CacheMisc.newCache_c9

theorem newCache_c10_pin (c_withEviction : Bool) :
    Gen.CacheMisc.newCache_c10 c_withEviction = c_withEviction := by pin_tac Gen.CacheMisc.newCache_c10

theorem newCache_x0_pin (o_MaximumSize : BitVec 64) :
    Gen.CacheMisc.newCache_x0 o_MaximumSize = (BitVec.slt (0#64) o_MaximumSize) := by pin_tac Gen.CacheMisc.newCache_x0

theorem newCache_x1_pin (o_ExpiryCalculatornot_nil : Bool) :
    Gen.CacheMisc.newCache_x1 o_ExpiryCalculatornot_nil = o_ExpiryCalculatornot_nil := by pin_tac Gen.CacheMisc.newCache_x1

theorem newCache_x2_pin (o_RefreshCalculatornot_nil : Bool) :
    Gen.CacheMisc.newCache_x2 o_RefreshCalculatornot_nil = o_RefreshCalculatornot_nil := by pin_tac Gen.CacheMisc.newCache_x2

theorem newCache_x3_pin (o_Executor__nil : Bool) :
    Gen.CacheMisc.newCache_x3 o_Executor__nil = o_Executor__nil := by pin_tac Gen.CacheMisc.newCache_x3

theorem newCache_a0_pin (o_MaximumWeight : BitVec 64) :
    Gen.CacheMisc.newCache_a0 o_MaximumWeight = (BitVec.ult (0#64) o_MaximumWeight) := by pin_tac Gen.CacheMisc.newCache_a0

theorem newCache_a2_pin (o_getMaximum : BitVec 64) :
    Gen.CacheMisc.newCache_a2 o_getMaximum = o_getMaximum := by pin_tac Gen.CacheMisc.newCache_a2

theorem newCache_a3_pin (maximum : BitVec 64) :
    Gen.CacheMisc.newCache_a3 maximum = (BitVec.ult (0#64) maximum) := by pin_tac Gen.CacheMisc.newCache_a3

theorem newCache_a4_pin (o_StatsRecordernot_nil : Bool) :
    Gen.CacheMisc.newCache_a4 o_StatsRecordernot_nil = o_StatsRecordernot_nil := by pin_tac Gen.CacheMisc.newCache_a4

theorem newCache_a5_pin (ok : Bool) :
    Gen.CacheMisc.newCache_a5 ok = (!ok) := by pin_tac Gen.CacheMisc.newCache_a5

theorem newCache_a11_pin (withEviction : Bool) :
    Gen.CacheMisc.newCache_a11 withEviction = withEviction := by pin_tac Gen.CacheMisc.newCache_a11

theorem newCache_a14_pin (o_ExpiryCalculatornot_nil : Bool) :
    Gen.CacheMisc.newCache_a14 o_ExpiryCalculatornot_nil = o_ExpiryCalculatornot_nil := by pin_tac Gen.CacheMisc.newCache_a14

theorem newCache_a15_pin (o_RefreshCalculatornot_nil : Bool) :
    Gen.CacheMisc.newCache_a15 o_RefreshCalculatornot_nil = o_RefreshCalculatornot_nil := by pin_tac Gen.CacheMisc.newCache_a15

theorem newCache_a16_pin (c_withExpiration : Bool) (c_withRefresh : Bool) :
    Gen.CacheMisc.newCache_a16 c_withExpiration c_withRefresh = (c_withExpiration || c_withRefresh) := by pin_tac Gen.CacheMisc.newCache_a16

theorem newCache_a17_pin (c_withEviction : Bool) (c_withExpiration : Bool) :
    Gen.CacheMisc.newCache_a17 c_withEviction c_withExpiration = (c_withEviction || c_withExpiration) := by pin_tac Gen.CacheMisc.newCache_a17

theorem cache_EstimatedSize_r0_pin (c_hashmap_Size : BitVec 64) :
    Gen.CacheMisc.cache_EstimatedSize_r0 c_hashmap_Size = c_hashmap_Size := by pin_tac Gen.CacheMisc.cache_EstimatedSize_r0

theorem cache_IsWeighted_r0_pin (c_isWeighted : Bool) :
    Gen.CacheMisc.cache_IsWeighted_r0 c_isWeighted = c_isWeighted := by pin_tac Gen.CacheMisc.cache_IsWeighted_r0

theorem cache_IsRecordingStats_r0_pin (c_withStats : Bool) :
    Gen.CacheMisc.cache_IsRecordingStats_r0 c_withStats = c_withStats := by pin_tac Gen.CacheMisc.cache_IsRecordingStats_r0

theorem siteParams_pin : Gen.CacheMisc.siteParams = [("newCache_c0", ["withStats"]),
  ("newCache_c1", ["withStats"]),
  ("newCache_c2", ["ok"]),
  ("newCache_c3", ["withStats"]),
  ("newCache_c4", ["c_withEviction"]),
  ("newCache_c5", ["o_hasInitialCapacity"]),
  ("newCache_c6", ["o_ExpiryCalculatornot_nil"]),
  ("newCache_c7", ["c_withMaintenance"]),
  ("newCache_c8", ["c_withTime"]),
  ("newCache_c9", ["c_withExpiration"]),
  ("newCache_c10", ["c_withEviction"]),
  ("newCache_x0", ["o_MaximumSize"]),
  ("newCache_x1", ["o_ExpiryCalculatornot_nil"]),
  ("newCache_x2", ["o_RefreshCalculatornot_nil"]),
  ("newCache_x3", ["o_Executor__nil"]),
  ("newCache_a0", ["o_MaximumWeight"]),
  ("newCache_a2", ["o_getMaximum"]),
  ("newCache_a3", ["maximum"]),
  ("newCache_a4", ["o_StatsRecordernot_nil"]),
  ("newCache_a5", ["ok"]),
  ("newCache_a11", ["withEviction"]),
  ("newCache_a14", ["o_ExpiryCalculatornot_nil"]),
  ("newCache_a15", ["o_RefreshCalculatornot_nil"]),
  ("newCache_a16", ["c_withExpiration", "c_withRefresh"]),
  ("newCache_a17", ["c_withEviction", "c_withExpiration"]),
  ("cache_EstimatedSize_r0", ["c_hashmap_Size"]),
  ("cache_IsWeighted_r0", ["c_isWeighted"]),
  ("cache_IsRecordingStats_r0", ["c_withStats"])] := by rfl

theorem shape_pin : Gen.CacheMisc.shape = [("zeroValue", [0, 0, 0, 1, 0, 0, 0]),
  ("newCache", [11, 0, 21, 1, 1, 4, 0]),
  ("cache_EstimatedSize", [0, 0, 0, 1, 0, 0, 0]),
  ("cache_IsWeighted", [0, 0, 0, 1, 0, 0, 0]),
  ("cache_IsRecordingStats", [0, 0, 0, 1, 0, 0, 0]),
  ("cache_Stats", [0, 0, 0, 1, 0, 0, 0])] := by rfl

end OtterVerif.Pin.CacheMisc
