/-
  Pin.AdderSites — HAND-OWNED (bootstrapped once by tools/mkpins.py, then reviewed): what every pure computation that
  the translator extracts into Gen.AdderSites is expected to mean.  Re-checked against the regenerated Gen.AdderSites on every
  run; a pin that no longer proves names the Go expression whose meaning changed.
-/
import OtterVerif.Gen.AdderSites

namespace OtterVerif.Pin.AdderSites
open OtterVerif OtterVerif.Gen.AdderSites

/-- `rfl` when the regenerated term is the recorded one; otherwise try to see through a harmless rewrite
    (operand order of commutative operators) -/
local macro "pin_tac" d:ident : tactic =>
  `(tactic| first
    | rfl
    | (simp only [$d:ident]; ac_rfl)
    | (simp [$d:ident, BitVec.add_comm, BitVec.and_comm, BitVec.or_comm, BitVec.xor_comm, BitVec.mul_comm, Bool.and_comm, Bool.or_comm]))

theorem NewAdder_x0_pin (nstripes : BitVec 32) :
    Gen.AdderSites.NewAdder_x0 nstripes = (nstripes - (1#32)) := by pin_tac Gen.AdderSites.NewAdder_x0

theorem NewAdder_a0_pin (xruntime_Parallelism : BitVec 32) :
    Gen.AdderSites.NewAdder_a0 xruntime_Parallelism = (OtterVerif.Gen.Xmath.RoundUpPowerOf2 xruntime_Parallelism) := by pin_tac Gen.AdderSites.NewAdder_a0

theorem Adder_Add_c0_pin (ok : Bool) :
    Gen.AdderSites.Adder_Add_c0 ok = (!ok) := by pin_tac Gen.AdderSites.Adder_Add_c0

theorem Adder_Add_c1_pin (stripe_adder_CompareAndSwap_cnt_cnt_delta : Bool) :
    Gen.AdderSites.Adder_Add_c1 stripe_adder_CompareAndSwap_cnt_cnt_delta = stripe_adder_CompareAndSwap_cnt_cnt_delta := by pin_tac Gen.AdderSites.Adder_Add_c1

theorem Adder_Add_x0_pin (a_mask : BitVec 32) (t_idx : BitVec 32) :
    Gen.AdderSites.Adder_Add_x0 a_mask t_idx = (t_idx &&& a_mask) := by pin_tac Gen.AdderSites.Adder_Add_x0

theorem Adder_Add_x1_pin (cnt : BitVec 64) (delta : BitVec 64) :
    Gen.AdderSites.Adder_Add_x1 cnt delta = (cnt + delta) := by pin_tac Gen.AdderSites.Adder_Add_x1

theorem Adder_Add_a2_pin (stripe_adder_Load : BitVec 64) :
    Gen.AdderSites.Adder_Add_a2 stripe_adder_Load = stripe_adder_Load := by pin_tac Gen.AdderSites.Adder_Add_a2

theorem Adder_Add_a3_pin (xruntime_Fastrand : BitVec 32) :
    Gen.AdderSites.Adder_Add_a3 xruntime_Fastrand = xruntime_Fastrand := by pin_tac Gen.AdderSites.Adder_Add_a3

theorem Adder_Value_c0_pin (i : BitVec 64) (len_a_stripes : BitVec 64) :
    Gen.AdderSites.Adder_Value_c0 i len_a_stripes = (BitVec.slt i len_a_stripes) := by pin_tac Gen.AdderSites.Adder_Value_c0

theorem Adder_Value_a0_pin :
    Gen.AdderSites.Adder_Value_a0  = (0#64) := by pin_tac Gen.AdderSites.Adder_Value_a0

theorem Adder_Value_a1_pin :
    Gen.AdderSites.Adder_Value_a1  = (0#64) := by pin_tac Gen.AdderSites.Adder_Value_a1

theorem Adder_Value_u0_pin (i : BitVec 64) :
    Gen.AdderSites.Adder_Value_u0 i = (i + (1#64)) := by pin_tac Gen.AdderSites.Adder_Value_u0

theorem Adder_Value_u1_pin (stripe_adder_Load : BitVec 64) (value : BitVec 64) :
    Gen.AdderSites.Adder_Value_u1 stripe_adder_Load value = (value + stripe_adder_Load) := by pin_tac Gen.AdderSites.Adder_Value_u1

theorem Adder_Value_r0_pin (value : BitVec 64) :
    Gen.AdderSites.Adder_Value_r0 value = value := by pin_tac Gen.AdderSites.Adder_Value_r0

theorem siteParams_pin : Gen.AdderSites.siteParams = [("NewAdder_x0", ["nstripes"]),
  ("NewAdder_a0", ["xruntime_Parallelism"]),
  ("Adder_Add_c0", ["ok"]),
  ("Adder_Add_c1", ["stripe_adder_CompareAndSwap_cnt_cnt_delta"]),
  ("Adder_Add_x0", ["a_mask", "t_idx"]),
  ("Adder_Add_x1", ["cnt", "delta"]),
  ("Adder_Add_a2", ["stripe_adder_Load"]),
  ("Adder_Add_a3", ["xruntime_Fastrand"]),
  ("Adder_Value_c0", ["i", "len_a_stripes"]),
  ("Adder_Value_a0", []),
  ("Adder_Value_a1", []),
  ("Adder_Value_u0", ["i"]),
  ("Adder_Value_u1", ["stripe_adder_Load", "value"]),
  ("Adder_Value_r0", ["value"])] := by rfl

theorem shape_pin : Gen.AdderSites.shape = [("NewAdder", [0, 0, 1, 1, 0, 1, 0]),
  ("Adder_Add", [2, 0, 4, 0, 0, 2, 0]),
  ("Adder_Value", [1, 2, 3, 1, 0, 0, 0])] := by rfl

end OtterVerif.Pin.AdderSites
