/-
  Pin.PersistSites — HAND-OWNED (bootstrapped once by tools/mkpins.py, then reviewed): what every pure computation that
  the translator extracts into Gen.PersistSites is expected to mean.  Re-checked against the regenerated Gen.PersistSites on every
  run; a pin that no longer proves names the Go expression whose meaning changed.
-/
import OtterVerif.Gen.PersistSites

namespace OtterVerif.Pin.PersistSites
open OtterVerif OtterVerif.Gen.PersistSites

/-- `rfl` when the regenerated term is the recorded one; otherwise try to see through a harmless rewrite
    (operand order of commutative operators) -/
local macro "pin_tac" d:ident : tactic =>
  `(tactic| first
    | rfl
    | (simp only [$d:ident]; ac_rfl)
    | (simp [$d:ident, BitVec.add_comm, BitVec.and_comm, BitVec.or_comm, BitVec.xor_comm, BitVec.mul_comm, Bool.and_comm, Bool.or_comm]))

theorem LoadCacheFromFile_c0_pin (errnot_nil : Bool) :
    Gen.PersistSites.LoadCacheFromFile_c0 errnot_nil = errnot_nil := by pin_tac Gen.PersistSites.LoadCacheFromFile_c0

theorem LoadCacheFrom_c0_pin (errnot_nil : Bool) :
    Gen.PersistSites.LoadCacheFrom_c0 errnot_nil = errnot_nil := by pin_tac Gen.PersistSites.LoadCacheFrom_c0

theorem LoadCacheFrom_c1_pin (maximum : BitVec 64) (size : BitVec 64) :
    Gen.PersistSites.LoadCacheFrom_c1 maximum size = (BitVec.ult size maximum) := by pin_tac Gen.PersistSites.LoadCacheFrom_c1

theorem LoadCacheFrom_c2_pin (errnot_nil : Bool) :
    Gen.PersistSites.LoadCacheFrom_c2 errnot_nil = errnot_nil := by pin_tac Gen.PersistSites.LoadCacheFrom_c2

theorem LoadCacheFrom_c3_pin (errors_Is_err_io_EOF : Bool) :
    Gen.PersistSites.LoadCacheFrom_c3 errors_Is_err_io_EOF = errors_Is_err_io_EOF := by pin_tac Gen.PersistSites.LoadCacheFrom_c3

theorem LoadCacheFrom_c4_pin (c_cache_withExpiration : Bool) (entry_ExpiresAtNano : BitVec 64) (nowNano : BitVec 64) :
    Gen.PersistSites.LoadCacheFrom_c4 c_cache_withExpiration entry_ExpiresAtNano nowNano = (c_cache_withExpiration && (BitVec.sle entry_ExpiresAtNano nowNano)) := by pin_tac Gen.PersistSites.LoadCacheFrom_c4

theorem LoadCacheFrom_c5_pin (maximum2 : BitVec 64) (size : BitVec 64) :
    Gen.PersistSites.LoadCacheFrom_c5 maximum2 size = (BitVec.ule size maximum2) := by pin_tac Gen.PersistSites.LoadCacheFrom_c5

theorem LoadCacheFrom_c6_pin (maximum1 : BitVec 64) (size : BitVec 64) :
    Gen.PersistSites.LoadCacheFrom_c6 maximum1 size = (BitVec.ule size maximum1) := by pin_tac Gen.PersistSites.LoadCacheFrom_c6

theorem LoadCacheFrom_c7_pin (c_cache_withExpiration : Bool) (entry_ExpiresAtNano : BitVec 64) :
    Gen.PersistSites.LoadCacheFrom_c7 c_cache_withExpiration entry_ExpiresAtNano = (c_cache_withExpiration && (entry_ExpiresAtNano != (9223372036854775807#64))) := by pin_tac Gen.PersistSites.LoadCacheFrom_c7

theorem LoadCacheFrom_c8_pin (c_cache_withRefresh : Bool) (entry_RefreshableAtNano : BitVec 64) :
    Gen.PersistSites.LoadCacheFrom_c8 c_cache_withRefresh entry_RefreshableAtNano = (c_cache_withRefresh && (entry_RefreshableAtNano != (9223372036854775807#64))) := by pin_tac Gen.PersistSites.LoadCacheFrom_c8

theorem LoadCacheFrom_a2_pin (c_GetMaximum : BitVec 64) (savedMaximum : BitVec 64) :
    Gen.PersistSites.LoadCacheFrom_a2 c_GetMaximum savedMaximum = (OtterVerif.Bv.umin savedMaximum c_GetMaximum) := by pin_tac Gen.PersistSites.LoadCacheFrom_a2

theorem LoadCacheFrom_a3_pin (maximum : BitVec 64) :
    Gen.PersistSites.LoadCacheFrom_a3 maximum = (maximum / (4#64)) := by pin_tac Gen.PersistSites.LoadCacheFrom_a3

theorem LoadCacheFrom_a4_pin (maximum2 : BitVec 64) :
    Gen.PersistSites.LoadCacheFrom_a4 maximum2 = ((2#64) * maximum2) := by pin_tac Gen.PersistSites.LoadCacheFrom_a4

theorem LoadCacheFrom_a5_pin :
    Gen.PersistSites.LoadCacheFrom_a5  = (0#64) := by pin_tac Gen.PersistSites.LoadCacheFrom_a5

theorem LoadCacheFrom_a7_pin (c_cache_clock_NowNano : BitVec 64) :
    Gen.PersistSites.LoadCacheFrom_a7 c_cache_clock_NowNano = c_cache_clock_NowNano := by pin_tac Gen.PersistSites.LoadCacheFrom_a7

theorem LoadCacheFrom_u0_pin (entry_Weight : BitVec 32) (size : BitVec 64) :
    Gen.PersistSites.LoadCacheFrom_u0 entry_Weight size = (size + (BitVec.setWidth 64 entry_Weight)) := by pin_tac Gen.PersistSites.LoadCacheFrom_u0

theorem LoadCacheFrom_a8_pin (entry_ExpiresAtNano : BitVec 64) (nowNano : BitVec 64) :
    Gen.PersistSites.LoadCacheFrom_a8 entry_ExpiresAtNano nowNano = (OtterVerif.Bv.smax (1#64) (entry_ExpiresAtNano - nowNano)) := by pin_tac Gen.PersistSites.LoadCacheFrom_a8

theorem LoadCacheFrom_a9_pin (entry_RefreshableAtNano : BitVec 64) (nowNano : BitVec 64) :
    Gen.PersistSites.LoadCacheFrom_a9 entry_RefreshableAtNano nowNano = (OtterVerif.Bv.smax (1#64) (entry_RefreshableAtNano - nowNano)) := by pin_tac Gen.PersistSites.LoadCacheFrom_a9

theorem SaveCacheToFile_c0_pin (errnot_nil : Bool) :
    Gen.PersistSites.SaveCacheToFile_c0 errnot_nil = errnot_nil := by pin_tac Gen.PersistSites.SaveCacheToFile_c0

theorem SaveCacheToFile_c1_pin (os_IsNotExist_err : Bool) :
    Gen.PersistSites.SaveCacheToFile_c1 os_IsNotExist_err = (!os_IsNotExist_err) := by pin_tac Gen.PersistSites.SaveCacheToFile_c1

theorem SaveCacheToFile_c2_pin (errnot_nil : Bool) :
    Gen.PersistSites.SaveCacheToFile_c2 errnot_nil = errnot_nil := by pin_tac Gen.PersistSites.SaveCacheToFile_c2

theorem SaveCacheToFile_c3_pin (errnot_nil : Bool) :
    Gen.PersistSites.SaveCacheToFile_c3 errnot_nil = errnot_nil := by pin_tac Gen.PersistSites.SaveCacheToFile_c3

theorem SaveCacheTo_c0_pin (errnot_nil : Bool) :
    Gen.PersistSites.SaveCacheTo_c0 errnot_nil = errnot_nil := by pin_tac Gen.PersistSites.SaveCacheTo_c0

theorem SaveCacheTo_c1_pin (maximum : BitVec 64) (size : BitVec 64) :
    Gen.PersistSites.SaveCacheTo_c1 maximum size = (BitVec.ule maximum size) := by pin_tac Gen.PersistSites.SaveCacheTo_c1

theorem SaveCacheTo_c2_pin (errnot_nil : Bool) :
    Gen.PersistSites.SaveCacheTo_c2 errnot_nil = errnot_nil := by pin_tac Gen.PersistSites.SaveCacheTo_c2

theorem SaveCacheTo_a1_pin (c_GetMaximum : BitVec 64) :
    Gen.PersistSites.SaveCacheTo_a1 c_GetMaximum = c_GetMaximum := by pin_tac Gen.PersistSites.SaveCacheTo_a1

theorem SaveCacheTo_a3_pin :
    Gen.PersistSites.SaveCacheTo_a3  = (0#64) := by pin_tac Gen.PersistSites.SaveCacheTo_a3

theorem SaveCacheTo_u0_pin (entry_Weight : BitVec 32) (size : BitVec 64) :
    Gen.PersistSites.SaveCacheTo_u0 entry_Weight size = (size + (BitVec.setWidth 64 entry_Weight)) := by pin_tac Gen.PersistSites.SaveCacheTo_u0

theorem siteParams_pin : Gen.PersistSites.siteParams = [("LoadCacheFromFile_c0", ["errnot_nil"]),
  ("LoadCacheFrom_c0", ["errnot_nil"]),
  ("LoadCacheFrom_c1", ["maximum", "size"]),
  ("LoadCacheFrom_c2", ["errnot_nil"]),
  ("LoadCacheFrom_c3", ["errors_Is_err_io_EOF"]),
  ("LoadCacheFrom_c4", ["c_cache_withExpiration", "entry_ExpiresAtNano", "nowNano"]),
  ("LoadCacheFrom_c5", ["maximum2", "size"]),
  ("LoadCacheFrom_c6", ["maximum1", "size"]),
  ("LoadCacheFrom_c7", ["c_cache_withExpiration", "entry_ExpiresAtNano"]),
  ("LoadCacheFrom_c8", ["c_cache_withRefresh", "entry_RefreshableAtNano"]),
  ("LoadCacheFrom_a2", ["c_GetMaximum", "savedMaximum"]),
  ("LoadCacheFrom_a3", ["maximum"]),
  ("LoadCacheFrom_a4", ["maximum2"]),
  ("LoadCacheFrom_a5", []),
  ("LoadCacheFrom_a7", ["c_cache_clock_NowNano"]),
  ("LoadCacheFrom_u0", ["entry_Weight", "size"]),
  ("LoadCacheFrom_a8", ["entry_ExpiresAtNano", "nowNano"]),
  ("LoadCacheFrom_a9", ["entry_RefreshableAtNano", "nowNano"]),
  ("SaveCacheToFile_c0", ["errnot_nil"]),
  ("SaveCacheToFile_c1", ["os_IsNotExist_err"]),
  ("SaveCacheToFile_c2", ["errnot_nil"]),
  ("SaveCacheToFile_c3", ["errnot_nil"]),
  ("SaveCacheTo_c0", ["errnot_nil"]),
  ("SaveCacheTo_c1", ["maximum", "size"]),
  ("SaveCacheTo_c2", ["errnot_nil"]),
  ("SaveCacheTo_a1", ["c_GetMaximum"]),
  ("SaveCacheTo_a3", []),
  ("SaveCacheTo_u0", ["entry_Weight", "size"])] := by rfl

theorem shape_pin : Gen.PersistSites.shape = [("LoadCacheFromFile", [1, 0, 0, 2, 1, 0, 0]),
  ("LoadCacheFrom", [9, 1, 10, 3, 0, 0, 0]),
  ("SaveCacheToFile", [4, 0, 2, 4, 1, 0, 0]),
  ("SaveCacheTo", [3, 1, 5, 3, 0, 0, 0])] := by rfl

end OtterVerif.Pin.PersistSites
