/-
  Pin.StatsSites — HAND-OWNED (bootstrapped once by tools/mkpins.py, then reviewed): what every pure computation that
  the translator extracts into Gen.StatsSites is expected to mean.  Re-checked against the regenerated Gen.StatsSites on every
  run; a pin that no longer proves names the Go expression whose meaning changed.
-/
import OtterVerif.Gen.StatsSites

namespace OtterVerif.Pin.StatsSites
open OtterVerif OtterVerif.Gen.StatsSites

/-- `rfl` when the regenerated term is the recorded one; otherwise try to see through a harmless rewrite
    (operand order of commutative operators) -/
local macro "pin_tac" d:ident : tactic =>
  `(tactic| first
    | rfl
    | (simp only [$d:ident]; ac_rfl)
    | (simp [$d:ident, BitVec.add_comm, BitVec.and_comm, BitVec.or_comm, BitVec.xor_comm, BitVec.mul_comm, Bool.and_comm, Bool.or_comm]))

theorem h_saturatedAdd_pin (a : BitVec 64) (b : BitVec 64) :
    Gen.StatsSites.h_saturatedAdd a b = (
      let s : BitVec 64 := (a + b)
      if ((BitVec.ult s a) || (BitVec.ult s b)) then
        (18446744073709551615#64)
      else
      s) := by pin_tac Gen.StatsSites.h_saturatedAdd

theorem Counter_Snapshot_c0_pin (totalLoadTime : BitVec 64) :
    Gen.StatsSites.Counter_Snapshot_c0 totalLoadTime = (BitVec.ult (9223372036854775807#64) totalLoadTime) := by pin_tac Gen.StatsSites.Counter_Snapshot_c0

theorem Counter_Snapshot_a0_pin (c_totalLoadTime_Load : BitVec 64) :
    Gen.StatsSites.Counter_Snapshot_a0 c_totalLoadTime_Load = c_totalLoadTime_Load := by pin_tac Gen.StatsSites.Counter_Snapshot_a0

theorem Counter_Snapshot_a1_pin :
    Gen.StatsSites.Counter_Snapshot_a1  = (9223372036854775807#64) := by pin_tac Gen.StatsSites.Counter_Snapshot_a1

theorem Stats_Requests_r0_pin (s_Hits : BitVec 64) (s_Misses : BitVec 64) :
    Gen.StatsSites.Stats_Requests_r0 s_Hits s_Misses = (h_saturatedAdd s_Hits s_Misses) := by pin_tac Gen.StatsSites.Stats_Requests_r0

theorem Stats_HitRatio_c0_pin (requests : BitVec 64) :
    Gen.StatsSites.Stats_HitRatio_c0 requests = (requests == (0#64)) := by pin_tac Gen.StatsSites.Stats_HitRatio_c0

theorem Stats_HitRatio_a0_pin (s_Requests : BitVec 64) :
    Gen.StatsSites.Stats_HitRatio_a0 s_Requests = s_Requests := by pin_tac Gen.StatsSites.Stats_HitRatio_a0

theorem Stats_MissRatio_c0_pin (requests : BitVec 64) :
    Gen.StatsSites.Stats_MissRatio_c0 requests = (requests == (0#64)) := by pin_tac Gen.StatsSites.Stats_MissRatio_c0

theorem Stats_MissRatio_a0_pin (s_Requests : BitVec 64) :
    Gen.StatsSites.Stats_MissRatio_a0 s_Requests = s_Requests := by pin_tac Gen.StatsSites.Stats_MissRatio_a0

theorem Stats_Loads_r0_pin (s_LoadFailures : BitVec 64) (s_LoadSuccesses : BitVec 64) :
    Gen.StatsSites.Stats_Loads_r0 s_LoadFailures s_LoadSuccesses = (h_saturatedAdd s_LoadSuccesses s_LoadFailures) := by pin_tac Gen.StatsSites.Stats_Loads_r0

theorem Stats_LoadFailureRatio_c0_pin (loads : BitVec 64) :
    Gen.StatsSites.Stats_LoadFailureRatio_c0 loads = (loads == (0#64)) := by pin_tac Gen.StatsSites.Stats_LoadFailureRatio_c0

theorem Stats_LoadFailureRatio_a0_pin (s_Loads : BitVec 64) :
    Gen.StatsSites.Stats_LoadFailureRatio_a0 s_Loads = s_Loads := by pin_tac Gen.StatsSites.Stats_LoadFailureRatio_a0

theorem Stats_AverageLoadPenalty_c0_pin (loads : BitVec 64) :
    Gen.StatsSites.Stats_AverageLoadPenalty_c0 loads = (loads == (0#64)) := by pin_tac Gen.StatsSites.Stats_AverageLoadPenalty_c0

theorem Stats_AverageLoadPenalty_c1_pin (loads : BitVec 64) :
    Gen.StatsSites.Stats_AverageLoadPenalty_c1 loads = (BitVec.ult (9223372036854775807#64) loads) := by pin_tac Gen.StatsSites.Stats_AverageLoadPenalty_c1

theorem Stats_AverageLoadPenalty_a0_pin (s_Loads : BitVec 64) :
    Gen.StatsSites.Stats_AverageLoadPenalty_a0 s_Loads = s_Loads := by pin_tac Gen.StatsSites.Stats_AverageLoadPenalty_a0

theorem Stats_AverageLoadPenalty_r0_pin :
    Gen.StatsSites.Stats_AverageLoadPenalty_r0  = (0#64) := by pin_tac Gen.StatsSites.Stats_AverageLoadPenalty_r0

theorem Stats_AverageLoadPenalty_r1_pin (s_TotalLoadTime : BitVec 64) :
    Gen.StatsSites.Stats_AverageLoadPenalty_r1 s_TotalLoadTime = (BitVec.sdiv s_TotalLoadTime (9223372036854775807#64)) := by pin_tac Gen.StatsSites.Stats_AverageLoadPenalty_r1

theorem Stats_AverageLoadPenalty_r2_pin (loads : BitVec 64) (s_TotalLoadTime : BitVec 64) :
    Gen.StatsSites.Stats_AverageLoadPenalty_r2 loads s_TotalLoadTime = (BitVec.sdiv s_TotalLoadTime loads) := by pin_tac Gen.StatsSites.Stats_AverageLoadPenalty_r2

theorem Stats_Plus_a0_pin (xmath_SaturatedAdd_int64_s_TotalLoadTime__int64_other_TotalLoadTime : BitVec 64) :
    Gen.StatsSites.Stats_Plus_a0 xmath_SaturatedAdd_int64_s_TotalLoadTime__int64_other_TotalLoadTime = xmath_SaturatedAdd_int64_s_TotalLoadTime__int64_other_TotalLoadTime := by pin_tac Gen.StatsSites.Stats_Plus_a0

theorem saturatedAdd_c0_pin (a : BitVec 64) (b : BitVec 64) (s : BitVec 64) :
    Gen.StatsSites.saturatedAdd_c0 a b s = ((BitVec.ult s a) || (BitVec.ult s b)) := by pin_tac Gen.StatsSites.saturatedAdd_c0

theorem saturatedAdd_a0_pin (a : BitVec 64) (b : BitVec 64) :
    Gen.StatsSites.saturatedAdd_a0 a b = (a + b) := by pin_tac Gen.StatsSites.saturatedAdd_a0

theorem saturatedAdd_r0_pin :
    Gen.StatsSites.saturatedAdd_r0  = (18446744073709551615#64) := by pin_tac Gen.StatsSites.saturatedAdd_r0

theorem saturatedAdd_r1_pin (s : BitVec 64) :
    Gen.StatsSites.saturatedAdd_r1 s = s := by pin_tac Gen.StatsSites.saturatedAdd_r1

theorem siteParams_pin : Gen.StatsSites.siteParams = [("Counter_Snapshot_c0", ["totalLoadTime"]),
  ("Counter_Snapshot_a0", ["c_totalLoadTime_Load"]),
  ("Counter_Snapshot_a1", []),
  ("Stats_Requests_r0", ["s_Hits", "s_Misses"]),
  ("Stats_HitRatio_c0", ["requests"]),
  ("Stats_HitRatio_a0", ["s_Requests"]),
  ("Stats_MissRatio_c0", ["requests"]),
  ("Stats_MissRatio_a0", ["s_Requests"]),
  ("Stats_Loads_r0", ["s_LoadFailures", "s_LoadSuccesses"]),
  ("Stats_LoadFailureRatio_c0", ["loads"]),
  ("Stats_LoadFailureRatio_a0", ["s_Loads"]),
  ("Stats_AverageLoadPenalty_c0", ["loads"]),
  ("Stats_AverageLoadPenalty_c1", ["loads"]),
  ("Stats_AverageLoadPenalty_a0", ["s_Loads"]),
  ("Stats_AverageLoadPenalty_r0", []),
  ("Stats_AverageLoadPenalty_r1", ["s_TotalLoadTime"]),
  ("Stats_AverageLoadPenalty_r2", ["loads", "s_TotalLoadTime"]),
  ("Stats_Plus_a0", ["xmath_SaturatedAdd_int64_s_TotalLoadTime__int64_other_TotalLoadTime"]),
  ("saturatedAdd_c0", ["a", "b", "s"]),
  ("saturatedAdd_a0", ["a", "b"]),
  ("saturatedAdd_r0", []),
  ("saturatedAdd_r1", ["s"])] := by rfl

theorem shape_pin : Gen.StatsSites.shape = [("NewCounter", [0, 0, 0, 1, 0, 0, 0]),
  ("Counter_Snapshot", [1, 0, 2, 1, 0, 0, 0]),
  ("Counter_RecordHits", [0, 0, 0, 0, 0, 0, 0]),
  ("Counter_RecordMisses", [0, 0, 0, 0, 0, 0, 0]),
  ("Counter_RecordEviction", [0, 0, 0, 0, 0, 0, 0]),
  ("Counter_RecordLoadSuccess", [0, 0, 0, 0, 0, 0, 0]),
  ("Counter_RecordLoadFailure", [0, 0, 0, 0, 0, 0, 0]),
  ("Stats_Requests", [0, 0, 0, 1, 0, 0, 0]),
  ("Stats_HitRatio", [1, 0, 1, 2, 0, 0, 0]),
  ("Stats_MissRatio", [1, 0, 1, 2, 0, 0, 0]),
  ("Stats_Loads", [0, 0, 0, 1, 0, 0, 0]),
  ("Stats_LoadFailureRatio", [1, 0, 1, 2, 0, 0, 0]),
  ("Stats_AverageLoadPenalty", [2, 0, 1, 3, 0, 0, 0]),
  ("Stats_Minus", [0, 0, 0, 1, 0, 0, 0]),
  ("Stats_Plus", [0, 0, 1, 1, 0, 0, 0]),
  ("subtract", [1, 0, 0, 2, 0, 0, 0]),
  ("saturatedAdd", [1, 0, 1, 2, 0, 0, 0])] := by rfl

end OtterVerif.Pin.StatsSites
