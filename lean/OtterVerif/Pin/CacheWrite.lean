/-
  Pin.CacheWrite — HAND-OWNED (bootstrapped once by tools/mkpins.py, then reviewed): what every pure computation that
  the translator extracts into Gen.CacheWrite is expected to mean.  Re-checked against the regenerated Gen.CacheWrite on every
  run; a pin that no longer proves names the Go expression whose meaning changed.
-/
import OtterVerif.Gen.CacheWrite

namespace OtterVerif.Pin.CacheWrite
open OtterVerif OtterVerif.Gen.CacheWrite

/-- `rfl` when the regenerated term is the recorded one; otherwise try to see through a harmless rewrite
    (operand order of commutative operators) -/
local macro "pin_tac" d:ident : tactic =>
  `(tactic| first
    | rfl
    | (simp only [$d:ident]; ac_rfl)
    | (simp [$d:ident, BitVec.add_comm, BitVec.and_comm, BitVec.or_comm, BitVec.xor_comm, BitVec.mul_comm, Bool.and_comm, Bool.or_comm]))

theorem cache_set_c0_pin (oldVisible : Bool) (onlyIfAbsent : Bool) :
    Gen.CacheWrite.cache_set_c0 oldVisible onlyIfAbsent = (onlyIfAbsent && oldVisible) := by pin_tac Gen.CacheWrite.cache_set_c0

theorem cache_set_c1_pin (onlyIfAbsent : Bool) :
    Gen.CacheWrite.cache_set_c1 onlyIfAbsent = onlyIfAbsent := by pin_tac Gen.CacheWrite.cache_set_c1

theorem cache_set_c2_pin (oldVisible : Bool) :
    Gen.CacheWrite.cache_set_c2 oldVisible = (!oldVisible) := by pin_tac Gen.CacheWrite.cache_set_c2

theorem cache_set_c3_pin (oldVisible : Bool) :
    Gen.CacheWrite.cache_set_c3 oldVisible = oldVisible := by pin_tac Gen.CacheWrite.cache_set_c3

theorem cache_set_a0_pin (c_clock_NowNano : BitVec 64) :
    Gen.CacheWrite.cache_set_a0 c_clock_NowNano = c_clock_NowNano := by pin_tac Gen.CacheWrite.cache_set_a0

theorem cache_set_a3_pin (current_HasExpired_nowNano : Bool) (currentnot_nil : Bool) :
    Gen.CacheWrite.cache_set_a3 current_HasExpired_nowNano currentnot_nil = (currentnot_nil && (!current_HasExpired_nowNano)) := by pin_tac Gen.CacheWrite.cache_set_a3

theorem cache_atomicSet_c0_pin (cl__nil : Bool) :
    Gen.CacheWrite.cache_atomicSet_c0 cl__nil = cl__nil := by pin_tac Gen.CacheWrite.cache_atomicSet_c0

theorem cache_atomicSet_c1_pin (prev_HasExpired_nowNano : Bool) (prevnot_nil : Bool) :
    Gen.CacheWrite.cache_atomicSet_c1 prev_HasExpired_nowNano prevnot_nil = (prevnot_nil && prev_HasExpired_nowNano) := by pin_tac Gen.CacheWrite.cache_atomicSet_c1

theorem cache_atomicSet_c2_pin (oldnot_nil : Bool) :
    Gen.CacheWrite.cache_atomicSet_c2 oldnot_nil = oldnot_nil := by pin_tac Gen.CacheWrite.cache_atomicSet_c2

theorem cache_atomicSet_a4_pin (cause : BitVec 64) :
    Gen.CacheWrite.cache_atomicSet_a4 cause = cause := by pin_tac Gen.CacheWrite.cache_atomicSet_a4

theorem cache_atomicDelete_c0_pin (cl__nil : Bool) :
    Gen.CacheWrite.cache_atomicDelete_c0 cl__nil = cl__nil := by pin_tac Gen.CacheWrite.cache_atomicDelete_c0

theorem cache_atomicDelete_c1_pin (oldnot_nil : Bool) :
    Gen.CacheWrite.cache_atomicDelete_c1 oldnot_nil = oldnot_nil := by pin_tac Gen.CacheWrite.cache_atomicDelete_c1

theorem cache_atomicDelete_a1_pin (cause : BitVec 64) :
    Gen.CacheWrite.cache_atomicDelete_a1 cause = cause := by pin_tac Gen.CacheWrite.cache_atomicDelete_a1

theorem cache_ComputeIfAbsent_c0_pin (nnot_nil : Bool) :
    Gen.CacheWrite.cache_ComputeIfAbsent_c0 nnot_nil = nnot_nil := by pin_tac Gen.CacheWrite.cache_ComputeIfAbsent_c0

theorem cache_ComputeIfAbsent_c1_pin (found : Bool) :
    Gen.CacheWrite.cache_ComputeIfAbsent_c1 found = found := by pin_tac Gen.CacheWrite.cache_ComputeIfAbsent_c1

theorem cache_ComputeIfAbsent_c2_pin (cancel : Bool) :
    Gen.CacheWrite.cache_ComputeIfAbsent_c2 cancel = cancel := by pin_tac Gen.CacheWrite.cache_ComputeIfAbsent_c2

theorem cache_ComputeIfAbsent_a0_pin (c_clock_NowNano : BitVec 64) :
    Gen.CacheWrite.cache_ComputeIfAbsent_a0 c_clock_NowNano = c_clock_NowNano := by pin_tac Gen.CacheWrite.cache_ComputeIfAbsent_a0

theorem cache_ComputeIfPresent_c0_pin (n__nil : Bool) :
    Gen.CacheWrite.cache_ComputeIfPresent_c0 n__nil = n__nil := by pin_tac Gen.CacheWrite.cache_ComputeIfPresent_c0

theorem cache_ComputeIfPresent_c1_pin (found : Bool) :
    Gen.CacheWrite.cache_ComputeIfPresent_c1 found = found := by pin_tac Gen.CacheWrite.cache_ComputeIfPresent_c1

theorem cache_ComputeIfPresent_a0_pin (c_clock_NowNano : BitVec 64) :
    Gen.CacheWrite.cache_ComputeIfPresent_a0 c_clock_NowNano = c_clock_NowNano := by pin_tac Gen.CacheWrite.cache_ComputeIfPresent_a0

theorem cache_doCompute_c0_pin (oldNode_HasExpired_nowNano : Bool) (oldNodenot_nil : Bool) :
    Gen.CacheWrite.cache_doCompute_c0 oldNode_HasExpired_nowNano oldNodenot_nil = (oldNodenot_nil && (!oldNode_HasExpired_nowNano)) := by pin_tac Gen.CacheWrite.cache_doCompute_c0

theorem cache_doCompute_c1_pin (rnot_nil : Bool) :
    Gen.CacheWrite.cache_doCompute_c1 rnot_nil = rnot_nil := by pin_tac Gen.CacheWrite.cache_doCompute_c1

theorem cache_doCompute_c2_pin (panicErrnot_nil : Bool) :
    Gen.CacheWrite.cache_doCompute_c2 panicErrnot_nil = panicErrnot_nil := by pin_tac Gen.CacheWrite.cache_doCompute_c2

theorem cache_doCompute_c3_pin (op : BitVec 64) :
    Gen.CacheWrite.cache_doCompute_c3 op = (op == (0#64)) := by pin_tac Gen.CacheWrite.cache_doCompute_c3

theorem cache_doCompute_c4_pin (oldNode_HasExpired_nowNano : Bool) (oldNodenot_nil : Bool) :
    Gen.CacheWrite.cache_doCompute_c4 oldNode_HasExpired_nowNano oldNodenot_nil = (oldNodenot_nil && oldNode_HasExpired_nowNano) := by pin_tac Gen.CacheWrite.cache_doCompute_c4

theorem cache_doCompute_c5_pin (op : BitVec 64) :
    Gen.CacheWrite.cache_doCompute_c5 op = (op == (1#64)) := by pin_tac Gen.CacheWrite.cache_doCompute_c5

theorem cache_doCompute_c6_pin (op : BitVec 64) :
    Gen.CacheWrite.cache_doCompute_c6 op = (op == (2#64)) := by pin_tac Gen.CacheWrite.cache_doCompute_c6

theorem cache_doCompute_c7_pin (panicErrnot_nil : Bool) :
    Gen.CacheWrite.cache_doCompute_c7 panicErrnot_nil = panicErrnot_nil := by pin_tac Gen.CacheWrite.cache_doCompute_c7

theorem cache_doCompute_c8_pin (notValidOp : Bool) :
    Gen.CacheWrite.cache_doCompute_c8 notValidOp = notValidOp := by pin_tac Gen.CacheWrite.cache_doCompute_c8

theorem cache_doCompute_c9_pin (recordStats : Bool) :
    Gen.CacheWrite.cache_doCompute_c9 recordStats = recordStats := by pin_tac Gen.CacheWrite.cache_doCompute_c9

theorem cache_doCompute_c10_pin (old_HasExpired_nowNano : Bool) (oldnot_nil : Bool) :
    Gen.CacheWrite.cache_doCompute_c10 old_HasExpired_nowNano oldnot_nil = (oldnot_nil && (!old_HasExpired_nowNano)) := by pin_tac Gen.CacheWrite.cache_doCompute_c10

theorem cache_doCompute_c11_pin (computedNode__nil : Bool) :
    Gen.CacheWrite.cache_doCompute_c11 computedNode__nil = computedNode__nil := by pin_tac Gen.CacheWrite.cache_doCompute_c11

theorem cache_doCompute_c12_pin (computedNode__nil : Bool) :
    Gen.CacheWrite.cache_doCompute_c12 computedNode__nil = computedNode__nil := by pin_tac Gen.CacheWrite.cache_doCompute_c12

theorem cache_doCompute_s0_pin (op : BitVec 64) :
    Gen.CacheWrite.cache_doCompute_s0 op = (op == (0#64)) := by pin_tac Gen.CacheWrite.cache_doCompute_s0

theorem cache_doCompute_s1_pin (op : BitVec 64) :
    Gen.CacheWrite.cache_doCompute_s1 op = (op == (1#64)) := by pin_tac Gen.CacheWrite.cache_doCompute_s1

theorem cache_doCompute_s2_pin (op : BitVec 64) :
    Gen.CacheWrite.cache_doCompute_s2 op = (op == (2#64)) := by pin_tac Gen.CacheWrite.cache_doCompute_s2

theorem cache_doCompute_a2_pin :
    Gen.CacheWrite.cache_doCompute_a2  = true := by pin_tac Gen.CacheWrite.cache_doCompute_a2

theorem cache_doCompute_a6_pin :
    Gen.CacheWrite.cache_doCompute_a6  = true := by pin_tac Gen.CacheWrite.cache_doCompute_a6

theorem cache_afterWrite_c0_pin (c_withMaintenance : Bool) :
    Gen.CacheWrite.cache_afterWrite_c0 c_withMaintenance = (!c_withMaintenance) := by pin_tac Gen.CacheWrite.cache_afterWrite_c0

theorem cache_afterWrite_c1_pin (oldnot_nil : Bool) :
    Gen.CacheWrite.cache_afterWrite_c1 oldnot_nil = oldnot_nil := by pin_tac Gen.CacheWrite.cache_afterWrite_c1

theorem cache_afterWrite_c2_pin (old__nil : Bool) :
    Gen.CacheWrite.cache_afterWrite_c2 old__nil = old__nil := by pin_tac Gen.CacheWrite.cache_afterWrite_c2

theorem cache_Invalidate_c0_pin (d_HasExpired_nowNano : Bool) (dnot_nil : Bool) :
    Gen.CacheWrite.cache_Invalidate_c0 d_HasExpired_nowNano dnot_nil = (dnot_nil && (!d_HasExpired_nowNano)) := by pin_tac Gen.CacheWrite.cache_Invalidate_c0

theorem cache_Invalidate_a0_pin (c_clock_NowNano : BitVec 64) :
    Gen.CacheWrite.cache_Invalidate_a0 c_clock_NowNano = c_clock_NowNano := by pin_tac Gen.CacheWrite.cache_Invalidate_a0

theorem cache_deleteNodeFromMap_c0_pin (current__nil : Bool) :
    Gen.CacheWrite.cache_deleteNodeFromMap_c0 current__nil = current__nil := by pin_tac Gen.CacheWrite.cache_deleteNodeFromMap_c0

theorem cache_afterDelete_c0_pin (deleted__nil : Bool) :
    Gen.CacheWrite.cache_afterDelete_c0 deleted__nil = deleted__nil := by pin_tac Gen.CacheWrite.cache_afterDelete_c0

theorem cache_afterDelete_c1_pin (c_withMaintenance : Bool) :
    Gen.CacheWrite.cache_afterDelete_c1 c_withMaintenance = (!c_withMaintenance) := by pin_tac Gen.CacheWrite.cache_afterDelete_c1

theorem cache_afterDelete_c2_pin (alreadyLocked : Bool) :
    Gen.CacheWrite.cache_afterDelete_c2 alreadyLocked = alreadyLocked := by pin_tac Gen.CacheWrite.cache_afterDelete_c2

theorem cache_notifyDeletion_c0_pin (c_onDeletion__nil : Bool) :
    Gen.CacheWrite.cache_notifyDeletion_c0 c_onDeletion__nil = c_onDeletion__nil := by pin_tac Gen.CacheWrite.cache_notifyDeletion_c0

theorem cache_notifyAtomicDeletion_c0_pin (c_onAtomicDeletion__nil : Bool) :
    Gen.CacheWrite.cache_notifyAtomicDeletion_c0 c_onAtomicDeletion__nil = c_onAtomicDeletion__nil := by pin_tac Gen.CacheWrite.cache_notifyAtomicDeletion_c0

theorem cache_evictNode_c0_pin (n_HasExpired_nowNanos : Bool) :
    Gen.CacheWrite.cache_evictNode_c0 n_HasExpired_nowNanos = n_HasExpired_nowNanos := by pin_tac Gen.CacheWrite.cache_evictNode_c0

theorem cache_evictNode_c1_pin (c_withEviction : Bool) :
    Gen.CacheWrite.cache_evictNode_c1 c_withEviction = c_withEviction := by pin_tac Gen.CacheWrite.cache_evictNode_c1

theorem cache_evictNode_c2_pin (c_withExpiration : Bool) :
    Gen.CacheWrite.cache_evictNode_c2 c_withExpiration = c_withExpiration := by pin_tac Gen.CacheWrite.cache_evictNode_c2

theorem cache_evictNode_c3_pin (deleted : Bool) :
    Gen.CacheWrite.cache_evictNode_c3 deleted = deleted := by pin_tac Gen.CacheWrite.cache_evictNode_c3

theorem cache_evictNode_a0_pin :
    Gen.CacheWrite.cache_evictNode_a0  = (3#64) := by pin_tac Gen.CacheWrite.cache_evictNode_a0

theorem cache_evictNode_a1_pin :
    Gen.CacheWrite.cache_evictNode_a1  = (4#64) := by pin_tac Gen.CacheWrite.cache_evictNode_a1

theorem cache_evictNode_a2_pin (deletedNodenot_nil : Bool) :
    Gen.CacheWrite.cache_evictNode_a2 deletedNodenot_nil = deletedNodenot_nil := by pin_tac Gen.CacheWrite.cache_evictNode_a2

theorem cache_InvalidateAll_c0_pin (c_withMaintenance : Bool) :
    Gen.CacheWrite.cache_InvalidateAll_c0 c_withMaintenance = c_withMaintenance := by pin_tac Gen.CacheWrite.cache_InvalidateAll_c0

theorem cache_InvalidateAll_c1_pin (t__nil : Bool) :
    Gen.CacheWrite.cache_InvalidateAll_c1 t__nil = t__nil := by pin_tac Gen.CacheWrite.cache_InvalidateAll_c1

theorem cache_InvalidateAll_c2_pin (c_writeBuffer_Size : BitVec 64) (len_nodes : BitVec 64) (threshold : BitVec 64) :
    Gen.CacheWrite.cache_InvalidateAll_c2 c_writeBuffer_Size len_nodes threshold = ((BitVec.slt (0#64) len_nodes) && (BitVec.ult c_writeBuffer_Size threshold)) := by pin_tac Gen.CacheWrite.cache_InvalidateAll_c2

theorem cache_InvalidateAll_x0_pin (len_nodes : BitVec 64) :
    Gen.CacheWrite.cache_InvalidateAll_x0 len_nodes = (len_nodes - (1#64)) := by pin_tac Gen.CacheWrite.cache_InvalidateAll_x0

theorem cache_InvalidateAll_a2_pin (maxWriteBufferSize : BitVec 32) :
    Gen.CacheWrite.cache_InvalidateAll_a2 maxWriteBufferSize = (BitVec.setWidth 64 (maxWriteBufferSize / (2#32))) := by pin_tac Gen.CacheWrite.cache_InvalidateAll_a2

theorem cache_InvalidateAll_a4_pin (c_clock_NowNano : BitVec 64) :
    Gen.CacheWrite.cache_InvalidateAll_a4 c_clock_NowNano = c_clock_NowNano := by pin_tac Gen.CacheWrite.cache_InvalidateAll_a4

theorem cache_runTask_c0_pin (t__nil : Bool) :
    Gen.CacheWrite.cache_runTask_c0 t__nil = t__nil := by pin_tac Gen.CacheWrite.cache_runTask_c0

theorem cache_runTask_c1_pin (c_withExpiration : Bool) (n_IsAlive : Bool) :
    Gen.CacheWrite.cache_runTask_c1 c_withExpiration n_IsAlive = (c_withExpiration && n_IsAlive) := by pin_tac Gen.CacheWrite.cache_runTask_c1

theorem cache_runTask_c2_pin (c_withEviction : Bool) :
    Gen.CacheWrite.cache_runTask_c2 c_withEviction = c_withEviction := by pin_tac Gen.CacheWrite.cache_runTask_c2

theorem cache_runTask_c3_pin (c_withExpiration : Bool) :
    Gen.CacheWrite.cache_runTask_c3 c_withExpiration = c_withExpiration := by pin_tac Gen.CacheWrite.cache_runTask_c3

theorem cache_runTask_c4_pin (n_IsAlive : Bool) :
    Gen.CacheWrite.cache_runTask_c4 n_IsAlive = n_IsAlive := by pin_tac Gen.CacheWrite.cache_runTask_c4

theorem cache_runTask_c5_pin (c_withEviction : Bool) :
    Gen.CacheWrite.cache_runTask_c5 c_withEviction = c_withEviction := by pin_tac Gen.CacheWrite.cache_runTask_c5

theorem cache_runTask_c6_pin (c_withExpiration : Bool) :
    Gen.CacheWrite.cache_runTask_c6 c_withExpiration = c_withExpiration := by pin_tac Gen.CacheWrite.cache_runTask_c6

theorem cache_runTask_c7_pin (c_withEviction : Bool) :
    Gen.CacheWrite.cache_runTask_c7 c_withEviction = c_withEviction := by pin_tac Gen.CacheWrite.cache_runTask_c7

theorem cache_runTask_s0_pin (t_writeReason : BitVec 8) :
    Gen.CacheWrite.cache_runTask_s0 t_writeReason = (t_writeReason == (1#8)) := by pin_tac Gen.CacheWrite.cache_runTask_s0

theorem cache_runTask_s1_pin (t_writeReason : BitVec 8) :
    Gen.CacheWrite.cache_runTask_s1 t_writeReason = (t_writeReason == (3#8)) := by pin_tac Gen.CacheWrite.cache_runTask_s1

theorem cache_runTask_s2_pin (t_writeReason : BitVec 8) :
    Gen.CacheWrite.cache_runTask_s2 t_writeReason = (t_writeReason == (2#8)) := by pin_tac Gen.CacheWrite.cache_runTask_s2

theorem cache_getTask_c0_pin (ok : Bool) :
    Gen.CacheWrite.cache_getTask_c0 ok = (!ok) := by pin_tac Gen.CacheWrite.cache_getTask_c0

theorem cache_getTask_a2_pin (writeReason : BitVec 8) :
    Gen.CacheWrite.cache_getTask_a2 writeReason = writeReason := by pin_tac Gen.CacheWrite.cache_getTask_a2

theorem cache_getTask_a3_pin (cause : BitVec 64) :
    Gen.CacheWrite.cache_getTask_a3 cause = cause := by pin_tac Gen.CacheWrite.cache_getTask_a3

theorem cache_putTask_a2_pin :
    Gen.CacheWrite.cache_putTask_a2  = (0#8) := by pin_tac Gen.CacheWrite.cache_putTask_a2

theorem cache_putTask_a3_pin :
    Gen.CacheWrite.cache_putTask_a3  = (0#64) := by pin_tac Gen.CacheWrite.cache_putTask_a3

theorem cache_makeRetired_c0_pin (c_withMaintenance : Bool) (n_IsAlive : Bool) (nnot_nil : Bool) :
    Gen.CacheWrite.cache_makeRetired_c0 c_withMaintenance n_IsAlive nnot_nil = ((nnot_nil && c_withMaintenance) && n_IsAlive) := by pin_tac Gen.CacheWrite.cache_makeRetired_c0

theorem cache_makeDead_c0_pin (c_withMaintenance : Bool) :
    Gen.CacheWrite.cache_makeDead_c0 c_withMaintenance = (!c_withMaintenance) := by pin_tac Gen.CacheWrite.cache_makeDead_c0

theorem cache_makeDead_c1_pin (c_withEviction : Bool) :
    Gen.CacheWrite.cache_makeDead_c1 c_withEviction = c_withEviction := by pin_tac Gen.CacheWrite.cache_makeDead_c1

theorem cache_makeDead_c2_pin (n_IsDead : Bool) :
    Gen.CacheWrite.cache_makeDead_c2 n_IsDead = (!n_IsDead) := by pin_tac Gen.CacheWrite.cache_makeDead_c2

theorem cache_onAccess_c0_pin (c_withEviction : Bool) :
    Gen.CacheWrite.cache_onAccess_c0 c_withEviction = c_withEviction := by pin_tac Gen.CacheWrite.cache_onAccess_c0

theorem cache_onAccess_c1_pin (c_withExpiration : Bool) (node_Equals_n_NextExp___nil : Bool) :
    Gen.CacheWrite.cache_onAccess_c1 c_withExpiration node_Equals_n_NextExp___nil = (c_withExpiration && (!node_Equals_n_NextExp___nil)) := by pin_tac Gen.CacheWrite.cache_onAccess_c1

theorem cache_onAccess_c2_pin (n_IsAlive : Bool) :
    Gen.CacheWrite.cache_onAccess_c2 n_IsAlive = n_IsAlive := by pin_tac Gen.CacheWrite.cache_onAccess_c2

theorem cache_expireNodes_c0_pin (c_withExpiration : Bool) :
    Gen.CacheWrite.cache_expireNodes_c0 c_withExpiration = c_withExpiration := by pin_tac Gen.CacheWrite.cache_expireNodes_c0

theorem cache_evictNodes_c0_pin (c_withEviction : Bool) :
    Gen.CacheWrite.cache_evictNodes_c0 c_withEviction = (!c_withEviction) := by pin_tac Gen.CacheWrite.cache_evictNodes_c0

theorem cache_climb_c0_pin (c_withEviction : Bool) :
    Gen.CacheWrite.cache_climb_c0 c_withEviction = (!c_withEviction) := by pin_tac Gen.CacheWrite.cache_climb_c0

theorem siteParams_pin : Gen.CacheWrite.siteParams = [("cache_set_c0", ["oldVisible", "onlyIfAbsent"]),
  ("cache_set_c1", ["onlyIfAbsent"]),
  ("cache_set_c2", ["oldVisible"]),
  ("cache_set_c3", ["oldVisible"]),
  ("cache_set_a0", ["c_clock_NowNano"]),
  ("cache_set_a3", ["current_HasExpired_nowNano", "currentnot_nil"]),
  ("cache_atomicSet_c0", ["cl__nil"]),
  ("cache_atomicSet_c1", ["prev_HasExpired_nowNano", "prevnot_nil"]),
  ("cache_atomicSet_c2", ["oldnot_nil"]),
  ("cache_atomicSet_a4", ["cause"]),
  ("cache_atomicDelete_c0", ["cl__nil"]),
  ("cache_atomicDelete_c1", ["oldnot_nil"]),
  ("cache_atomicDelete_a1", ["cause"]),
  ("cache_ComputeIfAbsent_c0", ["nnot_nil"]),
  ("cache_ComputeIfAbsent_c1", ["found"]),
  ("cache_ComputeIfAbsent_c2", ["cancel"]),
  ("cache_ComputeIfAbsent_a0", ["c_clock_NowNano"]),
  ("cache_ComputeIfPresent_c0", ["n__nil"]),
  ("cache_ComputeIfPresent_c1", ["found"]),
  ("cache_ComputeIfPresent_a0", ["c_clock_NowNano"]),
  ("cache_doCompute_c0", ["oldNode_HasExpired_nowNano", "oldNodenot_nil"]),
  ("cache_doCompute_c1", ["rnot_nil"]),
  ("cache_doCompute_c2", ["panicErrnot_nil"]),
  ("cache_doCompute_c3", ["op"]),
  ("cache_doCompute_c4", ["oldNode_HasExpired_nowNano", "oldNodenot_nil"]),
  ("cache_doCompute_c5", ["op"]),
  ("cache_doCompute_c6", ["op"]),
  ("cache_doCompute_c7", ["panicErrnot_nil"]),
  ("cache_doCompute_c8", ["notValidOp"]),
  ("cache_doCompute_c9", ["recordStats"]),
  ("cache_doCompute_c10", ["old_HasExpired_nowNano", "oldnot_nil"]),
  ("cache_doCompute_c11", ["computedNode__nil"]),
  ("cache_doCompute_c12", ["computedNode__nil"]),
  ("cache_doCompute_s0", ["op"]),
  ("cache_doCompute_s1", ["op"]),
  ("cache_doCompute_s2", ["op"]),
  ("cache_doCompute_a2", []),
  ("cache_doCompute_a6", []),
  ("cache_afterWrite_c0", ["c_withMaintenance"]),
  ("cache_afterWrite_c1", ["oldnot_nil"]),
  ("cache_afterWrite_c2", ["old__nil"]),
  ("cache_Invalidate_c0", ["d_HasExpired_nowNano", "dnot_nil"]),
  ("cache_Invalidate_a0", ["c_clock_NowNano"]),
  ("cache_deleteNodeFromMap_c0", ["current__nil"]),
  ("cache_afterDelete_c0", ["deleted__nil"]),
  ("cache_afterDelete_c1", ["c_withMaintenance"]),
  ("cache_afterDelete_c2", ["alreadyLocked"]),
  ("cache_notifyDeletion_c0", ["c_onDeletion__nil"]),
  ("cache_notifyAtomicDeletion_c0", ["c_onAtomicDeletion__nil"]),
  ("cache_evictNode_c0", ["n_HasExpired_nowNanos"]),
  ("cache_evictNode_c1", ["c_withEviction"]),
  ("cache_evictNode_c2", ["c_withExpiration"]),
  ("cache_evictNode_c3", ["deleted"]),
  ("cache_evictNode_a0", []),
  ("cache_evictNode_a1", []),
  ("cache_evictNode_a2", ["deletedNodenot_nil"]),
  ("cache_InvalidateAll_c0", ["c_withMaintenance"]),
  ("cache_InvalidateAll_c1", ["t__nil"]),
  ("cache_InvalidateAll_c2", ["c_writeBuffer_Size", "len_nodes", "threshold"]),
  ("cache_InvalidateAll_x0", ["len_nodes"]),
  ("cache_InvalidateAll_a2", ["maxWriteBufferSize"]),
  ("cache_InvalidateAll_a4", ["c_clock_NowNano"]),
  ("cache_runTask_c0", ["t__nil"]),
  ("cache_runTask_c1", ["c_withExpiration", "n_IsAlive"]),
  ("cache_runTask_c2", ["c_withEviction"]),
  ("cache_runTask_c3", ["c_withExpiration"]),
  ("cache_runTask_c4", ["n_IsAlive"]),
  ("cache_runTask_c5", ["c_withEviction"]),
  ("cache_runTask_c6", ["c_withExpiration"]),
  ("cache_runTask_c7", ["c_withEviction"]),
  ("cache_runTask_s0", ["t_writeReason"]),
  ("cache_runTask_s1", ["t_writeReason"]),
  ("cache_runTask_s2", ["t_writeReason"]),
  ("cache_getTask_c0", ["ok"]),
  ("cache_getTask_a2", ["writeReason"]),
  ("cache_getTask_a3", ["cause"]),
  ("cache_putTask_a2", []),
  ("cache_putTask_a3", []),
  ("cache_makeRetired_c0", ["c_withMaintenance", "n_IsAlive", "nnot_nil"]),
  ("cache_makeDead_c0", ["c_withMaintenance"]),
  ("cache_makeDead_c1", ["c_withEviction"]),
  ("cache_makeDead_c2", ["n_IsDead"]),
  ("cache_onAccess_c0", ["c_withEviction"]),
  ("cache_onAccess_c1", ["c_withExpiration", "node_Equals_n_NextExp___nil"]),
  ("cache_onAccess_c2", ["n_IsAlive"]),
  ("cache_expireNodes_c0", ["c_withExpiration"]),
  ("cache_evictNodes_c0", ["c_withEviction"]),
  ("cache_climb_c0", ["c_withEviction"])] := by rfl

theorem shape_pin : Gen.CacheWrite.shape = [("cache_Set", [0, 0, 0, 1, 0, 0, 0]),
  ("cache_SetIfAbsent", [0, 0, 0, 1, 0, 0, 0]),
  ("cache_set", [4, 0, 4, 0, 0, 0, 0]),
  ("cache_atomicSet", [3, 0, 5, 1, 0, 0, 0]),
  ("cache_atomicDelete", [2, 0, 2, 1, 0, 0, 0]),
  ("cache_Compute", [0, 0, 0, 1, 0, 0, 0]),
  ("cache_ComputeIfAbsent", [3, 0, 2, 1, 0, 0, 0]),
  ("cache_ComputeIfPresent", [2, 0, 2, 1, 0, 0, 0]),
  ("cache_doCompute", [13, 0, 7, 0, 1, 0, 3]),
  ("cache_afterWrite", [3, 0, 0, 0, 0, 0, 0]),
  ("cache_Invalidate", [1, 0, 2, 0, 0, 0, 0]),
  ("cache_deleteNodeFromMap", [2, 0, 2, 0, 0, 0, 0]),
  ("cache_deleteNode", [0, 0, 0, 0, 0, 0, 0]),
  ("cache_afterDelete", [3, 0, 1, 0, 0, 0, 0]),
  ("cache_notifyDeletion", [1, 0, 0, 0, 0, 0, 0]),
  ("cache_notifyAtomicDeletion", [1, 0, 0, 0, 0, 0, 0]),
  ("cache_evictNode", [4, 0, 3, 0, 0, 0, 0]),
  ("cache_evictNodeBySize", [0, 0, 0, 0, 0, 0, 0]),
  ("cache_InvalidateAll", [3, 0, 7, 0, 0, 1, 0]),
  ("cache_runTask", [8, 0, 2, 0, 0, 0, 3]),
  ("cache_getTask", [1, 0, 4, 2, 0, 0, 0]),
  ("cache_putTask", [0, 0, 4, 0, 0, 0, 0]),
  ("cache_makeRetired", [1, 0, 0, 0, 0, 0, 0]),
  ("cache_makeDead", [3, 0, 0, 0, 0, 0, 0]),
  ("cache_onAccess", [3, 0, 0, 0, 0, 0, 0]),
  ("cache_expireNodes", [1, 0, 0, 0, 0, 0, 0]),
  ("cache_evictNodes", [1, 0, 0, 0, 0, 0, 0]),
  ("cache_climb", [1, 0, 0, 0, 0, 0, 0])] := by rfl

end OtterVerif.Pin.CacheWrite
