/-
  Pin.Wheel — HAND-OWNED (bootstrapped once by tools/mkpins.py, then reviewed): what every pure computation that
  the translator extracts into Gen.Wheel is expected to mean.  Re-checked against the regenerated Gen.Wheel on every
  run; a pin that no longer proves names the Go expression whose meaning changed.
-/
import OtterVerif.Gen.Wheel

namespace OtterVerif.Pin.Wheel
open OtterVerif OtterVerif.Gen.Wheel

/-- `rfl` when the regenerated term is the recorded one; otherwise try to see through a harmless rewrite
    (operand order of commutative operators) -/
local macro "pin_tac" d:ident : tactic =>
  `(tactic| first
    | rfl
    | (simp only [$d:ident]; ac_rfl)
    | (simp [$d:ident, BitVec.add_comm, BitVec.and_comm, BitVec.or_comm, BitVec.xor_comm, BitVec.mul_comm, Bool.and_comm, Bool.or_comm]))

theorem wheelTime_pin (nanos : BitVec 64) :
    Gen.Wheel.wheelTime nanos = (nanos ^^^ (9223372036854775808#64)) := by pin_tac Gen.Wheel.wheelTime

theorem clockTime_pin (t : BitVec 64) :
    Gen.Wheel.clockTime t = (t ^^^ (9223372036854775808#64)) := by pin_tac Gen.Wheel.clockTime

theorem fb_due_pin (expiration : BitVec 64) (v_time : BitVec 64) :
    Gen.Wheel.fb_due expiration v_time = (BitVec.ult expiration v_time) := by pin_tac Gen.Wheel.fb_due

theorem fb_clamped_pin (v_time : BitVec 64) :
    Gen.Wheel.fb_clamped v_time = v_time := by pin_tac Gen.Wheel.fb_clamped

theorem fb_duration_pin (expiration : BitVec 64) (v_time : BitVec 64) :
    Gen.Wheel.fb_duration expiration v_time = (expiration - v_time) := by pin_tac Gen.Wheel.fb_duration

theorem fb_length_pin (len_v_wheel : BitVec 64) :
    Gen.Wheel.fb_length len_v_wheel = (len_v_wheel - (1#64)) := by pin_tac Gen.Wheel.fb_length

theorem fb_loop_pin (i : BitVec 64) (length : BitVec 64) :
    Gen.Wheel.fb_loop i length = (BitVec.slt i length) := by pin_tac Gen.Wheel.fb_loop

theorem fb_fits_pin (duration : BitVec 64) (i : BitVec 64) :
    Gen.Wheel.fb_fits duration i = (BitVec.ult duration (OtterVerif.Bv.tbl OtterVerif.Gen.Wheel.spans (i + (1#64)))) := by pin_tac Gen.Wheel.fb_fits

theorem fb_ticks_pin (expiration : BitVec 64) (i : BitVec 64) :
    Gen.Wheel.fb_ticks expiration i = (expiration >>> (OtterVerif.Bv.tbl OtterVerif.Gen.Wheel.shift i).toNat) := by pin_tac Gen.Wheel.fb_ticks

theorem fb_index_pin (i : BitVec 64) (ticks : BitVec 64) :
    Gen.Wheel.fb_index i ticks = (ticks &&& ((OtterVerif.Bv.tbl OtterVerif.Gen.Wheel.buckets i) - (1#64))) := by pin_tac Gen.Wheel.fb_index

theorem add_arg_pin (n_ExpiresAt : BitVec 64) :
    Gen.Wheel.add_arg n_ExpiresAt = (OtterVerif.Gen.Wheel.wheelTime n_ExpiresAt) := by pin_tac Gen.Wheel.add_arg

theorem de_currentTime_pin (nowNanos : BitVec 64) :
    Gen.Wheel.de_currentTime nowNanos = (OtterVerif.Gen.Wheel.wheelTime nowNanos) := by pin_tac Gen.Wheel.de_currentTime

theorem de_loop_pin (i : BitVec 64) :
    Gen.Wheel.de_loop i = (BitVec.slt i (OtterVerif.Bv.tblLen OtterVerif.Gen.Wheel.shift)) := by pin_tac Gen.Wheel.de_loop

theorem de_previousTicks_pin (i : BitVec 64) (prevTime : BitVec 64) :
    Gen.Wheel.de_previousTicks i prevTime = (prevTime >>> (OtterVerif.Bv.tbl OtterVerif.Gen.Wheel.shift i).toNat) := by pin_tac Gen.Wheel.de_previousTicks

theorem de_currentTicks_pin (currentTime : BitVec 64) (i : BitVec 64) :
    Gen.Wheel.de_currentTicks currentTime i = (currentTime >>> (OtterVerif.Bv.tbl OtterVerif.Gen.Wheel.shift i).toNat) := by pin_tac Gen.Wheel.de_currentTicks

theorem de_delta_pin (currentTicks : BitVec 64) (previousTicks : BitVec 64) :
    Gen.Wheel.de_delta currentTicks previousTicks = (currentTicks - previousTicks) := by pin_tac Gen.Wheel.de_delta

theorem de_stop_pin (delta : BitVec 64) :
    Gen.Wheel.de_stop delta = (delta == (0#64)) := by pin_tac Gen.Wheel.de_stop

theorem db_mask_pin (index : BitVec 64) :
    Gen.Wheel.db_mask index = ((OtterVerif.Bv.tbl OtterVerif.Gen.Wheel.buckets index) - (1#64)) := by pin_tac Gen.Wheel.db_mask

theorem db_steps_pin (delta : BitVec 64) (index : BitVec 64) :
    Gen.Wheel.db_steps delta index = (OtterVerif.Bv.umin (delta + (1#64)) (OtterVerif.Bv.tbl OtterVerif.Gen.Wheel.buckets index)) := by pin_tac Gen.Wheel.db_steps

theorem db_start_pin (mask : BitVec 64) (prevTicks : BitVec 64) :
    Gen.Wheel.db_start mask prevTicks = (prevTicks &&& mask) := by pin_tac Gen.Wheel.db_start

theorem db_end_pin (start : BitVec 64) (steps : BitVec 64) :
    Gen.Wheel.db_end start steps = (start + steps) := by pin_tac Gen.Wheel.db_end

theorem db_loop_pin (end_ : BitVec 64) (i : BitVec 64) :
    Gen.Wheel.db_loop end_ i = (BitVec.ult i end_) := by pin_tac Gen.Wheel.db_loop

theorem db_slot_pin (i : BitVec 64) (mask : BitVec 64) :
    Gen.Wheel.db_slot i mask = (i &&& mask) := by pin_tac Gen.Wheel.db_slot

theorem db_expired_pin (n_ExpiresAt : BitVec 64) (v_time : BitVec 64) :
    Gen.Wheel.db_expired n_ExpiresAt v_time = (BitVec.ult (OtterVerif.Gen.Wheel.wheelTime n_ExpiresAt) v_time) := by pin_tac Gen.Wheel.db_expired

theorem db_reportedNow_pin (v_time : BitVec 64) :
    Gen.Wheel.db_reportedNow v_time = (OtterVerif.Gen.Wheel.clockTime v_time) := by pin_tac Gen.Wheel.db_reportedNow

theorem siteParams_pin : Gen.Wheel.siteParams = [("fb_due", ["expiration", "v_time"]),
  ("fb_clamped", ["v_time"]),
  ("fb_duration", ["expiration", "v_time"]),
  ("fb_length", ["len_v_wheel"]),
  ("fb_loop", ["i", "length"]),
  ("fb_fits", ["duration", "i"]),
  ("fb_ticks", ["expiration", "i"]),
  ("fb_index", ["i", "ticks"]),
  ("add_arg", ["n_ExpiresAt"]),
  ("de_currentTime", ["nowNanos"]),
  ("de_loop", ["i"]),
  ("de_previousTicks", ["i", "prevTime"]),
  ("de_currentTicks", ["currentTime", "i"]),
  ("de_delta", ["currentTicks", "previousTicks"]),
  ("de_stop", ["delta"]),
  ("db_mask", ["index"]),
  ("db_steps", ["delta", "index"]),
  ("db_start", ["mask", "prevTicks"]),
  ("db_end", ["start", "steps"]),
  ("db_loop", ["end_", "i"]),
  ("db_slot", ["i", "mask"]),
  ("db_expired", ["n_ExpiresAt", "v_time"]),
  ("db_reportedNow", ["v_time"])] := by rfl

end OtterVerif.Pin.Wheel
