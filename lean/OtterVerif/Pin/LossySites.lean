/-
  Pin.LossySites — HAND-OWNED (bootstrapped once by tools/mkpins.py, then reviewed): what every pure computation that
  the translator extracts into Gen.LossySites is expected to mean.  Re-checked against the regenerated Gen.LossySites on every
  run; a pin that no longer proves names the Go expression whose meaning changed.
-/
import OtterVerif.Gen.LossySites

namespace OtterVerif.Pin.LossySites
open OtterVerif OtterVerif.Gen.LossySites

/-- `rfl` when the regenerated term is the recorded one; otherwise try to see through a harmless rewrite
    (operand order of commutative operators) -/
local macro "pin_tac" d:ident : tactic =>
  `(tactic| first
    | rfl
    | (simp only [$d:ident]; ac_rfl)
    | (simp [$d:ident, BitVec.add_comm, BitVec.and_comm, BitVec.or_comm, BitVec.xor_comm, BitVec.mul_comm, Bool.and_comm, Bool.or_comm]))

theorem ring_add_c0_pin (size : BitVec 64) :
    Gen.LossySites.ring_add_c0 size = (BitVec.ule (16#64) size) := by pin_tac Gen.LossySites.ring_add_c0

theorem ring_add_c1_pin (r_tail_CompareAndSwap_tail_tail_1 : Bool) :
    Gen.LossySites.ring_add_c1 r_tail_CompareAndSwap_tail_tail_1 = r_tail_CompareAndSwap_tail_tail_1 := by pin_tac Gen.LossySites.ring_add_c1

theorem ring_add_x0_pin (tail : BitVec 64) :
    Gen.LossySites.ring_add_x0 tail = (tail + (1#64)) := by pin_tac Gen.LossySites.ring_add_x0

theorem ring_add_x1_pin (tail : BitVec 64) :
    Gen.LossySites.ring_add_x1 tail = (tail &&& (15#64)) := by pin_tac Gen.LossySites.ring_add_x1

theorem ring_add_a0_pin (r_head_Load : BitVec 64) :
    Gen.LossySites.ring_add_a0 r_head_Load = r_head_Load := by pin_tac Gen.LossySites.ring_add_a0

theorem ring_add_a1_pin (r_tail_Load : BitVec 64) :
    Gen.LossySites.ring_add_a1 r_tail_Load = r_tail_Load := by pin_tac Gen.LossySites.ring_add_a1

theorem ring_add_a2_pin (head : BitVec 64) (tail : BitVec 64) :
    Gen.LossySites.ring_add_a2 head tail = (tail - head) := by pin_tac Gen.LossySites.ring_add_a2

theorem ring_add_r0_pin :
    Gen.LossySites.ring_add_r0  = (1#8) := by pin_tac Gen.LossySites.ring_add_r0

theorem ring_add_r1_pin :
    Gen.LossySites.ring_add_r1  = (0#8) := by pin_tac Gen.LossySites.ring_add_r1

theorem ring_add_r2_pin :
    Gen.LossySites.ring_add_r2  = (255#8) := by pin_tac Gen.LossySites.ring_add_r2

theorem ring_drainTo_c0_pin (size : BitVec 64) :
    Gen.LossySites.ring_drainTo_c0 size = (size == (0#64)) := by pin_tac Gen.LossySites.ring_drainTo_c0

theorem ring_drainTo_c1_pin (head : BitVec 64) (tail : BitVec 64) :
    Gen.LossySites.ring_drainTo_c1 head tail = (head != tail) := by pin_tac Gen.LossySites.ring_drainTo_c1

theorem ring_drainTo_a0_pin (r_head_Load : BitVec 64) :
    Gen.LossySites.ring_drainTo_a0 r_head_Load = r_head_Load := by pin_tac Gen.LossySites.ring_drainTo_a0

theorem ring_drainTo_a1_pin (r_tail_Load : BitVec 64) :
    Gen.LossySites.ring_drainTo_a1 r_tail_Load = r_tail_Load := by pin_tac Gen.LossySites.ring_drainTo_a1

theorem ring_drainTo_a2_pin (head : BitVec 64) (tail : BitVec 64) :
    Gen.LossySites.ring_drainTo_a2 head tail = (tail - head) := by pin_tac Gen.LossySites.ring_drainTo_a2

theorem ring_drainTo_a4_pin (head : BitVec 64) :
    Gen.LossySites.ring_drainTo_a4 head = (head &&& (15#64)) := by pin_tac Gen.LossySites.ring_drainTo_a4

theorem ring_drainTo_u0_pin (head : BitVec 64) :
    Gen.LossySites.ring_drainTo_u0 head = (head + (1#64)) := by pin_tac Gen.LossySites.ring_drainTo_u0

theorem ring_len_r0_pin (r_head_Load : BitVec 64) (r_tail_Load : BitVec 64) :
    Gen.LossySites.ring_len_r0 r_head_Load r_tail_Load = (r_tail_Load - r_head_Load) := by pin_tac Gen.LossySites.ring_len_r0

theorem Striped_Add_c0_pin (ok : Bool) :
    Gen.LossySites.Striped_Add_c0 ok = (!ok) := by pin_tac Gen.LossySites.Striped_Add_c0

theorem Striped_Add_c1_pin (bs__nil : Bool) :
    Gen.LossySites.Striped_Add_c1 bs__nil = bs__nil := by pin_tac Gen.LossySites.Striped_Add_c1

theorem Striped_Add_c2_pin (buffer__nil : Bool) :
    Gen.LossySites.Striped_Add_c2 buffer__nil = buffer__nil := by pin_tac Gen.LossySites.Striped_Add_c2

theorem Striped_Add_c3_pin (result : BitVec 8) :
    Gen.LossySites.Striped_Add_c3 result = (result == (255#8)) := by pin_tac Gen.LossySites.Striped_Add_c3

theorem Striped_Add_x0_pin (bs_len : BitVec 64) (t_idx : BitVec 32) :
    Gen.LossySites.Striped_Add_x0 bs_len t_idx = (t_idx &&& (BitVec.setWidth 32 (bs_len - (1#64)))) := by pin_tac Gen.LossySites.Striped_Add_x0

theorem Striped_Add_a3_pin (buffer_add_n : BitVec 8) :
    Gen.LossySites.Striped_Add_a3 buffer_add_n = buffer_add_n := by pin_tac Gen.LossySites.Striped_Add_a3

theorem Striped_Add_r0_pin (s_expandOrRetry_n_t_true : BitVec 8) :
    Gen.LossySites.Striped_Add_r0 s_expandOrRetry_n_t_true = s_expandOrRetry_n_t_true := by pin_tac Gen.LossySites.Striped_Add_r0

theorem Striped_Add_r1_pin (s_expandOrRetry_n_t_true : BitVec 8) :
    Gen.LossySites.Striped_Add_r1 s_expandOrRetry_n_t_true = s_expandOrRetry_n_t_true := by pin_tac Gen.LossySites.Striped_Add_r1

theorem Striped_Add_r2_pin (s_expandOrRetry_n_t_false : BitVec 8) :
    Gen.LossySites.Striped_Add_r2 s_expandOrRetry_n_t_false = s_expandOrRetry_n_t_false := by pin_tac Gen.LossySites.Striped_Add_r2

theorem Striped_Add_r3_pin (result : BitVec 8) :
    Gen.LossySites.Striped_Add_r3 result = result := by pin_tac Gen.LossySites.Striped_Add_r3

theorem Striped_expandOrRetry_c0_pin (attempt : BitVec 64) :
    Gen.LossySites.Striped_expandOrRetry_c0 attempt = (BitVec.slt attempt (3#64)) := by pin_tac Gen.LossySites.Striped_expandOrRetry_c0

theorem Striped_expandOrRetry_c1_pin (bs_len : BitVec 64) (bsnot_nil : Bool) :
    Gen.LossySites.Striped_expandOrRetry_c1 bs_len bsnot_nil = (bsnot_nil && (BitVec.slt (0#64) bs_len)) := by pin_tac Gen.LossySites.Striped_expandOrRetry_c1

theorem Striped_expandOrRetry_c2_pin (buffer__nil : Bool) :
    Gen.LossySites.Striped_expandOrRetry_c2 buffer__nil = buffer__nil := by pin_tac Gen.LossySites.Striped_expandOrRetry_c2

theorem Striped_expandOrRetry_c3_pin (s_busy_CompareAndSwap_0_1 : Bool) (s_busy_Load : BitVec 32) :
    Gen.LossySites.Striped_expandOrRetry_c3 s_busy_CompareAndSwap_0_1 s_busy_Load = ((s_busy_Load == (0#32)) && s_busy_CompareAndSwap_0_1) := by pin_tac Gen.LossySites.Striped_expandOrRetry_c3

theorem Striped_expandOrRetry_c4_pin (rs_len : BitVec 64) (rsnot_nil : Bool) :
    Gen.LossySites.Striped_expandOrRetry_c4 rs_len rsnot_nil = (rsnot_nil && (BitVec.slt (0#64) rs_len)) := by pin_tac Gen.LossySites.Striped_expandOrRetry_c4

theorem Striped_expandOrRetry_c5_pin (rs_buffers_j__Load____nil : Bool) :
    Gen.LossySites.Striped_expandOrRetry_c5 rs_buffers_j__Load____nil = rs_buffers_j__Load____nil := by pin_tac Gen.LossySites.Striped_expandOrRetry_c5

theorem Striped_expandOrRetry_c6_pin (created : Bool) :
    Gen.LossySites.Striped_expandOrRetry_c6 created = created := by pin_tac Gen.LossySites.Striped_expandOrRetry_c6

theorem Striped_expandOrRetry_c7_pin (wasUncontended : Bool) :
    Gen.LossySites.Striped_expandOrRetry_c7 wasUncontended = (!wasUncontended) := by pin_tac Gen.LossySites.Striped_expandOrRetry_c7

theorem Striped_expandOrRetry_c8_pin (result : BitVec 8) :
    Gen.LossySites.Striped_expandOrRetry_c8 result = (result != (255#8)) := by pin_tac Gen.LossySites.Striped_expandOrRetry_c8

theorem Striped_expandOrRetry_c9_pin (bs_len : BitVec 64) (s_maxLen : BitVec 64) (s_striped_Load__not_bs : Bool) :
    Gen.LossySites.Striped_expandOrRetry_c9 bs_len s_maxLen s_striped_Load__not_bs = ((BitVec.sle s_maxLen bs_len) || s_striped_Load__not_bs) := by pin_tac Gen.LossySites.Striped_expandOrRetry_c9

theorem Striped_expandOrRetry_c10_pin (collide : Bool) :
    Gen.LossySites.Striped_expandOrRetry_c10 collide = (!collide) := by pin_tac Gen.LossySites.Striped_expandOrRetry_c10

theorem Striped_expandOrRetry_c11_pin (s_busy_CompareAndSwap_0_1 : Bool) (s_busy_Load : BitVec 32) :
    Gen.LossySites.Striped_expandOrRetry_c11 s_busy_CompareAndSwap_0_1 s_busy_Load = ((s_busy_Load == (0#32)) && s_busy_CompareAndSwap_0_1) := by pin_tac Gen.LossySites.Striped_expandOrRetry_c11

theorem Striped_expandOrRetry_c12_pin (s_striped_Load____bs : Bool) :
    Gen.LossySites.Striped_expandOrRetry_c12 s_striped_Load____bs = s_striped_Load____bs := by pin_tac Gen.LossySites.Striped_expandOrRetry_c12

theorem Striped_expandOrRetry_c13_pin (bs_len : BitVec 64) (j : BitVec 64) :
    Gen.LossySites.Striped_expandOrRetry_c13 bs_len j = (BitVec.slt j bs_len) := by pin_tac Gen.LossySites.Striped_expandOrRetry_c13

theorem Striped_expandOrRetry_c14_pin (s_busy_CompareAndSwap_0_1 : Bool) (s_busy_Load : BitVec 32) (s_striped_Load____bs : Bool) :
    Gen.LossySites.Striped_expandOrRetry_c14 s_busy_CompareAndSwap_0_1 s_busy_Load s_striped_Load____bs = (((s_busy_Load == (0#32)) && s_striped_Load____bs) && s_busy_CompareAndSwap_0_1) := by pin_tac Gen.LossySites.Striped_expandOrRetry_c14

theorem Striped_expandOrRetry_c15_pin (s_striped_Load____bs : Bool) :
    Gen.LossySites.Striped_expandOrRetry_c15 s_striped_Load____bs = s_striped_Load____bs := by pin_tac Gen.LossySites.Striped_expandOrRetry_c15

theorem Striped_expandOrRetry_c16_pin (init : Bool) :
    Gen.LossySites.Striped_expandOrRetry_c16 init = init := by pin_tac Gen.LossySites.Striped_expandOrRetry_c16

theorem Striped_expandOrRetry_x0_pin (bs_len : BitVec 64) (t_idx : BitVec 32) :
    Gen.LossySites.Striped_expandOrRetry_x0 bs_len t_idx = (t_idx &&& (BitVec.setWidth 32 (bs_len - (1#64)))) := by pin_tac Gen.LossySites.Striped_expandOrRetry_x0

theorem Striped_expandOrRetry_a0_pin :
    Gen.LossySites.Striped_expandOrRetry_a0  = (255#8) := by pin_tac Gen.LossySites.Striped_expandOrRetry_a0

theorem Striped_expandOrRetry_a1_pin :
    Gen.LossySites.Striped_expandOrRetry_a1  = true := by pin_tac Gen.LossySites.Striped_expandOrRetry_a1

theorem Striped_expandOrRetry_a2_pin :
    Gen.LossySites.Striped_expandOrRetry_a2  = (0#64) := by pin_tac Gen.LossySites.Striped_expandOrRetry_a2

theorem Striped_expandOrRetry_u0_pin (attempt : BitVec 64) :
    Gen.LossySites.Striped_expandOrRetry_u0 attempt = (attempt + (1#64)) := by pin_tac Gen.LossySites.Striped_expandOrRetry_u0

theorem Striped_expandOrRetry_a5_pin :
    Gen.LossySites.Striped_expandOrRetry_a5  = false := by pin_tac Gen.LossySites.Striped_expandOrRetry_a5

theorem Striped_expandOrRetry_a7_pin (rs_len : BitVec 64) (t_idx : BitVec 32) :
    Gen.LossySites.Striped_expandOrRetry_a7 rs_len t_idx = (t_idx &&& (BitVec.setWidth 32 (rs_len - (1#64)))) := by pin_tac Gen.LossySites.Striped_expandOrRetry_a7

theorem Striped_expandOrRetry_a8_pin :
    Gen.LossySites.Striped_expandOrRetry_a8  = true := by pin_tac Gen.LossySites.Striped_expandOrRetry_a8

theorem Striped_expandOrRetry_a9_pin :
    Gen.LossySites.Striped_expandOrRetry_a9  = (0#8) := by pin_tac Gen.LossySites.Striped_expandOrRetry_a9

theorem Striped_expandOrRetry_a10_pin :
    Gen.LossySites.Striped_expandOrRetry_a10  = false := by pin_tac Gen.LossySites.Striped_expandOrRetry_a10

theorem Striped_expandOrRetry_a11_pin :
    Gen.LossySites.Striped_expandOrRetry_a11  = true := by pin_tac Gen.LossySites.Striped_expandOrRetry_a11

theorem Striped_expandOrRetry_a12_pin (buffer_add_n : BitVec 8) :
    Gen.LossySites.Striped_expandOrRetry_a12 buffer_add_n = buffer_add_n := by pin_tac Gen.LossySites.Striped_expandOrRetry_a12

theorem Striped_expandOrRetry_a13_pin :
    Gen.LossySites.Striped_expandOrRetry_a13  = false := by pin_tac Gen.LossySites.Striped_expandOrRetry_a13

theorem Striped_expandOrRetry_a14_pin :
    Gen.LossySites.Striped_expandOrRetry_a14  = true := by pin_tac Gen.LossySites.Striped_expandOrRetry_a14

theorem Striped_expandOrRetry_a15_pin (bs_len : BitVec 64) :
    Gen.LossySites.Striped_expandOrRetry_a15 bs_len = (bs_len <<< 1) := by pin_tac Gen.LossySites.Striped_expandOrRetry_a15

theorem Striped_expandOrRetry_a17_pin :
    Gen.LossySites.Striped_expandOrRetry_a17  = (0#64) := by pin_tac Gen.LossySites.Striped_expandOrRetry_a17

theorem Striped_expandOrRetry_u1_pin (j : BitVec 64) :
    Gen.LossySites.Striped_expandOrRetry_u1 j = (j + (1#64)) := by pin_tac Gen.LossySites.Striped_expandOrRetry_u1

theorem Striped_expandOrRetry_a18_pin :
    Gen.LossySites.Striped_expandOrRetry_a18  = false := by pin_tac Gen.LossySites.Striped_expandOrRetry_a18

theorem Striped_expandOrRetry_a19_pin (xruntime_Fastrand : BitVec 32) :
    Gen.LossySites.Striped_expandOrRetry_a19 xruntime_Fastrand = xruntime_Fastrand := by pin_tac Gen.LossySites.Striped_expandOrRetry_a19

theorem Striped_expandOrRetry_a20_pin :
    Gen.LossySites.Striped_expandOrRetry_a20  = false := by pin_tac Gen.LossySites.Striped_expandOrRetry_a20

theorem Striped_expandOrRetry_a22_pin :
    Gen.LossySites.Striped_expandOrRetry_a22  = true := by pin_tac Gen.LossySites.Striped_expandOrRetry_a22

theorem Striped_expandOrRetry_a23_pin :
    Gen.LossySites.Striped_expandOrRetry_a23  = (0#8) := by pin_tac Gen.LossySites.Striped_expandOrRetry_a23

theorem Striped_expandOrRetry_r0_pin (result : BitVec 8) :
    Gen.LossySites.Striped_expandOrRetry_r0 result = result := by pin_tac Gen.LossySites.Striped_expandOrRetry_r0

theorem Striped_DrainTo_c0_pin (bs__nil : Bool) :
    Gen.LossySites.Striped_DrainTo_c0 bs__nil = bs__nil := by pin_tac Gen.LossySites.Striped_DrainTo_c0

theorem Striped_DrainTo_c1_pin (bs_len : BitVec 64) (i : BitVec 64) :
    Gen.LossySites.Striped_DrainTo_c1 bs_len i = (BitVec.slt i bs_len) := by pin_tac Gen.LossySites.Striped_DrainTo_c1

theorem Striped_DrainTo_c2_pin (bnot_nil : Bool) :
    Gen.LossySites.Striped_DrainTo_c2 bnot_nil = bnot_nil := by pin_tac Gen.LossySites.Striped_DrainTo_c2

theorem Striped_DrainTo_a1_pin :
    Gen.LossySites.Striped_DrainTo_a1  = (0#64) := by pin_tac Gen.LossySites.Striped_DrainTo_a1

theorem Striped_DrainTo_u0_pin (i : BitVec 64) :
    Gen.LossySites.Striped_DrainTo_u0 i = (i + (1#64)) := by pin_tac Gen.LossySites.Striped_DrainTo_u0

theorem Striped_Len_c0_pin (bs__nil : Bool) :
    Gen.LossySites.Striped_Len_c0 bs__nil = bs__nil := by pin_tac Gen.LossySites.Striped_Len_c0

theorem Striped_Len_c1_pin (bs_len : BitVec 64) (i : BitVec 64) :
    Gen.LossySites.Striped_Len_c1 bs_len i = (BitVec.slt i bs_len) := by pin_tac Gen.LossySites.Striped_Len_c1

theorem Striped_Len_c2_pin (b__nil : Bool) :
    Gen.LossySites.Striped_Len_c2 b__nil = b__nil := by pin_tac Gen.LossySites.Striped_Len_c2

theorem Striped_Len_a0_pin :
    Gen.LossySites.Striped_Len_a0  = (0#64) := by pin_tac Gen.LossySites.Striped_Len_a0

theorem Striped_Len_a2_pin :
    Gen.LossySites.Striped_Len_a2  = (0#64) := by pin_tac Gen.LossySites.Striped_Len_a2

theorem Striped_Len_u0_pin (i : BitVec 64) :
    Gen.LossySites.Striped_Len_u0 i = (i + (1#64)) := by pin_tac Gen.LossySites.Striped_Len_u0

theorem Striped_Len_u1_pin (b_len : BitVec 64) (result : BitVec 64) :
    Gen.LossySites.Striped_Len_u1 b_len result = (result + b_len) := by pin_tac Gen.LossySites.Striped_Len_u1

theorem Striped_Len_r0_pin (result : BitVec 64) :
    Gen.LossySites.Striped_Len_r0 result = result := by pin_tac Gen.LossySites.Striped_Len_r0

theorem Striped_Len_r1_pin (result : BitVec 64) :
    Gen.LossySites.Striped_Len_r1 result = result := by pin_tac Gen.LossySites.Striped_Len_r1

theorem siteParams_pin : Gen.LossySites.siteParams = [("ring_add_c0", ["size"]),
  ("ring_add_c1", ["r_tail_CompareAndSwap_tail_tail_1"]),
  ("ring_add_x0", ["tail"]),
  ("ring_add_x1", ["tail"]),
  ("ring_add_a0", ["r_head_Load"]),
  ("ring_add_a1", ["r_tail_Load"]),
  ("ring_add_a2", ["head", "tail"]),
  ("ring_add_r0", []),
  ("ring_add_r1", []),
  ("ring_add_r2", []),
  ("ring_drainTo_c0", ["size"]),
  ("ring_drainTo_c1", ["head", "tail"]),
  ("ring_drainTo_a0", ["r_head_Load"]),
  ("ring_drainTo_a1", ["r_tail_Load"]),
  ("ring_drainTo_a2", ["head", "tail"]),
  ("ring_drainTo_a4", ["head"]),
  ("ring_drainTo_u0", ["head"]),
  ("ring_len_r0", ["r_head_Load", "r_tail_Load"]),
  ("Striped_Add_c0", ["ok"]),
  ("Striped_Add_c1", ["bs__nil"]),
  ("Striped_Add_c2", ["buffer__nil"]),
  ("Striped_Add_c3", ["result"]),
  ("Striped_Add_x0", ["bs_len", "t_idx"]),
  ("Striped_Add_a3", ["buffer_add_n"]),
  ("Striped_Add_r0", ["s_expandOrRetry_n_t_true"]),
  ("Striped_Add_r1", ["s_expandOrRetry_n_t_true"]),
  ("Striped_Add_r2", ["s_expandOrRetry_n_t_false"]),
  ("Striped_Add_r3", ["result"]),
  ("Striped_expandOrRetry_c0", ["attempt"]),
  ("Striped_expandOrRetry_c1", ["bs_len", "bsnot_nil"]),
  ("Striped_expandOrRetry_c2", ["buffer__nil"]),
  ("Striped_expandOrRetry_c3", ["s_busy_CompareAndSwap_0_1", "s_busy_Load"]),
  ("Striped_expandOrRetry_c4", ["rs_len", "rsnot_nil"]),
  ("Striped_expandOrRetry_c5", ["rs_buffers_j__Load____nil"]),
  ("Striped_expandOrRetry_c6", ["created"]),
  ("Striped_expandOrRetry_c7", ["wasUncontended"]),
  ("Striped_expandOrRetry_c8", ["result"]),
  ("Striped_expandOrRetry_c9", ["bs_len", "s_maxLen", "s_striped_Load__not_bs"]),
  ("Striped_expandOrRetry_c10", ["collide"]),
  ("Striped_expandOrRetry_c11", ["s_busy_CompareAndSwap_0_1", "s_busy_Load"]),
  ("Striped_expandOrRetry_c12", ["s_striped_Load____bs"]),
  ("Striped_expandOrRetry_c13", ["bs_len", "j"]),
  ("Striped_expandOrRetry_c14", ["s_busy_CompareAndSwap_0_1", "s_busy_Load", "s_striped_Load____bs"]),
  ("Striped_expandOrRetry_c15", ["s_striped_Load____bs"]),
  ("Striped_expandOrRetry_c16", ["init"]),
  ("Striped_expandOrRetry_x0", ["bs_len", "t_idx"]),
  ("Striped_expandOrRetry_a0", []),
  ("Striped_expandOrRetry_a1", []),
  ("Striped_expandOrRetry_a2", []),
  ("Striped_expandOrRetry_u0", ["attempt"]),
  ("Striped_expandOrRetry_a5", []),
  ("Striped_expandOrRetry_a7", ["rs_len", "t_idx"]),
  ("Striped_expandOrRetry_a8", []),
  ("Striped_expandOrRetry_a9", []),
  ("Striped_expandOrRetry_a10", []),
  ("Striped_expandOrRetry_a11", []),
  ("Striped_expandOrRetry_a12", ["buffer_add_n"]),
  ("Striped_expandOrRetry_a13", []),
  ("Striped_expandOrRetry_a14", []),
  ("Striped_expandOrRetry_a15", ["bs_len"]),
  ("Striped_expandOrRetry_a17", []),
  ("Striped_expandOrRetry_u1", ["j"]),
  ("Striped_expandOrRetry_a18", []),
  ("Striped_expandOrRetry_a19", ["xruntime_Fastrand"]),
  ("Striped_expandOrRetry_a20", []),
  ("Striped_expandOrRetry_a22", []),
  ("Striped_expandOrRetry_a23", []),
  ("Striped_expandOrRetry_r0", ["result"]),
  ("Striped_DrainTo_c0", ["bs__nil"]),
  ("Striped_DrainTo_c1", ["bs_len", "i"]),
  ("Striped_DrainTo_c2", ["bnot_nil"]),
  ("Striped_DrainTo_a1", []),
  ("Striped_DrainTo_u0", ["i"]),
  ("Striped_Len_c0", ["bs__nil"]),
  ("Striped_Len_c1", ["bs_len", "i"]),
  ("Striped_Len_c2", ["b__nil"]),
  ("Striped_Len_a0", []),
  ("Striped_Len_a2", []),
  ("Striped_Len_u0", ["i"]),
  ("Striped_Len_u1", ["b_len", "result"]),
  ("Striped_Len_r0", ["result"]),
  ("Striped_Len_r1", ["result"])] := by rfl

theorem shape_pin : Gen.LossySites.shape = [("newRing", [0, 0, 2, 1, 0, 0, 0]),
  ("ring_add", [2, 0, 3, 3, 0, 2, 0]),
  ("ring_drainTo", [3, 1, 6, 0, 0, 0, 0]),
  ("ring_len", [0, 0, 0, 1, 0, 0, 0]),
  ("NewStriped", [0, 0, 0, 1, 0, 0, 0]),
  ("Striped_Add", [4, 0, 4, 4, 1, 1, 0]),
  ("Striped_expandOrRetry", [17, 2, 24, 1, 0, 1, 0]),
  ("Striped_DrainTo", [3, 1, 3, 0, 0, 0, 0]),
  ("Striped_Len", [3, 2, 4, 2, 0, 0, 0])] := by rfl

end OtterVerif.Pin.LossySites
