/-
  Pin.NodeSites — HAND-OWNED (bootstrapped once by tools/mkpins.py, then reviewed): what every pure computation that
  the translator extracts into Gen.NodeSites is expected to mean.  Re-checked against the regenerated Gen.NodeSites on every
  run; a pin that no longer proves names the Go expression whose meaning changed.
-/
import OtterVerif.Gen.NodeSites

namespace OtterVerif.Pin.NodeSites
open OtterVerif OtterVerif.Gen.NodeSites

/-- `rfl` when the regenerated term is the recorded one; otherwise try to see through a harmless rewrite
    (operand order of commutative operators) -/
local macro "pin_tac" d:ident : tactic =>
  `(tactic| first
    | rfl
    | (simp only [$d:ident]; ac_rfl)
    | (simp [$d:ident, BitVec.add_comm, BitVec.and_comm, BitVec.or_comm, BitVec.xor_comm, BitVec.mul_comm, Bool.and_comm, Bool.or_comm]))

theorem B_HasExpired_r0_pin :
    Gen.NodeSites.B_HasExpired_r0  = false := by pin_tac Gen.NodeSites.B_HasExpired_r0

theorem B_IsFresh_r0_pin :
    Gen.NodeSites.B_IsFresh_r0  = true := by pin_tac Gen.NodeSites.B_IsFresh_r0

theorem B_Weight_r0_pin :
    Gen.NodeSites.B_Weight_r0  = (1#32) := by pin_tac Gen.NodeSites.B_Weight_r0

theorem B_IsAlive_r0_pin :
    Gen.NodeSites.B_IsAlive_r0  = true := by pin_tac Gen.NodeSites.B_IsAlive_r0

theorem B_InWindow_r0_pin (n_GetQueueType : BitVec 8) :
    Gen.NodeSites.B_InWindow_r0 n_GetQueueType = (n_GetQueueType == (0#8)) := by pin_tac Gen.NodeSites.B_InWindow_r0

theorem B_InMainProbation_r0_pin (n_GetQueueType : BitVec 8) :
    Gen.NodeSites.B_InMainProbation_r0 n_GetQueueType = (n_GetQueueType == (1#8)) := by pin_tac Gen.NodeSites.B_InMainProbation_r0

theorem B_InMainProtected_r0_pin (n_GetQueueType : BitVec 8) :
    Gen.NodeSites.B_InMainProtected_r0 n_GetQueueType = (n_GetQueueType == (2#8)) := by pin_tac Gen.NodeSites.B_InMainProtected_r0

theorem BE_SetPrevExp_c0_pin (v__nil : Bool) :
    Gen.NodeSites.BE_SetPrevExp_c0 v__nil = v__nil := by pin_tac Gen.NodeSites.BE_SetPrevExp_c0

theorem BE_SetNextExp_c0_pin (v__nil : Bool) :
    Gen.NodeSites.BE_SetNextExp_c0 v__nil = v__nil := by pin_tac Gen.NodeSites.BE_SetNextExp_c0

theorem BE_HasExpired_r0_pin (n_ExpiresAt : BitVec 64) (now : BitVec 64) :
    Gen.NodeSites.BE_HasExpired_r0 n_ExpiresAt now = (BitVec.sle n_ExpiresAt now) := by pin_tac Gen.NodeSites.BE_HasExpired_r0

theorem BE_ExpiresAt_r0_pin (n_expiresAt_Load : BitVec 64) :
    Gen.NodeSites.BE_ExpiresAt_r0 n_expiresAt_Load = n_expiresAt_Load := by pin_tac Gen.NodeSites.BE_ExpiresAt_r0

theorem BE_CASExpiresAt_r0_pin (n_expiresAt_CompareAndSwap_old_new : Bool) :
    Gen.NodeSites.BE_CASExpiresAt_r0 n_expiresAt_CompareAndSwap_old_new = n_expiresAt_CompareAndSwap_old_new := by pin_tac Gen.NodeSites.BE_CASExpiresAt_r0

theorem BE_IsFresh_r0_pin :
    Gen.NodeSites.BE_IsFresh_r0  = true := by pin_tac Gen.NodeSites.BE_IsFresh_r0

theorem BE_Weight_r0_pin :
    Gen.NodeSites.BE_Weight_r0  = (1#32) := by pin_tac Gen.NodeSites.BE_Weight_r0

theorem BE_IsAlive_r0_pin (n_state_Load : BitVec 32) :
    Gen.NodeSites.BE_IsAlive_r0 n_state_Load = (n_state_Load == (0#32)) := by pin_tac Gen.NodeSites.BE_IsAlive_r0

theorem BE_IsRetired_r0_pin (n_state_Load : BitVec 32) :
    Gen.NodeSites.BE_IsRetired_r0 n_state_Load = (n_state_Load == (1#32)) := by pin_tac Gen.NodeSites.BE_IsRetired_r0

theorem BE_IsDead_r0_pin (n_state_Load : BitVec 32) :
    Gen.NodeSites.BE_IsDead_r0 n_state_Load = (n_state_Load == (2#32)) := by pin_tac Gen.NodeSites.BE_IsDead_r0

theorem BE_InWindow_r0_pin (n_GetQueueType : BitVec 8) :
    Gen.NodeSites.BE_InWindow_r0 n_GetQueueType = (n_GetQueueType == (0#8)) := by pin_tac Gen.NodeSites.BE_InWindow_r0

theorem BE_InMainProbation_r0_pin (n_GetQueueType : BitVec 8) :
    Gen.NodeSites.BE_InMainProbation_r0 n_GetQueueType = (n_GetQueueType == (1#8)) := by pin_tac Gen.NodeSites.BE_InMainProbation_r0

theorem BE_InMainProtected_r0_pin (n_GetQueueType : BitVec 8) :
    Gen.NodeSites.BE_InMainProtected_r0 n_GetQueueType = (n_GetQueueType == (2#8)) := by pin_tac Gen.NodeSites.BE_InMainProtected_r0

theorem BER_SetPrevExp_c0_pin (v__nil : Bool) :
    Gen.NodeSites.BER_SetPrevExp_c0 v__nil = v__nil := by pin_tac Gen.NodeSites.BER_SetPrevExp_c0

theorem BER_SetNextExp_c0_pin (v__nil : Bool) :
    Gen.NodeSites.BER_SetNextExp_c0 v__nil = v__nil := by pin_tac Gen.NodeSites.BER_SetNextExp_c0

theorem BER_HasExpired_r0_pin (n_ExpiresAt : BitVec 64) (now : BitVec 64) :
    Gen.NodeSites.BER_HasExpired_r0 n_ExpiresAt now = (BitVec.sle n_ExpiresAt now) := by pin_tac Gen.NodeSites.BER_HasExpired_r0

theorem BER_ExpiresAt_r0_pin (n_expiresAt_Load : BitVec 64) :
    Gen.NodeSites.BER_ExpiresAt_r0 n_expiresAt_Load = n_expiresAt_Load := by pin_tac Gen.NodeSites.BER_ExpiresAt_r0

theorem BER_CASExpiresAt_r0_pin (n_expiresAt_CompareAndSwap_old_new : Bool) :
    Gen.NodeSites.BER_CASExpiresAt_r0 n_expiresAt_CompareAndSwap_old_new = n_expiresAt_CompareAndSwap_old_new := by pin_tac Gen.NodeSites.BER_CASExpiresAt_r0

theorem BER_RefreshableAt_r0_pin (n_refreshableAt_Load : BitVec 64) :
    Gen.NodeSites.BER_RefreshableAt_r0 n_refreshableAt_Load = n_refreshableAt_Load := by pin_tac Gen.NodeSites.BER_RefreshableAt_r0

theorem BER_CASRefreshableAt_r0_pin (n_refreshableAt_CompareAndSwap_old_new : Bool) :
    Gen.NodeSites.BER_CASRefreshableAt_r0 n_refreshableAt_CompareAndSwap_old_new = n_refreshableAt_CompareAndSwap_old_new := by pin_tac Gen.NodeSites.BER_CASRefreshableAt_r0

theorem BER_IsFresh_r0_pin (n_IsAlive : Bool) (n_RefreshableAt : BitVec 64) (now : BitVec 64) :
    Gen.NodeSites.BER_IsFresh_r0 n_IsAlive n_RefreshableAt now = (n_IsAlive && (BitVec.slt now n_RefreshableAt)) := by pin_tac Gen.NodeSites.BER_IsFresh_r0

theorem BER_Weight_r0_pin :
    Gen.NodeSites.BER_Weight_r0  = (1#32) := by pin_tac Gen.NodeSites.BER_Weight_r0

theorem BER_IsAlive_r0_pin (n_state_Load : BitVec 32) :
    Gen.NodeSites.BER_IsAlive_r0 n_state_Load = (n_state_Load == (0#32)) := by pin_tac Gen.NodeSites.BER_IsAlive_r0

theorem BER_IsRetired_r0_pin (n_state_Load : BitVec 32) :
    Gen.NodeSites.BER_IsRetired_r0 n_state_Load = (n_state_Load == (1#32)) := by pin_tac Gen.NodeSites.BER_IsRetired_r0

theorem BER_IsDead_r0_pin (n_state_Load : BitVec 32) :
    Gen.NodeSites.BER_IsDead_r0 n_state_Load = (n_state_Load == (2#32)) := by pin_tac Gen.NodeSites.BER_IsDead_r0

theorem BER_InWindow_r0_pin (n_GetQueueType : BitVec 8) :
    Gen.NodeSites.BER_InWindow_r0 n_GetQueueType = (n_GetQueueType == (0#8)) := by pin_tac Gen.NodeSites.BER_InWindow_r0

theorem BER_InMainProbation_r0_pin (n_GetQueueType : BitVec 8) :
    Gen.NodeSites.BER_InMainProbation_r0 n_GetQueueType = (n_GetQueueType == (1#8)) := by pin_tac Gen.NodeSites.BER_InMainProbation_r0

theorem BER_InMainProtected_r0_pin (n_GetQueueType : BitVec 8) :
    Gen.NodeSites.BER_InMainProtected_r0 n_GetQueueType = (n_GetQueueType == (2#8)) := by pin_tac Gen.NodeSites.BER_InMainProtected_r0

theorem BERW_SetPrev_c0_pin (v__nil : Bool) :
    Gen.NodeSites.BERW_SetPrev_c0 v__nil = v__nil := by pin_tac Gen.NodeSites.BERW_SetPrev_c0

theorem BERW_SetNext_c0_pin (v__nil : Bool) :
    Gen.NodeSites.BERW_SetNext_c0 v__nil = v__nil := by pin_tac Gen.NodeSites.BERW_SetNext_c0

theorem BERW_SetPrevExp_c0_pin (v__nil : Bool) :
    Gen.NodeSites.BERW_SetPrevExp_c0 v__nil = v__nil := by pin_tac Gen.NodeSites.BERW_SetPrevExp_c0

theorem BERW_SetNextExp_c0_pin (v__nil : Bool) :
    Gen.NodeSites.BERW_SetNextExp_c0 v__nil = v__nil := by pin_tac Gen.NodeSites.BERW_SetNextExp_c0

theorem BERW_HasExpired_r0_pin (n_ExpiresAt : BitVec 64) (now : BitVec 64) :
    Gen.NodeSites.BERW_HasExpired_r0 n_ExpiresAt now = (BitVec.sle n_ExpiresAt now) := by pin_tac Gen.NodeSites.BERW_HasExpired_r0

theorem BERW_ExpiresAt_r0_pin (n_expiresAt_Load : BitVec 64) :
    Gen.NodeSites.BERW_ExpiresAt_r0 n_expiresAt_Load = n_expiresAt_Load := by pin_tac Gen.NodeSites.BERW_ExpiresAt_r0

theorem BERW_CASExpiresAt_r0_pin (n_expiresAt_CompareAndSwap_old_new : Bool) :
    Gen.NodeSites.BERW_CASExpiresAt_r0 n_expiresAt_CompareAndSwap_old_new = n_expiresAt_CompareAndSwap_old_new := by pin_tac Gen.NodeSites.BERW_CASExpiresAt_r0

theorem BERW_RefreshableAt_r0_pin (n_refreshableAt_Load : BitVec 64) :
    Gen.NodeSites.BERW_RefreshableAt_r0 n_refreshableAt_Load = n_refreshableAt_Load := by pin_tac Gen.NodeSites.BERW_RefreshableAt_r0

theorem BERW_CASRefreshableAt_r0_pin (n_refreshableAt_CompareAndSwap_old_new : Bool) :
    Gen.NodeSites.BERW_CASRefreshableAt_r0 n_refreshableAt_CompareAndSwap_old_new = n_refreshableAt_CompareAndSwap_old_new := by pin_tac Gen.NodeSites.BERW_CASRefreshableAt_r0

theorem BERW_IsFresh_r0_pin (n_IsAlive : Bool) (n_RefreshableAt : BitVec 64) (now : BitVec 64) :
    Gen.NodeSites.BERW_IsFresh_r0 n_IsAlive n_RefreshableAt now = (n_IsAlive && (BitVec.slt now n_RefreshableAt)) := by pin_tac Gen.NodeSites.BERW_IsFresh_r0

theorem BERW_Weight_r0_pin (n_weight : BitVec 32) :
    Gen.NodeSites.BERW_Weight_r0 n_weight = n_weight := by pin_tac Gen.NodeSites.BERW_Weight_r0

theorem BERW_IsAlive_r0_pin (n_state_Load : BitVec 32) :
    Gen.NodeSites.BERW_IsAlive_r0 n_state_Load = (n_state_Load == (0#32)) := by pin_tac Gen.NodeSites.BERW_IsAlive_r0

theorem BERW_IsRetired_r0_pin (n_state_Load : BitVec 32) :
    Gen.NodeSites.BERW_IsRetired_r0 n_state_Load = (n_state_Load == (1#32)) := by pin_tac Gen.NodeSites.BERW_IsRetired_r0

theorem BERW_IsDead_r0_pin (n_state_Load : BitVec 32) :
    Gen.NodeSites.BERW_IsDead_r0 n_state_Load = (n_state_Load == (2#32)) := by pin_tac Gen.NodeSites.BERW_IsDead_r0

theorem BERW_GetQueueType_r0_pin (n_queueType : BitVec 8) :
    Gen.NodeSites.BERW_GetQueueType_r0 n_queueType = n_queueType := by pin_tac Gen.NodeSites.BERW_GetQueueType_r0

theorem BERW_SetQueueType_a0_pin (queueType : BitVec 8) :
    Gen.NodeSites.BERW_SetQueueType_a0 queueType = queueType := by pin_tac Gen.NodeSites.BERW_SetQueueType_a0

theorem BERW_InWindow_r0_pin (n_GetQueueType : BitVec 8) :
    Gen.NodeSites.BERW_InWindow_r0 n_GetQueueType = (n_GetQueueType == (0#8)) := by pin_tac Gen.NodeSites.BERW_InWindow_r0

theorem BERW_InMainProbation_r0_pin (n_GetQueueType : BitVec 8) :
    Gen.NodeSites.BERW_InMainProbation_r0 n_GetQueueType = (n_GetQueueType == (1#8)) := by pin_tac Gen.NodeSites.BERW_InMainProbation_r0

theorem BERW_InMainProtected_r0_pin (n_GetQueueType : BitVec 8) :
    Gen.NodeSites.BERW_InMainProtected_r0 n_GetQueueType = (n_GetQueueType == (2#8)) := by pin_tac Gen.NodeSites.BERW_InMainProtected_r0

theorem BEW_SetPrev_c0_pin (v__nil : Bool) :
    Gen.NodeSites.BEW_SetPrev_c0 v__nil = v__nil := by pin_tac Gen.NodeSites.BEW_SetPrev_c0

theorem BEW_SetNext_c0_pin (v__nil : Bool) :
    Gen.NodeSites.BEW_SetNext_c0 v__nil = v__nil := by pin_tac Gen.NodeSites.BEW_SetNext_c0

theorem BEW_SetPrevExp_c0_pin (v__nil : Bool) :
    Gen.NodeSites.BEW_SetPrevExp_c0 v__nil = v__nil := by pin_tac Gen.NodeSites.BEW_SetPrevExp_c0

theorem BEW_SetNextExp_c0_pin (v__nil : Bool) :
    Gen.NodeSites.BEW_SetNextExp_c0 v__nil = v__nil := by pin_tac Gen.NodeSites.BEW_SetNextExp_c0

theorem BEW_HasExpired_r0_pin (n_ExpiresAt : BitVec 64) (now : BitVec 64) :
    Gen.NodeSites.BEW_HasExpired_r0 n_ExpiresAt now = (BitVec.sle n_ExpiresAt now) := by pin_tac Gen.NodeSites.BEW_HasExpired_r0

theorem BEW_ExpiresAt_r0_pin (n_expiresAt_Load : BitVec 64) :
    Gen.NodeSites.BEW_ExpiresAt_r0 n_expiresAt_Load = n_expiresAt_Load := by pin_tac Gen.NodeSites.BEW_ExpiresAt_r0

theorem BEW_CASExpiresAt_r0_pin (n_expiresAt_CompareAndSwap_old_new : Bool) :
    Gen.NodeSites.BEW_CASExpiresAt_r0 n_expiresAt_CompareAndSwap_old_new = n_expiresAt_CompareAndSwap_old_new := by pin_tac Gen.NodeSites.BEW_CASExpiresAt_r0

theorem BEW_IsFresh_r0_pin :
    Gen.NodeSites.BEW_IsFresh_r0  = true := by pin_tac Gen.NodeSites.BEW_IsFresh_r0

theorem BEW_Weight_r0_pin (n_weight : BitVec 32) :
    Gen.NodeSites.BEW_Weight_r0 n_weight = n_weight := by pin_tac Gen.NodeSites.BEW_Weight_r0

theorem BEW_IsAlive_r0_pin (n_state_Load : BitVec 32) :
    Gen.NodeSites.BEW_IsAlive_r0 n_state_Load = (n_state_Load == (0#32)) := by pin_tac Gen.NodeSites.BEW_IsAlive_r0

theorem BEW_IsRetired_r0_pin (n_state_Load : BitVec 32) :
    Gen.NodeSites.BEW_IsRetired_r0 n_state_Load = (n_state_Load == (1#32)) := by pin_tac Gen.NodeSites.BEW_IsRetired_r0

theorem BEW_IsDead_r0_pin (n_state_Load : BitVec 32) :
    Gen.NodeSites.BEW_IsDead_r0 n_state_Load = (n_state_Load == (2#32)) := by pin_tac Gen.NodeSites.BEW_IsDead_r0

theorem BEW_GetQueueType_r0_pin (n_queueType : BitVec 8) :
    Gen.NodeSites.BEW_GetQueueType_r0 n_queueType = n_queueType := by pin_tac Gen.NodeSites.BEW_GetQueueType_r0

theorem BEW_SetQueueType_a0_pin (queueType : BitVec 8) :
    Gen.NodeSites.BEW_SetQueueType_a0 queueType = queueType := by pin_tac Gen.NodeSites.BEW_SetQueueType_a0

theorem BEW_InWindow_r0_pin (n_GetQueueType : BitVec 8) :
    Gen.NodeSites.BEW_InWindow_r0 n_GetQueueType = (n_GetQueueType == (0#8)) := by pin_tac Gen.NodeSites.BEW_InWindow_r0

theorem BEW_InMainProbation_r0_pin (n_GetQueueType : BitVec 8) :
    Gen.NodeSites.BEW_InMainProbation_r0 n_GetQueueType = (n_GetQueueType == (1#8)) := by pin_tac Gen.NodeSites.BEW_InMainProbation_r0

theorem BEW_InMainProtected_r0_pin (n_GetQueueType : BitVec 8) :
    Gen.NodeSites.BEW_InMainProtected_r0 n_GetQueueType = (n_GetQueueType == (2#8)) := by pin_tac Gen.NodeSites.BEW_InMainProtected_r0

theorem BR_HasExpired_r0_pin :
    Gen.NodeSites.BR_HasExpired_r0  = false := by pin_tac Gen.NodeSites.BR_HasExpired_r0

theorem BR_RefreshableAt_r0_pin (n_refreshableAt_Load : BitVec 64) :
    Gen.NodeSites.BR_RefreshableAt_r0 n_refreshableAt_Load = n_refreshableAt_Load := by pin_tac Gen.NodeSites.BR_RefreshableAt_r0

theorem BR_CASRefreshableAt_r0_pin (n_refreshableAt_CompareAndSwap_old_new : Bool) :
    Gen.NodeSites.BR_CASRefreshableAt_r0 n_refreshableAt_CompareAndSwap_old_new = n_refreshableAt_CompareAndSwap_old_new := by pin_tac Gen.NodeSites.BR_CASRefreshableAt_r0

theorem BR_IsFresh_r0_pin (n_IsAlive : Bool) (n_RefreshableAt : BitVec 64) (now : BitVec 64) :
    Gen.NodeSites.BR_IsFresh_r0 n_IsAlive n_RefreshableAt now = (n_IsAlive && (BitVec.slt now n_RefreshableAt)) := by pin_tac Gen.NodeSites.BR_IsFresh_r0

theorem BR_Weight_r0_pin :
    Gen.NodeSites.BR_Weight_r0  = (1#32) := by pin_tac Gen.NodeSites.BR_Weight_r0

theorem BR_IsAlive_r0_pin :
    Gen.NodeSites.BR_IsAlive_r0  = true := by pin_tac Gen.NodeSites.BR_IsAlive_r0

theorem BR_InWindow_r0_pin (n_GetQueueType : BitVec 8) :
    Gen.NodeSites.BR_InWindow_r0 n_GetQueueType = (n_GetQueueType == (0#8)) := by pin_tac Gen.NodeSites.BR_InWindow_r0

theorem BR_InMainProbation_r0_pin (n_GetQueueType : BitVec 8) :
    Gen.NodeSites.BR_InMainProbation_r0 n_GetQueueType = (n_GetQueueType == (1#8)) := by pin_tac Gen.NodeSites.BR_InMainProbation_r0

theorem BR_InMainProtected_r0_pin (n_GetQueueType : BitVec 8) :
    Gen.NodeSites.BR_InMainProtected_r0 n_GetQueueType = (n_GetQueueType == (2#8)) := by pin_tac Gen.NodeSites.BR_InMainProtected_r0

theorem BRW_SetPrev_c0_pin (v__nil : Bool) :
    Gen.NodeSites.BRW_SetPrev_c0 v__nil = v__nil := by pin_tac Gen.NodeSites.BRW_SetPrev_c0

theorem BRW_SetNext_c0_pin (v__nil : Bool) :
    Gen.NodeSites.BRW_SetNext_c0 v__nil = v__nil := by pin_tac Gen.NodeSites.BRW_SetNext_c0

theorem BRW_HasExpired_r0_pin :
    Gen.NodeSites.BRW_HasExpired_r0  = false := by pin_tac Gen.NodeSites.BRW_HasExpired_r0

theorem BRW_RefreshableAt_r0_pin (n_refreshableAt_Load : BitVec 64) :
    Gen.NodeSites.BRW_RefreshableAt_r0 n_refreshableAt_Load = n_refreshableAt_Load := by pin_tac Gen.NodeSites.BRW_RefreshableAt_r0

theorem BRW_CASRefreshableAt_r0_pin (n_refreshableAt_CompareAndSwap_old_new : Bool) :
    Gen.NodeSites.BRW_CASRefreshableAt_r0 n_refreshableAt_CompareAndSwap_old_new = n_refreshableAt_CompareAndSwap_old_new := by pin_tac Gen.NodeSites.BRW_CASRefreshableAt_r0

theorem BRW_IsFresh_r0_pin (n_IsAlive : Bool) (n_RefreshableAt : BitVec 64) (now : BitVec 64) :
    Gen.NodeSites.BRW_IsFresh_r0 n_IsAlive n_RefreshableAt now = (n_IsAlive && (BitVec.slt now n_RefreshableAt)) := by pin_tac Gen.NodeSites.BRW_IsFresh_r0

theorem BRW_Weight_r0_pin (n_weight : BitVec 32) :
    Gen.NodeSites.BRW_Weight_r0 n_weight = n_weight := by pin_tac Gen.NodeSites.BRW_Weight_r0

theorem BRW_IsAlive_r0_pin (n_state_Load : BitVec 32) :
    Gen.NodeSites.BRW_IsAlive_r0 n_state_Load = (n_state_Load == (0#32)) := by pin_tac Gen.NodeSites.BRW_IsAlive_r0

theorem BRW_IsRetired_r0_pin (n_state_Load : BitVec 32) :
    Gen.NodeSites.BRW_IsRetired_r0 n_state_Load = (n_state_Load == (1#32)) := by pin_tac Gen.NodeSites.BRW_IsRetired_r0

theorem BRW_IsDead_r0_pin (n_state_Load : BitVec 32) :
    Gen.NodeSites.BRW_IsDead_r0 n_state_Load = (n_state_Load == (2#32)) := by pin_tac Gen.NodeSites.BRW_IsDead_r0

theorem BRW_GetQueueType_r0_pin (n_queueType : BitVec 8) :
    Gen.NodeSites.BRW_GetQueueType_r0 n_queueType = n_queueType := by pin_tac Gen.NodeSites.BRW_GetQueueType_r0

theorem BRW_SetQueueType_a0_pin (queueType : BitVec 8) :
    Gen.NodeSites.BRW_SetQueueType_a0 queueType = queueType := by pin_tac Gen.NodeSites.BRW_SetQueueType_a0

theorem BRW_InWindow_r0_pin (n_GetQueueType : BitVec 8) :
    Gen.NodeSites.BRW_InWindow_r0 n_GetQueueType = (n_GetQueueType == (0#8)) := by pin_tac Gen.NodeSites.BRW_InWindow_r0

theorem BRW_InMainProbation_r0_pin (n_GetQueueType : BitVec 8) :
    Gen.NodeSites.BRW_InMainProbation_r0 n_GetQueueType = (n_GetQueueType == (1#8)) := by pin_tac Gen.NodeSites.BRW_InMainProbation_r0

theorem BRW_InMainProtected_r0_pin (n_GetQueueType : BitVec 8) :
    Gen.NodeSites.BRW_InMainProtected_r0 n_GetQueueType = (n_GetQueueType == (2#8)) := by pin_tac Gen.NodeSites.BRW_InMainProtected_r0

theorem BS_SetPrev_c0_pin (v__nil : Bool) :
    Gen.NodeSites.BS_SetPrev_c0 v__nil = v__nil := by pin_tac Gen.NodeSites.BS_SetPrev_c0

theorem BS_SetNext_c0_pin (v__nil : Bool) :
    Gen.NodeSites.BS_SetNext_c0 v__nil = v__nil := by pin_tac Gen.NodeSites.BS_SetNext_c0

theorem BS_HasExpired_r0_pin :
    Gen.NodeSites.BS_HasExpired_r0  = false := by pin_tac Gen.NodeSites.BS_HasExpired_r0

theorem BS_IsFresh_r0_pin :
    Gen.NodeSites.BS_IsFresh_r0  = true := by pin_tac Gen.NodeSites.BS_IsFresh_r0

theorem BS_Weight_r0_pin :
    Gen.NodeSites.BS_Weight_r0  = (1#32) := by pin_tac Gen.NodeSites.BS_Weight_r0

theorem BS_IsAlive_r0_pin (n_state_Load : BitVec 32) :
    Gen.NodeSites.BS_IsAlive_r0 n_state_Load = (n_state_Load == (0#32)) := by pin_tac Gen.NodeSites.BS_IsAlive_r0

theorem BS_IsRetired_r0_pin (n_state_Load : BitVec 32) :
    Gen.NodeSites.BS_IsRetired_r0 n_state_Load = (n_state_Load == (1#32)) := by pin_tac Gen.NodeSites.BS_IsRetired_r0

theorem BS_IsDead_r0_pin (n_state_Load : BitVec 32) :
    Gen.NodeSites.BS_IsDead_r0 n_state_Load = (n_state_Load == (2#32)) := by pin_tac Gen.NodeSites.BS_IsDead_r0

theorem BS_GetQueueType_r0_pin (n_queueType : BitVec 8) :
    Gen.NodeSites.BS_GetQueueType_r0 n_queueType = n_queueType := by pin_tac Gen.NodeSites.BS_GetQueueType_r0

theorem BS_SetQueueType_a0_pin (queueType : BitVec 8) :
    Gen.NodeSites.BS_SetQueueType_a0 queueType = queueType := by pin_tac Gen.NodeSites.BS_SetQueueType_a0

theorem BS_InWindow_r0_pin (n_GetQueueType : BitVec 8) :
    Gen.NodeSites.BS_InWindow_r0 n_GetQueueType = (n_GetQueueType == (0#8)) := by pin_tac Gen.NodeSites.BS_InWindow_r0

theorem BS_InMainProbation_r0_pin (n_GetQueueType : BitVec 8) :
    Gen.NodeSites.BS_InMainProbation_r0 n_GetQueueType = (n_GetQueueType == (1#8)) := by pin_tac Gen.NodeSites.BS_InMainProbation_r0

theorem BS_InMainProtected_r0_pin (n_GetQueueType : BitVec 8) :
    Gen.NodeSites.BS_InMainProtected_r0 n_GetQueueType = (n_GetQueueType == (2#8)) := by pin_tac Gen.NodeSites.BS_InMainProtected_r0

theorem BSE_SetPrev_c0_pin (v__nil : Bool) :
    Gen.NodeSites.BSE_SetPrev_c0 v__nil = v__nil := by pin_tac Gen.NodeSites.BSE_SetPrev_c0

theorem BSE_SetNext_c0_pin (v__nil : Bool) :
    Gen.NodeSites.BSE_SetNext_c0 v__nil = v__nil := by pin_tac Gen.NodeSites.BSE_SetNext_c0

theorem BSE_SetPrevExp_c0_pin (v__nil : Bool) :
    Gen.NodeSites.BSE_SetPrevExp_c0 v__nil = v__nil := by pin_tac Gen.NodeSites.BSE_SetPrevExp_c0

theorem BSE_SetNextExp_c0_pin (v__nil : Bool) :
    Gen.NodeSites.BSE_SetNextExp_c0 v__nil = v__nil := by pin_tac Gen.NodeSites.BSE_SetNextExp_c0

theorem BSE_HasExpired_r0_pin (n_ExpiresAt : BitVec 64) (now : BitVec 64) :
    Gen.NodeSites.BSE_HasExpired_r0 n_ExpiresAt now = (BitVec.sle n_ExpiresAt now) := by pin_tac Gen.NodeSites.BSE_HasExpired_r0

theorem BSE_ExpiresAt_r0_pin (n_expiresAt_Load : BitVec 64) :
    Gen.NodeSites.BSE_ExpiresAt_r0 n_expiresAt_Load = n_expiresAt_Load := by pin_tac Gen.NodeSites.BSE_ExpiresAt_r0

theorem BSE_CASExpiresAt_r0_pin (n_expiresAt_CompareAndSwap_old_new : Bool) :
    Gen.NodeSites.BSE_CASExpiresAt_r0 n_expiresAt_CompareAndSwap_old_new = n_expiresAt_CompareAndSwap_old_new := by pin_tac Gen.NodeSites.BSE_CASExpiresAt_r0

theorem BSE_IsFresh_r0_pin :
    Gen.NodeSites.BSE_IsFresh_r0  = true := by pin_tac Gen.NodeSites.BSE_IsFresh_r0

theorem BSE_Weight_r0_pin :
    Gen.NodeSites.BSE_Weight_r0  = (1#32) := by pin_tac Gen.NodeSites.BSE_Weight_r0

theorem BSE_IsAlive_r0_pin (n_state_Load : BitVec 32) :
    Gen.NodeSites.BSE_IsAlive_r0 n_state_Load = (n_state_Load == (0#32)) := by pin_tac Gen.NodeSites.BSE_IsAlive_r0

theorem BSE_IsRetired_r0_pin (n_state_Load : BitVec 32) :
    Gen.NodeSites.BSE_IsRetired_r0 n_state_Load = (n_state_Load == (1#32)) := by pin_tac Gen.NodeSites.BSE_IsRetired_r0

theorem BSE_IsDead_r0_pin (n_state_Load : BitVec 32) :
    Gen.NodeSites.BSE_IsDead_r0 n_state_Load = (n_state_Load == (2#32)) := by pin_tac Gen.NodeSites.BSE_IsDead_r0

theorem BSE_GetQueueType_r0_pin (n_queueType : BitVec 8) :
    Gen.NodeSites.BSE_GetQueueType_r0 n_queueType = n_queueType := by pin_tac Gen.NodeSites.BSE_GetQueueType_r0

theorem BSE_SetQueueType_a0_pin (queueType : BitVec 8) :
    Gen.NodeSites.BSE_SetQueueType_a0 queueType = queueType := by pin_tac Gen.NodeSites.BSE_SetQueueType_a0

theorem BSE_InWindow_r0_pin (n_GetQueueType : BitVec 8) :
    Gen.NodeSites.BSE_InWindow_r0 n_GetQueueType = (n_GetQueueType == (0#8)) := by pin_tac Gen.NodeSites.BSE_InWindow_r0

theorem BSE_InMainProbation_r0_pin (n_GetQueueType : BitVec 8) :
    Gen.NodeSites.BSE_InMainProbation_r0 n_GetQueueType = (n_GetQueueType == (1#8)) := by pin_tac Gen.NodeSites.BSE_InMainProbation_r0

theorem BSE_InMainProtected_r0_pin (n_GetQueueType : BitVec 8) :
    Gen.NodeSites.BSE_InMainProtected_r0 n_GetQueueType = (n_GetQueueType == (2#8)) := by pin_tac Gen.NodeSites.BSE_InMainProtected_r0

theorem BSER_SetPrev_c0_pin (v__nil : Bool) :
    Gen.NodeSites.BSER_SetPrev_c0 v__nil = v__nil := by pin_tac Gen.NodeSites.BSER_SetPrev_c0

theorem BSER_SetNext_c0_pin (v__nil : Bool) :
    Gen.NodeSites.BSER_SetNext_c0 v__nil = v__nil := by pin_tac Gen.NodeSites.BSER_SetNext_c0

theorem BSER_SetPrevExp_c0_pin (v__nil : Bool) :
    Gen.NodeSites.BSER_SetPrevExp_c0 v__nil = v__nil := by pin_tac Gen.NodeSites.BSER_SetPrevExp_c0

theorem BSER_SetNextExp_c0_pin (v__nil : Bool) :
    Gen.NodeSites.BSER_SetNextExp_c0 v__nil = v__nil := by pin_tac Gen.NodeSites.BSER_SetNextExp_c0

theorem BSER_HasExpired_r0_pin (n_ExpiresAt : BitVec 64) (now : BitVec 64) :
    Gen.NodeSites.BSER_HasExpired_r0 n_ExpiresAt now = (BitVec.sle n_ExpiresAt now) := by pin_tac Gen.NodeSites.BSER_HasExpired_r0

theorem BSER_ExpiresAt_r0_pin (n_expiresAt_Load : BitVec 64) :
    Gen.NodeSites.BSER_ExpiresAt_r0 n_expiresAt_Load = n_expiresAt_Load := by pin_tac Gen.NodeSites.BSER_ExpiresAt_r0

theorem BSER_CASExpiresAt_r0_pin (n_expiresAt_CompareAndSwap_old_new : Bool) :
    Gen.NodeSites.BSER_CASExpiresAt_r0 n_expiresAt_CompareAndSwap_old_new = n_expiresAt_CompareAndSwap_old_new := by pin_tac Gen.NodeSites.BSER_CASExpiresAt_r0

theorem BSER_RefreshableAt_r0_pin (n_refreshableAt_Load : BitVec 64) :
    Gen.NodeSites.BSER_RefreshableAt_r0 n_refreshableAt_Load = n_refreshableAt_Load := by pin_tac Gen.NodeSites.BSER_RefreshableAt_r0

theorem BSER_CASRefreshableAt_r0_pin (n_refreshableAt_CompareAndSwap_old_new : Bool) :
    Gen.NodeSites.BSER_CASRefreshableAt_r0 n_refreshableAt_CompareAndSwap_old_new = n_refreshableAt_CompareAndSwap_old_new := by pin_tac Gen.NodeSites.BSER_CASRefreshableAt_r0

theorem BSER_IsFresh_r0_pin (n_IsAlive : Bool) (n_RefreshableAt : BitVec 64) (now : BitVec 64) :
    Gen.NodeSites.BSER_IsFresh_r0 n_IsAlive n_RefreshableAt now = (n_IsAlive && (BitVec.slt now n_RefreshableAt)) := by pin_tac Gen.NodeSites.BSER_IsFresh_r0

theorem BSER_Weight_r0_pin :
    Gen.NodeSites.BSER_Weight_r0  = (1#32) := by pin_tac Gen.NodeSites.BSER_Weight_r0

theorem BSER_IsAlive_r0_pin (n_state_Load : BitVec 32) :
    Gen.NodeSites.BSER_IsAlive_r0 n_state_Load = (n_state_Load == (0#32)) := by pin_tac Gen.NodeSites.BSER_IsAlive_r0

theorem BSER_IsRetired_r0_pin (n_state_Load : BitVec 32) :
    Gen.NodeSites.BSER_IsRetired_r0 n_state_Load = (n_state_Load == (1#32)) := by pin_tac Gen.NodeSites.BSER_IsRetired_r0

theorem BSER_IsDead_r0_pin (n_state_Load : BitVec 32) :
    Gen.NodeSites.BSER_IsDead_r0 n_state_Load = (n_state_Load == (2#32)) := by pin_tac Gen.NodeSites.BSER_IsDead_r0

theorem BSER_GetQueueType_r0_pin (n_queueType : BitVec 8) :
    Gen.NodeSites.BSER_GetQueueType_r0 n_queueType = n_queueType := by pin_tac Gen.NodeSites.BSER_GetQueueType_r0

theorem BSER_SetQueueType_a0_pin (queueType : BitVec 8) :
    Gen.NodeSites.BSER_SetQueueType_a0 queueType = queueType := by pin_tac Gen.NodeSites.BSER_SetQueueType_a0

theorem BSER_InWindow_r0_pin (n_GetQueueType : BitVec 8) :
    Gen.NodeSites.BSER_InWindow_r0 n_GetQueueType = (n_GetQueueType == (0#8)) := by pin_tac Gen.NodeSites.BSER_InWindow_r0

theorem BSER_InMainProbation_r0_pin (n_GetQueueType : BitVec 8) :
    Gen.NodeSites.BSER_InMainProbation_r0 n_GetQueueType = (n_GetQueueType == (1#8)) := by pin_tac Gen.NodeSites.BSER_InMainProbation_r0

theorem BSER_InMainProtected_r0_pin (n_GetQueueType : BitVec 8) :
    Gen.NodeSites.BSER_InMainProtected_r0 n_GetQueueType = (n_GetQueueType == (2#8)) := by pin_tac Gen.NodeSites.BSER_InMainProtected_r0

theorem BSR_SetPrev_c0_pin (v__nil : Bool) :
    Gen.NodeSites.BSR_SetPrev_c0 v__nil = v__nil := by pin_tac Gen.NodeSites.BSR_SetPrev_c0

theorem BSR_SetNext_c0_pin (v__nil : Bool) :
    Gen.NodeSites.BSR_SetNext_c0 v__nil = v__nil := by pin_tac Gen.NodeSites.BSR_SetNext_c0

theorem BSR_HasExpired_r0_pin :
    Gen.NodeSites.BSR_HasExpired_r0  = false := by pin_tac Gen.NodeSites.BSR_HasExpired_r0

theorem BSR_RefreshableAt_r0_pin (n_refreshableAt_Load : BitVec 64) :
    Gen.NodeSites.BSR_RefreshableAt_r0 n_refreshableAt_Load = n_refreshableAt_Load := by pin_tac Gen.NodeSites.BSR_RefreshableAt_r0

theorem BSR_CASRefreshableAt_r0_pin (n_refreshableAt_CompareAndSwap_old_new : Bool) :
    Gen.NodeSites.BSR_CASRefreshableAt_r0 n_refreshableAt_CompareAndSwap_old_new = n_refreshableAt_CompareAndSwap_old_new := by pin_tac Gen.NodeSites.BSR_CASRefreshableAt_r0

theorem BSR_IsFresh_r0_pin (n_IsAlive : Bool) (n_RefreshableAt : BitVec 64) (now : BitVec 64) :
    Gen.NodeSites.BSR_IsFresh_r0 n_IsAlive n_RefreshableAt now = (n_IsAlive && (BitVec.slt now n_RefreshableAt)) := by pin_tac Gen.NodeSites.BSR_IsFresh_r0

theorem BSR_Weight_r0_pin :
    Gen.NodeSites.BSR_Weight_r0  = (1#32) := by pin_tac Gen.NodeSites.BSR_Weight_r0

theorem BSR_IsAlive_r0_pin (n_state_Load : BitVec 32) :
    Gen.NodeSites.BSR_IsAlive_r0 n_state_Load = (n_state_Load == (0#32)) := by pin_tac Gen.NodeSites.BSR_IsAlive_r0

theorem BSR_IsRetired_r0_pin (n_state_Load : BitVec 32) :
    Gen.NodeSites.BSR_IsRetired_r0 n_state_Load = (n_state_Load == (1#32)) := by pin_tac Gen.NodeSites.BSR_IsRetired_r0

theorem BSR_IsDead_r0_pin (n_state_Load : BitVec 32) :
    Gen.NodeSites.BSR_IsDead_r0 n_state_Load = (n_state_Load == (2#32)) := by pin_tac Gen.NodeSites.BSR_IsDead_r0

theorem BSR_GetQueueType_r0_pin (n_queueType : BitVec 8) :
    Gen.NodeSites.BSR_GetQueueType_r0 n_queueType = n_queueType := by pin_tac Gen.NodeSites.BSR_GetQueueType_r0

theorem BSR_SetQueueType_a0_pin (queueType : BitVec 8) :
    Gen.NodeSites.BSR_SetQueueType_a0 queueType = queueType := by pin_tac Gen.NodeSites.BSR_SetQueueType_a0

theorem BSR_InWindow_r0_pin (n_GetQueueType : BitVec 8) :
    Gen.NodeSites.BSR_InWindow_r0 n_GetQueueType = (n_GetQueueType == (0#8)) := by pin_tac Gen.NodeSites.BSR_InWindow_r0

theorem BSR_InMainProbation_r0_pin (n_GetQueueType : BitVec 8) :
    Gen.NodeSites.BSR_InMainProbation_r0 n_GetQueueType = (n_GetQueueType == (1#8)) := by pin_tac Gen.NodeSites.BSR_InMainProbation_r0

theorem BSR_InMainProtected_r0_pin (n_GetQueueType : BitVec 8) :
    Gen.NodeSites.BSR_InMainProtected_r0 n_GetQueueType = (n_GetQueueType == (2#8)) := by pin_tac Gen.NodeSites.BSR_InMainProtected_r0

theorem BW_SetPrev_c0_pin (v__nil : Bool) :
    Gen.NodeSites.BW_SetPrev_c0 v__nil = v__nil := by pin_tac Gen.NodeSites.BW_SetPrev_c0

theorem BW_SetNext_c0_pin (v__nil : Bool) :
    Gen.NodeSites.BW_SetNext_c0 v__nil = v__nil := by pin_tac Gen.NodeSites.BW_SetNext_c0

theorem BW_HasExpired_r0_pin :
    Gen.NodeSites.BW_HasExpired_r0  = false := by pin_tac Gen.NodeSites.BW_HasExpired_r0

theorem BW_IsFresh_r0_pin :
    Gen.NodeSites.BW_IsFresh_r0  = true := by pin_tac Gen.NodeSites.BW_IsFresh_r0

theorem BW_Weight_r0_pin (n_weight : BitVec 32) :
    Gen.NodeSites.BW_Weight_r0 n_weight = n_weight := by pin_tac Gen.NodeSites.BW_Weight_r0

theorem BW_IsAlive_r0_pin (n_state_Load : BitVec 32) :
    Gen.NodeSites.BW_IsAlive_r0 n_state_Load = (n_state_Load == (0#32)) := by pin_tac Gen.NodeSites.BW_IsAlive_r0

theorem BW_IsRetired_r0_pin (n_state_Load : BitVec 32) :
    Gen.NodeSites.BW_IsRetired_r0 n_state_Load = (n_state_Load == (1#32)) := by pin_tac Gen.NodeSites.BW_IsRetired_r0

theorem BW_IsDead_r0_pin (n_state_Load : BitVec 32) :
    Gen.NodeSites.BW_IsDead_r0 n_state_Load = (n_state_Load == (2#32)) := by pin_tac Gen.NodeSites.BW_IsDead_r0

theorem BW_GetQueueType_r0_pin (n_queueType : BitVec 8) :
    Gen.NodeSites.BW_GetQueueType_r0 n_queueType = n_queueType := by pin_tac Gen.NodeSites.BW_GetQueueType_r0

theorem BW_SetQueueType_a0_pin (queueType : BitVec 8) :
    Gen.NodeSites.BW_SetQueueType_a0 queueType = queueType := by pin_tac Gen.NodeSites.BW_SetQueueType_a0

theorem BW_InWindow_r0_pin (n_GetQueueType : BitVec 8) :
    Gen.NodeSites.BW_InWindow_r0 n_GetQueueType = (n_GetQueueType == (0#8)) := by pin_tac Gen.NodeSites.BW_InWindow_r0

theorem BW_InMainProbation_r0_pin (n_GetQueueType : BitVec 8) :
    Gen.NodeSites.BW_InMainProbation_r0 n_GetQueueType = (n_GetQueueType == (1#8)) := by pin_tac Gen.NodeSites.BW_InMainProbation_r0

theorem BW_InMainProtected_r0_pin (n_GetQueueType : BitVec 8) :
    Gen.NodeSites.BW_InMainProtected_r0 n_GetQueueType = (n_GetQueueType == (2#8)) := by pin_tac Gen.NodeSites.BW_InMainProtected_r0

theorem Equals_c0_pin (a__nil : Bool) :
    Gen.NodeSites.Equals_c0 a__nil = a__nil := by pin_tac Gen.NodeSites.Equals_c0

theorem Equals_c1_pin (b__nil : Bool) :
    Gen.NodeSites.Equals_c1 b__nil = b__nil := by pin_tac Gen.NodeSites.Equals_c1

theorem NewManager_c0_pin (c_WithSize : Bool) :
    Gen.NodeSites.NewManager_c0 c_WithSize = c_WithSize := by pin_tac Gen.NodeSites.NewManager_c0

theorem NewManager_c1_pin (c_WithExpiration : Bool) :
    Gen.NodeSites.NewManager_c1 c_WithExpiration = c_WithExpiration := by pin_tac Gen.NodeSites.NewManager_c1

theorem NewManager_c2_pin (c_WithRefresh : Bool) :
    Gen.NodeSites.NewManager_c2 c_WithRefresh = c_WithRefresh := by pin_tac Gen.NodeSites.NewManager_c2

theorem NewManager_c3_pin (c_WithWeight : Bool) :
    Gen.NodeSites.NewManager_c3 c_WithWeight = c_WithWeight := by pin_tac Gen.NodeSites.NewManager_c3

theorem siteParams_pin : Gen.NodeSites.siteParams = [("B_HasExpired_r0", []),
  ("B_IsFresh_r0", []),
  ("B_Weight_r0", []),
  ("B_IsAlive_r0", []),
  ("B_InWindow_r0", ["n_GetQueueType"]),
  ("B_InMainProbation_r0", ["n_GetQueueType"]),
  ("B_InMainProtected_r0", ["n_GetQueueType"]),
  ("BE_SetPrevExp_c0", ["v__nil"]),
  ("BE_SetNextExp_c0", ["v__nil"]),
  ("BE_HasExpired_r0", ["n_ExpiresAt", "now"]),
  ("BE_ExpiresAt_r0", ["n_expiresAt_Load"]),
  ("BE_CASExpiresAt_r0", ["n_expiresAt_CompareAndSwap_old_new"]),
  ("BE_IsFresh_r0", []),
  ("BE_Weight_r0", []),
  ("BE_IsAlive_r0", ["n_state_Load"]),
  ("BE_IsRetired_r0", ["n_state_Load"]),
  ("BE_IsDead_r0", ["n_state_Load"]),
  ("BE_InWindow_r0", ["n_GetQueueType"]),
  ("BE_InMainProbation_r0", ["n_GetQueueType"]),
  ("BE_InMainProtected_r0", ["n_GetQueueType"]),
  ("BER_SetPrevExp_c0", ["v__nil"]),
  ("BER_SetNextExp_c0", ["v__nil"]),
  ("BER_HasExpired_r0", ["n_ExpiresAt", "now"]),
  ("BER_ExpiresAt_r0", ["n_expiresAt_Load"]),
  ("BER_CASExpiresAt_r0", ["n_expiresAt_CompareAndSwap_old_new"]),
  ("BER_RefreshableAt_r0", ["n_refreshableAt_Load"]),
  ("BER_CASRefreshableAt_r0", ["n_refreshableAt_CompareAndSwap_old_new"]),
  ("BER_IsFresh_r0", ["n_IsAlive", "n_RefreshableAt", "now"]),
  ("BER_Weight_r0", []),
  ("BER_IsAlive_r0", ["n_state_Load"]),
  ("BER_IsRetired_r0", ["n_state_Load"]),
  ("BER_IsDead_r0", ["n_state_Load"]),
  ("BER_InWindow_r0", ["n_GetQueueType"]),
  ("BER_InMainProbation_r0", ["n_GetQueueType"]),
  ("BER_InMainProtected_r0", ["n_GetQueueType"]),
  ("BERW_SetPrev_c0", ["v__nil"]),
  ("BERW_SetNext_c0", ["v__nil"]),
  ("BERW_SetPrevExp_c0", ["v__nil"]),
  ("BERW_SetNextExp_c0", ["v__nil"]),
  ("BERW_HasExpired_r0", ["n_ExpiresAt", "now"]),
  ("BERW_ExpiresAt_r0", ["n_expiresAt_Load"]),
  ("BERW_CASExpiresAt_r0", ["n_expiresAt_CompareAndSwap_old_new"]),
  ("BERW_RefreshableAt_r0", ["n_refreshableAt_Load"]),
  ("BERW_CASRefreshableAt_r0", ["n_refreshableAt_CompareAndSwap_old_new"]),
  ("BERW_IsFresh_r0", ["n_IsAlive", "n_RefreshableAt", "now"]),
  ("BERW_Weight_r0", ["n_weight"]),
  ("BERW_IsAlive_r0", ["n_state_Load"]),
  ("BERW_IsRetired_r0", ["n_state_Load"]),
  ("BERW_IsDead_r0", ["n_state_Load"]),
  ("BERW_GetQueueType_r0", ["n_queueType"]),
  ("BERW_SetQueueType_a0", ["queueType"]),
  ("BERW_InWindow_r0", ["n_GetQueueType"]),
  ("BERW_InMainProbation_r0", ["n_GetQueueType"]),
  ("BERW_InMainProtected_r0", ["n_GetQueueType"]),
  ("BEW_SetPrev_c0", ["v__nil"]),
  ("BEW_SetNext_c0", ["v__nil"]),
  ("BEW_SetPrevExp_c0", ["v__nil"]),
  ("BEW_SetNextExp_c0", ["v__nil"]),
  ("BEW_HasExpired_r0", ["n_ExpiresAt", "now"]),
  ("BEW_ExpiresAt_r0", ["n_expiresAt_Load"]),
  ("BEW_CASExpiresAt_r0", ["n_expiresAt_CompareAndSwap_old_new"]),
  ("BEW_IsFresh_r0", []),
  ("BEW_Weight_r0", ["n_weight"]),
  ("BEW_IsAlive_r0", ["n_state_Load"]),
  ("BEW_IsRetired_r0", ["n_state_Load"]),
  ("BEW_IsDead_r0", ["n_state_Load"]),
  ("BEW_GetQueueType_r0", ["n_queueType"]),
  ("BEW_SetQueueType_a0", ["queueType"]),
  ("BEW_InWindow_r0", ["n_GetQueueType"]),
  ("BEW_InMainProbation_r0", ["n_GetQueueType"]),
  ("BEW_InMainProtected_r0", ["n_GetQueueType"]),
  ("BR_HasExpired_r0", []),
  ("BR_RefreshableAt_r0", ["n_refreshableAt_Load"]),
  ("BR_CASRefreshableAt_r0", ["n_refreshableAt_CompareAndSwap_old_new"]),
  ("BR_IsFresh_r0", ["n_IsAlive", "n_RefreshableAt", "now"]),
  ("BR_Weight_r0", []),
  ("BR_IsAlive_r0", []),
  ("BR_InWindow_r0", ["n_GetQueueType"]),
  ("BR_InMainProbation_r0", ["n_GetQueueType"]),
  ("BR_InMainProtected_r0", ["n_GetQueueType"]),
  ("BRW_SetPrev_c0", ["v__nil"]),
  ("BRW_SetNext_c0", ["v__nil"]),
  ("BRW_HasExpired_r0", []),
  ("BRW_RefreshableAt_r0", ["n_refreshableAt_Load"]),
  ("BRW_CASRefreshableAt_r0", ["n_refreshableAt_CompareAndSwap_old_new"]),
  ("BRW_IsFresh_r0", ["n_IsAlive", "n_RefreshableAt", "now"]),
  ("BRW_Weight_r0", ["n_weight"]),
  ("BRW_IsAlive_r0", ["n_state_Load"]),
  ("BRW_IsRetired_r0", ["n_state_Load"]),
  ("BRW_IsDead_r0", ["n_state_Load"]),
  ("BRW_GetQueueType_r0", ["n_queueType"]),
  ("BRW_SetQueueType_a0", ["queueType"]),
  ("BRW_InWindow_r0", ["n_GetQueueType"]),
  ("BRW_InMainProbation_r0", ["n_GetQueueType"]),
  ("BRW_InMainProtected_r0", ["n_GetQueueType"]),
  ("BS_SetPrev_c0", ["v__nil"]),
  ("BS_SetNext_c0", ["v__nil"]),
  ("BS_HasExpired_r0", []),
  ("BS_IsFresh_r0", []),
  ("BS_Weight_r0", []),
  ("BS_IsAlive_r0", ["n_state_Load"]),
  ("BS_IsRetired_r0", ["n_state_Load"]),
  ("BS_IsDead_r0", ["n_state_Load"]),
  ("BS_GetQueueType_r0", ["n_queueType"]),
  ("BS_SetQueueType_a0", ["queueType"]),
  ("BS_InWindow_r0", ["n_GetQueueType"]),
  ("BS_InMainProbation_r0", ["n_GetQueueType"]),
  ("BS_InMainProtected_r0", ["n_GetQueueType"]),
  ("BSE_SetPrev_c0", ["v__nil"]),
  ("BSE_SetNext_c0", ["v__nil"]),
  ("BSE_SetPrevExp_c0", ["v__nil"]),
  ("BSE_SetNextExp_c0", ["v__nil"]),
  ("BSE_HasExpired_r0", ["n_ExpiresAt", "now"]),
  ("BSE_ExpiresAt_r0", ["n_expiresAt_Load"]),
  ("BSE_CASExpiresAt_r0", ["n_expiresAt_CompareAndSwap_old_new"]),
  ("BSE_IsFresh_r0", []),
  ("BSE_Weight_r0", []),
  ("BSE_IsAlive_r0", ["n_state_Load"]),
  ("BSE_IsRetired_r0", ["n_state_Load"]),
  ("BSE_IsDead_r0", ["n_state_Load"]),
  ("BSE_GetQueueType_r0", ["n_queueType"]),
  ("BSE_SetQueueType_a0", ["queueType"]),
  ("BSE_InWindow_r0", ["n_GetQueueType"]),
  ("BSE_InMainProbation_r0", ["n_GetQueueType"]),
  ("BSE_InMainProtected_r0", ["n_GetQueueType"]),
  ("BSER_SetPrev_c0", ["v__nil"]),
  ("BSER_SetNext_c0", ["v__nil"]),
  ("BSER_SetPrevExp_c0", ["v__nil"]),
  ("BSER_SetNextExp_c0", ["v__nil"]),
  ("BSER_HasExpired_r0", ["n_ExpiresAt", "now"]),
  ("BSER_ExpiresAt_r0", ["n_expiresAt_Load"]),
  ("BSER_CASExpiresAt_r0", ["n_expiresAt_CompareAndSwap_old_new"]),
  ("BSER_RefreshableAt_r0", ["n_refreshableAt_Load"]),
  ("BSER_CASRefreshableAt_r0", ["n_refreshableAt_CompareAndSwap_old_new"]),
  ("BSER_IsFresh_r0", ["n_IsAlive", "n_RefreshableAt", "now"]),
  ("BSER_Weight_r0", []),
  ("BSER_IsAlive_r0", ["n_state_Load"]),
  ("BSER_IsRetired_r0", ["n_state_Load"]),
  ("BSER_IsDead_r0", ["n_state_Load"]),
  ("BSER_GetQueueType_r0", ["n_queueType"]),
  ("BSER_SetQueueType_a0", ["queueType"]),
  ("BSER_InWindow_r0", ["n_GetQueueType"]),
  ("BSER_InMainProbation_r0", ["n_GetQueueType"]),
  ("BSER_InMainProtected_r0", ["n_GetQueueType"]),
  ("BSR_SetPrev_c0", ["v__nil"]),
  ("BSR_SetNext_c0", ["v__nil"]),
  ("BSR_HasExpired_r0", []),
  ("BSR_RefreshableAt_r0", ["n_refreshableAt_Load"]),
  ("BSR_CASRefreshableAt_r0", ["n_refreshableAt_CompareAndSwap_old_new"]),
  ("BSR_IsFresh_r0", ["n_IsAlive", "n_RefreshableAt", "now"]),
  ("BSR_Weight_r0", []),
  ("BSR_IsAlive_r0", ["n_state_Load"]),
  ("BSR_IsRetired_r0", ["n_state_Load"]),
  ("BSR_IsDead_r0", ["n_state_Load"]),
  ("BSR_GetQueueType_r0", ["n_queueType"]),
  ("BSR_SetQueueType_a0", ["queueType"]),
  ("BSR_InWindow_r0", ["n_GetQueueType"]),
  ("BSR_InMainProbation_r0", ["n_GetQueueType"]),
  ("BSR_InMainProtected_r0", ["n_GetQueueType"]),
  ("BW_SetPrev_c0", ["v__nil"]),
  ("BW_SetNext_c0", ["v__nil"]),
  ("BW_HasExpired_r0", []),
  ("BW_IsFresh_r0", []),
  ("BW_Weight_r0", ["n_weight"]),
  ("BW_IsAlive_r0", ["n_state_Load"]),
  ("BW_IsRetired_r0", ["n_state_Load"]),
  ("BW_IsDead_r0", ["n_state_Load"]),
  ("BW_GetQueueType_r0", ["n_queueType"]),
  ("BW_SetQueueType_a0", ["queueType"]),
  ("BW_InWindow_r0", ["n_GetQueueType"]),
  ("BW_InMainProbation_r0", ["n_GetQueueType"]),
  ("BW_InMainProtected_r0", ["n_GetQueueType"]),
  ("Equals_c0", ["a__nil"]),
  ("Equals_c1", ["b__nil"]),
  ("NewManager_c0", ["c_WithSize"]),
  ("NewManager_c1", ["c_WithExpiration"]),
  ("NewManager_c2", ["c_WithRefresh"]),
  ("NewManager_c3", ["c_WithWeight"])] := by rfl

theorem shape_pin : Gen.NodeSites.shape = [("NewB", [0, 0, 1, 1, 0, 0, 0]),
  ("CastPointerToB", [0, 0, 0, 1, 0, 0, 0]),
  ("B_Key", [0, 0, 0, 1, 0, 0, 0]),
  ("B_Value", [0, 0, 0, 1, 0, 0, 0]),
  ("B_AsPointer", [0, 0, 0, 1, 0, 0, 0]),
  ("B_Prev", [0, 0, 0, 0, 0, 0, 0]),
  ("B_SetPrev", [0, 0, 0, 0, 0, 0, 0]),
  ("B_Next", [0, 0, 0, 0, 0, 0, 0]),
  ("B_SetNext", [0, 0, 0, 0, 0, 0, 0]),
  ("B_PrevExp", [0, 0, 0, 0, 0, 0, 0]),
  ("B_SetPrevExp", [0, 0, 0, 0, 0, 0, 0]),
  ("B_NextExp", [0, 0, 0, 0, 0, 0, 0]),
  ("B_SetNextExp", [0, 0, 0, 0, 0, 0, 0]),
  ("B_HasExpired", [0, 0, 0, 1, 0, 0, 0]),
  ("B_ExpiresAt", [0, 0, 0, 0, 0, 0, 0]),
  ("B_CASExpiresAt", [0, 0, 0, 0, 0, 0, 0]),
  ("B_SetExpiresAt", [0, 0, 0, 0, 0, 0, 0]),
  ("B_RefreshableAt", [0, 0, 0, 0, 0, 0, 0]),
  ("B_CASRefreshableAt", [0, 0, 0, 0, 0, 0, 0]),
  ("B_SetRefreshableAt", [0, 0, 0, 0, 0, 0, 0]),
  ("B_IsFresh", [0, 0, 0, 1, 0, 0, 0]),
  ("B_Weight", [0, 0, 0, 1, 0, 0, 0]),
  ("B_IsAlive", [0, 0, 0, 1, 0, 0, 0]),
  ("B_IsRetired", [0, 0, 0, 0, 0, 0, 0]),
  ("B_Retire", [0, 0, 0, 0, 0, 0, 0]),
  ("B_IsDead", [0, 0, 0, 0, 0, 0, 0]),
  ("B_Die", [0, 0, 0, 0, 0, 0, 0]),
  ("B_GetQueueType", [0, 0, 0, 0, 0, 0, 0]),
  ("B_SetQueueType", [0, 0, 0, 0, 0, 0, 0]),
  ("B_InWindow", [0, 0, 0, 1, 0, 0, 0]),
  ("B_MakeWindow", [0, 0, 0, 0, 0, 0, 0]),
  ("B_InMainProbation", [0, 0, 0, 1, 0, 0, 0]),
  ("B_MakeMainProbation", [0, 0, 0, 0, 0, 0, 0]),
  ("B_InMainProtected", [0, 0, 0, 1, 0, 0, 0]),
  ("B_MakeMainProtected", [0, 0, 0, 0, 0, 0, 0]),
  ("NewBE", [0, 0, 1, 1, 0, 0, 0]),
  ("CastPointerToBE", [0, 0, 0, 1, 0, 0, 0]),
  ("BE_Key", [0, 0, 0, 1, 0, 0, 0]),
  ("BE_Value", [0, 0, 0, 1, 0, 0, 0]),
  ("BE_AsPointer", [0, 0, 0, 1, 0, 0, 0]),
  ("BE_Prev", [0, 0, 0, 0, 0, 0, 0]),
  ("BE_SetPrev", [0, 0, 0, 0, 0, 0, 0]),
  ("BE_Next", [0, 0, 0, 0, 0, 0, 0]),
  ("BE_SetNext", [0, 0, 0, 0, 0, 0, 0]),
  ("BE_PrevExp", [0, 0, 0, 1, 0, 0, 0]),
  ("BE_SetPrevExp", [1, 0, 2, 0, 0, 0, 0]),
  ("BE_NextExp", [0, 0, 0, 1, 0, 0, 0]),
  ("BE_SetNextExp", [1, 0, 2, 0, 0, 0, 0]),
  ("BE_HasExpired", [0, 0, 0, 1, 0, 0, 0]),
  ("BE_ExpiresAt", [0, 0, 0, 1, 0, 0, 0]),
  ("BE_CASExpiresAt", [0, 0, 0, 1, 0, 0, 0]),
  ("BE_SetExpiresAt", [0, 0, 0, 0, 0, 0, 0]),
  ("BE_RefreshableAt", [0, 0, 0, 0, 0, 0, 0]),
  ("BE_CASRefreshableAt", [0, 0, 0, 0, 0, 0, 0]),
  ("BE_SetRefreshableAt", [0, 0, 0, 0, 0, 0, 0]),
  ("BE_IsFresh", [0, 0, 0, 1, 0, 0, 0]),
  ("BE_Weight", [0, 0, 0, 1, 0, 0, 0]),
  ("BE_IsAlive", [0, 0, 0, 1, 0, 0, 0]),
  ("BE_IsRetired", [0, 0, 0, 1, 0, 0, 0]),
  ("BE_Retire", [0, 0, 0, 0, 0, 0, 0]),
  ("BE_IsDead", [0, 0, 0, 1, 0, 0, 0]),
  ("BE_Die", [0, 0, 0, 0, 0, 0, 0]),
  ("BE_GetQueueType", [0, 0, 0, 0, 0, 0, 0]),
  ("BE_SetQueueType", [0, 0, 0, 0, 0, 0, 0]),
  ("BE_InWindow", [0, 0, 0, 1, 0, 0, 0]),
  ("BE_MakeWindow", [0, 0, 0, 0, 0, 0, 0]),
  ("BE_InMainProbation", [0, 0, 0, 1, 0, 0, 0]),
  ("BE_MakeMainProbation", [0, 0, 0, 0, 0, 0, 0]),
  ("BE_InMainProtected", [0, 0, 0, 1, 0, 0, 0]),
  ("BE_MakeMainProtected", [0, 0, 0, 0, 0, 0, 0]),
  ("NewBER", [0, 0, 1, 1, 0, 0, 0]),
  ("CastPointerToBER", [0, 0, 0, 1, 0, 0, 0]),
  ("BER_Key", [0, 0, 0, 1, 0, 0, 0]),
  ("BER_Value", [0, 0, 0, 1, 0, 0, 0]),
  ("BER_AsPointer", [0, 0, 0, 1, 0, 0, 0]),
  ("BER_Prev", [0, 0, 0, 0, 0, 0, 0]),
  ("BER_SetPrev", [0, 0, 0, 0, 0, 0, 0]),
  ("BER_Next", [0, 0, 0, 0, 0, 0, 0]),
  ("BER_SetNext", [0, 0, 0, 0, 0, 0, 0]),
  ("BER_PrevExp", [0, 0, 0, 1, 0, 0, 0]),
  ("BER_SetPrevExp", [1, 0, 2, 0, 0, 0, 0]),
  ("BER_NextExp", [0, 0, 0, 1, 0, 0, 0]),
  ("BER_SetNextExp", [1, 0, 2, 0, 0, 0, 0]),
  ("BER_HasExpired", [0, 0, 0, 1, 0, 0, 0]),
  ("BER_ExpiresAt", [0, 0, 0, 1, 0, 0, 0]),
  ("BER_CASExpiresAt", [0, 0, 0, 1, 0, 0, 0]),
  ("BER_SetExpiresAt", [0, 0, 0, 0, 0, 0, 0]),
  ("BER_RefreshableAt", [0, 0, 0, 1, 0, 0, 0]),
  ("BER_CASRefreshableAt", [0, 0, 0, 1, 0, 0, 0]),
  ("BER_SetRefreshableAt", [0, 0, 0, 0, 0, 0, 0]),
  ("BER_IsFresh", [0, 0, 0, 1, 0, 0, 0]),
  ("BER_Weight", [0, 0, 0, 1, 0, 0, 0]),
  ("BER_IsAlive", [0, 0, 0, 1, 0, 0, 0]),
  ("BER_IsRetired", [0, 0, 0, 1, 0, 0, 0]),
  ("BER_Retire", [0, 0, 0, 0, 0, 0, 0]),
  ("BER_IsDead", [0, 0, 0, 1, 0, 0, 0]),
  ("BER_Die", [0, 0, 0, 0, 0, 0, 0]),
  ("BER_GetQueueType", [0, 0, 0, 0, 0, 0, 0]),
  ("BER_SetQueueType", [0, 0, 0, 0, 0, 0, 0]),
  ("BER_InWindow", [0, 0, 0, 1, 0, 0, 0]),
  ("BER_MakeWindow", [0, 0, 0, 0, 0, 0, 0]),
  ("BER_InMainProbation", [0, 0, 0, 1, 0, 0, 0]),
  ("BER_MakeMainProbation", [0, 0, 0, 0, 0, 0, 0]),
  ("BER_InMainProtected", [0, 0, 0, 1, 0, 0, 0]),
  ("BER_MakeMainProtected", [0, 0, 0, 0, 0, 0, 0]),
  ("NewBERW", [0, 0, 1, 1, 0, 0, 0]),
  ("CastPointerToBERW", [0, 0, 0, 1, 0, 0, 0]),
  ("BERW_Key", [0, 0, 0, 1, 0, 0, 0]),
  ("BERW_Value", [0, 0, 0, 1, 0, 0, 0]),
  ("BERW_AsPointer", [0, 0, 0, 1, 0, 0, 0]),
  ("BERW_Prev", [0, 0, 0, 1, 0, 0, 0]),
  ("BERW_SetPrev", [1, 0, 2, 0, 0, 0, 0]),
  ("BERW_Next", [0, 0, 0, 1, 0, 0, 0]),
  ("BERW_SetNext", [1, 0, 2, 0, 0, 0, 0]),
  ("BERW_PrevExp", [0, 0, 0, 1, 0, 0, 0]),
  ("BERW_SetPrevExp", [1, 0, 2, 0, 0, 0, 0]),
  ("BERW_NextExp", [0, 0, 0, 1, 0, 0, 0]),
  ("BERW_SetNextExp", [1, 0, 2, 0, 0, 0, 0]),
  ("BERW_HasExpired", [0, 0, 0, 1, 0, 0, 0]),
  ("BERW_ExpiresAt", [0, 0, 0, 1, 0, 0, 0]),
  ("BERW_CASExpiresAt", [0, 0, 0, 1, 0, 0, 0]),
  ("BERW_SetExpiresAt", [0, 0, 0, 0, 0, 0, 0]),
  ("BERW_RefreshableAt", [0, 0, 0, 1, 0, 0, 0]),
  ("BERW_CASRefreshableAt", [0, 0, 0, 1, 0, 0, 0]),
  ("BERW_SetRefreshableAt", [0, 0, 0, 0, 0, 0, 0]),
  ("BERW_IsFresh", [0, 0, 0, 1, 0, 0, 0]),
  ("BERW_Weight", [0, 0, 0, 1, 0, 0, 0]),
  ("BERW_IsAlive", [0, 0, 0, 1, 0, 0, 0]),
  ("BERW_IsRetired", [0, 0, 0, 1, 0, 0, 0]),
  ("BERW_Retire", [0, 0, 0, 0, 0, 0, 0]),
  ("BERW_IsDead", [0, 0, 0, 1, 0, 0, 0]),
  ("BERW_Die", [0, 0, 0, 0, 0, 0, 0]),
  ("BERW_GetQueueType", [0, 0, 0, 1, 0, 0, 0]),
  ("BERW_SetQueueType", [0, 0, 1, 0, 0, 0, 0]),
  ("BERW_InWindow", [0, 0, 0, 1, 0, 0, 0]),
  ("BERW_MakeWindow", [0, 0, 0, 0, 0, 0, 0]),
  ("BERW_InMainProbation", [0, 0, 0, 1, 0, 0, 0]),
  ("BERW_MakeMainProbation", [0, 0, 0, 0, 0, 0, 0]),
  ("BERW_InMainProtected", [0, 0, 0, 1, 0, 0, 0]),
  ("BERW_MakeMainProtected", [0, 0, 0, 0, 0, 0, 0]),
  ("NewBEW", [0, 0, 1, 1, 0, 0, 0]),
  ("CastPointerToBEW", [0, 0, 0, 1, 0, 0, 0]),
  ("BEW_Key", [0, 0, 0, 1, 0, 0, 0]),
  ("BEW_Value", [0, 0, 0, 1, 0, 0, 0]),
  ("BEW_AsPointer", [0, 0, 0, 1, 0, 0, 0]),
  ("BEW_Prev", [0, 0, 0, 1, 0, 0, 0]),
  ("BEW_SetPrev", [1, 0, 2, 0, 0, 0, 0]),
  ("BEW_Next", [0, 0, 0, 1, 0, 0, 0]),
  ("BEW_SetNext", [1, 0, 2, 0, 0, 0, 0]),
  ("BEW_PrevExp", [0, 0, 0, 1, 0, 0, 0]),
  ("BEW_SetPrevExp", [1, 0, 2, 0, 0, 0, 0]),
  ("BEW_NextExp", [0, 0, 0, 1, 0, 0, 0]),
  ("BEW_SetNextExp", [1, 0, 2, 0, 0, 0, 0]),
  ("BEW_HasExpired", [0, 0, 0, 1, 0, 0, 0]),
  ("BEW_ExpiresAt", [0, 0, 0, 1, 0, 0, 0]),
  ("BEW_CASExpiresAt", [0, 0, 0, 1, 0, 0, 0]),
  ("BEW_SetExpiresAt", [0, 0, 0, 0, 0, 0, 0]),
  ("BEW_RefreshableAt", [0, 0, 0, 0, 0, 0, 0]),
  ("BEW_CASRefreshableAt", [0, 0, 0, 0, 0, 0, 0]),
  ("BEW_SetRefreshableAt", [0, 0, 0, 0, 0, 0, 0]),
  ("BEW_IsFresh", [0, 0, 0, 1, 0, 0, 0]),
  ("BEW_Weight", [0, 0, 0, 1, 0, 0, 0]),
  ("BEW_IsAlive", [0, 0, 0, 1, 0, 0, 0]),
  ("BEW_IsRetired", [0, 0, 0, 1, 0, 0, 0]),
  ("BEW_Retire", [0, 0, 0, 0, 0, 0, 0]),
  ("BEW_IsDead", [0, 0, 0, 1, 0, 0, 0]),
  ("BEW_Die", [0, 0, 0, 0, 0, 0, 0]),
  ("BEW_GetQueueType", [0, 0, 0, 1, 0, 0, 0]),
  ("BEW_SetQueueType", [0, 0, 1, 0, 0, 0, 0]),
  ("BEW_InWindow", [0, 0, 0, 1, 0, 0, 0]),
  ("BEW_MakeWindow", [0, 0, 0, 0, 0, 0, 0]),
  ("BEW_InMainProbation", [0, 0, 0, 1, 0, 0, 0]),
  ("BEW_MakeMainProbation", [0, 0, 0, 0, 0, 0, 0]),
  ("BEW_InMainProtected", [0, 0, 0, 1, 0, 0, 0]),
  ("BEW_MakeMainProtected", [0, 0, 0, 0, 0, 0, 0]),
  ("NewBR", [0, 0, 1, 1, 0, 0, 0]),
  ("CastPointerToBR", [0, 0, 0, 1, 0, 0, 0]),
  ("BR_Key", [0, 0, 0, 1, 0, 0, 0]),
  ("BR_Value", [0, 0, 0, 1, 0, 0, 0]),
  ("BR_AsPointer", [0, 0, 0, 1, 0, 0, 0]),
  ("BR_Prev", [0, 0, 0, 0, 0, 0, 0]),
  ("BR_SetPrev", [0, 0, 0, 0, 0, 0, 0]),
  ("BR_Next", [0, 0, 0, 0, 0, 0, 0]),
  ("BR_SetNext", [0, 0, 0, 0, 0, 0, 0]),
  ("BR_PrevExp", [0, 0, 0, 0, 0, 0, 0]),
  ("BR_SetPrevExp", [0, 0, 0, 0, 0, 0, 0]),
  ("BR_NextExp", [0, 0, 0, 0, 0, 0, 0]),
  ("BR_SetNextExp", [0, 0, 0, 0, 0, 0, 0]),
  ("BR_HasExpired", [0, 0, 0, 1, 0, 0, 0]),
  ("BR_ExpiresAt", [0, 0, 0, 0, 0, 0, 0]),
  ("BR_CASExpiresAt", [0, 0, 0, 0, 0, 0, 0]),
  ("BR_SetExpiresAt", [0, 0, 0, 0, 0, 0, 0]),
  ("BR_RefreshableAt", [0, 0, 0, 1, 0, 0, 0]),
  ("BR_CASRefreshableAt", [0, 0, 0, 1, 0, 0, 0]),
  ("BR_SetRefreshableAt", [0, 0, 0, 0, 0, 0, 0]),
  ("BR_IsFresh", [0, 0, 0, 1, 0, 0, 0]),
  ("BR_Weight", [0, 0, 0, 1, 0, 0, 0]),
  ("BR_IsAlive", [0, 0, 0, 1, 0, 0, 0]),
  ("BR_IsRetired", [0, 0, 0, 0, 0, 0, 0]),
  ("BR_Retire", [0, 0, 0, 0, 0, 0, 0]),
  ("BR_IsDead", [0, 0, 0, 0, 0, 0, 0]),
  ("BR_Die", [0, 0, 0, 0, 0, 0, 0]),
  ("BR_GetQueueType", [0, 0, 0, 0, 0, 0, 0]),
  ("BR_SetQueueType", [0, 0, 0, 0, 0, 0, 0]),
  ("BR_InWindow", [0, 0, 0, 1, 0, 0, 0]),
  ("BR_MakeWindow", [0, 0, 0, 0, 0, 0, 0]),
  ("BR_InMainProbation", [0, 0, 0, 1, 0, 0, 0]),
  ("BR_MakeMainProbation", [0, 0, 0, 0, 0, 0, 0]),
  ("BR_InMainProtected", [0, 0, 0, 1, 0, 0, 0]),
  ("BR_MakeMainProtected", [0, 0, 0, 0, 0, 0, 0]),
  ("NewBRW", [0, 0, 1, 1, 0, 0, 0]),
  ("CastPointerToBRW", [0, 0, 0, 1, 0, 0, 0]),
  ("BRW_Key", [0, 0, 0, 1, 0, 0, 0]),
  ("BRW_Value", [0, 0, 0, 1, 0, 0, 0]),
  ("BRW_AsPointer", [0, 0, 0, 1, 0, 0, 0]),
  ("BRW_Prev", [0, 0, 0, 1, 0, 0, 0]),
  ("BRW_SetPrev", [1, 0, 2, 0, 0, 0, 0]),
  ("BRW_Next", [0, 0, 0, 1, 0, 0, 0]),
  ("BRW_SetNext", [1, 0, 2, 0, 0, 0, 0]),
  ("BRW_PrevExp", [0, 0, 0, 0, 0, 0, 0]),
  ("BRW_SetPrevExp", [0, 0, 0, 0, 0, 0, 0]),
  ("BRW_NextExp", [0, 0, 0, 0, 0, 0, 0]),
  ("BRW_SetNextExp", [0, 0, 0, 0, 0, 0, 0]),
  ("BRW_HasExpired", [0, 0, 0, 1, 0, 0, 0]),
  ("BRW_ExpiresAt", [0, 0, 0, 0, 0, 0, 0]),
  ("BRW_CASExpiresAt", [0, 0, 0, 0, 0, 0, 0]),
  ("BRW_SetExpiresAt", [0, 0, 0, 0, 0, 0, 0]),
  ("BRW_RefreshableAt", [0, 0, 0, 1, 0, 0, 0]),
  ("BRW_CASRefreshableAt", [0, 0, 0, 1, 0, 0, 0]),
  ("BRW_SetRefreshableAt", [0, 0, 0, 0, 0, 0, 0]),
  ("BRW_IsFresh", [0, 0, 0, 1, 0, 0, 0]),
  ("BRW_Weight", [0, 0, 0, 1, 0, 0, 0]),
  ("BRW_IsAlive", [0, 0, 0, 1, 0, 0, 0]),
  ("BRW_IsRetired", [0, 0, 0, 1, 0, 0, 0]),
  ("BRW_Retire", [0, 0, 0, 0, 0, 0, 0]),
  ("BRW_IsDead", [0, 0, 0, 1, 0, 0, 0]),
  ("BRW_Die", [0, 0, 0, 0, 0, 0, 0]),
  ("BRW_GetQueueType", [0, 0, 0, 1, 0, 0, 0]),
  ("BRW_SetQueueType", [0, 0, 1, 0, 0, 0, 0]),
  ("BRW_InWindow", [0, 0, 0, 1, 0, 0, 0]),
  ("BRW_MakeWindow", [0, 0, 0, 0, 0, 0, 0]),
  ("BRW_InMainProbation", [0, 0, 0, 1, 0, 0, 0]),
  ("BRW_MakeMainProbation", [0, 0, 0, 0, 0, 0, 0]),
  ("BRW_InMainProtected", [0, 0, 0, 1, 0, 0, 0]),
  ("BRW_MakeMainProtected", [0, 0, 0, 0, 0, 0, 0]),
  ("NewBS", [0, 0, 1, 1, 0, 0, 0]),
  ("CastPointerToBS", [0, 0, 0, 1, 0, 0, 0]),
  ("BS_Key", [0, 0, 0, 1, 0, 0, 0]),
  ("BS_Value", [0, 0, 0, 1, 0, 0, 0]),
  ("BS_AsPointer", [0, 0, 0, 1, 0, 0, 0]),
  ("BS_Prev", [0, 0, 0, 1, 0, 0, 0]),
  ("BS_SetPrev", [1, 0, 2, 0, 0, 0, 0]),
  ("BS_Next", [0, 0, 0, 1, 0, 0, 0]),
  ("BS_SetNext", [1, 0, 2, 0, 0, 0, 0]),
  ("BS_PrevExp", [0, 0, 0, 0, 0, 0, 0]),
  ("BS_SetPrevExp", [0, 0, 0, 0, 0, 0, 0]),
  ("BS_NextExp", [0, 0, 0, 0, 0, 0, 0]),
  ("BS_SetNextExp", [0, 0, 0, 0, 0, 0, 0]),
  ("BS_HasExpired", [0, 0, 0, 1, 0, 0, 0]),
  ("BS_ExpiresAt", [0, 0, 0, 0, 0, 0, 0]),
  ("BS_CASExpiresAt", [0, 0, 0, 0, 0, 0, 0]),
  ("BS_SetExpiresAt", [0, 0, 0, 0, 0, 0, 0]),
  ("BS_RefreshableAt", [0, 0, 0, 0, 0, 0, 0]),
  ("BS_CASRefreshableAt", [0, 0, 0, 0, 0, 0, 0]),
  ("BS_SetRefreshableAt", [0, 0, 0, 0, 0, 0, 0]),
  ("BS_IsFresh", [0, 0, 0, 1, 0, 0, 0]),
  ("BS_Weight", [0, 0, 0, 1, 0, 0, 0]),
  ("BS_IsAlive", [0, 0, 0, 1, 0, 0, 0]),
  ("BS_IsRetired", [0, 0, 0, 1, 0, 0, 0]),
  ("BS_Retire", [0, 0, 0, 0, 0, 0, 0]),
  ("BS_IsDead", [0, 0, 0, 1, 0, 0, 0]),
  ("BS_Die", [0, 0, 0, 0, 0, 0, 0]),
  ("BS_GetQueueType", [0, 0, 0, 1, 0, 0, 0]),
  ("BS_SetQueueType", [0, 0, 1, 0, 0, 0, 0]),
  ("BS_InWindow", [0, 0, 0, 1, 0, 0, 0]),
  ("BS_MakeWindow", [0, 0, 0, 0, 0, 0, 0]),
  ("BS_InMainProbation", [0, 0, 0, 1, 0, 0, 0]),
  ("BS_MakeMainProbation", [0, 0, 0, 0, 0, 0, 0]),
  ("BS_InMainProtected", [0, 0, 0, 1, 0, 0, 0]),
  ("BS_MakeMainProtected", [0, 0, 0, 0, 0, 0, 0]),
  ("NewBSE", [0, 0, 1, 1, 0, 0, 0]),
  ("CastPointerToBSE", [0, 0, 0, 1, 0, 0, 0]),
  ("BSE_Key", [0, 0, 0, 1, 0, 0, 0]),
  ("BSE_Value", [0, 0, 0, 1, 0, 0, 0]),
  ("BSE_AsPointer", [0, 0, 0, 1, 0, 0, 0]),
  ("BSE_Prev", [0, 0, 0, 1, 0, 0, 0]),
  ("BSE_SetPrev", [1, 0, 2, 0, 0, 0, 0]),
  ("BSE_Next", [0, 0, 0, 1, 0, 0, 0]),
  ("BSE_SetNext", [1, 0, 2, 0, 0, 0, 0]),
  ("BSE_PrevExp", [0, 0, 0, 1, 0, 0, 0]),
  ("BSE_SetPrevExp", [1, 0, 2, 0, 0, 0, 0]),
  ("BSE_NextExp", [0, 0, 0, 1, 0, 0, 0]),
  ("BSE_SetNextExp", [1, 0, 2, 0, 0, 0, 0]),
  ("BSE_HasExpired", [0, 0, 0, 1, 0, 0, 0]),
  ("BSE_ExpiresAt", [0, 0, 0, 1, 0, 0, 0]),
  ("BSE_CASExpiresAt", [0, 0, 0, 1, 0, 0, 0]),
  ("BSE_SetExpiresAt", [0, 0, 0, 0, 0, 0, 0]),
  ("BSE_RefreshableAt", [0, 0, 0, 0, 0, 0, 0]),
  ("BSE_CASRefreshableAt", [0, 0, 0, 0, 0, 0, 0]),
  ("BSE_SetRefreshableAt", [0, 0, 0, 0, 0, 0, 0]),
  ("BSE_IsFresh", [0, 0, 0, 1, 0, 0, 0]),
  ("BSE_Weight", [0, 0, 0, 1, 0, 0, 0]),
  ("BSE_IsAlive", [0, 0, 0, 1, 0, 0, 0]),
  ("BSE_IsRetired", [0, 0, 0, 1, 0, 0, 0]),
  ("BSE_Retire", [0, 0, 0, 0, 0, 0, 0]),
  ("BSE_IsDead", [0, 0, 0, 1, 0, 0, 0]),
  ("BSE_Die", [0, 0, 0, 0, 0, 0, 0]),
  ("BSE_GetQueueType", [0, 0, 0, 1, 0, 0, 0]),
  ("BSE_SetQueueType", [0, 0, 1, 0, 0, 0, 0]),
  ("BSE_InWindow", [0, 0, 0, 1, 0, 0, 0]),
  ("BSE_MakeWindow", [0, 0, 0, 0, 0, 0, 0]),
  ("BSE_InMainProbation", [0, 0, 0, 1, 0, 0, 0]),
  ("BSE_MakeMainProbation", [0, 0, 0, 0, 0, 0, 0]),
  ("BSE_InMainProtected", [0, 0, 0, 1, 0, 0, 0]),
  ("BSE_MakeMainProtected", [0, 0, 0, 0, 0, 0, 0]),
  ("NewBSER", [0, 0, 1, 1, 0, 0, 0]),
  ("CastPointerToBSER", [0, 0, 0, 1, 0, 0, 0]),
  ("BSER_Key", [0, 0, 0, 1, 0, 0, 0]),
  ("BSER_Value", [0, 0, 0, 1, 0, 0, 0]),
  ("BSER_AsPointer", [0, 0, 0, 1, 0, 0, 0]),
  ("BSER_Prev", [0, 0, 0, 1, 0, 0, 0]),
  ("BSER_SetPrev", [1, 0, 2, 0, 0, 0, 0]),
  ("BSER_Next", [0, 0, 0, 1, 0, 0, 0]),
  ("BSER_SetNext", [1, 0, 2, 0, 0, 0, 0]),
  ("BSER_PrevExp", [0, 0, 0, 1, 0, 0, 0]),
  ("BSER_SetPrevExp", [1, 0, 2, 0, 0, 0, 0]),
  ("BSER_NextExp", [0, 0, 0, 1, 0, 0, 0]),
  ("BSER_SetNextExp", [1, 0, 2, 0, 0, 0, 0]),
  ("BSER_HasExpired", [0, 0, 0, 1, 0, 0, 0]),
  ("BSER_ExpiresAt", [0, 0, 0, 1, 0, 0, 0]),
  ("BSER_CASExpiresAt", [0, 0, 0, 1, 0, 0, 0]),
  ("BSER_SetExpiresAt", [0, 0, 0, 0, 0, 0, 0]),
  ("BSER_RefreshableAt", [0, 0, 0, 1, 0, 0, 0]),
  ("BSER_CASRefreshableAt", [0, 0, 0, 1, 0, 0, 0]),
  ("BSER_SetRefreshableAt", [0, 0, 0, 0, 0, 0, 0]),
  ("BSER_IsFresh", [0, 0, 0, 1, 0, 0, 0]),
  ("BSER_Weight", [0, 0, 0, 1, 0, 0, 0]),
  ("BSER_IsAlive", [0, 0, 0, 1, 0, 0, 0]),
  ("BSER_IsRetired", [0, 0, 0, 1, 0, 0, 0]),
  ("BSER_Retire", [0, 0, 0, 0, 0, 0, 0]),
  ("BSER_IsDead", [0, 0, 0, 1, 0, 0, 0]),
  ("BSER_Die", [0, 0, 0, 0, 0, 0, 0]),
  ("BSER_GetQueueType", [0, 0, 0, 1, 0, 0, 0]),
  ("BSER_SetQueueType", [0, 0, 1, 0, 0, 0, 0]),
  ("BSER_InWindow", [0, 0, 0, 1, 0, 0, 0]),
  ("BSER_MakeWindow", [0, 0, 0, 0, 0, 0, 0]),
  ("BSER_InMainProbation", [0, 0, 0, 1, 0, 0, 0]),
  ("BSER_MakeMainProbation", [0, 0, 0, 0, 0, 0, 0]),
  ("BSER_InMainProtected", [0, 0, 0, 1, 0, 0, 0]),
  ("BSER_MakeMainProtected", [0, 0, 0, 0, 0, 0, 0]),
  ("NewBSR", [0, 0, 1, 1, 0, 0, 0]),
  ("CastPointerToBSR", [0, 0, 0, 1, 0, 0, 0]),
  ("BSR_Key", [0, 0, 0, 1, 0, 0, 0]),
  ("BSR_Value", [0, 0, 0, 1, 0, 0, 0]),
  ("BSR_AsPointer", [0, 0, 0, 1, 0, 0, 0]),
  ("BSR_Prev", [0, 0, 0, 1, 0, 0, 0]),
  ("BSR_SetPrev", [1, 0, 2, 0, 0, 0, 0]),
  ("BSR_Next", [0, 0, 0, 1, 0, 0, 0]),
  ("BSR_SetNext", [1, 0, 2, 0, 0, 0, 0]),
  ("BSR_PrevExp", [0, 0, 0, 0, 0, 0, 0]),
  ("BSR_SetPrevExp", [0, 0, 0, 0, 0, 0, 0]),
  ("BSR_NextExp", [0, 0, 0, 0, 0, 0, 0]),
  ("BSR_SetNextExp", [0, 0, 0, 0, 0, 0, 0]),
  ("BSR_HasExpired", [0, 0, 0, 1, 0, 0, 0]),
  ("BSR_ExpiresAt", [0, 0, 0, 0, 0, 0, 0]),
  ("BSR_CASExpiresAt", [0, 0, 0, 0, 0, 0, 0]),
  ("BSR_SetExpiresAt", [0, 0, 0, 0, 0, 0, 0]),
  ("BSR_RefreshableAt", [0, 0, 0, 1, 0, 0, 0]),
  ("BSR_CASRefreshableAt", [0, 0, 0, 1, 0, 0, 0]),
  ("BSR_SetRefreshableAt", [0, 0, 0, 0, 0, 0, 0]),
  ("BSR_IsFresh", [0, 0, 0, 1, 0, 0, 0]),
  ("BSR_Weight", [0, 0, 0, 1, 0, 0, 0]),
  ("BSR_IsAlive", [0, 0, 0, 1, 0, 0, 0]),
  ("BSR_IsRetired", [0, 0, 0, 1, 0, 0, 0]),
  ("BSR_Retire", [0, 0, 0, 0, 0, 0, 0]),
  ("BSR_IsDead", [0, 0, 0, 1, 0, 0, 0]),
  ("BSR_Die", [0, 0, 0, 0, 0, 0, 0]),
  ("BSR_GetQueueType", [0, 0, 0, 1, 0, 0, 0]),
  ("BSR_SetQueueType", [0, 0, 1, 0, 0, 0, 0]),
  ("BSR_InWindow", [0, 0, 0, 1, 0, 0, 0]),
  ("BSR_MakeWindow", [0, 0, 0, 0, 0, 0, 0]),
  ("BSR_InMainProbation", [0, 0, 0, 1, 0, 0, 0]),
  ("BSR_MakeMainProbation", [0, 0, 0, 0, 0, 0, 0]),
  ("BSR_InMainProtected", [0, 0, 0, 1, 0, 0, 0]),
  ("BSR_MakeMainProtected", [0, 0, 0, 0, 0, 0, 0]),
  ("NewBW", [0, 0, 1, 1, 0, 0, 0]),
  ("CastPointerToBW", [0, 0, 0, 1, 0, 0, 0]),
  ("BW_Key", [0, 0, 0, 1, 0, 0, 0]),
  ("BW_Value", [0, 0, 0, 1, 0, 0, 0]),
  ("BW_AsPointer", [0, 0, 0, 1, 0, 0, 0]),
  ("BW_Prev", [0, 0, 0, 1, 0, 0, 0]),
  ("BW_SetPrev", [1, 0, 2, 0, 0, 0, 0]),
  ("BW_Next", [0, 0, 0, 1, 0, 0, 0]),
  ("BW_SetNext", [1, 0, 2, 0, 0, 0, 0]),
  ("BW_PrevExp", [0, 0, 0, 0, 0, 0, 0]),
  ("BW_SetPrevExp", [0, 0, 0, 0, 0, 0, 0]),
  ("BW_NextExp", [0, 0, 0, 0, 0, 0, 0]),
  ("BW_SetNextExp", [0, 0, 0, 0, 0, 0, 0]),
  ("BW_HasExpired", [0, 0, 0, 1, 0, 0, 0]),
  ("BW_ExpiresAt", [0, 0, 0, 0, 0, 0, 0]),
  ("BW_CASExpiresAt", [0, 0, 0, 0, 0, 0, 0]),
  ("BW_SetExpiresAt", [0, 0, 0, 0, 0, 0, 0]),
  ("BW_RefreshableAt", [0, 0, 0, 0, 0, 0, 0]),
  ("BW_CASRefreshableAt", [0, 0, 0, 0, 0, 0, 0]),
  ("BW_SetRefreshableAt", [0, 0, 0, 0, 0, 0, 0]),
  ("BW_IsFresh", [0, 0, 0, 1, 0, 0, 0]),
  ("BW_Weight", [0, 0, 0, 1, 0, 0, 0]),
  ("BW_IsAlive", [0, 0, 0, 1, 0, 0, 0]),
  ("BW_IsRetired", [0, 0, 0, 1, 0, 0, 0]),
  ("BW_Retire", [0, 0, 0, 0, 0, 0, 0]),
  ("BW_IsDead", [0, 0, 0, 1, 0, 0, 0]),
  ("BW_Die", [0, 0, 0, 0, 0, 0, 0]),
  ("BW_GetQueueType", [0, 0, 0, 1, 0, 0, 0]),
  ("BW_SetQueueType", [0, 0, 1, 0, 0, 0, 0]),
  ("BW_InWindow", [0, 0, 0, 1, 0, 0, 0]),
  ("BW_MakeWindow", [0, 0, 0, 0, 0, 0, 0]),
  ("BW_InMainProbation", [0, 0, 0, 1, 0, 0, 0]),
  ("BW_MakeMainProbation", [0, 0, 0, 0, 0, 0, 0]),
  ("BW_InMainProtected", [0, 0, 0, 1, 0, 0, 0]),
  ("BW_MakeMainProtected", [0, 0, 0, 0, 0, 0, 0]),
  ("Equals", [2, 0, 0, 3, 0, 0, 0]),
  ("NewManager", [4, 0, 26, 1, 0, 0, 12]),
  ("Manager_Create", [0, 0, 0, 1, 0, 0, 0]),
  ("Manager_FromPointer", [0, 0, 0, 1, 0, 0, 0]),
  ("Manager_IsNil", [0, 0, 0, 1, 0, 0, 0])] := by rfl

end OtterVerif.Pin.NodeSites
