/-
  Pin.DequeSites — HAND-OWNED (bootstrapped once by tools/mkpins.py, then reviewed): what every pure computation that
  the translator extracts into Gen.DequeSites is expected to mean.  Re-checked against the regenerated Gen.DequeSites on every
  run; a pin that no longer proves names the Go expression whose meaning changed.
-/
import OtterVerif.Gen.DequeSites

namespace OtterVerif.Pin.DequeSites
open OtterVerif OtterVerif.Gen.DequeSites

/-- `rfl` when the regenerated term is the recorded one; otherwise try to see through a harmless rewrite
    (operand order of commutative operators) -/
local macro "pin_tac" d:ident : tactic =>
  `(tactic| first
    | rfl
    | (simp only [$d:ident]; ac_rfl)
    | (simp [$d:ident, BitVec.add_comm, BitVec.and_comm, BitVec.or_comm, BitVec.xor_comm, BitVec.mul_comm, Bool.and_comm, Bool.or_comm]))

theorem Linked_PushBack_c0_pin (d_IsEmpty : Bool) :
    Gen.DequeSites.Linked_PushBack_c0 d_IsEmpty = d_IsEmpty := by pin_tac Gen.DequeSites.Linked_PushBack_c0

theorem Linked_PushBack_u0_pin (d_len : BitVec 64) :
    Gen.DequeSites.Linked_PushBack_u0 d_len = (d_len + (1#64)) := by pin_tac Gen.DequeSites.Linked_PushBack_u0

theorem Linked_UpdateNode_c0_pin (node_Equals_oldNext_nil : Bool) :
    Gen.DequeSites.Linked_UpdateNode_c0 node_Equals_oldNext_nil = node_Equals_oldNext_nil := by pin_tac Gen.DequeSites.Linked_UpdateNode_c0

theorem Linked_UpdateNode_c1_pin (node_Equals_d_tail_old : Bool) :
    Gen.DequeSites.Linked_UpdateNode_c1 node_Equals_d_tail_old = node_Equals_d_tail_old := by pin_tac Gen.DequeSites.Linked_UpdateNode_c1

theorem Linked_UpdateNode_c2_pin (node_Equals_oldPrev_nil : Bool) :
    Gen.DequeSites.Linked_UpdateNode_c2 node_Equals_oldPrev_nil = node_Equals_oldPrev_nil := by pin_tac Gen.DequeSites.Linked_UpdateNode_c2

theorem Linked_UpdateNode_c3_pin (node_Equals_d_head_old : Bool) :
    Gen.DequeSites.Linked_UpdateNode_c3 node_Equals_d_head_old = node_Equals_d_head_old := by pin_tac Gen.DequeSites.Linked_UpdateNode_c3

theorem Linked_PushFront_c0_pin (d_IsEmpty : Bool) :
    Gen.DequeSites.Linked_PushFront_c0 d_IsEmpty = d_IsEmpty := by pin_tac Gen.DequeSites.Linked_PushFront_c0

theorem Linked_PushFront_u0_pin (d_len : BitVec 64) :
    Gen.DequeSites.Linked_PushFront_u0 d_len = (d_len + (1#64)) := by pin_tac Gen.DequeSites.Linked_PushFront_u0

theorem Linked_PopFront_c0_pin (d_IsEmpty : Bool) :
    Gen.DequeSites.Linked_PopFront_c0 d_IsEmpty = d_IsEmpty := by pin_tac Gen.DequeSites.Linked_PopFront_c0

theorem Linked_NotContains_r0_pin (d_Contains_n : Bool) :
    Gen.DequeSites.Linked_NotContains_r0 d_Contains_n = (!d_Contains_n) := by pin_tac Gen.DequeSites.Linked_NotContains_r0

theorem Linked_Contains_r0_pin (node_Equals_d_getNext_n__nil : Bool) (node_Equals_d_getPrev_n__nil : Bool) (node_Equals_d_head_n : Bool) :
    Gen.DequeSites.Linked_Contains_r0 node_Equals_d_getNext_n__nil node_Equals_d_getPrev_n__nil node_Equals_d_head_n = (((!node_Equals_d_getPrev_n__nil) || (!node_Equals_d_getNext_n__nil)) || node_Equals_d_head_n) := by pin_tac Gen.DequeSites.Linked_Contains_r0

theorem Linked_MoveToBack_c0_pin (node_Equals_n_d_tail : Bool) :
    Gen.DequeSites.Linked_MoveToBack_c0 node_Equals_n_d_tail = (!node_Equals_n_d_tail) := by pin_tac Gen.DequeSites.Linked_MoveToBack_c0

theorem Linked_MoveToFront_c0_pin (node_Equals_n_d_head : Bool) :
    Gen.DequeSites.Linked_MoveToFront_c0 node_Equals_n_d_head = (!node_Equals_n_d_head) := by pin_tac Gen.DequeSites.Linked_MoveToFront_c0

theorem Linked_Delete_c0_pin (node_Equals_prev_nil : Bool) :
    Gen.DequeSites.Linked_Delete_c0 node_Equals_prev_nil = node_Equals_prev_nil := by pin_tac Gen.DequeSites.Linked_Delete_c0

theorem Linked_Delete_c1_pin (node_Equals_d_head_n : Bool) (node_Equals_next_nil : Bool) :
    Gen.DequeSites.Linked_Delete_c1 node_Equals_d_head_n node_Equals_next_nil = (node_Equals_next_nil && (!node_Equals_d_head_n)) := by pin_tac Gen.DequeSites.Linked_Delete_c1

theorem Linked_Delete_c2_pin (node_Equals_next_nil : Bool) :
    Gen.DequeSites.Linked_Delete_c2 node_Equals_next_nil = node_Equals_next_nil := by pin_tac Gen.DequeSites.Linked_Delete_c2

theorem Linked_Delete_u0_pin (d_len : BitVec 64) :
    Gen.DequeSites.Linked_Delete_u0 d_len = (d_len - (1#64)) := by pin_tac Gen.DequeSites.Linked_Delete_u0

theorem Linked_Clear_c0_pin (d_IsEmpty : Bool) :
    Gen.DequeSites.Linked_Clear_c0 d_IsEmpty = (!d_IsEmpty) := by pin_tac Gen.DequeSites.Linked_Clear_c0

theorem Linked_Len_r0_pin (d_len : BitVec 64) :
    Gen.DequeSites.Linked_Len_r0 d_len = d_len := by pin_tac Gen.DequeSites.Linked_Len_r0

theorem Linked_IsEmpty_r0_pin (d_Len : BitVec 64) :
    Gen.DequeSites.Linked_IsEmpty_r0 d_Len = (d_Len == (0#64)) := by pin_tac Gen.DequeSites.Linked_IsEmpty_r0

theorem Linked_All_c0_pin (node_Equals_cursor_nil : Bool) :
    Gen.DequeSites.Linked_All_c0 node_Equals_cursor_nil = (!node_Equals_cursor_nil) := by pin_tac Gen.DequeSites.Linked_All_c0

theorem Linked_All_c1_pin (yield_cursor : Bool) :
    Gen.DequeSites.Linked_All_c1 yield_cursor = (!yield_cursor) := by pin_tac Gen.DequeSites.Linked_All_c1

theorem Linked_Backward_c0_pin (node_Equals_cursor_nil : Bool) :
    Gen.DequeSites.Linked_Backward_c0 node_Equals_cursor_nil = (!node_Equals_cursor_nil) := by pin_tac Gen.DequeSites.Linked_Backward_c0

theorem Linked_Backward_c1_pin (yield_cursor : Bool) :
    Gen.DequeSites.Linked_Backward_c1 yield_cursor = (!yield_cursor) := by pin_tac Gen.DequeSites.Linked_Backward_c1

theorem Linked_setPrev_c0_pin (d_isExp : Bool) :
    Gen.DequeSites.Linked_setPrev_c0 d_isExp = d_isExp := by pin_tac Gen.DequeSites.Linked_setPrev_c0

theorem Linked_setNext_c0_pin (d_isExp : Bool) :
    Gen.DequeSites.Linked_setNext_c0 d_isExp = d_isExp := by pin_tac Gen.DequeSites.Linked_setNext_c0

theorem Linked_getNext_c0_pin (d_isExp : Bool) :
    Gen.DequeSites.Linked_getNext_c0 d_isExp = d_isExp := by pin_tac Gen.DequeSites.Linked_getNext_c0

theorem Linked_getPrev_c0_pin (d_isExp : Bool) :
    Gen.DequeSites.Linked_getPrev_c0 d_isExp = d_isExp := by pin_tac Gen.DequeSites.Linked_getPrev_c0

theorem siteParams_pin : Gen.DequeSites.siteParams = [("Linked_PushBack_c0", ["d_IsEmpty"]),
  ("Linked_PushBack_u0", ["d_len"]),
  ("Linked_UpdateNode_c0", ["node_Equals_oldNext_nil"]),
  ("Linked_UpdateNode_c1", ["node_Equals_d_tail_old"]),
  ("Linked_UpdateNode_c2", ["node_Equals_oldPrev_nil"]),
  ("Linked_UpdateNode_c3", ["node_Equals_d_head_old"]),
  ("Linked_PushFront_c0", ["d_IsEmpty"]),
  ("Linked_PushFront_u0", ["d_len"]),
  ("Linked_PopFront_c0", ["d_IsEmpty"]),
  ("Linked_NotContains_r0", ["d_Contains_n"]),
  ("Linked_Contains_r0", ["node_Equals_d_getNext_n__nil", "node_Equals_d_getPrev_n__nil", "node_Equals_d_head_n"]),
  ("Linked_MoveToBack_c0", ["node_Equals_n_d_tail"]),
  ("Linked_MoveToFront_c0", ["node_Equals_n_d_head"]),
  ("Linked_Delete_c0", ["node_Equals_prev_nil"]),
  ("Linked_Delete_c1", ["node_Equals_d_head_n", "node_Equals_next_nil"]),
  ("Linked_Delete_c2", ["node_Equals_next_nil"]),
  ("Linked_Delete_u0", ["d_len"]),
  ("Linked_Clear_c0", ["d_IsEmpty"]),
  ("Linked_Len_r0", ["d_len"]),
  ("Linked_IsEmpty_r0", ["d_Len"]),
  ("Linked_All_c0", ["node_Equals_cursor_nil"]),
  ("Linked_All_c1", ["yield_cursor"]),
  ("Linked_Backward_c0", ["node_Equals_cursor_nil"]),
  ("Linked_Backward_c1", ["yield_cursor"]),
  ("Linked_setPrev_c0", ["d_isExp"]),
  ("Linked_setNext_c0", ["d_isExp"]),
  ("Linked_getNext_c0", ["d_isExp"]),
  ("Linked_getPrev_c0", ["d_isExp"])] := by rfl

theorem shape_pin : Gen.DequeSites.shape = [("NewLinked", [0, 0, 0, 1, 0, 0, 0]),
  ("Linked_PushBack", [1, 1, 3, 0, 0, 0, 0]),
  ("Linked_UpdateNode", [4, 0, 4, 0, 0, 0, 0]),
  ("Linked_PushFront", [1, 1, 3, 0, 0, 0, 0]),
  ("Linked_PopFront", [1, 0, 1, 2, 0, 0, 0]),
  ("Linked_NotContains", [0, 0, 0, 1, 0, 0, 0]),
  ("Linked_Contains", [0, 0, 0, 1, 0, 0, 0]),
  ("Linked_MoveToBack", [1, 0, 0, 0, 0, 0, 0]),
  ("Linked_MoveToFront", [1, 0, 0, 0, 0, 0, 0]),
  ("Linked_Delete", [3, 1, 4, 0, 0, 0, 0]),
  ("Linked_Clear", [1, 0, 0, 0, 0, 0, 0]),
  ("Linked_Len", [0, 0, 0, 1, 0, 0, 0]),
  ("Linked_IsEmpty", [0, 0, 0, 1, 0, 0, 0]),
  ("Linked_Head", [0, 0, 0, 1, 0, 0, 0]),
  ("Linked_Tail", [0, 0, 0, 1, 0, 0, 0]),
  ("Linked_All", [2, 0, 2, 1, 0, 0, 0]),
  ("Linked_Backward", [2, 0, 2, 1, 0, 0, 0]),
  ("Linked_setPrev", [1, 0, 0, 0, 0, 0, 0]),
  ("Linked_setNext", [1, 0, 0, 0, 0, 0, 0]),
  ("Linked_getNext", [1, 0, 0, 2, 0, 0, 0]),
  ("Linked_getPrev", [1, 0, 0, 2, 0, 0, 0])] := by rfl

end OtterVerif.Pin.DequeSites
