/-
  Pin.Policy — HAND-OWNED (bootstrapped once by tools/mkpins.py, then reviewed): what every pure computation that
  the translator extracts into Gen.Policy is expected to mean.  Re-checked against the regenerated Gen.Policy on every
  run; a pin that no longer proves names the Go expression whose meaning changed.
-/
import OtterVerif.Gen.Policy

namespace OtterVerif.Pin.Policy
open OtterVerif OtterVerif.Gen.Policy

/-- `rfl` when the regenerated term is the recorded one; otherwise try to see through a harmless rewrite
    (operand order of commutative operators) -/
local macro "pin_tac" d:ident : tactic =>
  `(tactic| first
    | rfl
    | (simp only [$d:ident]; ac_rfl)
    | (simp [$d:ident, BitVec.add_comm, BitVec.and_comm, BitVec.or_comm, BitVec.xor_comm, BitVec.mul_comm, Bool.and_comm, Bool.or_comm]))

theorem access_c0_pin (n_InWindow : Bool) :
    Gen.Policy.access_c0 n_InWindow = n_InWindow := by pin_tac Gen.Policy.access_c0

theorem access_c1_pin (n_InMainProbation : Bool) :
    Gen.Policy.access_c1 n_InMainProbation = n_InMainProbation := by pin_tac Gen.Policy.access_c1

theorem access_c2_pin (n_InMainProtected : Bool) :
    Gen.Policy.access_c2 n_InMainProtected = n_InMainProtected := by pin_tac Gen.Policy.access_c2

theorem access_u0_pin (p_hitsInSample : BitVec 64) :
    Gen.Policy.access_u0 p_hitsInSample = (p_hitsInSample + (1#64)) := by pin_tac Gen.Policy.access_u0

theorem add_c0_pin (isAlive : Bool) :
    Gen.Policy.add_c0 isAlive = isAlive := by pin_tac Gen.Policy.add_c0

theorem add_c1_pin (p_maximum : BitVec 64) (p_weightedSize : BitVec 64) :
    Gen.Policy.add_c1 p_maximum p_weightedSize = (BitVec.ule (p_maximum >>> 1) p_weightedSize) := by pin_tac Gen.Policy.add_c1

theorem add_c2_pin (p_isWeighted : Bool) :
    Gen.Policy.add_c2 p_isWeighted = p_isWeighted := by pin_tac Gen.Policy.add_c2

theorem add_c3_pin (isAlive : Bool) :
    Gen.Policy.add_c3 isAlive = (!isAlive) := by pin_tac Gen.Policy.add_c3

theorem add_c4_pin (nodeWeight : BitVec 64) (p_maximum : BitVec 64) :
    Gen.Policy.add_c4 nodeWeight p_maximum = (BitVec.ult p_maximum nodeWeight) := by pin_tac Gen.Policy.add_c4

theorem add_c5_pin (nodeWeight : BitVec 64) (p_windowMaximum : BitVec 64) :
    Gen.Policy.add_c5 nodeWeight p_windowMaximum = (BitVec.ult p_windowMaximum nodeWeight) := by pin_tac Gen.Policy.add_c5

theorem add_a0_pin (n_Weight : BitVec 32) :
    Gen.Policy.add_a0 n_Weight = (BitVec.setWidth 64 n_Weight) := by pin_tac Gen.Policy.add_a0

theorem add_a1_pin (n_IsAlive : Bool) :
    Gen.Policy.add_a1 n_IsAlive = n_IsAlive := by pin_tac Gen.Policy.add_a1

theorem add_u0_pin (nodeWeight : BitVec 64) (p_weightedSize : BitVec 64) :
    Gen.Policy.add_u0 nodeWeight p_weightedSize = (p_weightedSize + nodeWeight) := by pin_tac Gen.Policy.add_u0

theorem add_u1_pin (nodeWeight : BitVec 64) (p_windowWeightedSize : BitVec 64) :
    Gen.Policy.add_u1 nodeWeight p_windowWeightedSize = (p_windowWeightedSize + nodeWeight) := by pin_tac Gen.Policy.add_u1

theorem add_a2_pin (p_maximum : BitVec 64) :
    Gen.Policy.add_a2 p_maximum = p_maximum := by pin_tac Gen.Policy.add_a2

theorem add_a3_pin (p_probation_Len : BitVec 64) (p_protected_Len : BitVec 64) (p_window_Len : BitVec 64) :
    Gen.Policy.add_a3 p_probation_Len p_protected_Len p_window_Len = ((p_window_Len + p_probation_Len) + p_protected_Len) := by pin_tac Gen.Policy.add_a3

theorem add_u2_pin (p_missesInSample : BitVec 64) :
    Gen.Policy.add_u2 p_missesInSample = (p_missesInSample + (1#64)) := by pin_tac Gen.Policy.add_u2

theorem add_u3_pin (nodeWeight : BitVec 64) (p_weightedSize : BitVec 64) :
    Gen.Policy.add_u3 nodeWeight p_weightedSize = (p_weightedSize - nodeWeight) := by pin_tac Gen.Policy.add_u3

theorem add_u4_pin (nodeWeight : BitVec 64) (p_windowWeightedSize : BitVec 64) :
    Gen.Policy.add_u4 nodeWeight p_windowWeightedSize = (p_windowWeightedSize - nodeWeight) := by pin_tac Gen.Policy.add_u4

theorem update_c0_pin (n_IsDead : Bool) :
    Gen.Policy.update_c0 n_IsDead = n_IsDead := by pin_tac Gen.Policy.update_c0

theorem update_c1_pin (p_queueOf_old__Contains_old : Bool) :
    Gen.Policy.update_c1 p_queueOf_old__Contains_old = (!p_queueOf_old__Contains_old) := by pin_tac Gen.Policy.update_c1

theorem update_c2_pin (n_IsAlive : Bool) :
    Gen.Policy.update_c2 n_IsAlive = n_IsAlive := by pin_tac Gen.Policy.update_c2

theorem update_c3_pin (n_InWindow : Bool) :
    Gen.Policy.update_c3 n_InWindow = n_InWindow := by pin_tac Gen.Policy.update_c3

theorem update_c4_pin (n_InMainProbation : Bool) :
    Gen.Policy.update_c4 n_InMainProbation = n_InMainProbation := by pin_tac Gen.Policy.update_c4

theorem update_c5_pin (n_InMainProtected : Bool) :
    Gen.Policy.update_c5 n_InMainProtected = n_InMainProtected := by pin_tac Gen.Policy.update_c5

theorem update_c6_pin (nodeWeight : BitVec 64) (p_maximum : BitVec 64) :
    Gen.Policy.update_c6 nodeWeight p_maximum = (BitVec.ult p_maximum nodeWeight) := by pin_tac Gen.Policy.update_c6

theorem update_c7_pin (nodeWeight : BitVec 64) (p_windowMaximum : BitVec 64) :
    Gen.Policy.update_c7 nodeWeight p_windowMaximum = (BitVec.ule nodeWeight p_windowMaximum) := by pin_tac Gen.Policy.update_c7

theorem update_c8_pin (p_window_Contains_n : Bool) :
    Gen.Policy.update_c8 p_window_Contains_n = p_window_Contains_n := by pin_tac Gen.Policy.update_c8

theorem update_c9_pin (nodeWeight : BitVec 64) (p_maximum : BitVec 64) :
    Gen.Policy.update_c9 nodeWeight p_maximum = (BitVec.ule nodeWeight p_maximum) := by pin_tac Gen.Policy.update_c9

theorem update_c10_pin (nodeWeight : BitVec 64) (p_maximum : BitVec 64) :
    Gen.Policy.update_c10 nodeWeight p_maximum = (BitVec.ule nodeWeight p_maximum) := by pin_tac Gen.Policy.update_c10

theorem update_a0_pin (n_Weight : BitVec 32) :
    Gen.Policy.update_a0 n_Weight = (BitVec.setWidth 64 n_Weight) := by pin_tac Gen.Policy.update_a0

theorem update_u0_pin (nodeWeight : BitVec 64) (p_windowWeightedSize : BitVec 64) :
    Gen.Policy.update_u0 nodeWeight p_windowWeightedSize = (p_windowWeightedSize + nodeWeight) := by pin_tac Gen.Policy.update_u0

theorem update_u1_pin (nodeWeight : BitVec 64) (p_weightedSize : BitVec 64) :
    Gen.Policy.update_u1 nodeWeight p_weightedSize = (p_weightedSize + nodeWeight) := by pin_tac Gen.Policy.update_u1

theorem update_u2_pin (nodeWeight : BitVec 64) (p_weightedSize : BitVec 64) :
    Gen.Policy.update_u2 nodeWeight p_weightedSize = (p_weightedSize + nodeWeight) := by pin_tac Gen.Policy.update_u2

theorem update_u3_pin (nodeWeight : BitVec 64) (p_mainProtectedWeightedSize : BitVec 64) :
    Gen.Policy.update_u3 nodeWeight p_mainProtectedWeightedSize = (p_mainProtectedWeightedSize + nodeWeight) := by pin_tac Gen.Policy.update_u3

theorem update_u4_pin (nodeWeight : BitVec 64) (p_weightedSize : BitVec 64) :
    Gen.Policy.update_u4 nodeWeight p_weightedSize = (p_weightedSize + nodeWeight) := by pin_tac Gen.Policy.update_u4

theorem update_u5_pin (nodeWeight : BitVec 64) (p_weightedSize : BitVec 64) :
    Gen.Policy.update_u5 nodeWeight p_weightedSize = (p_weightedSize + nodeWeight) := by pin_tac Gen.Policy.update_u5

theorem queueOf_c0_pin (n_InWindow : Bool) :
    Gen.Policy.queueOf_c0 n_InWindow = n_InWindow := by pin_tac Gen.Policy.queueOf_c0

theorem queueOf_c1_pin (n_InMainProbation : Bool) :
    Gen.Policy.queueOf_c1 n_InMainProbation = n_InMainProbation := by pin_tac Gen.Policy.queueOf_c1

theorem discount_c0_pin (n_InWindow : Bool) :
    Gen.Policy.discount_c0 n_InWindow = n_InWindow := by pin_tac Gen.Policy.discount_c0

theorem discount_c1_pin (n_InMainProtected : Bool) :
    Gen.Policy.discount_c1 n_InMainProtected = n_InMainProtected := by pin_tac Gen.Policy.discount_c1

theorem discount_a0_pin (n_Weight : BitVec 32) :
    Gen.Policy.discount_a0 n_Weight = (BitVec.setWidth 64 n_Weight) := by pin_tac Gen.Policy.discount_a0

theorem discount_u0_pin (nodeWeight : BitVec 64) (p_windowWeightedSize : BitVec 64) :
    Gen.Policy.discount_u0 nodeWeight p_windowWeightedSize = (p_windowWeightedSize - nodeWeight) := by pin_tac Gen.Policy.discount_u0

theorem discount_u1_pin (nodeWeight : BitVec 64) (p_mainProtectedWeightedSize : BitVec 64) :
    Gen.Policy.discount_u1 nodeWeight p_mainProtectedWeightedSize = (p_mainProtectedWeightedSize - nodeWeight) := by pin_tac Gen.Policy.discount_u1

theorem discount_u2_pin (nodeWeight : BitVec 64) (p_weightedSize : BitVec 64) :
    Gen.Policy.discount_u2 nodeWeight p_weightedSize = (p_weightedSize - nodeWeight) := by pin_tac Gen.Policy.discount_u2

theorem makeDead_c0_pin (q_Contains_n : Bool) :
    Gen.Policy.makeDead_c0 q_Contains_n = q_Contains_n := by pin_tac Gen.Policy.makeDead_c0

theorem makeDead_c1_pin (n_IsDead : Bool) :
    Gen.Policy.makeDead_c1 n_IsDead = (!n_IsDead) := by pin_tac Gen.Policy.makeDead_c1

theorem setMaximumSize_c0_pin (maximum : BitVec 64) (p_maximum : BitVec 64) :
    Gen.Policy.setMaximumSize_c0 maximum p_maximum = (maximum == p_maximum) := by pin_tac Gen.Policy.setMaximumSize_c0

theorem setMaximumSize_c1_pin (maximum : BitVec 64) (p_isWeighted : Bool) (p_sketchnot_nil : Bool) (p_weightedSize : BitVec 64) :
    Gen.Policy.setMaximumSize_c1 maximum p_isWeighted p_sketchnot_nil p_weightedSize = ((p_sketchnot_nil && (!p_isWeighted)) && (BitVec.ule (maximum >>> 1) p_weightedSize)) := by pin_tac Gen.Policy.setMaximumSize_c1

theorem setMaximumSize_a2_pin (maximum : BitVec 64) :
    Gen.Policy.setMaximumSize_a2 maximum = maximum := by pin_tac Gen.Policy.setMaximumSize_a2

theorem setMaximumSize_a3_pin (window : BitVec 64) :
    Gen.Policy.setMaximumSize_a3 window = window := by pin_tac Gen.Policy.setMaximumSize_a3

theorem setMaximumSize_a4_pin (mainProtected : BitVec 64) :
    Gen.Policy.setMaximumSize_a4 mainProtected = mainProtected := by pin_tac Gen.Policy.setMaximumSize_a4

theorem setMaximumSize_a5_pin :
    Gen.Policy.setMaximumSize_a5  = (0#64) := by pin_tac Gen.Policy.setMaximumSize_a5

theorem setMaximumSize_a6_pin :
    Gen.Policy.setMaximumSize_a6  = (0#64) := by pin_tac Gen.Policy.setMaximumSize_a6

theorem reorderProbation_c0_pin (p_probation_NotContains_n : Bool) :
    Gen.Policy.reorderProbation_c0 p_probation_NotContains_n = p_probation_NotContains_n := by pin_tac Gen.Policy.reorderProbation_c0

theorem reorderProbation_c1_pin (nodeWeight : BitVec 64) (p_mainProtectedMaximum : BitVec 64) :
    Gen.Policy.reorderProbation_c1 nodeWeight p_mainProtectedMaximum = (BitVec.ult p_mainProtectedMaximum nodeWeight) := by pin_tac Gen.Policy.reorderProbation_c1

theorem reorderProbation_a0_pin (n_Weight : BitVec 32) :
    Gen.Policy.reorderProbation_a0 n_Weight = (BitVec.setWidth 64 n_Weight) := by pin_tac Gen.Policy.reorderProbation_a0

theorem reorderProbation_u0_pin (nodeWeight : BitVec 64) (p_mainProtectedWeightedSize : BitVec 64) :
    Gen.Policy.reorderProbation_u0 nodeWeight p_mainProtectedWeightedSize = (p_mainProtectedWeightedSize + nodeWeight) := by pin_tac Gen.Policy.reorderProbation_u0

theorem evictFromWindow_c0_pin (p_windowMaximum : BitVec 64) (p_windowWeightedSize : BitVec 64) :
    Gen.Policy.evictFromWindow_c0 p_windowMaximum p_windowWeightedSize = (BitVec.ult p_windowMaximum p_windowWeightedSize) := by pin_tac Gen.Policy.evictFromWindow_c0

theorem evictFromWindow_c1_pin (node_Equals_n_nil : Bool) :
    Gen.Policy.evictFromWindow_c1 node_Equals_n_nil = node_Equals_n_nil := by pin_tac Gen.Policy.evictFromWindow_c1

theorem evictFromWindow_c2_pin (nodeWeight : BitVec 64) :
    Gen.Policy.evictFromWindow_c2 nodeWeight = (nodeWeight != (0#64)) := by pin_tac Gen.Policy.evictFromWindow_c2

theorem evictFromWindow_c3_pin (first__nil : Bool) :
    Gen.Policy.evictFromWindow_c3 first__nil = first__nil := by pin_tac Gen.Policy.evictFromWindow_c3

theorem evictFromWindow_a2_pin (n_Weight : BitVec 32) :
    Gen.Policy.evictFromWindow_a2 n_Weight = (BitVec.setWidth 64 n_Weight) := by pin_tac Gen.Policy.evictFromWindow_a2

theorem evictFromWindow_u0_pin (nodeWeight : BitVec 64) (p_windowWeightedSize : BitVec 64) :
    Gen.Policy.evictFromWindow_u0 nodeWeight p_windowWeightedSize = (p_windowWeightedSize - nodeWeight) := by pin_tac Gen.Policy.evictFromWindow_u0

theorem evictFromMain_c0_pin (p_maximum : BitVec 64) (p_weightedSize : BitVec 64) :
    Gen.Policy.evictFromMain_c0 p_maximum p_weightedSize = (BitVec.ult p_maximum p_weightedSize) := by pin_tac Gen.Policy.evictFromMain_c0

theorem evictFromMain_c1_pin (candidateQueue : BitVec 8) (node_Equals_candidate_nil : Bool) :
    Gen.Policy.evictFromMain_c1 candidateQueue node_Equals_candidate_nil = (node_Equals_candidate_nil && (candidateQueue == (1#8))) := by pin_tac Gen.Policy.evictFromMain_c1

theorem evictFromMain_c2_pin (node_Equals_candidate_nil : Bool) (node_Equals_victim_nil : Bool) :
    Gen.Policy.evictFromMain_c2 node_Equals_candidate_nil node_Equals_victim_nil = (node_Equals_candidate_nil && node_Equals_victim_nil) := by pin_tac Gen.Policy.evictFromMain_c2

theorem evictFromMain_c3_pin (victimQueue : BitVec 8) :
    Gen.Policy.evictFromMain_c3 victimQueue = (victimQueue == (1#8)) := by pin_tac Gen.Policy.evictFromMain_c3

theorem evictFromMain_c4_pin (victimQueue : BitVec 8) :
    Gen.Policy.evictFromMain_c4 victimQueue = (victimQueue == (2#8)) := by pin_tac Gen.Policy.evictFromMain_c4

theorem evictFromMain_c5_pin (node_Equals_victim_nil : Bool) (victim_Weight : BitVec 32) :
    Gen.Policy.evictFromMain_c5 node_Equals_victim_nil victim_Weight = ((!node_Equals_victim_nil) && (victim_Weight == (0#32))) := by pin_tac Gen.Policy.evictFromMain_c5

theorem evictFromMain_c6_pin (candidate_Weight : BitVec 32) (node_Equals_candidate_nil : Bool) :
    Gen.Policy.evictFromMain_c6 candidate_Weight node_Equals_candidate_nil = ((!node_Equals_candidate_nil) && (candidate_Weight == (0#32))) := by pin_tac Gen.Policy.evictFromMain_c6

theorem evictFromMain_c7_pin (node_Equals_victim_nil : Bool) :
    Gen.Policy.evictFromMain_c7 node_Equals_victim_nil = node_Equals_victim_nil := by pin_tac Gen.Policy.evictFromMain_c7

theorem evictFromMain_c8_pin (node_Equals_candidate_nil : Bool) :
    Gen.Policy.evictFromMain_c8 node_Equals_candidate_nil = node_Equals_candidate_nil := by pin_tac Gen.Policy.evictFromMain_c8

theorem evictFromMain_c9_pin (node_Equals_candidate_victim : Bool) :
    Gen.Policy.evictFromMain_c9 node_Equals_candidate_victim = node_Equals_candidate_victim := by pin_tac Gen.Policy.evictFromMain_c9

theorem evictFromMain_c10_pin (victim_IsAlive : Bool) :
    Gen.Policy.evictFromMain_c10 victim_IsAlive = (!victim_IsAlive) := by pin_tac Gen.Policy.evictFromMain_c10

theorem evictFromMain_c11_pin (candidate_IsAlive : Bool) :
    Gen.Policy.evictFromMain_c11 candidate_IsAlive = (!candidate_IsAlive) := by pin_tac Gen.Policy.evictFromMain_c11

theorem evictFromMain_c12_pin (candidate_Weight : BitVec 32) (p_maximum : BitVec 64) :
    Gen.Policy.evictFromMain_c12 candidate_Weight p_maximum = (BitVec.ult p_maximum (BitVec.setWidth 64 candidate_Weight)) := by pin_tac Gen.Policy.evictFromMain_c12

theorem evictFromMain_c13_pin (p_admit_candidate_Key___victim_Key : Bool) :
    Gen.Policy.evictFromMain_c13 p_admit_candidate_Key___victim_Key = p_admit_candidate_Key___victim_Key := by pin_tac Gen.Policy.evictFromMain_c13

theorem evictFromMain_a0_pin :
    Gen.Policy.evictFromMain_a0  = (1#8) := by pin_tac Gen.Policy.evictFromMain_a0

theorem evictFromMain_a1_pin :
    Gen.Policy.evictFromMain_a1  = (1#8) := by pin_tac Gen.Policy.evictFromMain_a1

theorem evictFromMain_a4_pin :
    Gen.Policy.evictFromMain_a4  = (0#8) := by pin_tac Gen.Policy.evictFromMain_a4

theorem evictFromMain_a6_pin :
    Gen.Policy.evictFromMain_a6  = (2#8) := by pin_tac Gen.Policy.evictFromMain_a6

theorem evictFromMain_a8_pin :
    Gen.Policy.evictFromMain_a8  = (0#8) := by pin_tac Gen.Policy.evictFromMain_a8

theorem admit_c0_pin (candidateFreq : BitVec 64) (victimFreq : BitVec 64) :
    Gen.Policy.admit_c0 candidateFreq victimFreq = (BitVec.ult victimFreq candidateFreq) := by pin_tac Gen.Policy.admit_c0

theorem admit_c1_pin (candidateFreq : BitVec 64) :
    Gen.Policy.admit_c1 candidateFreq = (BitVec.ule (6#64) candidateFreq) := by pin_tac Gen.Policy.admit_c1

theorem admit_a0_pin (p_sketch_frequency_victimKey : BitVec 64) :
    Gen.Policy.admit_a0 p_sketch_frequency_victimKey = p_sketch_frequency_victimKey := by pin_tac Gen.Policy.admit_a0

theorem admit_a1_pin (p_sketch_frequency_candidateKey : BitVec 64) :
    Gen.Policy.admit_a1 p_sketch_frequency_candidateKey = p_sketch_frequency_candidateKey := by pin_tac Gen.Policy.admit_a1

theorem admit_r0_pin :
    Gen.Policy.admit_r0  = true := by pin_tac Gen.Policy.admit_r0

theorem admit_r1_pin (p_rand : BitVec 32) :
    Gen.Policy.admit_r1 p_rand = ((p_rand &&& (127#32)) == (0#32)) := by pin_tac Gen.Policy.admit_r1

theorem admit_r2_pin :
    Gen.Policy.admit_r2  = false := by pin_tac Gen.Policy.admit_r2

theorem climb_c0_pin (amount : BitVec 64) :
    Gen.Policy.climb_c0 amount = (amount == (0#64)) := by pin_tac Gen.Policy.climb_c0

theorem climb_c1_pin (amount : BitVec 64) :
    Gen.Policy.climb_c1 amount = (BitVec.slt (0#64) amount) := by pin_tac Gen.Policy.climb_c1

theorem climb_a0_pin (p_adjustment : BitVec 64) :
    Gen.Policy.climb_a0 p_adjustment = p_adjustment := by pin_tac Gen.Policy.climb_a0

theorem determineAdjustment_c0_pin (p_sketch_isNotInitialized : Bool) :
    Gen.Policy.determineAdjustment_c0 p_sketch_isNotInitialized = p_sketch_isNotInitialized := by pin_tac Gen.Policy.determineAdjustment_c0

theorem determineAdjustment_c1_pin (p_sketch_sampleSize : BitVec 64) (requestCount : BitVec 64) :
    Gen.Policy.determineAdjustment_c1 p_sketch_sampleSize requestCount = (BitVec.ult requestCount p_sketch_sampleSize) := by pin_tac Gen.Policy.determineAdjustment_c1

theorem determineAdjustment_a1_pin :
    Gen.Policy.determineAdjustment_a1  = (0#64) := by pin_tac Gen.Policy.determineAdjustment_a1

theorem determineAdjustment_a2_pin :
    Gen.Policy.determineAdjustment_a2  = (0#64) := by pin_tac Gen.Policy.determineAdjustment_a2

theorem determineAdjustment_a3_pin (p_hitsInSample : BitVec 64) (p_missesInSample : BitVec 64) :
    Gen.Policy.determineAdjustment_a3 p_hitsInSample p_missesInSample = (p_hitsInSample + p_missesInSample) := by pin_tac Gen.Policy.determineAdjustment_a3

theorem determineAdjustment_a15_pin :
    Gen.Policy.determineAdjustment_a15  = (0#64) := by pin_tac Gen.Policy.determineAdjustment_a15

theorem determineAdjustment_a16_pin :
    Gen.Policy.determineAdjustment_a16  = (0#64) := by pin_tac Gen.Policy.determineAdjustment_a16

theorem demote_c0_pin (mainProtectedMaximum : BitVec 64) (mainProtectedWeightedSize : BitVec 64) :
    Gen.Policy.demote_c0 mainProtectedMaximum mainProtectedWeightedSize = (BitVec.ule mainProtectedWeightedSize mainProtectedMaximum) := by pin_tac Gen.Policy.demote_c0

theorem demote_c1_pin (i : BitVec 64) :
    Gen.Policy.demote_c1 i = (BitVec.slt i (1000#64)) := by pin_tac Gen.Policy.demote_c1

theorem demote_c2_pin (mainProtectedMaximum : BitVec 64) (mainProtectedWeightedSize : BitVec 64) :
    Gen.Policy.demote_c2 mainProtectedMaximum mainProtectedWeightedSize = (BitVec.ule mainProtectedWeightedSize mainProtectedMaximum) := by pin_tac Gen.Policy.demote_c2

theorem demote_c3_pin (node_Equals_demoted_nil : Bool) :
    Gen.Policy.demote_c3 node_Equals_demoted_nil = node_Equals_demoted_nil := by pin_tac Gen.Policy.demote_c3

theorem demote_a0_pin (p_mainProtectedMaximum : BitVec 64) :
    Gen.Policy.demote_a0 p_mainProtectedMaximum = p_mainProtectedMaximum := by pin_tac Gen.Policy.demote_a0

theorem demote_a1_pin (p_mainProtectedWeightedSize : BitVec 64) :
    Gen.Policy.demote_a1 p_mainProtectedWeightedSize = p_mainProtectedWeightedSize := by pin_tac Gen.Policy.demote_a1

theorem demote_a2_pin :
    Gen.Policy.demote_a2  = (0#64) := by pin_tac Gen.Policy.demote_a2

theorem demote_u0_pin (i : BitVec 64) :
    Gen.Policy.demote_u0 i = (i + (1#64)) := by pin_tac Gen.Policy.demote_u0

theorem demote_u1_pin (demoted_Weight : BitVec 32) (mainProtectedWeightedSize : BitVec 64) :
    Gen.Policy.demote_u1 demoted_Weight mainProtectedWeightedSize = (mainProtectedWeightedSize - (BitVec.setWidth 64 demoted_Weight)) := by pin_tac Gen.Policy.demote_u1

theorem demote_a4_pin (mainProtectedWeightedSize : BitVec 64) :
    Gen.Policy.demote_a4 mainProtectedWeightedSize = mainProtectedWeightedSize := by pin_tac Gen.Policy.demote_a4

theorem increaseWindow_c0_pin (p_mainProtectedMaximum : BitVec 64) :
    Gen.Policy.increaseWindow_c0 p_mainProtectedMaximum = (p_mainProtectedMaximum == (0#64)) := by pin_tac Gen.Policy.increaseWindow_c0

theorem increaseWindow_c1_pin (p_adjustment : BitVec 64) (p_mainProtectedMaximum : BitVec 64) :
    Gen.Policy.increaseWindow_c1 p_adjustment p_mainProtectedMaximum = (BitVec.ult p_mainProtectedMaximum p_adjustment) := by pin_tac Gen.Policy.increaseWindow_c1

theorem increaseWindow_c2_pin (i : BitVec 64) :
    Gen.Policy.increaseWindow_c2 i = (BitVec.slt i (1000#64)) := by pin_tac Gen.Policy.increaseWindow_c2

theorem increaseWindow_c3_pin (candidate_Weight : BitVec 32) (node_Equals_candidate_nil : Bool) (quota : BitVec 64) :
    Gen.Policy.increaseWindow_c3 candidate_Weight node_Equals_candidate_nil quota = (node_Equals_candidate_nil || (BitVec.slt quota (BitVec.setWidth 64 candidate_Weight))) := by pin_tac Gen.Policy.increaseWindow_c3

theorem increaseWindow_c4_pin (node_Equals_candidate_nil : Bool) :
    Gen.Policy.increaseWindow_c4 node_Equals_candidate_nil = node_Equals_candidate_nil := by pin_tac Gen.Policy.increaseWindow_c4

theorem increaseWindow_c5_pin (quota : BitVec 64) (weight : BitVec 64) :
    Gen.Policy.increaseWindow_c5 quota weight = (BitVec.slt quota weight) := by pin_tac Gen.Policy.increaseWindow_c5

theorem increaseWindow_c6_pin (probation : Bool) :
    Gen.Policy.increaseWindow_c6 probation = probation := by pin_tac Gen.Policy.increaseWindow_c6

theorem increaseWindow_a0_pin (p_adjustment : BitVec 64) :
    Gen.Policy.increaseWindow_a0 p_adjustment = p_adjustment := by pin_tac Gen.Policy.increaseWindow_a0

theorem increaseWindow_a1_pin (p_mainProtectedMaximum : BitVec 64) :
    Gen.Policy.increaseWindow_a1 p_mainProtectedMaximum = p_mainProtectedMaximum := by pin_tac Gen.Policy.increaseWindow_a1

theorem increaseWindow_u0_pin (p_mainProtectedMaximum : BitVec 64) (quota : BitVec 64) :
    Gen.Policy.increaseWindow_u0 p_mainProtectedMaximum quota = (p_mainProtectedMaximum - quota) := by pin_tac Gen.Policy.increaseWindow_u0

theorem increaseWindow_u1_pin (p_windowMaximum : BitVec 64) (quota : BitVec 64) :
    Gen.Policy.increaseWindow_u1 p_windowMaximum quota = (p_windowMaximum + quota) := by pin_tac Gen.Policy.increaseWindow_u1

theorem increaseWindow_a2_pin :
    Gen.Policy.increaseWindow_a2  = (0#64) := by pin_tac Gen.Policy.increaseWindow_a2

theorem increaseWindow_u2_pin (i : BitVec 64) :
    Gen.Policy.increaseWindow_u2 i = (i + (1#64)) := by pin_tac Gen.Policy.increaseWindow_u2

theorem increaseWindow_a4_pin :
    Gen.Policy.increaseWindow_a4  = true := by pin_tac Gen.Policy.increaseWindow_a4

theorem increaseWindow_a6_pin :
    Gen.Policy.increaseWindow_a6  = false := by pin_tac Gen.Policy.increaseWindow_a6

theorem increaseWindow_a7_pin (candidate_Weight : BitVec 32) :
    Gen.Policy.increaseWindow_a7 candidate_Weight = (BitVec.setWidth 64 candidate_Weight) := by pin_tac Gen.Policy.increaseWindow_a7

theorem increaseWindow_u3_pin (quota : BitVec 64) (weight : BitVec 64) :
    Gen.Policy.increaseWindow_u3 quota weight = (quota - weight) := by pin_tac Gen.Policy.increaseWindow_u3

theorem increaseWindow_u4_pin (p_mainProtectedWeightedSize : BitVec 64) (weight : BitVec 64) :
    Gen.Policy.increaseWindow_u4 p_mainProtectedWeightedSize weight = (p_mainProtectedWeightedSize - weight) := by pin_tac Gen.Policy.increaseWindow_u4

theorem increaseWindow_u5_pin (p_windowWeightedSize : BitVec 64) (weight : BitVec 64) :
    Gen.Policy.increaseWindow_u5 p_windowWeightedSize weight = (p_windowWeightedSize + weight) := by pin_tac Gen.Policy.increaseWindow_u5

theorem increaseWindow_u6_pin (p_mainProtectedMaximum : BitVec 64) (quota : BitVec 64) :
    Gen.Policy.increaseWindow_u6 p_mainProtectedMaximum quota = (p_mainProtectedMaximum + quota) := by pin_tac Gen.Policy.increaseWindow_u6

theorem increaseWindow_u7_pin (p_windowMaximum : BitVec 64) (quota : BitVec 64) :
    Gen.Policy.increaseWindow_u7 p_windowMaximum quota = (p_windowMaximum - quota) := by pin_tac Gen.Policy.increaseWindow_u7

theorem increaseWindow_a8_pin (quota : BitVec 64) :
    Gen.Policy.increaseWindow_a8 quota = quota := by pin_tac Gen.Policy.increaseWindow_a8

theorem decreaseWindow_c0_pin (p_windowMaximum : BitVec 64) :
    Gen.Policy.decreaseWindow_c0 p_windowMaximum = (BitVec.ule p_windowMaximum (1#64)) := by pin_tac Gen.Policy.decreaseWindow_c0

theorem decreaseWindow_c1_pin (p_adjustment : BitVec 64) (windowMaximum : BitVec 64) :
    Gen.Policy.decreaseWindow_c1 p_adjustment windowMaximum = (BitVec.ult windowMaximum (-p_adjustment)) := by pin_tac Gen.Policy.decreaseWindow_c1

theorem decreaseWindow_c2_pin (i : BitVec 64) :
    Gen.Policy.decreaseWindow_c2 i = (BitVec.slt i (1000#64)) := by pin_tac Gen.Policy.decreaseWindow_c2

theorem decreaseWindow_c3_pin (node_Equals_candidate_nil : Bool) :
    Gen.Policy.decreaseWindow_c3 node_Equals_candidate_nil = node_Equals_candidate_nil := by pin_tac Gen.Policy.decreaseWindow_c3

theorem decreaseWindow_c4_pin (quota : BitVec 64) (weight : BitVec 64) :
    Gen.Policy.decreaseWindow_c4 quota weight = (BitVec.slt quota weight) := by pin_tac Gen.Policy.decreaseWindow_c4

theorem decreaseWindow_x0_pin (p_windowMaximum : BitVec 64) :
    Gen.Policy.decreaseWindow_x0 p_windowMaximum = (p_windowMaximum - (1#64)) := by pin_tac Gen.Policy.decreaseWindow_x0

theorem decreaseWindow_a0_pin (p_adjustment : BitVec 64) :
    Gen.Policy.decreaseWindow_a0 p_adjustment = (-p_adjustment) := by pin_tac Gen.Policy.decreaseWindow_a0

theorem decreaseWindow_a1_pin (p_windowMaximum : BitVec 64) :
    Gen.Policy.decreaseWindow_a1 p_windowMaximum = (OtterVerif.Bv.umax (0#64) (p_windowMaximum - (1#64))) := by pin_tac Gen.Policy.decreaseWindow_a1

theorem decreaseWindow_a2_pin (windowMaximum : BitVec 64) :
    Gen.Policy.decreaseWindow_a2 windowMaximum = windowMaximum := by pin_tac Gen.Policy.decreaseWindow_a2

theorem decreaseWindow_u0_pin (p_mainProtectedMaximum : BitVec 64) (quota : BitVec 64) :
    Gen.Policy.decreaseWindow_u0 p_mainProtectedMaximum quota = (p_mainProtectedMaximum + quota) := by pin_tac Gen.Policy.decreaseWindow_u0

theorem decreaseWindow_u1_pin (p_windowMaximum : BitVec 64) (quota : BitVec 64) :
    Gen.Policy.decreaseWindow_u1 p_windowMaximum quota = (p_windowMaximum - quota) := by pin_tac Gen.Policy.decreaseWindow_u1

theorem decreaseWindow_a3_pin :
    Gen.Policy.decreaseWindow_a3  = (0#64) := by pin_tac Gen.Policy.decreaseWindow_a3

theorem decreaseWindow_u2_pin (i : BitVec 64) :
    Gen.Policy.decreaseWindow_u2 i = (i + (1#64)) := by pin_tac Gen.Policy.decreaseWindow_u2

theorem decreaseWindow_a5_pin (candidate_Weight : BitVec 32) :
    Gen.Policy.decreaseWindow_a5 candidate_Weight = (BitVec.setWidth 64 candidate_Weight) := by pin_tac Gen.Policy.decreaseWindow_a5

theorem decreaseWindow_u3_pin (quota : BitVec 64) (weight : BitVec 64) :
    Gen.Policy.decreaseWindow_u3 quota weight = (quota - weight) := by pin_tac Gen.Policy.decreaseWindow_u3

theorem decreaseWindow_u4_pin (p_windowWeightedSize : BitVec 64) (weight : BitVec 64) :
    Gen.Policy.decreaseWindow_u4 p_windowWeightedSize weight = (p_windowWeightedSize - weight) := by pin_tac Gen.Policy.decreaseWindow_u4

theorem decreaseWindow_u5_pin (p_mainProtectedMaximum : BitVec 64) (quota : BitVec 64) :
    Gen.Policy.decreaseWindow_u5 p_mainProtectedMaximum quota = (p_mainProtectedMaximum - quota) := by pin_tac Gen.Policy.decreaseWindow_u5

theorem decreaseWindow_u6_pin (p_windowMaximum : BitVec 64) (quota : BitVec 64) :
    Gen.Policy.decreaseWindow_u6 p_windowMaximum quota = (p_windowMaximum + quota) := by pin_tac Gen.Policy.decreaseWindow_u6

theorem decreaseWindow_a6_pin (quota : BitVec 64) :
    Gen.Policy.decreaseWindow_a6 quota = (-quota) := by pin_tac Gen.Policy.decreaseWindow_a6

theorem reorder_c0_pin (d_Contains_n : Bool) :
    Gen.Policy.reorder_c0 d_Contains_n = d_Contains_n := by pin_tac Gen.Policy.reorder_c0

theorem siteParams_pin : Gen.Policy.siteParams = [("access_c0", ["n_InWindow"]),
  ("access_c1", ["n_InMainProbation"]),
  ("access_c2", ["n_InMainProtected"]),
  ("access_u0", ["p_hitsInSample"]),
  ("add_c0", ["isAlive"]),
  ("add_c1", ["p_maximum", "p_weightedSize"]),
  ("add_c2", ["p_isWeighted"]),
  ("add_c3", ["isAlive"]),
  ("add_c4", ["nodeWeight", "p_maximum"]),
  ("add_c5", ["nodeWeight", "p_windowMaximum"]),
  ("add_a0", ["n_Weight"]),
  ("add_a1", ["n_IsAlive"]),
  ("add_u0", ["nodeWeight", "p_weightedSize"]),
  ("add_u1", ["nodeWeight", "p_windowWeightedSize"]),
  ("add_a2", ["p_maximum"]),
  ("add_a3", ["p_probation_Len", "p_protected_Len", "p_window_Len"]),
  ("add_u2", ["p_missesInSample"]),
  ("add_u3", ["nodeWeight", "p_weightedSize"]),
  ("add_u4", ["nodeWeight", "p_windowWeightedSize"]),
  ("update_c0", ["n_IsDead"]),
  ("update_c1", ["p_queueOf_old__Contains_old"]),
  ("update_c2", ["n_IsAlive"]),
  ("update_c3", ["n_InWindow"]),
  ("update_c4", ["n_InMainProbation"]),
  ("update_c5", ["n_InMainProtected"]),
  ("update_c6", ["nodeWeight", "p_maximum"]),
  ("update_c7", ["nodeWeight", "p_windowMaximum"]),
  ("update_c8", ["p_window_Contains_n"]),
  ("update_c9", ["nodeWeight", "p_maximum"]),
  ("update_c10", ["nodeWeight", "p_maximum"]),
  ("update_a0", ["n_Weight"]),
  ("update_u0", ["nodeWeight", "p_windowWeightedSize"]),
  ("update_u1", ["nodeWeight", "p_weightedSize"]),
  ("update_u2", ["nodeWeight", "p_weightedSize"]),
  ("update_u3", ["nodeWeight", "p_mainProtectedWeightedSize"]),
  ("update_u4", ["nodeWeight", "p_weightedSize"]),
  ("update_u5", ["nodeWeight", "p_weightedSize"]),
  ("queueOf_c0", ["n_InWindow"]),
  ("queueOf_c1", ["n_InMainProbation"]),
  ("discount_c0", ["n_InWindow"]),
  ("discount_c1", ["n_InMainProtected"]),
  ("discount_a0", ["n_Weight"]),
  ("discount_u0", ["nodeWeight", "p_windowWeightedSize"]),
  ("discount_u1", ["nodeWeight", "p_mainProtectedWeightedSize"]),
  ("discount_u2", ["nodeWeight", "p_weightedSize"]),
  ("makeDead_c0", ["q_Contains_n"]),
  ("makeDead_c1", ["n_IsDead"]),
  ("setMaximumSize_c0", ["maximum", "p_maximum"]),
  ("setMaximumSize_c1", ["maximum", "p_isWeighted", "p_sketchnot_nil", "p_weightedSize"]),
  ("setMaximumSize_a2", ["maximum"]),
  ("setMaximumSize_a3", ["window"]),
  ("setMaximumSize_a4", ["mainProtected"]),
  ("setMaximumSize_a5", []),
  ("setMaximumSize_a6", []),
  ("reorderProbation_c0", ["p_probation_NotContains_n"]),
  ("reorderProbation_c1", ["nodeWeight", "p_mainProtectedMaximum"]),
  ("reorderProbation_a0", ["n_Weight"]),
  ("reorderProbation_u0", ["nodeWeight", "p_mainProtectedWeightedSize"]),
  ("evictFromWindow_c0", ["p_windowMaximum", "p_windowWeightedSize"]),
  ("evictFromWindow_c1", ["node_Equals_n_nil"]),
  ("evictFromWindow_c2", ["nodeWeight"]),
  ("evictFromWindow_c3", ["first__nil"]),
  ("evictFromWindow_a2", ["n_Weight"]),
  ("evictFromWindow_u0", ["nodeWeight", "p_windowWeightedSize"]),
  ("evictFromMain_c0", ["p_maximum", "p_weightedSize"]),
  ("evictFromMain_c1", ["candidateQueue", "node_Equals_candidate_nil"]),
  ("evictFromMain_c2", ["node_Equals_candidate_nil", "node_Equals_victim_nil"]),
  ("evictFromMain_c3", ["victimQueue"]),
  ("evictFromMain_c4", ["victimQueue"]),
  ("evictFromMain_c5", ["node_Equals_victim_nil", "victim_Weight"]),
  ("evictFromMain_c6", ["candidate_Weight", "node_Equals_candidate_nil"]),
  ("evictFromMain_c7", ["node_Equals_victim_nil"]),
  ("evictFromMain_c8", ["node_Equals_candidate_nil"]),
  ("evictFromMain_c9", ["node_Equals_candidate_victim"]),
  ("evictFromMain_c10", ["victim_IsAlive"]),
  ("evictFromMain_c11", ["candidate_IsAlive"]),
  ("evictFromMain_c12", ["candidate_Weight", "p_maximum"]),
  ("evictFromMain_c13", ["p_admit_candidate_Key___victim_Key"]),
  ("evictFromMain_a0", []),
  ("evictFromMain_a1", []),
  ("evictFromMain_a4", []),
  ("evictFromMain_a6", []),
  ("evictFromMain_a8", []),
  ("admit_c0", ["candidateFreq", "victimFreq"]),
  ("admit_c1", ["candidateFreq"]),
  ("admit_a0", ["p_sketch_frequency_victimKey"]),
  ("admit_a1", ["p_sketch_frequency_candidateKey"]),
  ("admit_r0", []),
  ("admit_r1", ["p_rand"]),
  ("admit_r2", []),
  ("climb_c0", ["amount"]),
  ("climb_c1", ["amount"]),
  ("climb_a0", ["p_adjustment"]),
  ("determineAdjustment_c0", ["p_sketch_isNotInitialized"]),
  ("determineAdjustment_c1", ["p_sketch_sampleSize", "requestCount"]),
  ("determineAdjustment_a1", []),
  ("determineAdjustment_a2", []),
  ("determineAdjustment_a3", ["p_hitsInSample", "p_missesInSample"]),
  ("determineAdjustment_a15", []),
  ("determineAdjustment_a16", []),
  ("demote_c0", ["mainProtectedMaximum", "mainProtectedWeightedSize"]),
  ("demote_c1", ["i"]),
  ("demote_c2", ["mainProtectedMaximum", "mainProtectedWeightedSize"]),
  ("demote_c3", ["node_Equals_demoted_nil"]),
  ("demote_a0", ["p_mainProtectedMaximum"]),
  ("demote_a1", ["p_mainProtectedWeightedSize"]),
  ("demote_a2", []),
  ("demote_u0", ["i"]),
  ("demote_u1", ["demoted_Weight", "mainProtectedWeightedSize"]),
  ("demote_a4", ["mainProtectedWeightedSize"]),
  ("increaseWindow_c0", ["p_mainProtectedMaximum"]),
  ("increaseWindow_c1", ["p_adjustment", "p_mainProtectedMaximum"]),
  ("increaseWindow_c2", ["i"]),
  ("increaseWindow_c3", ["candidate_Weight", "node_Equals_candidate_nil", "quota"]),
  ("increaseWindow_c4", ["node_Equals_candidate_nil"]),
  ("increaseWindow_c5", ["quota", "weight"]),
  ("increaseWindow_c6", ["probation"]),
  ("increaseWindow_a0", ["p_adjustment"]),
  ("increaseWindow_a1", ["p_mainProtectedMaximum"]),
  ("increaseWindow_u0", ["p_mainProtectedMaximum", "quota"]),
  ("increaseWindow_u1", ["p_windowMaximum", "quota"]),
  ("increaseWindow_a2", []),
  ("increaseWindow_u2", ["i"]),
  ("increaseWindow_a4", []),
  ("increaseWindow_a6", []),
  ("increaseWindow_a7", ["candidate_Weight"]),
  ("increaseWindow_u3", ["quota", "weight"]),
  ("increaseWindow_u4", ["p_mainProtectedWeightedSize", "weight"]),
  ("increaseWindow_u5", ["p_windowWeightedSize", "weight"]),
  ("increaseWindow_u6", ["p_mainProtectedMaximum", "quota"]),
  ("increaseWindow_u7", ["p_windowMaximum", "quota"]),
  ("increaseWindow_a8", ["quota"]),
  ("decreaseWindow_c0", ["p_windowMaximum"]),
  ("decreaseWindow_c1", ["p_adjustment", "windowMaximum"]),
  ("decreaseWindow_c2", ["i"]),
  ("decreaseWindow_c3", ["node_Equals_candidate_nil"]),
  ("decreaseWindow_c4", ["quota", "weight"]),
  ("decreaseWindow_x0", ["p_windowMaximum"]),
  ("decreaseWindow_a0", ["p_adjustment"]),
  ("decreaseWindow_a1", ["p_windowMaximum"]),
  ("decreaseWindow_a2", ["windowMaximum"]),
  ("decreaseWindow_u0", ["p_mainProtectedMaximum", "quota"]),
  ("decreaseWindow_u1", ["p_windowMaximum", "quota"]),
  ("decreaseWindow_a3", []),
  ("decreaseWindow_u2", ["i"]),
  ("decreaseWindow_a5", ["candidate_Weight"]),
  ("decreaseWindow_u3", ["quota", "weight"]),
  ("decreaseWindow_u4", ["p_windowWeightedSize", "weight"]),
  ("decreaseWindow_u5", ["p_mainProtectedMaximum", "quota"]),
  ("decreaseWindow_u6", ["p_windowMaximum", "quota"]),
  ("decreaseWindow_a6", ["quota"]),
  ("reorder_c0", ["d_Contains_n"])] := by rfl

theorem shape_pin : Gen.Policy.shape = [("access", [3, 1, 0, 0, 0, 0, 0]),
  ("add", [6, 5, 4, 0, 0, 0, 0]),
  ("update", [11, 6, 1, 0, 0, 0, 0]),
  ("queueOf", [2, 0, 0, 3, 0, 0, 0]),
  ("discount", [2, 3, 1, 0, 0, 0, 0]),
  ("makeDead", [2, 0, 1, 0, 0, 0, 0]),
  ("setMaximumSize", [2, 0, 8, 0, 0, 0, 0]),
  ("reorderProbation", [2, 1, 1, 0, 0, 0, 0]),
  ("evictFromWindow", [4, 1, 5, 1, 0, 0, 0]),
  ("evictFromMain", [14, 0, 29, 0, 0, 0, 0]),
  ("admit", [2, 0, 2, 3, 0, 0, 0]),
  ("climb", [2, 0, 1, 0, 0, 0, 0]),
  ("determineAdjustment", [5, 0, 17, 0, 0, 0, 0]),
  ("demote", [4, 2, 5, 0, 0, 0, 0]),
  ("increaseWindow", [7, 8, 9, 0, 0, 0, 0]),
  ("decreaseWindow", [5, 7, 7, 0, 0, 1, 0]),
  ("reorder", [1, 0, 0, 0, 0, 0, 0])] := by rfl

end OtterVerif.Pin.Policy
