/-
  Pin.OptSites — HAND-OWNED (bootstrapped once by tools/mkpins.py, then reviewed): what every pure computation that
  the translator extracts into Gen.OptSites is expected to mean.  Re-checked against the regenerated Gen.OptSites on every
  run; a pin that no longer proves names the Go expression whose meaning changed.
-/
import OtterVerif.Gen.OptSites

namespace OtterVerif.Pin.OptSites
open OtterVerif OtterVerif.Gen.OptSites

/-- `rfl` when the regenerated term is the recorded one; otherwise try to see through a harmless rewrite
    (operand order of commutative operators) -/
local macro "pin_tac" d:ident : tactic =>
  `(tactic| first
    | rfl
    | (simp only [$d:ident]; ac_rfl)
    | (simp [$d:ident, BitVec.add_comm, BitVec.and_comm, BitVec.or_comm, BitVec.xor_comm, BitVec.mul_comm, Bool.and_comm, Bool.or_comm]))

theorem ComputeOp_String_c0_pin (co : BitVec 64) (len_computeOpStrings : BitVec 64) :
    Gen.OptSites.ComputeOp_String_c0 co len_computeOpStrings = ((BitVec.sle (0#64) co) && (BitVec.slt co len_computeOpStrings)) := by pin_tac Gen.OptSites.ComputeOp_String_c0

theorem Must_c0_pin (errnot_nil : Bool) :
    Gen.OptSites.Must_c0 errnot_nil = errnot_nil := by pin_tac Gen.OptSites.Must_c0

theorem New_c0_pin (o__nil : Bool) :
    Gen.OptSites.New_c0 o__nil = o__nil := by pin_tac Gen.OptSites.New_c0

theorem New_c1_pin (errnot_nil : Bool) :
    Gen.OptSites.New_c1 errnot_nil = errnot_nil := by pin_tac Gen.OptSites.New_c1

theorem Cache_GetMaximum_r0_pin (c_cache_GetMaximum : BitVec 64) :
    Gen.OptSites.Cache_GetMaximum_r0 c_cache_GetMaximum = c_cache_GetMaximum := by pin_tac Gen.OptSites.Cache_GetMaximum_r0

theorem Cache_EstimatedSize_r0_pin (c_cache_EstimatedSize : BitVec 64) :
    Gen.OptSites.Cache_EstimatedSize_r0 c_cache_EstimatedSize = c_cache_EstimatedSize := by pin_tac Gen.OptSites.Cache_EstimatedSize_r0

theorem Cache_IsWeighted_r0_pin (c_cache_IsWeighted : Bool) :
    Gen.OptSites.Cache_IsWeighted_r0 c_cache_IsWeighted = c_cache_IsWeighted := by pin_tac Gen.OptSites.Cache_IsWeighted_r0

theorem Cache_WeightedSize_r0_pin (c_cache_WeightedSize : BitVec 64) :
    Gen.OptSites.Cache_WeightedSize_r0 c_cache_WeightedSize = c_cache_WeightedSize := by pin_tac Gen.OptSites.Cache_WeightedSize_r0

theorem Cache_IsRecordingStats_r0_pin (c_cache_IsRecordingStats : Bool) :
    Gen.OptSites.Cache_IsRecordingStats_r0 c_cache_IsRecordingStats = c_cache_IsRecordingStats := by pin_tac Gen.OptSites.Cache_IsRecordingStats_r0

theorem Cache_StopAllGoroutines_r0_pin (c_cache_StopAllGoroutines : Bool) :
    Gen.OptSites.Cache_StopAllGoroutines_r0 c_cache_StopAllGoroutines = c_cache_StopAllGoroutines := by pin_tac Gen.OptSites.Cache_StopAllGoroutines_r0

theorem Cache_has_r0_pin (c_cache_has_key : Bool) :
    Gen.OptSites.Cache_has_r0 c_cache_has_key = c_cache_has_key := by pin_tac Gen.OptSites.Cache_has_r0

theorem newTimeSource_c0_pin (clock__nil : Bool) :
    Gen.OptSites.newTimeSource_c0 clock__nil = clock__nil := by pin_tac Gen.OptSites.newTimeSource_c0

theorem newTimeSource_c1_pin (ok : Bool) :
    Gen.OptSites.newTimeSource_c1 ok = ok := by pin_tac Gen.OptSites.newTimeSource_c1

theorem newTimeSource_c2_pin (ok : Bool) :
    Gen.OptSites.newTimeSource_c2 ok = ok := by pin_tac Gen.OptSites.newTimeSource_c2

theorem customSource_Init_c0_pin (cs_isInitialized_Load : Bool) :
    Gen.OptSites.customSource_Init_c0 cs_isInitialized_Load = (!cs_isInitialized_Load) := by pin_tac Gen.OptSites.customSource_Init_c0

theorem customSource_NowNano_c0_pin (cs_isInitialized_Load : Bool) :
    Gen.OptSites.customSource_NowNano_c0 cs_isInitialized_Load = (!cs_isInitialized_Load) := by pin_tac Gen.OptSites.customSource_NowNano_c0

theorem customSource_NowNano_r0_pin :
    Gen.OptSites.customSource_NowNano_r0  = (0#64) := by pin_tac Gen.OptSites.customSource_NowNano_r0

theorem customSource_NowNano_r1_pin (cs_clock_NowNano : BitVec 64) :
    Gen.OptSites.customSource_NowNano_r1 cs_clock_NowNano = cs_clock_NowNano := by pin_tac Gen.OptSites.customSource_NowNano_r1

theorem realSource_Init_c0_pin (c_isInitialized_Load : Bool) :
    Gen.OptSites.realSource_Init_c0 c_isInitialized_Load = (!c_isInitialized_Load) := by pin_tac Gen.OptSites.realSource_Init_c0

theorem realSource_Init_c1_pin (c_isInitialized_Load : Bool) :
    Gen.OptSites.realSource_Init_c1 c_isInitialized_Load = (!c_isInitialized_Load) := by pin_tac Gen.OptSites.realSource_Init_c1

theorem realSource_NowNano_c0_pin (c_isInitialized_Load : Bool) :
    Gen.OptSites.realSource_NowNano_c0 c_isInitialized_Load = (!c_isInitialized_Load) := by pin_tac Gen.OptSites.realSource_NowNano_c0

theorem realSource_NowNano_r0_pin :
    Gen.OptSites.realSource_NowNano_r0  = (0#64) := by pin_tac Gen.OptSites.realSource_NowNano_r0

theorem realSource_NowNano_r1_pin (xmath_SaturatedAdd_c_startNanos_Load___time_Since_c_start__Nanoseconds : BitVec 64) :
    Gen.OptSites.realSource_NowNano_r1 xmath_SaturatedAdd_c_startNanos_Load___time_Since_c_start__Nanoseconds = xmath_SaturatedAdd_c_startNanos_Load___time_Since_c_start__Nanoseconds := by pin_tac Gen.OptSites.realSource_NowNano_r1

theorem fakeSource_Init_c0_pin (d : BitVec 64) (dur : BitVec 64) :
    Gen.OptSites.fakeSource_Init_c0 d dur = (BitVec.sle d dur) := by pin_tac Gen.OptSites.fakeSource_Init_c0

theorem fakeSource_Init_c1_pin (f_firstSleep_Load : Bool) :
    Gen.OptSites.fakeSource_Init_c1 f_firstSleep_Load = f_firstSleep_Load := by pin_tac Gen.OptSites.fakeSource_Init_c1

theorem fakeSource_Init_c2_pin (enabled : Bool) (f_firstSleep_Load : Bool) :
    Gen.OptSites.fakeSource_Init_c2 enabled f_firstSleep_Load = (enabled && f_firstSleep_Load) := by pin_tac Gen.OptSites.fakeSource_Init_c2

theorem fakeSource_Init_c3_pin (enabled : Bool) :
    Gen.OptSites.fakeSource_Init_c3 enabled = enabled := by pin_tac Gen.OptSites.fakeSource_Init_c3

theorem fakeSource_Init_c4_pin (d : BitVec 64) (dur : BitVec 64) :
    Gen.OptSites.fakeSource_Init_c4 d dur = (BitVec.sle d dur) := by pin_tac Gen.OptSites.fakeSource_Init_c4

theorem fakeSource_Init_a5_pin :
    Gen.OptSites.fakeSource_Init_a5  = false := by pin_tac Gen.OptSites.fakeSource_Init_a5

theorem fakeSource_Init_a8_pin :
    Gen.OptSites.fakeSource_Init_a8  = true := by pin_tac Gen.OptSites.fakeSource_Init_a8

theorem fakeSource_Init_u0_pin (d : BitVec 64) (dur : BitVec 64) :
    Gen.OptSites.fakeSource_Init_u0 d dur = (dur - d) := by pin_tac Gen.OptSites.fakeSource_Init_u0

theorem fakeSource_Init_u1_pin (dur : BitVec 64) (s : BitVec 64) :
    Gen.OptSites.fakeSource_Init_u1 dur s = (dur + s) := by pin_tac Gen.OptSites.fakeSource_Init_u1

theorem fakeSource_Init_u2_pin (d : BitVec 64) (dur : BitVec 64) :
    Gen.OptSites.fakeSource_Init_u2 d dur = (dur - d) := by pin_tac Gen.OptSites.fakeSource_Init_u2

theorem fakeSource_NowNano_r0_pin (f_getNow_UnixNano : BitVec 64) :
    Gen.OptSites.fakeSource_NowNano_r0 f_getNow_UnixNano = f_getNow_UnixNano := by pin_tac Gen.OptSites.fakeSource_NowNano_r0

theorem Options_getMaximum_c0_pin (o_MaximumSize : BitVec 64) :
    Gen.OptSites.Options_getMaximum_c0 o_MaximumSize = (BitVec.slt (0#64) o_MaximumSize) := by pin_tac Gen.OptSites.Options_getMaximum_c0

theorem Options_getMaximum_c1_pin (o_MaximumWeight : BitVec 64) :
    Gen.OptSites.Options_getMaximum_c1 o_MaximumWeight = (BitVec.ult (0#64) o_MaximumWeight) := by pin_tac Gen.OptSites.Options_getMaximum_c1

theorem Options_getMaximum_r0_pin (o_MaximumSize : BitVec 64) :
    Gen.OptSites.Options_getMaximum_r0 o_MaximumSize = o_MaximumSize := by pin_tac Gen.OptSites.Options_getMaximum_r0

theorem Options_getMaximum_r1_pin (o_MaximumWeight : BitVec 64) :
    Gen.OptSites.Options_getMaximum_r1 o_MaximumWeight = o_MaximumWeight := by pin_tac Gen.OptSites.Options_getMaximum_r1

theorem Options_getMaximum_r2_pin :
    Gen.OptSites.Options_getMaximum_r2  = (0#64) := by pin_tac Gen.OptSites.Options_getMaximum_r2

theorem Options_hasInitialCapacity_r0_pin (o_InitialCapacity : BitVec 64) :
    Gen.OptSites.Options_hasInitialCapacity_r0 o_InitialCapacity = (BitVec.slt (0#64) o_InitialCapacity) := by pin_tac Gen.OptSites.Options_hasInitialCapacity_r0

theorem Options_getInitialCapacity_c0_pin (o_hasInitialCapacity : Bool) :
    Gen.OptSites.Options_getInitialCapacity_c0 o_hasInitialCapacity = o_hasInitialCapacity := by pin_tac Gen.OptSites.Options_getInitialCapacity_c0

theorem Options_getInitialCapacity_r0_pin (o_InitialCapacity : BitVec 64) :
    Gen.OptSites.Options_getInitialCapacity_r0 o_InitialCapacity = o_InitialCapacity := by pin_tac Gen.OptSites.Options_getInitialCapacity_r0

theorem Options_getInitialCapacity_r1_pin :
    Gen.OptSites.Options_getInitialCapacity_r1  = (16#64) := by pin_tac Gen.OptSites.Options_getInitialCapacity_r1

theorem Options_getExecutor_c0_pin (o_Executor__nil : Bool) :
    Gen.OptSites.Options_getExecutor_c0 o_Executor__nil = o_Executor__nil := by pin_tac Gen.OptSites.Options_getExecutor_c0

theorem Options_getWeigher_c0_pin (o_Weigher__nil : Bool) :
    Gen.OptSites.Options_getWeigher_c0 o_Weigher__nil = o_Weigher__nil := by pin_tac Gen.OptSites.Options_getWeigher_c0

theorem Options_getLogger_c0_pin (o_Logger__nil : Bool) :
    Gen.OptSites.Options_getLogger_c0 o_Logger__nil = o_Logger__nil := by pin_tac Gen.OptSites.Options_getLogger_c0

theorem Options_validate_c0_pin (o_MaximumSize : BitVec 64) (o_MaximumWeight : BitVec 64) :
    Gen.OptSites.Options_validate_c0 o_MaximumSize o_MaximumWeight = ((BitVec.slt (0#64) o_MaximumSize) && (BitVec.ult (0#64) o_MaximumWeight)) := by pin_tac Gen.OptSites.Options_validate_c0

theorem Options_validate_c1_pin (o_MaximumSize : BitVec 64) (o_Weighernot_nil : Bool) :
    Gen.OptSites.Options_validate_c1 o_MaximumSize o_Weighernot_nil = ((BitVec.slt (0#64) o_MaximumSize) && o_Weighernot_nil) := by pin_tac Gen.OptSites.Options_validate_c1

theorem Options_validate_c2_pin (o_MaximumWeight : BitVec 64) (o_Weigher__nil : Bool) :
    Gen.OptSites.Options_validate_c2 o_MaximumWeight o_Weigher__nil = ((BitVec.ult (0#64) o_MaximumWeight) && o_Weigher__nil) := by pin_tac Gen.OptSites.Options_validate_c2

theorem Options_validate_c3_pin (o_MaximumWeight : BitVec 64) (o_Weighernot_nil : Bool) :
    Gen.OptSites.Options_validate_c3 o_MaximumWeight o_Weighernot_nil = (o_Weighernot_nil && (BitVec.ule o_MaximumWeight (0#64))) := by pin_tac Gen.OptSites.Options_validate_c3

theorem Options_validate_c4_pin (o_MaximumSize : BitVec 64) :
    Gen.OptSites.Options_validate_c4 o_MaximumSize = (BitVec.slt o_MaximumSize (0#64)) := by pin_tac Gen.OptSites.Options_validate_c4

theorem Options_validate_c5_pin (o_InitialCapacity : BitVec 64) :
    Gen.OptSites.Options_validate_c5 o_InitialCapacity = (BitVec.slt o_InitialCapacity (0#64)) := by pin_tac Gen.OptSites.Options_validate_c5

theorem siteParams_pin : Gen.OptSites.siteParams = [("ComputeOp_String_c0", ["co", "len_computeOpStrings"]),
  ("Must_c0", ["errnot_nil"]),
  ("New_c0", ["o__nil"]),
  ("New_c1", ["errnot_nil"]),
  ("Cache_GetMaximum_r0", ["c_cache_GetMaximum"]),
  ("Cache_EstimatedSize_r0", ["c_cache_EstimatedSize"]),
  ("Cache_IsWeighted_r0", ["c_cache_IsWeighted"]),
  ("Cache_WeightedSize_r0", ["c_cache_WeightedSize"]),
  ("Cache_IsRecordingStats_r0", ["c_cache_IsRecordingStats"]),
  ("Cache_StopAllGoroutines_r0", ["c_cache_StopAllGoroutines"]),
  ("Cache_has_r0", ["c_cache_has_key"]),
  ("newTimeSource_c0", ["clock__nil"]),
  ("newTimeSource_c1", ["ok"]),
  ("newTimeSource_c2", ["ok"]),
  ("customSource_Init_c0", ["cs_isInitialized_Load"]),
  ("customSource_NowNano_c0", ["cs_isInitialized_Load"]),
  ("customSource_NowNano_r0", []),
  ("customSource_NowNano_r1", ["cs_clock_NowNano"]),
  ("realSource_Init_c0", ["c_isInitialized_Load"]),
  ("realSource_Init_c1", ["c_isInitialized_Load"]),
  ("realSource_NowNano_c0", ["c_isInitialized_Load"]),
  ("realSource_NowNano_r0", []),
  ("realSource_NowNano_r1", ["xmath_SaturatedAdd_c_startNanos_Load___time_Since_c_start__Nanoseconds"]),
  ("fakeSource_Init_c0", ["d", "dur"]),
  ("fakeSource_Init_c1", ["f_firstSleep_Load"]),
  ("fakeSource_Init_c2", ["enabled", "f_firstSleep_Load"]),
  ("fakeSource_Init_c3", ["enabled"]),
  ("fakeSource_Init_c4", ["d", "dur"]),
  ("fakeSource_Init_a5", []),
  ("fakeSource_Init_a8", []),
  ("fakeSource_Init_u0", ["d", "dur"]),
  ("fakeSource_Init_u1", ["dur", "s"]),
  ("fakeSource_Init_u2", ["d", "dur"]),
  ("fakeSource_NowNano_r0", ["f_getNow_UnixNano"]),
  ("Options_getMaximum_c0", ["o_MaximumSize"]),
  ("Options_getMaximum_c1", ["o_MaximumWeight"]),
  ("Options_getMaximum_r0", ["o_MaximumSize"]),
  ("Options_getMaximum_r1", ["o_MaximumWeight"]),
  ("Options_getMaximum_r2", []),
  ("Options_hasInitialCapacity_r0", ["o_InitialCapacity"]),
  ("Options_getInitialCapacity_c0", ["o_hasInitialCapacity"]),
  ("Options_getInitialCapacity_r0", ["o_InitialCapacity"]),
  ("Options_getInitialCapacity_r1", []),
  ("Options_getExecutor_c0", ["o_Executor__nil"]),
  ("Options_getWeigher_c0", ["o_Weigher__nil"]),
  ("Options_getLogger_c0", ["o_Logger__nil"]),
  ("Options_validate_c0", ["o_MaximumSize", "o_MaximumWeight"]),
  ("Options_validate_c1", ["o_MaximumSize", "o_Weighernot_nil"]),
  ("Options_validate_c2", ["o_MaximumWeight", "o_Weigher__nil"]),
  ("Options_validate_c3", ["o_MaximumWeight", "o_Weighernot_nil"]),
  ("Options_validate_c4", ["o_MaximumSize"]),
  ("Options_validate_c5", ["o_InitialCapacity"])] := by rfl

theorem shape_pin : Gen.OptSites.shape = [("ComputeOp_String", [1, 0, 0, 2, 0, 0, 0]),
  ("Must", [1, 0, 0, 1, 0, 0, 0]),
  ("New", [2, 0, 4, 0, 0, 0, 0]),
  ("Cache_GetIfPresent", [0, 0, 0, 1, 0, 0, 0]),
  ("Cache_GetEntry", [0, 0, 0, 1, 0, 0, 0]),
  ("Cache_GetEntryQuietly", [0, 0, 0, 1, 0, 0, 0]),
  ("Cache_Set", [0, 0, 0, 1, 0, 0, 0]),
  ("Cache_SetIfAbsent", [0, 0, 0, 1, 0, 0, 0]),
  ("Cache_Compute", [0, 0, 0, 1, 0, 0, 0]),
  ("Cache_ComputeIfAbsent", [0, 0, 0, 1, 0, 0, 0]),
  ("Cache_ComputeIfPresent", [0, 0, 0, 1, 0, 0, 0]),
  ("Cache_SetExpiresAfter", [0, 0, 0, 0, 0, 0, 0]),
  ("Cache_SetRefreshableAfter", [0, 0, 0, 0, 0, 0, 0]),
  ("Cache_Get", [0, 0, 0, 1, 0, 0, 0]),
  ("Cache_BulkGet", [0, 0, 0, 1, 0, 0, 0]),
  ("Cache_Refresh", [0, 0, 0, 1, 0, 0, 0]),
  ("Cache_BulkRefresh", [0, 0, 0, 1, 0, 0, 0]),
  ("Cache_Invalidate", [0, 0, 0, 1, 0, 0, 0]),
  ("Cache_All", [0, 0, 0, 1, 0, 0, 0]),
  ("Cache_Keys", [0, 0, 0, 1, 0, 0, 0]),
  ("Cache_Values", [0, 0, 0, 1, 0, 0, 0]),
  ("Cache_InvalidateAll", [0, 0, 0, 0, 0, 0, 0]),
  ("Cache_CleanUp", [0, 0, 0, 0, 0, 0, 0]),
  ("Cache_SetMaximum", [0, 0, 0, 0, 0, 0, 0]),
  ("Cache_GetMaximum", [0, 0, 0, 1, 0, 0, 0]),
  ("Cache_EstimatedSize", [0, 0, 0, 1, 0, 0, 0]),
  ("Cache_IsWeighted", [0, 0, 0, 1, 0, 0, 0]),
  ("Cache_WeightedSize", [0, 0, 0, 1, 0, 0, 0]),
  ("Cache_IsRecordingStats", [0, 0, 0, 1, 0, 0, 0]),
  ("Cache_Stats", [0, 0, 0, 1, 0, 0, 0]),
  ("Cache_Hottest", [0, 0, 0, 1, 0, 0, 0]),
  ("Cache_Coldest", [0, 0, 0, 1, 0, 0, 0]),
  ("Cache_StopAllGoroutines", [0, 0, 0, 1, 0, 0, 0]),
  ("Cache_has", [0, 0, 0, 1, 0, 0, 0]),
  ("newTimeSource", [3, 0, 0, 4, 0, 0, 0]),
  ("newCustomSource", [0, 0, 0, 1, 0, 0, 0]),
  ("customSource_Init", [1, 0, 0, 0, 0, 0, 0]),
  ("customSource_NowNano", [1, 0, 0, 2, 0, 0, 0]),
  ("customSource_Tick", [0, 0, 0, 1, 0, 0, 0]),
  ("customSource_Sleep", [0, 0, 0, 0, 0, 0, 0]),
  ("customSource_ProcessTick", [0, 0, 0, 0, 0, 0, 0]),
  ("realSource_Init", [2, 0, 2, 0, 0, 0, 0]),
  ("realSource_NowNano", [1, 0, 0, 2, 0, 0, 0]),
  ("realSource_Tick", [0, 0, 0, 1, 0, 0, 0]),
  ("realSource_Sleep", [0, 0, 0, 0, 0, 0, 0]),
  ("realSource_ProcessTick", [0, 0, 0, 0, 0, 0, 0]),
  ("fakeSource_Init", [5, 3, 13, 0, 1, 0, 0]),
  ("fakeSource_NowNano", [0, 0, 0, 1, 0, 0, 0]),
  ("fakeSource_Tick", [0, 0, 0, 1, 0, 0, 0]),
  ("fakeSource_Sleep", [0, 0, 0, 0, 0, 0, 0]),
  ("fakeSource_getNow", [0, 0, 0, 1, 1, 0, 0]),
  ("fakeSource_ProcessTick", [0, 0, 0, 0, 0, 0, 0]),
  ("Options_getMaximum", [2, 0, 0, 3, 0, 0, 0]),
  ("Options_hasInitialCapacity", [0, 0, 0, 1, 0, 0, 0]),
  ("Options_getInitialCapacity", [1, 0, 0, 2, 0, 0, 0]),
  ("Options_getExecutor", [1, 0, 0, 2, 0, 0, 0]),
  ("Options_getWeigher", [1, 0, 0, 2, 0, 0, 0]),
  ("Options_getLogger", [1, 0, 0, 2, 0, 0, 0]),
  ("Options_validate", [6, 0, 0, 7, 0, 0, 0])] := by rfl

end OtterVerif.Pin.OptSites
