/-
  Pin.FlightSites — HAND-OWNED (bootstrapped once by tools/mkpins.py, then reviewed): what every pure computation that
  the translator extracts into Gen.FlightSites is expected to mean.  Re-checked against the regenerated Gen.FlightSites on every
  run; a pin that no longer proves names the Go expression whose meaning changed.
-/
import OtterVerif.Gen.FlightSites

namespace OtterVerif.Pin.FlightSites
open OtterVerif OtterVerif.Gen.FlightSites

/-- `rfl` when the regenerated term is the recorded one; otherwise try to see through a harmless rewrite
    (operand order of commutative operators) -/
local macro "pin_tac" d:ident : tactic =>
  `(tactic| first
    | rfl
    | (simp only [$d:ident]; ac_rfl)
    | (simp [$d:ident, BitVec.add_comm, BitVec.and_comm, BitVec.or_comm, BitVec.xor_comm, BitVec.mul_comm, Bool.and_comm, Bool.or_comm]))

theorem call_cancel_c0_pin (c_isFake : Bool) :
    Gen.FlightSites.call_cancel_c0 c_isFake = c_isFake := by pin_tac Gen.FlightSites.call_cancel_c0

theorem mapCallManager_IsNil_r0_pin (c__nil : Bool) :
    Gen.FlightSites.mapCallManager_IsNil_r0 c__nil = c__nil := by pin_tac Gen.FlightSites.mapCallManager_IsNil_r0

theorem group_init_c0_pin (g_isInitialized_Load : Bool) :
    Gen.FlightSites.group_init_c0 g_isInitialized_Load = (!g_isInitialized_Load) := by pin_tac Gen.FlightSites.group_init_c0

theorem group_init_c1_pin (g_isInitialized_Load : Bool) :
    Gen.FlightSites.group_init_c1 g_isInitialized_Load = (!g_isInitialized_Load) := by pin_tac Gen.FlightSites.group_init_c1

theorem group_startCall_c0_pin (cnot_nil : Bool) :
    Gen.FlightSites.group_startCall_c0 cnot_nil = cnot_nil := by pin_tac Gen.FlightSites.group_startCall_c0

theorem group_startCall_c1_pin (prevCallnot_nil : Bool) :
    Gen.FlightSites.group_startCall_c1 prevCallnot_nil = prevCallnot_nil := by pin_tac Gen.FlightSites.group_startCall_c1

theorem group_startCall_a1_pin :
    Gen.FlightSites.group_startCall_a1  = true := by pin_tac Gen.FlightSites.group_startCall_a1

theorem group_doCall_c0_pin (rnot_nil : Bool) :
    Gen.FlightSites.group_doCall_c0 rnot_nil = rnot_nil := by pin_tac Gen.FlightSites.group_doCall_c0

theorem group_doCall_a3_pin (errors_Is_err_ErrNotFound : Bool) :
    Gen.FlightSites.group_doCall_a3 errors_Is_err_ErrNotFound = errors_Is_err_ErrNotFound := by pin_tac Gen.FlightSites.group_doCall_a3

theorem group_doBulkCall_c0_pin (rnot_nil : Bool) :
    Gen.FlightSites.group_doBulkCall_c0 rnot_nil = rnot_nil := by pin_tac Gen.FlightSites.group_doBulkCall_c0

theorem group_doBulkCall_c1_pin (errnot_nil : Bool) :
    Gen.FlightSites.group_doBulkCall_c1 errnot_nil = errnot_nil := by pin_tac Gen.FlightSites.group_doBulkCall_c1

theorem group_doBulkCall_c2_pin (found : Bool) :
    Gen.FlightSites.group_doBulkCall_c2 found = (!found) := by pin_tac Gen.FlightSites.group_doBulkCall_c2

theorem group_doBulkCall_c3_pin (ok : Bool) :
    Gen.FlightSites.group_doBulkCall_c3 ok = ok := by pin_tac Gen.FlightSites.group_doBulkCall_c3

theorem group_doBulkCall_c4_pin (ok : Bool) :
    Gen.FlightSites.group_doBulkCall_c4 ok = ok := by pin_tac Gen.FlightSites.group_doBulkCall_c4

theorem group_doBulkCall_a3_pin :
    Gen.FlightSites.group_doBulkCall_a3  = false := by pin_tac Gen.FlightSites.group_doBulkCall_a3

theorem group_doBulkCall_a6_pin (cl_isRefresh : Bool) :
    Gen.FlightSites.group_doBulkCall_a6 cl_isRefresh = cl_isRefresh := by pin_tac Gen.FlightSites.group_doBulkCall_a6

theorem group_doBulkCall_a7_pin :
    Gen.FlightSites.group_doBulkCall_a7  = true := by pin_tac Gen.FlightSites.group_doBulkCall_a7

theorem group_doBulkCall_a9_pin :
    Gen.FlightSites.group_doBulkCall_a9  = true := by pin_tac Gen.FlightSites.group_doBulkCall_a9

theorem group_deleteCall_c0_pin (gotnot_c : Bool) :
    Gen.FlightSites.group_deleteCall_c0 gotnot_c = gotnot_c := by pin_tac Gen.FlightSites.group_deleteCall_c0

theorem group_deleteCall_c1_pin (prevCall__c : Bool) :
    Gen.FlightSites.group_deleteCall_c1 prevCall__c = prevCall__c := by pin_tac Gen.FlightSites.group_deleteCall_c1

theorem group_deleteCall_r0_pin :
    Gen.FlightSites.group_deleteCall_r0  = false := by pin_tac Gen.FlightSites.group_deleteCall_r0

theorem group_deleteCall_r1_pin (cl__nil : Bool) :
    Gen.FlightSites.group_deleteCall_r1 cl__nil = cl__nil := by pin_tac Gen.FlightSites.group_deleteCall_r1

theorem group_delete_c0_pin (g_isInitialized_Load : Bool) :
    Gen.FlightSites.group_delete_c0 g_isInitialized_Load = (!g_isInitialized_Load) := by pin_tac Gen.FlightSites.group_delete_c0

theorem siteParams_pin : Gen.FlightSites.siteParams = [("call_cancel_c0", ["c_isFake"]),
  ("mapCallManager_IsNil_r0", ["c__nil"]),
  ("group_init_c0", ["g_isInitialized_Load"]),
  ("group_init_c1", ["g_isInitialized_Load"]),
  ("group_startCall_c0", ["cnot_nil"]),
  ("group_startCall_c1", ["prevCallnot_nil"]),
  ("group_startCall_a1", []),
  ("group_doCall_c0", ["rnot_nil"]),
  ("group_doCall_a3", ["errors_Is_err_ErrNotFound"]),
  ("group_doBulkCall_c0", ["rnot_nil"]),
  ("group_doBulkCall_c1", ["errnot_nil"]),
  ("group_doBulkCall_c2", ["found"]),
  ("group_doBulkCall_c3", ["ok"]),
  ("group_doBulkCall_c4", ["ok"]),
  ("group_doBulkCall_a3", []),
  ("group_doBulkCall_a6", ["cl_isRefresh"]),
  ("group_doBulkCall_a7", []),
  ("group_doBulkCall_a9", []),
  ("group_deleteCall_c0", ["gotnot_c"]),
  ("group_deleteCall_c1", ["prevCall__c"]),
  ("group_deleteCall_r0", []),
  ("group_deleteCall_r1", ["cl__nil"]),
  ("group_delete_c0", ["g_isInitialized_Load"])] := by rfl

theorem shape_pin : Gen.FlightSites.shape = [("newCall", [0, 0, 1, 1, 0, 0, 0]),
  ("call_Key", [0, 0, 0, 1, 0, 0, 0]),
  ("call_Value", [0, 0, 0, 1, 0, 0, 0]),
  ("call_AsPointer", [0, 0, 0, 1, 0, 0, 0]),
  ("call_cancel", [1, 0, 0, 0, 0, 0, 0]),
  ("call_wait", [0, 0, 0, 0, 0, 0, 0]),
  ("mapCallManager_FromPointer", [0, 0, 0, 1, 0, 0, 0]),
  ("mapCallManager_IsNil", [0, 0, 0, 1, 0, 0, 0]),
  ("group_init", [2, 0, 1, 0, 0, 0, 0]),
  ("group_getCall", [0, 0, 0, 1, 0, 0, 0]),
  ("group_startCall", [2, 0, 2, 0, 0, 0, 0]),
  ("group_doCall", [1, 0, 4, 1, 1, 0, 0]),
  ("group_doBulkCall", [5, 0, 12, 1, 1, 0, 0]),
  ("group_deleteCall", [2, 0, 2, 2, 0, 0, 0]),
  ("group_delete", [1, 0, 0, 0, 0, 0, 0])] := by rfl

end OtterVerif.Pin.FlightSites
