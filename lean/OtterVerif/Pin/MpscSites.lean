/-
  Pin.MpscSites — HAND-OWNED (bootstrapped once by tools/mkpins.py, then reviewed): what every pure computation that
  the translator extracts into Gen.MpscSites is expected to mean.  Re-checked against the regenerated Gen.MpscSites on every
  run; a pin that no longer proves names the Go expression whose meaning changed.
-/
import OtterVerif.Gen.MpscSites

namespace OtterVerif.Pin.MpscSites
open OtterVerif OtterVerif.Gen.MpscSites

/-- `rfl` when the regenerated term is the recorded one; otherwise try to see through a harmless rewrite
    (operand order of commutative operators) -/
local macro "pin_tac" d:ident : tactic =>
  `(tactic| first
    | rfl
    | (simp only [$d:ident]; ac_rfl)
    | (simp [$d:ident, BitVec.add_comm, BitVec.and_comm, BitVec.or_comm, BitVec.xor_comm, BitVec.mul_comm, Bool.and_comm, Bool.or_comm]))

theorem h_modifiedCalcElementOffset_pin (index : BitVec 64) (mask : BitVec 64) :
    Gen.MpscSites.h_modifiedCalcElementOffset index mask = ((index &&& mask) >>> 1) := by pin_tac Gen.MpscSites.h_modifiedCalcElementOffset

theorem h_nextArrayOffset_pin (mask : BitVec 64) :
    Gen.MpscSites.h_nextArrayOffset mask = (h_modifiedCalcElementOffset (mask + (2#64)) (18446744073709551615#64)) := by pin_tac Gen.MpscSites.h_nextArrayOffset

theorem NewMPSC_c0_pin (initialCapacity : BitVec 32) :
    Gen.MpscSites.NewMPSC_c0 initialCapacity = (BitVec.ult initialCapacity (2#32)) := by pin_tac Gen.MpscSites.NewMPSC_c0

theorem NewMPSC_c1_pin (maxCapacity : BitVec 32) :
    Gen.MpscSites.NewMPSC_c1 maxCapacity = (BitVec.ult maxCapacity (4#32)) := by pin_tac Gen.MpscSites.NewMPSC_c1

theorem NewMPSC_c2_pin (p2initialCapacity : BitVec 32) (p2maxCapacity : BitVec 32) :
    Gen.MpscSites.NewMPSC_c2 p2initialCapacity p2maxCapacity = (BitVec.ult p2maxCapacity p2initialCapacity) := by pin_tac Gen.MpscSites.NewMPSC_c2

theorem NewMPSC_x0_pin (p2initialCapacity : BitVec 32) :
    Gen.MpscSites.NewMPSC_x0 p2initialCapacity = ((BitVec.setWidth 64 p2initialCapacity) + (1#64)) := by pin_tac Gen.MpscSites.NewMPSC_x0

theorem NewMPSC_x1_pin (p2maxCapacity : BitVec 32) :
    Gen.MpscSites.NewMPSC_x1 p2maxCapacity = ((BitVec.setWidth 64 p2maxCapacity) <<< 1) := by pin_tac Gen.MpscSites.NewMPSC_x1

theorem NewMPSC_a0_pin (initialCapacity : BitVec 32) :
    Gen.MpscSites.NewMPSC_a0 initialCapacity = (OtterVerif.Gen.Xmath.RoundUpPowerOf2 initialCapacity) := by pin_tac Gen.MpscSites.NewMPSC_a0

theorem NewMPSC_a1_pin (maxCapacity : BitVec 32) :
    Gen.MpscSites.NewMPSC_a1 maxCapacity = (OtterVerif.Gen.Xmath.RoundUpPowerOf2 maxCapacity) := by pin_tac Gen.MpscSites.NewMPSC_a1

theorem NewMPSC_a3_pin (p2initialCapacity : BitVec 32) :
    Gen.MpscSites.NewMPSC_a3 p2initialCapacity = (BitVec.setWidth 64 ((p2initialCapacity - (1#32)) <<< 1)) := by pin_tac Gen.MpscSites.NewMPSC_a3

theorem MPSC_getNextBufferSize_c0_pin (bufferLength : BitVec 64) (maxSize : BitVec 64) :
    Gen.MpscSites.MPSC_getNextBufferSize_c0 bufferLength maxSize = (BitVec.ult maxSize bufferLength) := by pin_tac Gen.MpscSites.MPSC_getNextBufferSize_c0

theorem MPSC_getNextBufferSize_a0_pin (m_maxQueueCapacity : BitVec 64) :
    Gen.MpscSites.MPSC_getNextBufferSize_a0 m_maxQueueCapacity = (m_maxQueueCapacity / (2#64)) := by pin_tac Gen.MpscSites.MPSC_getNextBufferSize_a0

theorem MPSC_getNextBufferSize_a1_pin (len_buffer_data : BitVec 64) :
    Gen.MpscSites.MPSC_getNextBufferSize_a1 len_buffer_data = len_buffer_data := by pin_tac Gen.MpscSites.MPSC_getNextBufferSize_a1

theorem MPSC_getNextBufferSize_a2_pin (bufferLength : BitVec 64) :
    Gen.MpscSites.MPSC_getNextBufferSize_a2 bufferLength = ((2#64) * (bufferLength - (1#64))) := by pin_tac Gen.MpscSites.MPSC_getNextBufferSize_a2

theorem MPSC_getNextBufferSize_r0_pin (newSize : BitVec 64) :
    Gen.MpscSites.MPSC_getNextBufferSize_r0 newSize = (newSize + (1#64)) := by pin_tac Gen.MpscSites.MPSC_getNextBufferSize_r0

theorem MPSC_getCurrentBufferCapacity_c0_pin (m_maxQueueCapacity : BitVec 64) (mask : BitVec 64) :
    Gen.MpscSites.MPSC_getCurrentBufferCapacity_c0 m_maxQueueCapacity mask = ((mask + (2#64)) == m_maxQueueCapacity) := by pin_tac Gen.MpscSites.MPSC_getCurrentBufferCapacity_c0

theorem MPSC_getCurrentBufferCapacity_r0_pin (m_maxQueueCapacity : BitVec 64) :
    Gen.MpscSites.MPSC_getCurrentBufferCapacity_r0 m_maxQueueCapacity = m_maxQueueCapacity := by pin_tac Gen.MpscSites.MPSC_getCurrentBufferCapacity_r0

theorem MPSC_getCurrentBufferCapacity_r1_pin (mask : BitVec 64) :
    Gen.MpscSites.MPSC_getCurrentBufferCapacity_r1 mask = mask := by pin_tac Gen.MpscSites.MPSC_getCurrentBufferCapacity_r1

theorem MPSC_availableInQueue_r0_pin (cIndex : BitVec 64) (m_maxQueueCapacity : BitVec 64) (pIndex : BitVec 64) :
    Gen.MpscSites.MPSC_availableInQueue_r0 cIndex m_maxQueueCapacity pIndex = (m_maxQueueCapacity - (pIndex - cIndex)) := by pin_tac Gen.MpscSites.MPSC_availableInQueue_r0

theorem MPSC_capacity_r0_pin (m_maxQueueCapacity : BitVec 64) :
    Gen.MpscSites.MPSC_capacity_r0 m_maxQueueCapacity = (m_maxQueueCapacity / (2#64)) := by pin_tac Gen.MpscSites.MPSC_capacity_r0

theorem MPSC_TryPush_c0_pin (pIndex : BitVec 64) :
    Gen.MpscSites.MPSC_TryPush_c0 pIndex = ((pIndex &&& (1#64)) == (1#64)) := by pin_tac Gen.MpscSites.MPSC_TryPush_c0

theorem MPSC_TryPush_c1_pin (pIndex : BitVec 64) (producerLimit : BitVec 64) :
    Gen.MpscSites.MPSC_TryPush_c1 pIndex producerLimit = (BitVec.ule producerLimit pIndex) := by pin_tac Gen.MpscSites.MPSC_TryPush_c1

theorem MPSC_TryPush_c2_pin (m_producerIndex_CompareAndSwap_pIndex_pIndex_2 : Bool) :
    Gen.MpscSites.MPSC_TryPush_c2 m_producerIndex_CompareAndSwap_pIndex_pIndex_2 = m_producerIndex_CompareAndSwap_pIndex_pIndex_2 := by pin_tac Gen.MpscSites.MPSC_TryPush_c2

theorem MPSC_TryPush_s0_pin (result : BitVec 8) :
    Gen.MpscSites.MPSC_TryPush_s0 result = (result == (0#8)) := by pin_tac Gen.MpscSites.MPSC_TryPush_s0

theorem MPSC_TryPush_s1_pin (result : BitVec 8) :
    Gen.MpscSites.MPSC_TryPush_s1 result = (result == (1#8)) := by pin_tac Gen.MpscSites.MPSC_TryPush_s1

theorem MPSC_TryPush_s2_pin (result : BitVec 8) :
    Gen.MpscSites.MPSC_TryPush_s2 result = (result == (2#8)) := by pin_tac Gen.MpscSites.MPSC_TryPush_s2

theorem MPSC_TryPush_s3_pin (result : BitVec 8) :
    Gen.MpscSites.MPSC_TryPush_s3 result = (result == (3#8)) := by pin_tac Gen.MpscSites.MPSC_TryPush_s3

theorem MPSC_TryPush_x0_pin (pIndex : BitVec 64) :
    Gen.MpscSites.MPSC_TryPush_x0 pIndex = (pIndex + (2#64)) := by pin_tac Gen.MpscSites.MPSC_TryPush_x0

theorem MPSC_TryPush_a0_pin (m_producerLimit_Load : BitVec 64) :
    Gen.MpscSites.MPSC_TryPush_a0 m_producerLimit_Load = m_producerLimit_Load := by pin_tac Gen.MpscSites.MPSC_TryPush_a0

theorem MPSC_TryPush_a1_pin (m_producerIndex_Load : BitVec 64) :
    Gen.MpscSites.MPSC_TryPush_a1 m_producerIndex_Load = m_producerIndex_Load := by pin_tac Gen.MpscSites.MPSC_TryPush_a1

theorem MPSC_TryPush_a2_pin (m_producerMask_Load : BitVec 64) :
    Gen.MpscSites.MPSC_TryPush_a2 m_producerMask_Load = m_producerMask_Load := by pin_tac Gen.MpscSites.MPSC_TryPush_a2

theorem MPSC_TryPush_a4_pin (m_pushSlowPath_mask_pIndex_producerLimit : BitVec 8) :
    Gen.MpscSites.MPSC_TryPush_a4 m_pushSlowPath_mask_pIndex_producerLimit = m_pushSlowPath_mask_pIndex_producerLimit := by pin_tac Gen.MpscSites.MPSC_TryPush_a4

theorem MPSC_TryPush_a5_pin (mask : BitVec 64) (pIndex : BitVec 64) :
    Gen.MpscSites.MPSC_TryPush_a5 mask pIndex = (h_modifiedCalcElementOffset pIndex mask) := by pin_tac Gen.MpscSites.MPSC_TryPush_a5

theorem MPSC_TryPush_r0_pin :
    Gen.MpscSites.MPSC_TryPush_r0  = false := by pin_tac Gen.MpscSites.MPSC_TryPush_r0

theorem MPSC_TryPush_r1_pin :
    Gen.MpscSites.MPSC_TryPush_r1  = true := by pin_tac Gen.MpscSites.MPSC_TryPush_r1

theorem MPSC_TryPush_r2_pin :
    Gen.MpscSites.MPSC_TryPush_r2  = true := by pin_tac Gen.MpscSites.MPSC_TryPush_r2

theorem MPSC_pushSlowPath_c0_pin (bufferCapacity : BitVec 64) (cIndex : BitVec 64) (pIndex : BitVec 64) :
    Gen.MpscSites.MPSC_pushSlowPath_c0 bufferCapacity cIndex pIndex = (BitVec.ult pIndex (cIndex + bufferCapacity)) := by pin_tac Gen.MpscSites.MPSC_pushSlowPath_c0

theorem MPSC_pushSlowPath_c1_pin (m_availableInQueue_pIndex_cIndex : BitVec 64) :
    Gen.MpscSites.MPSC_pushSlowPath_c1 m_availableInQueue_pIndex_cIndex = (BitVec.ule m_availableInQueue_pIndex_cIndex (0#64)) := by pin_tac Gen.MpscSites.MPSC_pushSlowPath_c1

theorem MPSC_pushSlowPath_c2_pin (m_producerIndex_CompareAndSwap_pIndex_pIndex_1 : Bool) :
    Gen.MpscSites.MPSC_pushSlowPath_c2 m_producerIndex_CompareAndSwap_pIndex_pIndex_1 = m_producerIndex_CompareAndSwap_pIndex_pIndex_1 := by pin_tac Gen.MpscSites.MPSC_pushSlowPath_c2

theorem MPSC_pushSlowPath_c3_pin (m_producerLimit_CompareAndSwap_producerLimit_cIndex_bufferCapacity : Bool) :
    Gen.MpscSites.MPSC_pushSlowPath_c3 m_producerLimit_CompareAndSwap_producerLimit_cIndex_bufferCapacity = (!m_producerLimit_CompareAndSwap_producerLimit_cIndex_bufferCapacity) := by pin_tac Gen.MpscSites.MPSC_pushSlowPath_c3

theorem MPSC_pushSlowPath_x0_pin (bufferCapacity : BitVec 64) (cIndex : BitVec 64) :
    Gen.MpscSites.MPSC_pushSlowPath_x0 bufferCapacity cIndex = (cIndex + bufferCapacity) := by pin_tac Gen.MpscSites.MPSC_pushSlowPath_x0

theorem MPSC_pushSlowPath_x1_pin (pIndex : BitVec 64) :
    Gen.MpscSites.MPSC_pushSlowPath_x1 pIndex = (pIndex + (1#64)) := by pin_tac Gen.MpscSites.MPSC_pushSlowPath_x1

theorem MPSC_pushSlowPath_a0_pin (m_consumerIndex_Load : BitVec 64) :
    Gen.MpscSites.MPSC_pushSlowPath_a0 m_consumerIndex_Load = m_consumerIndex_Load := by pin_tac Gen.MpscSites.MPSC_pushSlowPath_a0

theorem MPSC_pushSlowPath_a1_pin (m_getCurrentBufferCapacity_mask : BitVec 64) :
    Gen.MpscSites.MPSC_pushSlowPath_a1 m_getCurrentBufferCapacity_mask = m_getCurrentBufferCapacity_mask := by pin_tac Gen.MpscSites.MPSC_pushSlowPath_a1

theorem MPSC_pushSlowPath_a2_pin :
    Gen.MpscSites.MPSC_pushSlowPath_a2  = (1#8) := by pin_tac Gen.MpscSites.MPSC_pushSlowPath_a2

theorem MPSC_pushSlowPath_a3_pin :
    Gen.MpscSites.MPSC_pushSlowPath_a3  = (2#8) := by pin_tac Gen.MpscSites.MPSC_pushSlowPath_a3

theorem MPSC_pushSlowPath_a4_pin :
    Gen.MpscSites.MPSC_pushSlowPath_a4  = (3#8) := by pin_tac Gen.MpscSites.MPSC_pushSlowPath_a4

theorem MPSC_pushSlowPath_a5_pin :
    Gen.MpscSites.MPSC_pushSlowPath_a5  = (1#8) := by pin_tac Gen.MpscSites.MPSC_pushSlowPath_a5

theorem MPSC_pushSlowPath_r0_pin (result : BitVec 8) :
    Gen.MpscSites.MPSC_pushSlowPath_r0 result = result := by pin_tac Gen.MpscSites.MPSC_pushSlowPath_r0

theorem MPSC_TryPop_c1_pin (index : BitVec 64) (m_producerIndex_Load : BitVec 64) :
    Gen.MpscSites.MPSC_TryPop_c1 index m_producerIndex_Load = (index == m_producerIndex_Load) := by pin_tac Gen.MpscSites.MPSC_TryPop_c1

theorem MPSC_TryPop_x0_pin (index : BitVec 64) :
    Gen.MpscSites.MPSC_TryPop_x0 index = (index + (2#64)) := by pin_tac Gen.MpscSites.MPSC_TryPop_x0

theorem MPSC_TryPop_a1_pin (m_consumerIndex_Load : BitVec 64) :
    Gen.MpscSites.MPSC_TryPop_a1 m_consumerIndex_Load = m_consumerIndex_Load := by pin_tac Gen.MpscSites.MPSC_TryPop_a1

theorem MPSC_TryPop_a2_pin (m_consumerMask_Load : BitVec 64) :
    Gen.MpscSites.MPSC_TryPop_a2 m_consumerMask_Load = m_consumerMask_Load := by pin_tac Gen.MpscSites.MPSC_TryPop_a2

theorem MPSC_TryPop_a3_pin (index : BitVec 64) (mask : BitVec 64) :
    Gen.MpscSites.MPSC_TryPop_a3 index mask = (h_modifiedCalcElementOffset index mask) := by pin_tac Gen.MpscSites.MPSC_TryPop_a3

theorem MPSC_Size_c0_pin (m__nil : Bool) :
    Gen.MpscSites.MPSC_Size_c0 m__nil = m__nil := by pin_tac Gen.MpscSites.MPSC_Size_c0

theorem MPSC_Size_c1_pin (after : BitVec 64) (before : BitVec 64) :
    Gen.MpscSites.MPSC_Size_c1 after before = (before == after) := by pin_tac Gen.MpscSites.MPSC_Size_c1

theorem MPSC_Size_a0_pin (m_consumerIndex_Load : BitVec 64) :
    Gen.MpscSites.MPSC_Size_a0 m_consumerIndex_Load = m_consumerIndex_Load := by pin_tac Gen.MpscSites.MPSC_Size_a0

theorem MPSC_Size_a1_pin (after : BitVec 64) :
    Gen.MpscSites.MPSC_Size_a1 after = after := by pin_tac Gen.MpscSites.MPSC_Size_a1

theorem MPSC_Size_a2_pin (m_producerIndex_Load : BitVec 64) :
    Gen.MpscSites.MPSC_Size_a2 m_producerIndex_Load = m_producerIndex_Load := by pin_tac Gen.MpscSites.MPSC_Size_a2

theorem MPSC_Size_a3_pin (m_consumerIndex_Load : BitVec 64) :
    Gen.MpscSites.MPSC_Size_a3 m_consumerIndex_Load = m_consumerIndex_Load := by pin_tac Gen.MpscSites.MPSC_Size_a3

theorem MPSC_Size_r0_pin :
    Gen.MpscSites.MPSC_Size_r0  = (0#64) := by pin_tac Gen.MpscSites.MPSC_Size_r0

theorem MPSC_Size_r1_pin (after : BitVec 64) (currentProducerIndex : BitVec 64) :
    Gen.MpscSites.MPSC_Size_r1 after currentProducerIndex = ((currentProducerIndex - after) >>> 1) := by pin_tac Gen.MpscSites.MPSC_Size_r1

theorem MPSC_IsEmpty_r0_pin (m_consumerIndex_Load : BitVec 64) (m_producerIndex_Load : BitVec 64) :
    Gen.MpscSites.MPSC_IsEmpty_r0 m_consumerIndex_Load m_producerIndex_Load = (m_consumerIndex_Load == m_producerIndex_Load) := by pin_tac Gen.MpscSites.MPSC_IsEmpty_r0

theorem MPSC_getNextBuffer_c0_pin (nextBuffer__nil : Bool) :
    Gen.MpscSites.MPSC_getNextBuffer_c0 nextBuffer__nil = nextBuffer__nil := by pin_tac Gen.MpscSites.MPSC_getNextBuffer_c0

theorem MPSC_getNextBuffer_a0_pin (mask : BitVec 64) :
    Gen.MpscSites.MPSC_getNextBuffer_a0 mask = (h_nextArrayOffset mask) := by pin_tac Gen.MpscSites.MPSC_getNextBuffer_a0

theorem MPSC_newBufferTryPush_x0_pin (index : BitVec 64) :
    Gen.MpscSites.MPSC_newBufferTryPush_x0 index = (index + (2#64)) := by pin_tac Gen.MpscSites.MPSC_newBufferTryPush_x0

theorem MPSC_newBufferTryPush_a0_pin (m_newBufferAndOffset_b_index : BitVec 64) :
    Gen.MpscSites.MPSC_newBufferTryPush_a0 m_newBufferAndOffset_b_index = m_newBufferAndOffset_b_index := by pin_tac Gen.MpscSites.MPSC_newBufferTryPush_a0

theorem MPSC_newBufferAndOffset_a0_pin (len_b_data : BitVec 64) :
    Gen.MpscSites.MPSC_newBufferAndOffset_a0 len_b_data = ((len_b_data - (2#64)) <<< 1) := by pin_tac Gen.MpscSites.MPSC_newBufferAndOffset_a0

theorem MPSC_newBufferAndOffset_r0_pin (index : BitVec 64) (mask : BitVec 64) :
    Gen.MpscSites.MPSC_newBufferAndOffset_r0 index mask = (h_modifiedCalcElementOffset index mask) := by pin_tac Gen.MpscSites.MPSC_newBufferAndOffset_r0

theorem MPSC_resize_c0_pin (availableInQueue : BitVec 64) :
    Gen.MpscSites.MPSC_resize_c0 availableInQueue = (availableInQueue == (0#64)) := by pin_tac Gen.MpscSites.MPSC_resize_c0

theorem MPSC_resize_x0_pin (availableInQueue : BitVec 64) (newMask : BitVec 64) (pIndex : BitVec 64) :
    Gen.MpscSites.MPSC_resize_x0 availableInQueue newMask pIndex = (pIndex + (OtterVerif.Bv.umin newMask availableInQueue)) := by pin_tac Gen.MpscSites.MPSC_resize_x0

theorem MPSC_resize_x1_pin (pIndex : BitVec 64) :
    Gen.MpscSites.MPSC_resize_x1 pIndex = (pIndex + (2#64)) := by pin_tac Gen.MpscSites.MPSC_resize_x1

theorem MPSC_resize_a0_pin (m_getNextBufferSize_oldBuffer : BitVec 64) :
    Gen.MpscSites.MPSC_resize_a0 m_getNextBufferSize_oldBuffer = m_getNextBufferSize_oldBuffer := by pin_tac Gen.MpscSites.MPSC_resize_a0

theorem MPSC_resize_a2_pin (newBufferLength : BitVec 64) :
    Gen.MpscSites.MPSC_resize_a2 newBufferLength = ((newBufferLength - (2#64)) <<< 1) := by pin_tac Gen.MpscSites.MPSC_resize_a2

theorem MPSC_resize_a3_pin (oldMask : BitVec 64) (pIndex : BitVec 64) :
    Gen.MpscSites.MPSC_resize_a3 oldMask pIndex = (h_modifiedCalcElementOffset pIndex oldMask) := by pin_tac Gen.MpscSites.MPSC_resize_a3

theorem MPSC_resize_a4_pin (newMask : BitVec 64) (pIndex : BitVec 64) :
    Gen.MpscSites.MPSC_resize_a4 newMask pIndex = (h_modifiedCalcElementOffset pIndex newMask) := by pin_tac Gen.MpscSites.MPSC_resize_a4

theorem MPSC_resize_a5_pin (m_consumerIndex_Load : BitVec 64) :
    Gen.MpscSites.MPSC_resize_a5 m_consumerIndex_Load = m_consumerIndex_Load := by pin_tac Gen.MpscSites.MPSC_resize_a5

theorem MPSC_resize_a6_pin (m_availableInQueue_pIndex_cIndex : BitVec 64) :
    Gen.MpscSites.MPSC_resize_a6 m_availableInQueue_pIndex_cIndex = m_availableInQueue_pIndex_cIndex := by pin_tac Gen.MpscSites.MPSC_resize_a6

theorem nextArrayOffset_x0_pin (mask : BitVec 64) :
    Gen.MpscSites.nextArrayOffset_x0 mask = (mask + (2#64)) := by pin_tac Gen.MpscSites.nextArrayOffset_x0

theorem nextArrayOffset_r0_pin (mask : BitVec 64) :
    Gen.MpscSites.nextArrayOffset_r0 mask = (h_modifiedCalcElementOffset (mask + (2#64)) (18446744073709551615#64)) := by pin_tac Gen.MpscSites.nextArrayOffset_r0

theorem modifiedCalcElementOffset_r0_pin (index : BitVec 64) (mask : BitVec 64) :
    Gen.MpscSites.modifiedCalcElementOffset_r0 index mask = ((index &&& mask) >>> 1) := by pin_tac Gen.MpscSites.modifiedCalcElementOffset_r0

theorem siteParams_pin : Gen.MpscSites.siteParams = [("NewMPSC_c0", ["initialCapacity"]),
  ("NewMPSC_c1", ["maxCapacity"]),
  ("NewMPSC_c2", ["p2initialCapacity", "p2maxCapacity"]),
  ("NewMPSC_x0", ["p2initialCapacity"]),
  ("NewMPSC_x1", ["p2maxCapacity"]),
  ("NewMPSC_a0", ["initialCapacity"]),
  ("NewMPSC_a1", ["maxCapacity"]),
  ("NewMPSC_a3", ["p2initialCapacity"]),
  ("MPSC_getNextBufferSize_c0", ["bufferLength", "maxSize"]),
  ("MPSC_getNextBufferSize_a0", ["m_maxQueueCapacity"]),
  ("MPSC_getNextBufferSize_a1", ["len_buffer_data"]),
  ("MPSC_getNextBufferSize_a2", ["bufferLength"]),
  ("MPSC_getNextBufferSize_r0", ["newSize"]),
  ("MPSC_getCurrentBufferCapacity_c0", ["m_maxQueueCapacity", "mask"]),
  ("MPSC_getCurrentBufferCapacity_r0", ["m_maxQueueCapacity"]),
  ("MPSC_getCurrentBufferCapacity_r1", ["mask"]),
  ("MPSC_availableInQueue_r0", ["cIndex", "m_maxQueueCapacity", "pIndex"]),
  ("MPSC_capacity_r0", ["m_maxQueueCapacity"]),
  ("MPSC_TryPush_c0", ["pIndex"]),
  ("MPSC_TryPush_c1", ["pIndex", "producerLimit"]),
  ("MPSC_TryPush_c2", ["m_producerIndex_CompareAndSwap_pIndex_pIndex_2"]),
  ("MPSC_TryPush_s0", ["result"]),
  ("MPSC_TryPush_s1", ["result"]),
  ("MPSC_TryPush_s2", ["result"]),
  ("MPSC_TryPush_s3", ["result"]),
  ("MPSC_TryPush_x0", ["pIndex"]),
  ("MPSC_TryPush_a0", ["m_producerLimit_Load"]),
  ("MPSC_TryPush_a1", ["m_producerIndex_Load"]),
  ("MPSC_TryPush_a2", ["m_producerMask_Load"]),
  ("MPSC_TryPush_a4", ["m_pushSlowPath_mask_pIndex_producerLimit"]),
  ("MPSC_TryPush_a5", ["mask", "pIndex"]),
  ("MPSC_TryPush_r0", []),
  ("MPSC_TryPush_r1", []),
  ("MPSC_TryPush_r2", []),
  ("MPSC_pushSlowPath_c0", ["bufferCapacity", "cIndex", "pIndex"]),
  ("MPSC_pushSlowPath_c1", ["m_availableInQueue_pIndex_cIndex"]),
  ("MPSC_pushSlowPath_c2", ["m_producerIndex_CompareAndSwap_pIndex_pIndex_1"]),
  ("MPSC_pushSlowPath_c3", ["m_producerLimit_CompareAndSwap_producerLimit_cIndex_bufferCapacity"]),
  ("MPSC_pushSlowPath_x0", ["bufferCapacity", "cIndex"]),
  ("MPSC_pushSlowPath_x1", ["pIndex"]),
  ("MPSC_pushSlowPath_a0", ["m_consumerIndex_Load"]),
  ("MPSC_pushSlowPath_a1", ["m_getCurrentBufferCapacity_mask"]),
  ("MPSC_pushSlowPath_a2", []),
  ("MPSC_pushSlowPath_a3", []),
  ("MPSC_pushSlowPath_a4", []),
  ("MPSC_pushSlowPath_a5", []),
  ("MPSC_pushSlowPath_r0", ["result"]),
  ("MPSC_TryPop_c1", ["index", "m_producerIndex_Load"]),
  ("MPSC_TryPop_x0", ["index"]),
  ("MPSC_TryPop_a1", ["m_consumerIndex_Load"]),
  ("MPSC_TryPop_a2", ["m_consumerMask_Load"]),
  ("MPSC_TryPop_a3", ["index", "mask"]),
  ("MPSC_Size_c0", ["m__nil"]),
  ("MPSC_Size_c1", ["after", "before"]),
  ("MPSC_Size_a0", ["m_consumerIndex_Load"]),
  ("MPSC_Size_a1", ["after"]),
  ("MPSC_Size_a2", ["m_producerIndex_Load"]),
  ("MPSC_Size_a3", ["m_consumerIndex_Load"]),
  ("MPSC_Size_r0", []),
  ("MPSC_Size_r1", ["after", "currentProducerIndex"]),
  ("MPSC_IsEmpty_r0", ["m_consumerIndex_Load", "m_producerIndex_Load"]),
  ("MPSC_getNextBuffer_c0", ["nextBuffer__nil"]),
  ("MPSC_getNextBuffer_a0", ["mask"]),
  ("MPSC_newBufferTryPush_x0", ["index"]),
  ("MPSC_newBufferTryPush_a0", ["m_newBufferAndOffset_b_index"]),
  ("MPSC_newBufferAndOffset_a0", ["len_b_data"]),
  ("MPSC_newBufferAndOffset_r0", ["index", "mask"]),
  ("MPSC_resize_c0", ["availableInQueue"]),
  ("MPSC_resize_x0", ["availableInQueue", "newMask", "pIndex"]),
  ("MPSC_resize_x1", ["pIndex"]),
  ("MPSC_resize_a0", ["m_getNextBufferSize_oldBuffer"]),
  ("MPSC_resize_a2", ["newBufferLength"]),
  ("MPSC_resize_a3", ["oldMask", "pIndex"]),
  ("MPSC_resize_a4", ["newMask", "pIndex"]),
  ("MPSC_resize_a5", ["m_consumerIndex_Load"]),
  ("MPSC_resize_a6", ["m_availableInQueue_pIndex_cIndex"]),
  ("nextArrayOffset_x0", ["mask"]),
  ("nextArrayOffset_r0", ["mask"]),
  ("modifiedCalcElementOffset_r0", ["index", "mask"])] := by rfl

theorem shape_pin : Gen.MpscSites.shape = [("newBuffer", [0, 0, 0, 1, 0, 0, 0]),
  ("NewMPSC", [3, 0, 6, 1, 0, 2, 0]),
  ("MPSC_getNextBufferSize", [1, 0, 3, 1, 0, 0, 0]),
  ("MPSC_getCurrentBufferCapacity", [1, 0, 0, 2, 0, 0, 0]),
  ("MPSC_availableInQueue", [0, 0, 0, 1, 0, 0, 0]),
  ("MPSC_capacity", [0, 0, 0, 1, 0, 0, 0]),
  ("MPSC_TryPush", [3, 0, 6, 3, 0, 1, 4]),
  ("MPSC_pushSlowPath", [4, 0, 6, 1, 0, 2, 0]),
  ("MPSC_TryPop", [4, 0, 8, 3, 0, 1, 0]),
  ("MPSC_Size", [2, 0, 4, 2, 0, 0, 0]),
  ("MPSC_IsEmpty", [0, 0, 0, 1, 0, 0, 0]),
  ("MPSC_getNextBuffer", [1, 0, 2, 1, 0, 0, 0]),
  ("MPSC_newBufferTryPush", [1, 0, 2, 1, 0, 1, 0]),
  ("MPSC_newBufferAndOffset", [0, 0, 1, 1, 0, 0, 0]),
  ("MPSC_resize", [1, 0, 7, 0, 0, 2, 0]),
  ("nextArrayOffset", [0, 0, 0, 1, 0, 1, 0]),
  ("modifiedCalcElementOffset", [0, 0, 0, 1, 0, 0, 0])] := by rfl

end OtterVerif.Pin.MpscSites
