/-
  Pin.CacheMaint — HAND-OWNED (bootstrapped once by tools/mkpins.py, then reviewed): what every pure computation that
  the translator extracts into Gen.CacheMaint is expected to mean.  Re-checked against the regenerated Gen.CacheMaint on every
  run; a pin that no longer proves names the Go expression whose meaning changed.
-/
import OtterVerif.Gen.CacheMaint

namespace OtterVerif.Pin.CacheMaint
open OtterVerif OtterVerif.Gen.CacheMaint

/-- `rfl` when the regenerated term is the recorded one; otherwise try to see through a harmless rewrite
    (operand order of commutative operators) -/
local macro "pin_tac" d:ident : tactic =>
  `(tactic| first
    | rfl
    | (simp only [$d:ident]; ac_rfl)
    | (simp [$d:ident, BitVec.add_comm, BitVec.and_comm, BitVec.or_comm, BitVec.xor_comm, BitVec.mul_comm, Bool.and_comm, Bool.or_comm]))

theorem init_a0_pin (xruntime_Parallelism : BitVec 32) :
    Gen.CacheMaint.init_a0 xruntime_Parallelism = xruntime_Parallelism := by pin_tac Gen.CacheMaint.init_a0

theorem init_a1_pin (parallelism : BitVec 32) :
    Gen.CacheMaint.init_a1 parallelism = (BitVec.setWidth 64 (OtterVerif.Gen.Xmath.RoundUpPowerOf2 parallelism)) := by pin_tac Gen.CacheMaint.init_a1

theorem init_a2_pin (roundedParallelism : BitVec 64) :
    Gen.CacheMaint.init_a2 roundedParallelism = (BitVec.setWidth 32 ((128#64) * roundedParallelism)) := by pin_tac Gen.CacheMaint.init_a2

theorem init_a3_pin (roundedParallelism : BitVec 64) :
    Gen.CacheMaint.init_a3 roundedParallelism = ((4#64) * roundedParallelism) := by pin_tac Gen.CacheMaint.init_a3

theorem cache_afterRead_c0_pin (recordHit : Bool) :
    Gen.CacheMaint.cache_afterRead_c0 recordHit = recordHit := by pin_tac Gen.CacheMaint.cache_afterRead_c0

theorem cache_afterRead_c1_pin (calcExpiresAt : Bool) :
    Gen.CacheMaint.cache_afterRead_c1 calcExpiresAt = calcExpiresAt := by pin_tac Gen.CacheMaint.cache_afterRead_c1

theorem cache_afterRead_c2_pin (c_shouldDrainBuffers_delayable : Bool) :
    Gen.CacheMaint.cache_afterRead_c2 c_shouldDrainBuffers_delayable = c_shouldDrainBuffers_delayable := by pin_tac Gen.CacheMaint.cache_afterRead_c2

theorem cache_afterRead_a0_pin (c_readBuffer_Add_got : BitVec 8) (c_skipReadBuffer : Bool) :
    Gen.CacheMaint.cache_afterRead_a0 c_readBuffer_Add_got c_skipReadBuffer = (c_skipReadBuffer || (c_readBuffer_Add_got != (1#8))) := by pin_tac Gen.CacheMaint.cache_afterRead_a0

theorem cache_shouldDrainBuffers_s0_pin (drainStatus : BitVec 32) :
    Gen.CacheMaint.cache_shouldDrainBuffers_s0 drainStatus = (drainStatus == (0#32)) := by pin_tac Gen.CacheMaint.cache_shouldDrainBuffers_s0

theorem cache_shouldDrainBuffers_s1_pin (drainStatus : BitVec 32) :
    Gen.CacheMaint.cache_shouldDrainBuffers_s1 drainStatus = (drainStatus == (1#32)) := by pin_tac Gen.CacheMaint.cache_shouldDrainBuffers_s1

theorem cache_shouldDrainBuffers_s2_pin (drainStatus : BitVec 32) :
    Gen.CacheMaint.cache_shouldDrainBuffers_s2 drainStatus = (drainStatus == (2#32)) := by pin_tac Gen.CacheMaint.cache_shouldDrainBuffers_s2

theorem cache_shouldDrainBuffers_s3_pin (drainStatus : BitVec 32) :
    Gen.CacheMaint.cache_shouldDrainBuffers_s3 drainStatus = (drainStatus == (3#32)) := by pin_tac Gen.CacheMaint.cache_shouldDrainBuffers_s3

theorem cache_shouldDrainBuffers_a0_pin (c_drainStatus_Load : BitVec 32) :
    Gen.CacheMaint.cache_shouldDrainBuffers_a0 c_drainStatus_Load = c_drainStatus_Load := by pin_tac Gen.CacheMaint.cache_shouldDrainBuffers_a0

theorem cache_shouldDrainBuffers_r0_pin (delayable : Bool) :
    Gen.CacheMaint.cache_shouldDrainBuffers_r0 delayable = (!delayable) := by pin_tac Gen.CacheMaint.cache_shouldDrainBuffers_r0

theorem cache_shouldDrainBuffers_r1_pin :
    Gen.CacheMaint.cache_shouldDrainBuffers_r1  = true := by pin_tac Gen.CacheMaint.cache_shouldDrainBuffers_r1

theorem cache_shouldDrainBuffers_r2_pin :
    Gen.CacheMaint.cache_shouldDrainBuffers_r2  = false := by pin_tac Gen.CacheMaint.cache_shouldDrainBuffers_r2

theorem cache_skipReadBuffer_r0_pin (c_evictionPolicy_sketch_isNotInitialized : Bool) (c_withEviction : Bool) (c_withExpiration : Bool) (c_withMaintenance : Bool) :
    Gen.CacheMaint.cache_skipReadBuffer_r0 c_evictionPolicy_sketch_isNotInitialized c_withEviction c_withExpiration c_withMaintenance = ((!c_withMaintenance) || (((!c_withExpiration) && c_withEviction) && c_evictionPolicy_sketch_isNotInitialized)) := by pin_tac Gen.CacheMaint.cache_skipReadBuffer_r0

theorem cache_afterWriteTask_c0_pin (i : BitVec 64) :
    Gen.CacheMaint.cache_afterWriteTask_c0 i = (BitVec.slt i (100#64)) := by pin_tac Gen.CacheMaint.cache_afterWriteTask_c0

theorem cache_afterWriteTask_c1_pin (c_writeBuffer_TryPush_t : Bool) :
    Gen.CacheMaint.cache_afterWriteTask_c1 c_writeBuffer_TryPush_t = c_writeBuffer_TryPush_t := by pin_tac Gen.CacheMaint.cache_afterWriteTask_c1

theorem cache_afterWriteTask_a0_pin :
    Gen.CacheMaint.cache_afterWriteTask_a0  = (0#64) := by pin_tac Gen.CacheMaint.cache_afterWriteTask_a0

theorem cache_afterWriteTask_u0_pin (i : BitVec 64) :
    Gen.CacheMaint.cache_afterWriteTask_u0 i = (i + (1#64)) := by pin_tac Gen.CacheMaint.cache_afterWriteTask_u0

theorem cache_scheduleAfterWrite_c0_pin (c_drainStatus_CompareAndSwap_processingToIdle_processingToRequired : Bool) :
    Gen.CacheMaint.cache_scheduleAfterWrite_c0 c_drainStatus_CompareAndSwap_processingToIdle_processingToRequired = c_drainStatus_CompareAndSwap_processingToIdle_processingToRequired := by pin_tac Gen.CacheMaint.cache_scheduleAfterWrite_c0

theorem cache_scheduleAfterWrite_s0_pin (drainStatus : BitVec 32) :
    Gen.CacheMaint.cache_scheduleAfterWrite_s0 drainStatus = (drainStatus == (0#32)) := by pin_tac Gen.CacheMaint.cache_scheduleAfterWrite_s0

theorem cache_scheduleAfterWrite_s1_pin (drainStatus : BitVec 32) :
    Gen.CacheMaint.cache_scheduleAfterWrite_s1 drainStatus = (drainStatus == (1#32)) := by pin_tac Gen.CacheMaint.cache_scheduleAfterWrite_s1

theorem cache_scheduleAfterWrite_s2_pin (drainStatus : BitVec 32) :
    Gen.CacheMaint.cache_scheduleAfterWrite_s2 drainStatus = (drainStatus == (2#32)) := by pin_tac Gen.CacheMaint.cache_scheduleAfterWrite_s2

theorem cache_scheduleAfterWrite_s3_pin (drainStatus : BitVec 32) :
    Gen.CacheMaint.cache_scheduleAfterWrite_s3 drainStatus = (drainStatus == (3#32)) := by pin_tac Gen.CacheMaint.cache_scheduleAfterWrite_s3

theorem cache_scheduleAfterWrite_a0_pin (c_drainStatus_Load : BitVec 32) :
    Gen.CacheMaint.cache_scheduleAfterWrite_a0 c_drainStatus_Load = c_drainStatus_Load := by pin_tac Gen.CacheMaint.cache_scheduleAfterWrite_a0

theorem cache_scheduleDrainBuffers_c0_pin (c_drainStatus_Load : BitVec 32) :
    Gen.CacheMaint.cache_scheduleDrainBuffers_c0 c_drainStatus_Load = (BitVec.ule (2#32) c_drainStatus_Load) := by pin_tac Gen.CacheMaint.cache_scheduleDrainBuffers_c0

theorem cache_scheduleDrainBuffers_c1_pin (c_evictionMutex_TryLock : Bool) :
    Gen.CacheMaint.cache_scheduleDrainBuffers_c1 c_evictionMutex_TryLock = c_evictionMutex_TryLock := by pin_tac Gen.CacheMaint.cache_scheduleDrainBuffers_c1

theorem cache_scheduleDrainBuffers_c2_pin (drainStatus : BitVec 32) :
    Gen.CacheMaint.cache_scheduleDrainBuffers_c2 drainStatus = (BitVec.ule (2#32) drainStatus) := by pin_tac Gen.CacheMaint.cache_scheduleDrainBuffers_c2

theorem cache_scheduleDrainBuffers_c3_pin (token_CompareAndSwap_0_1 : Bool) :
    Gen.CacheMaint.cache_scheduleDrainBuffers_c3 token_CompareAndSwap_0_1 = token_CompareAndSwap_0_1 := by pin_tac Gen.CacheMaint.cache_scheduleDrainBuffers_c3

theorem cache_scheduleDrainBuffers_a0_pin (c_drainStatus_Load : BitVec 32) :
    Gen.CacheMaint.cache_scheduleDrainBuffers_a0 c_drainStatus_Load = c_drainStatus_Load := by pin_tac Gen.CacheMaint.cache_scheduleDrainBuffers_a0

theorem cache_drainBuffers_c0_pin (c_evictionMutex_TryLock : Bool) :
    Gen.CacheMaint.cache_drainBuffers_c0 c_evictionMutex_TryLock = c_evictionMutex_TryLock := by pin_tac Gen.CacheMaint.cache_drainBuffers_c0

theorem cache_drainBuffers_c1_pin (token_CompareAndSwap_0_1 : Bool) :
    Gen.CacheMaint.cache_drainBuffers_c1 token_CompareAndSwap_0_1 = token_CompareAndSwap_0_1 := by pin_tac Gen.CacheMaint.cache_drainBuffers_c1

theorem cache_rescheduleCleanUpIfIncomplete_c0_pin (c_drainStatus_Load : BitVec 32) :
    Gen.CacheMaint.cache_rescheduleCleanUpIfIncomplete_c0 c_drainStatus_Load = (c_drainStatus_Load != (1#32)) := by pin_tac Gen.CacheMaint.cache_rescheduleCleanUpIfIncomplete_c0

theorem cache_rescheduleCleanUpIfIncomplete_c1_pin (c_hasDefaultExecutor : Bool) :
    Gen.CacheMaint.cache_rescheduleCleanUpIfIncomplete_c1 c_hasDefaultExecutor = c_hasDefaultExecutor := by pin_tac Gen.CacheMaint.cache_rescheduleCleanUpIfIncomplete_c1

theorem cache_maintenance_c0_pin (c_drainStatus_CompareAndSwap_processingToIdle_idle : Bool) (c_drainStatus_Load : BitVec 32) :
    Gen.CacheMaint.cache_maintenance_c0 c_drainStatus_CompareAndSwap_processingToIdle_idle c_drainStatus_Load = ((c_drainStatus_Load != (2#32)) || (!c_drainStatus_CompareAndSwap_processingToIdle_idle)) := by pin_tac Gen.CacheMaint.cache_maintenance_c0

theorem cache_drainReadBuffer_c0_pin (c_skipReadBuffer : Bool) :
    Gen.CacheMaint.cache_drainReadBuffer_c0 c_skipReadBuffer = c_skipReadBuffer := by pin_tac Gen.CacheMaint.cache_drainReadBuffer_c0

theorem cache_drainWriteBuffer_c0_pin (c_withMaintenance : Bool) :
    Gen.CacheMaint.cache_drainWriteBuffer_c0 c_withMaintenance = (!c_withMaintenance) := by pin_tac Gen.CacheMaint.cache_drainWriteBuffer_c0

theorem cache_drainWriteBuffer_c1_pin (i : BitVec 32) (maxWriteBufferSize : BitVec 32) :
    Gen.CacheMaint.cache_drainWriteBuffer_c1 i maxWriteBufferSize = (BitVec.ule i maxWriteBufferSize) := by pin_tac Gen.CacheMaint.cache_drainWriteBuffer_c1

theorem cache_drainWriteBuffer_c2_pin (t__nil : Bool) :
    Gen.CacheMaint.cache_drainWriteBuffer_c2 t__nil = t__nil := by pin_tac Gen.CacheMaint.cache_drainWriteBuffer_c2

theorem cache_drainWriteBuffer_a0_pin :
    Gen.CacheMaint.cache_drainWriteBuffer_a0  = (0#32) := by pin_tac Gen.CacheMaint.cache_drainWriteBuffer_a0

theorem cache_drainWriteBuffer_u0_pin (i : BitVec 32) :
    Gen.CacheMaint.cache_drainWriteBuffer_u0 i = (i + (1#32)) := by pin_tac Gen.CacheMaint.cache_drainWriteBuffer_u0

theorem cache_SetMaximum_c0_pin (c_withEviction : Bool) :
    Gen.CacheMaint.cache_SetMaximum_c0 c_withEviction = (!c_withEviction) := by pin_tac Gen.CacheMaint.cache_SetMaximum_c0

theorem cache_GetMaximum_c0_pin (c_withEviction : Bool) :
    Gen.CacheMaint.cache_GetMaximum_c0 c_withEviction = (!c_withEviction) := by pin_tac Gen.CacheMaint.cache_GetMaximum_c0

theorem cache_GetMaximum_c1_pin (c_drainStatus_Load : BitVec 32) :
    Gen.CacheMaint.cache_GetMaximum_c1 c_drainStatus_Load = (c_drainStatus_Load == (1#32)) := by pin_tac Gen.CacheMaint.cache_GetMaximum_c1

theorem cache_GetMaximum_a0_pin (c_evictionPolicy_maximum : BitVec 64) :
    Gen.CacheMaint.cache_GetMaximum_a0 c_evictionPolicy_maximum = c_evictionPolicy_maximum := by pin_tac Gen.CacheMaint.cache_GetMaximum_a0

theorem cache_GetMaximum_r0_pin :
    Gen.CacheMaint.cache_GetMaximum_r0  = (18446744073709551615#64) := by pin_tac Gen.CacheMaint.cache_GetMaximum_r0

theorem cache_GetMaximum_r1_pin (result : BitVec 64) :
    Gen.CacheMaint.cache_GetMaximum_r1 result = result := by pin_tac Gen.CacheMaint.cache_GetMaximum_r1

theorem cache_WeightedSize_c0_pin (c_isWeighted : Bool) :
    Gen.CacheMaint.cache_WeightedSize_c0 c_isWeighted = (!c_isWeighted) := by pin_tac Gen.CacheMaint.cache_WeightedSize_c0

theorem cache_WeightedSize_c1_pin (c_drainStatus_Load : BitVec 32) :
    Gen.CacheMaint.cache_WeightedSize_c1 c_drainStatus_Load = (c_drainStatus_Load == (1#32)) := by pin_tac Gen.CacheMaint.cache_WeightedSize_c1

theorem cache_WeightedSize_a0_pin (c_evictionPolicy_weightedSize : BitVec 64) :
    Gen.CacheMaint.cache_WeightedSize_a0 c_evictionPolicy_weightedSize = c_evictionPolicy_weightedSize := by pin_tac Gen.CacheMaint.cache_WeightedSize_a0

theorem cache_WeightedSize_r0_pin :
    Gen.CacheMaint.cache_WeightedSize_r0  = (0#64) := by pin_tac Gen.CacheMaint.cache_WeightedSize_r0

theorem cache_WeightedSize_r1_pin (result : BitVec 64) :
    Gen.CacheMaint.cache_WeightedSize_r1 result = result := by pin_tac Gen.CacheMaint.cache_WeightedSize_r1

theorem cache_StopAllGoroutines_c0_pin (c_withExpiration : Bool) :
    Gen.CacheMaint.cache_StopAllGoroutines_c0 c_withExpiration = c_withExpiration := by pin_tac Gen.CacheMaint.cache_StopAllGoroutines_c0

theorem cache_StopAllGoroutines_a0_pin :
    Gen.CacheMaint.cache_StopAllGoroutines_a0  = true := by pin_tac Gen.CacheMaint.cache_StopAllGoroutines_a0

theorem cache_StopAllGoroutines_r0_pin (stopped : Bool) :
    Gen.CacheMaint.cache_StopAllGoroutines_r0 stopped = stopped := by pin_tac Gen.CacheMaint.cache_StopAllGoroutines_r0

theorem siteParams_pin : Gen.CacheMaint.siteParams = [("init_a0", ["xruntime_Parallelism"]),
  ("init_a1", ["parallelism"]),
  ("init_a2", ["roundedParallelism"]),
  ("init_a3", ["roundedParallelism"]),
  ("cache_afterRead_c0", ["recordHit"]),
  ("cache_afterRead_c1", ["calcExpiresAt"]),
  ("cache_afterRead_c2", ["c_shouldDrainBuffers_delayable"]),
  ("cache_afterRead_a0", ["c_readBuffer_Add_got", "c_skipReadBuffer"]),
  ("cache_shouldDrainBuffers_s0", ["drainStatus"]),
  ("cache_shouldDrainBuffers_s1", ["drainStatus"]),
  ("cache_shouldDrainBuffers_s2", ["drainStatus"]),
  ("cache_shouldDrainBuffers_s3", ["drainStatus"]),
  ("cache_shouldDrainBuffers_a0", ["c_drainStatus_Load"]),
  ("cache_shouldDrainBuffers_r0", ["delayable"]),
  ("cache_shouldDrainBuffers_r1", []),
  ("cache_shouldDrainBuffers_r2", []),
  ("cache_skipReadBuffer_r0", ["c_evictionPolicy_sketch_isNotInitialized", "c_withEviction", "c_withExpiration", "c_withMaintenance"]),
  ("cache_afterWriteTask_c0", ["i"]),
  ("cache_afterWriteTask_c1", ["c_writeBuffer_TryPush_t"]),
  ("cache_afterWriteTask_a0", []),
  ("cache_afterWriteTask_u0", ["i"]),
  ("cache_scheduleAfterWrite_c0", ["c_drainStatus_CompareAndSwap_processingToIdle_processingToRequired"]),
  ("cache_scheduleAfterWrite_s0", ["drainStatus"]),
  ("cache_scheduleAfterWrite_s1", ["drainStatus"]),
  ("cache_scheduleAfterWrite_s2", ["drainStatus"]),
  ("cache_scheduleAfterWrite_s3", ["drainStatus"]),
  ("cache_scheduleAfterWrite_a0", ["c_drainStatus_Load"]),
  ("cache_scheduleDrainBuffers_c0", ["c_drainStatus_Load"]),
  ("cache_scheduleDrainBuffers_c1", ["c_evictionMutex_TryLock"]),
  ("cache_scheduleDrainBuffers_c2", ["drainStatus"]),
  ("cache_scheduleDrainBuffers_c3", ["token_CompareAndSwap_0_1"]),
  ("cache_scheduleDrainBuffers_a0", ["c_drainStatus_Load"]),
  ("cache_drainBuffers_c0", ["c_evictionMutex_TryLock"]),
  ("cache_drainBuffers_c1", ["token_CompareAndSwap_0_1"]),
  ("cache_rescheduleCleanUpIfIncomplete_c0", ["c_drainStatus_Load"]),
  ("cache_rescheduleCleanUpIfIncomplete_c1", ["c_hasDefaultExecutor"]),
  ("cache_maintenance_c0", ["c_drainStatus_CompareAndSwap_processingToIdle_idle", "c_drainStatus_Load"]),
  ("cache_drainReadBuffer_c0", ["c_skipReadBuffer"]),
  ("cache_drainWriteBuffer_c0", ["c_withMaintenance"]),
  ("cache_drainWriteBuffer_c1", ["i", "maxWriteBufferSize"]),
  ("cache_drainWriteBuffer_c2", ["t__nil"]),
  ("cache_drainWriteBuffer_a0", []),
  ("cache_drainWriteBuffer_u0", ["i"]),
  ("cache_SetMaximum_c0", ["c_withEviction"]),
  ("cache_GetMaximum_c0", ["c_withEviction"]),
  ("cache_GetMaximum_c1", ["c_drainStatus_Load"]),
  ("cache_GetMaximum_a0", ["c_evictionPolicy_maximum"]),
  ("cache_GetMaximum_r0", []),
  ("cache_GetMaximum_r1", ["result"]),
  ("cache_WeightedSize_c0", ["c_isWeighted"]),
  ("cache_WeightedSize_c1", ["c_drainStatus_Load"]),
  ("cache_WeightedSize_a0", ["c_evictionPolicy_weightedSize"]),
  ("cache_WeightedSize_r0", []),
  ("cache_WeightedSize_r1", ["result"]),
  ("cache_StopAllGoroutines_c0", ["c_withExpiration"]),
  ("cache_StopAllGoroutines_a0", []),
  ("cache_StopAllGoroutines_r0", ["stopped"])] := by rfl

theorem shape_pin : Gen.CacheMaint.shape = [("init", [0, 0, 4, 0, 0, 0, 0]),
  ("cache_afterRead", [3, 0, 1, 0, 0, 0, 0]),
  ("cache_CleanUp", [0, 0, 0, 0, 0, 0, 0]),
  ("cache_shouldDrainBuffers", [0, 0, 1, 3, 0, 0, 4]),
  ("cache_skipReadBuffer", [0, 0, 0, 1, 0, 0, 0]),
  ("cache_afterWriteTask", [2, 1, 1, 0, 0, 0, 0]),
  ("cache_scheduleAfterWrite", [1, 0, 1, 0, 0, 0, 4]),
  ("cache_scheduleDrainBuffers", [4, 0, 1, 0, 0, 0, 0]),
  ("cache_drainBuffers", [2, 0, 0, 0, 0, 0, 0]),
  ("cache_performCleanUp", [0, 0, 0, 0, 0, 0, 0]),
  ("cache_rescheduleCleanUpIfIncomplete", [2, 0, 0, 0, 0, 0, 0]),
  ("cache_maintenance", [1, 0, 0, 0, 0, 0, 0]),
  ("cache_drainReadBuffer", [1, 0, 0, 0, 0, 0, 0]),
  ("cache_drainWriteBuffer", [3, 1, 2, 0, 0, 0, 0]),
  ("cache_periodicCleanUp", [0, 0, 1, 0, 0, 0, 0]),
  ("cache_SetMaximum", [1, 0, 0, 0, 0, 0, 0]),
  ("cache_GetMaximum", [2, 0, 1, 2, 0, 0, 0]),
  ("cache_WeightedSize", [2, 0, 1, 2, 0, 0, 0]),
  ("cache_StopAllGoroutines", [1, 0, 1, 1, 0, 0, 0])] := by rfl

end OtterVerif.Pin.CacheMaint
