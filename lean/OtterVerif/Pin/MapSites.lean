/-
  Pin.MapSites — HAND-OWNED (bootstrapped once by tools/mkpins.py, then reviewed): what every pure computation that
  the translator extracts into Gen.MapSites is expected to mean.  Re-checked against the regenerated Gen.MapSites on every
  run; a pin that no longer proves names the Go expression whose meaning changed.
-/
import OtterVerif.Gen.MapSites

namespace OtterVerif.Pin.MapSites
open OtterVerif OtterVerif.Gen.MapSites

/-- `rfl` when the regenerated term is the recorded one; otherwise try to see through a harmless rewrite
    (operand order of commutative operators) -/
local macro "pin_tac" d:ident : tactic =>
  `(tactic| first
    | rfl
    | (simp only [$d:ident]; ac_rfl)
    | (simp [$d:ident, BitVec.add_comm, BitVec.and_comm, BitVec.or_comm, BitVec.xor_comm, BitVec.mul_comm, Bool.and_comm, Bool.or_comm]))

theorem h_h1_pin (h : BitVec 64) :
    Gen.MapSites.h_h1 h = (h >>> 7) := by pin_tac Gen.MapSites.h_h1

theorem h_broadcast_pin (b : BitVec 8) :
    Gen.MapSites.h_broadcast b = ((72340172838076673#64) * (BitVec.setWidth 64 b)) := by pin_tac Gen.MapSites.h_broadcast

theorem h_h2_pin (h : BitVec 64) :
    Gen.MapSites.h_h2 h = (BitVec.setWidth 8 (h &&& (127#64))) := by pin_tac Gen.MapSites.h_h2

theorem h_markZeroBytes_pin (w : BitVec 64) :
    Gen.MapSites.h_markZeroBytes w = (((w - (72340172838076673#64)) &&& (~~~w)) &&& (9259542123273814144#64)) := by pin_tac Gen.MapSites.h_markZeroBytes

theorem h_firstMarkedByteIndex_pin (w : BitVec 64) :
    Gen.MapSites.h_firstMarkedByteIndex w = (BitVec.sshiftRight (OtterVerif.Bv.trailingZeros64 w) (3)) := by pin_tac Gen.MapSites.h_firstMarkedByteIndex

theorem h_setByte_pin (w : BitVec 64) (b : BitVec 8) (idx : BitVec 64) :
    Gen.MapSites.h_setByte w b idx = (
      let shift : BitVec 64 := (idx <<< 3)
      ((w &&& ~~~((255#64) <<< shift.toNat)) ||| ((BitVec.setWidth 64 b) <<< shift.toNat))) := by pin_tac Gen.MapSites.h_setByte

theorem newMap_c0_pin (sizeHint : BitVec 64) :
    Gen.MapSites.newMap_c0 sizeHint = (BitVec.sle sizeHint (160#64)) := by pin_tac Gen.MapSites.newMap_c0

theorem newMap_a5_pin (len_table_buckets : BitVec 64) :
    Gen.MapSites.newMap_a5 len_table_buckets = len_table_buckets := by pin_tac Gen.MapSites.newMap_a5

theorem newMapTable_c0_pin (counterLen : BitVec 64) :
    Gen.MapSites.newMapTable_c0 counterLen = (BitVec.slt counterLen (8#64)) := by pin_tac Gen.MapSites.newMapTable_c0

theorem newMapTable_c1_pin (counterLen : BitVec 64) :
    Gen.MapSites.newMapTable_c1 counterLen = (BitVec.slt (32#64) counterLen) := by pin_tac Gen.MapSites.newMapTable_c1

theorem newMapTable_a1_pin (minTableLen : BitVec 64) :
    Gen.MapSites.newMapTable_a1 minTableLen = (BitVec.sshiftRight minTableLen (10)) := by pin_tac Gen.MapSites.newMapTable_a1

theorem newMapTable_a2_pin :
    Gen.MapSites.newMapTable_a2  = (8#64) := by pin_tac Gen.MapSites.newMapTable_a2

theorem newMapTable_a3_pin :
    Gen.MapSites.newMapTable_a3  = (32#64) := by pin_tac Gen.MapSites.newMapTable_a3

theorem Map_Get_c0_pin (markedw : BitVec 64) :
    Gen.MapSites.Map_Get_c0 markedw = (markedw != (0#64)) := by pin_tac Gen.MapSites.Map_Get_c0

theorem Map_Get_c2_pin (n_Key____key : Bool) :
    Gen.MapSites.Map_Get_c2 n_Key____key = n_Key____key := by pin_tac Gen.MapSites.Map_Get_c2

theorem Map_Get_c3_pin (b__nil : Bool) :
    Gen.MapSites.Map_Get_c3 b__nil = b__nil := by pin_tac Gen.MapSites.Map_Get_c3

theorem Map_Get_x0_pin (h2w : BitVec 64) (metaw : BitVec 64) :
    Gen.MapSites.Map_Get_x0 h2w metaw = (metaw ^^^ h2w) := by pin_tac Gen.MapSites.Map_Get_x0

theorem Map_Get_a1_pin (table_hasher_Hash_key : BitVec 64) :
    Gen.MapSites.Map_Get_a1 table_hasher_Hash_key = table_hasher_Hash_key := by pin_tac Gen.MapSites.Map_Get_a1

theorem Map_Get_a2_pin (hash : BitVec 64) :
    Gen.MapSites.Map_Get_a2 hash = (h_h1 hash) := by pin_tac Gen.MapSites.Map_Get_a2

theorem Map_Get_a3_pin (hash : BitVec 64) :
    Gen.MapSites.Map_Get_a3 hash = (h_broadcast (h_h2 hash)) := by pin_tac Gen.MapSites.Map_Get_a3

theorem Map_Get_a4_pin (h1 : BitVec 64) (len_table_buckets : BitVec 64) :
    Gen.MapSites.Map_Get_a4 h1 len_table_buckets = ((len_table_buckets - (1#64)) &&& h1) := by pin_tac Gen.MapSites.Map_Get_a4

theorem Map_Get_a6_pin (b_meta_Load : BitVec 64) :
    Gen.MapSites.Map_Get_a6 b_meta_Load = b_meta_Load := by pin_tac Gen.MapSites.Map_Get_a6

theorem Map_Get_a7_pin (h2w : BitVec 64) (metaw : BitVec 64) :
    Gen.MapSites.Map_Get_a7 h2w metaw = ((h_markZeroBytes (metaw ^^^ h2w)) &&& (1099511627775#64)) := by pin_tac Gen.MapSites.Map_Get_a7

theorem Map_Get_a8_pin (markedw : BitVec 64) :
    Gen.MapSites.Map_Get_a8 markedw = (h_firstMarkedByteIndex markedw) := by pin_tac Gen.MapSites.Map_Get_a8

theorem Map_Get_u0_pin (markedw : BitVec 64) :
    Gen.MapSites.Map_Get_u0 markedw = (markedw &&& (markedw - (1#64))) := by pin_tac Gen.MapSites.Map_Get_u0

theorem Map_Compute_c0_pin (m_resizeInProgress : Bool) :
    Gen.MapSites.Map_Compute_c0 m_resizeInProgress = m_resizeInProgress := by pin_tac Gen.MapSites.Map_Compute_c0

theorem Map_Compute_c1_pin (m_newerTableExists_table : Bool) :
    Gen.MapSites.Map_Compute_c1 m_newerTableExists_table = m_newerTableExists_table := by pin_tac Gen.MapSites.Map_Compute_c1

theorem Map_Compute_c2_pin (markedw : BitVec 64) :
    Gen.MapSites.Map_Compute_c2 markedw = (markedw != (0#64)) := by pin_tac Gen.MapSites.Map_Compute_c2

theorem Map_Compute_c4_pin (oldNode_Key____key : Bool) :
    Gen.MapSites.Map_Compute_c4 oldNode_Key____key = oldNode_Key____key := by pin_tac Gen.MapSites.Map_Compute_c4

theorem Map_Compute_c5_pin (m_nodeManager_IsNil_newNode : Bool) :
    Gen.MapSites.Map_Compute_c5 m_nodeManager_IsNil_newNode = m_nodeManager_IsNil_newNode := by pin_tac Gen.MapSites.Map_Compute_c5

theorem Map_Compute_c6_pin (newmetaw : BitVec 64) :
    Gen.MapSites.Map_Compute_c6 newmetaw = (newmetaw == (9259542123273814144#64)) := by pin_tac Gen.MapSites.Map_Compute_c6

theorem Map_Compute_c8_pin (emptyb__nil : Bool) :
    Gen.MapSites.Map_Compute_c8 emptyb__nil = emptyb__nil := by pin_tac Gen.MapSites.Map_Compute_c8

theorem Map_Compute_c9_pin (emptyw : BitVec 64) :
    Gen.MapSites.Map_Compute_c9 emptyw = (emptyw != (0#64)) := by pin_tac Gen.MapSites.Map_Compute_c9

theorem Map_Compute_c10_pin (b_next_Load____nil : Bool) :
    Gen.MapSites.Map_Compute_c10 b_next_Load____nil = b_next_Load____nil := by pin_tac Gen.MapSites.Map_Compute_c10

theorem Map_Compute_c11_pin (emptybnot_nil : Bool) :
    Gen.MapSites.Map_Compute_c11 emptybnot_nil = emptybnot_nil := by pin_tac Gen.MapSites.Map_Compute_c11

theorem Map_Compute_c12_pin (m_nodeManager_IsNil_newNode : Bool) :
    Gen.MapSites.Map_Compute_c12 m_nodeManager_IsNil_newNode = m_nodeManager_IsNil_newNode := by pin_tac Gen.MapSites.Map_Compute_c12

theorem Map_Compute_c14_pin (m_nodeManager_IsNil_newNode : Bool) :
    Gen.MapSites.Map_Compute_c14 m_nodeManager_IsNil_newNode = m_nodeManager_IsNil_newNode := by pin_tac Gen.MapSites.Map_Compute_c14

theorem Map_Compute_x0_pin (h2w : BitVec 64) (metaw : BitVec 64) :
    Gen.MapSites.Map_Compute_x0 h2w metaw = (metaw ^^^ h2w) := by pin_tac Gen.MapSites.Map_Compute_x0

theorem Map_Compute_a1_pin (len_table_buckets : BitVec 64) :
    Gen.MapSites.Map_Compute_a1 len_table_buckets = len_table_buckets := by pin_tac Gen.MapSites.Map_Compute_a1

theorem Map_Compute_a2_pin (table_hasher_Hash_key : BitVec 64) :
    Gen.MapSites.Map_Compute_a2 table_hasher_Hash_key = table_hasher_Hash_key := by pin_tac Gen.MapSites.Map_Compute_a2

theorem Map_Compute_a3_pin (hash : BitVec 64) :
    Gen.MapSites.Map_Compute_a3 hash = (h_h1 hash) := by pin_tac Gen.MapSites.Map_Compute_a3

theorem Map_Compute_a4_pin (hash : BitVec 64) :
    Gen.MapSites.Map_Compute_a4 hash = (h_h2 hash) := by pin_tac Gen.MapSites.Map_Compute_a4

theorem Map_Compute_a5_pin (h2 : BitVec 8) :
    Gen.MapSites.Map_Compute_a5 h2 = (h_broadcast h2) := by pin_tac Gen.MapSites.Map_Compute_a5

theorem Map_Compute_a6_pin (h1 : BitVec 64) (len_table_buckets : BitVec 64) :
    Gen.MapSites.Map_Compute_a6 h1 len_table_buckets = ((len_table_buckets - (1#64)) &&& h1) := by pin_tac Gen.MapSites.Map_Compute_a6

theorem Map_Compute_a9_pin (b_meta_Load : BitVec 64) :
    Gen.MapSites.Map_Compute_a9 b_meta_Load = b_meta_Load := by pin_tac Gen.MapSites.Map_Compute_a9

theorem Map_Compute_a10_pin (h2w : BitVec 64) (metaw : BitVec 64) :
    Gen.MapSites.Map_Compute_a10 h2w metaw = ((h_markZeroBytes (metaw ^^^ h2w)) &&& (1099511627775#64)) := by pin_tac Gen.MapSites.Map_Compute_a10

theorem Map_Compute_a11_pin (markedw : BitVec 64) :
    Gen.MapSites.Map_Compute_a11 markedw = (h_firstMarkedByteIndex markedw) := by pin_tac Gen.MapSites.Map_Compute_a11

theorem Map_Compute_a15_pin (idx : BitVec 64) (metaw : BitVec 64) :
    Gen.MapSites.Map_Compute_a15 idx metaw = (h_setByte metaw (128#8) idx) := by pin_tac Gen.MapSites.Map_Compute_a15

theorem Map_Compute_u0_pin (markedw : BitVec 64) :
    Gen.MapSites.Map_Compute_u0 markedw = (markedw &&& (markedw - (1#64))) := by pin_tac Gen.MapSites.Map_Compute_u0

theorem Map_Compute_a16_pin (metaw : BitVec 64) :
    Gen.MapSites.Map_Compute_a16 metaw = (metaw &&& (551911719040#64)) := by pin_tac Gen.MapSites.Map_Compute_a16

theorem Map_Compute_a17_pin (emptyw : BitVec 64) :
    Gen.MapSites.Map_Compute_a17 emptyw = (h_firstMarkedByteIndex emptyw) := by pin_tac Gen.MapSites.Map_Compute_a17

theorem Map_Compute_a19_pin (idx : BitVec 64) :
    Gen.MapSites.Map_Compute_a19 idx = idx := by pin_tac Gen.MapSites.Map_Compute_a19

theorem Map_newerTableExists_r0_pin (tablenot_m_table_Load : Bool) :
    Gen.MapSites.Map_newerTableExists_r0 tablenot_m_table_Load = tablenot_m_table_Load := by pin_tac Gen.MapSites.Map_newerTableExists_r0

theorem Map_resizeInProgress_r0_pin (m_resizing_Load : Bool) :
    Gen.MapSites.Map_resizeInProgress_r0 m_resizing_Load = m_resizing_Load := by pin_tac Gen.MapSites.Map_resizeInProgress_r0

theorem Map_waitForResize_c0_pin (m_resizeInProgress : Bool) :
    Gen.MapSites.Map_waitForResize_c0 m_resizeInProgress = m_resizeInProgress := by pin_tac Gen.MapSites.Map_waitForResize_c0

theorem Map_resize_c0_pin (hint : BitVec 64) :
    Gen.MapSites.Map_resize_c0 hint = (hint == (1#64)) := by pin_tac Gen.MapSites.Map_resize_c0

theorem Map_resize_c1_pin (knownTableLen : BitVec 64) (knownTable_sumSize : BitVec 64) (m_minTableLen : BitVec 64) :
    Gen.MapSites.Map_resize_c1 knownTableLen knownTable_sumSize m_minTableLen = ((m_minTableLen == knownTableLen) || (BitVec.slt (BitVec.sdiv (knownTableLen * (5#64)) (128#64)) knownTable_sumSize)) := by pin_tac Gen.MapSites.Map_resize_c1

theorem Map_resize_c2_pin (m_resizing_CompareAndSwap_false_true : Bool) :
    Gen.MapSites.Map_resize_c2 m_resizing_CompareAndSwap_false_true = (!m_resizing_CompareAndSwap_false_true) := by pin_tac Gen.MapSites.Map_resize_c2

theorem Map_resize_c3_pin (m_minTableLen : BitVec 64) (shrinkThreshold : BitVec 64) (tableLen : BitVec 64) (table_sumSize : BitVec 64) :
    Gen.MapSites.Map_resize_c3 m_minTableLen shrinkThreshold tableLen table_sumSize = ((BitVec.slt m_minTableLen tableLen) && (BitVec.sle table_sumSize shrinkThreshold)) := by pin_tac Gen.MapSites.Map_resize_c3

theorem Map_resize_c4_pin (hint : BitVec 64) :
    Gen.MapSites.Map_resize_c4 hint = (hint != (2#64)) := by pin_tac Gen.MapSites.Map_resize_c4

theorem Map_resize_c5_pin (tableLen : BitVec 64) :
    Gen.MapSites.Map_resize_c5 tableLen = (BitVec.sle (128#64) tableLen) := by pin_tac Gen.MapSites.Map_resize_c5

theorem Map_resize_c6_pin (chunks : BitVec 64) :
    Gen.MapSites.Map_resize_c6 chunks = (BitVec.slt (1#64) chunks) := by pin_tac Gen.MapSites.Map_resize_c6

theorem Map_resize_c7_pin (c : BitVec 64) (chunks : BitVec 64) :
    Gen.MapSites.Map_resize_c7 c chunks = (BitVec.slt c chunks) := by pin_tac Gen.MapSites.Map_resize_c7

theorem Map_resize_c8_pin (end_ : BitVec 64) (i : BitVec 64) :
    Gen.MapSites.Map_resize_c8 end_ i = (BitVec.slt i end_) := by pin_tac Gen.MapSites.Map_resize_c8

theorem Map_resize_c9_pin (copied : BitVec 64) :
    Gen.MapSites.Map_resize_c9 copied = (BitVec.slt (0#64) copied) := by pin_tac Gen.MapSites.Map_resize_c9

theorem Map_resize_c10_pin (i : BitVec 64) (tableLen : BitVec 64) :
    Gen.MapSites.Map_resize_c10 i tableLen = (BitVec.slt i tableLen) := by pin_tac Gen.MapSites.Map_resize_c10

theorem Map_resize_s0_pin (hint : BitVec 64) :
    Gen.MapSites.Map_resize_s0 hint = (hint == (0#64)) := by pin_tac Gen.MapSites.Map_resize_s0

theorem Map_resize_s1_pin (hint : BitVec 64) :
    Gen.MapSites.Map_resize_s1 hint = (hint == (1#64)) := by pin_tac Gen.MapSites.Map_resize_s1

theorem Map_resize_s2_pin (hint : BitVec 64) :
    Gen.MapSites.Map_resize_s2 hint = (hint == (2#64)) := by pin_tac Gen.MapSites.Map_resize_s2

theorem Map_resize_x0_pin (tableLen : BitVec 64) :
    Gen.MapSites.Map_resize_x0 tableLen = (tableLen <<< 1) := by pin_tac Gen.MapSites.Map_resize_x0

theorem Map_resize_x1_pin (tableLen : BitVec 64) :
    Gen.MapSites.Map_resize_x1 tableLen = (BitVec.sshiftRight tableLen (1)) := by pin_tac Gen.MapSites.Map_resize_x1

theorem Map_resize_x2_pin (tableLen : BitVec 64) :
    Gen.MapSites.Map_resize_x2 tableLen = (BitVec.sdiv tableLen (64#64)) := by pin_tac Gen.MapSites.Map_resize_x2

theorem Map_resize_x3_pin (c : BitVec 64) (chunkSize : BitVec 64) :
    Gen.MapSites.Map_resize_x3 c chunkSize = (c * chunkSize) := by pin_tac Gen.MapSites.Map_resize_x3

theorem Map_resize_x4_pin (c : BitVec 64) (chunkSize : BitVec 64) :
    Gen.MapSites.Map_resize_x4 c chunkSize = ((c + (1#64)) * chunkSize) := by pin_tac Gen.MapSites.Map_resize_x4

theorem Map_resize_a0_pin (len_knownTable_buckets : BitVec 64) :
    Gen.MapSites.Map_resize_a0 len_knownTable_buckets = len_knownTable_buckets := by pin_tac Gen.MapSites.Map_resize_a0

theorem Map_resize_a2_pin (len_table_buckets : BitVec 64) :
    Gen.MapSites.Map_resize_a2 len_table_buckets = len_table_buckets := by pin_tac Gen.MapSites.Map_resize_a2

theorem Map_resize_a4_pin (tableLen : BitVec 64) :
    Gen.MapSites.Map_resize_a4 tableLen = (BitVec.sdiv (tableLen * (5#64)) (128#64)) := by pin_tac Gen.MapSites.Map_resize_a4

theorem Map_resize_a7_pin :
    Gen.MapSites.Map_resize_a7  = (1#64) := by pin_tac Gen.MapSites.Map_resize_a7

theorem Map_resize_a8_pin (runtime_GOMAXPROCS_0 : BitVec 64) (tableLen : BitVec 64) :
    Gen.MapSites.Map_resize_a8 runtime_GOMAXPROCS_0 tableLen = (OtterVerif.Bv.smin (BitVec.sdiv tableLen (64#64)) runtime_GOMAXPROCS_0) := by pin_tac Gen.MapSites.Map_resize_a8

theorem Map_resize_a9_pin (chunks : BitVec 64) :
    Gen.MapSites.Map_resize_a9 chunks = (OtterVerif.Bv.smax chunks (1#64)) := by pin_tac Gen.MapSites.Map_resize_a9

theorem Map_resize_a10_pin (chunks : BitVec 64) (tableLen : BitVec 64) :
    Gen.MapSites.Map_resize_a10 chunks tableLen = (BitVec.sdiv ((tableLen + chunks) - (1#64)) chunks) := by pin_tac Gen.MapSites.Map_resize_a10

theorem Map_resize_a11_pin :
    Gen.MapSites.Map_resize_a11  = (0#64) := by pin_tac Gen.MapSites.Map_resize_a11

theorem Map_resize_u0_pin (c : BitVec 64) :
    Gen.MapSites.Map_resize_u0 c = (c + (1#64)) := by pin_tac Gen.MapSites.Map_resize_u0

theorem Map_resize_g0_0_pin (c : BitVec 64) (chunkSize : BitVec 64) :
    Gen.MapSites.Map_resize_g0_0 c chunkSize = (c * chunkSize) := by pin_tac Gen.MapSites.Map_resize_g0_0

theorem Map_resize_g0_1_pin (c : BitVec 64) (chunkSize : BitVec 64) (tableLen : BitVec 64) :
    Gen.MapSites.Map_resize_g0_1 c chunkSize tableLen = (OtterVerif.Bv.smin ((c + (1#64)) * chunkSize) tableLen) := by pin_tac Gen.MapSites.Map_resize_g0_1

theorem Map_resize_a12_pin (start : BitVec 64) :
    Gen.MapSites.Map_resize_a12 start = start := by pin_tac Gen.MapSites.Map_resize_a12

theorem Map_resize_u1_pin (i : BitVec 64) :
    Gen.MapSites.Map_resize_u1 i = (i + (1#64)) := by pin_tac Gen.MapSites.Map_resize_u1

theorem Map_resize_a13_pin (m_copyBucketWithDestLock__table_buckets_i__newTable : BitVec 64) :
    Gen.MapSites.Map_resize_a13 m_copyBucketWithDestLock__table_buckets_i__newTable = m_copyBucketWithDestLock__table_buckets_i__newTable := by pin_tac Gen.MapSites.Map_resize_a13

theorem Map_resize_a14_pin :
    Gen.MapSites.Map_resize_a14  = (0#64) := by pin_tac Gen.MapSites.Map_resize_a14

theorem Map_resize_u2_pin (i : BitVec 64) :
    Gen.MapSites.Map_resize_u2 i = (i + (1#64)) := by pin_tac Gen.MapSites.Map_resize_u2

theorem Map_resize_a15_pin (m_copyBucket__table_buckets_i__newTable : BitVec 64) :
    Gen.MapSites.Map_resize_a15 m_copyBucket__table_buckets_i__newTable = m_copyBucket__table_buckets_i__newTable := by pin_tac Gen.MapSites.Map_resize_a15

theorem Map_copyBucketWithDestLock_c0_pin (i : BitVec 64) :
    Gen.MapSites.Map_copyBucketWithDestLock_c0 i = (BitVec.slt i (5#64)) := by pin_tac Gen.MapSites.Map_copyBucketWithDestLock_c0

theorem Map_copyBucketWithDestLock_c2_pin (next__nil : Bool) :
    Gen.MapSites.Map_copyBucketWithDestLock_c2 next__nil = next__nil := by pin_tac Gen.MapSites.Map_copyBucketWithDestLock_c2

theorem Map_copyBucketWithDestLock_a1_pin :
    Gen.MapSites.Map_copyBucketWithDestLock_a1  = (0#64) := by pin_tac Gen.MapSites.Map_copyBucketWithDestLock_a1

theorem Map_copyBucketWithDestLock_u0_pin (i : BitVec 64) :
    Gen.MapSites.Map_copyBucketWithDestLock_u0 i = (i + (1#64)) := by pin_tac Gen.MapSites.Map_copyBucketWithDestLock_u0

theorem Map_copyBucketWithDestLock_a3_pin (destTable_hasher_Hash_n_Key : BitVec 64) :
    Gen.MapSites.Map_copyBucketWithDestLock_a3 destTable_hasher_Hash_n_Key = destTable_hasher_Hash_n_Key := by pin_tac Gen.MapSites.Map_copyBucketWithDestLock_a3

theorem Map_copyBucketWithDestLock_a4_pin (hash : BitVec 64) (len_destTable_buckets : BitVec 64) :
    Gen.MapSites.Map_copyBucketWithDestLock_a4 hash len_destTable_buckets = ((len_destTable_buckets - (1#64)) &&& (h_h1 hash)) := by pin_tac Gen.MapSites.Map_copyBucketWithDestLock_a4

theorem Map_copyBucketWithDestLock_u1_pin (copied : BitVec 64) :
    Gen.MapSites.Map_copyBucketWithDestLock_u1 copied = (copied + (1#64)) := by pin_tac Gen.MapSites.Map_copyBucketWithDestLock_u1

theorem Map_copyBucketWithDestLock_r0_pin (copied : BitVec 64) :
    Gen.MapSites.Map_copyBucketWithDestLock_r0 copied = copied := by pin_tac Gen.MapSites.Map_copyBucketWithDestLock_r0

theorem Map_copyBucket_c0_pin (i : BitVec 64) :
    Gen.MapSites.Map_copyBucket_c0 i = (BitVec.slt i (5#64)) := by pin_tac Gen.MapSites.Map_copyBucket_c0

theorem Map_copyBucket_c2_pin (next__nil : Bool) :
    Gen.MapSites.Map_copyBucket_c2 next__nil = next__nil := by pin_tac Gen.MapSites.Map_copyBucket_c2

theorem Map_copyBucket_a1_pin :
    Gen.MapSites.Map_copyBucket_a1  = (0#64) := by pin_tac Gen.MapSites.Map_copyBucket_a1

theorem Map_copyBucket_u0_pin (i : BitVec 64) :
    Gen.MapSites.Map_copyBucket_u0 i = (i + (1#64)) := by pin_tac Gen.MapSites.Map_copyBucket_u0

theorem Map_copyBucket_a3_pin (destTable_hasher_Hash_n_Key : BitVec 64) :
    Gen.MapSites.Map_copyBucket_a3 destTable_hasher_Hash_n_Key = destTable_hasher_Hash_n_Key := by pin_tac Gen.MapSites.Map_copyBucket_a3

theorem Map_copyBucket_a4_pin (hash : BitVec 64) (len_destTable_buckets : BitVec 64) :
    Gen.MapSites.Map_copyBucket_a4 hash len_destTable_buckets = ((len_destTable_buckets - (1#64)) &&& (h_h1 hash)) := by pin_tac Gen.MapSites.Map_copyBucket_a4

theorem Map_copyBucket_u1_pin (copied : BitVec 64) :
    Gen.MapSites.Map_copyBucket_u1 copied = (copied + (1#64)) := by pin_tac Gen.MapSites.Map_copyBucket_u1

theorem Map_copyBucket_r0_pin (copied : BitVec 64) :
    Gen.MapSites.Map_copyBucket_r0 copied = copied := by pin_tac Gen.MapSites.Map_copyBucket_r0

theorem Map_Range_c0_pin (i : BitVec 64) :
    Gen.MapSites.Map_Range_c0 i = (BitVec.slt i (5#64)) := by pin_tac Gen.MapSites.Map_Range_c0

theorem Map_Range_c2_pin (next__nil : Bool) :
    Gen.MapSites.Map_Range_c2 next__nil = next__nil := by pin_tac Gen.MapSites.Map_Range_c2

theorem Map_Range_c3_pin (fn_n : Bool) :
    Gen.MapSites.Map_Range_c3 fn_n = (!fn_n) := by pin_tac Gen.MapSites.Map_Range_c3

theorem Map_Range_a4_pin :
    Gen.MapSites.Map_Range_a4  = (0#64) := by pin_tac Gen.MapSites.Map_Range_a4

theorem Map_Range_u0_pin (i : BitVec 64) :
    Gen.MapSites.Map_Range_u0 i = (i + (1#64)) := by pin_tac Gen.MapSites.Map_Range_u0

theorem Map_Size_r0_pin (table_sumSize : BitVec 64) :
    Gen.MapSites.Map_Size_r0 table_sumSize = table_sumSize := by pin_tac Gen.MapSites.Map_Size_r0

theorem appendToBucket_c0_pin (i : BitVec 64) :
    Gen.MapSites.appendToBucket_c0 i = (BitVec.slt i (5#64)) := by pin_tac Gen.MapSites.appendToBucket_c0

theorem appendToBucket_c2_pin (next__nil : Bool) :
    Gen.MapSites.appendToBucket_c2 next__nil = next__nil := by pin_tac Gen.MapSites.appendToBucket_c2

theorem appendToBucket_a0_pin :
    Gen.MapSites.appendToBucket_a0  = (0#64) := by pin_tac Gen.MapSites.appendToBucket_a0

theorem appendToBucket_u0_pin (i : BitVec 64) :
    Gen.MapSites.appendToBucket_u0 i = (i + (1#64)) := by pin_tac Gen.MapSites.appendToBucket_u0

theorem mapTable_addSize_a0_pin (bucketIdx : BitVec 64) (len_table_size : BitVec 64) :
    Gen.MapSites.mapTable_addSize_a0 bucketIdx len_table_size = ((len_table_size - (1#64)) &&& bucketIdx) := by pin_tac Gen.MapSites.mapTable_addSize_a0

theorem mapTable_addSizePlain_a0_pin (bucketIdx : BitVec 64) (len_table_size : BitVec 64) :
    Gen.MapSites.mapTable_addSizePlain_a0 bucketIdx len_table_size = ((len_table_size - (1#64)) &&& bucketIdx) := by pin_tac Gen.MapSites.mapTable_addSizePlain_a0

theorem mapTable_addSizePlain_u0_pin (delta : BitVec 64) (table_size_cidx_c : BitVec 64) :
    Gen.MapSites.mapTable_addSizePlain_u0 delta table_size_cidx_c = (table_size_cidx_c + delta) := by pin_tac Gen.MapSites.mapTable_addSizePlain_u0

theorem mapTable_sumSize_a0_pin :
    Gen.MapSites.mapTable_sumSize_a0  = (0#64) := by pin_tac Gen.MapSites.mapTable_sumSize_a0

theorem mapTable_sumSize_u0_pin (atomic_LoadInt64__table_size_i__c : BitVec 64) (sum : BitVec 64) :
    Gen.MapSites.mapTable_sumSize_u0 atomic_LoadInt64__table_size_i__c sum = (sum + atomic_LoadInt64__table_size_i__c) := by pin_tac Gen.MapSites.mapTable_sumSize_u0

theorem mapTable_sumSize_r0_pin (sum : BitVec 64) :
    Gen.MapSites.mapTable_sumSize_r0 sum = (OtterVerif.Bv.smax sum (0#64)) := by pin_tac Gen.MapSites.mapTable_sumSize_r0

theorem h1_r0_pin (h : BitVec 64) :
    Gen.MapSites.h1_r0 h = (h >>> 7) := by pin_tac Gen.MapSites.h1_r0

theorem h2_r0_pin (h : BitVec 64) :
    Gen.MapSites.h2_r0 h = (BitVec.setWidth 8 (h &&& (127#64))) := by pin_tac Gen.MapSites.h2_r0

theorem broadcast_r0_pin (b : BitVec 8) :
    Gen.MapSites.broadcast_r0 b = ((72340172838076673#64) * (BitVec.setWidth 64 b)) := by pin_tac Gen.MapSites.broadcast_r0

theorem firstMarkedByteIndex_r0_pin (w : BitVec 64) :
    Gen.MapSites.firstMarkedByteIndex_r0 w = (BitVec.sshiftRight (OtterVerif.Bv.trailingZeros64 w) (3)) := by pin_tac Gen.MapSites.firstMarkedByteIndex_r0

theorem markZeroBytes_r0_pin (w : BitVec 64) :
    Gen.MapSites.markZeroBytes_r0 w = (((w - (72340172838076673#64)) &&& (~~~w)) &&& (9259542123273814144#64)) := by pin_tac Gen.MapSites.markZeroBytes_r0

theorem setByte_a0_pin (idx : BitVec 64) :
    Gen.MapSites.setByte_a0 idx = (idx <<< 3) := by pin_tac Gen.MapSites.setByte_a0

theorem setByte_r0_pin (b : BitVec 8) (shift : BitVec 64) (w : BitVec 64) :
    Gen.MapSites.setByte_r0 b shift w = ((w &&& ~~~((255#64) <<< shift.toNat)) ||| ((BitVec.setWidth 64 b) <<< shift.toNat)) := by pin_tac Gen.MapSites.setByte_r0

theorem siteParams_pin : Gen.MapSites.siteParams = [("newMap_c0", ["sizeHint"]),
  ("newMap_a5", ["len_table_buckets"]),
  ("newMapTable_c0", ["counterLen"]),
  ("newMapTable_c1", ["counterLen"]),
  ("newMapTable_a1", ["minTableLen"]),
  ("newMapTable_a2", []),
  ("newMapTable_a3", []),
  ("Map_Get_c0", ["markedw"]),
  ("Map_Get_c2", ["n_Key____key"]),
  ("Map_Get_c3", ["b__nil"]),
  ("Map_Get_x0", ["h2w", "metaw"]),
  ("Map_Get_a1", ["table_hasher_Hash_key"]),
  ("Map_Get_a2", ["hash"]),
  ("Map_Get_a3", ["hash"]),
  ("Map_Get_a4", ["h1", "len_table_buckets"]),
  ("Map_Get_a6", ["b_meta_Load"]),
  ("Map_Get_a7", ["h2w", "metaw"]),
  ("Map_Get_a8", ["markedw"]),
  ("Map_Get_u0", ["markedw"]),
  ("Map_Compute_c0", ["m_resizeInProgress"]),
  ("Map_Compute_c1", ["m_newerTableExists_table"]),
  ("Map_Compute_c2", ["markedw"]),
  ("Map_Compute_c4", ["oldNode_Key____key"]),
  ("Map_Compute_c5", ["m_nodeManager_IsNil_newNode"]),
  ("Map_Compute_c6", ["newmetaw"]),
  ("Map_Compute_c8", ["emptyb__nil"]),
  ("Map_Compute_c9", ["emptyw"]),
  ("Map_Compute_c10", ["b_next_Load____nil"]),
  ("Map_Compute_c11", ["emptybnot_nil"]),
  ("Map_Compute_c12", ["m_nodeManager_IsNil_newNode"]),
  ("Map_Compute_c14", ["m_nodeManager_IsNil_newNode"]),
  ("Map_Compute_x0", ["h2w", "metaw"]),
  ("Map_Compute_a1", ["len_table_buckets"]),
  ("Map_Compute_a2", ["table_hasher_Hash_key"]),
  ("Map_Compute_a3", ["hash"]),
  ("Map_Compute_a4", ["hash"]),
  ("Map_Compute_a5", ["h2"]),
  ("Map_Compute_a6", ["h1", "len_table_buckets"]),
  ("Map_Compute_a9", ["b_meta_Load"]),
  ("Map_Compute_a10", ["h2w", "metaw"]),
  ("Map_Compute_a11", ["markedw"]),
  ("Map_Compute_a15", ["idx", "metaw"]),
  ("Map_Compute_u0", ["markedw"]),
  ("Map_Compute_a16", ["metaw"]),
  ("Map_Compute_a17", ["emptyw"]),
  ("Map_Compute_a19", ["idx"]),
  ("Map_newerTableExists_r0", ["tablenot_m_table_Load"]),
  ("Map_resizeInProgress_r0", ["m_resizing_Load"]),
  ("Map_waitForResize_c0", ["m_resizeInProgress"]),
  ("Map_resize_c0", ["hint"]),
  ("Map_resize_c1", ["knownTableLen", "knownTable_sumSize", "m_minTableLen"]),
  ("Map_resize_c2", ["m_resizing_CompareAndSwap_false_true"]),
  ("Map_resize_c3", ["m_minTableLen", "shrinkThreshold", "tableLen", "table_sumSize"]),
  ("Map_resize_c4", ["hint"]),
  ("Map_resize_c5", ["tableLen"]),
  ("Map_resize_c6", ["chunks"]),
  ("Map_resize_c7", ["c", "chunks"]),
  ("Map_resize_c8", ["end_", "i"]),
  ("Map_resize_c9", ["copied"]),
  ("Map_resize_c10", ["i", "tableLen"]),
  ("Map_resize_s0", ["hint"]),
  ("Map_resize_s1", ["hint"]),
  ("Map_resize_s2", ["hint"]),
  ("Map_resize_x0", ["tableLen"]),
  ("Map_resize_x1", ["tableLen"]),
  ("Map_resize_x2", ["tableLen"]),
  ("Map_resize_x3", ["c", "chunkSize"]),
  ("Map_resize_x4", ["c", "chunkSize"]),
  ("Map_resize_a0", ["len_knownTable_buckets"]),
  ("Map_resize_a2", ["len_table_buckets"]),
  ("Map_resize_a4", ["tableLen"]),
  ("Map_resize_a7", []),
  ("Map_resize_a8", ["runtime_GOMAXPROCS_0", "tableLen"]),
  ("Map_resize_a9", ["chunks"]),
  ("Map_resize_a10", ["chunks", "tableLen"]),
  ("Map_resize_a11", []),
  ("Map_resize_u0", ["c"]),
  ("Map_resize_g0_0", ["c", "chunkSize"]),
  ("Map_resize_g0_1", ["c", "chunkSize", "tableLen"]),
  ("Map_resize_a12", ["start"]),
  ("Map_resize_u1", ["i"]),
  ("Map_resize_a13", ["m_copyBucketWithDestLock__table_buckets_i__newTable"]),
  ("Map_resize_a14", []),
  ("Map_resize_u2", ["i"]),
  ("Map_resize_a15", ["m_copyBucket__table_buckets_i__newTable"]),
  ("Map_copyBucketWithDestLock_c0", ["i"]),
  ("Map_copyBucketWithDestLock_c2", ["next__nil"]),
  ("Map_copyBucketWithDestLock_a1", []),
  ("Map_copyBucketWithDestLock_u0", ["i"]),
  ("Map_copyBucketWithDestLock_a3", ["destTable_hasher_Hash_n_Key"]),
  ("Map_copyBucketWithDestLock_a4", ["hash", "len_destTable_buckets"]),
  ("Map_copyBucketWithDestLock_u1", ["copied"]),
  ("Map_copyBucketWithDestLock_r0", ["copied"]),
  ("Map_copyBucket_c0", ["i"]),
  ("Map_copyBucket_c2", ["next__nil"]),
  ("Map_copyBucket_a1", []),
  ("Map_copyBucket_u0", ["i"]),
  ("Map_copyBucket_a3", ["destTable_hasher_Hash_n_Key"]),
  ("Map_copyBucket_a4", ["hash", "len_destTable_buckets"]),
  ("Map_copyBucket_u1", ["copied"]),
  ("Map_copyBucket_r0", ["copied"]),
  ("Map_Range_c0", ["i"]),
  ("Map_Range_c2", ["next__nil"]),
  ("Map_Range_c3", ["fn_n"]),
  ("Map_Range_a4", []),
  ("Map_Range_u0", ["i"]),
  ("Map_Size_r0", ["table_sumSize"]),
  ("appendToBucket_c0", ["i"]),
  ("appendToBucket_c2", ["next__nil"]),
  ("appendToBucket_a0", []),
  ("appendToBucket_u0", ["i"]),
  ("mapTable_addSize_a0", ["bucketIdx", "len_table_size"]),
  ("mapTable_addSizePlain_a0", ["bucketIdx", "len_table_size"]),
  ("mapTable_addSizePlain_u0", ["delta", "table_size_cidx_c"]),
  ("mapTable_sumSize_a0", []),
  ("mapTable_sumSize_u0", ["atomic_LoadInt64__table_size_i__c", "sum"]),
  ("mapTable_sumSize_r0", ["sum"]),
  ("h1_r0", ["h"]),
  ("h2_r0", ["h"]),
  ("broadcast_r0", ["b"]),
  ("firstMarkedByteIndex_r0", ["w"]),
  ("markZeroBytes_r0", ["w"]),
  ("setByte_a0", ["idx"]),
  ("setByte_r0", ["b", "shift", "w"])] := by rfl

theorem shape_pin : Gen.MapSites.shape = [("NewWithSize", [0, 0, 0, 1, 0, 0, 0]),
  ("New", [0, 0, 0, 1, 0, 0, 0]),
  ("newMap", [1, 0, 6, 1, 0, 0, 0]),
  ("newMapTable", [2, 0, 6, 1, 0, 0, 0]),
  ("zeroValue", [0, 0, 0, 1, 0, 0, 0]),
  ("Map_Get", [4, 1, 12, 2, 0, 1, 0]),
  ("Map_Compute", [15, 1, 26, 6, 0, 1, 0]),
  ("Map_newerTableExists", [0, 0, 0, 1, 0, 0, 0]),
  ("Map_resizeInProgress", [0, 0, 0, 1, 0, 0, 0]),
  ("Map_waitForResize", [1, 0, 0, 0, 0, 0, 0]),
  ("Map_resize", [11, 3, 16, 0, 1, 5, 3]),
  ("Map_copyBucketWithDestLock", [3, 2, 8, 1, 0, 0, 0]),
  ("Map_copyBucket", [3, 2, 8, 1, 0, 0, 0]),
  ("Map_Range", [4, 1, 11, 0, 0, 0, 0]),
  ("Map_Clear", [0, 0, 1, 0, 0, 0, 0]),
  ("Map_Size", [0, 0, 1, 1, 0, 0, 0]),
  ("appendToBucket", [3, 1, 6, 0, 0, 0, 0]),
  ("mapTable_addSize", [0, 0, 1, 0, 0, 0, 0]),
  ("mapTable_addSizePlain", [0, 1, 1, 0, 0, 0, 0]),
  ("mapTable_sumSize", [0, 1, 1, 1, 0, 0, 0]),
  ("h1", [0, 0, 0, 1, 0, 0, 0]),
  ("h2", [0, 0, 0, 1, 0, 0, 0]),
  ("broadcast", [0, 0, 0, 1, 0, 0, 0]),
  ("firstMarkedByteIndex", [0, 0, 0, 1, 0, 0, 0]),
  ("markZeroBytes", [0, 0, 0, 1, 0, 0, 0]),
  ("setByte", [0, 0, 1, 1, 0, 0, 0])] := by rfl

end OtterVerif.Pin.MapSites
