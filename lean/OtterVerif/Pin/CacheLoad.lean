/-
  Pin.CacheLoad — HAND-OWNED (bootstrapped once by tools/mkpins.py, then reviewed): what every pure computation that
  the translator extracts into Gen.CacheLoad is expected to mean.  Re-checked against the regenerated Gen.CacheLoad on every
  run; a pin that no longer proves names the Go expression whose meaning changed.
-/
import OtterVerif.Gen.CacheLoad

namespace OtterVerif.Pin.CacheLoad
open OtterVerif OtterVerif.Gen.CacheLoad

/-- `rfl` when the regenerated term is the recorded one; otherwise try to see through a harmless rewrite
    (operand order of commutative operators) -/
local macro "pin_tac" d:ident : tactic =>
  `(tactic| first
    | rfl
    | (simp only [$d:ident]; ac_rfl)
    | (simp [$d:ident, BitVec.add_comm, BitVec.and_comm, BitVec.or_comm, BitVec.xor_comm, BitVec.mul_comm, Bool.and_comm, Bool.or_comm]))

theorem cache_refreshKey_c0_pin (c_withRefresh : Bool) :
    Gen.CacheLoad.cache_refreshKey_c0 c_withRefresh = (!c_withRefresh) := by pin_tac Gen.CacheLoad.cache_refreshKey_c0

theorem cache_refreshKey_c1_pin (isManual : Bool) :
    Gen.CacheLoad.cache_refreshKey_c1 isManual = isManual := by pin_tac Gen.CacheLoad.cache_refreshKey_c1

theorem cache_refreshKey_c2_pin (rk_oldnot_nil : Bool) :
    Gen.CacheLoad.cache_refreshKey_c2 rk_oldnot_nil = rk_oldnot_nil := by pin_tac Gen.CacheLoad.cache_refreshKey_c2

theorem cache_refreshKey_c3_pin (shouldLoad : Bool) :
    Gen.CacheLoad.cache_refreshKey_c3 shouldLoad = shouldLoad := by pin_tac Gen.CacheLoad.cache_refreshKey_c3

theorem cache_refreshKey_c4_pin (cl_errnot_nil : Bool) (cl_isNotFound : Bool) :
    Gen.CacheLoad.cache_refreshKey_c4 cl_errnot_nil cl_isNotFound = (cl_errnot_nil && (!cl_isNotFound)) := by pin_tac Gen.CacheLoad.cache_refreshKey_c4

theorem cache_refreshKey_c5_pin (isManual : Bool) :
    Gen.CacheLoad.cache_refreshKey_c5 isManual = isManual := by pin_tac Gen.CacheLoad.cache_refreshKey_c5

theorem cache_Get_c0_pin (nnot_nil : Bool) :
    Gen.CacheLoad.cache_Get_c0 nnot_nil = nnot_nil := by pin_tac Gen.CacheLoad.cache_Get_c0

theorem cache_Get_c1_pin (c_isStale_n_nowNano : Bool) :
    Gen.CacheLoad.cache_Get_c1 c_isStale_n_nowNano = c_isStale_n_nowNano := by pin_tac Gen.CacheLoad.cache_Get_c1

theorem cache_Get_c2_pin (shouldLoad : Bool) :
    Gen.CacheLoad.cache_Get_c2 shouldLoad = shouldLoad := by pin_tac Gen.CacheLoad.cache_Get_c2

theorem cache_Get_a0_pin (c_clock_NowNano : BitVec 64) :
    Gen.CacheLoad.cache_Get_a0 c_clock_NowNano = c_clock_NowNano := by pin_tac Gen.CacheLoad.cache_Get_a0

theorem cache_afterDeleteCall_c0_pin (cl_isNotFound : Bool) (isCorrectCall : Bool) :
    Gen.CacheLoad.cache_afterDeleteCall_c0 cl_isNotFound isCorrectCall = (isCorrectCall && cl_isNotFound) := by pin_tac Gen.CacheLoad.cache_afterDeleteCall_c0

theorem cache_afterDeleteCall_c1_pin (cl_errnot_nil : Bool) :
    Gen.CacheLoad.cache_afterDeleteCall_c1 cl_errnot_nil = cl_errnot_nil := by pin_tac Gen.CacheLoad.cache_afterDeleteCall_c1

theorem cache_afterDeleteCall_c2_pin (cl_isRefresh : Bool) (oldNodenot_nil : Bool) :
    Gen.CacheLoad.cache_afterDeleteCall_c2 cl_isRefresh oldNodenot_nil = (cl_isRefresh && oldNodenot_nil) := by pin_tac Gen.CacheLoad.cache_afterDeleteCall_c2

theorem cache_afterDeleteCall_c3_pin (isCorrectCall : Bool) :
    Gen.CacheLoad.cache_afterDeleteCall_c3 isCorrectCall = (!isCorrectCall) := by pin_tac Gen.CacheLoad.cache_afterDeleteCall_c3

theorem cache_afterDeleteCall_c4_pin (deleted : Bool) :
    Gen.CacheLoad.cache_afterDeleteCall_c4 deleted = deleted := by pin_tac Gen.CacheLoad.cache_afterDeleteCall_c4

theorem cache_afterDeleteCall_c5_pin (inserted : Bool) :
    Gen.CacheLoad.cache_afterDeleteCall_c5 inserted = inserted := by pin_tac Gen.CacheLoad.cache_afterDeleteCall_c5

theorem cache_afterDeleteCall_a0_pin (c_clock_NowNano : BitVec 64) :
    Gen.CacheLoad.cache_afterDeleteCall_a0 c_clock_NowNano = c_clock_NowNano := by pin_tac Gen.CacheLoad.cache_afterDeleteCall_a0

theorem cache_afterDeleteCall_a2_pin (c_singleflight_deleteCall_cl : Bool) (cl_isFake : Bool) :
    Gen.CacheLoad.cache_afterDeleteCall_a2 c_singleflight_deleteCall_cl cl_isFake = (cl_isFake || c_singleflight_deleteCall_cl) := by pin_tac Gen.CacheLoad.cache_afterDeleteCall_a2

theorem cache_afterDeleteCall_a4_pin (oldNodenot_nil : Bool) :
    Gen.CacheLoad.cache_afterDeleteCall_a4 oldNodenot_nil = oldNodenot_nil := by pin_tac Gen.CacheLoad.cache_afterDeleteCall_a4

theorem cache_afterDeleteCall_a5_pin :
    Gen.CacheLoad.cache_afterDeleteCall_a5  = true := by pin_tac Gen.CacheLoad.cache_afterDeleteCall_a5

theorem cache_bulkRefreshKeys_c0_pin (c_withRefresh : Bool) :
    Gen.CacheLoad.cache_bulkRefreshKeys_c0 c_withRefresh = (!c_withRefresh) := by pin_tac Gen.CacheLoad.cache_bulkRefreshKeys_c0

theorem cache_bulkRefreshKeys_c1_pin (isManual : Bool) :
    Gen.CacheLoad.cache_bulkRefreshKeys_c1 isManual = isManual := by pin_tac Gen.CacheLoad.cache_bulkRefreshKeys_c1

theorem cache_bulkRefreshKeys_c2_pin (len_rks : BitVec 64) :
    Gen.CacheLoad.cache_bulkRefreshKeys_c2 len_rks = (len_rks == (0#64)) := by pin_tac Gen.CacheLoad.cache_bulkRefreshKeys_c2

theorem cache_bulkRefreshKeys_c3_pin (isManual : Bool) :
    Gen.CacheLoad.cache_bulkRefreshKeys_c3 isManual = isManual := by pin_tac Gen.CacheLoad.cache_bulkRefreshKeys_c3

theorem cache_bulkRefreshKeys_c4_pin (isManual : Bool) :
    Gen.CacheLoad.cache_bulkRefreshKeys_c4 isManual = isManual := by pin_tac Gen.CacheLoad.cache_bulkRefreshKeys_c4

theorem cache_bulkRefreshKeys_c5_pin (shouldLoad : Bool) :
    Gen.CacheLoad.cache_bulkRefreshKeys_c5 shouldLoad = shouldLoad := by pin_tac Gen.CacheLoad.cache_bulkRefreshKeys_c5

theorem cache_bulkRefreshKeys_c6_pin (rk_oldnot_nil : Bool) :
    Gen.CacheLoad.cache_bulkRefreshKeys_c6 rk_oldnot_nil = rk_oldnot_nil := by pin_tac Gen.CacheLoad.cache_bulkRefreshKeys_c6

theorem cache_bulkRefreshKeys_c7_pin (toReloadCalls__nil : Bool) :
    Gen.CacheLoad.cache_bulkRefreshKeys_c7 toReloadCalls__nil = toReloadCalls__nil := by pin_tac Gen.CacheLoad.cache_bulkRefreshKeys_c7

theorem cache_bulkRefreshKeys_c8_pin (toLoadCalls__nil : Bool) :
    Gen.CacheLoad.cache_bulkRefreshKeys_c8 toLoadCalls__nil = toLoadCalls__nil := by pin_tac Gen.CacheLoad.cache_bulkRefreshKeys_c8

theorem cache_bulkRefreshKeys_c9_pin (foundCalls__nil : Bool) :
    Gen.CacheLoad.cache_bulkRefreshKeys_c9 foundCalls__nil = foundCalls__nil := by pin_tac Gen.CacheLoad.cache_bulkRefreshKeys_c9

theorem cache_bulkRefreshKeys_c10_pin (len_toLoadCalls : BitVec 64) :
    Gen.CacheLoad.cache_bulkRefreshKeys_c10 len_toLoadCalls = (BitVec.slt (0#64) len_toLoadCalls) := by pin_tac Gen.CacheLoad.cache_bulkRefreshKeys_c10

theorem cache_bulkRefreshKeys_c11_pin (rnot_nil : Bool) :
    Gen.CacheLoad.cache_bulkRefreshKeys_c11 rnot_nil = rnot_nil := by pin_tac Gen.CacheLoad.cache_bulkRefreshKeys_c11

theorem cache_bulkRefreshKeys_c12_pin (loadErrnot_nil : Bool) :
    Gen.CacheLoad.cache_bulkRefreshKeys_c12 loadErrnot_nil = loadErrnot_nil := by pin_tac Gen.CacheLoad.cache_bulkRefreshKeys_c12

theorem cache_bulkRefreshKeys_c13_pin (isManual : Bool) :
    Gen.CacheLoad.cache_bulkRefreshKeys_c13 isManual = isManual := by pin_tac Gen.CacheLoad.cache_bulkRefreshKeys_c13

theorem cache_bulkRefreshKeys_c14_pin (len_toReloadCalls : BitVec 64) :
    Gen.CacheLoad.cache_bulkRefreshKeys_c14 len_toReloadCalls = (BitVec.slt (0#64) len_toReloadCalls) := by pin_tac Gen.CacheLoad.cache_bulkRefreshKeys_c14

theorem cache_bulkRefreshKeys_c15_pin (reloadErrnot_nil : Bool) :
    Gen.CacheLoad.cache_bulkRefreshKeys_c15 reloadErrnot_nil = reloadErrnot_nil := by pin_tac Gen.CacheLoad.cache_bulkRefreshKeys_c15

theorem cache_bulkRefreshKeys_c16_pin (isManual : Bool) :
    Gen.CacheLoad.cache_bulkRefreshKeys_c16 isManual = isManual := by pin_tac Gen.CacheLoad.cache_bulkRefreshKeys_c16

theorem cache_bulkRefreshKeys_c17_pin (isManual : Bool) :
    Gen.CacheLoad.cache_bulkRefreshKeys_c17 isManual = isManual := by pin_tac Gen.CacheLoad.cache_bulkRefreshKeys_c17

theorem cache_bulkRefreshKeys_c18_pin (isManual : Bool) :
    Gen.CacheLoad.cache_bulkRefreshKeys_c18 isManual = isManual := by pin_tac Gen.CacheLoad.cache_bulkRefreshKeys_c18

theorem cache_bulkRefreshKeys_x0_pin (i : BitVec 64) (len_rks : BitVec 64) :
    Gen.CacheLoad.cache_bulkRefreshKeys_x0 i len_rks = (len_rks - i) := by pin_tac Gen.CacheLoad.cache_bulkRefreshKeys_x0

theorem cache_bulkRefreshKeys_x1_pin (i : BitVec 64) (len_rks : BitVec 64) :
    Gen.CacheLoad.cache_bulkRefreshKeys_x1 i len_rks = (len_rks - i) := by pin_tac Gen.CacheLoad.cache_bulkRefreshKeys_x1

theorem cache_bulkRefreshKeys_x2_pin (i : BitVec 64) (len_rks : BitVec 64) :
    Gen.CacheLoad.cache_bulkRefreshKeys_x2 i len_rks = (len_rks - i) := by pin_tac Gen.CacheLoad.cache_bulkRefreshKeys_x2

theorem cache_bulkRefreshKeys_a2_pin :
    Gen.CacheLoad.cache_bulkRefreshKeys_a2  = (0#64) := by pin_tac Gen.CacheLoad.cache_bulkRefreshKeys_a2

theorem cache_bulkRefreshKeys_u0_pin (i : BitVec 64) :
    Gen.CacheLoad.cache_bulkRefreshKeys_u0 i = (i + (1#64)) := by pin_tac Gen.CacheLoad.cache_bulkRefreshKeys_u0

theorem cache_BulkGet_c0_pin (found : Bool) :
    Gen.CacheLoad.cache_BulkGet_c0 found = found := by pin_tac Gen.CacheLoad.cache_BulkGet_c0

theorem cache_BulkGet_c1_pin (found : Bool) :
    Gen.CacheLoad.cache_BulkGet_c1 found = found := by pin_tac Gen.CacheLoad.cache_BulkGet_c1

theorem cache_BulkGet_c2_pin (nnot_nil : Bool) :
    Gen.CacheLoad.cache_BulkGet_c2 nnot_nil = nnot_nil := by pin_tac Gen.CacheLoad.cache_BulkGet_c2

theorem cache_BulkGet_c3_pin (c_isStale_n_nowNano : Bool) :
    Gen.CacheLoad.cache_BulkGet_c3 c_isStale_n_nowNano = c_isStale_n_nowNano := by pin_tac Gen.CacheLoad.cache_BulkGet_c3

theorem cache_BulkGet_c4_pin (toRefresh__nil : Bool) :
    Gen.CacheLoad.cache_BulkGet_c4 toRefresh__nil = toRefresh__nil := by pin_tac Gen.CacheLoad.cache_BulkGet_c4

theorem cache_BulkGet_c5_pin (misses__nil : Bool) :
    Gen.CacheLoad.cache_BulkGet_c5 misses__nil = misses__nil := by pin_tac Gen.CacheLoad.cache_BulkGet_c5

theorem cache_BulkGet_c6_pin (len_misses : BitVec 64) :
    Gen.CacheLoad.cache_BulkGet_c6 len_misses = (len_misses == (0#64)) := by pin_tac Gen.CacheLoad.cache_BulkGet_c6

theorem cache_BulkGet_c7_pin (shouldLoad : Bool) :
    Gen.CacheLoad.cache_BulkGet_c7 shouldLoad = shouldLoad := by pin_tac Gen.CacheLoad.cache_BulkGet_c7

theorem cache_BulkGet_c8_pin (toLoadCalls__nil : Bool) :
    Gen.CacheLoad.cache_BulkGet_c8 toLoadCalls__nil = toLoadCalls__nil := by pin_tac Gen.CacheLoad.cache_BulkGet_c8

theorem cache_BulkGet_c9_pin (len_toLoadCalls : BitVec 64) :
    Gen.CacheLoad.cache_BulkGet_c9 len_toLoadCalls = (BitVec.slt (0#64) len_toLoadCalls) := by pin_tac Gen.CacheLoad.cache_BulkGet_c9

theorem cache_BulkGet_c10_pin (loadErrnot_nil : Bool) :
    Gen.CacheLoad.cache_BulkGet_c10 loadErrnot_nil = loadErrnot_nil := by pin_tac Gen.CacheLoad.cache_BulkGet_c10

theorem cache_BulkGet_c11_pin (cl_err__nil : Bool) :
    Gen.CacheLoad.cache_BulkGet_c11 cl_err__nil = cl_err__nil := by pin_tac Gen.CacheLoad.cache_BulkGet_c11

theorem cache_BulkGet_c12_pin (cl_isNotFound : Bool) :
    Gen.CacheLoad.cache_BulkGet_c12 cl_isNotFound = (!cl_isNotFound) := by pin_tac Gen.CacheLoad.cache_BulkGet_c12

theorem cache_BulkGet_c13_pin (cl_isNotFound : Bool) (ok : Bool) :
    Gen.CacheLoad.cache_BulkGet_c13 cl_isNotFound ok = (ok || cl_isNotFound) := by pin_tac Gen.CacheLoad.cache_BulkGet_c13

theorem cache_BulkGet_c14_pin (errsFromCalls__nil : Bool) :
    Gen.CacheLoad.cache_BulkGet_c14 errsFromCalls__nil = errsFromCalls__nil := by pin_tac Gen.CacheLoad.cache_BulkGet_c14

theorem cache_BulkGet_c15_pin (len_errsFromCalls : BitVec 64) :
    Gen.CacheLoad.cache_BulkGet_c15 len_errsFromCalls = (BitVec.slt (0#64) len_errsFromCalls) := by pin_tac Gen.CacheLoad.cache_BulkGet_c15

theorem cache_BulkGet_x0_pin (len_keys : BitVec 64) (len_result : BitVec 64) :
    Gen.CacheLoad.cache_BulkGet_x0 len_keys len_result = (len_keys - len_result) := by pin_tac Gen.CacheLoad.cache_BulkGet_x0

theorem cache_BulkGet_x1_pin (len_keys : BitVec 64) (len_result : BitVec 64) :
    Gen.CacheLoad.cache_BulkGet_x1 len_keys len_result = (len_keys - len_result) := by pin_tac Gen.CacheLoad.cache_BulkGet_x1

theorem cache_BulkGet_x2_pin (i : BitVec 64) (len_misses : BitVec 64) :
    Gen.CacheLoad.cache_BulkGet_x2 i len_misses = (len_misses - i) := by pin_tac Gen.CacheLoad.cache_BulkGet_x2

theorem cache_BulkGet_x3_pin (i : BitVec 64) (len_misses : BitVec 64) :
    Gen.CacheLoad.cache_BulkGet_x3 i len_misses = ((len_misses - i) + (1#64)) := by pin_tac Gen.CacheLoad.cache_BulkGet_x3

theorem cache_BulkGet_a0_pin (c_clock_NowNano : BitVec 64) :
    Gen.CacheLoad.cache_BulkGet_a0 c_clock_NowNano = c_clock_NowNano := by pin_tac Gen.CacheLoad.cache_BulkGet_a0

theorem cache_BulkGet_a8_pin :
    Gen.CacheLoad.cache_BulkGet_a8  = (0#64) := by pin_tac Gen.CacheLoad.cache_BulkGet_a8

theorem cache_BulkGet_u0_pin (i : BitVec 64) :
    Gen.CacheLoad.cache_BulkGet_u0 i = (i + (1#64)) := by pin_tac Gen.CacheLoad.cache_BulkGet_u0

theorem cache_BulkGet_a13_pin :
    Gen.CacheLoad.cache_BulkGet_a13  = (0#64) := by pin_tac Gen.CacheLoad.cache_BulkGet_a13

theorem cache_BulkGet_u1_pin (i : BitVec 64) :
    Gen.CacheLoad.cache_BulkGet_u1 i = (i + (1#64)) := by pin_tac Gen.CacheLoad.cache_BulkGet_u1

theorem cache_wrapLoad_c0_pin (err__nil : Bool) (errors_Is_err_ErrNotFound : Bool) :
    Gen.CacheLoad.cache_wrapLoad_c0 err__nil errors_Is_err_ErrNotFound = (err__nil || errors_Is_err_ErrNotFound) := by pin_tac Gen.CacheLoad.cache_wrapLoad_c0

theorem cache_wrapLoad_c1_pin (errors_As_err__pe : Bool) :
    Gen.CacheLoad.cache_wrapLoad_c1 errors_As_err__pe = errors_As_err__pe := by pin_tac Gen.CacheLoad.cache_wrapLoad_c1

theorem cache_wrapLoad_a0_pin (c_statsClock_NowNano : BitVec 64) :
    Gen.CacheLoad.cache_wrapLoad_a0 c_statsClock_NowNano = c_statsClock_NowNano := by pin_tac Gen.CacheLoad.cache_wrapLoad_a0

theorem cache_wrapLoad_a2_pin (c_statsClock_NowNano : BitVec 64) (startTime : BitVec 64) :
    Gen.CacheLoad.cache_wrapLoad_a2 c_statsClock_NowNano startTime = (c_statsClock_NowNano - startTime) := by pin_tac Gen.CacheLoad.cache_wrapLoad_a2

theorem cache_Refresh_c0_pin (c_withRefresh : Bool) :
    Gen.CacheLoad.cache_Refresh_c0 c_withRefresh = (!c_withRefresh) := by pin_tac Gen.CacheLoad.cache_Refresh_c0

theorem cache_Refresh_a0_pin (c_clock_NowNano : BitVec 64) :
    Gen.CacheLoad.cache_Refresh_a0 c_clock_NowNano = c_clock_NowNano := by pin_tac Gen.CacheLoad.cache_Refresh_a0

theorem cache_BulkRefresh_c0_pin (c_withRefresh : Bool) :
    Gen.CacheLoad.cache_BulkRefresh_c0 c_withRefresh = (!c_withRefresh) := by pin_tac Gen.CacheLoad.cache_BulkRefresh_c0

theorem cache_BulkRefresh_a2_pin (c_clock_NowNano : BitVec 64) :
    Gen.CacheLoad.cache_BulkRefresh_a2 c_clock_NowNano = c_clock_NowNano := by pin_tac Gen.CacheLoad.cache_BulkRefresh_a2

theorem siteParams_pin : Gen.CacheLoad.siteParams = [("cache_refreshKey_c0", ["c_withRefresh"]),
  ("cache_refreshKey_c1", ["isManual"]),
  ("cache_refreshKey_c2", ["rk_oldnot_nil"]),
  ("cache_refreshKey_c3", ["shouldLoad"]),
  ("cache_refreshKey_c4", ["cl_errnot_nil", "cl_isNotFound"]),
  ("cache_refreshKey_c5", ["isManual"]),
  ("cache_Get_c0", ["nnot_nil"]),
  ("cache_Get_c1", ["c_isStale_n_nowNano"]),
  ("cache_Get_c2", ["shouldLoad"]),
  ("cache_Get_a0", ["c_clock_NowNano"]),
  ("cache_afterDeleteCall_c0", ["cl_isNotFound", "isCorrectCall"]),
  ("cache_afterDeleteCall_c1", ["cl_errnot_nil"]),
  ("cache_afterDeleteCall_c2", ["cl_isRefresh", "oldNodenot_nil"]),
  ("cache_afterDeleteCall_c3", ["isCorrectCall"]),
  ("cache_afterDeleteCall_c4", ["deleted"]),
  ("cache_afterDeleteCall_c5", ["inserted"]),
  ("cache_afterDeleteCall_a0", ["c_clock_NowNano"]),
  ("cache_afterDeleteCall_a2", ["c_singleflight_deleteCall_cl", "cl_isFake"]),
  ("cache_afterDeleteCall_a4", ["oldNodenot_nil"]),
  ("cache_afterDeleteCall_a5", []),
  ("cache_bulkRefreshKeys_c0", ["c_withRefresh"]),
  ("cache_bulkRefreshKeys_c1", ["isManual"]),
  ("cache_bulkRefreshKeys_c2", ["len_rks"]),
  ("cache_bulkRefreshKeys_c3", ["isManual"]),
  ("cache_bulkRefreshKeys_c4", ["isManual"]),
  ("cache_bulkRefreshKeys_c5", ["shouldLoad"]),
  ("cache_bulkRefreshKeys_c6", ["rk_oldnot_nil"]),
  ("cache_bulkRefreshKeys_c7", ["toReloadCalls__nil"]),
  ("cache_bulkRefreshKeys_c8", ["toLoadCalls__nil"]),
  ("cache_bulkRefreshKeys_c9", ["foundCalls__nil"]),
  ("cache_bulkRefreshKeys_c10", ["len_toLoadCalls"]),
  ("cache_bulkRefreshKeys_c11", ["rnot_nil"]),
  ("cache_bulkRefreshKeys_c12", ["loadErrnot_nil"]),
  ("cache_bulkRefreshKeys_c13", ["isManual"]),
  ("cache_bulkRefreshKeys_c14", ["len_toReloadCalls"]),
  ("cache_bulkRefreshKeys_c15", ["reloadErrnot_nil"]),
  ("cache_bulkRefreshKeys_c16", ["isManual"]),
  ("cache_bulkRefreshKeys_c17", ["isManual"]),
  ("cache_bulkRefreshKeys_c18", ["isManual"]),
  ("cache_bulkRefreshKeys_x0", ["i", "len_rks"]),
  ("cache_bulkRefreshKeys_x1", ["i", "len_rks"]),
  ("cache_bulkRefreshKeys_x2", ["i", "len_rks"]),
  ("cache_bulkRefreshKeys_a2", []),
  ("cache_bulkRefreshKeys_u0", ["i"]),
  ("cache_BulkGet_c0", ["found"]),
  ("cache_BulkGet_c1", ["found"]),
  ("cache_BulkGet_c2", ["nnot_nil"]),
  ("cache_BulkGet_c3", ["c_isStale_n_nowNano"]),
  ("cache_BulkGet_c4", ["toRefresh__nil"]),
  ("cache_BulkGet_c5", ["misses__nil"]),
  ("cache_BulkGet_c6", ["len_misses"]),
  ("cache_BulkGet_c7", ["shouldLoad"]),
  ("cache_BulkGet_c8", ["toLoadCalls__nil"]),
  ("cache_BulkGet_c9", ["len_toLoadCalls"]),
  ("cache_BulkGet_c10", ["loadErrnot_nil"]),
  ("cache_BulkGet_c11", ["cl_err__nil"]),
  ("cache_BulkGet_c12", ["cl_isNotFound"]),
  ("cache_BulkGet_c13", ["cl_isNotFound", "ok"]),
  ("cache_BulkGet_c14", ["errsFromCalls__nil"]),
  ("cache_BulkGet_c15", ["len_errsFromCalls"]),
  ("cache_BulkGet_x0", ["len_keys", "len_result"]),
  ("cache_BulkGet_x1", ["len_keys", "len_result"]),
  ("cache_BulkGet_x2", ["i", "len_misses"]),
  ("cache_BulkGet_x3", ["i", "len_misses"]),
  ("cache_BulkGet_a0", ["c_clock_NowNano"]),
  ("cache_BulkGet_a8", []),
  ("cache_BulkGet_u0", ["i"]),
  ("cache_BulkGet_a13", []),
  ("cache_BulkGet_u1", ["i"]),
  ("cache_wrapLoad_c0", ["err__nil", "errors_Is_err_ErrNotFound"]),
  ("cache_wrapLoad_c1", ["errors_As_err__pe"]),
  ("cache_wrapLoad_a0", ["c_statsClock_NowNano"]),
  ("cache_wrapLoad_a2", ["c_statsClock_NowNano", "startTime"]),
  ("cache_Refresh_c0", ["c_withRefresh"]),
  ("cache_Refresh_a0", ["c_clock_NowNano"]),
  ("cache_BulkRefresh_c0", ["c_withRefresh"]),
  ("cache_BulkRefresh_a2", ["c_clock_NowNano"])] := by rfl

theorem shape_pin : Gen.CacheLoad.shape = [("cache_refreshKey", [6, 0, 5, 2, 0, 0, 0]),
  ("cache_Get", [3, 0, 3, 0, 0, 0, 0]),
  ("cache_afterDeleteCall", [6, 0, 6, 0, 0, 0, 0]),
  ("cache_bulkRefreshKeys", [19, 1, 23, 3, 1, 3, 0]),
  ("cache_BulkGet", [16, 2, 18, 0, 0, 4, 0]),
  ("cache_wrapLoad", [2, 0, 3, 1, 0, 0, 0]),
  ("cache_Refresh", [1, 0, 2, 2, 0, 0, 0]),
  ("cache_BulkRefresh", [1, 0, 6, 2, 0, 0, 0])] := by rfl

end OtterVerif.Pin.CacheLoad
