/-
  Pin.SketchSites — HAND-OWNED (bootstrapped once by tools/mkpins.py, then reviewed): what every pure computation that
  the translator extracts into Gen.SketchSites is expected to mean.  Re-checked against the regenerated Gen.SketchSites on every
  run; a pin that no longer proves names the Go expression whose meaning changed.
-/
import OtterVerif.Gen.SketchSites

namespace OtterVerif.Pin.SketchSites
open OtterVerif OtterVerif.Gen.SketchSites

/-- `rfl` when the regenerated term is the recorded one; otherwise try to see through a harmless rewrite
    (operand order of commutative operators) -/
local macro "pin_tac" d:ident : tactic =>
  `(tactic| first
    | rfl
    | (simp only [$d:ident]; ac_rfl)
    | (simp [$d:ident, BitVec.add_comm, BitVec.and_comm, BitVec.or_comm, BitVec.xor_comm, BitVec.mul_comm, Bool.and_comm, Bool.or_comm]))

theorem sketch_ensureCapacity_c0_pin (len_s_table : BitVec 64) (maximumSize : BitVec 64) :
    Gen.SketchSites.sketch_ensureCapacity_c0 len_s_table maximumSize = (BitVec.ule maximumSize len_s_table) := by pin_tac Gen.SketchSites.sketch_ensureCapacity_c0

theorem sketch_ensureCapacity_c1_pin (s_isInitialized_Load : Bool) :
    Gen.SketchSites.sketch_ensureCapacity_c1 s_isInitialized_Load = (!s_isInitialized_Load) := by pin_tac Gen.SketchSites.sketch_ensureCapacity_c1

theorem sketch_ensureCapacity_c2_pin (newSize : BitVec 64) :
    Gen.SketchSites.sketch_ensureCapacity_c2 newSize = (BitVec.ult newSize (8#64)) := by pin_tac Gen.SketchSites.sketch_ensureCapacity_c2

theorem sketch_ensureCapacity_c3_pin (maximumSize : BitVec 64) :
    Gen.SketchSites.sketch_ensureCapacity_c3 maximumSize = (maximumSize != (0#64)) := by pin_tac Gen.SketchSites.sketch_ensureCapacity_c3

theorem sketch_ensureCapacity_a0_pin (maximumSize : BitVec 64) :
    Gen.SketchSites.sketch_ensureCapacity_a0 maximumSize = (OtterVerif.Gen.Xmath.RoundUpPowerOf264 maximumSize) := by pin_tac Gen.SketchSites.sketch_ensureCapacity_a0

theorem sketch_ensureCapacity_a1_pin :
    Gen.SketchSites.sketch_ensureCapacity_a1  = (8#64) := by pin_tac Gen.SketchSites.sketch_ensureCapacity_a1

theorem sketch_ensureCapacity_a3_pin :
    Gen.SketchSites.sketch_ensureCapacity_a3  = (10#64) := by pin_tac Gen.SketchSites.sketch_ensureCapacity_a3

theorem sketch_ensureCapacity_a4_pin (maximumSize : BitVec 64) :
    Gen.SketchSites.sketch_ensureCapacity_a4 maximumSize = ((10#64) * maximumSize) := by pin_tac Gen.SketchSites.sketch_ensureCapacity_a4

theorem sketch_ensureCapacity_a5_pin (len_s_table : BitVec 64) :
    Gen.SketchSites.sketch_ensureCapacity_a5 len_s_table = ((len_s_table >>> 3) - (1#64)) := by pin_tac Gen.SketchSites.sketch_ensureCapacity_a5

theorem sketch_ensureCapacity_a6_pin :
    Gen.SketchSites.sketch_ensureCapacity_a6  = (0#64) := by pin_tac Gen.SketchSites.sketch_ensureCapacity_a6

theorem sketch_isNotInitialized_r0_pin (s_isInitialized_Load : Bool) :
    Gen.SketchSites.sketch_isNotInitialized_r0 s_isInitialized_Load = (!s_isInitialized_Load) := by pin_tac Gen.SketchSites.sketch_isNotInitialized_r0

theorem sketch_frequency_c0_pin (s_isNotInitialized : Bool) :
    Gen.SketchSites.sketch_frequency_c0 s_isNotInitialized = s_isNotInitialized := by pin_tac Gen.SketchSites.sketch_frequency_c0

theorem sketch_frequency_c1_pin (i : BitVec 64) :
    Gen.SketchSites.sketch_frequency_c1 i = (BitVec.ult i (4#64)) := by pin_tac Gen.SketchSites.sketch_frequency_c1

theorem sketch_frequency_a0_pin :
    Gen.SketchSites.sketch_frequency_a0  = (18446744073709551615#64) := by pin_tac Gen.SketchSites.sketch_frequency_a0

theorem sketch_frequency_a1_pin (s_hash_k : BitVec 64) :
    Gen.SketchSites.sketch_frequency_a1 s_hash_k = s_hash_k := by pin_tac Gen.SketchSites.sketch_frequency_a1

theorem sketch_frequency_a2_pin (blockHash : BitVec 64) :
    Gen.SketchSites.sketch_frequency_a2 blockHash = (OtterVerif.Gen.SketchMix.rehash blockHash) := by pin_tac Gen.SketchSites.sketch_frequency_a2

theorem sketch_frequency_a3_pin (blockHash : BitVec 64) (s_blockMask : BitVec 64) :
    Gen.SketchSites.sketch_frequency_a3 blockHash s_blockMask = ((blockHash &&& s_blockMask) <<< 3) := by pin_tac Gen.SketchSites.sketch_frequency_a3

theorem sketch_frequency_a4_pin :
    Gen.SketchSites.sketch_frequency_a4  = (0#64) := by pin_tac Gen.SketchSites.sketch_frequency_a4

theorem sketch_frequency_u0_pin (i : BitVec 64) :
    Gen.SketchSites.sketch_frequency_u0 i = (i + (1#64)) := by pin_tac Gen.SketchSites.sketch_frequency_u0

theorem sketch_frequency_a5_pin (counterHash : BitVec 64) (i : BitVec 64) :
    Gen.SketchSites.sketch_frequency_a5 counterHash i = (counterHash >>> (i <<< 3).toNat) := by pin_tac Gen.SketchSites.sketch_frequency_a5

theorem sketch_frequency_a6_pin (h : BitVec 64) :
    Gen.SketchSites.sketch_frequency_a6 h = ((h >>> 1) &&& (15#64)) := by pin_tac Gen.SketchSites.sketch_frequency_a6

theorem sketch_frequency_a7_pin (h : BitVec 64) :
    Gen.SketchSites.sketch_frequency_a7 h = (h &&& (1#64)) := by pin_tac Gen.SketchSites.sketch_frequency_a7

theorem sketch_frequency_a8_pin (block : BitVec 64) (i : BitVec 64) (offset : BitVec 64) :
    Gen.SketchSites.sketch_frequency_a8 block i offset = ((block + offset) + (i <<< 1)) := by pin_tac Gen.SketchSites.sketch_frequency_a8

theorem sketch_frequency_a9_pin (index : BitVec 64) (s_table_slot : BitVec 64) :
    Gen.SketchSites.sketch_frequency_a9 index s_table_slot = ((s_table_slot >>> (index <<< 2).toNat) &&& (15#64)) := by pin_tac Gen.SketchSites.sketch_frequency_a9

theorem sketch_frequency_a10_pin (count : BitVec 64) (frequency : BitVec 64) :
    Gen.SketchSites.sketch_frequency_a10 count frequency = (OtterVerif.Bv.umin frequency count) := by pin_tac Gen.SketchSites.sketch_frequency_a10

theorem sketch_frequency_r0_pin :
    Gen.SketchSites.sketch_frequency_r0  = (0#64) := by pin_tac Gen.SketchSites.sketch_frequency_r0

theorem sketch_frequency_r1_pin (frequency : BitVec 64) :
    Gen.SketchSites.sketch_frequency_r1 frequency = frequency := by pin_tac Gen.SketchSites.sketch_frequency_r1

theorem sketch_increment_c0_pin (s_isNotInitialized : Bool) :
    Gen.SketchSites.sketch_increment_c0 s_isNotInitialized = s_isNotInitialized := by pin_tac Gen.SketchSites.sketch_increment_c0

theorem sketch_increment_c1_pin (added : Bool) :
    Gen.SketchSites.sketch_increment_c1 added = added := by pin_tac Gen.SketchSites.sketch_increment_c1

theorem sketch_increment_c2_pin (s_sampleSize : BitVec 64) (s_size : BitVec 64) :
    Gen.SketchSites.sketch_increment_c2 s_sampleSize s_size = (s_size == s_sampleSize) := by pin_tac Gen.SketchSites.sketch_increment_c2

theorem sketch_increment_a0_pin (s_hash_k : BitVec 64) :
    Gen.SketchSites.sketch_increment_a0 s_hash_k = s_hash_k := by pin_tac Gen.SketchSites.sketch_increment_a0

theorem sketch_increment_a1_pin (blockHash : BitVec 64) :
    Gen.SketchSites.sketch_increment_a1 blockHash = (OtterVerif.Gen.SketchMix.rehash blockHash) := by pin_tac Gen.SketchSites.sketch_increment_a1

theorem sketch_increment_a2_pin (blockHash : BitVec 64) (s_blockMask : BitVec 64) :
    Gen.SketchSites.sketch_increment_a2 blockHash s_blockMask = ((blockHash &&& s_blockMask) <<< 3) := by pin_tac Gen.SketchSites.sketch_increment_a2

theorem sketch_increment_a3_pin (counterHash : BitVec 64) :
    Gen.SketchSites.sketch_increment_a3 counterHash = counterHash := by pin_tac Gen.SketchSites.sketch_increment_a3

theorem sketch_increment_a4_pin (counterHash : BitVec 64) :
    Gen.SketchSites.sketch_increment_a4 counterHash = (counterHash >>> 8) := by pin_tac Gen.SketchSites.sketch_increment_a4

theorem sketch_increment_a5_pin (counterHash : BitVec 64) :
    Gen.SketchSites.sketch_increment_a5 counterHash = (counterHash >>> 16) := by pin_tac Gen.SketchSites.sketch_increment_a5

theorem sketch_increment_a6_pin (counterHash : BitVec 64) :
    Gen.SketchSites.sketch_increment_a6 counterHash = (counterHash >>> 24) := by pin_tac Gen.SketchSites.sketch_increment_a6

theorem sketch_increment_a7_pin (h0 : BitVec 64) :
    Gen.SketchSites.sketch_increment_a7 h0 = ((h0 >>> 1) &&& (15#64)) := by pin_tac Gen.SketchSites.sketch_increment_a7

theorem sketch_increment_a8_pin (h1 : BitVec 64) :
    Gen.SketchSites.sketch_increment_a8 h1 = ((h1 >>> 1) &&& (15#64)) := by pin_tac Gen.SketchSites.sketch_increment_a8

theorem sketch_increment_a9_pin (h2 : BitVec 64) :
    Gen.SketchSites.sketch_increment_a9 h2 = ((h2 >>> 1) &&& (15#64)) := by pin_tac Gen.SketchSites.sketch_increment_a9

theorem sketch_increment_a10_pin (h3 : BitVec 64) :
    Gen.SketchSites.sketch_increment_a10 h3 = ((h3 >>> 1) &&& (15#64)) := by pin_tac Gen.SketchSites.sketch_increment_a10

theorem sketch_increment_a11_pin (block : BitVec 64) (h0 : BitVec 64) :
    Gen.SketchSites.sketch_increment_a11 block h0 = (block + (h0 &&& (1#64))) := by pin_tac Gen.SketchSites.sketch_increment_a11

theorem sketch_increment_a12_pin (block : BitVec 64) (h1 : BitVec 64) :
    Gen.SketchSites.sketch_increment_a12 block h1 = ((block + (h1 &&& (1#64))) + (2#64)) := by pin_tac Gen.SketchSites.sketch_increment_a12

theorem sketch_increment_a13_pin (block : BitVec 64) (h2 : BitVec 64) :
    Gen.SketchSites.sketch_increment_a13 block h2 = ((block + (h2 &&& (1#64))) + (4#64)) := by pin_tac Gen.SketchSites.sketch_increment_a13

theorem sketch_increment_a14_pin (block : BitVec 64) (h3 : BitVec 64) :
    Gen.SketchSites.sketch_increment_a14 block h3 = ((block + (h3 &&& (1#64))) + (6#64)) := by pin_tac Gen.SketchSites.sketch_increment_a14

theorem sketch_increment_a15_pin (s_incrementAt_slot0_index0 : Bool) :
    Gen.SketchSites.sketch_increment_a15 s_incrementAt_slot0_index0 = s_incrementAt_slot0_index0 := by pin_tac Gen.SketchSites.sketch_increment_a15

theorem sketch_increment_a16_pin (added : Bool) (s_incrementAt_slot1_index1 : Bool) :
    Gen.SketchSites.sketch_increment_a16 added s_incrementAt_slot1_index1 = (s_incrementAt_slot1_index1 || added) := by pin_tac Gen.SketchSites.sketch_increment_a16

theorem sketch_increment_a17_pin (added : Bool) (s_incrementAt_slot2_index2 : Bool) :
    Gen.SketchSites.sketch_increment_a17 added s_incrementAt_slot2_index2 = (s_incrementAt_slot2_index2 || added) := by pin_tac Gen.SketchSites.sketch_increment_a17

theorem sketch_increment_a18_pin (added : Bool) (s_incrementAt_slot3_index3 : Bool) :
    Gen.SketchSites.sketch_increment_a18 added s_incrementAt_slot3_index3 = (s_incrementAt_slot3_index3 || added) := by pin_tac Gen.SketchSites.sketch_increment_a18

theorem sketch_increment_u0_pin (s_size : BitVec 64) :
    Gen.SketchSites.sketch_increment_u0 s_size = (s_size + (1#64)) := by pin_tac Gen.SketchSites.sketch_increment_u0

theorem sketch_incrementAt_c0_pin (mask : BitVec 64) (s_table_i : BitVec 64) :
    Gen.SketchSites.sketch_incrementAt_c0 mask s_table_i = ((s_table_i &&& mask) != mask) := by pin_tac Gen.SketchSites.sketch_incrementAt_c0

theorem sketch_incrementAt_a0_pin (j : BitVec 64) :
    Gen.SketchSites.sketch_incrementAt_a0 j = (j <<< 2) := by pin_tac Gen.SketchSites.sketch_incrementAt_a0

theorem sketch_incrementAt_a1_pin (offset : BitVec 64) :
    Gen.SketchSites.sketch_incrementAt_a1 offset = ((15#64) <<< offset.toNat) := by pin_tac Gen.SketchSites.sketch_incrementAt_a1

theorem sketch_incrementAt_u0_pin (offset : BitVec 64) (s_table_i : BitVec 64) :
    Gen.SketchSites.sketch_incrementAt_u0 offset s_table_i = (s_table_i + ((1#64) <<< offset.toNat)) := by pin_tac Gen.SketchSites.sketch_incrementAt_u0

theorem sketch_incrementAt_r0_pin :
    Gen.SketchSites.sketch_incrementAt_r0  = true := by pin_tac Gen.SketchSites.sketch_incrementAt_r0

theorem sketch_incrementAt_r1_pin :
    Gen.SketchSites.sketch_incrementAt_r1  = false := by pin_tac Gen.SketchSites.sketch_incrementAt_r1

theorem sketch_reset_c0_pin (i : BitVec 64) (len_s_table : BitVec 64) :
    Gen.SketchSites.sketch_reset_c0 i len_s_table = (BitVec.slt i len_s_table) := by pin_tac Gen.SketchSites.sketch_reset_c0

theorem sketch_reset_x0_pin (s_table_i : BitVec 64) :
    Gen.SketchSites.sketch_reset_x0 s_table_i = (s_table_i &&& (1229782938247303441#64)) := by pin_tac Gen.SketchSites.sketch_reset_x0

theorem sketch_reset_a0_pin :
    Gen.SketchSites.sketch_reset_a0  = (0#64) := by pin_tac Gen.SketchSites.sketch_reset_a0

theorem sketch_reset_a1_pin :
    Gen.SketchSites.sketch_reset_a1  = (0#64) := by pin_tac Gen.SketchSites.sketch_reset_a1

theorem sketch_reset_u0_pin (i : BitVec 64) :
    Gen.SketchSites.sketch_reset_u0 i = (i + (1#64)) := by pin_tac Gen.SketchSites.sketch_reset_u0

theorem sketch_reset_u1_pin (count : BitVec 64) (s_table_i : BitVec 64) :
    Gen.SketchSites.sketch_reset_u1 count s_table_i = (count + (OtterVerif.Bv.onesCount64 (s_table_i &&& (1229782938247303441#64)))) := by pin_tac Gen.SketchSites.sketch_reset_u1

theorem sketch_reset_a2_pin (s_table_i : BitVec 64) :
    Gen.SketchSites.sketch_reset_a2 s_table_i = ((s_table_i >>> 1) &&& (8608480567731124087#64)) := by pin_tac Gen.SketchSites.sketch_reset_a2

theorem sketch_reset_a3_pin (count : BitVec 64) (s_size : BitVec 64) :
    Gen.SketchSites.sketch_reset_a3 count s_size = ((s_size - (count >>> 2)) >>> 1) := by pin_tac Gen.SketchSites.sketch_reset_a3

theorem sketch_hash_r0_pin (s_hasher_Hash_k : BitVec 64) :
    Gen.SketchSites.sketch_hash_r0 s_hasher_Hash_k = (OtterVerif.Gen.SketchMix.spread s_hasher_Hash_k) := by pin_tac Gen.SketchSites.sketch_hash_r0

theorem spread_u0_pin (h : BitVec 64) :
    Gen.SketchSites.spread_u0 h = (h ^^^ (h >>> 17)) := by pin_tac Gen.SketchSites.spread_u0

theorem spread_u1_pin (h : BitVec 64) :
    Gen.SketchSites.spread_u1 h = (h * (3982152891#64)) := by pin_tac Gen.SketchSites.spread_u1

theorem spread_u2_pin (h : BitVec 64) :
    Gen.SketchSites.spread_u2 h = (h ^^^ (h >>> 11)) := by pin_tac Gen.SketchSites.spread_u2

theorem spread_u3_pin (h : BitVec 64) :
    Gen.SketchSites.spread_u3 h = (h * (2890668881#64)) := by pin_tac Gen.SketchSites.spread_u3

theorem spread_u4_pin (h : BitVec 64) :
    Gen.SketchSites.spread_u4 h = (h ^^^ (h >>> 15)) := by pin_tac Gen.SketchSites.spread_u4

theorem spread_r0_pin (h : BitVec 64) :
    Gen.SketchSites.spread_r0 h = h := by pin_tac Gen.SketchSites.spread_r0

theorem rehash_u0_pin (h : BitVec 64) :
    Gen.SketchSites.rehash_u0 h = (h * (830770091#64)) := by pin_tac Gen.SketchSites.rehash_u0

theorem rehash_u1_pin (h : BitVec 64) :
    Gen.SketchSites.rehash_u1 h = (h ^^^ (h >>> 14)) := by pin_tac Gen.SketchSites.rehash_u1

theorem rehash_r0_pin (h : BitVec 64) :
    Gen.SketchSites.rehash_r0 h = h := by pin_tac Gen.SketchSites.rehash_r0

theorem siteParams_pin : Gen.SketchSites.siteParams = [("sketch_ensureCapacity_c0", ["len_s_table", "maximumSize"]),
  ("sketch_ensureCapacity_c1", ["s_isInitialized_Load"]),
  ("sketch_ensureCapacity_c2", ["newSize"]),
  ("sketch_ensureCapacity_c3", ["maximumSize"]),
  ("sketch_ensureCapacity_a0", ["maximumSize"]),
  ("sketch_ensureCapacity_a1", []),
  ("sketch_ensureCapacity_a3", []),
  ("sketch_ensureCapacity_a4", ["maximumSize"]),
  ("sketch_ensureCapacity_a5", ["len_s_table"]),
  ("sketch_ensureCapacity_a6", []),
  ("sketch_isNotInitialized_r0", ["s_isInitialized_Load"]),
  ("sketch_frequency_c0", ["s_isNotInitialized"]),
  ("sketch_frequency_c1", ["i"]),
  ("sketch_frequency_a0", []),
  ("sketch_frequency_a1", ["s_hash_k"]),
  ("sketch_frequency_a2", ["blockHash"]),
  ("sketch_frequency_a3", ["blockHash", "s_blockMask"]),
  ("sketch_frequency_a4", []),
  ("sketch_frequency_u0", ["i"]),
  ("sketch_frequency_a5", ["counterHash", "i"]),
  ("sketch_frequency_a6", ["h"]),
  ("sketch_frequency_a7", ["h"]),
  ("sketch_frequency_a8", ["block", "i", "offset"]),
  ("sketch_frequency_a9", ["index", "s_table_slot"]),
  ("sketch_frequency_a10", ["count", "frequency"]),
  ("sketch_frequency_r0", []),
  ("sketch_frequency_r1", ["frequency"]),
  ("sketch_increment_c0", ["s_isNotInitialized"]),
  ("sketch_increment_c1", ["added"]),
  ("sketch_increment_c2", ["s_sampleSize", "s_size"]),
  ("sketch_increment_a0", ["s_hash_k"]),
  ("sketch_increment_a1", ["blockHash"]),
  ("sketch_increment_a2", ["blockHash", "s_blockMask"]),
  ("sketch_increment_a3", ["counterHash"]),
  ("sketch_increment_a4", ["counterHash"]),
  ("sketch_increment_a5", ["counterHash"]),
  ("sketch_increment_a6", ["counterHash"]),
  ("sketch_increment_a7", ["h0"]),
  ("sketch_increment_a8", ["h1"]),
  ("sketch_increment_a9", ["h2"]),
  ("sketch_increment_a10", ["h3"]),
  ("sketch_increment_a11", ["block", "h0"]),
  ("sketch_increment_a12", ["block", "h1"]),
  ("sketch_increment_a13", ["block", "h2"]),
  ("sketch_increment_a14", ["block", "h3"]),
  ("sketch_increment_a15", ["s_incrementAt_slot0_index0"]),
  ("sketch_increment_a16", ["added", "s_incrementAt_slot1_index1"]),
  ("sketch_increment_a17", ["added", "s_incrementAt_slot2_index2"]),
  ("sketch_increment_a18", ["added", "s_incrementAt_slot3_index3"]),
  ("sketch_increment_u0", ["s_size"]),
  ("sketch_incrementAt_c0", ["mask", "s_table_i"]),
  ("sketch_incrementAt_a0", ["j"]),
  ("sketch_incrementAt_a1", ["offset"]),
  ("sketch_incrementAt_u0", ["offset", "s_table_i"]),
  ("sketch_incrementAt_r0", []),
  ("sketch_incrementAt_r1", []),
  ("sketch_reset_c0", ["i", "len_s_table"]),
  ("sketch_reset_x0", ["s_table_i"]),
  ("sketch_reset_a0", []),
  ("sketch_reset_a1", []),
  ("sketch_reset_u0", ["i"]),
  ("sketch_reset_u1", ["count", "s_table_i"]),
  ("sketch_reset_a2", ["s_table_i"]),
  ("sketch_reset_a3", ["count", "s_size"]),
  ("sketch_hash_r0", ["s_hasher_Hash_k"]),
  ("spread_u0", ["h"]),
  ("spread_u1", ["h"]),
  ("spread_u2", ["h"]),
  ("spread_u3", ["h"]),
  ("spread_u4", ["h"]),
  ("spread_r0", ["h"]),
  ("rehash_u0", ["h"]),
  ("rehash_u1", ["h"]),
  ("rehash_r0", ["h"])] := by rfl

theorem shape_pin : Gen.SketchSites.shape = [("newSketch", [0, 0, 0, 1, 0, 0, 0]),
  ("sketch_ensureCapacity", [4, 0, 8, 0, 0, 0, 0]),
  ("sketch_isNotInitialized", [0, 0, 0, 1, 0, 0, 0]),
  ("sketch_frequency", [2, 1, 11, 2, 0, 0, 0]),
  ("sketch_increment", [3, 1, 19, 0, 0, 0, 0]),
  ("sketch_incrementAt", [1, 1, 2, 2, 0, 0, 0]),
  ("sketch_reset", [1, 2, 4, 0, 0, 1, 0]),
  ("sketch_hash", [0, 0, 0, 1, 0, 0, 0]),
  ("spread", [0, 5, 0, 1, 0, 0, 0]),
  ("rehash", [0, 2, 0, 1, 0, 0, 0])] := by rfl

end OtterVerif.Pin.SketchSites
