/-
  Pin.CacheRead — HAND-OWNED (bootstrapped once by tools/mkpins.py, then reviewed): what every pure computation that
  the translator extracts into Gen.CacheRead is expected to mean.  Re-checked against the regenerated Gen.CacheRead on every
  run; a pin that no longer proves names the Go expression whose meaning changed.
-/
import OtterVerif.Gen.CacheRead

namespace OtterVerif.Pin.CacheRead
open OtterVerif OtterVerif.Gen.CacheRead

/-- `rfl` when the regenerated term is the recorded one; otherwise try to see through a harmless rewrite
    (operand order of commutative operators) -/
local macro "pin_tac" d:ident : tactic =>
  `(tactic| first
    | rfl
    | (simp only [$d:ident]; ac_rfl)
    | (simp [$d:ident, BitVec.add_comm, BitVec.and_comm, BitVec.or_comm, BitVec.xor_comm, BitVec.mul_comm, Bool.and_comm, Bool.or_comm]))

theorem deadlineAfter_c0_pin (duration : BitVec 64) (nowNano : BitVec 64) :
    Gen.CacheRead.deadlineAfter_c0 duration nowNano = (BitVec.slt ((9223372036854775807#64) - duration) nowNano) := by pin_tac Gen.CacheRead.deadlineAfter_c0

theorem deadlineAfter_r0_pin :
    Gen.CacheRead.deadlineAfter_r0  = (9223372036854775807#64) := by pin_tac Gen.CacheRead.deadlineAfter_r0

theorem deadlineAfter_r1_pin (duration : BitVec 64) (nowNano : BitVec 64) :
    Gen.CacheRead.deadlineAfter_r1 duration nowNano = (nowNano + duration) := by pin_tac Gen.CacheRead.deadlineAfter_r1

theorem getCause_c0_pin (n_HasExpired_nowNano : Bool) :
    Gen.CacheRead.getCause_c0 n_HasExpired_nowNano = n_HasExpired_nowNano := by pin_tac Gen.CacheRead.getCause_c0

theorem getCause_r0_pin :
    Gen.CacheRead.getCause_r0  = (4#64) := by pin_tac Gen.CacheRead.getCause_r0

theorem getCause_r1_pin (cause : BitVec 64) :
    Gen.CacheRead.getCause_r1 cause = cause := by pin_tac Gen.CacheRead.getCause_r1

theorem cache_getNode_c0_pin (n__nil : Bool) :
    Gen.CacheRead.cache_getNode_c0 n__nil = n__nil := by pin_tac Gen.CacheRead.cache_getNode_c0

theorem cache_getNode_c1_pin (c_drainStatus_Load : BitVec 32) :
    Gen.CacheRead.cache_getNode_c1 c_drainStatus_Load = (c_drainStatus_Load == (1#32)) := by pin_tac Gen.CacheRead.cache_getNode_c1

theorem cache_getNode_c2_pin (n_HasExpired_nowNano : Bool) :
    Gen.CacheRead.cache_getNode_c2 n_HasExpired_nowNano = n_HasExpired_nowNano := by pin_tac Gen.CacheRead.cache_getNode_c2

theorem cache_getNodeQuietly_c0_pin (n_HasExpired_nowNano : Bool) (n_IsAlive : Bool) (n__nil : Bool) :
    Gen.CacheRead.cache_getNodeQuietly_c0 n_HasExpired_nowNano n_IsAlive n__nil = ((n__nil || (!n_IsAlive)) || n_HasExpired_nowNano) := by pin_tac Gen.CacheRead.cache_getNodeQuietly_c0

theorem cache_has_r0_pin (ok : Bool) :
    Gen.CacheRead.cache_has_r0 ok = ok := by pin_tac Gen.CacheRead.cache_has_r0

theorem cache_calcExpiresAtAfterRead_c0_pin (c_withExpiration : Bool) :
    Gen.CacheRead.cache_calcExpiresAtAfterRead_c0 c_withExpiration = (!c_withExpiration) := by pin_tac Gen.CacheRead.cache_calcExpiresAtAfterRead_c0

theorem cache_calcExpiresAtAfterRead_a0_pin (c_expiryCalculator_ExpireAfterRead_c_nodeToEntry_n_nowNano : BitVec 64) :
    Gen.CacheRead.cache_calcExpiresAtAfterRead_a0 c_expiryCalculator_ExpireAfterRead_c_nodeToEntry_n_nowNano = c_expiryCalculator_ExpireAfterRead_c_nodeToEntry_n_nowNano := by pin_tac Gen.CacheRead.cache_calcExpiresAtAfterRead_a0

theorem cache_setExpiresAfterRead_c0_pin (expiresAfter : BitVec 64) :
    Gen.CacheRead.cache_setExpiresAfterRead_c0 expiresAfter = (BitVec.sle expiresAfter (0#64)) := by pin_tac Gen.CacheRead.cache_setExpiresAfterRead_c0

theorem cache_setExpiresAfterRead_c1_pin (currentDuration : BitVec 64) (expiresAfter : BitVec 64) :
    Gen.CacheRead.cache_setExpiresAfterRead_c1 currentDuration expiresAfter = (expiresAfter != currentDuration) := by pin_tac Gen.CacheRead.cache_setExpiresAfterRead_c1

theorem cache_setExpiresAfterRead_a0_pin (n_ExpiresAt : BitVec 64) :
    Gen.CacheRead.cache_setExpiresAfterRead_a0 n_ExpiresAt = n_ExpiresAt := by pin_tac Gen.CacheRead.cache_setExpiresAfterRead_a0

theorem cache_setExpiresAfterRead_a1_pin (expiresAt : BitVec 64) (nowNano : BitVec 64) :
    Gen.CacheRead.cache_setExpiresAfterRead_a1 expiresAt nowNano = (expiresAt - nowNano) := by pin_tac Gen.CacheRead.cache_setExpiresAfterRead_a1

theorem cache_SetExpiresAfter_c0_pin (c_withExpiration : Bool) (expiresAfter : BitVec 64) :
    Gen.CacheRead.cache_SetExpiresAfter_c0 c_withExpiration expiresAfter = ((!c_withExpiration) || (BitVec.sle expiresAfter (0#64))) := by pin_tac Gen.CacheRead.cache_SetExpiresAfter_c0

theorem cache_SetExpiresAfter_c1_pin (n_HasExpired_nowNano : Bool) (n__nil : Bool) :
    Gen.CacheRead.cache_SetExpiresAfter_c1 n_HasExpired_nowNano n__nil = (n__nil || n_HasExpired_nowNano) := by pin_tac Gen.CacheRead.cache_SetExpiresAfter_c1

theorem cache_SetExpiresAfter_a0_pin (c_clock_NowNano : BitVec 64) :
    Gen.CacheRead.cache_SetExpiresAfter_a0 c_clock_NowNano = c_clock_NowNano := by pin_tac Gen.CacheRead.cache_SetExpiresAfter_a0

theorem cache_SetRefreshableAfter_c0_pin (c_withRefresh : Bool) (refreshableAfter : BitVec 64) :
    Gen.CacheRead.cache_SetRefreshableAfter_c0 c_withRefresh refreshableAfter = ((!c_withRefresh) || (BitVec.sle refreshableAfter (0#64))) := by pin_tac Gen.CacheRead.cache_SetRefreshableAfter_c0

theorem cache_SetRefreshableAfter_c1_pin (n__nil : Bool) :
    Gen.CacheRead.cache_SetRefreshableAfter_c1 n__nil = n__nil := by pin_tac Gen.CacheRead.cache_SetRefreshableAfter_c1

theorem cache_SetRefreshableAfter_c2_pin (currentDuration : BitVec 64) (refreshableAfter : BitVec 64) :
    Gen.CacheRead.cache_SetRefreshableAfter_c2 currentDuration refreshableAfter = ((BitVec.slt (0#64) refreshableAfter) && (currentDuration != refreshableAfter)) := by pin_tac Gen.CacheRead.cache_SetRefreshableAfter_c2

theorem cache_SetRefreshableAfter_a0_pin (c_clock_NowNano : BitVec 64) :
    Gen.CacheRead.cache_SetRefreshableAfter_a0 c_clock_NowNano = c_clock_NowNano := by pin_tac Gen.CacheRead.cache_SetRefreshableAfter_a0

theorem cache_SetRefreshableAfter_a3_pin (entry_RefreshableAfter : BitVec 64) :
    Gen.CacheRead.cache_SetRefreshableAfter_a3 entry_RefreshableAfter = entry_RefreshableAfter := by pin_tac Gen.CacheRead.cache_SetRefreshableAfter_a3

theorem cache_calcExpiresAtAfterWrite_c0_pin (c_withExpiration : Bool) :
    Gen.CacheRead.cache_calcExpiresAtAfterWrite_c0 c_withExpiration = (!c_withExpiration) := by pin_tac Gen.CacheRead.cache_calcExpiresAtAfterWrite_c0

theorem cache_calcExpiresAtAfterWrite_c1_pin (old_HasExpired_nowNano : Bool) (old__nil : Bool) :
    Gen.CacheRead.cache_calcExpiresAtAfterWrite_c1 old_HasExpired_nowNano old__nil = (old__nil || old_HasExpired_nowNano) := by pin_tac Gen.CacheRead.cache_calcExpiresAtAfterWrite_c1

theorem cache_calcExpiresAtAfterWrite_c2_pin (currentDuration : BitVec 64) (expiresAfter : BitVec 64) :
    Gen.CacheRead.cache_calcExpiresAtAfterWrite_c2 currentDuration expiresAfter = ((BitVec.slt (0#64) expiresAfter) && (currentDuration != expiresAfter)) := by pin_tac Gen.CacheRead.cache_calcExpiresAtAfterWrite_c2

theorem cache_calcExpiresAtAfterWrite_a1_pin (entry_ExpiresAfter : BitVec 64) :
    Gen.CacheRead.cache_calcExpiresAtAfterWrite_a1 entry_ExpiresAfter = entry_ExpiresAfter := by pin_tac Gen.CacheRead.cache_calcExpiresAtAfterWrite_a1

theorem cache_calcExpiresAtAfterWrite_a2_pin (c_expiryCalculator_ExpireAfterCreate_entry : BitVec 64) :
    Gen.CacheRead.cache_calcExpiresAtAfterWrite_a2 c_expiryCalculator_ExpireAfterCreate_entry = c_expiryCalculator_ExpireAfterCreate_entry := by pin_tac Gen.CacheRead.cache_calcExpiresAtAfterWrite_a2

theorem cache_calcExpiresAtAfterWrite_a3_pin (c_expiryCalculator_ExpireAfterUpdate_entry_old_Value : BitVec 64) :
    Gen.CacheRead.cache_calcExpiresAtAfterWrite_a3 c_expiryCalculator_ExpireAfterUpdate_entry_old_Value = c_expiryCalculator_ExpireAfterUpdate_entry_old_Value := by pin_tac Gen.CacheRead.cache_calcExpiresAtAfterWrite_a3

theorem cache_calcRefreshableAt_c0_pin (c_withRefresh : Bool) :
    Gen.CacheRead.cache_calcRefreshableAt_c0 c_withRefresh = (!c_withRefresh) := by pin_tac Gen.CacheRead.cache_calcRefreshableAt_c0

theorem cache_calcRefreshableAt_c1_pin (cl_isRefresh : Bool) (clnot_nil : Bool) (oldnot_nil : Bool) :
    Gen.CacheRead.cache_calcRefreshableAt_c1 cl_isRefresh clnot_nil oldnot_nil = ((clnot_nil && cl_isRefresh) && oldnot_nil) := by pin_tac Gen.CacheRead.cache_calcRefreshableAt_c1

theorem cache_calcRefreshableAt_c2_pin (cl_isNotFound : Bool) :
    Gen.CacheRead.cache_calcRefreshableAt_c2 cl_isNotFound = cl_isNotFound := by pin_tac Gen.CacheRead.cache_calcRefreshableAt_c2

theorem cache_calcRefreshableAt_c3_pin (cl_errnot_nil : Bool) :
    Gen.CacheRead.cache_calcRefreshableAt_c3 cl_errnot_nil = cl_errnot_nil := by pin_tac Gen.CacheRead.cache_calcRefreshableAt_c3

theorem cache_calcRefreshableAt_c4_pin (oldnot_nil : Bool) :
    Gen.CacheRead.cache_calcRefreshableAt_c4 oldnot_nil = oldnot_nil := by pin_tac Gen.CacheRead.cache_calcRefreshableAt_c4

theorem cache_calcRefreshableAt_c5_pin (currentDuration : BitVec 64) (refreshableAfter : BitVec 64) :
    Gen.CacheRead.cache_calcRefreshableAt_c5 currentDuration refreshableAfter = ((BitVec.slt (0#64) refreshableAfter) && (currentDuration != refreshableAfter)) := by pin_tac Gen.CacheRead.cache_calcRefreshableAt_c5

theorem cache_calcRefreshableAt_a1_pin (entry_RefreshableAfter : BitVec 64) :
    Gen.CacheRead.cache_calcRefreshableAt_a1 entry_RefreshableAfter = entry_RefreshableAfter := by pin_tac Gen.CacheRead.cache_calcRefreshableAt_a1

theorem cache_calcRefreshableAt_a2_pin (c_refreshCalculator_RefreshAfterReloadFailure_entry_cl_err : BitVec 64) :
    Gen.CacheRead.cache_calcRefreshableAt_a2 c_refreshCalculator_RefreshAfterReloadFailure_entry_cl_err = c_refreshCalculator_RefreshAfterReloadFailure_entry_cl_err := by pin_tac Gen.CacheRead.cache_calcRefreshableAt_a2

theorem cache_calcRefreshableAt_a3_pin (c_refreshCalculator_RefreshAfterReload_entry_old_Value : BitVec 64) :
    Gen.CacheRead.cache_calcRefreshableAt_a3 c_refreshCalculator_RefreshAfterReload_entry_old_Value = c_refreshCalculator_RefreshAfterReload_entry_old_Value := by pin_tac Gen.CacheRead.cache_calcRefreshableAt_a3

theorem cache_calcRefreshableAt_a4_pin (c_refreshCalculator_RefreshAfterUpdate_entry_old_Value : BitVec 64) :
    Gen.CacheRead.cache_calcRefreshableAt_a4 c_refreshCalculator_RefreshAfterUpdate_entry_old_Value = c_refreshCalculator_RefreshAfterUpdate_entry_old_Value := by pin_tac Gen.CacheRead.cache_calcRefreshableAt_a4

theorem cache_calcRefreshableAt_a5_pin (c_refreshCalculator_RefreshAfterCreate_entry : BitVec 64) :
    Gen.CacheRead.cache_calcRefreshableAt_a5 c_refreshCalculator_RefreshAfterCreate_entry = c_refreshCalculator_RefreshAfterCreate_entry := by pin_tac Gen.CacheRead.cache_calcRefreshableAt_a5

theorem cache_isStale_r0_pin (c_withRefresh : Bool) (n_IsAlive : Bool) (n_RefreshableAt : BitVec 64) (nowNano : BitVec 64) :
    Gen.CacheRead.cache_isStale_r0 c_withRefresh n_IsAlive n_RefreshableAt nowNano = ((c_withRefresh && (BitVec.sle n_RefreshableAt nowNano)) && n_IsAlive) := by pin_tac Gen.CacheRead.cache_isStale_r0

theorem cache_nodeToEntry_c0_pin (c_withTime : Bool) :
    Gen.CacheRead.cache_nodeToEntry_c0 c_withTime = c_withTime := by pin_tac Gen.CacheRead.cache_nodeToEntry_c0

theorem cache_nodeToEntry_c1_pin (c_withExpiration : Bool) :
    Gen.CacheRead.cache_nodeToEntry_c1 c_withExpiration = c_withExpiration := by pin_tac Gen.CacheRead.cache_nodeToEntry_c1

theorem cache_nodeToEntry_c2_pin (c_withRefresh : Bool) :
    Gen.CacheRead.cache_nodeToEntry_c2 c_withRefresh = c_withRefresh := by pin_tac Gen.CacheRead.cache_nodeToEntry_c2

theorem cache_nodeToEntry_a0_pin :
    Gen.CacheRead.cache_nodeToEntry_a0  = (0#64) := by pin_tac Gen.CacheRead.cache_nodeToEntry_a0

theorem cache_nodeToEntry_a1_pin (nanos : BitVec 64) :
    Gen.CacheRead.cache_nodeToEntry_a1 nanos = nanos := by pin_tac Gen.CacheRead.cache_nodeToEntry_a1

theorem cache_nodeToEntry_a2_pin :
    Gen.CacheRead.cache_nodeToEntry_a2  = (9223372036854775807#64) := by pin_tac Gen.CacheRead.cache_nodeToEntry_a2

theorem cache_nodeToEntry_a3_pin (n_ExpiresAt : BitVec 64) :
    Gen.CacheRead.cache_nodeToEntry_a3 n_ExpiresAt = n_ExpiresAt := by pin_tac Gen.CacheRead.cache_nodeToEntry_a3

theorem cache_nodeToEntry_a4_pin :
    Gen.CacheRead.cache_nodeToEntry_a4  = (9223372036854775807#64) := by pin_tac Gen.CacheRead.cache_nodeToEntry_a4

theorem cache_nodeToEntry_a5_pin (n_RefreshableAt : BitVec 64) :
    Gen.CacheRead.cache_nodeToEntry_a5 n_RefreshableAt = n_RefreshableAt := by pin_tac Gen.CacheRead.cache_nodeToEntry_a5

theorem cache_newNode_c0_pin (c_withExpiration : Bool) (oldnot_nil : Bool) :
    Gen.CacheRead.cache_newNode_c0 c_withExpiration oldnot_nil = (c_withExpiration && oldnot_nil) := by pin_tac Gen.CacheRead.cache_newNode_c0

theorem cache_newNode_c1_pin (c_withRefresh : Bool) (oldnot_nil : Bool) :
    Gen.CacheRead.cache_newNode_c1 c_withRefresh oldnot_nil = (c_withRefresh && oldnot_nil) := by pin_tac Gen.CacheRead.cache_newNode_c1

theorem cache_newNode_a0_pin (c_weigher_key_value : BitVec 32) :
    Gen.CacheRead.cache_newNode_a0 c_weigher_key_value = c_weigher_key_value := by pin_tac Gen.CacheRead.cache_newNode_a0

theorem cache_newNode_a1_pin :
    Gen.CacheRead.cache_newNode_a1  = (9223372036854775807#64) := by pin_tac Gen.CacheRead.cache_newNode_a1

theorem cache_newNode_a2_pin (old_ExpiresAt : BitVec 64) :
    Gen.CacheRead.cache_newNode_a2 old_ExpiresAt = old_ExpiresAt := by pin_tac Gen.CacheRead.cache_newNode_a2

theorem cache_newNode_a3_pin :
    Gen.CacheRead.cache_newNode_a3  = (9223372036854775807#64) := by pin_tac Gen.CacheRead.cache_newNode_a3

theorem cache_newNode_a4_pin (old_RefreshableAt : BitVec 64) :
    Gen.CacheRead.cache_newNode_a4 old_RefreshableAt = old_RefreshableAt := by pin_tac Gen.CacheRead.cache_newNode_a4

theorem cache_GetIfPresent_c0_pin (n__nil : Bool) :
    Gen.CacheRead.cache_GetIfPresent_c0 n__nil = n__nil := by pin_tac Gen.CacheRead.cache_GetIfPresent_c0

theorem cache_GetIfPresent_a0_pin (c_clock_NowNano : BitVec 64) :
    Gen.CacheRead.cache_GetIfPresent_a0 c_clock_NowNano = c_clock_NowNano := by pin_tac Gen.CacheRead.cache_GetIfPresent_a0

theorem cache_GetEntry_c0_pin (n__nil : Bool) :
    Gen.CacheRead.cache_GetEntry_c0 n__nil = n__nil := by pin_tac Gen.CacheRead.cache_GetEntry_c0

theorem cache_GetEntry_a0_pin (c_clock_NowNano : BitVec 64) :
    Gen.CacheRead.cache_GetEntry_a0 c_clock_NowNano = c_clock_NowNano := by pin_tac Gen.CacheRead.cache_GetEntry_a0

theorem cache_GetEntryQuietly_c0_pin (n__nil : Bool) :
    Gen.CacheRead.cache_GetEntryQuietly_c0 n__nil = n__nil := by pin_tac Gen.CacheRead.cache_GetEntryQuietly_c0

theorem cache_GetEntryQuietly_a0_pin (c_clock_NowNano : BitVec 64) :
    Gen.CacheRead.cache_GetEntryQuietly_a0 c_clock_NowNano = c_clock_NowNano := by pin_tac Gen.CacheRead.cache_GetEntryQuietly_a0

theorem cache_nodes_c0_pin (n_HasExpired_nowNano : Bool) (n_IsAlive : Bool) :
    Gen.CacheRead.cache_nodes_c0 n_HasExpired_nowNano n_IsAlive = ((!n_IsAlive) || n_HasExpired_nowNano) := by pin_tac Gen.CacheRead.cache_nodes_c0

theorem cache_nodes_a0_pin (c_clock_NowNano : BitVec 64) :
    Gen.CacheRead.cache_nodes_a0 c_clock_NowNano = c_clock_NowNano := by pin_tac Gen.CacheRead.cache_nodes_a0

theorem cache_entries_c0_pin (yield_c_nodeToEntry_n_c_clock_NowNano : Bool) :
    Gen.CacheRead.cache_entries_c0 yield_c_nodeToEntry_n_c_clock_NowNano = (!yield_c_nodeToEntry_n_c_clock_NowNano) := by pin_tac Gen.CacheRead.cache_entries_c0

theorem cache_All_c0_pin (yield_n_Key___n_Value : Bool) :
    Gen.CacheRead.cache_All_c0 yield_n_Key___n_Value = (!yield_n_Key___n_Value) := by pin_tac Gen.CacheRead.cache_All_c0

theorem cache_Keys_c0_pin (yield_n_Key : Bool) :
    Gen.CacheRead.cache_Keys_c0 yield_n_Key = (!yield_n_Key) := by pin_tac Gen.CacheRead.cache_Keys_c0

theorem cache_Values_c0_pin (yield_n_Value : Bool) :
    Gen.CacheRead.cache_Values_c0 yield_n_Value = (!yield_n_Value) := by pin_tac Gen.CacheRead.cache_Values_c0

theorem cache_evictionOrder_c0_pin (c_withEviction : Bool) :
    Gen.CacheRead.cache_evictionOrder_c0 c_withEviction = (!c_withEviction) := by pin_tac Gen.CacheRead.cache_evictionOrder_c0

theorem cache_evictionOrder_c1_pin (hottest : Bool) :
    Gen.CacheRead.cache_evictionOrder_c1 hottest = hottest := by pin_tac Gen.CacheRead.cache_evictionOrder_c1

theorem cache_evictionOrder_c2_pin (n_HasExpired_nowNano : Bool) (n_IsAlive : Bool) :
    Gen.CacheRead.cache_evictionOrder_c2 n_HasExpired_nowNano n_IsAlive = ((!n_IsAlive) || n_HasExpired_nowNano) := by pin_tac Gen.CacheRead.cache_evictionOrder_c2

theorem cache_evictionOrder_c3_pin (yield_c_nodeToEntry_n_nowNano : Bool) :
    Gen.CacheRead.cache_evictionOrder_c3 yield_c_nodeToEntry_n_nowNano = (!yield_c_nodeToEntry_n_nowNano) := by pin_tac Gen.CacheRead.cache_evictionOrder_c3

theorem cache_evictionOrder_a5_pin (c_clock_NowNano : BitVec 64) :
    Gen.CacheRead.cache_evictionOrder_a5 c_clock_NowNano = c_clock_NowNano := by pin_tac Gen.CacheRead.cache_evictionOrder_a5

theorem siteParams_pin : Gen.CacheRead.siteParams = [("deadlineAfter_c0", ["duration", "nowNano"]),
  ("deadlineAfter_r0", []),
  ("deadlineAfter_r1", ["duration", "nowNano"]),
  ("getCause_c0", ["n_HasExpired_nowNano"]),
  ("getCause_r0", []),
  ("getCause_r1", ["cause"]),
  ("cache_getNode_c0", ["n__nil"]),
  ("cache_getNode_c1", ["c_drainStatus_Load"]),
  ("cache_getNode_c2", ["n_HasExpired_nowNano"]),
  ("cache_getNodeQuietly_c0", ["n_HasExpired_nowNano", "n_IsAlive", "n__nil"]),
  ("cache_has_r0", ["ok"]),
  ("cache_calcExpiresAtAfterRead_c0", ["c_withExpiration"]),
  ("cache_calcExpiresAtAfterRead_a0", ["c_expiryCalculator_ExpireAfterRead_c_nodeToEntry_n_nowNano"]),
  ("cache_setExpiresAfterRead_c0", ["expiresAfter"]),
  ("cache_setExpiresAfterRead_c1", ["currentDuration", "expiresAfter"]),
  ("cache_setExpiresAfterRead_a0", ["n_ExpiresAt"]),
  ("cache_setExpiresAfterRead_a1", ["expiresAt", "nowNano"]),
  ("cache_SetExpiresAfter_c0", ["c_withExpiration", "expiresAfter"]),
  ("cache_SetExpiresAfter_c1", ["n_HasExpired_nowNano", "n__nil"]),
  ("cache_SetExpiresAfter_a0", ["c_clock_NowNano"]),
  ("cache_SetRefreshableAfter_c0", ["c_withRefresh", "refreshableAfter"]),
  ("cache_SetRefreshableAfter_c1", ["n__nil"]),
  ("cache_SetRefreshableAfter_c2", ["currentDuration", "refreshableAfter"]),
  ("cache_SetRefreshableAfter_a0", ["c_clock_NowNano"]),
  ("cache_SetRefreshableAfter_a3", ["entry_RefreshableAfter"]),
  ("cache_calcExpiresAtAfterWrite_c0", ["c_withExpiration"]),
  ("cache_calcExpiresAtAfterWrite_c1", ["old_HasExpired_nowNano", "old__nil"]),
  ("cache_calcExpiresAtAfterWrite_c2", ["currentDuration", "expiresAfter"]),
  ("cache_calcExpiresAtAfterWrite_a1", ["entry_ExpiresAfter"]),
  ("cache_calcExpiresAtAfterWrite_a2", ["c_expiryCalculator_ExpireAfterCreate_entry"]),
  ("cache_calcExpiresAtAfterWrite_a3", ["c_expiryCalculator_ExpireAfterUpdate_entry_old_Value"]),
  ("cache_calcRefreshableAt_c0", ["c_withRefresh"]),
  ("cache_calcRefreshableAt_c1", ["cl_isRefresh", "clnot_nil", "oldnot_nil"]),
  ("cache_calcRefreshableAt_c2", ["cl_isNotFound"]),
  ("cache_calcRefreshableAt_c3", ["cl_errnot_nil"]),
  ("cache_calcRefreshableAt_c4", ["oldnot_nil"]),
  ("cache_calcRefreshableAt_c5", ["currentDuration", "refreshableAfter"]),
  ("cache_calcRefreshableAt_a1", ["entry_RefreshableAfter"]),
  ("cache_calcRefreshableAt_a2", ["c_refreshCalculator_RefreshAfterReloadFailure_entry_cl_err"]),
  ("cache_calcRefreshableAt_a3", ["c_refreshCalculator_RefreshAfterReload_entry_old_Value"]),
  ("cache_calcRefreshableAt_a4", ["c_refreshCalculator_RefreshAfterUpdate_entry_old_Value"]),
  ("cache_calcRefreshableAt_a5", ["c_refreshCalculator_RefreshAfterCreate_entry"]),
  ("cache_isStale_r0", ["c_withRefresh", "n_IsAlive", "n_RefreshableAt", "nowNano"]),
  ("cache_nodeToEntry_c0", ["c_withTime"]),
  ("cache_nodeToEntry_c1", ["c_withExpiration"]),
  ("cache_nodeToEntry_c2", ["c_withRefresh"]),
  ("cache_nodeToEntry_a0", []),
  ("cache_nodeToEntry_a1", ["nanos"]),
  ("cache_nodeToEntry_a2", []),
  ("cache_nodeToEntry_a3", ["n_ExpiresAt"]),
  ("cache_nodeToEntry_a4", []),
  ("cache_nodeToEntry_a5", ["n_RefreshableAt"]),
  ("cache_newNode_c0", ["c_withExpiration", "oldnot_nil"]),
  ("cache_newNode_c1", ["c_withRefresh", "oldnot_nil"]),
  ("cache_newNode_a0", ["c_weigher_key_value"]),
  ("cache_newNode_a1", []),
  ("cache_newNode_a2", ["old_ExpiresAt"]),
  ("cache_newNode_a3", []),
  ("cache_newNode_a4", ["old_RefreshableAt"]),
  ("cache_GetIfPresent_c0", ["n__nil"]),
  ("cache_GetIfPresent_a0", ["c_clock_NowNano"]),
  ("cache_GetEntry_c0", ["n__nil"]),
  ("cache_GetEntry_a0", ["c_clock_NowNano"]),
  ("cache_GetEntryQuietly_c0", ["n__nil"]),
  ("cache_GetEntryQuietly_a0", ["c_clock_NowNano"]),
  ("cache_nodes_c0", ["n_HasExpired_nowNano", "n_IsAlive"]),
  ("cache_nodes_a0", ["c_clock_NowNano"]),
  ("cache_entries_c0", ["yield_c_nodeToEntry_n_c_clock_NowNano"]),
  ("cache_All_c0", ["yield_n_Key___n_Value"]),
  ("cache_Keys_c0", ["yield_n_Key"]),
  ("cache_Values_c0", ["yield_n_Value"]),
  ("cache_evictionOrder_c0", ["c_withEviction"]),
  ("cache_evictionOrder_c1", ["hottest"]),
  ("cache_evictionOrder_c2", ["n_HasExpired_nowNano", "n_IsAlive"]),
  ("cache_evictionOrder_c3", ["yield_c_nodeToEntry_n_nowNano"]),
  ("cache_evictionOrder_a5", ["c_clock_NowNano"])] := by rfl

theorem shape_pin : Gen.CacheRead.shape = [("deadlineAfter", [1, 0, 0, 2, 0, 0, 0]),
  ("getCause", [1, 0, 0, 2, 0, 0, 0]),
  ("cache_getNode", [3, 0, 1, 3, 0, 0, 0]),
  ("cache_getNodeQuietly", [1, 0, 1, 2, 0, 0, 0]),
  ("cache_has", [0, 0, 0, 1, 0, 0, 0]),
  ("cache_calcExpiresAtAfterRead", [1, 0, 1, 0, 0, 0, 0]),
  ("cache_setExpiresAfterRead", [2, 0, 2, 0, 0, 0, 0]),
  ("cache_SetExpiresAfter", [2, 0, 2, 0, 0, 0, 0]),
  ("cache_SetRefreshableAfter", [3, 0, 4, 0, 0, 0, 0]),
  ("cache_calcExpiresAtAfterWrite", [3, 0, 4, 0, 0, 0, 0]),
  ("cache_calcRefreshableAt", [6, 0, 6, 0, 0, 0, 0]),
  ("cache_isStale", [0, 0, 0, 1, 0, 0, 0]),
  ("cache_nodeToEntry", [3, 0, 6, 1, 0, 0, 0]),
  ("cache_newNode", [2, 0, 5, 1, 0, 0, 0]),
  ("cache_GetIfPresent", [1, 0, 2, 0, 0, 0, 0]),
  ("cache_GetEntry", [1, 0, 2, 0, 0, 0, 0]),
  ("cache_GetEntryQuietly", [1, 0, 2, 0, 0, 0, 0]),
  ("cache_nodes", [1, 0, 1, 1, 0, 0, 0]),
  ("cache_entries", [1, 0, 0, 1, 0, 0, 0]),
  ("cache_All", [1, 0, 0, 1, 0, 0, 0]),
  ("cache_Keys", [1, 0, 0, 1, 0, 0, 0]),
  ("cache_Values", [1, 0, 0, 1, 0, 0, 0]),
  ("cache_evictionOrder", [4, 0, 6, 2, 1, 0, 0]),
  ("cache_Hottest", [0, 0, 0, 1, 0, 0, 0]),
  ("cache_Coldest", [0, 0, 0, 1, 0, 0, 0])] := by rfl

end OtterVerif.Pin.CacheRead
