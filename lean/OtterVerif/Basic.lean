/-
  Basic helpers shared by generated and hand-written modules (core Lean only).
-/
namespace OtterVerif.Bv

def umin {w : Nat} (a b : BitVec w) : BitVec w := if BitVec.ult b a then b else a
def umax {w : Nat} (a b : BitVec w) : BitVec w := if BitVec.ult a b then b else a
def smin {w : Nat} (a b : BitVec w) : BitVec w := if BitVec.slt b a then b else a
def smax {w : Nat} (a b : BitVec w) : BitVec w := if BitVec.slt a b then b else a

/-- number of trailing zero bits of a 64-bit word (64 for 0), as Go's bits.TrailingZeros64 -/
def trailingZeros64 (x : BitVec 64) : BitVec 64 :=
  let rec go (i fuel : Nat) : Nat :=
    match fuel with
    | 0 => i
    | fuel + 1 => if x.getLsbD i then i else go (i + 1) fuel
  BitVec.ofNat 64 (go 0 64)

/-- population count of a 64-bit word, as Go's bits.OnesCount64 -/
def onesCount64 (x : BitVec 64) : BitVec 64 :=
  BitVec.ofNat 64 ((List.range 64).foldl (fun acc i => if x.getLsbD i then acc + 1 else acc) 0)

/-- element of a package-level table of 64-bit integers (Go panics out of range; 0 here, and the theorems stay in range) -/
def tbl (l : List (BitVec 64)) (i : BitVec 64) : BitVec 64 := l.getD i.toNat 0#64
def tblLen (l : List (BitVec 64)) : BitVec 64 := BitVec.ofNat 64 l.length

end OtterVerif.Bv

namespace OtterVerif

/-- two's-complement wrap of a mathematical integer into the signed w-bit range (w ∈ {8,16,32,64}) -/
def wrapS (w : Nat) (x : Int) : Int := (x + 2 ^ (w - 1)) % 2 ^ w - 2 ^ (w - 1)
/-- wrap into the unsigned w-bit range -/
def wrapU (w : Nat) (x : Int) : Int := x % 2 ^ w

/-- int64 bounds -/
def maxI64 : Int := 9223372036854775807
def minI64 : Int := -9223372036854775808

/-- saturating addition on mathematical integers clipped to int64 (the specification of a deadline) -/
def satAdd (a b : Int) : Int := if a + b > maxI64 then maxI64 else a + b

end OtterVerif
