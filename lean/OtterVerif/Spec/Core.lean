/-
  Spec.Core — the abstract "map with deadlines" (DESIGN.md §5.1, Appendix D).

  Written from the property texts, not from the code.  Every operation of the cache is a
  small total function on `State`.  Automatic removals (size eviction, expiration sweep)
  are *inputs*: `evict` accepts one only if it is justified (C07).

  Core Lean only (this module is linked into the `otterdrv` executable).
-/
import OtterVerif.Basic

namespace OtterVerif.Spec

inductive Cause where
  | invalidation | replacement | overflow | expiration
  deriving DecidableEq, Repr, Inhabited

def Cause.toString : Cause → String
  | .invalidation => "Invalidation" | .replacement => "Replacement"
  | .overflow => "Overflow" | .expiration => "Expiration"

def Cause.ofString? : String → Option Cause
  | "Invalidation" => some .invalidation | "Replacement" => some .replacement
  | "Overflow" => some .overflow | "Expiration" => some .expiration
  | _ => none

structure Event where
  key : Nat
  val : Nat
  cause : Cause
  deriving DecidableEq, Repr, Inhabited

structure Entry where
  val : Nat
  weight : Nat
  exp : Int      -- expiration deadline (maxI64 = never)
  ref : Int      -- refresh deadline (maxI64 = never)
  deriving DecidableEq, Repr, Inhabited

inductive Bound where
  | none | size (n : Nat) | weight (n : Nat)
  deriving DecidableEq, Repr, Inhabited

/-- kinds of expiry / refresh calculators; `custom` uses the per-key tables of `Cfg` -/
inductive Kind where
  | none | creating (d : Int) | writing (d : Int) | accessing (d : Int) | custom
  deriving DecidableEq, Repr, Inhabited

/-- a per-key duration table with a default; duration 0 means "keep the current deadline" -/
structure Tbl where
  dflt : Int := 0
  ents : List (Nat × Int) := []
  deriving Repr, Inhabited

def Tbl.get (t : Tbl) (k : Nat) : Int :=
  match t.ents.find? (fun p => p.1 == k) with
  | some p => p.2
  | none => t.dflt

structure Cfg where
  bound : Bound := .none
  expiry : Kind := .none
  refresh : Kind := .none
  expCreate : Tbl := {}
  expUpdate : Tbl := {}
  expRead : Tbl := {}
  refCreate : Tbl := {}
  refUpdate : Tbl := {}
  refReload : Tbl := {}
  refFail : Tbl := {}
  /-- weigher table: weight = wt[(k + v) % wt.length] (weight-bounded caches only) -/
  wt : List Nat := [1]
  deriving Repr, Inhabited

def Cfg.withExpiry (c : Cfg) : Bool := c.expiry != .none
def Cfg.withRefresh (c : Cfg) : Bool := c.refresh != .none
def Cfg.withTime (c : Cfg) : Bool := c.withExpiry || c.withRefresh
def Cfg.bounded (c : Cfg) : Bool := c.bound != .none
def Cfg.weighted (c : Cfg) : Bool := match c.bound with | .weight _ => true | _ => false

def Cfg.weigh (c : Cfg) (k v : Nat) : Nat :=
  if c.weighted then c.wt.getD ((k + v) % c.wt.length) 1 else 1

structure Stats where
  hits : Nat := 0
  misses : Nat := 0
  loadOk : Nat := 0
  loadFail : Nat := 0
  evictions : Nat := 0
  evictionWeight : Nat := 0
  /-- removals of an already expired entry by an operation's own write/removal: the cache may equally have
      swept it an instant earlier (then it counts as an eviction).  C20 allows both, so the oracle accepts
      `evictions ≤ reported ≤ evictions + evictionsSlack` (likewise for the weight). -/
  evictionsSlack : Nat := 0
  evictionWeightSlack : Nat := 0
  deriving DecidableEq, Repr, Inhabited

structure State where
  now : Int := 0
  /-- physically present entries, at most one per key (an expired entry stays here until a
      deletion event reports its removal) -/
  m : List (Nat × Entry) := []
  /-- current maximum (none = unbounded) -/
  maximum : Option Nat := none
  /-- registered in-flight loads: key ↦ call id -/
  inflight : List (Nat × Nat) := []
  stats : Stats := {}
  deriving DecidableEq, Repr, Inhabited

/-! ### Map helpers -/

def find (m : List (Nat × Entry)) (k : Nat) : Option Entry :=
  (m.find? (fun p => p.1 == k)).map (·.2)

def erase (m : List (Nat × Entry)) (k : Nat) : List (Nat × Entry) :=
  m.filter (fun p => p.1 != k)

def put (m : List (Nat × Entry)) (k : Nat) (e : Entry) : List (Nat × Entry) :=
  (k, e) :: erase m k

def State.phys (s : State) (k : Nat) : Option Entry := find s.m k

/-- an entry is observable exactly while the clock is before its expiration deadline -/
def Entry.liveAt (e : Entry) (now : Int) : Bool := now < e.exp

/-- the logically present entry of `k` -/
def State.live (s : State) (k : Nat) : Option Entry :=
  (s.phys k).filter (fun e => e.liveAt s.now)

def State.totalWeight (s : State) : Nat := (s.m.map (fun p => p.2.weight)).foldl (· + ·) 0

def State.inflightOf (s : State) (k : Nat) : Option Nat :=
  (s.inflight.find? (fun p => p.1 == k)).map (·.2)

def State.clearInflight (s : State) (k : Nat) : State :=
  { s with inflight := s.inflight.filter (fun p => p.1 != k) }

/-! ### Deadlines -/

/-- the cause reported for a value that leaves the map at time `now`: `Expiration` iff its
    deadline has passed, else what happened -/
def causeOf (e : Entry) (now : Int) (c : Cause) : Cause :=
  if e.liveAt now then c else .expiration

inductive WriteKind where
  | normal     -- Set / Compute / load of an absent key
  | reload     -- successful reload of a present key
  deriving DecidableEq, Repr

/-- expiration deadline of a value written at `now` over the live predecessor `pred` -/
def expAfterWrite (c : Cfg) (now : Int) (k : Nat) (pred : Option Entry) : Int :=
  match c.expiry, pred with
  | .none, _ => maxI64
  | .creating d, none => satAdd now d
  | .creating _, some o => o.exp
  | .writing d, _ => satAdd now d
  | .accessing d, _ => satAdd now d
  | .custom, none => let d := c.expCreate.get k; if d > 0 then satAdd now d else maxI64   -- no positive duration: no deadline
  | .custom, some o => let d := c.expUpdate.get k; if d > 0 then satAdd now d else o.exp

/-- refresh deadline of a value written at `now` over the live predecessor `pred` -/
def refAfterWrite (c : Cfg) (now : Int) (k : Nat) (pred : Option Entry) (wk : WriteKind) : Int :=
  match c.refresh, pred with
  | .none, _ => maxI64
  | .accessing d, none => satAdd now d          -- (not constructible for refresh; treated as writing)
  | .accessing d, some _ => satAdd now d
  | .creating d, none => satAdd now d
  | .creating _, some o => o.ref
  | .writing d, _ => satAdd now d
  | .custom, none => let d := c.refCreate.get k; if d > 0 then satAdd now d else maxI64
  | .custom, some o =>
      let d := if wk == .reload then c.refReload.get k else c.refUpdate.get k
      if d > 0 then satAdd now d else o.ref

/-- expiration deadline after a read at `now` -/
def expAfterRead (c : Cfg) (now : Int) (k : Nat) (e : Entry) : Int :=
  match c.expiry with
  | .accessing d => satAdd now d
  | .custom => let d := c.expRead.get k; if d > 0 then satAdd now d else e.exp
  | _ => e.exp

/-! ### Primitive state changes -/

/-- install value `v` for `k` (the write rule).  Returns the new state and the deletion event
    for the physically present predecessor, if any. -/
def write (c : Cfg) (s : State) (k v : Nat) (wk : WriteKind := .normal) : State × List Event :=
  let pred := s.live k
  let e : Entry := { val := v, weight := c.weigh k v,
                     exp := expAfterWrite c s.now k pred,
                     ref := refAfterWrite c s.now k pred wk }
  let evs := match s.phys k with
    | some o => [{ key := k, val := o.val, cause := causeOf o s.now .replacement : Event }]
    | none => []
  ({ s with m := put s.m k e }, evs)

/-- remove the physically present entry of `k` with cause `c` (Expiration if already dead) -/
def remove (s : State) (k : Nat) (c : Cause) : State × List Event :=
  match s.phys k with
  | some o => ({ s with m := erase s.m k }, [{ key := k, val := o.val, cause := causeOf o s.now c }])
  | none => (s, [])

/-- a read of the live entry `e` of `k`: access-reset expiry policies move the deadline -/
def touch (c : Cfg) (s : State) (k : Nat) (e : Entry) : State :=
  { s with m := put s.m k { e with exp := expAfterRead c s.now k e } }

def hit (s : State) : State := { s with stats := { s.stats with hits := s.stats.hits + 1 } }
def miss (s : State) : State := { s with stats := { s.stats with misses := s.stats.misses + 1 } }

/-- the counted lookup at the start of GetIfPresent / GetEntry / Get / BulkGet / ComputeIf* -/
def lookup (c : Cfg) (s : State) (k : Nat) : State × Option Entry :=
  match s.live k with
  | some e =>
      let s' := touch c (hit s) k e
      (s', s'.phys k)
  | none => (miss s, none)

/-! ### Automatic removals (inputs, accepted only if justified) — C07 -/

/-- is the automatic removal of the physically present entry `e`, reported with `ev.cause`, justified? -/
def evictOk (cfg : Cfg) (s : State) (ev : Event) (e : Entry) : Bool :=
  match ev.cause with
  | .expiration => !e.liveAt s.now                    -- only an entry whose deadline has passed
  | .overflow =>
      match s.maximum with
      | none => false                                 -- an unbounded cache never reports Overflow
      | some mx =>
        cfg.bounded
        && e.liveAt s.now                             -- an already expired entry must be reported as Expiration
        && e.weight != 0                              -- zero-weight entries are pinned
        && (decide (s.totalWeight > mx) || decide (e.weight > mx))
  | _ => false

/-- the state after the removal: entry gone, its in-flight load cancelled, eviction counted -/
def evictApply (s : State) (ev : Event) (e : Entry) : State :=
  ({ s with m := erase s.m ev.key,
            stats := { s.stats with evictions := s.stats.evictions + 1,
                                    evictionWeight := s.stats.evictionWeight + e.weight } }).clearInflight ev.key

/-- accept an automatic removal of `(k, v)` reported by the cache with cause `c` -/
def evict (cfg : Cfg) (s : State) (ev : Event) : Option State :=
  match s.phys ev.key with
  | none => none
  | some e => if e.val == ev.val && evictOk cfg s ev e then some (evictApply s ev e) else none

/-! ### Public operations (single atomic step each) -/

inductive Act where
  | write (v : Nat) | invalidate | cancel | bad | panic
  deriving DecidableEq, Repr, Inhabited

/-- what a public operation returns, as far as the spec determines it -/
inductive Out where
  | valOk (v : Nat) (ok : Bool)
  | entry (e : Option (Nat × Nat × Int × Int × Int))    -- val, weight, exp, ref, snapshotAt
  | panic
  | unit
  | num (n : Nat)
  deriving DecidableEq, Repr, Inhabited

def set (c : Cfg) (s : State) (k v : Nat) : State × Out × List Event :=
  let r := match s.live k with | some o => Out.valOk o.val false | none => Out.valOk v true
  let (s', evs) := write c (s.clearInflight k) k v
  (s', r, evs)

def setIfAbsent (c : Cfg) (s : State) (k v : Nat) : State × Out × List Event :=
  match s.live k with
  | some o => (touch c s k o, .valOk o.val false, [])
  | none =>
    let (s', evs) := write c (s.clearInflight k) k v
    (s', .valOk v true, evs)

def getIfPresent (c : Cfg) (s : State) (k : Nat) : State × Out :=
  match lookup c s k with
  | (s', some e) => (s', .valOk e.val true)
  | (s', none) => (s', .valOk 0 false)

def snapshotAt (c : Cfg) (s : State) : Int := if c.withTime then s.now else 0

def getEntry (c : Cfg) (s : State) (k : Nat) : State × Out :=
  match lookup c s k with
  | (s', some e) => (s', .entry (some (e.val, e.weight, e.exp, e.ref, snapshotAt c s)))
  | (s', none) => (s', .entry none)

def getEntryQuietly (c : Cfg) (s : State) (k : Nat) : Out :=
  match s.live k with
  | some e => .entry (some (e.val, e.weight, e.exp, e.ref, snapshotAt c s))
  | none => .entry none

/-- the atomic step of Compute: `act` is what the callback answered for the value it saw -/
def computeStep (c : Cfg) (s : State) (k : Nat) (act : Act) : State × Out × List Event :=
  match act with
  | .panic => (s, .panic, [])
  | .bad => (s, .panic, [])
  | .write v =>
    let (s', evs) := write c (s.clearInflight k) k v
    (s', .valOk v true, evs)
  | .invalidate =>
    let (s', evs) := remove (s.clearInflight k) k .invalidation
    (s', .valOk 0 false, evs)
  | .cancel =>
    match s.live k with
    | some o => (s, .valOk o.val true, [])
    | none =>
      -- a dead entry is physically removed (reported as Expiration)
      match s.phys k with
      | some _ => let (s', evs) := remove (s.clearInflight k) k .invalidation; (s', .valOk 0 false, evs)
      | none => (s, .valOk 0 false, [])

/-- Compute: counted lookup (hit iff live) then the atomic step; a panicking callback counts nothing -/
def compute (c : Cfg) (s : State) (k : Nat) (onFound onAbsent : Act) : State × Out × List Event :=
  let act := match s.live k with | some _ => onFound | none => onAbsent
  match act with
  | .panic | .bad => (s, .panic, [])
  | _ =>
    let s1 := match s.live k with | some _ => hit s | none => miss s
    computeStep c s1 k act

def invalidate (s : State) (k : Nat) : State × Out × List Event :=
  let r := match s.live k with | some o => Out.valOk o.val true | none => Out.valOk 0 false
  let (s', evs) := remove (s.clearInflight k) k .invalidation
  (s', r, evs)

/-- InvalidateAll: every physically present entry is removed and reported -/
def invalidateAll (s : State) : State × List Event :=
  let evs := s.m.map (fun p => ({ key := p.1, val := p.2.val, cause := causeOf p.2 s.now .invalidation } : Event))
  ({ s with m := [], inflight := [] }, evs)

def setExpiresAfter (c : Cfg) (s : State) (k : Nat) (d : Int) : State :=
  if c.withExpiry && d > 0 then
    match s.live k with
    | some e => { s with m := put s.m k { e with exp := satAdd s.now d } }
    | none => s
  else s

def setRefreshableAfter (c : Cfg) (s : State) (k : Nat) (d : Int) : State :=
  if c.withRefresh && d > 0 then
    match s.phys k with
    | some e => { s with m := put s.m k { e with ref := satAdd s.now d } }
    | none => s
  else s

def setMaximum (c : Cfg) (s : State) (n : Nat) : State :=
  if c.bounded then { s with maximum := some n } else s

def advance (s : State) (d : Int) : State := { s with now := s.now + d }

/-- the live entries, sorted by key: what every iteration must yield, each once -/
def liveEntries (s : State) : List (Nat × Entry) :=
  (s.m.filter (fun p => p.2.liveAt s.now)).mergeSort (fun a b => a.1 ≤ b.1)

def estimatedSize (s : State) : Nat := s.m.length

def weightedSize (c : Cfg) (s : State) : Nat := if c.weighted then s.totalWeight else 0

/-! ### Loads -/

inductive LoadOutcome where
  | ok (v : Nat) | err (v : Nat) | notFound (v : Nat) | panic
  deriving DecidableEq, Repr, Inhabited

/-- statistics effect of one loader invocation: not-found counts as a success -/
def recordLoad (s : State) (o : LoadOutcome) : State :=
  match o with
  | .ok _ | .notFound _ => { s with stats := { s.stats with loadOk := s.stats.loadOk + 1 } }
  | _ => { s with stats := { s.stats with loadFail := s.stats.loadFail + 1 } }

/-- register a load for `k` with call id `cid` unless one is registered (single flight) -/
def startCall (s : State) (k cid : Nat) : State × Bool :=
  match s.inflightOf k with
  | some _ => (s, false)
  | none => ({ s with inflight := (k, cid) :: s.inflight }, true)

/-- duration the calculator returns after a failed reload (0 = keep the current refresh deadline) -/
def refFailDur (c : Cfg) (k : Nat) : Int :=
  match c.refresh with
  | .custom => c.refFail.get k
  | _ => 0

/-- a failed reload: the value and its expiration stay; only the refresh deadline may move -/
def applyReloadFailure (c : Cfg) (s : State) (k : Nat) : State :=
  match s.phys k with
  | some e =>
    if refFailDur c k > 0 then { s with m := put s.m k { e with ref := satAdd s.now (refFailDur c k) } } else s
  | none => s

/-- completion of call `cid` for `k` at the current clock: the outcome is installed only if the
    call is still the registered one (no write, invalidation or eviction of `k` since it
    started) — C09; `fake` calls (keys a bulk loader volunteered) always install -/
def finishCall (c : Cfg) (s : State) (k cid : Nat) (isRefresh fake : Bool) (o : LoadOutcome) :
    State × List Event :=
  let correct := fake || s.inflightOf k == some cid
  let s := if s.inflightOf k == some cid then s.clearInflight k else s
  match o with
  | .notFound _ =>
      if correct then remove s k .invalidation else (s, [])
  | .err _ | .panic =>
      (if isRefresh then applyReloadFailure c s k else s, [])
  | .ok v =>
      if correct then
        let wk := if isRefresh && (s.live k).isSome then WriteKind.reload else .normal
        write c s k v wk
      else (s, [])

/-! ### Persistence (C19) -/

/-- a saved entry: key, value, weight, expiration, refresh deadline -/
abbrev Saved := Nat × Nat × Nat × Int × Int

/-- the deadline LoadCacheFrom restores for a saved deadline: the remaining duration (at least 1 ns) from now -/
def restoredDeadline (now saved : Int) : Int := satAdd now (max 1 (saved - now))

/-- the entries LoadCacheFrom attempts to load: file order, while the loaded weight is below the limit, entries
    already dead at load time skipped -/
def loadableFrom (withExp : Bool) (lim : Nat) (now : Int) : Nat → List Saved → List Saved
  | _, [] => []
  | size, e :: rest =>
    if size ≥ lim then []
    else if withExp && decide (e.2.2.2.1 ≤ now) then loadableFrom withExp lim now size rest
    else e :: loadableFrom withExp lim now (size + e.2.2.1) rest

/-- is the live entry `e` due for refresh at `now`? -/
def Entry.staleAt (e : Entry) (now : Int) : Bool := e.ref ≤ now

end OtterVerif.Spec
