/-
  Spec.Check — the SEQ correspondence oracle: reads the transcript the Go harness wrote while
  driving the real cache (one line per operation: operation, implementation's result, deletion
  events observed) and judges it against `Spec.Core`.

  The judgement is built from the Spec's own functions; the only logic here is orchestration:
  which atomic actions an operation consists of and the search for an interleaving of those
  actions with the observed automatic removals (each of which must be justified, C07).
  Core Lean only.
-/
import OtterVerif.Spec.Core
import OtterVerif.Spec.Bulk

namespace OtterVerif.Spec.Check
open OtterVerif.Spec

/-! ### Parsing -/

structure Line where
  kind : String := ""
  toks : List String := []
  res : List String := []
  evs : List (Bool × Event) := []     -- (isAtomic, event)
  raw : String := ""
  deriving Repr, Inhabited

def parseEvent (t : String) : Option (Bool × Event) :=
  match t.splitOn ":" with
  | [h, k, v, c] =>
    match k.toNat?, v.toNat?, Cause.ofString? c with
    | some k, some v, some c => if h == "A" then some (true, ⟨k, v, c⟩) else if h == "D" then some (false, ⟨k, v, c⟩) else none
    | _, _, _ => none
  | _ => none

def splitWs (s : String) : List String := (s.splitOn " ").filter (· ≠ "")

def parseLine (raw : String) : Except String Line := do
  let ws := splitWs raw
  match ws with
  | [] => .ok { kind := "", raw := raw }
  | kind :: rest =>
    let (beforeBar, afterBar) := (rest.takeWhile (· ≠ "|"), (rest.dropWhile (· ≠ "|")).drop 1)
    let (toks, res) := (beforeBar.takeWhile (· ≠ "=>"), (beforeBar.dropWhile (· ≠ "=>")).drop 1)
    let mut evs := []
    for t in afterBar do
      match parseEvent t with
      | some e => evs := evs ++ [e]
      | none => throw s!"bad event token {t}"
    return { kind, toks, res, evs, raw }

def parseInt? (s : String) : Option Int :=
  if s.startsWith "-" then (s.drop 1).toNat?.map (fun n => -(n : Int)) else s.toNat?.map (fun n => (n : Int))

def parseKind (s : String) : Except String Kind :=
  match s.splitOn ":" with
  | ["none"] => .ok .none
  | ["custom"] => .ok .custom
  | ["creating", d] => match parseInt? d with | some d => .ok (.creating d) | none => .error "bad duration"
  | ["writing", d] => match parseInt? d with | some d => .ok (.writing d) | none => .error "bad duration"
  | ["accessing", d] => match parseInt? d with | some d => .ok (.accessing d) | none => .error "bad duration"
  | _ => .error s!"bad kind {s}"

def parseBound (s : String) : Except String Bound :=
  match s.splitOn ":" with
  | ["none"] => .ok .none
  | ["size", n] => match n.toNat? with | some n => .ok (.size n) | none => .error "bad bound"
  | ["weight", n] => match n.toNat? with | some n => .ok (.weight n) | none => .error "bad bound"
  | _ => .error s!"bad bound {s}"

def parseNatList (s : String) : List Nat := (s.splitOn ",").filterMap (·.toNat?)

def parseKV (s : String) : List (Nat × Nat) :=
  (s.splitOn ",").filterMap (fun p => match p.splitOn "=" with
    | [k, v] => match k.toNat?, v.toNat? with | some k, some v => some (k, v) | _, _ => none
    | _ => none)

def parseSaved (s : String) : List (Nat × Nat × Nat × Int × Int) :=
  (s.splitOn ",").filterMap (fun p => match p.splitOn ":" with
    | [k, v, w, e, r] => match k.toNat?, v.toNat?, w.toNat?, parseInt? e, parseInt? r with
      | some k, some v, some w, some e, some r => some (k, v, w, e, r)
      | _, _, _, _, _ => none
    | _ => none)

def parseAct (s : String) : Except String Act :=
  if s == "inv" then .ok .invalidate else if s == "can" then .ok .cancel
  else if s == "bad" then .ok .bad else if s == "pan" then .ok .panic
  else if s.startsWith "w" then match (s.drop 1).toNat? with | some v => .ok (.write v) | none => .error s!"bad act {s}"
  else .error s!"bad act {s}"

/-! ### Pending atomic actions and the interleaving search -/

/-- an atomic action of an operation that has not yet been placed in the event order -/
inductive PAct where
  | set (k v : Nat)
  | sia (k v : Nat)
  | computeStep (k : Nat) (onFound onAbsent : Act) (count : Bool)   -- count: Compute records hit/miss itself
  | inval (k : Nat)
  | invalAll
  | snapshot (what : String)          -- all / keys / values / hottest / coldest
  | saveCheck (mx : Nat) (ents : List (Nat × Nat × Nat × Int × Int))   -- SaveCacheTo wrote these entries
  | finish (k cid : Nat) (isRefresh fake : Bool) (o : LoadOutcome)
  | nop
  deriving Repr, Inhabited

def outToks : Out → List String
  | .valOk v ok => [toString v, if ok then "true" else "false"]
  | .entry none => ["-"]
  | .entry (some (v, w, e, r, sn)) => [toString v, toString w, toString e, toString r, toString sn]
  | .panic => ["panic"]
  | .unit => []
  | .num n => [toString n]

def joinComma (l : List String) : String := ",".intercalate l

def snapshotToks (s : State) (what : String) : List String :=
  let es := liveEntries s
  match what with
  | "keys" => [joinComma (es.map (fun p => toString p.1))]
  | "values" => [joinComma ((es.map (fun p => p.2.val)).mergeSort (· ≤ ·) |>.map toString)]
  | _ => [joinComma (es.map (fun p => s!"{p.1}={p.2.val}"))]

/-- apply one atomic action: new state, expected result tokens (none = not checked here), predicted own events.
    `cbTok`: for compute-like actions, the token describing how the callback must have been invoked. -/
def applyPAct (cfg : Cfg) (s : State) : PAct → State × Option (List String) × List Event
  | .set k v => let (s', o, e) := set cfg s k v; (s', some (outToks o), e)
  | .sia k v => let (s', o, e) := setIfAbsent cfg s k v; (s', some (outToks o), e)
  | .computeStep k f a count =>
      let cb := match s.live k with | some o => s!"cb=f{o.val}" | none => "cb=a"
      let act := match s.live k with | some _ => f | none => a
      if count then
        let (s', o, e) := compute cfg s k f a
        (s', some (outToks o ++ [cb]), e)
      else
        let (s', o, e) := computeStep cfg s k act
        (s', some (outToks o ++ [cb]), e)
  | .inval k => let (s', o, e) := invalidate s k; (s', some (outToks o), e)
  | .invalAll => let (s', e) := invalidateAll s; (s', none, e)
  | .snapshot what => (s, some (snapshotToks s what), [])
  | .saveCheck mx ents =>
      -- C19/C03: only live entries, with their exact value, weight and deadlines, each once;
      -- everything when the contents are below the maximum
      let live := liveEntries s
      let okEach := ents.all (fun (k, v, w, e, r) =>
        match s.live k with
        | some x => x.val == v && x.weight == w && x.exp == e && x.ref == r
        | none => false)
      let keys := ents.map (·.1)
      let noDup := keys.eraseDups.length == keys.length
      let mxOk := (match s.maximum with | some m => m | none => 18446744073709551615) == mx
      let allIfFits := if s.totalWeight < mx then ents.length == live.length else true
      (s, some [if okEach && noDup && mxOk && allIfFits then "saved-ok" else
        s!"saved-BAD(each={okEach},nodup={noDup},max={mxOk},all={allIfFits})"], [])
  | .finish k cid r f o => let (s', e) := finishCall cfg s k cid r f o; (s', none, e)
  | .nop => (s, none, [])

def normToks (l : List String) : List String := l.filter (· ≠ "")

def eventsPermOf (pred obs : List Event) : Bool :=
  pred.length == obs.length && pred.all (fun e => pred.count e == obs.count e)

def removeNth {α} : List α → Nat → List α
  | [], _ => []
  | _ :: xs, 0 => xs
  | x :: xs, n + 1 => x :: removeNth xs n

/-- equality of states up to the eviction counters (whose ambiguity is covered by the slack fields) -/
def sameModStats (a b : State) : Bool :=
  a.now == b.now && a.m == b.m && a.maximum == b.maximum && a.inflight == b.inflight &&
  a.stats.hits == b.stats.hits && a.stats.misses == b.stats.misses &&
  a.stats.loadOk == b.stats.loadOk && a.stats.loadFail == b.stats.loadFail

/-- Search for the interleavings: each pending action is placed somewhere in the observed sequence of
    atomic deletion events, its own predicted events matching the observed ones at that place, and
    every other observed event is an automatic removal the Spec justifies at that moment.
    Returns every distinct resulting state (the order of an operation's atomic step and a sweep of the
    same key is not observable, and the two orders may leave different states). -/
def resolveAll (cfg : Cfg) (fuel : Nat) (s : State) (pend : List (PAct × Option (List String)))
    (evs : List Event) : List State :=
  match fuel with
  | 0 => []
  | fuel + 1 =>
    if pend.isEmpty && evs.isEmpty then [s] else
    -- option 1: perform some pending action here
    let viaAct : List State := Id.run do
      let mut acc : List State := []
      for i in [0:pend.length] do
        match pend[i]? with
        | none => pure ()
        | some (p, expect) =>
          let (s', toks, own) := applyPAct cfg s p
          -- own removals of expired entries are indistinguishable from a sweep just before the operation
          let deadW := (own.filter (fun e => e.cause == .expiration)).map (fun e => ((s.phys e.key).map (·.weight)).getD 0)
          let s' := { s' with stats := { s'.stats with evictionsSlack := s'.stats.evictionsSlack + deadW.length,
                                                       evictionWeightSlack := s'.stats.evictionWeightSlack + deadW.foldl (· + ·) 0 } }
          let resOk := match expect, toks with
            | some ex, some t => normToks ex == normToks t
            | _, _ => true
          -- `invalAll` reports its events in table order: compare as multisets
          let n := own.length
          let evOk := match p with
            | .invalAll => eventsPermOf own (evs.take n)
            | _ => own == evs.take n
          if resOk && evOk && n ≤ evs.length then
            for r in resolveAll cfg fuel s' (removeNth pend i) (evs.drop n) do
              if !(acc.any (sameModStats r)) && acc.length < 16 then acc := acc ++ [r]
            -- many pending completions (a bulk load of a hundred keys): the orders are not enumerated - the first action that
            -- is consistent here is taken and never revised (completions of distinct keys commute; what is accepted has an
            -- explanation in any case; the generators produce such operations for unbounded caches only)
            if pend.length > 6 then break
      return acc
    -- option 2: the next observed event is an automatic removal
    let viaEvict : List State :=
      match evs with
      | [] => []
      | e :: rest =>
        match evict cfg s e with
        | some s' => resolveAll cfg fuel s' pend rest
        | none => []
    viaAct ++ viaEvict.filter (fun r => !(viaAct.any (sameModStats r)))

/-! ### Checker state -/

inductive TaskKind where | refresh | bulkRefresh
  deriving DecidableEq, Repr, Inhabited

/-- a reload handed to the executor -/
structure Task where
  /-- keys with the old value captured at the read (none = absent → Load) -/
  keys : List (Nat × Option Nat)
  manual : Option Nat := none     -- refresh id when the caller holds a channel
  bulk : Bool := false
  /-- call ids, assigned when the task starts (it registers all its keys before the first loader invocation) -/
  cids : List (Nat × Nat) := []
  deriving Repr, Inhabited

structure OpenCall where
  keys : List (Nat × Nat)         -- key, call id
  isRefresh : Bool
  bulk : Bool
  manual : Option Nat
  deriving Repr, Inhabited

structure Frame where
  kind : String
  /-- result tokens expected on the `end` line, once known -/
  expect : Option (List String) := none
  /-- keys whose direct load (by the calling goroutine, not the executor) is still expected -/
  directKeys : List Nat := []
  hits : List (Nat × Nat) := []
  pending : List (PAct × Option (List String)) := []
  openCall : Option OpenCall := none
  loaded : List (Nat × Nat) := []        -- bulk: supplied requested keys
  failed : Option String := none         -- "err" / "panic" outcome of the direct load
  /-- second half of a bulk refresh task (reload part) still to be invoked -/
  laterTask : Option Task := none
  /-- parts of a bulk refresh result accumulated until the task's last loader invocation returns -/
  chanAcc : List String := []
  deriving Repr, Inhabited

structure CS where
  cfg : Cfg := {}
  s : State := {}
  deferred : Bool := false
  queue : List Task := []
  frames : List Frame := []
  nextCid : Nat := 1
  nextRid : Nat := 1
  /-- atomic events whose OnDeletion delivery has not been observed yet -/
  owed : List Event := []
  /-- channel deliveries expected and not yet observed: rid ↦ tokens -/
  chanExpect : List (Nat × String) := []
  /-- coverage counters -/
  nOps : Nat := 0
  nEvictions : Nat := 0
  nDeadTouches : Nat := 0      -- operations applied to an expired-unswept key
  nLoads : Nat := 0
  /-- which explanation to follow when several are consistent (the driver explores all of them) -/
  choice : Nat := 0
  solCount : Nat := 1
  /-- SaveCacheTo results: slot ↦ (saved maximum, saved entries in file order: key, val, weight, exp, ref) -/
  slots : List (Nat × Nat × List (Nat × Nat × Nat × Int × Int)) := []
  /-- classification aids for a failing line -/
  sawNestedWrite : Bool := false     -- a write was executed from inside a loader (C09 scenarios)
  dirty : List Nat := []             -- deferred executor: keys written since maintenance last ran
  k1risk : Bool := false             -- deferred executor: a key was rewritten before its first write event was replayed
  /-- failures that do not stop the script (the driver reports them and goes on judging the rest) -/
  soft : List String := []
  deriving Repr, Inhabited

abbrev M := ExceptT String (StateM CS)

def fail {α} (msg : String) : M α := throw msg

def getS : M State := do return (← get).s
def setS (s : State) : M Unit := modify fun c => { c with s := s }

/-- account deletion-handler deliveries: every OnDeletion must correspond to exactly one earlier (or same-op)
    atomic event with equal key, value and cause (C06) -/
def accountEvents (evs : List (Bool × Event)) : M (List Event) := do
  let mut owed := (← get).owed
  let atomics := (evs.filter (·.1)).map (·.2)
  owed := owed ++ atomics
  for (isA, e) in evs do
    if !isA then
      if owed.contains e then owed := owed.erase e
      else fail s!"C06: OnDeletion delivered {e.key}:{e.val}:{e.cause.toString} with no matching atomic deletion event (duplicate, invented or wrong cause)"
  modify fun c => { c with owed := owed }
  return atomics

def resolveOrFail (pend : List (PAct × Option (List String))) (evs : List Event) (what : String) : M Unit := do
  let c ← get
  let sols := resolveAll c.cfg (2 * (pend.length + evs.length) + 4) c.s pend evs
  match (if c.choice < sols.length then sols[c.choice]? else sols.head?) with
  | some s' =>
      let nEv := evs.length
      modify fun c => { c with s := s', nEvictions := c.nEvictions + nEv, solCount := max c.solCount sols.length }
  | none =>
      -- explain: expected tokens of the first pending action in the current state
      let hint := match pend.head? with
        | some (p, ex) =>
          let (_, t, own) := applyPAct c.cfg c.s p
          s!" (spec at op start would return {t.getD []} with own events {own.map (fun (e : Event) => s!"{e.key}:{e.val}:{e.cause.toString}")}; implementation returned {ex.getD []})"
        | none => ""
      fail s!"{what}: the implementation's result/events have no explanation in the spec: no placement of the operation's atomic step among events {evs.map (fun e => s!"{e.key}:{e.val}:{e.cause.toString}")} is consistent{hint}"

def tokNat (t : String) : M Nat := match t.toNat? with | some n => pure n | none => fail s!"bad number {t}"
def tokInt (t : String) : M Int := match parseInt? t with | some n => pure n | none => fail s!"bad integer {t}"

def parseOutcome (t : String) : M LoadOutcome :=
  match t.splitOn ":" with
  | ["ok", v] => do return .ok (← tokNat v)
  | ["err", v] => do return .err (← tokNat v)
  | ["nf", v] => do return .notFound (← tokNat v)
  | ["pan"] => pure .panic
  | _ => fail s!"bad outcome {t}"

def isStale (cfg : Cfg) (e : Entry) (now : Int) : Bool := cfg.withRefresh && e.staleAt now

def countDead (k : Nat) : M Unit := do
  let c ← get
  match c.s.phys k with
  | some e => if !e.liveAt c.s.now then modify fun c => { c with nDeadTouches := c.nDeadTouches + 1 }
  | none => pure ()

def markWrite (k : Nat) : M Unit := modify fun c =>
  let c := if !c.frames.isEmpty then { c with sawNestedWrite := true } else c
  if c.deferred then
    { c with k1risk := c.k1risk || c.dirty.contains k, dirty := k :: c.dirty }
  else c

def maintenanceRan : M Unit := modify fun c => { c with dirty := [] }

/-- at the end of a top-level operation: channel deliveries and (sync executor) OnDeletion completeness -/
def endOfTopLevel (chansTok : Option String) : M Unit := do
  let c ← get
  -- channels
  let observed : List String := match chansTok with
    | some t => (((t.drop 6).toString).splitOn ";").filter (· ≠ "")
    | none => []
  let mut expect := c.chanExpect
  for o in observed do
    match o.splitOn "=" with
    | rid :: rest =>
      let rid ← tokNat rid
      let body := "=".intercalate rest
      match expect.find? (fun p => p.1 == rid) with
      | some (_, ex) =>
        if ex != body then fail s!"C11: refresh #{rid} delivered {body}, spec expects {ex}"
        expect := expect.filter (fun p => p.1 != rid)
      | none => fail s!"C11: unexpected (duplicate or spurious) refresh result for refresh #{rid}: {body}"
    | _ => fail s!"bad chans token {o}"
  -- everything whose call has completed must have been delivered by now
  if !expect.isEmpty then
    fail s!"C11: refresh result(s) not delivered although the call completed: {expect}"
  modify fun c => { c with chanExpect := expect }
  if !c.deferred && c.frames.isEmpty && !c.owed.isEmpty then
    fail s!"C06: atomic deletion event(s) without OnDeletion delivery at the end of the operation: {c.owed.map (fun e => s!"{e.key}:{e.val}:{e.cause.toString}")}"

/-- a simple (single-line) operation -/
def simpleOp (l : Line) : M Unit := do
  let atomics ← accountEvents l.evs
  let c ← get
  let cfg := c.cfg
  modify fun c => { c with nOps := c.nOps + 1 }
  let expectRes := some l.res
  match l.toks with
  | ["set", k, v] =>
      let k ← tokNat k; let v ← tokNat v; countDead k; markWrite k
      resolveOrFail [(.set k v, expectRes)] atomics "set"
  | ["sia", k, v] =>
      let k ← tokNat k; let v ← tokNat v; countDead k; markWrite k
      resolveOrFail [(.sia k v, expectRes)] atomics "setifabsent"
  | ["get", k] =>
      let k ← tokNat k; countDead k
      let (s', o) := getIfPresent cfg c.s k
      setS s'
      if outToks o != l.res then fail s!"GetIfPresent {k}: implementation returned {l.res}, spec {outToks o}"
      resolveOrFail [] atomics "get"
  | ["entry", k] =>
      let k ← tokNat k; countDead k
      let (s', o) := getEntry cfg c.s k
      setS s'
      if outToks o != l.res then fail s!"GetEntry {k}: implementation returned {l.res}, spec {outToks o}"
      resolveOrFail [] atomics "entry"
  | ["qentry", k] =>
      let k ← tokNat k; countDead k
      let o := getEntryQuietly cfg c.s k
      if outToks o != l.res then fail s!"GetEntryQuietly {k}: implementation returned {l.res}, spec {outToks o}"
      resolveOrFail [] atomics "qentry"
  | ["compute", k, f, a] =>
      let k ← tokNat k; countDead k; markWrite k
      let f ← (match parseAct f with | .ok x => pure x | .error e => fail e)
      let a ← (match parseAct a with | .ok x => pure x | .error e => fail e)
      resolveOrFail [(.computeStep k f a true, expectRes)] atomics "compute"
  | ["cia", k, g] =>
      let k ← tokNat k; countDead k; markWrite k
      let g ← (match parseAct g with | .ok x => pure x | .error e => fail e)
      match lookup cfg c.s k with
      | (s', some e) =>
          setS s'
          let ex := [toString e.val, "true", "cb=none"]
          if ex != l.res then fail s!"ComputeIfAbsent {k}: implementation returned {l.res}, spec {ex}"
          resolveOrFail [] atomics "cia"
      | (s', none) =>
          setS s'
          -- the inner compute sees the key as found only if it is live, which the lookup just excluded
          resolveOrFail [(.computeStep k .cancel g false, expectRes)] atomics "cia"
  | ["cip", k, h] =>
      let k ← tokNat k; countDead k; markWrite k
      let h ← (match parseAct h with | .ok x => pure x | .error e => fail e)
      match lookup cfg c.s k with
      | (s', none) =>
          setS s'
          let ex := ["0", "false", "cb=none"]
          if ex != l.res then fail s!"ComputeIfPresent {k}: implementation returned {l.res}, spec {ex}"
          resolveOrFail [] atomics "cip"
      | (s', some _) =>
          setS s'
          resolveOrFail [(.computeStep k h .cancel false, expectRes)] atomics "cip"
  | ["inval", k] =>
      let k ← tokNat k; countDead k; markWrite k
      resolveOrFail [(.inval k, expectRes)] atomics "invalidate"
  | ["invalall"] =>
      resolveOrFail [(.invalAll, none)] atomics "invalidateall"
  | ["expafter", k, d] =>
      let k ← tokNat k; let d ← tokInt d; countDead k
      setS (setExpiresAfter cfg c.s k d)
      resolveOrFail [] atomics "expafter"
  | ["refafter", k, d] =>
      let k ← tokNat k; let d ← tokInt d; countDead k
      setS (setRefreshableAfter cfg c.s k d)
      resolveOrFail [] atomics "refafter"
  | ["setmax", n] =>
      let n ← tokNat n
      setS (setMaximum cfg c.s n)
      resolveOrFail [] atomics "setmax"
  | ["getmax"] =>
      resolveOrFail [] atomics "getmax"
      let s ← getS
      let ex := match s.maximum with | some n => toString n | none => "18446744073709551615"
      if [ex] != l.res then fail s!"GetMaximum: implementation returned {l.res}, spec {ex}"
  | ["adv", d] =>
      let d ← tokInt d
      setS (advance c.s d)
      resolveOrFail [] atomics "adv"
  | ["cleanup"] =>
      maintenanceRan; resolveOrFail [] atomics "cleanup"
      -- C13: maintenance at time T has removed every entry whose deadline lies more than one timer tick before T
      -- (calculators under which reads never shorten a deadline: the built-in ones, and per-entry tables whose read column
      -- leaves every deadline alone)
      let s ← getS
      let builtin := match cfg.expiry with
        | .creating _ | .writing _ | .accessing _ => true
        | .custom => decide (cfg.expRead.dflt ≤ 0) && cfg.expRead.ents.all (fun p => decide (p.2 ≤ 0))
        | _ => false
      if builtin && !c.deferred then
        match s.m.find? (fun p => p.2.exp + 1073741824 < s.now) with
        | some p => modify fun c => { c with soft := c.soft ++ [s!"C13: after CleanUp at {s.now} key {p.1} (deadline {p.2.exp}, {s.now - p.2.exp} ns ago) is still physically present and its Expiration event has not been delivered"] }
        | none => pure ()
  | ["settle"] =>
      -- three further maintenance runs, two timer ticks apart (C06: every value that stopped being current has been reported)
      setS (advance c.s (3 * 2147483648))
      maintenanceRan; resolveOrFail [] atomics "settle"
      let s ← getS
      let builtin := match cfg.expiry with
        | .creating _ | .writing _ | .accessing _ => true
        | .custom => decide (cfg.expRead.dflt ≤ 0) && cfg.expRead.ents.all (fun p => decide (p.2 ≤ 0))
        | _ => false
      if builtin && !c.deferred then
        match s.m.find? (fun p => p.2.exp + 1073741824 < s.now) with
        | some p => fail s!"C06: value {p.2.val} of key {p.1} expired {s.now - p.2.exp} ns ago and has not been reported: three maintenance runs two timer ticks apart have passed since (values written ≠ values present + values reported)"
        | none => pure ()
  | ["iteradv", what, d] =>
      -- an iteration during which the clock jumps by d after the first element: the first element is live at the start,
      -- every later one is live at the later time (C03: nothing is yielded after its expiration time), nothing is left out
      let d ← tokInt d
      let s := c.s
      let s' := advance s d
      let tokOf (p : Nat × Entry) : String := match what with
        | "all" => s!"{p.1}={p.2.val}" | "keys" => toString p.1 | _ => toString p.2.val
      let live0 := (liveEntries s).map tokOf
      let live1 := (liveEntries s').map tokOf
      let first := ((l.res.headD "").drop 6).toString
      let restTok := (((l.res.getD 1 "").drop 5).toString.splitOn ",").filter (· != "")
      if first == "-" then
        (if !live0.isEmpty then fail s!"iteration ({what}) yielded nothing, spec holds {live0}" else pure ())
      else if !live0.contains first then fail s!"C03: iteration ({what}) yielded {first}, which is not a live entry at the time of the yield (live: {live0})"
      else
        match restTok.find? (fun x => !live1.contains x) with
        | some x => fail s!"C03: iteration ({what}) yielded {x} after its expiration time (the clock had advanced by {d}; live then: {live1})"
        | none =>
          match (live1.filter (· != first)).find? (fun x => !restTok.contains x) with
          | some x => fail s!"iteration ({what}) left out the live entry {x}"
          | none => if restTok.length != (restTok.eraseDups).length then fail s!"iteration ({what}) yielded an entry twice: {restTok}" else pure ()
      -- the jump of the clock may be followed by maintenance (expiration events are explained at the later time)
      setS s'
      resolveOrFail [] atomics "iteradv"
  | ["all"] => resolveOrFail [(.snapshot "all", expectRes)] atomics "all"
  | ["keys"] => resolveOrFail [(.snapshot "keys", expectRes)] atomics "keys"
  | ["values"] => resolveOrFail [(.snapshot "values", expectRes)] atomics "values"
  | ["hottest"] => resolveOrFail [(.snapshot "hottest", expectRes)] atomics "hottest"
  | ["coldest"] => resolveOrFail [(.snapshot "coldest", expectRes)] atomics "coldest"
  | ["size"] =>
      resolveOrFail [] atomics "size"
      let s ← getS
      if [toString (estimatedSize s)] != l.res then fail s!"C05: EstimatedSize returned {l.res}, spec holds {estimatedSize s} entries"
  | ["wsize"] =>
      resolveOrFail [] atomics "wsize"
      let s ← getS
      if [toString (weightedSize cfg s)] != l.res then fail s!"C05: WeightedSize returned {l.res}, sum of weights present is {weightedSize cfg s}"
  | ["bound"] =>
      -- quiescent size-bound oracle (C04): after maintenance the total weight present is within the maximum
      maintenanceRan
      resolveOrFail [] atomics "bound"
      let s ← getS
      match s.maximum with
      | some mx => if s.totalWeight > mx then fail s!"C04: after CleanUp total weight {s.totalWeight} exceeds maximum {mx}"
      | none => pure ()
  | ["save", slot] =>
      let slot ← tokNat slot
      match l.res with
      | err :: mxTok :: rest =>
        if err != "nil" then fail s!"C19: SaveCacheTo failed: {err}"
        let mx := ((mxTok.drop 4).toString.toNat?).getD 0
        let ents := parseSaved (rest.headD "")
        resolveOrFail [(.saveCheck mx ents, some ["saved-ok"])] atomics "C19 save"
        modify fun c => { c with slots := (slot, mx, ents) :: c.slots.filter (·.1 != slot) }
      | _ => fail "bad save line"
  | ["loadfrom", slot, tmax] =>
      let slot ← tokNat slot
      resolveOrFail [] atomics "loadfrom"
      let c ← get
      match c.slots.find? (·.1 == slot), l.res with
      | some (_, savedMax, saved), err :: mxTok :: rest =>
        if err != "nil" then fail s!"C19: LoadCacheFrom failed: {err}"
        let tm := ((mxTok.drop 4).toString.toNat?).getD 0
        let wantTm : Nat := match cfg.bound with
          | .none => 18446744073709551615
          | .size n | .weight n => if tmax == "same" then n else (tmax.toNat?).getD n
        if tm != wantTm then fail s!"C19: target maximum {tm}, expected {wantTm}"
        let now := c.s.now
        let lim := min savedMax tm
        let loadable := loadableFrom cfg.withExpiry lim now 0 saved
        -- warm-up reads (frequency sketch): two while the loaded weight is within a quarter of the limit, one within half
        let (_, warm) := loadable.foldl (fun (acc : Nat × List (Nat × Nat)) e =>
          let size := acc.1 + e.2.2.1
          let reads := if size ≤ lim / 4 then 2 else if size ≤ 2 * (lim / 4) then 1 else 0
          (size, acc.2 ++ [(e.1, reads)])) (0, [])
        let present := parseSaved (rest.headD "")
        for (k, v, w, e, r) in present do
          match loadable.find? (fun x => x.1 == k) with
          | none => fail s!"C19/C03: loaded cache holds {k}={v} which was absent, expired or beyond the limit in the saved data"
          | some (_, sv, sw, se, sr) =>
            if sv != v || sw != w then fail s!"C19: key {k} loaded with value/weight {v}/{w}, saved {sv}/{sw}"
            let reads := ((warm.find? (·.1 == k)).map (·.2)).getD 0
            let created := expAfterWrite cfg now k none
            let wantE := if !cfg.withExpiry then maxI64
                         else if se == maxI64 then
                           -- "never expires" is not restored: the target's own calculators decide (creation, then warm-up reads)
                           (if reads > 0 then expAfterRead cfg now k { val := v, weight := w, exp := created, ref := maxI64 } else created)
                         else restoredDeadline now se
            let wantR := if !cfg.withRefresh then maxI64 else if sr == maxI64 then refAfterWrite cfg now k none .normal
                         else restoredDeadline now sr
            -- (a remaining lifetime of 2^63 ns or more is not representable as a time.Duration: known finding F20 is matched on this marker)
            let wrapE := if se != maxI64 && se - now > maxI64 then " [remaining lifetime not representable as a duration]" else ""
            let wrapR := if sr != maxI64 && sr - now > maxI64 then " [remaining lifetime not representable as a duration]" else ""
            if e != wantE then fail s!"C19: key {k} loaded with expiration {e}, saved {se} (expected {wantE}) at load time {now}{wrapE}"
            if r != wantR then fail s!"C19: key {k} loaded with refresh time {r}, saved {sr} (expected {wantR}) at load time {now}{wrapR}"
        let keys := present.map (·.1)
        if keys.eraseDups.length != keys.length then fail "C19: duplicate key in loaded cache"
        let wl := (loadable.map (·.2.2.1)).foldl (· + ·) 0
        let wp := (present.map (·.2.2.1)).foldl (· + ·) 0
        if wp > tm then fail s!"C19/C04: loaded cache holds weight {wp} above its maximum {tm}"
        if wl ≤ tm && present.length != loadable.length then
          fail s!"C19: saved contents fit the target (weight {wl} ≤ {tm}) but only {present.length} of {loadable.length} entries were loaded"
      | _, _ => fail "loadfrom: unknown slot or bad line"
  | ["stats"] =>
      resolveOrFail [] atomics "stats"
      let s ← getS
      let st := s.stats
      let ex := [toString st.hits, toString st.misses, toString st.loadOk, toString st.loadFail]
      let evOk := match l.res.drop 4 with
        | [ev, ew] => match ev.toNat?, ew.toNat? with
          | some ev, some ew => st.evictions ≤ ev && ev ≤ st.evictions + st.evictionsSlack &&
                                st.evictionWeight ≤ ew && ew ≤ st.evictionWeight + st.evictionWeightSlack &&
                                (ev - st.evictions ≤ st.evictionsSlack)
          | _, _ => false
        | _ => false
      if ex != l.res.take 4 || !evOk then
        fail s!"C20: Stats returned (hits misses loadOk loadFail evictions evictionWeight) = {l.res}, spec counted {ex} evictions {st.evictions}..{st.evictions + st.evictionsSlack} weight {st.evictionWeight}..{st.evictionWeight + st.evictionWeightSlack}"
  | _ => fail s!"unknown operation {l.toks}"
  if (← get).frames.isEmpty then endOfTopLevel none

/-- queue a reload task; with a synchronous executor it is expected to run at once -/
def queueTask (t : Task) : M Unit := modify fun c => { c with queue := c.queue ++ [t] }

def freshCid : M Nat := do
  let c ← get
  modify fun c => { c with nextCid := c.nextCid + 1 }
  return c.nextCid

def topFrame : M Frame := do
  match (← get).frames with
  | f :: _ => pure f
  | [] => fail "no open operation"

def setTop (f : Frame) : M Unit := modify fun c => { c with frames := match c.frames with | _ :: r => f :: r | [] => [f] }

def beginOp (l : Line) : M Unit := do
  let atomics ← accountEvents l.evs
  resolveOrFail [] atomics "begin"
  let c ← get
  let cfg := c.cfg
  modify fun c => { c with nOps := c.nOps + 1 }
  match l.toks with
  | ["load", k] =>
      let k ← tokNat k; countDead k
      match lookup cfg c.s k with
      | (s', some e) =>
          setS s'
          if isStale cfg e s'.now then queueTask { keys := [(k, some e.val)] }
          modify fun c => { c with frames := { kind := "load", expect := some [toString e.val, "nil"] } :: c.frames }
      | (s', none) =>
          setS s'
          modify fun c => { c with frames := { kind := "load", directKeys := [k] } :: c.frames }
  | ["bulkget", ks] =>
      let ks := parseNatList ks
      for k in ks.eraseDups do countDead k
      -- the classification of the request (hits, misses, effects of the reads) is Spec.bulkPlan: the function the theorems of
      -- Props.C10 are about
      let plan := bulkPlan cfg c.s ks
      let s := plan.s
      let hits := plan.hits
      let misses := plan.misses
      -- a hit whose refresh time has passed is reloaded (all such keys in one bulk reload)
      let stale : List (Nat × Option Nat) := hits.filterMap (fun (k, v) =>
        match s.phys k with
        | some e => if isStale cfg e s.now then some (k, some v) else none
        | none => none)
      setS s
      if !stale.isEmpty then queueTask { keys := stale, bulk := true }
      modify fun c => { c with frames := { kind := "bulkget", directKeys := misses, hits := hits } :: c.frames }
  | ["refresh", k] =>
      let k ← tokNat k; countDead k
      if !cfg.withRefresh then
        modify fun c => { c with frames := { kind := "refresh", expect := some ["nochan"] } :: c.frames }
      else
        let rid := c.nextRid
        let old := (c.s.live k).map (·.val)
        modify fun c => { c with nextRid := rid + 1, queue := c.queue ++ [{ keys := [(k, old)], manual := some rid }],
                                 frames := { kind := "refresh", expect := some [s!"chan#{rid}"] } :: c.frames }
  | ["bulkrefresh", ks] =>
      let ks := (parseNatList ks).eraseDups.mergeSort (· ≤ ·)
      if !cfg.withRefresh then
        modify fun c => { c with frames := { kind := "bulkrefresh", expect := some ["nochan"] } :: c.frames }
      else
        let rid := c.nextRid
        let keys := ks.map (fun k => (k, (c.s.live k).map (·.val)))
        if keys.isEmpty then
          modify fun c => { c with nextRid := rid + 1, chanExpect := c.chanExpect ++ [(rid, "[]")],
                                   frames := { kind := "bulkrefresh", expect := some [s!"chan#{rid}"] } :: c.frames }
        else
          modify fun c => { c with nextRid := rid + 1, queue := c.queue ++ [{ keys := keys, manual := some rid, bulk := true }],
                                   frames := { kind := "bulkrefresh", expect := some [s!"chan#{rid}"] } :: c.frames }
  | ["runexec"] =>
      maintenanceRan
      modify fun c => { c with frames := { kind := "runexec", expect := some [] } :: c.frames }
  | _ => fail s!"unknown begin {l.toks}"

def fmtOld (l : List (Nat × Option Nat)) : String :=
  joinComma (l.map (fun p => match p.2 with | some v => s!"{p.1}={v}" | none => s!"{p.1}"))

/-- a `call` line: the loader was invoked -/
def callOp (l : Line) : M Unit := do
  let atomics ← accountEvents l.evs
  let f ← topFrame
  resolveOrFail f.pending atomics "call"
  let f := { f with pending := [] }
  if f.openCall.isSome then fail "C08: loader invoked while the previous invocation of this operation has not returned"
  let c ← get
  modify fun c => { c with nLoads := c.nLoads + 1 }
  match l.toks with
  | [kind, spec] =>
      let isReload := kind == "reload" || kind == "bulkreload"
      let bulk := kind == "bulkload" || kind == "bulkreload"
      -- which keys with which old values the implementation passed
      let given : List (Nat × Option Nat) :=
        if isReload then (parseKV spec).map (fun p => (p.1, some p.2)) else (parseNatList spec).map (fun k => (k, none))
      let givenSorted := given.mergeSort (fun a b => a.1 ≤ b.1)
      -- whose invocation is it? a continuation of a bulk refresh task, an executor task at the head of the queue, or the direct load
      let fromTask : Option (Task × Bool) :=   -- (task, isContinuation)
        match f.laterTask with
        | some t => some (t, true)
        | none => match c.queue.head? with
          | some t => some (t, false)
          | none => none
      -- executor tasks run inside the operation (synchronous executor) or inside `runexec` (deferred executor);
      -- anything else is the calling goroutine's own load
      let tasksRunHere := !c.deferred || f.kind == "runexec"
      let fromTask := if tasksRunHere then fromTask else none
      let direct := !f.directKeys.isEmpty && !isReload && fromTask.isNone
      if direct then
        let want := (f.directKeys.mergeSort (· ≤ ·)).map (fun k => (k, (none : Option Nat)))
        if want != givenSorted then fail s!"C10: loader invoked for keys {fmtOld givenSorted}, spec expects exactly the missing keys {fmtOld want}"
        if bulk != (f.kind == "bulkget") then fail s!"wrong loader kind {kind}"
        let mut s := c.s
        let mut cids := []
        for (k, _) in want do
          let cid ← freshCid
          let (s', fresh) := startCall s k cid
          if !fresh then fail s!"C08: loader invoked for key {k} while a load of it is in flight"
          s := s'
          cids := cids ++ [(k, cid)]
        setS s
        setTop { f with directKeys := [], openCall := some { keys := cids, isRefresh := false, bulk := bulk, manual := none } }
      else
        match fromTask with
        | none => fail s!"C08/C11: unexpected loader invocation {l.toks}"
        | some (t, isCont) =>
          -- a bulk refresh task loads its absent keys first (BulkLoad), then reloads the present ones (BulkReload)
          let absent := t.keys.filter (·.2.isNone)
          let present := t.keys.filter (·.2.isSome)
          let (nowKeys, later) : List (Nat × Option Nat) × Option Task :=
            if t.bulk && !isCont && !absent.isEmpty && !present.isEmpty then (absent, some { t with keys := present })
            else (t.keys, none)
          let want := nowKeys.mergeSort (fun a b => a.1 ≤ b.1)
          if want != givenSorted then
            fail s!"C11: executor task invoked the loader with {fmtOld givenSorted}, spec expects {fmtOld want}"
          if bulk != t.bulk then fail s!"wrong loader kind {kind} for task"
          let wantReload := want.all (·.2.isSome)
          if isReload != wantReload then fail s!"C11: loader kind {kind} but spec expects {if wantReload then "reload" else "load"}"
          if !isCont then modify fun c => { c with queue := c.queue.drop 1 }
          -- the task registers (startCall) all of its keys before its first loader invocation
          let mut s := (← get).s
          let mut allCids := t.cids
          if !isCont then
            for (k, _) in t.keys.mergeSort (fun a b => a.1 ≤ b.1) do
              let cid ← freshCid
              let (s', fresh) := startCall s k cid
              if !fresh then fail s!"C08: loader invoked for key {k} while a load of it is in flight"
              s := s'
              allCids := allCids ++ [(k, cid)]
          setS s
          let cids := want.map (fun p => (p.1, ((allCids.find? (·.1 == p.1)).map (·.2)).getD 0))
          setTop { f with laterTask := later.map (fun lt => { lt with cids := allCids }),
                          openCall := some { keys := cids, isRefresh := true, bulk := t.bulk, manual := t.manual } }
  | _ => fail s!"bad call line {l.toks}"

def errTok : LoadOutcome → String
  | .ok _ => "nil" | .err _ => "err" | .notFound _ => "nf" | .panic => "panic"

/-- a `ret` line: the loader returned -/
def retOp (l : Line) : M Unit := do
  let atomics ← accountEvents l.evs
  resolveOrFail [] atomics "ret"
  let f ← topFrame
  match f.openCall with
  | none => fail "ret without call"
  | some oc =>
    for (k, _) in oc.keys do
      modify fun c => if c.deferred then { c with k1risk := c.k1risk || c.dirty.contains k, dirty := k :: c.dirty } else c
    let c ← get
    match l.toks with
    | [o] =>
      if !oc.bulk then
        let o ← parseOutcome o
        setS (recordLoad c.s o)
        match oc.keys with
        | [(k, cid)] =>
          let pend : List (PAct × Option (List String)) := [(.finish k cid oc.isRefresh false o, none)]
          let mut f := { f with openCall := none, pending := pend }
          if !oc.isRefresh then
            -- direct load of Get: returns the loader's value and error
            let v := match o with | .ok v | .err v | .notFound v => v | .panic => 0
            f := { f with expect := some (if o == .panic then ["panic"] else [toString v, errTok o]) }
          else
            if o == .panic then f := { f with expect := some ["panic"] }
            match oc.manual with
            | some rid =>
              let v := match o with | .ok v | .err v | .notFound v => v | .panic => 0
              if o != .panic then
                modify fun c => { c with chanExpect := c.chanExpect ++ [(rid, s!"{k}:{v}:{errTok o}")] }
            | none => pure ()
          setTop f
        | _ => fail "single load with several keys"
      else
        -- bulk outcome: ok:k=v,..  err:k=v,..  pan
        let (tag, kvs) : String × List (Nat × Nat) := match o.splitOn ":" with
          | [t] => (t, [])
          | t :: rest => (t, parseKV (":".intercalate rest))
          | [] => ("", [])
        let whole : LoadOutcome := if tag == "ok" then .ok 0 else if tag == "err" then .err 0 else .panic
        setS (recordLoad c.s whole)
        let mut pend : List (PAct × Option (List String)) := []
        -- what BulkGet returns on the loader's word: Spec.bulkSupplied (the requested-and-missing keys the loader supplied)
        let loaded : List (Nat × Nat) := if tag == "ok" then bulkSupplied (oc.keys.map (·.1)) kvs else []
        let mut chanParts : List (Nat × String) := []
        for (k, cid) in oc.keys do
          let oK : LoadOutcome :=
            if tag == "ok" then (match kvs.find? (·.1 == k) with | some p => .ok p.2 | none => .notFound 0)
            else if tag == "err" then .err 0 else .panic
          pend := pend ++ [(.finish k cid oc.isRefresh false oK, none)]
          let v : Nat := match oK with | .ok v => v | _ => (match kvs.find? (fun (p : Nat × Nat) => p.1 == k) with | some p => p.2 | none => 0)
          let errT := match oK with | .notFound _ => "nf" | _ => (if tag == "ok" then "nil" else if tag == "err" then "err" else "panic")
          chanParts := chanParts ++ [(k, s!"{k}:{v}:{errT}")]
        -- keys the loader volunteered are cached (fake calls) but not returned by BulkGet;
        -- a bulk refresh lists them in its result (the implementation's choice; no property constrains it)
        if tag != "pan" then
          for (k, v) in bulkVolunteered (oc.keys.map (·.1)) kvs do
            if true then
              if tag == "ok" then
                pend := pend ++ [(.finish k 0 oc.isRefresh true (.ok v), none)]
              else
                pend := pend ++ [(.finish k 0 oc.isRefresh true (.err v), none)]
              chanParts := chanParts ++ [(k, s!"{k}:{v}:{if tag == "ok" then "nil" else "err"}")]
        let mut f := { f with openCall := none, pending := pend }
        if !oc.isRefresh then
          f := { f with loaded := loaded, failed := if tag == "ok" then none else some (if tag == "err" then "err" else "panic") }
        else if tag == "pan" then f := { f with failed := some "panic" }
        if tag == "pan" then
          -- the panic propagates out of the task: its remaining part never runs, and (C08) it must
          -- leave no in-flight record behind
          match f.laterTask with
          | some lt =>
            let mut s := (← get).s
            for (k, _) in lt.keys do
              let cid := ((lt.cids.find? (·.1 == k)).map (·.2)).getD 0
              s := (finishCall (← get).cfg s k cid true false .panic).1
              s := s.clearInflight k
            setS s
          | none => pure ()
          f := { f with laterTask := none, chanAcc := [] }
        else
          match oc.manual with
          | some rid =>
            let acc := f.chanAcc ++ chanParts.map (·.2)
            if f.laterTask.isNone then
              let keyOf (x : String) : Nat := ((x.splitOn ":").head?.bind (·.toNat?)).getD 0
              let body := joinComma (acc.mergeSort (fun a b => keyOf a ≤ keyOf b))
              modify fun c => { c with chanExpect := c.chanExpect ++ [(rid, body)] }
              f := { f with chanAcc := [] }
            else
              f := { f with chanAcc := acc }
          | none => pure ()
        setTop f
    | _ => fail s!"bad ret line {l.toks}"

def endOp (l : Line) : M Unit := do
  let atomics ← accountEvents l.evs
  let f ← topFrame
  if f.openCall.isSome then fail "end with open call"
  resolveOrFail f.pending atomics s!"end of {f.kind}"
  let c ← get
  -- a reload handed to a synchronous executor must have run inside the operation (C11)
  if !c.deferred && !c.queue.isEmpty then
    fail s!"C11: a reload was due (stale read or explicit refresh) but the loader was not invoked: {c.queue.map (fun t => fmtOld t.keys)}"
  if f.kind == "runexec" && !c.queue.isEmpty then
    fail s!"C11: executor ran but a queued reload did not invoke the loader: {c.queue.map (fun t => fmtOld t.keys)}"
  if !f.directKeys.isEmpty && f.failed != some "panic" then
    fail s!"C10: keys {f.directKeys} were missing but the loader was not invoked"
  if f.laterTask.isSome then fail "C11: bulk refresh did not reload its present keys"
  -- result
  let chansTok := l.res.find? (·.startsWith "chans:")
  let res := l.res.filter (fun t => !t.startsWith "chans:")
  let expect : Option (List String) :=
    if f.kind == "bulkget" then
      match f.failed with
      | some "panic" => some ["panic"]
      | some e => some [joinComma ((f.hits.mergeSort (fun a b => a.1 ≤ b.1)).map (fun p => s!"{p.1}={p.2}")), e]
      | none =>
        let all := (f.hits ++ f.loaded).mergeSort (fun a b => a.1 ≤ b.1)
        some [joinComma (all.map (fun p => s!"{p.1}={p.2}")), "nil"]
    else if f.failed == some "panic" then some ["panic"]
    else f.expect
  match expect with
  | some ex =>
      -- a pending manual-refresh channel is identified by its id only after delivery; strip ids
      let norm (t : List String) := t.map (fun x => if x.startsWith "chan#" then "chan" else x)
      if normToks (norm ex) != normToks (norm res) then fail s!"{f.kind}: implementation returned {res}, spec expects {ex}"
  | none => fail s!"{f.kind}: operation ended but the spec has no result (loader never returned?)"
  modify fun c => { c with frames := c.frames.drop 1 }
  if (← get).frames.isEmpty then endOfTopLevel chansTok

def quiesce (l : Line) : M Unit := do
  let atomics ← accountEvents l.evs
  resolveOrFail [] atomics "quiesce"
  let c ← get
  if !c.owed.isEmpty then
    fail s!"C06: atomic deletion event(s) never delivered to OnDeletion: {c.owed.map (fun e => s!"{e.key}:{e.val}:{e.cause.toString}")}"
  if !c.chanExpect.isEmpty then fail s!"C11: refresh results never delivered: {c.chanExpect}"
  if !c.s.inflight.isEmpty then pure ()

def parseTbl (toks : List String) : Tbl := Id.run do
  let mut t : Tbl := {}
  for tok in toks do
    match tok.splitOn "=" with
    | ["*", d] => t := { t with dflt := (parseInt? d).getD 0 }
    | [k, d] => match k.toNat?, parseInt? d with
      | some k, some d => t := { t with ents := t.ents ++ [(k, d)] }
      | _, _ => pure ()
    | _ => pure ()
  return t

def cfgLine (l : Line) : M Unit := do
  let mut cfg : Cfg := {}
  let mut deferred := false
  let mut clock0 : Int := 0
  for t in l.toks do
    match t.splitOn "=" with
    | ["bound", v] => match parseBound v with | .ok b => cfg := { cfg with bound := b } | .error e => fail e
    | ["expiry", v] => match parseKind v with | .ok b => cfg := { cfg with expiry := b } | .error e => fail e
    | ["refresh", v] => match parseKind v with | .ok b => cfg := { cfg with refresh := b } | .error e => fail e
    | ["exec", v] => deferred := v == "deferred"
    | ["clock0", v] => clock0 := (parseInt? v).getD 0
    | _ => pure ()
  let mx := match cfg.bound with | .none => none | .size n => some n | .weight n => some n
  modify fun _ => ({ cfg := cfg, deferred := deferred, s := { now := clock0, maximum := mx } } : CS)

def step (l : Line) : M Unit := do
  match l.kind with
  | "" => pure ()
  | "#" => pure ()
  | "cfg" => cfgLine l
  | "tbl" =>
      match l.toks with
      | name :: rest =>
        let t := parseTbl rest
        modify fun c => { c with cfg := match name with
          | "expcreate" => { c.cfg with expCreate := t } | "expupdate" => { c.cfg with expUpdate := t }
          | "expread" => { c.cfg with expRead := t } | "refcreate" => { c.cfg with refCreate := t }
          | "refupdate" => { c.cfg with refUpdate := t } | "refreload" => { c.cfg with refReload := t }
          | "reffail" => { c.cfg with refFail := t } | _ => c.cfg }
      | [] => fail "bad tbl line"
  | "wt" => modify fun c => { c with cfg := { c.cfg with wt := l.toks.filterMap (·.toNat?) } }
  | "op" => simpleOp l
  | "begin" => beginOp l
  | "call" => callOp l
  | "ret" => retOp l
  | "end" => endOp l
  | "quiesce" => quiesce l
  | "hang" => fail "C08: an operation never returned (it waits on an in-flight load record that nobody will complete)"
  | k => fail s!"unknown line kind {k}"

end OtterVerif.Spec.Check
