/-
  Spec.Bulk — the shape of a BulkGet, as pure functions (used by the judge `Spec.Check` for the keys it expects the loader to be
  asked for and for the result it expects, and by the theorems of `Props.C10`).

  A BulkGet looks its keys up one by one, in request order, skipping a key it has already seen: a visible entry is a hit (the
  read counts and may move its deadline), anything else is a miss.  The bulk loader is asked for exactly the misses.  What is
  returned: the hits, and those misses for which the loader supplied a value.  Whatever else the loader supplied is volunteered:
  cached, not returned.
-/
import OtterVerif.Spec.Core

namespace OtterVerif.Spec

structure BulkPlan where
  s : State
  hits : List (Nat × Nat) := []
  misses : List Nat := []

def bulkSeen (p : BulkPlan) (k : Nat) : Bool := p.hits.any (·.1 == k) || p.misses.contains k

def bulkStep (cfg : Cfg) (p : BulkPlan) (k : Nat) : BulkPlan :=
  if bulkSeen p k then p
  else match lookup cfg p.s k with
    | (s', some e) => { s := s', hits := p.hits ++ [(k, e.val)], misses := p.misses }
    | (s', none) => { s := s', hits := p.hits, misses := p.misses ++ [k] }

def bulkPlan (cfg : Cfg) (s : State) (ks : List Nat) : BulkPlan := ks.foldl (bulkStep cfg) { s := s }

/-- the requested-and-missing keys the loader supplied, in the order they were asked for -/
def bulkSupplied (misses : List Nat) (kvs : List (Nat × Nat)) : List (Nat × Nat) :=
  misses.filterMap (fun k => (kvs.find? (·.1 == k)).map (fun q => (k, q.2)))

/-- what a successful BulkGet returns -/
def bulkReturn (p : BulkPlan) (kvs : List (Nat × Nat)) : List (Nat × Nat) := p.hits ++ bulkSupplied p.misses kvs

/-- what the loader supplied without being asked: cached, not returned -/
def bulkVolunteered (misses : List Nat) (kvs : List (Nat × Nat)) : List (Nat × Nat) :=
  kvs.filter (fun q => !misses.contains q.1)

end OtterVerif.Spec
