/-
  Proofs.PolicyJust — every size eviction is justified at its moment (the converse of the bound, C07).

  `evictFromMain` hands a node to the eviction callback only in an iteration whose guard `weightedSize > maximum` held in the
  very state the node is removed from.  `Just p q` says: q is reached from p by a chain of such guarded evictions (and jitter
  draws of the admission test, which change neither the counters nor the deques).  Consequences: a policy within its maximum
  evicts nothing, and the first node evicted by a run was evicted from an over-full policy.
-/
import OtterVerif.Proofs.PolicyBound

namespace OtterVerif.Impl.Policy

/-- q is reached from p by size evictions, each performed in a state whose running total exceeded the maximum -/
inductive Just : Policy → Policy → Prop
  | done (p : Policy) : Just p p
  | evict (p q : Policy) (x : Nat) : BitVec.ult p.maximum p.weightedSize = true → Just (evictNode p x) q → Just p q
  | draw (p q : Policy) (a b : Nat) : Just (admit p a b).1 q → Just p q

theorem max_admit (p : Policy) (a b : Nat) : (admit p a b).1.maximum = p.maximum := by
  unfold admit; simp only; split
  · rfl
  · split
    · split <;> rfl
    · rfl

theorem just_go (fuel : Nat) : ∀ (p : Policy) (vq cq : Nat) (v c : Option Nat),
    Just p (evictFromMainX.go p vq cq v c fuel).1 := by
  induction fuel with
  | zero => intro p vq cq v c; unfold evictFromMainX.go; exact Just.done p
  | succ fuel ih =>
    intro p vq cq v c
    unfold evictFromMainX.go
    simp only
    generalize (if (c.isNone && cq == 1) = true then p.window.head? else c) = c'
    generalize (if (c.isNone && cq == 1) = true then 0 else cq) = cq'
    split
    · exact Just.done p
    · rename_i hg
      have hg' : BitVec.ult p.maximum p.weightedSize = true := by simpa using hg
      have hga : ∀ a b, BitVec.ult (admit p a b).1.maximum (admit p a b).1.weightedSize = true := fun a b => by
        rw [max_admit, ws_admit]; exact hg'
      split
      · split
        · exact ih _ _ _ _ _
        · split
          · exact ih _ _ _ _ _
          · exact Just.done p
      · split
        · split
          · exact ih _ _ _ _ _
          · split
            · split
              · exact ih _ _ _ _ _
              · split
                · exact Just.evict _ _ _ hg' (ih _ _ _ _ _)
                · split
                  · exact Just.evict _ _ _ hg' (ih _ _ _ _ _)
                  · split
                    · exact Just.evict _ _ _ hg' (ih _ _ _ _ _)
                    · split
                      · exact Just.evict _ _ _ hg' (ih _ _ _ _ _)
                      · split
                        · exact Just.draw _ _ _ _ (Just.evict _ _ _ (hga _ _) (ih _ _ _ _ _))
                        · exact Just.draw _ _ _ _ (Just.evict _ _ _ (hga _ _) (ih _ _ _ _ _))
            · exact Just.evict _ _ _ hg' (ih _ _ _ _ _)
        · split
          · exact ih _ _ _ _ _
          · exact Just.evict _ _ _ hg' (ih _ _ _ _ _)
        · exact Just.done p

/-- a chain that starts within the maximum contains no eviction -/
theorem Just.within {p q : Policy} (h : Just p q) (hb : BitVec.ult p.maximum p.weightedSize = false) :
    q.evicted = p.evicted := by
  induction h with
  | done p => rfl
  | evict p q x hg _ _ => rw [hb] at hg; cases hg
  | draw p q a b _ ih =>
    rw [ih (by rw [max_admit, ws_admit]; exact hb), evicted_admit]

/-- a chain that evicts anything started above the maximum -/
theorem Just.first {p q : Policy} (h : Just p q) (hne : q.evicted ≠ p.evicted) :
    BitVec.ult p.maximum p.weightedSize = true := by
  cases hb : BitVec.ult p.maximum p.weightedSize with
  | true => rfl
  | false => exact absurd (h.within hb) hne

theorem max_evictFromWindow (p : Policy) : (evictFromWindow p).1.maximum = p.maximum := by
  have key : ∀ fuel (p : Policy) (n first : Option Nat), (evictFromWindow.go p n first fuel).1.maximum = p.maximum := by
    intro fuel
    induction fuel with
    | zero => intro p n first; unfold evictFromWindow.go; rfl
    | succ fuel ih =>
      intro p n first
      unfold evictFromWindow.go
      split
      · rfl
      · split
        · rfl
        · simp only
          split
          · rw [ih]
            rename_i id _
            have hd : ∀ (q : Policy) (a b : Nat), (dqDelete q a b).maximum = q.maximum := by
              intro q a b
              unfold dqDelete
              cases linkedIn q b with
              | none => rfl
              | some q' => simp only; unfold setDq; split <;> (try split) <;> rfl
            have hp : ∀ (q : Policy) (a b : Nat), (dqPushBack q a b).maximum = q.maximum := by
              intro q a b
              unfold dqPushBack setDq; split <;> (try split) <;> rfl
            show (dqPushBack (dqDelete (p.setNode { p.node id with qt := 1 }) 0 id) 1 id).maximum = p.maximum
            rw [hp, hd]; rfl
          · exact ih _ _ _
  unfold evictFromWindow
  exact key _ _ _ _

/-- the main loop of evictNodes is a chain of justified evictions starting from the state the window pass left -/
theorem just_evictNodes (p : Policy) : Just (evictFromWindow p).1 (evictNodes p) := by
  unfold Policy.evictNodes evictFromMain evictFromMainX
  exact just_go _ _ _ _ _ _

/-- **a policy within its maximum loses nothing to size eviction** -/
theorem evictNodes_within_bound (p : Policy) (hb : BitVec.ult p.maximum p.weightedSize = false) :
    (evictNodes p).evicted = p.evicted := by
  have hk := wk_evictFromWindow p
  have h := (just_evictNodes p).within (by rw [max_evictFromWindow, hk.2]; exact hb)
  rw [h, evicted_evictFromWindow]

/-- if evictNodes evicted anything, the running total exceeded the maximum when it started -/
theorem evictNodes_evicts_only_above (p : Policy) (hne : (evictNodes p).evicted ≠ p.evicted) :
    BitVec.ult p.maximum p.weightedSize = true := by
  cases hb : BitVec.ult p.maximum p.weightedSize with
  | true => rfl
  | false => exact absurd (evictNodes_within_bound p hb) hne

/-! ### a new arrival is evicted on the spot only if it alone exceeds the maximum -/

theorem evicted_pushBack (q : Policy) (a b : Nat) : (dqPushBack q a b).evicted = q.evicted := by
  unfold dqPushBack setDq; split <;> (try split) <;> rfl

theorem evicted_pushFront (q : Policy) (a b : Nat) : (dqPushFront q a b).evicted = q.evicted := by
  unfold dqPushFront setDq; split <;> (try split) <;> rfl

theorem evicted_addPrefix (p : Policy) (id : Nat) : (addPrefix p id).evicted = p.evicted := by
  unfold addPrefix; simp only; split <;> split <;> rfl

theorem max_addPrefix (p : Policy) (id : Nat) : (addPrefix p id).maximum = p.maximum := by
  unfold addPrefix; simp only; split <;> split <;> rfl

/-- `add` hands the new node to the eviction callback only if its weight alone exceeds the maximum -/
theorem add_evicts_only_oversized (p : Policy) (id : Nat) (hw : BitVec.ult p.maximum (w64 (p.node id).weight) = false) :
    (add p id).evicted = p.evicted := by
  rw [add_eq]
  simp only
  split
  · exact evicted_addPrefix p id
  · split
    · rename_i hov
      rw [max_addPrefix, hw] at hov
      cases hov
    · split
      · rw [evicted_pushFront, evicted_addPrefix]
      · rw [evicted_pushBack, evicted_addPrefix]

end OtterVerif.Impl.Policy
