/-
  Proofs.TableConserve — C06's conservation law on Impl.Table, for every history:

      values written  =  values present  +  values reported          (each reported exactly once, at its removal)

  "written" is read off the API's own answers: a Set installs a value, a SetIfAbsent does iff it answers ok = true, a Compute
  whose function answered WriteOp does; nothing else installs anything.  "reported" are the atomic deletion events the steps
  return (replacement, invalidation, the removal of an expired entry by a cancelled Compute, automatic removals).  The
  induction carries `NodupKeys` (one node per key — the table is a map), shown to be preserved by every step.
-/
import OtterVerif.Proofs.TableEvict

namespace OtterVerif.Proofs.TableConserve
open OtterVerif OtterVerif.Impl.Table OtterVerif.Proofs.TableRefine OtterVerif.Proofs.TableTrace OtterVerif.Proofs.TableEvict
open OtterVerif.Spec (Cause Event Out Entry Cfg Kind)

def NodupKeys (t : Tbl) : Prop := (t.map (·.1)).Nodup

theorem nodup_unlink (t : Tbl) (k : Nat) (h : NodupKeys t) : NodupKeys (unlink t k) := by
  unfold NodupKeys unlink at *
  exact List.Nodup.sublist (List.Sublist.map _ List.filter_sublist) h

theorem not_mem_unlink (t : Tbl) (k : Nat) : k ∉ (unlink t k).map (·.1) := by
  unfold unlink
  intro hm
  rw [List.mem_map] at hm
  obtain ⟨p, hp, hk⟩ := hm
  have := (List.mem_filter.mp hp).2
  simp [hk] at this

theorem nodup_store (t : Tbl) (k : Nat) (n : TNode) (h : NodupKeys t) : NodupKeys (store t k n) := by
  have h1 := nodup_unlink t k h
  have h2 := not_mem_unlink t k
  unfold NodupKeys at *
  show ((k, n) :: unlink t k |>.map (·.1)).Nodup
  rw [List.map_cons, List.nodup_cons]
  exact ⟨h2, h1⟩

theorem unlink_absent (t : Tbl) (k : Nat) (h : k ∉ t.map (·.1)) : unlink t k = t := by
  unfold unlink
  rw [List.filter_eq_self]
  intro p hp
  have : p.1 ≠ k := fun he => h (by rw [List.mem_map]; exact ⟨p, hp, he⟩)
  simpa using this

/-- one node per key: removing a key shortens the table by exactly one iff the key was mapped -/
theorem length_unlink (t : Tbl) (k : Nat) (h : NodupKeys t) :
    (unlink t k).length + (if (lookup t k).isSome then 1 else 0) = t.length := by
  induction t with
  | nil => rfl
  | cons p rest ih =>
    have hnd : p.1 ∉ rest.map (·.1) ∧ NodupKeys rest := by
      unfold NodupKeys at h ⊢
      rw [List.map_cons, List.nodup_cons] at h
      exact h
    by_cases hk : p.1 = k
    · have hl : lookup (p :: rest) k = some p.2 := by unfold lookup; simp [hk]
      have hu : unlink (p :: rest) k = unlink rest k := by unfold unlink; simp [hk]
      rw [hl, hu, unlink_absent rest k (by rw [← hk]; exact hnd.1)]
      simp
    · have hl : lookup (p :: rest) k = lookup rest k := by unfold lookup; simp [hk]
      have hu : unlink (p :: rest) k = p :: unlink rest k := by unfold unlink; simp [hk]
      rw [hl, hu]
      have := ih hnd.2
      simp only [List.length_cons]
      omega

theorem length_store (t : Tbl) (k : Nat) (n : TNode) : (store t k n).length = (unlink t k).length + 1 := rfl

/-- how many values a step installs, read off the operation and its own answer -/
def installs : XOp → Out → Nat
  | .base (.set _ _), _ => 1
  | .base (.setIfAbsent _ _), .valOk _ true => 1
  | .base (.compute _ (.write _)), _ => 1
  | _, _ => 0

theorem atomicSet_events (c : TCfg) (k v : Nat) (old : Option TNode) (now : Int) (kd : RefKind) :
    (atomicSet c k v old now kd).2.length = (if old.isSome then 1 else 0) := by
  unfold atomicSet
  cases old <;> rfl

/-- **one step conserves values** and keeps one node per key -/
theorem xistep_conserves (c : Cfg) (s : IState) (op : XOp) (h : NodupKeys s.t) :
    (xistep c s op).1.t.length + (xistep c s op).2.2.length = s.t.length + installs op (xistep c s op).2.1 ∧
    NodupKeys (xistep c s op).1.t := by
  have hlen := fun k => length_unlink s.t k h
  cases op with
  | evict k same =>
    show (evictNode s.t k same s.now).1.length + (evictNode s.t k same s.now).2.length = s.t.length + 0 ∧ NodupKeys (evictNode s.t k same s.now).1
    rcases evict_reports_iff_removed s.t k same s.now with h1 | ⟨ev, h1, h2, _, h4⟩
    · rw [h1.1, h1.2]; exact ⟨rfl, h⟩
    · rw [h1, h2]
      have := hlen k
      rw [h4] at this
      exact ⟨by simpa using this, nodup_unlink _ _ h⟩
  | base o =>
    cases o with
    | advance d => exact ⟨rfl, h⟩
    | get k =>
      show (getIfPresent (cfgOf c) s.t k s.now).1.length + 0 = s.t.length + 0 ∧ NodupKeys (getIfPresent (cfgOf c) s.t k s.now).1
      unfold getIfPresent
      cases hl : lookup s.t k with
      | none => exact ⟨rfl, h⟩
      | some n =>
        have := hlen k
        rw [hl] at this
        cases hx : hasExpired n s.now
        · simp only [hx, Bool.false_eq_true, ↓reduceIte]
          exact ⟨by rw [length_store]; simpa using this, nodup_store _ _ _ h⟩
        · simp only [hx, ↓reduceIte]; exact ⟨by first | rfl | trivial, h⟩
    | invalidate k =>
      show (invalidate s.t k s.now).1.length + (invalidate s.t k s.now).2.2.length = s.t.length + 0 ∧ NodupKeys (invalidate s.t k s.now).1
      unfold invalidate
      cases hl : lookup s.t k with
      | none => exact ⟨rfl, h⟩
      | some n =>
        have := hlen k
        rw [hl] at this
        exact ⟨by simpa using this, nodup_unlink _ _ h⟩
    | compute k act =>
      show (computeStep (cfgOf c) s.t k act s.now).1.length + (computeStep (cfgOf c) s.t k act s.now).2.2.length
          = s.t.length + installs (.base (.compute k act)) (computeStep (cfgOf c) s.t k act s.now).2.1 ∧
        NodupKeys (computeStep (cfgOf c) s.t k act s.now).1
      have := hlen k
      unfold computeStep
      cases act with
      | panic => exact ⟨rfl, h⟩
      | bad => exact ⟨rfl, h⟩
      | write v =>
        simp only [installs]
        refine ⟨?_, nodup_store _ _ _ h⟩
        rw [length_store, atomicSet_events]
        omega
      | invalidate =>
        cases hl : lookup s.t k with
        | none => exact ⟨rfl, h⟩
        | some n => rw [hl] at this; exact ⟨by simpa [installs] using this, nodup_unlink _ _ h⟩
      | cancel =>
        cases hl : lookup s.t k with
        | none => exact ⟨rfl, h⟩
        | some n =>
          rw [hl] at this
          cases hx : hasExpired n s.now
          · simp only [hx, Bool.false_eq_true, ↓reduceIte]; exact ⟨by first | rfl | trivial, h⟩
          · simp only [hx, ↓reduceIte]; exact ⟨by simpa [installs] using this, nodup_unlink _ _ h⟩
    | set k v =>
      show (Impl.Table.set (cfgOf c) s.t k v false s.now).1.length + (Impl.Table.set (cfgOf c) s.t k v false s.now).2.2.length
          = s.t.length + 1 ∧ NodupKeys (Impl.Table.set (cfgOf c) s.t k v false s.now).1
      have := hlen k
      unfold Impl.Table.set
      simp only [Bool.false_and, Bool.false_eq_true, ↓reduceIte]
      cases hl : lookup s.t k with
      | none =>
        rw [hl] at this
        refine ⟨?_, nodup_store _ _ _ h⟩
        simp only [length_store, atomicSet_events]
        simpa using this
      | some o =>
        rw [hl] at this
        have hst : ∀ n, (store s.t k n).length + 1 = s.t.length + 1 := by
          intro n; rw [length_store]; simpa using this
        cases hx : hasExpired o s.now <;>
          simp only [hx, Bool.not_false, Bool.not_true, Bool.false_eq_true, ↓reduceIte, atomicSet_events, Option.isSome_some] <;>
          exact ⟨hst _, nodup_store _ _ _ h⟩
    | setIfAbsent k v =>
      show (Impl.Table.set (cfgOf c) s.t k v true s.now).1.length + (Impl.Table.set (cfgOf c) s.t k v true s.now).2.2.length
          = s.t.length + installs (.base (.setIfAbsent k v)) (Impl.Table.set (cfgOf c) s.t k v true s.now).2.1 ∧
        NodupKeys (Impl.Table.set (cfgOf c) s.t k v true s.now).1
      have := hlen k
      unfold Impl.Table.set
      simp only [Bool.true_and, ↓reduceIte]
      cases hl : lookup s.t k with
      | none =>
        rw [hl] at this
        simp only [Bool.false_eq_true, ↓reduceIte, installs]
        refine ⟨?_, nodup_store _ _ _ h⟩
        simp only [length_store, atomicSet_events]
        simpa using this
      | some o =>
        rw [hl] at this
        cases hx : hasExpired o s.now
        · simp only [hx, Bool.not_false, ↓reduceIte, installs]
          exact ⟨by rw [length_store]; simpa using this, nodup_store _ _ _ h⟩
        · simp only [hx, Bool.not_true, Bool.false_eq_true, ↓reduceIte, installs, atomicSet_events, Option.isSome_some]
          exact ⟨by rw [length_store]; simpa using this, nodup_store _ _ _ h⟩

def totalInstalls : List XOp → List (Out × List Event) → Nat
  | op :: ops, r :: rs => installs op r.1 + totalInstalls ops rs
  | _, _ => 0

def totalEvents (rs : List (Out × List Event)) : Nat := (rs.map (·.2.length)).sum

/-- **conservation over every history** (automatic removals at arbitrary points included): what was present at the start
    plus what the operations installed is what is present at the end plus what was reported -/
theorem history_conserves (c : Cfg) (ops : List XOp) : ∀ (s : IState), NodupKeys s.t →
    (xirun c s ops).1.t.length + totalEvents (xirun c s ops).2 = s.t.length + totalInstalls ops (xirun c s ops).2 ∧
    NodupKeys (xirun c s ops).1.t := by
  induction ops with
  | nil => intro s h; exact ⟨rfl, h⟩
  | cons op rest ih =>
    intro s h
    have h1 := xistep_conserves c s op h
    have h2 := ih (xistep c s op).1 h1.2
    refine ⟨?_, h2.2⟩
    show (xirun c (xistep c s op).1 rest).1.t.length + totalEvents ((xistep c s op).2 :: (xirun c (xistep c s op).1 rest).2)
      = s.t.length + (installs op (xistep c s op).2.1 + totalInstalls rest (xirun c (xistep c s op).1 rest).2)
    have hte : totalEvents ((xistep c s op).2 :: (xirun c (xistep c s op).1 rest).2)
        = (xistep c s op).2.2.length + totalEvents (xirun c (xistep c s op).1 rest).2 := by
      unfold totalEvents; simp
    rw [hte]
    omega

/-- from the empty cache: written = present + reported -/
theorem conservation_from_empty (c : Cfg) (ops : List XOp) (now0 : Int) :
    totalInstalls ops (xirun c { now := now0, t := [] } ops).2
      = (xirun c { now := now0, t := [] } ops).1.t.length + totalEvents (xirun c { now := now0, t := [] } ops).2 := by
  have := (history_conserves c ops { now := now0, t := [] } (by unfold NodupKeys; exact List.nodup_nil)).1
  simp only [List.length_nil, Nat.zero_add] at this
  omega

end OtterVerif.Proofs.TableConserve
