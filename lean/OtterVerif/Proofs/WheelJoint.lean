/-
  Proofs.WheelJoint — the timer wheel loses nothing (C05: "no entry present but unknown to the expiration policy"), and the
  sweep theorem stated on the cache's contents (C13).

  `Has w n d`: node n is scheduled with deadline d.  Shown: Add schedules the node and keeps every other node scheduled;
  Delete unschedules only its node; DeleteExpired(T) keeps a scheduled node scheduled (with its deadline) or hands it to the
  expiration callback — through the per-node step, the bucket, the level and the cascade over the levels.
  Joint model with the table (`live` = the mapped nodes with their deadlines): for every sequence of insertions, removals,
  deadline changes and sweeps, every mapped node is scheduled; after a sweep at T every mapped node is correctly placed for T,
  i.e. neither its deadline nor the wheel time at which it was scheduled lies a full tick before T.
-/
import OtterVerif.Proofs.WheelSweep

namespace OtterVerif.Impl.Wheel

/-- node n is scheduled with deadline d -/
def Has (w : Wheel) (n d : Nat) : Prop := ∃ l s x, x ∈ w.bucket l s ∧ x.id = n ∧ x.d = d

/-- every scheduled deadline is a 64-bit value -/
def Db (w : Wheel) : Prop := AllAt (fun _ _ x => x.d < two64) w

theorem db_of_inv {t : Nat} {w : Wheel} (h : InvAt t w) : Db w := fun l s x hx =>
  Nat.lt_of_le_of_lt (h.2 l s x hx).de (h.2 l s x hx).bd

theorem has_add_other (w : Wheel) (n' d' n d : Nat) (hsh : Shape w) (ht : w.time < two64) (hd : d' < two64)
    (h : Has w n d) : Has (add w n' d') n d := by
  obtain ⟨hl, hs, _⟩ := findBucket_good w.time d' n' ht hd
  obtain ⟨l, s, x, hx, h1, h2⟩ := h
  refine ⟨l, s, x, ?_, h1, h2⟩
  unfold add
  rw [bucket_setBucket w _ _ l s _ hsh hl hs]
  split
  · rename_i e
    rw [e.1, e.2] at hx
    exact List.mem_append_left _ hx
  · exact hx

theorem has_add_self (w : Wheel) (n d : Nat) (hsh : Shape w) (ht : w.time < two64) (hd : d < two64) : Has (add w n d) n d := by
  obtain ⟨hl, hs, _⟩ := findBucket_good w.time d n ht hd
  refine ⟨(findBucket w.time d).1, (findBucket w.time d).2, { id := n, d := d, e := max d w.time }, ?_, rfl, rfl⟩
  unfold add
  rw [bucket_setBucket w _ _ _ _ _ hsh hl hs, if_pos ⟨rfl, rfl⟩]
  exact List.mem_append_right _ (List.mem_singleton.mpr rfl)

theorem has_delete_other (w : Wheel) (n' n d : Nat) (hne : n ≠ n') (h : Has w n d) : Has (delete w n') n d := by
  obtain ⟨l, s, x, hx, h1, h2⟩ := h
  refine ⟨l, s, x, ?_, h1, h2⟩
  rw [bucket_delete]
  exact List.mem_filter.mpr ⟨hx, by rw [h1]; simpa using hne⟩

theorem not_has_delete (w : Wheel) (n d : Nat) : ¬ Has (delete w n) n d := by
  rintro ⟨l, s, x, hx, h1, _⟩
  rw [bucket_delete] at hx
  have := (List.mem_filter.mp hx).2
  simp [h1] at this

/-- scheduled, or handed to the expiration callback -/
def Keep (acc : Wheel × List Nat) (n d : Nat) : Prop := Has acc.1 n d ∨ n ∈ acc.2

theorem sweepEnt_keep (acc : Wheel × List Nat) (x : Ent) (hsh : Shape acc.1) (ht : acc.1.time < two64) (hdx : x.d < two64) :
    (∀ n d, Keep acc n d → Keep (sweepEnt acc x) n d) ∧ Keep (sweepEnt acc x) x.id x.d := by
  unfold sweepEnt
  split
  · exact ⟨fun n d h => h.elim Or.inl (fun hm => Or.inr (List.mem_append_left _ hm)),
      Or.inr (List.mem_append_right _ (List.mem_singleton.mpr rfl))⟩
  · exact ⟨fun n d h => h.elim (fun hh => Or.inl (has_add_other _ _ _ _ _ hsh ht hdx hh)) Or.inr,
      Or.inl (has_add_self _ _ _ hsh ht hdx)⟩

theorem foldl_keep (T : Nat) (hT : T < two64) (xs : List Ent) :
    ∀ (acc : Wheel × List Nat), acc.1.time = T → Shape acc.1 → (∀ x, x ∈ xs → x.d < two64) →
      (∀ n d, Keep acc n d → Keep (xs.foldl sweepEnt acc) n d) ∧ (∀ x, x ∈ xs → Keep (xs.foldl sweepEnt acc) x.id x.d) := by
  induction xs with
  | nil => intro acc _ _ _; exact ⟨fun _ _ h => h, fun x hx => by cases hx⟩
  | cons x xs ih =>
    intro acc ht hsh hd
    rw [List.foldl_cons]
    have t1 : (sweepEnt acc x).1.time = T := by rw [sweepEnt_time]; exact ht
    have hk := sweepEnt_keep acc x hsh (by rw [ht]; exact hT) (hd x List.mem_cons_self)
    have := ih (sweepEnt acc x) t1 (sweepEnt_shape acc x hsh) (fun y hy => hd y (List.mem_cons_of_mem _ hy))
    refine ⟨fun n d h => this.1 n d (hk.1 n d h), fun y hy => ?_⟩
    rcases List.mem_cons.mp hy with e | e
    · rw [e]; exact this.1 _ _ hk.2
    · exact this.2 y e

theorem sweepBucket_keep (w : Wheel) (T lvl slot : Nat) (hT : T < two64) (hwt : w.time = T) (hsh : Shape w) (hl : lvl < 5)
    (hs : slot < buckets lvl) (hdb : Db w) (n d : Nat) (h : Has w n d) : Keep (sweepBucket w lvl slot) n d := by
  unfold sweepBucket
  have hf := foldl_keep T hT (w.bucket lvl slot) (w.setBucket lvl slot [], []) hwt (shape_setBucket w _ _ _ hsh)
    (fun x hx => hdb lvl slot x hx)
  obtain ⟨l, s, x, hx, h1, h2⟩ := h
  by_cases e : l = lvl ∧ s = slot
  · rw [e.1, e.2] at hx
    have := hf.2 x hx
    rw [h1, h2] at this
    exact this
  · refine hf.1 n d (Or.inl ⟨l, s, x, ?_, h1, h2⟩)
    rw [bucket_setBucket w lvl slot l s [] hsh hl hs, if_neg e]
    exact hx

theorem levelStep_keep (T lvl pt k : Nat) (hT : T < two64) (hl : lvl < 5) (acc : Wheel × List Nat) (hwt : acc.1.time = T)
    (hsh : Shape acc.1) (hdb : Db acc.1) (n d : Nat) (h : Keep acc n d) : Keep (levelStep lvl pt acc k) n d := by
  unfold levelStep
  rcases h with hh | hm
  · have hs : slotOf lvl pt k < buckets lvl := Nat.mod_lt _ (buckets_pos lvl)
    rcases sweepBucket_keep acc.1 T lvl (slotOf lvl pt k) hT hwt hsh hl hs hdb n d hh with a | b
    · exact Or.inl a
    · exact Or.inr (List.mem_append_right _ b)
  · exact Or.inr (List.mem_append_left _ hm)

theorem level_keep (T lvl pt : Nat) (hT : T < two64) (hl : lvl < 5) (m : Nat) :
    ∀ (w : Wheel), w.time = T → Shape w → Db w → ∀ n d, Has w n d →
      Keep ((List.range m).foldl (levelStep lvl pt) (w, [])) n d := by
  induction m with
  | zero => intro w _ _ _ n d h; exact Or.inl h
  | succ m ih =>
    intro w ht hsh hdb n d h
    have hk := ih w ht hsh hdb n d h
    obtain ⟨t1, sh1, a1⟩ := level_steps (fun _ _ x => x.d < two64) T lvl pt hT hl
      (fun l s y hg => Nat.lt_of_le_of_lt hg.de hg.bd) (fun _ _ _ h => h) m w ht hsh hdb
    rw [List.range_succ, List.foldl_append, List.foldl_cons, List.foldl_nil]
    exact levelStep_keep T lvl pt m hT hl _ t1 sh1 (fun l s x hx => (a1 l s x hx).2) n d hk

theorem sweepLevel_keep (w : Wheel) (T lvl pt delta : Nat) (hT : T < two64) (hl : lvl < 5) (hwt : w.time = T) (hsh : Shape w)
    (hdb : Db w) (n d : Nat) (h : Has w n d) : Keep (sweepLevel w lvl pt delta) n d := by
  rw [sweepLevel_eq]
  exact level_keep T lvl pt hT hl _ w hwt hsh hdb n d h

theorem go_keep (fuel : Nat) : ∀ (w : Wheel) (ex : List Nat) (i t T : Nat), t ≤ T → T < two64 → w.time = T → Shape w → Db w →
    ∀ n d, Keep (w, ex) n d → Keep (deleteExpired.go T t w ex i fuel) n d := by
  induction fuel with
  | zero => intro w ex i t T _ _ _ _ _ n d h; rw [go_zero]; exact h
  | succ fuel ih =>
    intro w ex i t T htT hT hwt hsh hdb n d h
    rw [go_succ]
    by_cases hge : i ≥ 5
    · rw [if_pos hge]; exact h
    · rw [if_neg hge]
      have hi : i < 5 := by omega
      have hle : t >>> shift i ≤ T >>> shift i := by
        rw [Nat.shiftRight_eq_div_pow, Nat.shiftRight_eq_div_pow]; exact Nat.div_le_div_right htT
      have hct : T >>> shift i < two64 := Nat.lt_of_le_of_lt (Nat.shiftRight_le _ _) hT
      rw [delta_eq _ _ hle hct]
      by_cases hz : ((T >>> shift i - t >>> shift i) == 0) = true
      · rw [if_pos hz]; exact h
      · rw [if_neg hz]
        obtain ⟨t1, sh1, a1⟩ := sweepLevel_allAt (fun _ _ x => x.d < two64) w T i (t >>> shift i)
          (T >>> shift i - t >>> shift i) hT hi
          (fun l s y hg => Nat.lt_of_le_of_lt hg.de hg.bd) (fun _ _ _ h => h) hwt hsh hdb
        apply ih _ _ (i + 1) t T htT hT t1 sh1 (fun l s x hx => (a1 l s x hx).2) n d
        rcases h with hh | hm
        · rcases sweepLevel_keep w T i (t >>> shift i) _ hT hi hwt hsh hdb n d hh with a | b
          · exact Or.inl a
          · exact Or.inr (List.mem_append_right _ b)
        · exact Or.inr (List.mem_append_left _ hm)

/-- **DeleteExpired loses nothing**: a scheduled node is still scheduled (with its deadline) afterwards, or it was handed to
    the expiration callback -/
theorem deleteExpired_keep (w : Wheel) (T : Nat) (hT : T < two64) (htT : w.time ≤ T) (h : InvAt w.time w) (n d : Nat) (hh : Has w n d) :
    Has (deleteExpired w T).1 n d ∨ n ∈ (deleteExpired w T).2 := by
  rw [deleteExpired_eq]
  have hsh : Shape { w with time := T } := h.1
  have hdb : Db { w with time := T } := fun l s x hx => db_of_inv h l s x hx
  exact go_keep 5 { w with time := T } [] 0 w.time T htT hT rfl hsh hdb n d (Or.inl hh)

/-! ### joint model: the table's mapped nodes and the wheel -/

structure WJ (w : Wheel) (live : List (Nat × Nat)) : Prop where
  reach : WReach w
  /-- every mapped node with a deadline is scheduled with that deadline -/
  sched : ∀ p, p ∈ live → Has w p.1 p.2
  ids : (live.map (·.1)).Nodup

theorem wj_init : WJ {} [] := ⟨WReach.init, (fun p hp => by cases hp), List.nodup_nil⟩

/-- a new node (its write event replayed): scheduled -/
theorem wj_insert {w : Wheel} {live : List (Nat × Nat)} (h : WJ w live) (n d : Nat) (hd : d < two64)
    (hn : n ∉ live.map (·.1)) : WJ (add w n d) ((n, d) :: live) := by
  have hi := wreach_inv h.reach
  refine ⟨WReach.add n d h.reach hd, fun p hp => ?_, ?_⟩
  · rcases List.mem_cons.mp hp with e | e
    · rw [e]; exact has_add_self w n d hi.2.1 hi.1 hd
    · exact has_add_other w n d _ _ hi.2.1 hi.1 hd (h.sched p e)
  · rw [List.map_cons, List.nodup_cons]; exact ⟨hn, h.ids⟩

/-- a removed node (replaced, invalidated, evicted for size): unscheduled; the others stay -/
theorem wj_remove {w : Wheel} {live : List (Nat × Nat)} (h : WJ w live) (n : Nat) :
    WJ (delete w n) (live.filter (·.1 != n)) := by
  refine ⟨WReach.del n h.reach, fun p hp => ?_, ?_⟩
  · have hm := List.mem_filter.mp hp
    exact has_delete_other w n _ _ (by simpa using hm.2) (h.sched p hm.1)
  · exact List.Nodup.sublist (List.Sublist.map _ List.filter_sublist) h.ids

/-- maintenance at clock T: DeleteExpired, then the table unlinks what the expiration callback was called for -/
def sweepLive (w : Wheel) (T : Nat) (live : List (Nat × Nat)) : List (Nat × Nat) :=
  live.filter (fun p => !((deleteExpired w T).2.contains p.1))

theorem wj_sweep {w : Wheel} {live : List (Nat × Nat)} (h : WJ w live) (T : Nat) (hle : w.time ≤ T) (hT : T < two64) :
    WJ (deleteExpired w T).1 (sweepLive w T live) := by
  have hi := wreach_inv h.reach
  refine ⟨WReach.sweep T h.reach hle hT, fun p hp => ?_, ?_⟩
  · have hm := List.mem_filter.mp hp
    rcases deleteExpired_keep w T hT hle hi.2 p.1 p.2 (h.sched p hm.1) with a | b
    · exact a
    · exfalso
      have hc := hm.2
      simp only [Bool.not_eq_eq_eq_not, Bool.not_true, List.contains_eq_mem, decide_eq_false_iff_not] at hc
      exact hc b
  · exact List.Nodup.sublist (List.Sublist.map _ List.filter_sublist) h.ids

/-- **C13 on the cache's contents**: after maintenance at T every node still mapped is scheduled in a bucket that is correct for
    T — its effective time (the later of its deadline and the wheel time at which it was scheduled) does not lie in a tick
    before T's: an entry whose deadline AND whose scheduling lie a full tick before T is gone -/
theorem c13_mapped_not_overdue {w : Wheel} {live : List (Nat × Nat)} (h : WJ w live) (T : Nat) (hle : w.time ≤ T)
    (hT : T < two64) (p : Nat × Nat) (hp : p ∈ sweepLive w T live) :
    ∃ x : Ent, x.id = p.1 ∧ x.d = p.2 ∧ x.d ≤ x.e ∧ T >>> shift 0 ≤ x.e >>> shift 0 := by
  have hj := wj_sweep h T hle hT
  obtain ⟨l, s, x, hx, h1, h2⟩ := hj.sched p hp
  have hinv := wreach_inv hj.reach
  have htime : (deleteExpired w T).1.time = T := (deleteExpired_inv w T hT hle (wreach_inv h.reach).2).1
  have hg := hinv.2.2 l s x hx
  rw [htime] at hg
  exact ⟨x, h1, h2, hg.de, good_not_overdue T l s x hg⟩

end OtterVerif.Impl.Wheel
