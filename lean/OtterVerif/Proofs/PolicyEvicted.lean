/-
  Proofs.PolicyEvicted — the list of nodes handed to the eviction callback (`evicted`) and the nodes that stop being alive.

  `Ek p p'`: the callback list only grows, and a node that was alive in p is alive in p' or has been handed to the callback.
  Shown for add, update (when the replaced node is not alive any more: the table retired it), the eviction pass, and the
  operations that change no node state.  In the joint model (Proofs.CacheJoint) this is what justifies the table's reaction
  `react`: the nodes it unlinks are exactly nodes the callback was called for.
-/
import OtterVerif.Proofs.CacheJoint

namespace OtterVerif.Impl.Policy

theorem evicted_setDq (p : Policy) (q : Nat) (l : List Nat) : (setDq p q l).evicted = p.evicted := by
  unfold setDq; split <;> (try split) <;> rfl

theorem evicted_setNode (p : Policy) (n : Node) : (p.setNode n).evicted = p.evicted := rfl

theorem evicted_discount (p : Policy) (x : Nat) : (discount p x).evicted = p.evicted := by
  unfold discount; simp only; split <;> (try split) <;> rfl

theorem evicted_dqDelete (p : Policy) (q x : Nat) : (dqDelete p q x).evicted = p.evicted := by
  unfold dqDelete
  cases linkedIn p x with
  | none => rfl
  | some q' => exact evicted_setDq _ _ _

theorem evicted_dqUpdateNode (p : Policy) (q n old : Nat) : (dqUpdateNode p q n old).evicted = p.evicted := by
  unfold dqUpdateNode
  cases linkedIn p old with
  | none => rfl
  | some q' => exact evicted_setDq _ _ _

theorem evicted_moveToBack (p : Policy) (q x : Nat) : (dqMoveToBack p q x).evicted = p.evicted := by
  unfold dqMoveToBack
  split
  · rfl
  · rw [evicted_pushBack, evicted_dqDelete]

theorem evicted_moveToFront (p : Policy) (q x : Nat) : (dqMoveToFront p q x).evicted = p.evicted := by
  unfold dqMoveToFront
  split
  · rfl
  · rw [evicted_pushFront, evicted_dqDelete]

theorem evicted_reorder (p : Policy) (q x : Nat) : (reorder p q x).evicted = p.evicted := by
  unfold reorder; split
  · exact evicted_moveToBack _ _ _
  · rfl

theorem evicted_reorderProbation (p : Policy) (x : Nat) : (reorderProbation p x).evicted = p.evicted := by
  unfold reorderProbation
  simp only
  split
  · rfl
  · split
    · exact evicted_reorder _ _ _
    · rw [evicted_setNode, evicted_pushBack, evicted_dqDelete]

theorem evicted_access (p : Policy) (x : Nat) : (access p x).evicted = p.evicted := by
  unfold access
  simp only
  show (if (p.node x).qt == 0 then reorder (p.sketchIncr (p.node x).key) 0 x
        else if (p.node x).qt == 1 then reorderProbation (p.sketchIncr (p.node x).key) x
        else reorder (p.sketchIncr (p.node x).key) 2 x).evicted = p.evicted
  split
  · rw [evicted_reorder]; rfl
  · split
    · rw [evicted_reorderProbation]; rfl
    · rw [evicted_reorder]; rfl

theorem evicted_updateNode (p : Policy) (id old : Nat) : (updateNode p id old).evicted = p.evicted := by
  unfold updateNode
  simp only
  rw [evicted_setNode, evicted_dqUpdateNode, evicted_discount, evicted_setNode]

/-- the callback list only grows; an alive node stays alive or is handed to the callback -/
def Ek (p p' : Policy) : Prop :=
  (∀ x, x ∈ p.evicted → x ∈ p'.evicted) ∧
  ∀ id, (p.node id).st = .alive → (p'.node id).st = .alive ∨ id ∈ p'.evicted

theorem Ek.refl (p : Policy) : Ek p p := ⟨fun _ h => h, fun _ h => Or.inl h⟩

theorem Ek.trans {p p' p'' : Policy} (h1 : Ek p p') (h2 : Ek p' p'') : Ek p p'' := by
  refine ⟨fun x hx => h2.1 x (h1.1 x hx), fun id ha => ?_⟩
  rcases h1.2 id ha with a | e
  · exact h2.2 id a
  · exact Or.inr (h2.1 id e)

/-- an operation that changes no node state and leaves the callback list alone -/
theorem Ek.of_same {p p' : Policy} (hn : ∀ id, (p'.node id).st = (p.node id).st) (he : p'.evicted = p.evicted) : Ek p p' :=
  ⟨fun x hx => by rw [he]; exact hx, fun id ha => Or.inl (by rw [hn id]; exact ha)⟩

theorem ek_evictNode (p : Policy) (x : Nat) (hn : (all p).Nodup) : Ek p (evictNode p x) := by
  have hk := kill_evictNode p x hn
  have he : (evictNode p x).evicted = p.evicted ++ [x] := by
    rw [evicted_evictNode]; show (makeDead p x).evicted ++ [x] = _; rw [evicted_makeDead]
  refine ⟨fun y hy => by rw [he]; exact List.mem_append_left _ hy, fun id ha => ?_⟩
  by_cases e : id = x
  · right; rw [he, e]; exact List.mem_append_right _ (List.mem_singleton.mpr rfl)
  · left; rw [hk.2.2 id e]; exact ha

/-- killing a node that is not alive (the table retired it) needs no callback -/
theorem ek_makeDead (p : Policy) (x : Nat) (hn : (all p).Nodup) (hna : (p.node x).st ≠ .alive) : Ek p (makeDead p x) := by
  have hk := kill_makeDead p x hn
  refine ⟨fun y hy => by rw [evicted_makeDead]; exact hy, fun id ha => ?_⟩
  by_cases e : id = x
  · rw [e] at ha; exact absurd ha hna
  · left; rw [hk.2.2 id e]; exact ha

theorem ek_of_just {S : List Nat} {p q : Policy} (h : Just p q) : LInv S p → Ek p q := by
  induction h with
  | done p => intro _; exact Ek.refl p
  | evict p q x _ _ ih => intro hi; exact (ek_evictNode p x hi.c).trans (ih (LInv.evictNode x hi))
  | draw p q a b _ ih =>
    intro hi
    exact (Ek.of_same (fun id => by rw [node_admit]) (evicted_admit p a b)).trans (ih (LInv.admit a b hi))

theorem ek_evictNodes {S : List Nat} {p : Policy} (hi : LInv S p) : Ek p (evictNodes p) :=
  (Ek.of_same (mv_evictFromWindow p hi.c).2 (evicted_evictFromWindow p)).trans
    (ek_of_just (just_evictNodes p) (hi.mv (mv_evictFromWindow p hi.c)))

theorem ek_add {S : List Nat} {p : Policy} (id : Nat) (hi : LInv S p) : Ek p (add p id) := by
  rw [add_eq]
  simp only
  have h0 : Ek p (addPrefix p id) := Ek.of_same (fun x => by rw [node_addPrefix]) (evicted_addPrefix p id)
  have hi0 : LInv S (addPrefix p id) := hi.mv (mv_addPrefix p id)
  split
  · exact h0
  · split
    · refine h0.trans ?_
      refine Ek.trans (p' := { addPrefix p id with
          weightedSize := (addPrefix p id).weightedSize - w64 (p.node id).weight,
          windowWeightedSize := (addPrefix p id).windowWeightedSize - w64 (p.node id).weight })
        (Ek.of_same (fun _ => rfl) rfl) (ek_evictNode _ id (hi0.same _ rfl (fun _ => rfl)).c)
    · split
      · exact h0.trans (Ek.of_same (fun x => by rw [node_pushFront]) (evicted_pushFront _ _ _))
      · exact h0.trans (Ek.of_same (fun x => by rw [node_pushBack]) (evicted_pushBack _ _ _))

theorem ek_updateTail {T : List Nat} {p : Policy} (id : Nat) (w : BitVec 64) (hi : LInv T p) : Ek p (updateTail p id w) := by
  unfold Policy.updateTail
  simp only
  split
  · split
    · refine Ek.trans ?_ (ek_evictNode _ id (hi.same _ rfl (fun _ => rfl)).c)
      exact Ek.of_same (fun _ => rfl) rfl
    · have h1 : LInv T { p with windowWeightedSize := p.windowWeightedSize + w } := hi.same _ rfl (fun _ => rfl)
      refine Ek.trans (p' := { p with windowWeightedSize := p.windowWeightedSize + w }) (Ek.of_same (fun _ => rfl) rfl) ?_
      refine Ek.trans ?_ (Ek.of_same (fun _ => rfl) rfl)
      split
      · exact Ek.of_same (mv_access _ id h1.c).2 (evicted_access _ _)
      · split
        · rename_i h
          exact Ek.of_same (mv_moveToFront _ 0 id h1.c ((linked_iff_all _ id).mp ((dqContains_iff _ 0 id).mp h))).2
            (evicted_moveToFront _ _ _)
        · exact Ek.refl _
  · split
    · split
      · exact (Ek.of_same (mv_access _ id hi.c).2 (evicted_access _ _)).trans (Ek.of_same (fun _ => rfl) rfl)
      · refine Ek.trans ?_ (ek_evictNode _ id (hi.same _ rfl (fun _ => rfl)).c)
        exact Ek.of_same (fun _ => rfl) rfl
    · have h1 : LInv T { p with mainProtectedWeightedSize := p.mainProtectedWeightedSize + w } := hi.same _ rfl (fun _ => rfl)
      refine Ek.trans (p' := { p with mainProtectedWeightedSize := p.mainProtectedWeightedSize + w }) (Ek.of_same (fun _ => rfl) rfl) ?_
      split
      · exact (Ek.of_same (mv_access _ id h1.c).2 (evicted_access _ _)).trans (Ek.of_same (fun _ => rfl) rfl)
      · refine Ek.trans ?_ (ek_evictNode _ id (h1.same _ rfl (fun _ => rfl)).c)
        exact Ek.of_same (fun _ => rfl) rfl

/-- updateNode kills only the replaced node -/
theorem ek_updateNode (p : Policy) (id old : Nat) (hne : id ≠ old) (hna : (p.node old).st ≠ .alive) :
    Ek p (updateNode p id old) := by
  refine ⟨fun y hy => by rw [evicted_updateNode]; exact hy, fun x ha => ?_⟩
  by_cases e : x = old
  · rw [e] at ha; exact absurd ha hna
  · left
    by_cases e2 : x = id
    · rw [e2] at ha ⊢; rw [node_updateNode_new p id old hne]; exact ha
    · rw [node_updateNode_other p id old x e2 e]; exact ha

/-- the update event, when the table has retired the replaced node: an alive node stops being alive only through the callback -/
theorem ek_update {S : List Nat} {p : Policy} {id : Nat} (old : Nat) (hi : LInv S p) (hs : id ∉ S)
    (hna : (p.node old).st ≠ .alive) : Ek p (update p id old) := by
  rw [update_eq]
  split
  · exact ek_makeDead p old hi.c hna
  · rename_i h
    have hnd : (p.node id).st ≠ .dead := by simpa using h
    have h1 : LInv S (makeDead p old) := hi.kill (kill_makeDead p old hi.c)
    split
    · split
      · exact (ek_makeDead p old hi.c hna).trans (ek_add id h1)
      · exact ek_makeDead p old hi.c hna
    · rename_i h2
      have ho : old ∈ all p := by
        have : dqContains p (p.node old).qt old = true := by simpa using h2
        exact (linked_iff_all p old).mp ((dqContains_iff p _ old).mp this)
      have hne : id ≠ old := fun e => hs (e ▸ (hi.a old ho).1)
      exact (ek_updateNode p id old hne hna).trans (ek_updateTail id _ (hi.updateNode hs ho hnd))

end OtterVerif.Impl.Policy

namespace OtterVerif.Proofs.CacheJoint
open OtterVerif OtterVerif.Impl.Policy

/-- what `react` unlinks was handed to the eviction callback: if every node of `l` is alive in `p` and `p'` is reached from
    `p` by operations that satisfy `Ek`, every node `react p' l` drops is in `p'.evicted` -/
theorem react_drops_only_evicted {p p' : Policy} (h : Ek p p') (l : List Nat) (hl : ∀ x ∈ l, (p.node x).st = .alive)
    (x : Nat) (hx : x ∈ l) (hd : x ∉ react p' l) : x ∈ p'.evicted := by
  rcases h.2 x (hl x hx) with a | e
  · exact absurd ((mem_react p' l x).mpr ⟨hx, a⟩) hd
  · exact e

/-- **a new key**: whatever the reaction unlinks after the add event and the eviction pass was handed to the callback -/
theorem jinsert_react {S : List Nat} {p : Policy} {live : List Nat} (h : JInv S p live) (id key w : Nat) (hs : id ∉ S)
    (x : Nat) (hx : x ∈ id :: live)
    (hd : x ∉ react (evictNodes (add (mkNode p id key w .alive) id)) (id :: live)) :
    x ∈ (evictNodes (add (mkNode p id key w .alive) id)).evicted := by
  have r1 : Reach S (mkNode p id key w .alive) := Reach.mk id key w .alive h.reach hs
  have r2 : Reach (id :: S) (add (mkNode p id key w .alive) id) := Reach.add id r1 hs
  refine react_drops_only_evicted ((ek_add id (reach_inv r1)).trans (ek_evictNodes (reach_inv r2))) (id :: live) ?_ x hx hd
  intro y hy
  by_cases e : y = id
  · rw [e]; exact mkNode_self _ _ _ _ _
  · rw [mkNode_other _ _ _ _ _ _ e]
    rcases List.mem_cons.mp hy with e' | e'
    · exact absurd e' e
    · exact ((h.alive y).mp e').2

/-- **a replaced value**: likewise; the replaced node itself was retired by the table and needs no callback -/
theorem jreplace_react {S : List Nat} {p : Policy} {live : List Nat} (h : JInv S p live) (id old key w : Nat) (hs : id ∉ S)
    (ho : old ∈ live) (x : Nat) (hx : x ∈ id :: live.filter (· != old))
    (hd : x ∉ react (evictNodes (update (mkNode (retire p old) id key w .alive) id old)) (id :: live.filter (· != old))) :
    x ∈ (evictNodes (update (mkNode (retire p old) id key w .alive) id old)).evicted := by
  have hos := (h.alive old).mp ho
  have hne : id ≠ old := fun e => hs (e ▸ hos.1)
  have r0 : Reach S (retire p old) := Reach.retire old h.reach
  have r1 : Reach S (mkNode (retire p old) id key w .alive) := Reach.mk id key w .alive r0 hs
  have r2 : Reach (id :: S) (update (mkNode (retire p old) id key w .alive) id old) := Reach.update id old r1 hs
  have hold : ((mkNode (retire p old) id key w .alive).node old).st ≠ .alive := by
    rw [mkNode_other _ _ _ _ _ _ (fun e => hne e.symm), retire_self p old hos.2]
    exact fun e => NState.noConfusion e
  refine react_drops_only_evicted ((ek_update old (reach_inv r1) hs hold).trans (ek_evictNodes (reach_inv r2))) _ ?_ x hx hd
  intro y hy
  by_cases e : y = id
  · rw [e]; exact mkNode_self _ _ _ _ _
  · rcases List.mem_cons.mp hy with e' | e'
    · exact absurd e' e
    · have hm := List.mem_filter.mp e'
      have eo : y ≠ old := by simpa using hm.2
      rw [mkNode_other _ _ _ _ _ _ e, retire_other _ _ _ eo]
      exact ((h.alive y).mp hm.1).2

/-- **a removed value** -/
theorem jdelete_react {S : List Nat} {p : Policy} {live : List Nat} (h : JInv S p live) (old : Nat) (ho : old ∈ live)
    (x : Nat) (hx : x ∈ live.filter (· != old))
    (hd : x ∉ react (evictNodes (delete (retire p old) old)) (live.filter (· != old))) :
    x ∈ (evictNodes (delete (retire p old) old)).evicted := by
  have hos := (h.alive old).mp ho
  have r0 : Reach S (retire p old) := Reach.retire old h.reach
  have r1 : Reach S (delete (retire p old) old) := Reach.delete old r0
  have hold : ((retire p old).node old).st ≠ .alive := by
    rw [retire_self p old hos.2]; exact fun e => NState.noConfusion e
  refine react_drops_only_evicted ((ek_makeDead _ old (reach_inv r0).c hold).trans (ek_evictNodes (reach_inv r1))) _ ?_ x hx hd
  intro y hy
  have hm := List.mem_filter.mp hy
  have eo : y ≠ old := by simpa using hm.2
  rw [retire_other _ _ _ eo]
  exact ((h.alive y).mp hm.1).2

end OtterVerif.Proofs.CacheJoint

namespace OtterVerif.Impl.Policy

/-- `JustT p live q live'`: q is reached from p by size evictions, each performed in a state whose maximum is exceeded by the
    total weight of the nodes MAPPED at that moment (`live` shrinks in lock-step: the callback unlinks the evicted node) -/
inductive JustT : Policy → List Nat → Policy → List Nat → Prop
  | done (p : Policy) (live : List Nat) : JustT p live p live
  | evict (p q : Policy) (live live' : List Nat) (x : Nat) : BitVec.ult p.maximum (wsum p live) = true →
      JustT (evictNode p x) (live.filter (· != x)) q live' → JustT p live q live'
  | draw (p q : Policy) (live live' : List Nat) (a b : Nat) : JustT (admit p a b).1 live q live' → JustT p live q live'

/-- **every eviction of a pass is justified at the table**: along the chain of Proofs.PolicyJust the policy's running total is,
    at every eviction, the total weight of the nodes mapped at that moment -/
theorem justT_of_just {S : List Nat} {p q : Policy} (h : Just p q) :
    ∀ (live : List Nat), LInv S p → WInv p → (all p).Perm live → ∃ live', JustT p live q live' ∧ (all q).Perm live' := by
  induction h with
  | done p => intro live _ _ hp; exact ⟨live, JustT.done p live, hp⟩
  | evict p q x hg _ ih =>
    intro live hi hw hp
    have hk := kill_evictNode p x hi.c
    have hp' : (all (evictNode p x)).Perm (live.filter (· != x)) := by rw [hk.1]; exact hp.filter _
    obtain ⟨live', hj, hq⟩ := ih (live.filter (· != x)) (LInv.evictNode x hi) (winv_evictNode x hi.c hw) hp'
    refine ⟨live', JustT.evict p q live live' x ?_ hj, hq⟩
    have : p.weightedSize = wsum p live := by rw [show p.weightedSize = wsum p (all p) from hw]; exact wsum_perm p hp
    rw [← this]; exact hg
  | draw p q a b _ ih =>
    intro live hi hw hp
    have hp' : (all (admit p a b).1).Perm live := by rw [all_admit]; exact hp
    obtain ⟨live', hj, hq⟩ := ih live (LInv.admit a b hi)
      (winv_same hw _ (all_admit p a b) (fun x => node_admit p a b x) (ws_admit p a b)) hp'
    exact ⟨live', JustT.draw p q live live' a b hj, hq⟩

/-- the main loop of evictNodes, started from a state whose deques hold exactly the mapped nodes -/
theorem evictNodes_justified_at_table {S : List Nat} {p : Policy} (hi : LInv S p) (hw : WInv p) (live : List Nat)
    (hp : (all p).Perm live) :
    ∃ live', JustT (evictFromWindow p).1 live (evictNodes p) live' ∧ (all (evictNodes p)).Perm live' := by
  have hm := mv_evictFromWindow p hi.c
  have hw' : WInv (evictFromWindow p).1 := winv_mv hm (wk_evictFromWindow p) hw
  exact justT_of_just (just_evictNodes p) live (hi.mv hm) hw' (hm.1.trans hp)

end OtterVerif.Impl.Policy

namespace OtterVerif.Impl.Policy

/-- the converse of `Ek`: whatever is newly on the callback list is dead (and nodes only die: `Dn`) -/
def DE (p p' : Policy) : Prop := Dn p p' ∧ ∀ x, x ∈ p'.evicted → x ∈ p.evicted ∨ (p'.node x).st = .dead

theorem DE.refl (p : Policy) : DE p p := ⟨Dn.refl p, fun _ h => Or.inl h⟩

theorem DE.trans {p p' p'' : Policy} (h1 : DE p p') (h2 : DE p' p'') : DE p p'' := by
  refine ⟨h1.1.trans h2.1, fun x hx => ?_⟩
  rcases h2.2 x hx with a | d
  · rcases h1.2 x a with a' | d'
    · exact Or.inl a'
    · right
      rcases h2.1 x with e | d''
      · rw [e, d']
      · exact d''
  · exact Or.inr d

theorem DE.of_same {p p' : Policy} (hn : ∀ id, (p'.node id).st = (p.node id).st) (he : p'.evicted = p.evicted) : DE p p' :=
  ⟨fun id => Or.inl (hn id), fun x hx => Or.inl (by rw [← he]; exact hx)⟩

theorem de_evictNode (p : Policy) (x : Nat) (hn : (all p).Nodup) : DE p (evictNode p x) := by
  have he : (evictNode p x).evicted = p.evicted ++ [x] := by
    rw [evicted_evictNode]; show (makeDead p x).evicted ++ [x] = _; rw [evicted_makeDead]
  refine ⟨dn_evictNode p x hn, fun y hy => ?_⟩
  rw [he] at hy
  rcases List.mem_append.mp hy with a | b
  · exact Or.inl a
  · rw [List.mem_singleton.mp b]; exact Or.inr (evictNode_dead p x)

theorem de_makeDead (p : Policy) (x : Nat) (hn : (all p).Nodup) : DE p (makeDead p x) :=
  ⟨dn_makeDead p x hn, fun y hy => Or.inl (by rw [evicted_makeDead] at hy; exact hy)⟩

theorem de_of_just {S : List Nat} {p q : Policy} (h : Just p q) : LInv S p → DE p q := by
  induction h with
  | done p => intro _; exact DE.refl p
  | evict p q x _ _ ih => intro hi; exact (de_evictNode p x hi.c).trans (ih (LInv.evictNode x hi))
  | draw p q a b _ ih =>
    intro hi
    exact (DE.of_same (fun id => by rw [node_admit]) (evicted_admit p a b)).trans (ih (LInv.admit a b hi))

theorem de_evictNodes {S : List Nat} {p : Policy} (hi : LInv S p) : DE p (evictNodes p) :=
  (DE.of_same (mv_evictFromWindow p hi.c).2 (evicted_evictFromWindow p)).trans
    (de_of_just (just_evictNodes p) (hi.mv (mv_evictFromWindow p hi.c)))

theorem de_add {S : List Nat} {p : Policy} (id : Nat) (hi : LInv S p) : DE p (add p id) := by
  rw [add_eq]
  simp only
  have h0 : DE p (addPrefix p id) := DE.of_same (fun x => by rw [node_addPrefix]) (evicted_addPrefix p id)
  have hi0 : LInv S (addPrefix p id) := hi.mv (mv_addPrefix p id)
  split
  · exact h0
  · split
    · refine h0.trans ?_
      refine DE.trans ?_ (de_evictNode _ id (hi0.same _ rfl (fun _ => rfl)).c)
      exact DE.of_same (fun _ => rfl) rfl
    · split
      · exact h0.trans (DE.of_same (fun x => by rw [node_pushFront]) (evicted_pushFront _ _ _))
      · exact h0.trans (DE.of_same (fun x => by rw [node_pushBack]) (evicted_pushBack _ _ _))

/-- **the callback list holds only dead nodes, after every sequential history**: with `Ek` (an alive node leaves the mapped set
    only through the callback) this pins `react` down from both sides for the add event and the eviction pass -/
theorem callback_nodes_dead_after_insert {S : List Nat} {p : Policy} (h : Reach S p) (id key w : Nat) (hs : id ∉ S)
    (hall : ∀ x, x ∈ p.evicted → (p.node x).st = .dead ∧ x ≠ id) :
    ∀ x, x ∈ (evictNodes (add (mkNode p id key w .alive) id)).evicted →
      ((evictNodes (add (mkNode p id key w .alive) id)).node x).st = .dead := by
  have r1 : Reach S (mkNode p id key w .alive) := Reach.mk id key w .alive h hs
  have r2 : Reach (id :: S) (add (mkNode p id key w .alive) id) := Reach.add id r1 hs
  have hde := (de_add id (reach_inv r1)).trans (de_evictNodes (reach_inv r2))
  intro x hx
  rcases hde.2 x hx with a | d
  · -- already on the list before the step: it was dead, and nodes only die
    have hx0 : x ∈ p.evicted := a
    have hd0 := hall x hx0
    have : ((mkNode p id key w .alive).node x).st = .dead := by
      unfold mkNode; rw [node_setNode_other _ _ _ hd0.2]; exact hd0.1
    rcases hde.1 x with e | d
    · rw [e, this]
    · exact d
  · exact d

end OtterVerif.Impl.Policy

namespace OtterVerif.Impl.Policy

theorem de_updateTail {T : List Nat} {p : Policy} (id : Nat) (w : BitVec 64) (hi : LInv T p) : DE p (updateTail p id w) := by
  unfold Policy.updateTail
  simp only
  split
  · split
    · refine DE.trans ?_ (de_evictNode _ id (hi.same _ rfl (fun _ => rfl)).c)
      exact DE.of_same (fun _ => rfl) rfl
    · have h1 : LInv T { p with windowWeightedSize := p.windowWeightedSize + w } := hi.same _ rfl (fun _ => rfl)
      refine DE.trans (p' := { p with windowWeightedSize := p.windowWeightedSize + w }) (DE.of_same (fun _ => rfl) rfl) ?_
      refine DE.trans ?_ (DE.of_same (fun _ => rfl) rfl)
      split
      · exact DE.of_same (mv_access _ id h1.c).2 (evicted_access _ _)
      · split
        · rename_i h
          exact DE.of_same (mv_moveToFront _ 0 id h1.c ((linked_iff_all _ id).mp ((dqContains_iff _ 0 id).mp h))).2
            (evicted_moveToFront _ _ _)
        · exact DE.refl _
  · split
    · split
      · exact (DE.of_same (mv_access _ id hi.c).2 (evicted_access _ _)).trans (DE.of_same (fun _ => rfl) rfl)
      · refine DE.trans ?_ (de_evictNode _ id (hi.same _ rfl (fun _ => rfl)).c)
        exact DE.of_same (fun _ => rfl) rfl
    · have h1 : LInv T { p with mainProtectedWeightedSize := p.mainProtectedWeightedSize + w } := hi.same _ rfl (fun _ => rfl)
      refine DE.trans (p' := { p with mainProtectedWeightedSize := p.mainProtectedWeightedSize + w }) (DE.of_same (fun _ => rfl) rfl) ?_
      split
      · exact (DE.of_same (mv_access _ id h1.c).2 (evicted_access _ _)).trans (DE.of_same (fun _ => rfl) rfl)
      · refine DE.trans ?_ (de_evictNode _ id (h1.same _ rfl (fun _ => rfl)).c)
        exact DE.of_same (fun _ => rfl) rfl

theorem de_updateNode (p : Policy) (id old : Nat) (hne : id ≠ old) : DE p (updateNode p id old) :=
  ⟨dn_updateNode p id old hne, fun y hy => Or.inl (by rw [evicted_updateNode] at hy; exact hy)⟩

theorem de_update {S : List Nat} {p : Policy} {id : Nat} (old : Nat) (hi : LInv S p) (hs : id ∉ S) : DE p (update p id old) := by
  rw [update_eq]
  split
  · exact de_makeDead p old hi.c
  · rename_i h
    have hnd : (p.node id).st ≠ .dead := by simpa using h
    have h1 : LInv S (makeDead p old) := hi.kill (kill_makeDead p old hi.c)
    split
    · split
      · exact (de_makeDead p old hi.c).trans (de_add id h1)
      · exact de_makeDead p old hi.c
    · rename_i h2
      have ho : old ∈ all p := by
        have : dqContains p (p.node old).qt old = true := by simpa using h2
        exact (linked_iff_all p old).mp ((dqContains_iff p _ old).mp this)
      have hne : id ≠ old := fun e => hs (e ▸ (hi.a old ho).1)
      exact (de_updateNode p id old hne).trans (de_updateTail id _ (hi.updateNode hs ho hnd))

end OtterVerif.Impl.Policy
