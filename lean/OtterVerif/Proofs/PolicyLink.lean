/-
  Proofs.PolicyLink — linking lemmas for Impl.Policy: which nodes are linked and what state they are in after each policy
  operation.  Used by Props.C05 for "no entry is present but unknown to the eviction policy, and no removed entry is still
  tracked — for ALL orders in which write events reach the maintenance thread".
-/
import OtterVerif.Impl.Policy

namespace OtterVerif.Impl.Policy

/-- the node is linked in some deque -/
def Linked (p : Policy) (id : Nat) : Prop := id ∈ p.window ∨ id ∈ p.probation ∨ id ∈ p.prot

theorem linkedIn_isSome_iff (p : Policy) (id : Nat) : (linkedIn p id).isSome = true ↔ Linked p id := by
  unfold linkedIn Linked
  simp only [List.contains_eq_mem, decide_eq_true_eq]
  by_cases h0 : id ∈ p.window
  · simp [h0]
  · by_cases h1 : id ∈ p.probation
    · simp [h0, h1]
    · by_cases h2 : id ∈ p.prot <;> simp [h0, h1, h2]

theorem dqContains_iff (p : Policy) (q id : Nat) : dqContains p q id = true ↔ Linked p id := by
  unfold dqContains; exact linkedIn_isSome_iff p id

theorem node_id (p : Policy) (id : Nat) : (p.node id).id = id := rfl

/-- node lookup after setNode -/
theorem node_setNode_self (p : Policy) (n : Node) : (p.setNode n).node n.id = n := by
  unfold Policy.setNode Policy.node
  simp

theorem find_filter_ne (l : List Node) (a id : Nat) (h : id ≠ a) :
    (l.filter (fun x => x.id != a)).find? (fun x => x.id == id) = l.find? (fun x => x.id == id) := by
  induction l with
  | nil => rfl
  | cons x xs ih =>
    simp only [List.filter_cons]
    by_cases hx : x.id = a
    · have h0 : (x.id != a) = false := by simp [hx]
      have h2 : (x.id == id) = false := by simp only [beq_eq_false_iff_ne, ne_eq]; rw [hx]; exact fun e => h e.symm
      simp only [h0, Bool.false_eq_true, ↓reduceIte, List.find?_cons, h2]
      exact ih
    · have h0 : (x.id != a) = true := by simp [hx]
      simp only [h0, ↓reduceIte, List.find?_cons]
      split
      · rfl
      · exact ih

theorem node_setNode_other (p : Policy) (n : Node) (id : Nat) (h : id ≠ n.id) : (p.setNode n).node id = p.node id := by
  unfold Policy.setNode Policy.node
  have h1 : (n.id == id) = false := by simp only [beq_eq_false_iff_ne, ne_eq]; exact fun e => h e.symm
  simp only [List.find?_cons, h1]
  rw [find_filter_ne _ _ _ h]

/-- setNode does not touch the deques -/
theorem linked_setNode (p : Policy) (n : Node) (id : Nat) : Linked (p.setNode n) id ↔ Linked p id := Iff.rfl

/-- the frequency sketch is irrelevant for linking -/
theorem linked_sketchIncr (p : Policy) (k id : Nat) : Linked (p.sketchIncr k) id ↔ Linked p id := Iff.rfl
theorem linked_ensure (p : Policy) (c : BitVec 64) (id : Nat) : Linked (p.ensure c) id ↔ Linked p id := Iff.rfl
theorem node_sketchIncr (p : Policy) (k id : Nat) : (p.sketchIncr k).node id = p.node id := rfl
theorem node_ensure (p : Policy) (c : BitVec 64) (id : Nat) : (p.ensure c).node id = p.node id := rfl

/-- discount only changes counters -/
theorem linked_discount (p : Policy) (x id : Nat) : Linked (discount p x) id ↔ Linked p id := by
  unfold discount Linked; simp only; split <;> (try split) <;> exact Iff.rfl

theorem node_discount (p : Policy) (x id : Nat) : (discount p x).node id = p.node id := by
  unfold discount Policy.node; simp only; split <;> (try split) <;> rfl

theorem linkedIn_discount (p : Policy) (x id : Nat) : linkedIn (discount p x) id = linkedIn p id := by
  unfold discount linkedIn; simp only; split <;> (try split) <;> rfl

/-- dqDelete removes exactly the given node from wherever it is linked -/
theorem linked_dqDelete (p : Policy) (q x id : Nat) : Linked (dqDelete p q x) id → Linked p id := by
  unfold dqDelete
  cases h : linkedIn p x with
  | none => intro hl; exact hl
  | some q' =>
    simp only
    unfold setDq dq Linked
    intro hl
    split at hl
    · rcases hl with hl | hl | hl
      · exact Or.inl (List.mem_filter.mp hl).1
      · exact Or.inr (Or.inl hl)
      · exact Or.inr (Or.inr hl)
    · split at hl
      · rcases hl with hl | hl | hl
        · exact Or.inl hl
        · exact Or.inr (Or.inl (List.mem_filter.mp hl).1)
        · exact Or.inr (Or.inr hl)
      · rcases hl with hl | hl | hl
        · exact Or.inl hl
        · exact Or.inr (Or.inl hl)
        · exact Or.inr (Or.inr (List.mem_filter.mp hl).1)

theorem node_dqDelete (p : Policy) (q x id : Nat) : (dqDelete p q x).node id = p.node id := by
  unfold dqDelete
  cases linkedIn p x with
  | none => rfl
  | some q' => simp only; unfold setDq Policy.node; split <;> (try split) <;> rfl

/-- makeDead: the node becomes dead, nothing new gets linked, no other node changes state -/
theorem makeDead_dead (p : Policy) (x : Nat) : ((makeDead p x).node x).st = .dead := by
  unfold makeDead
  simp only
  generalize (if dqContains p (p.node x).qt x = true then dqDelete (discount p x) (p.node x).qt x else p) = p'
  split
  · have := node_setNode_self p' { p'.node x with st := .dead }
    have hx : ({ p'.node x with st := NState.dead } : Node).id = x := rfl
    rw [hx] at this
    rw [this]
  · rename_i h; simpa using h


/-! ### the list of all linked nodes -/

def all (p : Policy) : List Nat := p.window ++ (p.probation ++ p.prot)

theorem linked_iff_all (p : Policy) (id : Nat) : Linked p id ↔ id ∈ all p := by
  unfold Linked all; simp only [List.mem_append]

theorem filter_ne_of_not_mem (l : List Nat) (x : Nat) (h : x ∉ l) : l.filter (· != x) = l := by
  rw [List.filter_eq_self]
  intro a ha
  simp only [bne_iff_ne, ne_eq]
  intro e; exact h (e ▸ ha)

theorem all_dqDelete (p : Policy) (q x : Nat) (h : (all p).Nodup) :
    all (dqDelete p q x) = (all p).filter (· != x) := by
  unfold all at h
  have ⟨_, h23, h1⟩ := List.nodup_append.mp h
  have ⟨_, _, h2⟩ := List.nodup_append.mp h23
  unfold dqDelete linkedIn
  simp only [List.contains_eq_mem, decide_eq_true_eq]
  by_cases hw : x ∈ p.window
  · have hp : x ∉ p.probation := fun hx => h1 x hw x (List.mem_append_left _ hx) rfl
    have hq : x ∉ p.prot := fun hx => h1 x hw x (List.mem_append_right _ hx) rfl
    simp only [hw, ↓reduceIte]
    unfold all setDq dq
    simp only [BEq.rfl, ↓reduceIte, List.filter_append, filter_ne_of_not_mem _ _ hp, filter_ne_of_not_mem _ _ hq]
  · by_cases hp : x ∈ p.probation
    · have hq : x ∉ p.prot := fun hx => h2 x hp x hx rfl
      simp only [hw, hp, ↓reduceIte]
      unfold all setDq dq
      simp only [Nat.reduceBEq, Bool.false_eq_true, BEq.rfl, ↓reduceIte, List.filter_append, filter_ne_of_not_mem _ _ hw,
        filter_ne_of_not_mem _ _ hq]
    · by_cases hq : x ∈ p.prot
      · simp only [hw, hp, hq, ↓reduceIte]
        unfold all setDq dq
        simp only [Nat.reduceBEq, Bool.false_eq_true, ↓reduceIte, List.filter_append, filter_ne_of_not_mem _ _ hw,
          filter_ne_of_not_mem _ _ hp]
      · simp only [hw, hp, hq, ↓reduceIte]
        unfold all
        simp only [List.filter_append, filter_ne_of_not_mem _ _ hw, filter_ne_of_not_mem _ _ hp, filter_ne_of_not_mem _ _ hq]

theorem all_pushBack (p : Policy) (q x : Nat) : (all (dqPushBack p q x)).Perm (x :: all p) := by
  unfold dqPushBack setDq dq all
  by_cases h0 : (q == 0) = true
  · simp only [h0, ↓reduceIte, List.append_assoc, List.cons_append, List.nil_append]
    exact List.perm_middle
  · by_cases h1 : (q == 1) = true
    · simp only [h0, h1, ↓reduceIte, Bool.false_eq_true, List.append_assoc, List.cons_append, List.nil_append]
      have : (p.window ++ (p.probation ++ x :: p.prot)) = ((p.window ++ p.probation) ++ x :: p.prot) := by simp
      rw [this]
      have h2 : (p.window ++ (p.probation ++ p.prot)) = ((p.window ++ p.probation) ++ p.prot) := by simp
      rw [h2]
      exact List.perm_middle
    · simp only [h0, h1, ↓reduceIte, Bool.false_eq_true]
      have : (p.window ++ (p.probation ++ (p.prot ++ [x]))) = ((p.window ++ (p.probation ++ p.prot)) ++ x :: []) := by simp
      rw [this]
      have := @List.perm_middle _ x (p.window ++ (p.probation ++ p.prot)) []
      simpa using this

theorem all_pushFront (p : Policy) (q x : Nat) : (all (dqPushFront p q x)).Perm (x :: all p) := by
  unfold dqPushFront setDq dq all
  by_cases h0 : (q == 0) = true
  · simp only [h0, ↓reduceIte, List.cons_append]
    exact List.Perm.refl _
  · by_cases h1 : (q == 1) = true
    · simp only [h0, h1, ↓reduceIte, Bool.false_eq_true, List.cons_append]
      exact List.perm_middle
    · simp only [h0, h1, ↓reduceIte, Bool.false_eq_true]
      have : (p.window ++ (p.probation ++ x :: p.prot)) = ((p.window ++ p.probation) ++ x :: p.prot) := by simp
      rw [this]
      have h2 : (p.window ++ (p.probation ++ p.prot)) = ((p.window ++ p.probation) ++ p.prot) := by simp
      rw [h2]
      exact List.perm_middle

theorem node_setDq (p : Policy) (q : Nat) (l : List Nat) (id : Nat) : (setDq p q l).node id = p.node id := by
  unfold setDq Policy.node; split <;> (try split) <;> rfl

theorem node_pushBack (p : Policy) (q x id : Nat) : (dqPushBack p q x).node id = p.node id := node_setDq _ _ _ _
theorem node_pushFront (p : Policy) (q x id : Nat) : (dqPushFront p q x).node id = p.node id := node_setDq _ _ _ _


/-! ### the linking invariant

  `S` is the set of nodes whose introducing event (add, or update as the new node) has been processed. -/

structure LInv (S : List Nat) (p : Policy) : Prop where
  /-- every linked node has been introduced and is not dead -/
  a : ∀ id, id ∈ all p → id ∈ S ∧ (p.node id).st ≠ .dead
  /-- every introduced node that is still alive is linked -/
  b : ∀ id, id ∈ S → (p.node id).st = .alive → id ∈ all p
  /-- no node is linked twice -/
  c : (all p).Nodup

/-- `Mv p p'`: p' links the same nodes as p (possibly elsewhere) and no node changed its state -/
def Mv (p p' : Policy) : Prop := (all p').Perm (all p) ∧ ∀ id, (p'.node id).st = (p.node id).st

theorem Mv.refl (p : Policy) : Mv p p := ⟨List.Perm.refl _, fun _ => rfl⟩
theorem Mv.trans {p p' p'' : Policy} (h1 : Mv p p') (h2 : Mv p' p'') : Mv p p'' :=
  ⟨h2.1.trans h1.1, fun id => (h2.2 id).trans (h1.2 id)⟩
theorem Mv.nodup {p p' : Policy} (h : Mv p p') (hn : (all p).Nodup) : (all p').Nodup := h.1.nodup_iff.mpr hn
theorem Mv.mem {p p' : Policy} (h : Mv p p') {id : Nat} : id ∈ all p' ↔ id ∈ all p := h.1.mem_iff

theorem LInv.mv {S : List Nat} {p p' : Policy} (h : Mv p p') (hi : LInv S p) : LInv S p' :=
  ⟨fun id hid => by have := hi.a id (h.1.mem_iff.mp hid); rw [h.2 id]; exact this,
   fun id hs ha => by rw [h.2 id] at ha; exact h.1.mem_iff.mpr (hi.b id hs ha),
   h.nodup hi.c⟩

theorem LInv.same {S : List Nat} {p : Policy} (hi : LInv S p) (p' : Policy) (ha : all p' = all p)
    (hn : ∀ x, (p'.node x).st = (p.node x).st) : LInv S p' :=
  hi.mv ⟨by rw [ha], hn⟩

theorem mv_delete_pushBack (p : Policy) (q q' x : Nat) (hn : (all p).Nodup) (hx : x ∈ all p) :
    Mv p (dqPushBack (dqDelete p q x) q' x) := by
  refine ⟨?_, fun id => by rw [node_pushBack, node_dqDelete]⟩
  refine (all_pushBack _ _ _).trans ?_
  rw [all_dqDelete _ _ _ hn, ← hn.erase_eq_filter]
  exact (List.perm_cons_erase hx).symm

theorem mv_delete_pushFront (p : Policy) (q q' x : Nat) (hn : (all p).Nodup) (hx : x ∈ all p) :
    Mv p (dqPushFront (dqDelete p q x) q' x) := by
  refine ⟨?_, fun id => by rw [node_pushFront, node_dqDelete]⟩
  refine (all_pushFront _ _ _).trans ?_
  rw [all_dqDelete _ _ _ hn, ← hn.erase_eq_filter]
  exact (List.perm_cons_erase hx).symm

theorem mv_setNode (p : Policy) (n : Node) (h : n.st = (p.node n.id).st) : Mv p (p.setNode n) := by
  refine ⟨List.Perm.refl _, fun id => ?_⟩
  by_cases e : id = n.id
  · subst e; rw [node_setNode_self]; exact h
  · rw [node_setNode_other _ _ _ e]

theorem mv_moveToBack (p : Policy) (q x : Nat) (hn : (all p).Nodup) (hx : x ∈ all p) : Mv p (dqMoveToBack p q x) := by
  unfold dqMoveToBack; split
  · exact Mv.refl p
  · exact mv_delete_pushBack p q q x hn hx

theorem mv_moveToFront (p : Policy) (q x : Nat) (hn : (all p).Nodup) (hx : x ∈ all p) : Mv p (dqMoveToFront p q x) := by
  unfold dqMoveToFront; split
  · exact Mv.refl p
  · exact mv_delete_pushFront p q q x hn hx

theorem mv_reorder (p : Policy) (q x : Nat) (hn : (all p).Nodup) : Mv p (reorder p q x) := by
  unfold reorder; split
  · rename_i h
    exact mv_moveToBack p q x hn ((linked_iff_all p x).mp ((dqContains_iff p q x).mp h))
  · exact Mv.refl p

theorem mv_reorderProbation (p : Policy) (x : Nat) (hn : (all p).Nodup) : Mv p (reorderProbation p x) := by
  unfold reorderProbation
  simp only
  split
  · exact Mv.refl p
  · rename_i h
    have hx : x ∈ all p := by
      have : dqContains p 1 x = true := by simpa using h
      exact (linked_iff_all p x).mp ((dqContains_iff p 1 x).mp this)
    split
    · exact mv_reorder p 1 x hn
    · have h1 : Mv p { p with mainProtectedWeightedSize := p.mainProtectedWeightedSize + w64 (p.node x).weight } :=
        ⟨List.Perm.refl _, fun _ => rfl⟩
      have h2 := mv_delete_pushBack { p with mainProtectedWeightedSize := p.mainProtectedWeightedSize + w64 (p.node x).weight } 1 2 x hn hx
      refine (h1.trans h2).trans (mv_setNode _ _ ?_)
      rw [node_pushBack, node_dqDelete]
      rfl

theorem mv_access (p : Policy) (x : Nat) (hn : (all p).Nodup) : Mv p (access p x) := by
  unfold access
  simp only
  have h0 : Mv p (p.sketchIncr (p.node x).key) := ⟨List.Perm.refl _, fun _ => rfl⟩
  have hn0 : (all (p.sketchIncr (p.node x).key)).Nodup := hn
  split
  · exact h0.trans (mv_reorder _ 0 x hn0)
  · split
    · exact h0.trans (mv_reorderProbation _ x hn0)
    · exact h0.trans (mv_reorder _ 2 x hn0)


/-! ### removal -/

theorem all_discount (p : Policy) (x : Nat) : all (discount p x) = all p := by
  unfold discount all; simp only; split <;> (try split) <;> rfl

/-- `Kill x p p'`: p' is p with x unlinked (if it was linked) and dead; nothing else changed -/
def Kill (x : Nat) (p p' : Policy) : Prop :=
  all p' = (all p).filter (· != x) ∧ (p'.node x).st = .dead ∧ ∀ id, id ≠ x → (p'.node id).st = (p.node id).st

theorem LInv.kill {S : List Nat} {p p' : Policy} {x : Nat} (h : Kill x p p') (hi : LInv S p) : LInv S p' := by
  obtain ⟨h1, h2, h3⟩ := h
  refine ⟨fun id hid => ?_, fun id hs ha => ?_, ?_⟩
  · rw [h1, List.mem_filter] at hid
    have hne : id ≠ x := by simpa using hid.2
    rw [h3 id hne]; exact hi.a id hid.1
  · have hne : id ≠ x := fun e => by rw [e, h2] at ha; exact NState.noConfusion ha
    rw [h3 id hne] at ha
    rw [h1, List.mem_filter]
    exact ⟨hi.b id hs ha, by simpa using hne⟩
  · rw [h1]; exact hi.c.sublist List.filter_sublist

theorem kill_makeDead (p : Policy) (x : Nat) (hn : (all p).Nodup) : Kill x p (makeDead p x) := by
  refine ⟨?_, makeDead_dead p x, ?_⟩
  · unfold makeDead
    simp only
    have hall : all (if dqContains p (p.node x).qt x = true then dqDelete (discount p x) (p.node x).qt x else p)
        = (all p).filter (· != x) := by
      split
      · rw [all_dqDelete _ _ _ (by rw [all_discount]; exact hn), all_discount]
      · rename_i h
        have : x ∉ all p := fun hx => h ((dqContains_iff p _ x).mpr ((linked_iff_all p x).mpr hx))
        rw [filter_ne_of_not_mem _ _ this]
    generalize (if dqContains p (p.node x).qt x = true then dqDelete (discount p x) (p.node x).qt x else p) = p' at hall
    split
    · exact hall
    · exact hall
  · intro id hne
    unfold makeDead
    simp only
    have hnode : ((if dqContains p (p.node x).qt x = true then dqDelete (discount p x) (p.node x).qt x else p).node id) = p.node id := by
      split
      · rw [node_dqDelete, node_discount]
      · rfl
    generalize (if dqContains p (p.node x).qt x = true then dqDelete (discount p x) (p.node x).qt x else p) = p' at hnode
    split
    · rw [node_setNode_other _ _ _ (by exact hne), hnode]
    · rw [hnode]

theorem kill_evictNode (p : Policy) (x : Nat) (hn : (all p).Nodup) : Kill x p (evictNode p x) :=
  kill_makeDead p x hn

theorem evictNode_dead (p : Policy) (x : Nat) : ((evictNode p x).node x).st = .dead := makeDead_dead p x

theorem LInv.evictNode {S : List Nat} {p : Policy} (x : Nat) (hi : LInv S p) : LInv S (evictNode p x) :=
  hi.kill (kill_evictNode p x hi.c)

theorem LInv.delete {S : List Nat} {p : Policy} (x : Nat) (hi : LInv S p) : LInv S (delete p x) :=
  hi.kill (kill_makeDead p x hi.c)


/-! ### introduction of a node: add -/

theorem LInv.intro_unlinked {S : List Nat} {p : Policy} {id : Nat} (hi : LInv S p) (h : (p.node id).st ≠ .alive) :
    LInv (id :: S) p :=
  ⟨fun x hx => ⟨List.mem_cons_of_mem _ (hi.a x hx).1, (hi.a x hx).2⟩,
   fun x hs ha => by
     rcases List.mem_cons.mp hs with e | hs
     · subst e; exact absurd ha h
     · exact hi.b x hs ha,
   hi.c⟩

theorem LInv.intro_link {S : List Nat} {p p' : Policy} {id : Nat} (hi : LInv S p) (hs : id ∉ S)
    (hp : (all p').Perm (id :: all p)) (hst : ∀ x, (p'.node x).st = (p.node x).st) (hd : (p.node id).st ≠ .dead) :
    LInv (id :: S) p' := by
  have hnl : id ∉ all p := fun h => hs (hi.a id h).1
  refine ⟨fun x hx => ?_, fun x hx ha => ?_, ?_⟩
  · rw [hst x]
    rcases List.mem_cons.mp (hp.mem_iff.mp hx) with e | hx
    · subst e; exact ⟨List.mem_cons_self, hd⟩
    · exact ⟨List.mem_cons_of_mem _ (hi.a x hx).1, (hi.a x hx).2⟩
  · rw [hst x] at ha
    rcases List.mem_cons.mp hx with e | hx
    · subst e; exact hp.mem_iff.mpr List.mem_cons_self
    · exact hp.mem_iff.mpr (List.mem_cons_of_mem _ (hi.b x hx ha))
  · exact hp.nodup_iff.mpr (List.nodup_cons.mpr ⟨hnl, hi.c⟩)

/-- the counter/sketch prefix of `add` -/
def addPrefix (p : Policy) (id : Nat) : Policy :=
  let n := p.node id
  let w := w64 n.weight
  let p := if n.st == .alive then { p with weightedSize := p.weightedSize + w, windowWeightedSize := p.windowWeightedSize + w } else p
  let half : BitVec 64 := BitVec.ushiftRight p.maximum 1
  let p := if BitVec.ule half p.weightedSize then
      let cap : BitVec 64 := if p.isWeighted then w64 (p.window.length + p.probation.length + p.prot.length) else p.maximum
      p.ensure cap
    else p
  let p := p.sketchIncr n.key
  { p with missesInSample := p.missesInSample + 1 }

theorem add_eq (p : Policy) (id : Nat) : add p id =
    (let p0 := addPrefix p id
     let n := p.node id
     let w := w64 n.weight
     if n.st != .alive then p0
     else if BitVec.ult p0.maximum w then
       evictNode { p0 with weightedSize := p0.weightedSize - w, windowWeightedSize := p0.windowWeightedSize - w } id
     else if BitVec.ult p0.windowMaximum w then dqPushFront p0 0 id
     else dqPushBack p0 0 id) := rfl

theorem all_addPrefix (p : Policy) (id : Nat) : all (addPrefix p id) = all p := by
  unfold addPrefix; simp only; split <;> split <;> rfl

theorem node_addPrefix (p : Policy) (id x : Nat) : (addPrefix p id).node x = p.node x := by
  unfold addPrefix; simp only; split <;> split <;> rfl

theorem mv_addPrefix (p : Policy) (id : Nat) : Mv p (addPrefix p id) :=
  ⟨by rw [all_addPrefix], fun x => by rw [node_addPrefix]⟩

/-- processing the add event of a node not introduced before -/
theorem LInv.add {S : List Nat} {p : Policy} {id : Nat} (hi : LInv S p) (hs : id ∉ S) : LInv (id :: S) (add p id) := by
  rw [add_eq]
  simp only
  have h0 : LInv S (addPrefix p id) := hi.mv (mv_addPrefix p id)
  split
  · rename_i h
    have h' : (p.node id).st ≠ .alive := by simpa using h
    refine h0.intro_unlinked ?_
    rw [node_addPrefix]
    first | done | exact h'
  · rename_i h
    have halive : (p.node id).st = .alive := by simpa using h
    split
    · apply LInv.intro_unlinked
      · exact LInv.evictNode id (h0.same _ rfl (fun _ => rfl))
      · intro e
        rw [evictNode_dead] at e
        exact NState.noConfusion e
    · have hd : ((addPrefix p id).node id).st ≠ .dead := by
        rw [node_addPrefix, halive]; exact fun e => NState.noConfusion e
      split
      · exact h0.intro_link hs (all_pushFront _ 0 id) (fun x => by rw [node_pushFront]) hd
      · exact h0.intro_link hs (all_pushBack _ 0 id) (fun x => by rw [node_pushBack]) hd


/-! ### introduction of a node: update (the new node takes the place of the old one) -/

def repl (old n : Nat) (x : Nat) : Nat := if x == old then n else x

theorem map_repl_of_not_mem (l : List Nat) (old n : Nat) (h : old ∉ l) : l.map (repl old n) = l := by
  have : l.map (repl old n) = l.map (fun x => x) := by
    apply List.map_congr_left
    intro a ha
    unfold repl
    have : (a == old) = false := by simp only [beq_eq_false_iff_ne, ne_eq]; exact fun e => h (e ▸ ha)
    simp only [this, Bool.false_eq_true, ↓reduceIte]
  rw [this, List.map_id']

theorem all_dqUpdateNode (p : Policy) (q n old : Nat) (h : (all p).Nodup) :
    all (dqUpdateNode p q n old) = (all p).map (repl old n) := by
  unfold all at h
  have ⟨_, h23, h1⟩ := List.nodup_append.mp h
  have ⟨_, _, h2⟩ := List.nodup_append.mp h23
  unfold dqUpdateNode linkedIn
  simp only [List.contains_eq_mem, decide_eq_true_eq]
  have hr : (fun x => if (x == old) = true then n else x) = repl old n := rfl
  by_cases hw : old ∈ p.window
  · have hp : old ∉ p.probation := fun hx => h1 old hw old (List.mem_append_left _ hx) rfl
    have hq : old ∉ p.prot := fun hx => h1 old hw old (List.mem_append_right _ hx) rfl
    simp only [hw, ↓reduceIte]
    unfold all setDq dq
    simp only [BEq.rfl, ↓reduceIte, List.map_append, hr, map_repl_of_not_mem _ _ _ hp, map_repl_of_not_mem _ _ _ hq]
  · by_cases hp : old ∈ p.probation
    · have hq : old ∉ p.prot := fun hx => h2 old hp old hx rfl
      simp only [hw, hp, ↓reduceIte]
      unfold all setDq dq
      simp only [Nat.reduceBEq, Bool.false_eq_true, BEq.rfl, ↓reduceIte, List.map_append, hr,
        map_repl_of_not_mem _ _ _ hw, map_repl_of_not_mem _ _ _ hq]
    · by_cases hq : old ∈ p.prot
      · simp only [hw, hp, hq, ↓reduceIte]
        unfold all setDq dq
        simp only [Nat.reduceBEq, Bool.false_eq_true, ↓reduceIte, List.map_append, hr,
          map_repl_of_not_mem _ _ _ hw, map_repl_of_not_mem _ _ _ hp]
      · simp only [hw, hp, hq, ↓reduceIte]
        unfold all
        simp only [List.map_append, map_repl_of_not_mem _ _ _ hw, map_repl_of_not_mem _ _ _ hp, map_repl_of_not_mem _ _ _ hq]

theorem node_dqUpdateNode (p : Policy) (q n old id : Nat) : (dqUpdateNode p q n old).node id = p.node id := by
  unfold dqUpdateNode
  cases linkedIn p old with
  | none => rfl
  | some q' => exact node_setDq _ _ _ _

theorem nodup_map_repl (l : List Nat) (old n : Nat) (hl : l.Nodup) (hn : n ∉ l) : (l.map (repl old n)).Nodup := by
  unfold List.Nodup
  rw [List.pairwise_map]
  refine List.Pairwise.imp_of_mem ?_ hl
  intro a b ha hb hab
  unfold repl
  by_cases h1 : a = old
  · by_cases h2 : b = old
    · exact absurd (h1.trans h2.symm) hab
    · have e1 : (a == old) = true := by simp [h1]
      have e2 : (b == old) = false := by simp [h2]
      simp only [e1, e2, ↓reduceIte, Bool.false_eq_true]
      exact fun e => hn (e ▸ hb)
  · have e1 : (a == old) = false := by simp [h1]
    by_cases h2 : b = old
    · have e2 : (b == old) = true := by simp [h2]
      simp only [e1, e2, ↓reduceIte, Bool.false_eq_true]
      exact fun e => hn (e ▸ ha)
    · have e2 : (b == old) = false := by simp [h2]
      simp only [e1, e2, ↓reduceIte, Bool.false_eq_true]
      exact hab

theorem LInv.replace {S : List Nat} {p p' : Policy} {id old : Nat} (hi : LInv S p) (hs : id ∉ S) (ho : old ∈ all p)
    (hall : all p' = (all p).map (repl old id)) (hid : (p'.node id).st = (p.node id).st) (hnd : (p.node id).st ≠ .dead)
    (hod : (p'.node old).st = .dead) (hoth : ∀ x, x ≠ id → x ≠ old → (p'.node x).st = (p.node x).st) :
    LInv (id :: S) p' := by
  have hnl : id ∉ all p := fun h => hs (hi.a id h).1
  refine ⟨fun x hx => ?_, fun x hx ha => ?_, ?_⟩
  · rw [hall, List.mem_map] at hx
    obtain ⟨y, hy, hyx⟩ := hx
    unfold repl at hyx
    by_cases e : y = old
    · have : (y == old) = true := by simp [e]
      simp only [this, ↓reduceIte] at hyx
      subst hyx
      exact ⟨List.mem_cons_self, by rw [hid]; exact hnd⟩
    · have : (y == old) = false := by simp [e]
      simp only [this, Bool.false_eq_true, ↓reduceIte] at hyx
      subst hyx
      have hne : y ≠ id := fun e' => hnl (e' ▸ hy)
      rw [hoth y hne e]
      exact ⟨List.mem_cons_of_mem _ (hi.a y hy).1, (hi.a y hy).2⟩
  · rw [hall, List.mem_map]
    rcases List.mem_cons.mp hx with e | hx
    · subst e
      exact ⟨old, ho, by unfold repl; simp⟩
    · have hne : x ≠ id := fun e => hs (e ▸ hx)
      have hno : x ≠ old := fun e => by rw [e, hod] at ha; exact NState.noConfusion ha
      rw [hoth x hne hno] at ha
      refine ⟨x, hi.b x hx ha, ?_⟩
      unfold repl
      have : (x == old) = false := by simp [hno]
      simp only [this, Bool.false_eq_true, ↓reduceIte]
  · rw [hall]; exact nodup_map_repl _ _ _ hi.c hnl


theorem all_updateNode (p : Policy) (id old : Nat) (hn : (all p).Nodup) :
    all (updateNode p id old) = (all p).map (repl old id) := by
  unfold updateNode
  simp only
  show all (dqUpdateNode (discount (p.setNode { p.node id with qt := (p.node old).qt }) old) _ id old) = _
  rw [all_dqUpdateNode _ _ _ _ (by rw [all_discount]; exact hn), all_discount]
  rfl

theorem node_updateNode_old (p : Policy) (id old : Nat) : ((updateNode p id old).node old).st = .dead := by
  unfold updateNode
  simp only
  generalize (dqUpdateNode (discount (p.setNode { p.node id with qt := (p.node old).qt }) old) (p.node old).qt id old) = pc
  have := node_setNode_self pc { pc.node old with st := .dead }
  have hx : ({ pc.node old with st := NState.dead } : Node).id = old := rfl
  rw [hx] at this
  rw [this]

theorem node_updateNode_new (p : Policy) (id old : Nat) (hne : id ≠ old) :
    ((updateNode p id old).node id).st = (p.node id).st := by
  unfold updateNode
  simp only
  rw [node_setNode_other _ _ _ (by exact hne), node_dqUpdateNode, node_discount]
  have := node_setNode_self p { p.node id with qt := (p.node old).qt }
  have hx : ({ p.node id with qt := (p.node old).qt } : Node).id = id := rfl
  rw [hx] at this
  rw [this]

theorem node_updateNode_other (p : Policy) (id old x : Nat) (h1 : x ≠ id) (h2 : x ≠ old) :
    (updateNode p id old).node x = p.node x := by
  unfold updateNode
  simp only
  rw [node_setNode_other _ _ _ (by exact h2), node_dqUpdateNode, node_discount, node_setNode_other _ _ _ (by exact h1)]

theorem LInv.updateNode {S : List Nat} {p : Policy} {id old : Nat} (hi : LInv S p) (hs : id ∉ S) (ho : old ∈ all p)
    (hnd : (p.node id).st ≠ .dead) : LInv (id :: S) (updateNode p id old) := by
  have hne : id ≠ old := fun e => hs (e ▸ (hi.a old ho).1)
  exact hi.replace hs ho (all_updateNode p id old hi.c) (node_updateNode_new p id old hne) hnd
    (node_updateNode_old p id old) (fun x h1 h2 => by rw [node_updateNode_other p id old x h1 h2])


/-- what `update` does after `updateNode` -/
def updateTail (p : Policy) (id : Nat) (w : BitVec 64) : Policy :=
  let n := p.node id
  if n.qt == 0 then
    let p := { p with windowWeightedSize := p.windowWeightedSize + w }
    if BitVec.ult p.maximum w then evictNode { p with weightedSize := p.weightedSize + w } id
    else
      let p := if BitVec.ule w p.windowMaximum then access p id
               else if dqContains p 0 id then dqMoveToFront p 0 id else p
      { p with weightedSize := p.weightedSize + w }
  else if n.qt == 1 then
    if BitVec.ule w p.maximum then { access p id with weightedSize := (access p id).weightedSize + w }
    else evictNode { p with weightedSize := p.weightedSize + w } id
  else
    let p := { p with mainProtectedWeightedSize := p.mainProtectedWeightedSize + w }
    if BitVec.ule w p.maximum then { access p id with weightedSize := (access p id).weightedSize + w }
    else evictNode { p with weightedSize := p.weightedSize + w } id

theorem update_eq (p : Policy) (id old : Nat) : update p id old =
    (if (p.node id).st == .dead then delete p old
     else if !(dqContains p (p.node old).qt old) then
       (if ((makeDead p old).node id).st == .alive then add (makeDead p old) id else makeDead p old)
     else updateTail (updateNode p id old) id (w64 (p.node id).weight)) := rfl

theorem LInv.updateTail {T : List Nat} {p : Policy} (id : Nat) (w : BitVec 64) (hi : LInv T p) :
    LInv T (updateTail p id w) := by
  unfold Policy.updateTail
  simp only
  split
  · split
    · exact LInv.evictNode id (hi.same _ rfl (fun _ => rfl))
    · have h1 : LInv T { p with windowWeightedSize := p.windowWeightedSize + w } := hi.same _ rfl (fun _ => rfl)
      refine LInv.same ?_ _ rfl (fun _ => rfl)
      split
      · exact h1.mv (mv_access _ id h1.c)
      · split
        · rename_i h
          exact h1.mv (mv_moveToFront _ 0 id h1.c ((linked_iff_all _ id).mp ((dqContains_iff _ 0 id).mp h)))
        · exact h1.same _ rfl (fun _ => rfl)
  · split
    · split
      · exact (hi.mv (mv_access _ id hi.c)).same _ rfl (fun _ => rfl)
      · exact LInv.evictNode id (hi.same _ rfl (fun _ => rfl))
    · have h1 : LInv T { p with mainProtectedWeightedSize := p.mainProtectedWeightedSize + w } := hi.same _ rfl (fun _ => rfl)
      split
      · exact (h1.mv (mv_access _ id h1.c)).same _ rfl (fun _ => rfl)
      · exact LInv.evictNode id (h1.same _ rfl (fun _ => rfl))

/-- processing the update event that introduces `id` as the replacement of `old` -/
theorem LInv.update {S : List Nat} {p : Policy} {id : Nat} (old : Nat) (hi : LInv S p) (hs : id ∉ S) :
    LInv (id :: S) (update p id old) := by
  rw [update_eq]
  split
  · rename_i h
    have hd : (p.node id).st = .dead := by simpa using h
    have hk := kill_makeDead p old hi.c
    refine (hi.kill hk).intro_unlinked ?_
    by_cases e : id = old
    · subst e
      show ((makeDead p id).node id).st ≠ _
      rw [makeDead_dead]; exact fun e => NState.noConfusion e
    · show ((makeDead p old).node id).st ≠ _
      rw [hk.2.2 id e, hd]; exact fun e => NState.noConfusion e
  · rename_i h
    have hnd : (p.node id).st ≠ .dead := by simpa using h
    split
    · have h1 : LInv S (makeDead p old) := hi.kill (kill_makeDead p old hi.c)
      split
      · exact h1.add hs
      · rename_i h2
        exact h1.intro_unlinked (by simpa using h2)
    · rename_i h2
      have ho : old ∈ all p := by
        have : dqContains p (p.node old).qt old = true := by simpa using h2
        exact (linked_iff_all p old).mp ((dqContains_iff p _ old).mp this)
      exact (hi.updateNode hs ho hnd).updateTail id _


/-! ### eviction -/

theorem dq_sub_all (p : Policy) (q x : Nat) (h : x ∈ dq p q) : x ∈ all p := by
  unfold dq at h; unfold all
  simp only [List.mem_append]
  split at h
  · exact Or.inl h
  · split at h
    · exact Or.inr (Or.inl h)
    · exact Or.inr (Or.inr h)

theorem next_mem (p : Policy) (id x : Nat) (h : next p id = some x) : x ∈ all p := by
  unfold next at h
  split at h
  · cases h
  · rename_i q _
    simp only at h
    split at h
    · rename_i a b c heq
      have hx : x = b := by injection h with h; exact h.symm
      subst hx
      have : x ∈ List.dropWhile (fun y => y != id) (dq p q) := by rw [heq]; simp
      exact dq_sub_all p q x ((List.dropWhile_sublist _).subset this)
    · cases h

theorem head_window_mem (p : Policy) (x : Nat) (h : p.window.head? = some x) : x ∈ all p :=
  dq_sub_all p 0 x (List.mem_of_mem_head? (by rw [show dq p 0 = p.window from rfl, h]; exact rfl))
theorem head_probation_mem (p : Policy) (x : Nat) (h : p.probation.head? = some x) : x ∈ all p :=
  dq_sub_all p 1 x (List.mem_of_mem_head? (by rw [show dq p 1 = p.probation from rfl, h]; exact rfl))
theorem head_prot_mem (p : Policy) (x : Nat) (h : p.prot.head? = some x) : x ∈ all p :=
  dq_sub_all p 2 x (List.mem_of_mem_head? (by rw [show dq p 2 = p.prot from rfl, h]; exact rfl))

/-- moving a linked node to the back of queue `q'` with a new queue type -/
theorem mv_requeue (p : Policy) (q q' x : Nat) (n : Node) (hn : (all p).Nodup) (hx : x ∈ all p)
    (hid : n.id = x) (hst : n.st = (p.node x).st) : Mv p (dqPushBack (dqDelete (p.setNode n) q x) q' x) := by
  have h1 : Mv p (p.setNode n) := mv_setNode p n (by rw [hid]; exact hst)
  exact h1.trans (mv_delete_pushBack _ q q' x (h1.nodup hn) (h1.mem.mpr hx))

theorem mv_evictFromWindow_go (fuel : Nat) : ∀ (p : Policy) (n first : Option Nat), (all p).Nodup →
    (∀ id, n = some id → id ∈ all p) → Mv p (evictFromWindow.go p n first fuel).1 := by
  induction fuel with
  | zero => intro p n first _ _; unfold evictFromWindow.go; exact Mv.refl p
  | succ fuel ih =>
    intro p n first hn hmem
    unfold evictFromWindow.go
    split
    · exact Mv.refl p
    · split
      · exact Mv.refl p
      · rename_i id
        have hid : id ∈ all p := hmem id rfl
        simp only
        split
        · have h1 := mv_requeue p 0 1 id { p.node id with qt := 1 } hn hid rfl rfl
          have h2 : Mv p { dqPushBack (dqDelete (p.setNode { p.node id with qt := 1 }) 0 id) 1 id with
              windowWeightedSize := (dqPushBack (dqDelete (p.setNode { p.node id with qt := 1 }) 0 id) 1 id).windowWeightedSize - w64 (p.node id).weight } :=
            h1.trans ⟨List.Perm.refl _, fun _ => rfl⟩
          refine h2.trans (ih _ _ _ (h2.nodup hn) ?_)
          intro y hy
          exact h2.mem.mpr (next_mem p id y hy)
        · exact ih p _ _ hn (fun y hy => next_mem p id y hy)

theorem mv_evictFromWindow (p : Policy) (hn : (all p).Nodup) : Mv p (evictFromWindow p).1 := by
  unfold evictFromWindow
  exact mv_evictFromWindow_go _ p _ _ hn (fun id h => head_window_mem p id h)

theorem all_admit (p : Policy) (c v : Nat) : all (admit p c v).1 = all p := by
  unfold admit; simp only; split
  · rfl
  · split
    · split <;> rfl
    · rfl

theorem node_admit (p : Policy) (c v x : Nat) : (admit p c v).1.node x = p.node x := by
  unfold admit; simp only; split
  · rfl
  · split
    · split <;> rfl
    · rfl

theorem LInv.admit {S : List Nat} {p : Policy} (c v : Nat) (hi : LInv S p) : LInv S (admit p c v).1 :=
  hi.same _ (all_admit p c v) (fun x => by rw [node_admit])


theorem LInv.evictFromMain_go {S : List Nat} (fuel : Nat) : ∀ (p : Policy) (vq cq : Nat) (v c : Option Nat),
    LInv S p → LInv S (evictFromMainX.go p vq cq v c fuel).1 := by
  induction fuel with
  | zero => intro p vq cq v c hi; unfold evictFromMainX.go; exact hi
  | succ fuel ih =>
    intro p vq cq v c hi
    unfold evictFromMainX.go
    simp only
    repeat' split
    all_goals first
      | exact hi
      | exact ih _ _ _ _ _ hi
      | exact ih _ _ _ _ _ (LInv.evictNode _ hi)
      | exact ih _ _ _ _ _ (LInv.evictNode _ (LInv.admit _ _ hi))
      | skip


theorem LInv.evictNodes {S : List Nat} {p : Policy} (hi : LInv S p) : LInv S (evictNodes p) := by
  unfold Policy.evictNodes evictFromMain evictFromMainX
  simp only
  exact LInv.evictFromMain_go _ _ _ _ _ _ (hi.mv (mv_evictFromWindow p hi.c))

/-! ### the hill climber only moves nodes between the queues -/

theorem mv_determineAdjustment (p : Policy) : Mv p (determineAdjustment p) := by
  unfold determineAdjustment
  split
  · exact ⟨List.Perm.refl _, fun _ => rfl⟩
  · simp only
    split
    · exact Mv.refl p
    · exact ⟨List.Perm.refl _, fun _ => rfl⟩

theorem mv_demote_go (i : Nat) : ∀ (p : Policy) (sz : BitVec 64), (all p).Nodup →
    Mv p (demoteFromMainProtected.go p sz i).1 := by
  induction i with
  | zero => intro p sz _; unfold demoteFromMainProtected.go; exact Mv.refl p
  | succ i ih =>
    intro p sz hn
    unfold demoteFromMainProtected.go
    split
    · exact Mv.refl p
    · split
      · exact Mv.refl p
      · rename_i d rest heq
        simp only
        have h1 : Mv p (dqPushBack ({ p with prot := rest }.setNode { p.node d with qt := 1 }) 1 d) := by
          refine ⟨?_, fun id => ?_⟩
          · refine (all_pushBack _ 1 d).trans ?_
            show (d :: (p.window ++ (p.probation ++ rest))).Perm (all p)
            unfold all; rw [heq]
            have e1 : p.window ++ (p.probation ++ d :: rest) = (p.window ++ p.probation) ++ d :: rest := by simp
            have e2 : p.window ++ (p.probation ++ rest) = (p.window ++ p.probation) ++ rest := by simp
            rw [e1, e2]
            exact List.perm_middle.symm
          · rw [node_pushBack]
            by_cases e : id = d
            · subst e
              have := node_setNode_self { p with prot := rest } { p.node id with qt := 1 }
              have hx : ({ p.node id with qt := 1 } : Node).id = id := rfl
              rw [hx] at this; rw [this]
            · rw [node_setNode_other _ _ _ (by exact e)]; rfl
        exact h1.trans (ih _ _ (h1.nodup hn))

theorem mv_demote (p : Policy) (hn : (all p).Nodup) : Mv p (demoteFromMainProtected p) := by
  unfold demoteFromMainProtected
  split
  · exact Mv.refl p
  · simp only
    exact (mv_demote_go _ p _ hn).trans ⟨List.Perm.refl _, fun _ => rfl⟩

theorem incPick_mem (p : Policy) (quota : Int) (c : Nat) (h : (incPick p quota).1 = some c) : c ∈ all p := by
  unfold incPick at h
  split at h
  · rename_i c0 h0
    split at h
    · exact head_prot_mem p c h
    · injection h with h; subst h; exact head_probation_mem p _ h0
  · exact head_prot_mem p c h

theorem mv_incMove (p : Policy) (c : Nat) (b : Bool) (hn : (all p).Nodup) (hc : c ∈ all p) : Mv p (incMove p c b) := by
  unfold incMove
  simp only
  have key : ∀ (p1 : Policy) (q : Nat), Mv p p1 → p1.node c = p.node c →
      Mv p ((dqPushBack { dqDelete p1 q c with windowWeightedSize := (dqDelete p1 q c).windowWeightedSize + w64 (p.node c).weight } 0 c).setNode
        { p.node c with qt := 0 }) := by
    intro p1 q h1 hnode
    have hn1 := h1.nodup hn
    have hc1 : c ∈ all p1 := h1.mem.mpr hc
    have h2 : Mv p1 (dqPushBack (dqDelete p1 q c) 0 c) := mv_delete_pushBack p1 q 0 c hn1 hc1
    have h3 : Mv p1 (dqPushBack { dqDelete p1 q c with windowWeightedSize := (dqDelete p1 q c).windowWeightedSize + w64 (p.node c).weight } 0 c) :=
      ⟨h2.1, h2.2⟩
    refine (h1.trans h3).trans (mv_setNode _ _ ?_)
    show (p.node c).st = _
    rw [node_pushBack]
    show _ = ((dqDelete p1 q c).node c).st
    rw [node_dqDelete, hnode]
  split
  · exact key p 1 (Mv.refl p) rfl
  · exact key _ 2 ⟨List.Perm.refl _, fun _ => rfl⟩ rfl

theorem mv_increase_go (i : Nat) : ∀ (p : Policy) (quota : Int), (all p).Nodup →
    Mv p (increaseWindow.go p quota i).1 := by
  induction i with
  | zero => intro p q _; unfold increaseWindow.go; exact Mv.refl p
  | succ i ih =>
    intro p quota hn
    unfold increaseWindow.go
    split
    · exact Mv.refl p
    · rename_i c hc
      simp only
      split
      · exact Mv.refl p
      · have h1 := mv_incMove p c (incPick p quota).2 hn (incPick_mem p quota c hc)
        exact h1.trans (ih _ _ (h1.nodup hn))

theorem mv_increaseWindow (p : Policy) (hn : (all p).Nodup) : Mv p (increaseWindow p) := by
  unfold increaseWindow
  split
  · exact Mv.refl p
  · simp only
    have h0 : Mv p { p with
        mainProtectedMaximum := p.mainProtectedMaximum - iToU64 (if BitVec.ult p.mainProtectedMaximum (iToU64 p.adjustment) then (p.mainProtectedMaximum.toNat : Int) else p.adjustment),
        windowMaximum := p.windowMaximum + iToU64 (if BitVec.ult p.mainProtectedMaximum (iToU64 p.adjustment) then (p.mainProtectedMaximum.toNat : Int) else p.adjustment) } :=
      ⟨List.Perm.refl _, fun _ => rfl⟩
    have h1 := h0.trans (mv_demote _ (h0.nodup hn))
    have h2 := h1.trans (mv_increase_go 1000 _ (if BitVec.ult p.mainProtectedMaximum (iToU64 p.adjustment) then (p.mainProtectedMaximum.toNat : Int) else p.adjustment) (h1.nodup hn))
    exact h2.trans ⟨List.Perm.refl _, fun _ => rfl⟩

theorem mv_decMove (p : Policy) (c : Nat) (hn : (all p).Nodup) (hc : c ∈ all p) : Mv p (decMove p c) := by
  unfold decMove
  simp only
  have h1 : Mv p { p with windowWeightedSize := p.windowWeightedSize - iToU64 ((p.node c).weight : Int) } :=
    ⟨List.Perm.refl _, fun _ => rfl⟩
  have h2 := h1.trans (mv_delete_pushBack _ 0 1 c (h1.nodup hn) (h1.mem.mpr hc))
  refine h2.trans (mv_setNode _ _ ?_)
  show (p.node c).st = _
  rw [node_pushBack, node_dqDelete]
  rfl

theorem mv_decrease_go (i : Nat) : ∀ (p : Policy) (quota : Int), (all p).Nodup →
    Mv p (decreaseWindow.go p quota i).1 := by
  induction i with
  | zero => intro p q _; unfold decreaseWindow.go; exact Mv.refl p
  | succ i ih =>
    intro p quota hn
    unfold decreaseWindow.go
    split
    · exact Mv.refl p
    · rename_i c hc
      simp only
      split
      · exact Mv.refl p
      · have h1 := mv_decMove p c hn (head_window_mem p c hc)
        exact h1.trans (ih _ _ (h1.nodup hn))

theorem mv_decreaseWindow (p : Policy) (hn : (all p).Nodup) : Mv p (decreaseWindow p) := by
  unfold decreaseWindow
  split
  · exact Mv.refl p
  · simp only
    generalize (if BitVec.ult (p.windowMaximum - 1) (iToU64 (-p.adjustment)) then ((p.windowMaximum - 1).toNat : Int) else -p.adjustment) = quota
    have h0 : Mv p { p with mainProtectedMaximum := p.mainProtectedMaximum + iToU64 quota, windowMaximum := p.windowMaximum - iToU64 quota } :=
      ⟨List.Perm.refl _, fun _ => rfl⟩
    have h2 := h0.trans (mv_decrease_go 1000 _ quota (h0.nodup hn))
    exact h2.trans ⟨List.Perm.refl _, fun _ => rfl⟩

theorem mv_climb (p : Policy) (hn : (all p).Nodup) : Mv p (climb p) := by
  unfold climb
  simp only
  have h1 := mv_determineAdjustment p
  have h2 := h1.trans (mv_demote _ (h1.nodup hn))
  split
  · exact h2
  · split
    · exact h2.trans (mv_increaseWindow _ (h2.nodup hn))
    · exact h2.trans (mv_decreaseWindow _ (h2.nodup hn))

theorem mv_setMaximumSize (p : Policy) (m : BitVec 64) : Mv p (setMaximumSize p m) := by
  unfold setMaximumSize
  split
  · exact Mv.refl p
  · simp only
    split
    · exact ⟨List.Perm.refl _, fun _ => rfl⟩
    · exact ⟨List.Perm.refl _, fun _ => rfl⟩

/-! ### what the table does to nodes -/

theorem LInv.mkNode {S : List Nat} {p : Policy} (id key w : Nat) (st : NState) (hi : LInv S p) (hs : id ∉ S) :
    LInv S (mkNode p id key w st) := by
  have hnl : id ∉ all p := fun h => hs (hi.a id h).1
  unfold Policy.mkNode
  refine ⟨fun x hx => ?_, fun x hx ha => ?_, hi.c⟩
  · have hne : x ≠ id := fun e => hnl (e ▸ hx)
    rw [node_setNode_other _ _ _ (by exact hne)]; exact hi.a x hx
  · have hne : x ≠ id := fun e => hs (e ▸ hx)
    rw [node_setNode_other _ _ _ (by exact hne)] at ha; exact hi.b x hx ha

theorem LInv.retire {S : List Nat} {p : Policy} (id : Nat) (hi : LInv S p) : LInv S (retire p id) := by
  unfold Policy.retire
  simp only
  split
  · refine ⟨fun x hx => ?_, fun x hx ha => ?_, hi.c⟩
    · by_cases e : x = id
      · subst e
        have := node_setNode_self p { p.node x with st := .retired }
        have hx' : ({ p.node x with st := NState.retired } : Node).id = x := rfl
        rw [hx'] at this; rw [this]
        exact ⟨(hi.a x hx).1, fun e => NState.noConfusion e⟩
      · rw [node_setNode_other _ _ _ (by exact e)]; exact hi.a x hx
    · by_cases e : x = id
      · subst e
        have := node_setNode_self p { p.node x with st := .retired }
        have hx' : ({ p.node x with st := NState.retired } : Node).id = x := rfl
        rw [hx'] at this; rw [this] at ha
        exact NState.noConfusion ha
      · rw [node_setNode_other _ _ _ (by exact e)] at ha; exact hi.b x hx ha
  · exact hi

/-! ### every reachable state -/

/-- The states of the policy reachable by ANY sequence of table actions (node creation, removal from the table) and
    maintenance actions (the write events add/update/delete in any order relative to each other and to evictions, reads,
    climbs and maximum changes).  `S` is the set of nodes whose introducing event has been processed; the only ordering
    assumption is that a node is introduced once (the table emits exactly one add or update for it). -/
inductive Reach : List Nat → Policy → Prop
  | init (p : Policy) : p.window = [] → p.probation = [] → p.prot = [] → p.weightedSize = 0 → Reach [] p
  | mk {S p} (id key w : Nat) (st : NState) : Reach S p → id ∉ S → Reach S (mkNode p id key w st)
  | retire {S p} (id : Nat) : Reach S p → Reach S (retire p id)
  | add {S p} (id : Nat) : Reach S p → id ∉ S → Reach (id :: S) (add p id)
  | update {S p} (id old : Nat) : Reach S p → id ∉ S → Reach (id :: S) (update p id old)
  | delete {S p} (id : Nat) : Reach S p → Reach S (delete p id)
  | access {S p} (id : Nat) : Reach S p → Reach S (access p id)
  | evict {S p} : Reach S p → Reach S (evictNodes p)
  | climb {S p} : Reach S p → Reach S (climb p)
  | setmax {S p} (m : BitVec 64) : Reach S p → Reach S (setMaximumSize p m)

theorem reach_inv {S : List Nat} {p : Policy} (h : Reach S p) : LInv S p := by
  induction h with
  | init p h0 h1 h2 _ =>
    have : all p = [] := by unfold all; rw [h0, h1, h2]; rfl
    refine ⟨fun id hid => ?_, fun id hs _ => ?_, ?_⟩
    · rw [this] at hid; cases hid
    · cases hs
    · rw [this]; exact List.nodup_nil
  | mk id key w st _ hs ih => exact ih.mkNode id key w st hs
  | retire id _ ih => exact ih.retire id
  | add id _ hs ih => exact ih.add hs
  | update id old _ hs ih => exact ih.update old hs
  | delete id _ ih => exact ih.delete id
  | access id _ ih => exact ih.mv (mv_access _ id ih.c)
  | evict _ ih => exact ih.evictNodes
  | climb _ ih => exact ih.mv (mv_climb _ ih.c)
  | setmax m _ ih => exact ih.mv (mv_setMaximumSize _ m)

end OtterVerif.Impl.Policy
