/-
  Proofs.PolicyGen — the hand-written policy model (Impl.Policy) against the REGENERATED pure computations of
  policy.go (Gen.Policy: every condition, counter update and assignment in the integer/boolean subset).

  For add, update, discount, reorderProbation and admit the model function is shown equal to the same control
  structure with every decision and every counter update replaced by the generated definition — so the model's
  comparisons (`>` vs `>=`, which maximum, which counter, `+` vs `-`) are the code's, for all states.
  For the eviction loops the generated conditions are related to the model's guards one by one.
  The control structure itself (which decision guards which update) is the transcription, exercised by UNIT-policy.
-/
import OtterVerif.Impl.Policy
import OtterVerif.Gen.Policy

namespace OtterVerif.Proofs.PolicyGen
open OtterVerif OtterVerif.Impl.Policy

/-! ### add -/

def addG (p : Policy) (id : Nat) : Policy :=
  let n := p.node id
  let w := w64 n.weight
  let alive := Gen.Policy.add_a1 (n.st == .alive)
  let p := if Gen.Policy.add_c0 alive then
      { p with weightedSize := Gen.Policy.add_u0 w p.weightedSize, windowWeightedSize := Gen.Policy.add_u1 w p.windowWeightedSize }
    else p
  let p := if Gen.Policy.add_c1 p.maximum p.weightedSize then
      let cap : BitVec 64 :=
        if Gen.Policy.add_c2 p.isWeighted then Gen.Policy.add_a3 (w64 p.probation.length) (w64 p.prot.length) (w64 p.window.length)
        else Gen.Policy.add_a2 p.maximum
      p.ensure cap
    else p
  let p := p.sketchIncr n.key
  let p := { p with missesInSample := Gen.Policy.add_u2 p.missesInSample }
  if Gen.Policy.add_c3 alive then p
  else if Gen.Policy.add_c4 w p.maximum then
    evictNode { p with weightedSize := Gen.Policy.add_u3 w p.weightedSize, windowWeightedSize := Gen.Policy.add_u4 w p.windowWeightedSize } id
  else if Gen.Policy.add_c5 w p.windowMaximum then dqPushFront p 0 id
  else dqPushBack p 0 id

theorem w64_add3 (a b c : Nat) : w64 a + w64 b + w64 c = w64 (a + b + c) := by
  unfold w64; rw [← BitVec.ofNat_add, ← BitVec.ofNat_add]

theorem addG_eq (p : Policy) (id : Nat) : addG p id = add p id := by
  have hcap : ∀ q : Policy, Gen.Policy.add_a3 (w64 q.probation.length) (w64 q.prot.length) (w64 q.window.length)
      = w64 (q.window.length + q.probation.length + q.prot.length) := fun q => w64_add3 _ _ _
  unfold addG add
  simp only [hcap]
  rfl

/-! ### discount -/

def discountG (p : Policy) (id : Nat) : Policy :=
  let n := p.node id
  let w := w64 n.weight
  let p := if Gen.Policy.discount_c0 (n.qt == 0) then { p with windowWeightedSize := Gen.Policy.discount_u0 w p.windowWeightedSize }
           else if Gen.Policy.discount_c1 (n.qt == 2) then { p with mainProtectedWeightedSize := Gen.Policy.discount_u1 w p.mainProtectedWeightedSize } else p
  { p with weightedSize := Gen.Policy.discount_u2 w p.weightedSize }

theorem discountG_eq (p : Policy) (id : Nat) : discountG p id = discount p id := by
  rfl

/-! ### reorderProbation -/

def reorderProbationG (p : Policy) (id : Nat) : Policy :=
  let n := p.node id
  let w := w64 n.weight
  if Gen.Policy.reorderProbation_c0 (!(dqContains p 1 id)) then p
  else if Gen.Policy.reorderProbation_c1 w p.mainProtectedMaximum then reorder p 1 id
  else
    let p := { p with mainProtectedWeightedSize := Gen.Policy.reorderProbation_u0 w p.mainProtectedWeightedSize }
    let p := dqDelete p 1 id
    let p := dqPushBack p 2 id
    p.setNode { n with qt := 2 }

theorem reorderProbationG_eq (p : Policy) (id : Nat) : reorderProbationG p id = reorderProbation p id := by
  rfl

/-! ### update -/

def updateG (p : Policy) (id old : Nat) : Policy :=
  let w := w64 (p.node id).weight
  if Gen.Policy.update_c0 ((p.node id).st == .dead) then delete p old
  else if Gen.Policy.update_c1 (dqContains p (p.node old).qt old) then  -- (the generated condition carries the negation)
    let p := makeDead p old
    if Gen.Policy.update_c2 ((p.node id).st == .alive) then add p id else p
  else
  let p := updateNode p id old
  let n := p.node id
  if Gen.Policy.update_c3 (n.qt == 0) then
    let p := { p with windowWeightedSize := Gen.Policy.update_u0 w p.windowWeightedSize }
    if Gen.Policy.update_c6 w p.maximum then evictNode { p with weightedSize := Gen.Policy.update_u1 w p.weightedSize } id
    else
      let p := if Gen.Policy.update_c7 w p.windowMaximum then access p id
               else if Gen.Policy.update_c8 (dqContains p 0 id) then dqMoveToFront p 0 id else p
      { p with weightedSize := Gen.Policy.update_u5 w p.weightedSize }
  else if Gen.Policy.update_c4 (n.qt == 1) then
    if Gen.Policy.update_c9 w p.maximum then { access p id with weightedSize := Gen.Policy.update_u5 w (access p id).weightedSize }
    else evictNode { p with weightedSize := Gen.Policy.update_u2 w p.weightedSize } id
  else
    let p := { p with mainProtectedWeightedSize := Gen.Policy.update_u3 w p.mainProtectedWeightedSize }
    if Gen.Policy.update_c10 w p.maximum then { access p id with weightedSize := Gen.Policy.update_u5 w (access p id).weightedSize }
    else evictNode { p with weightedSize := Gen.Policy.update_u4 w p.weightedSize } id

theorem updateG_eq (p : Policy) (id old : Nat) : updateG p id old = update p id old := by
  rfl

/-! ### admit -/

theorem jitter_eq (r : Nat) : Gen.Policy.admit_r1 (BitVec.ofNat 32 r) = ((r % 128) == 0) := by
  unfold Gen.Policy.admit_r1
  have h : ((BitVec.ofNat 32 r) &&& 127#32).toNat = r % 128 := by
    rw [BitVec.toNat_and, BitVec.toNat_ofNat]
    have : (127#32).toNat = 2 ^ 7 - 1 := by decide
    rw [this, Nat.and_two_pow_sub_one_eq_mod]
    have : (128 : Nat) ∣ 2 ^ 32 := ⟨2 ^ 25, by decide⟩
    exact Nat.mod_mod_of_dvd r this
  by_cases h0 : r % 128 = 0
  · have : (BitVec.ofNat 32 r) &&& 127#32 = 0#32 := BitVec.eq_of_toNat_eq (by rw [h, h0]; rfl)
    rw [this]; simp [h0]
  · have : (BitVec.ofNat 32 r) &&& 127#32 ≠ 0#32 := by
      intro he; rw [he] at h; exact h0 (by simpa using h.symm)
    have h1 : ((BitVec.ofNat 32 r &&& 127#32) == 0#32) = false := by simpa using this
    have h2 : ((r % 128) == 0) = false := by simpa using h0
    rw [h1, h2]

/-- the model's admission decision is the code's: strictly greater estimate; otherwise, with an estimate of at least the
    hash-flooding threshold, one random draw in 128; otherwise no -/
theorem admit_gen (p : Policy) (ck vk : Nat) :
    (admit p ck vk).2 =
      if Gen.Policy.admit_c0 (p.freq ck) (p.freq vk) then Gen.Policy.admit_r0
      else if Gen.Policy.admit_c1 (p.freq ck) then
        (match p.rands with
         | r :: _ => Gen.Policy.admit_r1 (BitVec.ofNat 32 r)
         | [] => false)
      else Gen.Policy.admit_r2 := by
  unfold admit
  simp only [Gen.Policy.admit_c0, Gen.Policy.admit_c1, Gen.Policy.admit_r0, Gen.Policy.admit_r2]
  by_cases h0 : BitVec.ult (p.freq vk) (p.freq ck)
  · simp [h0]
  · by_cases h1 : BitVec.ule 6#64 (p.freq ck)
    · have h1' : BitVec.ule (6 : BitVec 64) (p.freq ck) = true := h1
      simp only [h0, h1, h1', ↓reduceIte, Bool.false_eq_true]
      cases hr : p.rands with
      | nil => rfl
      | cons r rest => simp [jitter_eq]
    · have h1' : ¬ BitVec.ule (6 : BitVec 64) (p.freq ck) = true := h1
      simp only [h0, h1, h1', ↓reduceIte, Bool.false_eq_true]

/-! ### the eviction loops: the generated guards are the model's -/

theorem evictFromWindow_guard (p : Policy) :
    Gen.Policy.evictFromWindow_c0 p.windowMaximum p.windowWeightedSize = BitVec.ult p.windowMaximum p.windowWeightedSize := rfl
theorem evictFromWindow_skip (w : Nat) (h : w < 2 ^ 64) : Gen.Policy.evictFromWindow_c2 (w64 w) = (w != 0) := by
  unfold Gen.Policy.evictFromWindow_c2 w64
  by_cases h0 : w = 0
  · subst h0; rfl
  · have : BitVec.ofNat 64 w ≠ 0#64 := by
      intro he
      have := congrArg BitVec.toNat he
      rw [BitVec.toNat_ofNat, Nat.mod_eq_of_lt h] at this
      exact h0 (by simpa using this)
    have h1 : (BitVec.ofNat 64 w != 0#64) = true := by simpa using this
    have h2 : (w != 0) = true := by simpa using h0
    rw [h1, h2]
theorem evictFromMain_guard (p : Policy) :
    Gen.Policy.evictFromMain_c0 p.maximum p.weightedSize = BitVec.ult p.maximum p.weightedSize := rfl
/-- a candidate that alone exceeds the maximum is evicted without consulting the sketch (weights are uint32 in the code) -/
theorem evictFromMain_oversized (p : Policy) (w : BitVec 32) :
    Gen.Policy.evictFromMain_c12 w p.maximum = BitVec.ult p.maximum (w64 w.toNat) := by
  unfold Gen.Policy.evictFromMain_c12 w64
  congr 1
  apply BitVec.eq_of_toNat_eq
  rw [BitVec.toNat_setWidth, BitVec.toNat_ofNat]
/-- the victim queue is walked probation (1) → protected (2) → window (0) -/
theorem evictFromMain_queues :
    (Gen.Policy.evictFromMain_a0 = 1#8 ∧ Gen.Policy.evictFromMain_a1 = 1#8) ∧
    (∀ q : BitVec 8, Gen.Policy.evictFromMain_c3 q = (q == 1#8) ∧ Gen.Policy.evictFromMain_c4 q = (q == 2#8)) :=
  ⟨⟨rfl, rfl⟩, fun _ => ⟨rfl, rfl⟩⟩

end OtterVerif.Proofs.PolicyGen
