/-
  Proofs.PolicyFuel — the loop bound of the model's evictFromMain (4n+16 iterations) is never reached: a potential that
  every iteration of the loop decreases.  Removes the run-time hypothesis from the bound theorem.
-/
import OtterVerif.Proofs.PolicyBound

namespace OtterVerif.Impl.Policy

/-- remaining victim traversal: rest of the current queue, the queues still to come, and the switches between them -/
def RV (p : Policy) (vq : Nat) (v : Option Nat) : Nat :=
  if vq = 1 then sfx p.probation v + p.prot.length + p.window.length + 2
  else if vq = 2 then sfx p.prot v + p.window.length + 1
  else sfx p.window v

/-- remaining candidate traversal within the candidate's queue (1 for the pointer itself) -/
def RC (p : Policy) (c : Option Nat) : Nat :=
  match c with
  | none => 0
  | some x => 1 + sfx p.window (some x) + sfx p.probation (some x) + sfx p.prot (some x)

/-- the candidate pointer may still be re-seated to the head of the window -/
def QC (p : Policy) (cq : Nat) : Nat := if cq = 1 then p.window.length + 2 else 0

def Phi (p : Policy) (vq cq : Nat) (v c : Option Nat) : Nat := RV p vq v + RC p c + QC p cq

theorem disj_parts (p : Policy) (hn : (all p).Nodup) :
    (∀ x, x ∈ p.window → x ∉ p.probation ∧ x ∉ p.prot) ∧ (∀ x, x ∈ p.probation → x ∉ p.window ∧ x ∉ p.prot) ∧
    (∀ x, x ∈ p.prot → x ∉ p.window ∧ x ∉ p.probation) := by
  unfold all at hn
  have a := List.nodup_append.mp hn
  have b := List.nodup_append.mp a.2.1
  refine ⟨fun x hx => ⟨fun h => a.2.2 x hx x (List.mem_append_left _ h) rfl, fun h => a.2.2 x hx x (List.mem_append_right _ h) rfl⟩,
    fun x hx => ⟨fun h => a.2.2 x h x (List.mem_append_left _ hx) rfl, fun h => b.2.2 x hx x h rfl⟩,
    fun x hx => ⟨fun h => a.2.2 x h x (List.mem_append_right _ hx) rfl, fun h => b.2.2 x h x hx rfl⟩⟩

theorem succOf_mem (l : List Nat) (x y : Nat) (h : succOf l x = some y) : y ∈ l := by
  unfold succOf at h
  have h1 : y ∈ (l.dropWhile (· != x)).tail := List.mem_of_mem_head? (by rw [h]; exact rfl)
  exact (List.dropWhile_sublist _).subset (List.mem_of_mem_tail h1)

/-! ### candidate pointer -/

theorem rc_next (p : Policy) (x : Nat) (hn : (all p).Nodup) : RC p (next p x) + 1 ≤ RC p (some x) := by
  have hp := nodup_parts p hn
  have hd := disj_parts p hn
  by_cases hw : x ∈ p.window
  · rw [next_window p x hw]
    have h1 := sfx_succ p.window x hp.1 hw
    cases hs : succOf p.window x with
    | none => unfold RC; simp only; omega
    | some y =>
      have hy := succOf_mem _ _ _ hs
      rw [hs] at h1
      unfold RC
      simp only
      rw [sfx_notin _ _ (hd.1 y hy).1, sfx_notin _ _ (hd.1 y hy).2, sfx_notin _ _ (hd.1 x hw).1, sfx_notin _ _ (hd.1 x hw).2]
      omega
  · by_cases hpb : x ∈ p.probation
    · rw [next_probation p x hn hpb]
      have h1 := sfx_succ p.probation x hp.2.1 hpb
      cases hs : succOf p.probation x with
      | none => unfold RC; simp only; omega
      | some y =>
        have hy := succOf_mem _ _ _ hs
        rw [hs] at h1
        unfold RC
        simp only
        rw [sfx_notin _ _ (hd.2.1 y hy).1, sfx_notin _ _ (hd.2.1 y hy).2, sfx_notin _ _ (hd.2.1 x hpb).1, sfx_notin _ _ (hd.2.1 x hpb).2]
        omega
    · by_cases hpt : x ∈ p.prot
      · rw [next_prot p x hn hpt]
        have h1 := sfx_succ p.prot x hp.2.2 hpt
        cases hs : succOf p.prot x with
        | none => unfold RC; simp only; omega
        | some y =>
          have hy := succOf_mem _ _ _ hs
          rw [hs] at h1
          unfold RC
          simp only
          rw [sfx_notin _ _ (hd.2.2 y hy).1, sfx_notin _ _ (hd.2.2 y hy).2, sfx_notin _ _ (hd.2.2 x hpt).1, sfx_notin _ _ (hd.2.2 x hpt).2]
          omega
      · have : next p x = none := by
          unfold next linkedIn
          simp only [List.contains_eq_mem, decide_eq_true_eq, hw, hpb, hpt, ↓reduceIte]
        rw [this]
        unfold RC; simp only; omega

theorem rc_evict_other (p : Policy) (c : Option Nat) (z : Nat) (hn : (all p).Nodup) (hne : c ≠ some z) :
    RC (evictNode p z) c ≤ RC p c := by
  have hq := dqs_evictNode p z hn
  cases c with
  | none => exact Nat.le_refl _
  | some x =>
    unfold RC
    simp only
    rw [hq.1, hq.2.1, hq.2.2]
    have a := sfx_filter_other p.window (some x) z hne
    have b := sfx_filter_other p.probation (some x) z hne
    have d := sfx_filter_other p.prot (some x) z hne
    omega

theorem next_ne (p : Policy) (x : Nat) (hn : (all p).Nodup) : next p x ≠ some x := by
  intro h
  have := rc_next p x hn
  rw [h] at this
  omega

/-- the candidate is evicted and the pointer moves to what was its successor -/
theorem rc_evict_next (p : Policy) (x : Nat) (hn : (all p).Nodup) : RC (evictNode p x) (next p x) + 1 ≤ RC p (some x) :=
  Nat.le_trans (Nat.add_le_add_right (rc_evict_other p (next p x) x hn (next_ne p x hn)) 1) (rc_next p x hn)

theorem rc_head (p : Policy) (hn : (all p).Nodup) : RC p p.window.head? ≤ p.window.length + 1 := by
  cases hh : p.window.head? with
  | none => unfold RC; simp
  | some x =>
    have hx : x ∈ p.window := List.mem_of_mem_head? (by rw [hh]; exact rfl)
    have hd := (disj_parts p hn).1 x hx
    have := sfx_head p.window
    rw [hh] at this
    unfold RC
    simp only
    rw [this, sfx_notin _ _ hd.1, sfx_notin _ _ hd.2]
    omega

theorem qc_evict (p : Policy) (cq z : Nat) (hn : (all p).Nodup) : QC (evictNode p z) cq ≤ QC p cq := by
  unfold QC
  rw [(dqs_evictNode p z hn).1]
  have := length_filter_le' p.window z
  split <;> omega

/-! ### victim pointer -/

theorem zmem (p : Policy) (vq x : Nat) (h : Z p vq (some x)) :
    if vq = 1 then x ∈ p.probation else if vq = 2 then x ∈ p.prot else x ∈ p.window := by
  unfold Z at h
  split
  · rename_i e; rw [if_pos e] at h; exact h.1
  · rename_i e1; rw [if_neg e1] at h
    split
    · rename_i e; rw [if_pos e] at h; exact h.2.1
    · rename_i e; rw [if_neg e] at h; exact h.2.2.1

theorem rv_skip (p : Policy) (vq x : Nat) (hn : (all p).Nodup) (h : Z p vq (some x)) :
    RV p vq (next p x) + 1 ≤ RV p vq (some x) := by
  have hp := nodup_parts p hn
  have hm := zmem p vq x h
  unfold RV
  split
  · rename_i e; rw [if_pos e] at hm
    rw [next_probation p x hn hm]
    have := sfx_succ p.probation x hp.2.1 hm
    omega
  · rename_i e1; rw [if_neg e1] at hm
    split
    · rename_i e; rw [if_pos e] at hm
      rw [next_prot p x hn hm]
      have := sfx_succ p.prot x hp.2.2 hm
      omega
    · rename_i e; rw [if_neg e] at hm
      rw [next_window p x hm]
      have := sfx_succ p.window x hp.1 hm
      omega

theorem rv_evict_self (p : Policy) (vq x : Nat) (hn : (all p).Nodup) (h : Z p vq (some x)) :
    RV (evictNode p x) vq (next p x) + 1 ≤ RV p vq (some x) := by
  have hp := nodup_parts p hn
  have hm := zmem p vq x h
  have hq := dqs_evictNode p x hn
  have lw := length_filter_le' p.window x
  have lp := length_filter_le' p.prot x
  unfold RV
  rw [hq.1, hq.2.1, hq.2.2]
  split
  · rename_i e; rw [if_pos e] at hm
    rw [next_probation p x hn hm]
    have := sfx_filter_self p.probation x hp.2.1 hm
    omega
  · rename_i e1; rw [if_neg e1] at hm
    split
    · rename_i e; rw [if_pos e] at hm
      rw [next_prot p x hn hm]
      have := sfx_filter_self p.prot x hp.2.2 hm
      omega
    · rename_i e; rw [if_neg e] at hm
      rw [next_window p x hm]
      have := sfx_filter_self p.window x hp.1 hm
      omega

theorem rv_evict_other (p : Policy) (vq c : Nat) (v : Option Nat) (hn : (all p).Nodup) (hne : v ≠ some c) :
    RV (evictNode p c) vq v ≤ RV p vq v := by
  have hq := dqs_evictNode p c hn
  have lw := length_filter_le' p.window c
  have lp := length_filter_le' p.prot c
  have a := sfx_filter_other p.window v c hne
  have b := sfx_filter_other p.probation v c hne
  have d := sfx_filter_other p.prot v c hne
  unfold RV
  rw [hq.1, hq.2.1, hq.2.2]
  split
  · omega
  · split <;> omega

theorem rv_switch12 (p : Policy) : RV p 2 p.prot.head? + 1 ≤ RV p 1 none := by
  unfold RV
  simp only [Nat.reduceEqDiff, ↓reduceIte]
  have := sfx_le p.prot p.prot.head?
  omega

theorem rv_switch20 (p : Policy) : RV p 0 p.window.head? + 1 ≤ RV p 2 none := by
  unfold RV
  rw [if_neg (by decide), if_neg (by decide), if_neg (by decide), if_pos rfl]
  have := sfx_le p.window p.window.head?
  omega


/-! ### the induction -/

theorem dqs_admit (p : Policy) (a b : Nat) :
    (admit p a b).1.window = p.window ∧ (admit p a b).1.probation = p.probation ∧ (admit p a b).1.prot = p.prot := by
  unfold admit; simp only; split
  · exact ⟨rfl, rfl, rfl⟩
  · split
    · split <;> exact ⟨rfl, rfl, rfl⟩
    · exact ⟨rfl, rfl, rfl⟩

theorem rv_admit (p : Policy) (a b vq : Nat) (v : Option Nat) : RV (admit p a b).1 vq v = RV p vq v := by
  have h := dqs_admit p a b
  unfold RV; rw [h.1, h.2.1, h.2.2]
theorem rc_admit (p : Policy) (a b : Nat) (c : Option Nat) : RC (admit p a b).1 c = RC p c := by
  have h := dqs_admit p a b
  unfold RC; rw [h.1, h.2.1, h.2.2]
theorem qc_admit (p : Policy) (a b cq : Nat) : QC (admit p a b).1 cq = QC p cq := by
  have h := dqs_admit p a b
  unfold QC; rw [h.1]

theorem refill_le (p : Policy) (c : Option Nat) (cq : Nat) (hn : (all p).Nodup) :
    RC p (if (c.isNone && cq == 1) = true then p.window.head? else c) + QC p (if (c.isNone && cq == 1) = true then 0 else cq)
      ≤ RC p c + QC p cq := by
  by_cases h : (c.isNone && cq == 1) = true
  · rw [if_pos h, if_pos h]
    have hc : c = none := by
      cases c with
      | none => rfl
      | some x => simp at h
    have hq : cq = 1 := by
      subst hc; simpa using h
    subst hc; subst hq
    have := rc_head p hn
    unfold QC
    rw [if_neg (by decide), if_pos rfl]
    show RC p p.window.head? + 0 ≤ RC p none + (p.window.length + 2)
    omega
  · rw [if_neg h, if_neg h]
    exact Nat.le_refl _

theorem fuel_go {S : List Nat} (fuel : Nat) : ∀ (p : Policy) (vq cq : Nat) (v c : Option Nat),
    LInv S p → Z p vq v → Phi p vq cq v c + 1 ≤ fuel → (evictFromMainX.go p vq cq v c fuel).2 = false := by
  induction fuel with
  | zero => intro p vq cq v c _ _ h; omega
  | succ fuel ih =>
    intro p vq cq v c hi hz hphi
    have hn := hi.c
    have hrf := refill_le p c cq hn
    unfold Phi at hphi
    unfold evictFromMainX.go
    simp only
    generalize (if (c.isNone && cq == 1) = true then p.window.head? else c) = c' at hrf ⊢
    generalize (if (c.isNone && cq == 1) = true then 0 else cq) = cq' at hrf ⊢
    have H : RV p vq v + RC p c' + QC p cq' ≤ fuel := by omega
    split
    · rfl
    · split
      · rename_i hnone
        have hv : v = none := by
          cases v with
          | none => rfl
          | some x => simp at hnone
        subst hv
        split
        · rename_i e
          have e1 : vq = 1 := by simpa using e
          subst e1
          refine ih _ _ _ _ _ hi (Z_switch12 p hz) ?_
          have := rv_switch12 p
          unfold Phi; omega
        · rename_i e1
          split
          · rename_i e
            have e2 : vq = 2 := by simpa using e
            subst e2
            refine ih _ _ _ _ _ hi (Z_switch20 p hz) ?_
            have := rv_switch20 p
            unfold Phi; omega
          · rfl
      · rename_i hsome
        split
        · rename_i xo v1
          split
          · rename_i hw0
            refine ih _ _ _ _ _ hi (Z_skip p vq v1 hn hz (by simpa using hw0)) ?_
            have := rv_skip p vq v1 hn hz
            unfold Phi; omega
          · split
            · rename_i c1
              split
              · refine ih _ _ _ _ _ hi hz ?_
                have := rc_next p c1 hn
                unfold Phi; omega
              · split
                · rename_i hcv
                  have e : c1 = v1 := by simpa using hcv
                  subst e
                  refine ih _ _ _ _ _ (LInv.evictNode _ hi) (Z_evict_self p vq c1 hn hz) ?_
                  have a := rv_evict_self p vq c1 hn hz
                  have b := qc_evict p cq' c1 hn
                  unfold Phi RC
                  simp only
                  omega
                · rename_i hcv
                  have hne : (some v1 : Option Nat) ≠ some c1 := by
                    intro e; injection e with e; exact hcv (by simp [e])
                  have hne' : (some c1 : Option Nat) ≠ some v1 := fun e => hne e.symm
                  split
                  · refine ih _ _ _ _ _ (LInv.evictNode _ hi) (Z_evict_self p vq v1 hn hz) ?_
                    have a := rv_evict_self p vq v1 hn hz
                    have b := qc_evict p cq' v1 hn
                    have d := rc_evict_other p (some c1) v1 hn hne'
                    unfold Phi; omega
                  · split
                    · refine ih _ _ _ _ _ (LInv.evictNode _ hi) (Z_evict_other p vq c1 _ hn hne hz) ?_
                      have a := rv_evict_other p vq c1 (some v1) hn hne
                      have b := qc_evict p cq' c1 hn
                      have d := rc_evict_next p c1 hn
                      unfold Phi; omega
                    · split
                      · refine ih _ _ _ _ _ (LInv.evictNode _ hi) (Z_evict_other p vq c1 _ hn hne hz) ?_
                        have a := rv_evict_other p vq c1 (some v1) hn hne
                        have b := qc_evict p cq' c1 hn
                        have d := rc_evict_next p c1 hn
                        unfold Phi; omega
                      · have hi' := linv_admit (p.node c1).key (p.node v1).key hi
                        have hz' := Z_admit p vq (p.node c1).key (p.node v1).key _ hz
                        have e1 := rv_admit p (p.node c1).key (p.node v1).key vq (some v1)
                        have e2 := rc_admit p (p.node c1).key (p.node v1).key (some c1)
                        have e3 := qc_admit p (p.node c1).key (p.node v1).key cq'
                        split
                        · refine ih _ _ _ _ _ (LInv.evictNode _ hi') (Z_evict_self _ vq v1 hi'.c hz') ?_
                          have a := rv_evict_self _ vq v1 hi'.c hz'
                          have b := qc_evict (admit p (p.node c1).key (p.node v1).key).1 cq' v1 hi'.c
                          have d := rc_evict_other (admit p (p.node c1).key (p.node v1).key).1 (some c1) v1 hi'.c hne'
                          have f := rc_next (evictNode (admit p (p.node c1).key (p.node v1).key).1 v1) c1 (LInv.evictNode v1 hi').c
                          unfold Phi; omega
                        · refine ih _ _ _ _ _ (LInv.evictNode _ hi') (Z_evict_other _ vq c1 _ hi'.c hne hz') ?_
                          have a := rv_evict_other (admit p (p.node c1).key (p.node v1).key).1 vq c1 (some v1) hi'.c hne
                          have b := qc_evict (admit p (p.node c1).key (p.node v1).key).1 cq' c1 hi'.c
                          have d := rc_evict_next (admit p (p.node c1).key (p.node v1).key).1 c1 hi'.c
                          unfold Phi; omega
            · refine ih _ _ _ _ _ (LInv.evictNode _ hi) (Z_evict_self p vq v1 hn hz) ?_
              have a := rv_evict_self p vq v1 hn hz
              have b := qc_evict p cq' v1 hn
              unfold Phi RC
              simp only
              omega
        · rename_i c1
          split
          · refine ih _ _ _ _ _ hi hz ?_
            have := rc_next p c1 hn
            unfold Phi; omega
          · refine ih _ _ _ _ _ (LInv.evictNode _ hi) (Z_evict_other p vq c1 none hn (by intro e; cases e) hz) ?_
            have a := rv_evict_other p vq c1 none hn (by intro e; cases e)
            have b := qc_evict p cq' c1 hn
            have d := rc_evict_next p c1 hn
            unfold Phi; omega
        · rfl


theorem phi_bound (p : Policy) (c : Option Nat) :
    Phi p 1 1 p.probation.head? c + 1 ≤ 4 * (p.window.length + p.probation.length + p.prot.length) + 16 := by
  unfold Phi RV QC
  simp only [↓reduceIte]
  have a := sfx_le p.probation p.probation.head?
  have hc : RC p c ≤ 1 + p.window.length + p.probation.length + p.prot.length := by
    cases c with
    | none => unfold RC; simp
    | some x =>
      unfold RC
      simp only
      have a := sfx_le p.window (some x)
      have b := sfx_le p.probation (some x)
      have d := sfx_le p.prot (some x)
      omega
  omega

/-- the model's loop bound never cuts evictNodes short -/
theorem evictNodes_never_runs_out {S : List Nat} {p : Policy} (hi : LInv S p) : evictNodesRanOut p = false := by
  unfold evictNodesRanOut evictFromMainX
  simp only
  have hm := mv_evictFromWindow p hi.c
  have hi1 := hi.mv hm
  have hz : Z (evictFromWindow p).1 1 (evictFromWindow p).1.probation.head? := by
    unfold Z; simp only [↓reduceIte]; exact ZB_head _ _
  exact fuel_go _ _ 1 1 _ _ hi1 hz (phi_bound _ _)

end OtterVerif.Impl.Policy
