/-
  Proofs.TableEvict — automatic removals inside the refinement Impl.Table ⊑ Spec.

  `Impl.Table.evictNode` transcribes cache.evictNode + cache.deleteNodeFromMap: what the size policy (evictNodeBySize) and
  the timer wheel (DeleteExpired's callback) run for the node they picked.  Shown here, for every table, key and clock:

    * the cause reported is truthful by construction: Expiration iff the node's deadline has passed at the clock value the
      removal uses, Overflow otherwise (never Invalidation / Replacement)                                    [C06, C07]
    * the removal is exactly the spec's `evict` input: the event names the mapped key and the mapped value, and IF the
      spec accepts it (`Spec.evict` = some s') the new table abstracts to s'.m, the clock is unchanged and the key's
      in-flight load is unregistered on both sides                                                          [C01, C09]
    * a removal of an expired node is always accepted by the spec (no hypothesis): the wheel only has to find it [C13]
    * a removal of a live node is accepted iff the cache is bounded, the node weighs something and the total weight
      exceeds the maximum or the node alone does — `Spec.evictOk`; that guard is the policy's business (Proofs.PolicyJust
      proves it for Impl.Policy; the composition policy ↔ table is NOT proven, see DESIGN 13.10)               [C07]
    * a node that is no longer the mapped one (`same = false`) or a key that is absent: nothing is removed, nothing is
      reported                                                                                                [C06]

  and the history theorem of Proofs.TableTrace is extended to histories that contain such removals at arbitrary points
  (`xhistory_sim`): as long as the spec accepts each removal, the two runs stay in step.
-/
import OtterVerif.Proofs.TableTrace

namespace OtterVerif.Proofs.TableEvict
open OtterVerif OtterVerif.Impl.Table OtterVerif.Proofs.TableRefine OtterVerif.Proofs.TableTrace
open OtterVerif.Spec (Cause Event Out Entry Cfg Kind)

/-- the cause evictNode ends up reporting for the node it removes -/
def evictCause (n : TNode) (now : Int) : Cause := if hasExpired n now then .expiration else .overflow

theorem getCause_idem (n : TNode) (now : Int) :
    getCause n now (if hasExpired n now then Cause.expiration else Cause.overflow) = evictCause n now := by
  unfold getCause evictCause
  cases hasExpired n now <;> rfl

/-- evictNode on a mapped node: table and event, spelled out -/
theorem evictNode_some (t : Tbl) (k : Nat) (now : Int) (cur : TNode) (hl : lookup t k = some cur) :
    evictNode t k true now = (unlink t k, [{ key := cur.key, val := cur.val, cause := evictCause cur now }]) := by
  unfold evictNode
  rw [hl]
  simp only [↓reduceIte, getCause_idem]

theorem evictNode_none (t : Tbl) (k : Nat) (same : Bool) (now : Int) (hl : lookup t k = none) :
    evictNode t k same now = (t, []) := by
  unfold evictNode; rw [hl]

theorem evictNode_stale (t : Tbl) (k : Nat) (now : Int) : evictNode t k false now = (t, []) := by
  unfold evictNode
  cases lookup t k <;> rfl

/-- **truthful cause**: whatever evictNode reports is Expiration exactly when the deadline has passed, else Overflow -/
theorem evict_cause_truthful (t : Tbl) (k : Nat) (same : Bool) (now : Int) (ev : Event)
    (h : ev ∈ (evictNode t k same now).2) :
    ∃ cur, lookup t k = some cur ∧ ev.val = cur.val ∧ ev.key = cur.key ∧
      (ev.cause = .expiration ↔ cur.exp ≤ now) ∧ (ev.cause = .overflow ↔ now < cur.exp) ∧
      ev.cause ≠ .invalidation ∧ ev.cause ≠ .replacement := by
  cases hl : lookup t k with
  | none => rw [evictNode_none t k same now hl] at h; cases h
  | some cur =>
    cases same with
    | false => rw [evictNode_stale] at h; cases h
    | true =>
      rw [evictNode_some t k now cur hl] at h
      simp only [List.mem_singleton] at h
      subst h
      refine ⟨cur, rfl, rfl, rfl, ?_⟩
      simp only [evictCause, hasExpired]
      by_cases hx : cur.exp ≤ now
      · refine ⟨?_, ?_, ?_, ?_⟩ <;> simp [hx]
      · refine ⟨?_, ?_, ?_, ?_⟩ <;> simp [hx] <;> omega

/-- at most one value is reported, and only together with its removal from the table -/
theorem evict_reports_iff_removed (t : Tbl) (k : Nat) (same : Bool) (now : Int) :
    ((evictNode t k same now).2 = [] ∧ (evictNode t k same now).1 = t) ∨
    (∃ ev, (evictNode t k same now).2 = [ev] ∧ (evictNode t k same now).1 = unlink t k ∧ same = true ∧ (lookup t k).isSome) := by
  cases hl : lookup t k with
  | none => left; rw [evictNode_none t k same now hl]; exact ⟨rfl, rfl⟩
  | some cur =>
    cases same with
    | false => left; rw [evictNode_stale]; exact ⟨rfl, rfl⟩
    | true => right; rw [evictNode_some t k now cur hl]; exact ⟨_, rfl, rfl, rfl, rfl⟩

/-- the spec's view of one automatic removal of key `k`: the event is built from the spec's own entry with the truthful
    cause, and must be justified (`Spec.evict`); a stale or absent node changes nothing -/
def specEvict (c : Cfg) (s : Spec.State) (k : Nat) (same : Bool) : Option (Spec.State × List Event) :=
  match s.phys k with
  | none => some (s, [])
  | some e =>
    if same then
      let ev : Event := { key := k, val := e.val, cause := if e.liveAt s.now then .overflow else .expiration }
      (Spec.evict c s ev).map (fun s' => (s', [ev]))
    else some (s, [])

theorem evict_some (c : Cfg) (s : Spec.State) (ev : Event) (e : Entry) (s1 : Spec.State) (hp : s.phys ev.key = some e)
    (h : Spec.evict c s ev = some s1) : s1 = Spec.evictApply s ev e := by
  unfold Spec.evict at h
  rw [hp] at h
  by_cases hc : (e.val == ev.val && Spec.evictOk c s ev e) = true
  · simp only [hc, ↓reduceIte, Option.some.injEq] at h; exact h.symm
  · simp only [hc, Bool.false_eq_true, ↓reduceIte] at h; cases h

/-- **evictNode refines the spec's justified removal** -/
theorem evict_refines (c : Cfg) (s : Spec.State) (t : Tbl) (k : Nat) (same : Bool) (hs : s.m = absT t)
    (hwf : ∀ o, lookup t k = some o → o.key = k) (s' : Spec.State) (evs : List Event)
    (hacc : specEvict c s k same = some (s', evs)) :
    absT (evictNode t k same s.now).1 = s'.m ∧ (evictNode t k same s.now).2 = evs ∧ s'.now = s.now := by
  have hphys := phys_abs s t k hs
  unfold specEvict at hacc
  cases hl : lookup t k with
  | none =>
    rw [hl] at hphys
    simp only [Option.map_none] at hphys
    rw [hphys] at hacc
    simp only [Option.some.injEq, Prod.mk.injEq] at hacc
    rw [evictNode_none t k same s.now hl, ← hacc.1, ← hacc.2]
    exact ⟨hs.symm, rfl, rfl⟩
  | some cur =>
    rw [hl] at hphys
    simp only [Option.map_some] at hphys
    rw [hphys] at hacc
    cases same with
    | false =>
      simp only [Bool.false_eq_true, ↓reduceIte, Option.some.injEq, Prod.mk.injEq] at hacc
      rw [evictNode_stale, ← hacc.1, ← hacc.2]
      exact ⟨hs.symm, rfl, rfl⟩
    | true =>
      have hkey : cur.key = k := hwf cur hl
      have hvis := visible_iff_live cur s.now
      simp only [↓reduceIte, Option.map_eq_some_iff, Prod.mk.injEq] at hacc
      obtain ⟨s1, hev, hs1, hevs⟩ := hacc
      have happ := evict_some c s _ (absN cur) s1 hphys hev
      rw [evictNode_some t k s.now cur hl, ← hs1, ← hevs, happ]
      refine ⟨?_, ?_, rfl⟩
      · show absT (unlink t k) = Spec.erase s.m k
        rw [hs, erase_absT]
      · simp only [hkey, evictCause]
        cases hx : hasExpired cur s.now
        · have : (absN cur).liveAt s.now = true := by rw [← hvis, hx]; rfl
          simp only [this, ↓reduceIte, Bool.false_eq_true]; rfl
        · have : (absN cur).liveAt s.now = false := by rw [← hvis, hx]; rfl
          simp only [this, Bool.false_eq_true, ↓reduceIte]; rfl

/-- the removal of an expired node is always accepted: nothing but the passed deadline is needed -/
theorem expired_evict_accepted (c : Cfg) (s : Spec.State) (k : Nat) (e : Entry) (hp : s.phys k = some e)
    (hx : e.exp ≤ s.now) : (specEvict c s k true).isSome := by
  unfold specEvict
  rw [hp]
  have hl : e.liveAt s.now = false := by unfold Spec.Entry.liveAt; simp only [decide_eq_false_iff_not, Int.not_lt]; exact hx
  simp only [↓reduceIte, hl, Bool.false_eq_true, Option.isSome_map]
  unfold Spec.evict
  simp only [hp, Spec.evictOk, hl, Bool.not_false, Bool.and_true, beq_self_eq_true, ↓reduceIte, Option.isSome_some]

/-- the removal of a live node is accepted exactly under size pressure on a bounded cache, and never for a zero weight -/
theorem live_evict_accepted_iff (c : Cfg) (s : Spec.State) (k : Nat) (e : Entry) (hp : s.phys k = some e)
    (hx : s.now < e.exp) :
    (specEvict c s k true).isSome ↔
      ∃ mx, s.maximum = some mx ∧ c.bounded = true ∧ e.weight ≠ 0 ∧ (s.totalWeight > mx ∨ e.weight > mx) := by
  unfold specEvict
  rw [hp]
  have hl : e.liveAt s.now = true := by unfold Spec.Entry.liveAt; simp only [decide_eq_true_eq]; exact hx
  simp only [↓reduceIte, hl, Option.isSome_map]
  unfold Spec.evict
  simp only [hp, Spec.evictOk, hl, beq_self_eq_true, Bool.true_and, Bool.and_true]
  cases hm : s.maximum with
  | none => simp
  | some mx =>
    simp only [Option.some.injEq, exists_eq_left']
    by_cases hb : c.bounded = true <;> by_cases hw : e.weight = 0 <;>
      by_cases h1 : s.totalWeight > mx <;> by_cases h2 : e.weight > mx <;>
      simp [hb, hw, h1, h2]

/-! ### histories with automatic removals at arbitrary points -/

inductive XOp where
  | base (op : Op)
  /-- evictNode for the node mapped under `k` (`same`) or for a node that is no longer mapped -/
  | evict (k : Nat) (same : Bool)

def xistep (c : Cfg) (s : IState) : XOp → IState × Out × List Event
  | .base op => istep c s op
  | .evict k same => let r := evictNode s.t k same s.now; ({ s with t := r.1 }, .unit, r.2)

def xsstep (c : Cfg) (s : Spec.State) : XOp → Option (Spec.State × Out × List Event)
  | .base op => some (sstep c s op)
  | .evict k same => (specEvict c s k same).map (fun r => (r.1, .unit, r.2))

theorem allOk_evict (t : Tbl) (k : Nat) (same : Bool) (now : Int) (h : AllOk t) : AllOk (evictNode t k same now).1 := by
  rcases evict_reports_iff_removed t k same now with h1 | ⟨ev, _, h2, _⟩
  · rw [h1.2]; exact h
  · rw [h2]; exact allOk_unlink _ _ h

theorem xstep_sim (c : Cfg) (is : IState) (ss : Spec.State) (op : XOp) (hm : ss.m = absT is.t) (hnow : ss.now = is.now)
    (hok : AllOk is.t) (hn : InRange is.now) (hk1 : KindOk c.expiry) (hk2 : KindOk c.refresh) (hr : ReadOk c)
    (r : Spec.State × Out × List Event) (hacc : xsstep c ss op = some r) :
    r.1.m = absT (xistep c is op).1.t ∧ r.1.now = (xistep c is op).1.now ∧ (xistep c is op).2 = r.2 ∧
    AllOk (xistep c is op).1.t := by
  cases op with
  | base op =>
    simp only [xsstep, Option.some.injEq] at hacc
    subst hacc
    have := step_sim c is ss op hm hnow hok hn hk1 hk2 hr
    exact ⟨this.1, this.2.1, this.2.2, istep_allOk c is op hok hn⟩
  | evict k same =>
    simp only [xsstep, Option.map_eq_some_iff] at hacc
    obtain ⟨q, hq, hr'⟩ := hacc
    have := evict_refines c ss is.t k same hm (fun o ho => (hok k o ho).1) q.1 q.2 (by rw [hq])
    rw [hnow] at this
    subst hr'
    exact ⟨this.1.symm, this.2.2, by show (Out.unit, _) = (Out.unit, _); rw [this.2.1],
      allOk_evict _ _ _ _ hok⟩

def xirun (c : Cfg) : IState → List XOp → IState × List (Out × List Event)
  | s, [] => (s, [])
  | s, op :: rest => let r := xistep c s op; let q := xirun c r.1 rest; (q.1, r.2 :: q.2)

/-- the spec's run: fails (none) at the first removal it does not accept -/
def xsrun (c : Cfg) : Spec.State → List XOp → Option (Spec.State × List (Out × List Event))
  | s, [] => some (s, [])
  | s, op :: rest =>
    match xsstep c s op with
    | none => none
    | some r => (xsrun c r.1 rest).map (fun q => (q.1, r.2 :: q.2))

def XClockOk (now : Int) : List XOp → Prop
  | [] => InRange now
  | .base (.advance d) :: rest => InRange now ∧ XClockOk (now + d) rest
  | _ :: rest => InRange now ∧ XClockOk now rest

theorem xistep_now (c : Cfg) (is : IState) (op : XOp) :
    (xistep c is op).1.now = (match op with | .base (.advance d) => is.now + d | _ => is.now) := by
  cases op with
  | base op => cases op <;> rfl
  | evict k same => rfl

/-- **every history with automatic removals**: whenever the spec accepts the removals the run makes (each is judged with
    its truthful cause in the state it happens in), results, events and final map agree -/
theorem xhistory_sim (c : Cfg) (hk1 : KindOk c.expiry) (hk2 : KindOk c.refresh) (hr : ReadOk c) (ops : List XOp) :
    ∀ (is : IState) (ss : Spec.State), ss.m = absT is.t → ss.now = is.now → AllOk is.t → XClockOk is.now ops →
      ∀ q, xsrun c ss ops = some q → (xirun c is ops).2 = q.2 ∧ q.1.m = absT (xirun c is ops).1.t := by
  induction ops with
  | nil =>
    intro is ss hm _ _ _ q hq
    simp only [xsrun, Option.some.injEq] at hq
    subst hq; exact ⟨rfl, hm⟩
  | cons op rest ih =>
    intro is ss hm hnow hok hclk q hq
    have hn : InRange is.now := by
      cases op with
      | base o => cases o <;> exact hclk.1
      | evict k same => exact hclk.1
    simp only [xsrun] at hq
    cases hx : xsstep c ss op with
    | none => rw [hx] at hq; cases hq
    | some r =>
      rw [hx] at hq
      simp only [Option.map_eq_some_iff] at hq
      obtain ⟨q', hq', hqq⟩ := hq
      have hstep := xstep_sim c is ss op hm hnow hok hn hk1 hk2 hr r hx
      have hclk' : XClockOk (xistep c is op).1.now rest := by
        rw [xistep_now]
        cases op with
        | base o => cases o <;> exact hclk.2
        | evict k same => exact hclk.2
      have := ih (xistep c is op).1 r.1 hstep.1 hstep.2.1 hstep.2.2.2 hclk' q' hq'
      subst hqq
      exact ⟨by show _ :: _ = _ :: _; rw [hstep.2.2.1, this.1], this.2⟩

/-- only removals can make the spec's run fail: a history whose removals all hit an expired (or absent, or stale) entry is
    accepted as a whole — used for the non-vacuity example below and for C13 -/
theorem xsstep_base_some (c : Cfg) (s : Spec.State) (op : Op) : (xsstep c s (.base op)).isSome := rfl

end OtterVerif.Proofs.TableEvict
