/-
  Proofs.WheelSweep — the lift of the level lemmas of Props.C13 through the bucket loops of DeleteExpired:
  after a sweep at time T every timer event still scheduled is correctly placed relative to T; in particular none of them
  lies in a tick before T's (so an event that is overdue by a full tick has been handed to expireNode).
-/
import OtterVerif.Impl.Wheel

namespace OtterVerif.Impl.Wheel

/-! ### lists -/

theorem getD_modifyAt {α : Type} (l : List α) (i j : Nat) (f : α → α) (d : α) :
    (modifyAt l i f).getD j d = if j = i ∧ j < l.length then f (l.getD j d) else l.getD j d := by
  unfold modifyAt
  simp only [List.getD_eq_getElem?_getD, List.getElem?_map, List.getElem?_zipIdx]
  by_cases hj : j < l.length
  · have : l[j]? = some l[j] := List.getElem?_eq_getElem hj
    rw [this]
    simp only [Option.map_some, Option.getD_some, Nat.zero_add]
    by_cases e : j = i
    · subst e; simp [hj]
    · have : (j == i) = false := by simp [e]
      simp [this, e]
  · have : l[j]? = none := List.getElem?_eq_none (by omega)
    rw [this]
    simp [hj]

theorem length_modifyAt {α : Type} (l : List α) (i : Nat) (f : α → α) : (modifyAt l i f).length = l.length := by
  unfold modifyAt; simp

/-! ### shape -/

/-- five levels with 64, 64, 32, 4, 1 buckets -/
def Shape (w : Wheel) : Prop := w.wheel.length = 5 ∧ ∀ i, i < 5 → (w.wheel.getD i []).length = buckets i

theorem shape_setBucket (w : Wheel) (l s : Nat) (b : List Ent) (h : Shape w) : Shape (w.setBucket l s b) := by
  unfold Wheel.setBucket Shape at *
  refine ⟨by simp only [length_modifyAt]; exact h.1, fun i hi => ?_⟩
  simp only [getD_modifyAt]
  split
  · rw [length_modifyAt]; exact h.2 i hi
  · exact h.2 i hi

theorem bucket_setBucket (w : Wheel) (l s l' s' : Nat) (b : List Ent) (h : Shape w) (hl : l < 5) (hs : s < buckets l) :
    (w.setBucket l s b).bucket l' s' = if l' = l ∧ s' = s then b else w.bucket l' s' := by
  unfold Wheel.setBucket Wheel.bucket
  simp only [getD_modifyAt]
  by_cases e1 : l' = l
  · subst e1
    have hlen : l' < w.wheel.length := by rw [h.1]; exact hl
    simp only [hlen, and_self, ↓reduceIte, true_and]
    rw [getD_modifyAt]
    by_cases e2 : s' = s
    · subst e2
      have : s' < (w.wheel.getD l' []).length := by rw [h.2 l' hl]; exact hs
      rw [if_pos ⟨rfl, this⟩, if_pos rfl]
    · rw [if_neg (fun hh => e2 hh.1), if_neg e2]
  · simp [e1]

theorem time_setBucket (w : Wheel) (l s : Nat) (b : List Ent) : (w.setBucket l s b).time = w.time := rfl

/-! ### correct placement -/

/-- entry x sits correctly in bucket (l, s) when the wheel's time is t -/
structure Good (t l s : Nat) (x : Ent) : Prop where
  lv : l < 5
  sl : s = (x.e >>> shift l) % buckets l
  /-- level 0 holds the current and later ticks, higher levels only later ticks -/
  tk : if l = 0 then t >>> shift 0 ≤ x.e >>> shift 0 else t >>> shift l < x.e >>> shift l
  de : x.d ≤ x.e
  bd : x.e < two64

/-- every scheduled entry is correctly placed for time t -/
def InvAt (t : Nat) (w : Wheel) : Prop := Shape w ∧ ∀ l s x, x ∈ w.bucket l s → Good t l s x

theorem shift_lt (l : Nat) : shift l ≤ 49 := by
  unfold shift shifts
  rcases l with _ | _ | _ | _ | _ | l <;> simp

theorem Good.mono {t t' l s : Nat} {x : Ent} (h : Good t l s x) (ht : t' ≤ t) : Good t' l s x := by
  refine ⟨h.lv, h.sl, ?_, h.de, h.bd⟩
  have hm : ∀ k, t' >>> k ≤ t >>> k := fun k => by
    rw [Nat.shiftRight_eq_div_pow, Nat.shiftRight_eq_div_pow]; exact Nat.div_le_div_right ht
  have := h.tk
  split at this
  · rename_i e; rw [if_pos e]; exact Nat.le_trans (hm _) this
  · rename_i e; rw [if_neg e]; exact Nat.lt_of_le_of_lt (hm _) this


/-! ### findBucket places every deadline correctly -/

theorem consts : shift 0 = 30 ∧ shift 1 = 36 ∧ shift 2 = 42 ∧ shift 3 = 47 ∧ shift 4 = 49 ∧
    buckets 0 = 64 ∧ buckets 1 = 64 ∧ buckets 2 = 32 ∧ buckets 3 = 4 ∧ buckets 4 = 1 ∧
    span 1 = 2 ^ 36 ∧ span 2 = 2 ^ 42 ∧ span 3 = 2 ^ 47 ∧ span 4 = 2 ^ 49 := by decide

theorem findBucket_eq (t d : Nat) (hd : d < two64) :
    findBucket t d =
      if d < t then (0, (t >>> 30) % 64)
      else if d - t < 2 ^ 36 then (0, (d >>> 30) % 64)
      else if d - t < 2 ^ 42 then (1, (d >>> 36) % 64)
      else if d - t < 2 ^ 47 then (2, (d >>> 42) % 32)
      else if d - t < 2 ^ 49 then (3, (d >>> 47) % 4)
      else (4, 0) := by
  obtain ⟨s0, s1, s2, s3, s4, b0, b1, b2, b3, b4, p1, p2, p3, p4⟩ := consts
  unfold findBucket
  by_cases hlt : d < t
  · rw [if_pos hlt]
    simp only [hlt, ↓reduceIte]
    have hz : (t + two64 - t) % two64 = 0 := by
      have : t + two64 - t = two64 := by omega
      rw [this]; exact Nat.mod_self _
    rw [hz, p1, s0, b0]
    have : (0 : Nat) < 2 ^ 36 := Nat.pow_pos (by omega)
    rw [if_pos this]
  · rw [if_neg hlt]
    simp only [hlt, ↓reduceIte]
    have hdur : (d + two64 - t) % two64 = d - t := by
      have : d + two64 - t = two64 + (d - t) := by omega
      rw [this, Nat.add_mod_left]
      apply Nat.mod_eq_of_lt
      omega
    rw [hdur, p1, p2, p3, p4, s0, s1, s2, s3, b0, b1, b2, b3]

theorem strict_of (t d k : Nat) (h : t + 2 ^ k ≤ d) : t >>> k < d >>> k := by
  rw [Nat.shiftRight_eq_div_pow, Nat.shiftRight_eq_div_pow]
  have hp : 0 < 2 ^ k := Nat.pow_pos (by omega)
  have h1 : (t + 2 ^ k) / 2 ^ k ≤ d / 2 ^ k := Nat.div_le_div_right h
  rw [Nat.add_div_right _ hp] at h1
  omega

theorem mono_shift (t d k : Nat) (h : t ≤ d) : t >>> k ≤ d >>> k := by
  rw [Nat.shiftRight_eq_div_pow, Nat.shiftRight_eq_div_pow]; exact Nat.div_le_div_right h

/-- a placement (l, s) decided by findBucket is correct -/
theorem findBucket_good (t d n : Nat) (ht : t < two64) (hd : d < two64) :
    (findBucket t d).1 < 5 ∧ (findBucket t d).2 < buckets (findBucket t d).1 ∧
    Good t (findBucket t d).1 (findBucket t d).2 { id := n, d := d, e := max d t } := by
  obtain ⟨s0, s1, s2, s3, s4, b0, b1, b2, b3, b4, p1, p2, p3, p4⟩ := consts
  rw [findBucket_eq t d hd]
  by_cases hlt : d < t
  · rw [if_pos hlt]
    have hm : max d t = t := by omega
    refine ⟨by show (0:Nat) < 5; omega, by show _ % 64 < buckets 0; rw [b0]; exact Nat.mod_lt _ (by omega), ?_⟩
    refine ⟨by show (0:Nat) < 5; omega, ?_, ?_, ?_, ?_⟩
    · show _ = (max d t >>> shift 0) % buckets 0
      rw [hm, s0, b0]
    · show (if (0:Nat) = 0 then t >>> shift 0 ≤ max d t >>> shift 0 else _)
      rw [if_pos rfl, hm]; exact Nat.le_refl _
    · show d ≤ max d t; omega
    · show max d t < two64; rw [hm]; exact ht
  · rw [if_neg hlt]
    have hge : t ≤ d := by omega
    have hm : max d t = d := by omega
    by_cases h1 : d - t < 2 ^ 36
    · rw [if_pos h1]
      refine ⟨by show (0:Nat) < 5; omega, by show _ % 64 < buckets 0; rw [b0]; exact Nat.mod_lt _ (by omega), ?_⟩
      refine ⟨by show (0:Nat) < 5; omega, ?_, ?_, ?_, ?_⟩
      · show _ = (max d t >>> shift 0) % buckets 0
        rw [hm, s0, b0]
      · show (if (0:Nat) = 0 then t >>> shift 0 ≤ max d t >>> shift 0 else _)
        rw [if_pos rfl, hm]; exact mono_shift t d _ hge
      · show d ≤ max d t; omega
      · show max d t < two64; rw [hm]; exact hd
    · rw [if_neg h1]
      by_cases h2 : d - t < 2 ^ 42
      · rw [if_pos h2]
        refine ⟨by show (1:Nat) < 5; omega, by show _ % 64 < buckets 1; rw [b1]; exact Nat.mod_lt _ (by omega), ?_⟩
        refine ⟨by show (1:Nat) < 5; omega, ?_, ?_, ?_, ?_⟩
        · show _ = (max d t >>> shift 1) % buckets 1
          rw [hm, s1, b1]
        · show (if (1:Nat) = 0 then _ else t >>> shift 1 < max d t >>> shift 1)
          rw [if_neg (by omega), hm, s1]; exact strict_of t d 36 (by omega)
        · show d ≤ max d t; omega
        · show max d t < two64; rw [hm]; exact hd
      · rw [if_neg h2]
        by_cases h3 : d - t < 2 ^ 47
        · rw [if_pos h3]
          refine ⟨by show (2:Nat) < 5; omega, by show _ % 32 < buckets 2; rw [b2]; exact Nat.mod_lt _ (by omega), ?_⟩
          refine ⟨by show (2:Nat) < 5; omega, ?_, ?_, ?_, ?_⟩
          · show _ = (max d t >>> shift 2) % buckets 2
            rw [hm, s2, b2]
          · show (if (2:Nat) = 0 then _ else t >>> shift 2 < max d t >>> shift 2)
            rw [if_neg (by omega), hm, s2]; exact strict_of t d 42 (by omega)
          · show d ≤ max d t; omega
          · show max d t < two64; rw [hm]; exact hd
        · rw [if_neg h3]
          by_cases h4 : d - t < 2 ^ 49
          · rw [if_pos h4]
            refine ⟨by show (3:Nat) < 5; omega, by show _ % 4 < buckets 3; rw [b3]; exact Nat.mod_lt _ (by omega), ?_⟩
            refine ⟨by show (3:Nat) < 5; omega, ?_, ?_, ?_, ?_⟩
            · show _ = (max d t >>> shift 3) % buckets 3
              rw [hm, s3, b3]
            · show (if (3:Nat) = 0 then _ else t >>> shift 3 < max d t >>> shift 3)
              rw [if_neg (by omega), hm, s3]; exact strict_of t d 47 (by omega)
            · show d ≤ max d t; omega
            · show max d t < two64; rw [hm]; exact hd
          · rw [if_neg h4]
            refine ⟨by show (4:Nat) < 5; omega, by show (0:Nat) < buckets 4; rw [b4]; omega, ?_⟩
            refine ⟨by show (4:Nat) < 5; omega, ?_, ?_, ?_, ?_⟩
            · show (0:Nat) = (max d t >>> shift 4) % buckets 4
              rw [b4, Nat.mod_one]
            · show (if (4:Nat) = 0 then _ else t >>> shift 4 < max d t >>> shift 4)
              rw [if_neg (by omega), hm, s4]; exact strict_of t d 49 (by omega)
            · show d ≤ max d t; omega
            · show max d t < two64; rw [hm]; exact hd

/-! ### add, and the per-entry step of a sweep, preserve every location predicate that correct placements satisfy -/

/-- every entry of every bucket satisfies P at its location -/
def AllAt (P : Nat → Nat → Ent → Prop) (w : Wheel) : Prop := ∀ l s x, x ∈ w.bucket l s → P l s x

theorem add_time (w : Wheel) (n d : Nat) : (add w n d).time = w.time := rfl

theorem add_shape (w : Wheel) (n d : Nat) (h : Shape w) : Shape (add w n d) := shape_setBucket w _ _ _ h

theorem add_allAt (P : Nat → Nat → Ent → Prop) (w : Wheel) (n d : Nat) (hsh : Shape w) (ht : w.time < two64) (hd : d < two64)
    (hP : ∀ l s x, Good w.time l s x → P l s x) (h : AllAt P w) : AllAt P (add w n d) := by
  obtain ⟨hl, hs, hg⟩ := findBucket_good w.time d n ht hd
  intro l s x hx
  unfold add at hx
  rw [bucket_setBucket w _ _ l s _ hsh hl hs] at hx
  split at hx
  · rename_i e
    rcases List.mem_append.mp hx with hm | hm
    · rw [e.1, e.2]; exact h _ _ x hm
    · simp only [List.mem_singleton] at hm
      rw [hm, e.1, e.2]; exact hP _ _ _ hg
  · exact h l s x hx

theorem sweepEnt_time (acc : Wheel × List Nat) (x : Ent) : (sweepEnt acc x).1.time = acc.1.time := by
  unfold sweepEnt; split <;> rfl

theorem sweepEnt_shape (acc : Wheel × List Nat) (x : Ent) (h : Shape acc.1) : Shape (sweepEnt acc x).1 := by
  unfold sweepEnt; split
  · exact h
  · exact add_shape _ _ _ h

theorem sweepEnt_allAt (P : Nat → Nat → Ent → Prop) (acc : Wheel × List Nat) (x : Ent) (hsh : Shape acc.1)
    (ht : acc.1.time < two64) (hd : x.d < two64) (hP : ∀ l s y, Good acc.1.time l s y → P l s y) (h : AllAt P acc.1) :
    AllAt P (sweepEnt acc x).1 := by
  unfold sweepEnt; split
  · exact h
  · exact add_allAt P _ _ _ hsh ht hd hP h

theorem foldl_sweepEnt (P : Nat → Nat → Ent → Prop) (T : Nat) (hT : T < two64) (xs : List Ent) :
    ∀ (acc : Wheel × List Nat), acc.1.time = T → Shape acc.1 → (∀ x, x ∈ xs → x.d < two64) →
      (∀ l s y, Good T l s y → P l s y) → AllAt P acc.1 →
      (xs.foldl sweepEnt acc).1.time = T ∧ Shape (xs.foldl sweepEnt acc).1 ∧ AllAt P (xs.foldl sweepEnt acc).1 := by
  induction xs with
  | nil => intro acc ht hsh _ _ h; exact ⟨ht, hsh, h⟩
  | cons x xs ih =>
    intro acc ht hsh hd hP h
    rw [List.foldl_cons]
    have t1 : (sweepEnt acc x).1.time = T := by rw [sweepEnt_time]; exact ht
    exact ih _ t1 (sweepEnt_shape acc x hsh) (fun y hy => hd y (List.mem_cons_of_mem _ hy)) hP
      (sweepEnt_allAt P acc x hsh (by rw [ht]; exact hT) (hd x List.mem_cons_self) (by rw [ht]; exact hP) h)

/-- sweeping one bucket: afterwards that bucket holds only entries correctly placed for the new time; every other
    location keeps its predicate -/
theorem sweepBucket_allAt (P : Nat → Nat → Ent → Prop) (w : Wheel) (T lvl slot : Nat) (hT : T < two64) (hwt : w.time = T)
    (hsh : Shape w) (hl : lvl < 5) (hs : slot < buckets lvl) (hd : ∀ l s x, x ∈ w.bucket l s → x.d < two64)
    (hP : ∀ l s y, Good T l s y → P l s y) (h : AllAt P w) :
    (sweepBucket w lvl slot).1.time = T ∧ Shape (sweepBucket w lvl slot).1 ∧
    AllAt (fun l s x => (l = lvl ∧ s = slot → Good T l s x) ∧ P l s x) (sweepBucket w lvl slot).1 := by
  unfold sweepBucket
  apply foldl_sweepEnt _ T hT
  · exact hwt
  · exact shape_setBucket w _ _ _ hsh
  · exact fun x hx => hd lvl slot x hx
  · exact fun l s y hg => ⟨fun _ => hg, hP l s y hg⟩
  · intro l s x hx
    show (l = lvl ∧ s = slot → Good T l s x) ∧ P l s x
    rw [bucket_setBucket w lvl slot l s [] hsh hl hs] at hx
    split at hx
    · cases hx
    · rename_i e
      exact ⟨fun e' => absurd e' e, h l s x hx⟩

/-! ### one level -/

theorem buckets_pos (l : Nat) : 0 < buckets l := by
  unfold buckets nBuckets
  rcases l with _ | _ | _ | _ | _ | l <;> simp

/-- the slot the k-th step of a level sweep visits -/
def slotOf (lvl pt k : Nat) : Nat := (pt % buckets lvl + k) % buckets lvl

def levelStep (lvl pt : Nat) (acc : Wheel × List Nat) (k : Nat) : Wheel × List Nat :=
  ((sweepBucket acc.1 lvl (slotOf lvl pt k)).1, acc.2 ++ (sweepBucket acc.1 lvl (slotOf lvl pt k)).2)

theorem sweepLevel_eq (w : Wheel) (lvl pt delta : Nat) :
    sweepLevel w lvl pt delta = (List.range (min (delta + 1) (buckets lvl))).foldl (levelStep lvl pt) (w, []) := rfl

/-- after m steps: the visited slots of this level hold only entries placed for the new time T -/
theorem level_steps (P0 : Nat → Nat → Ent → Prop) (T lvl pt : Nat) (hT : T < two64) (hl : lvl < 5)
    (hP : ∀ l s y, Good T l s y → P0 l s y) (hPd : ∀ l s y, P0 l s y → y.d < two64) (m : Nat) :
    ∀ (w : Wheel), w.time = T → Shape w → AllAt P0 w →
      ((List.range m).foldl (levelStep lvl pt) (w, [])).1.time = T ∧
      Shape ((List.range m).foldl (levelStep lvl pt) (w, [])).1 ∧
      AllAt (fun l s x => (l = lvl ∧ (∃ k, k < m ∧ s = slotOf lvl pt k) → Good T l s x) ∧ P0 l s x)
        ((List.range m).foldl (levelStep lvl pt) (w, [])).1 := by
  induction m with
  | zero =>
    intro w ht hsh h
    refine ⟨ht, hsh, fun l s x hx => ⟨fun ⟨_, k, hk, _⟩ => absurd hk (Nat.not_lt_zero _), h l s x hx⟩⟩
  | succ m ih =>
    intro w ht hsh h
    obtain ⟨t1, sh1, a1⟩ := ih w ht hsh h
    rw [List.range_succ, List.foldl_append, List.foldl_cons, List.foldl_nil]
    generalize (List.range m).foldl (levelStep lvl pt) (w, []) = acc at t1 sh1 a1
    have hs : slotOf lvl pt m < buckets lvl := Nat.mod_lt _ (buckets_pos lvl)
    have := sweepBucket_allAt
      (fun l s x => (l = lvl ∧ (∃ k, k < m ∧ s = slotOf lvl pt k) → Good T l s x) ∧ P0 l s x)
      acc.1 T lvl (slotOf lvl pt m) hT t1 sh1 hl hs
      (fun l s x hx => hPd l s x (a1 l s x hx).2)
      (fun l s y hg => ⟨fun _ => hg, hP l s y hg⟩) a1
    refine ⟨this.1, this.2.1, fun l s x hx => ?_⟩
    have hh := this.2.2 l s x hx
    refine ⟨fun ⟨el, k, hk, es⟩ => ?_, hh.2.2⟩
    by_cases e : k = m
    · subst e; exact hh.1 ⟨el, es⟩
    · exact hh.2.1 ⟨el, k, by omega, es⟩

theorem sweepLevel_allAt (P0 : Nat → Nat → Ent → Prop) (w : Wheel) (T lvl pt delta : Nat) (hT : T < two64) (hl : lvl < 5)
    (hP : ∀ l s y, Good T l s y → P0 l s y) (hPd : ∀ l s y, P0 l s y → y.d < two64)
    (hwt : w.time = T) (hsh : Shape w) (h : AllAt P0 w) :
    (sweepLevel w lvl pt delta).1.time = T ∧ Shape (sweepLevel w lvl pt delta).1 ∧
    AllAt (fun l s x => (l = lvl ∧ (∃ k, k < min (delta + 1) (buckets lvl) ∧ s = slotOf lvl pt k) → Good T l s x) ∧ P0 l s x)
      (sweepLevel w lvl pt delta).1 := by
  rw [sweepLevel_eq]
  exact level_steps P0 T lvl pt hT hl hP hPd _ w hwt hsh h

/-- a slot the sweep of this level does not visit holds only ticks after the new time's tick -/
theorem unvisited_future (b pt ct et : Nat) (hb : 0 < b) (h1 : pt ≤ et)
    (hnv : ¬ ∃ k, k < min (ct - pt + 1) b ∧ et % b = (pt % b + k) % b) : ct < et := by
  apply Nat.lt_of_not_le
  intro h2
  apply hnv
  by_cases hall : b ≤ ct - pt + 1
  · refine ⟨(et % b + b - pt % b) % b, ?_, ?_⟩
    · have := Nat.mod_lt (et % b + b - pt % b) hb
      omega
    · have ha := Nat.mod_lt et hb
      have hb' := Nat.mod_lt pt hb
      rw [Nat.add_mod_mod]
      have : pt % b + (et % b + b - pt % b) = et % b + b := by omega
      rw [this, Nat.add_mod_right, Nat.mod_mod]
  · refine ⟨et - pt, by omega, ?_⟩
    rw [Nat.mod_add_mod]
    congr 1
    omega

/-! ### all levels -/

/-- levels below i are already placed for the new time T, the others still for the old time t -/
def Lv (i t T : Nat) (l s : Nat) (x : Ent) : Prop := if l < i then Good T l s x else Good t l s x

theorem lv_of_good (i t T : Nat) (htT : t ≤ T) (l s : Nat) (y : Ent) (h : Good T l s y) : Lv i t T l s y := by
  unfold Lv; split
  · exact h
  · exact h.mono htT

theorem lv_d (i t T : Nat) (l s : Nat) (y : Ent) (h : Lv i t T l s y) : y.d < two64 := by
  unfold Lv at h
  split at h
  · exact Nat.lt_of_le_of_lt h.de h.bd
  · exact Nat.lt_of_le_of_lt h.de h.bd

/-- sweeping level i (whose tick advanced) brings that level up to date -/
theorem level_up (w : Wheel) (i t T : Nat) (htT : t ≤ T) (hT : T < two64) (hi : i < 5) (hwt : w.time = T) (hsh : Shape w)
    (h : AllAt (Lv i t T) w) :
    let pt := t >>> shift i
    let ct := T >>> shift i
    (sweepLevel w i pt (ct - pt)).1.time = T ∧ Shape (sweepLevel w i pt (ct - pt)).1 ∧
    AllAt (Lv (i + 1) t T) (sweepLevel w i pt (ct - pt)).1 := by
  intro pt ct
  have hs := sweepLevel_allAt (Lv i t T) w T i pt (ct - pt) hT hi (lv_of_good i t T htT) (lv_d i t T) hwt hsh h
  refine ⟨hs.1, hs.2.1, fun l s x hx => ?_⟩
  obtain ⟨hv, h0⟩ := hs.2.2 l s x hx
  unfold Lv at h0 ⊢
  by_cases hlt : l < i
  · rw [if_pos hlt] at h0; rw [if_pos (by omega)]; exact h0
  · rw [if_neg hlt] at h0
    by_cases e : l = i
    · rw [if_pos (by omega)]
      subst e
      by_cases hvis : ∃ k, k < min (ct - pt + 1) (buckets l) ∧ s = slotOf l pt k
      · exact hv ⟨rfl, hvis⟩
      · -- not visited: its tick lies after T's
        have hpt : pt ≤ x.e >>> shift l := by
          have := h0.tk
          split at this
          · rename_i e0; subst e0; exact this
          · exact Nat.le_of_lt this
        have hfut : ct < x.e >>> shift l := by
          apply unvisited_future (buckets l) pt ct _ (buckets_pos l) hpt
          intro ⟨k, hk, hke⟩
          exact hvis ⟨k, hk, by rw [h0.sl]; exact hke⟩
        refine ⟨h0.lv, h0.sl, ?_, h0.de, h0.bd⟩
        split
        · rename_i e0; subst e0; exact Nat.le_of_lt hfut
        · exact hfut
    · rw [if_neg (by omega)]; exact h0

/-- once a level's tick did not advance, neither did any coarser one: everything still placed for t is placed for T -/
theorem settle (w : Wheel) (i t T : Nat) (heq : t >>> shift i = T >>> shift i) (hmono : ∀ l, i ≤ l → l < 5 → shift i ≤ shift l)
    (h : AllAt (Lv i t T) w) : AllAt (Good T) w := by
  intro l s x hx
  have h0 := h l s x hx
  unfold Lv at h0
  split at h0
  · exact h0
  · rename_i hge
    have hl5 := h0.lv
    have hsh := hmono l (by omega) hl5
    have heq' : t >>> shift l = T >>> shift l := by
      have e : shift l = shift i + (shift l - shift i) := by omega
      rw [e, Nat.shiftRight_add, Nat.shiftRight_add, heq]
    refine ⟨h0.lv, h0.sl, ?_, h0.de, h0.bd⟩
    have := h0.tk
    by_cases e0 : l = 0
    · rw [if_pos e0] at this ⊢
      subst e0
      rw [← heq']; exact this
    · rw [if_neg e0] at this ⊢
      rw [← heq']; exact this

theorem shift_mono (i l : Nat) (h : i ≤ l) (hl : l < 5) : shift i ≤ shift l := by
  unfold shift shifts
  rcases i with _ | _ | _ | _ | _ | i <;> rcases l with _ | _ | _ | _ | _ | l <;> simp <;> omega

theorem delta_eq (a b : Nat) (hba : b ≤ a) (ha : a < two64) : (a + two64 - b) % two64 = a - b := by
  have e : a + two64 - b = two64 + (a - b) := by omega
  rw [e, Nat.add_mod_left]
  exact Nat.mod_eq_of_lt (by omega)

theorem go_zero (T t : Nat) (w : Wheel) (ex : List Nat) (i : Nat) : deleteExpired.go T t w ex i 0 = (w, ex) := by
  unfold deleteExpired.go; rfl

theorem go_succ (T t : Nat) (w : Wheel) (ex : List Nat) (i fuel : Nat) :
    deleteExpired.go T t w ex i (fuel + 1) =
      if i ≥ 5 then (w, ex) else
      if ((T >>> shift i + two64 - t >>> shift i) % two64 == 0) = true then (w, ex)
      else deleteExpired.go T t (sweepLevel w i (t >>> shift i) ((T >>> shift i + two64 - t >>> shift i) % two64)).1
        (ex ++ (sweepLevel w i (t >>> shift i) ((T >>> shift i + two64 - t >>> shift i) % two64)).2) (i + 1) fuel := by
  rw [deleteExpired.go]


theorem lv_done (w : Wheel) (i t T : Nat) (hi : 5 ≤ i) (h : AllAt (Lv i t T) w) : AllAt (Good T) w := by
  intro l s x hx
  have h0 := h l s x hx
  unfold Lv at h0
  split at h0
  · exact h0
  · exact absurd h0.lv (by omega)

theorem go_allAt (fuel : Nat) : ∀ (w : Wheel) (ex : List Nat) (i t T : Nat), t ≤ T → T < two64 → w.time = T → Shape w →
    AllAt (Lv i t T) w → 5 ≤ i + fuel →
    (deleteExpired.go T t w ex i fuel).1.time = T ∧ Shape (deleteExpired.go T t w ex i fuel).1 ∧
    AllAt (Good T) (deleteExpired.go T t w ex i fuel).1 := by
  induction fuel with
  | zero =>
    intro w ex i t T htT hT hwt hsh h hf
    rw [go_zero]
    exact ⟨hwt, hsh, lv_done w i t T (by omega) h⟩
  | succ fuel ih =>
    intro w ex i t T htT hT hwt hsh h hf
    rw [go_succ]
    by_cases hge : i ≥ 5
    · rw [if_pos hge]
      exact ⟨hwt, hsh, lv_done w i t T hge h⟩
    · rw [if_neg hge]
      have hi : i < 5 := by omega
      have hle : t >>> shift i ≤ T >>> shift i := by
        rw [Nat.shiftRight_eq_div_pow, Nat.shiftRight_eq_div_pow]; exact Nat.div_le_div_right htT
      have hct : T >>> shift i < two64 := Nat.lt_of_le_of_lt (Nat.shiftRight_le _ _) hT
      rw [delta_eq _ _ hle hct]
      by_cases hz : ((T >>> shift i - t >>> shift i) == 0) = true
      · rw [if_pos hz]
        have heq : t >>> shift i = T >>> shift i := by
          have : T >>> shift i - t >>> shift i = 0 := by simpa using hz
          omega
        exact ⟨hwt, hsh, settle w i t T heq (fun l a b => shift_mono i l a b) h⟩
      · rw [if_neg hz]
        have hup := level_up w i t T htT hT hi hwt hsh h
        exact ih _ _ (i + 1) t T htT hT hup.1 hup.2.1 hup.2.2 (by omega)

theorem deleteExpired_eq (w : Wheel) (T : Nat) :
    deleteExpired w T = deleteExpired.go T w.time { w with time := T } [] 0 5 := rfl

/-- DeleteExpired(T) on a wheel whose entries are all correctly placed for its time t ≤ T leaves every remaining entry
    correctly placed for T -/
theorem deleteExpired_inv (w : Wheel) (T : Nat) (hT : T < two64) (htT : w.time ≤ T) (h : InvAt w.time w) :
    (deleteExpired w T).1.time = T ∧ InvAt T (deleteExpired w T).1 := by
  rw [deleteExpired_eq]
  have hsh : Shape { w with time := T } := h.1
  have hall : AllAt (Lv 0 w.time T) { w with time := T } := by
    intro l s x hx
    unfold Lv
    rw [if_neg (Nat.not_lt_zero _)]
    exact h.2 l s x hx
  have := go_allAt 5 { w with time := T } [] 0 w.time T htT hT rfl hsh hall (by omega)
  exact ⟨this.1, this.2.1, this.2.2⟩


/-! ### every reachable wheel -/

theorem shape_init : Shape ({} : Wheel) := by
  refine ⟨rfl, fun i hi => ?_⟩
  rcases i with _ | _ | _ | _ | _ | i
  · rfl
  · rfl
  · rfl
  · rfl
  · rfl
  · omega

theorem getD_replicate_nil (b s : Nat) : (List.replicate b ([] : List Ent)).getD s [] = [] := by
  simp only [List.getD_eq_getElem?_getD, List.getElem?_replicate]
  split <;> rfl

theorem bucket_init (l s : Nat) : ({} : Wheel).bucket l s = [] := by
  unfold Wheel.bucket
  show ((nBuckets.map (fun b => List.replicate b ([] : List Ent))).getD l []).getD s [] = []
  have hl : (nBuckets.map (fun b => List.replicate b ([] : List Ent))).getD l [] =
      ((nBuckets[l]?).map (fun b => List.replicate b ([] : List Ent))).getD [] := by
    rw [List.getD_eq_getElem?_getD, List.getElem?_map]
  rw [hl]
  cases nBuckets[l]? with
  | none => rfl
  | some b => exact getD_replicate_nil b s

theorem shape_delete (w : Wheel) (n : Nat) (h : Shape w) : Shape (delete w n) := by
  unfold delete Shape at *
  refine ⟨by simp only [List.length_map]; exact h.1, fun i hi => ?_⟩
  simp only [List.getD_eq_getElem?_getD, List.getElem?_map]
  have := h.2 i hi
  simp only [List.getD_eq_getElem?_getD] at this
  cases hh : w.wheel[i]? with
  | none => rw [hh] at this; simpa using this
  | some lv => rw [hh] at this; simpa using this

theorem bucket_delete (w : Wheel) (n l s : Nat) : (delete w n).bucket l s = (w.bucket l s).filter (·.id != n) := by
  unfold delete Wheel.bucket
  simp only [List.getD_eq_getElem?_getD, List.getElem?_map]
  cases w.wheel[l]? with
  | none => rfl
  | some lv =>
    simp only [Option.map_some, Option.getD_some, List.getElem?_map]
    cases lv[s]? with
    | none => rfl
    | some b => rfl

/-- the wheels reachable by Add (of an unscheduled node), Delete and DeleteExpired with a monotone clock below 2^64 -/
inductive WReach : Wheel → Prop
  | init : WReach {}
  | add {w : Wheel} (n d : Nat) : WReach w → d < two64 → WReach (add w n d)
  | del {w : Wheel} (n : Nat) : WReach w → WReach (delete w n)
  | sweep {w : Wheel} (T : Nat) : WReach w → w.time ≤ T → T < two64 → WReach (deleteExpired w T).1

theorem wreach_inv {w : Wheel} (h : WReach w) : w.time < two64 ∧ InvAt w.time w := by
  induction h with
  | init =>
    refine ⟨by decide, shape_init, fun l s x hx => ?_⟩
    rw [bucket_init] at hx; cases hx
  | add n d _ hd ih =>
    refine ⟨ih.1, add_shape _ _ _ ih.2.1, ?_⟩
    exact add_allAt (Good _) _ n d ih.2.1 ih.1 hd (fun _ _ _ hg => hg) ih.2.2
  | del n _ ih =>
    refine ⟨ih.1, shape_delete _ n ih.2.1, fun l s x hx => ?_⟩
    rw [bucket_delete] at hx
    exact ih.2.2 l s x (List.mem_filter.mp hx).1
  | sweep T _ hle hT ih =>
    have := deleteExpired_inv _ T hT hle ih.2
    exact ⟨by rw [this.1]; exact hT, by rw [this.1]; exact this.2⟩

/-- an entry correctly placed for time T does not lie in a tick before T's -/
theorem good_not_overdue (T l s : Nat) (x : Ent) (h : Good T l s x) : T >>> shift 0 ≤ x.e >>> shift 0 := by
  have := h.tk
  split at this
  · exact this
  · have hlt : T < x.e := by
      apply Nat.lt_of_not_le
      intro hle
      have : x.e >>> shift l ≤ T >>> shift l := by
        rw [Nat.shiftRight_eq_div_pow, Nat.shiftRight_eq_div_pow]; exact Nat.div_le_div_right hle
      omega
    rw [Nat.shiftRight_eq_div_pow, Nat.shiftRight_eq_div_pow]
    exact Nat.div_le_div_right (Nat.le_of_lt hlt)

end OtterVerif.Impl.Wheel
