/-
  Proofs.PolicyBound — after evictNodes the policy is within its maximum, or only zero-weight entries are left.

  The victim pointer of evictFromMain walks probation, then protected, then the window; it advances only past a node that
  was evicted or has weight zero.  Invariant: every node the pointer has passed (and still linked) has weight zero.
-/
import OtterVerif.Proofs.PolicyWeight

namespace OtterVerif.Impl.Policy

/-! ### lists -/

/-- the element after x in l -/
def succOf (l : List Nat) (x : Nat) : Option Nat := (l.dropWhile (· != x)).tail.head?

theorem split_at (l : List Nat) (x : Nat) (hx : x ∈ l) :
    ∃ pre rest, l = pre ++ x :: rest ∧ x ∉ pre ∧ l.takeWhile (· != x) = pre ∧ l.dropWhile (· != x) = x :: rest := by
  induction l with
  | nil => cases hx
  | cons a as ih =>
    by_cases e : a = x
    · subst e
      exact ⟨[], as, rfl, by simp, by simp, by simp⟩
    · have hx' : x ∈ as := by
        rcases List.mem_cons.mp hx with h | h
        · exact absurd h.symm e
        · exact h
      obtain ⟨pre, rest, h1, h2, h3, h4⟩ := ih hx'
      have hne : (a != x) = true := by simp [e]
      refine ⟨a :: pre, rest, by rw [h1]; rfl, ?_, ?_, ?_⟩
      · intro h; rcases List.mem_cons.mp h with h | h
        · exact e h.symm
        · exact h2 h
      · rw [List.takeWhile_cons, hne]; simp [h3]
      · rw [List.dropWhile_cons, hne]; simpa using h4

theorem takeWhile_append_of_notin (pre rest : List Nat) (y : Nat) (h : y ∉ pre) :
    (pre ++ y :: rest).takeWhile (· != y) = pre := by
  induction pre with
  | nil => simp
  | cons a as ih =>
    have hne : (a != y) = true := by
      simp only [bne_iff_ne, ne_eq]; intro e; exact h (e ▸ List.mem_cons_self)
    rw [List.cons_append, List.takeWhile_cons, hne]
    simp only [↓reduceIte, List.cons.injEq, true_and]
    exact ih (fun hm => h (List.mem_cons_of_mem _ hm))

theorem takeWhile_filter (l : List Nat) (x c : Nat) (hne : x ≠ c) :
    (l.filter (· != c)).takeWhile (· != x) = (l.takeWhile (· != x)).filter (· != c) := by
  induction l with
  | nil => rfl
  | cons a as ih =>
    by_cases ec : a = c
    · subst ec
      have h1 : (a != a) = false := by simp
      have h2 : (a != x) = true := by simp only [bne_iff_ne, ne_eq]; exact fun e => hne e.symm
      rw [List.filter_cons, h1, List.takeWhile_cons, h2]
      simp only [Bool.false_eq_true, ↓reduceIte]
      rw [List.filter_cons, h1]
      simpa using ih
    · have h1 : (a != c) = true := by simp [ec]
      rw [List.filter_cons, h1]
      simp only [↓reduceIte]
      by_cases ex : a = x
      · subst ex
        simp
      · have h2 : (a != x) = true := by simp [ex]
        rw [List.takeWhile_cons, h2, List.takeWhile_cons, h2]
        simp only [↓reduceIte]
        rw [List.filter_cons, h1]
        simp only [↓reduceIte, List.cons.injEq, true_and]
        exact ih

/-! ### zero-weight prefixes -/

def AllZ (p : Policy) (l : List Nat) : Prop := ∀ y, y ∈ l → (p.node y).weight = 0

/-- every node of l before the pointer v has weight zero (v = none: the pointer ran off the end) -/
def ZB (p : Policy) (l : List Nat) (v : Option Nat) : Prop :=
  match v with
  | none => AllZ p l
  | some x => x ∈ l ∧ AllZ p (l.takeWhile (· != x))

theorem AllZ.congr {p p' : Policy} {l : List Nat} (hw : ∀ y, (p'.node y).weight = (p.node y).weight) (h : AllZ p l) : AllZ p' l :=
  fun y hy => by rw [hw y]; exact h y hy

theorem AllZ.filter {p : Policy} {l : List Nat} (c : Nat) (h : AllZ p l) : AllZ p (l.filter (· != c)) :=
  fun y hy => h y (List.mem_filter.mp hy).1

theorem ZB.congr {p p' : Policy} {l : List Nat} {v : Option Nat} (hw : ∀ y, (p'.node y).weight = (p.node y).weight)
    (h : ZB p l v) : ZB p' l v := by
  cases v with
  | none => exact AllZ.congr hw h
  | some x => exact ⟨h.1, AllZ.congr hw h.2⟩

/-- the pointer starts at the head of a queue -/
theorem ZB_head (p : Policy) (l : List Nat) : ZB p l l.head? := by
  cases l with
  | nil => intro y hy; cases hy
  | cons a as =>
    refine ⟨List.mem_cons_self, ?_⟩
    intro y hy
    simp at hy

/-- skipping a zero-weight node -/
theorem ZB_skip (p : Policy) (l : List Nat) (x : Nat) (hn : l.Nodup) (h : ZB p l (some x)) (hz : (p.node x).weight = 0) :
    ZB p l (succOf l x) := by
  obtain ⟨hx, hpre⟩ := h
  obtain ⟨pre, rest, h1, h2, h3, h4⟩ := split_at l x hx
  unfold succOf
  rw [h4]
  rw [h3] at hpre
  cases rest with
  | nil =>
    intro y hy
    rw [h1] at hy
    rcases List.mem_append.mp hy with hm | hm
    · exact hpre y hm
    · simp at hm; rw [hm]; exact hz
  | cons r rs =>
    refine ⟨by rw [h1]; simp, ?_⟩
    have hnd : (pre ++ x :: r :: rs).Nodup := h1 ▸ hn
    have hr : r ∉ pre ++ [x] := by
      intro hm
      have := List.nodup_append.mp (by simpa using hnd : ((pre ++ [x]) ++ (r :: rs)).Nodup)
      exact this.2.2 r hm r List.mem_cons_self rfl
    have e : l = (pre ++ [x]) ++ r :: rs := by rw [h1]; simp
    show AllZ p (l.takeWhile (· != r))
    rw [e, takeWhile_append_of_notin _ _ _ hr]
    intro y hy
    rcases List.mem_append.mp hy with hm | hm
    · exact hpre y hm
    · simp at hm; rw [hm]; exact hz

/-- evicting the node the pointer is at: the pointer moves to its successor -/
theorem ZB_evict_self (p : Policy) (l : List Nat) (x : Nat) (hn : l.Nodup) (h : ZB p l (some x)) :
    ZB p (l.filter (· != x)) (succOf l x) := by
  obtain ⟨hx, hpre⟩ := h
  obtain ⟨pre, rest, h1, h2, h3, h4⟩ := split_at l x hx
  have hnd : (pre ++ x :: rest).Nodup := h1 ▸ hn
  have hxr : x ∉ rest := by
    intro hm
    have := (List.nodup_append.mp hnd).2.1
    exact (List.nodup_cons.mp this).1 hm
  have hf : l.filter (· != x) = pre ++ rest := by
    rw [h1, List.filter_append, filter_ne_of_not_mem _ _ h2, List.filter_cons]
    simp [filter_ne_of_not_mem _ _ hxr]
  unfold succOf
  rw [h4, hf]
  rw [h3] at hpre
  cases rest with
  | nil =>
    intro y hy
    simp at hy
    exact hpre y hy
  | cons r rs =>
    refine ⟨by simp, ?_⟩
    have hr : r ∉ pre := by
      intro hm
      exact (List.nodup_append.mp hnd).2.2 r hm r (by simp) rfl
    show AllZ p ((pre ++ r :: rs).takeWhile (· != r))
    rw [takeWhile_append_of_notin _ _ _ hr]
    exact hpre

/-- evicting any other node leaves the pointer where it is -/
theorem ZB_evict_other (p : Policy) (l : List Nat) (v : Option Nat) (c : Nat) (hne : v ≠ some c) (h : ZB p l v) :
    ZB p (l.filter (· != c)) v := by
  cases v with
  | none => exact AllZ.filter c h
  | some x =>
    have hxc : x ≠ c := fun e => hne (by rw [e])
    refine ⟨List.mem_filter.mpr ⟨h.1, by simpa using hxc⟩, ?_⟩
    rw [takeWhile_filter l x c hxc]
    exact AllZ.filter c h.2


/-! ### what an eviction does to each queue -/

theorem dqs_dqDelete (p : Policy) (q x : Nat) (h : (all p).Nodup) :
    (dqDelete p q x).window = p.window.filter (· != x) ∧ (dqDelete p q x).probation = p.probation.filter (· != x) ∧
    (dqDelete p q x).prot = p.prot.filter (· != x) := by
  unfold all at h
  have ⟨_, h23, h1⟩ := List.nodup_append.mp h
  have ⟨_, _, h2⟩ := List.nodup_append.mp h23
  unfold dqDelete linkedIn
  simp only [List.contains_eq_mem, decide_eq_true_eq]
  by_cases hw : x ∈ p.window
  · have hp : x ∉ p.probation := fun hx => h1 x hw x (List.mem_append_left _ hx) rfl
    have hq : x ∉ p.prot := fun hx => h1 x hw x (List.mem_append_right _ hx) rfl
    simp only [hw, ↓reduceIte]
    unfold setDq dq
    simp only [BEq.rfl, ↓reduceIte, filter_ne_of_not_mem _ _ hp, filter_ne_of_not_mem _ _ hq, and_self]
  · by_cases hp : x ∈ p.probation
    · have hq : x ∉ p.prot := fun hx => h2 x hp x hx rfl
      simp only [hw, hp, ↓reduceIte]
      unfold setDq dq
      simp only [Nat.reduceBEq, Bool.false_eq_true, BEq.rfl, ↓reduceIte, filter_ne_of_not_mem _ _ hw,
        filter_ne_of_not_mem _ _ hq, and_self]
    · by_cases hq : x ∈ p.prot
      · simp only [hw, hp, hq, ↓reduceIte]
        unfold setDq dq
        simp only [Nat.reduceBEq, Bool.false_eq_true, ↓reduceIte, filter_ne_of_not_mem _ _ hw,
          filter_ne_of_not_mem _ _ hp, and_self]
      · simp only [hw, hp, hq, ↓reduceIte]
        simp only [filter_ne_of_not_mem _ _ hw, filter_ne_of_not_mem _ _ hp, filter_ne_of_not_mem _ _ hq, and_self]

theorem dqs_discount (p : Policy) (x : Nat) :
    (discount p x).window = p.window ∧ (discount p x).probation = p.probation ∧ (discount p x).prot = p.prot := by
  unfold discount; simp only; split <;> (try split) <;> exact ⟨rfl, rfl, rfl⟩

theorem dqs_evictNode (p : Policy) (c : Nat) (h : (all p).Nodup) :
    (evictNode p c).window = p.window.filter (· != c) ∧ (evictNode p c).probation = p.probation.filter (· != c) ∧
    (evictNode p c).prot = p.prot.filter (· != c) := by
  have key : ∀ p1 : Policy, (p1.window = p.window.filter (· != c) ∧ p1.probation = p.probation.filter (· != c) ∧
      p1.prot = p.prot.filter (· != c)) →
      ((if ((p1.node c).st != NState.dead) = true then p1.setNode { p1.node c with st := .dead } else p1).window = p.window.filter (· != c) ∧
       (if ((p1.node c).st != NState.dead) = true then p1.setNode { p1.node c with st := .dead } else p1).probation = p.probation.filter (· != c) ∧
       (if ((p1.node c).st != NState.dead) = true then p1.setNode { p1.node c with st := .dead } else p1).prot = p.prot.filter (· != c)) := by
    intro p1 h1
    split
    · exact h1
    · exact h1
  show (makeDead p c).window = _ ∧ (makeDead p c).probation = _ ∧ (makeDead p c).prot = _
  unfold makeDead
  simp only
  apply key
  split
  · have hd := dqs_discount p c
    have := dqs_dqDelete (discount p c) (p.node c).qt c (by rw [all_discount]; exact h)
    rw [hd.1, hd.2.1, hd.2.2] at this
    exact this
  · rename_i hc
    have hx : c ∉ all p := fun hx => hc ((dqContains_iff p _ c).mpr ((linked_iff_all p c).mpr hx))
    unfold all at hx
    simp only [List.mem_append, not_or] at hx
    exact ⟨(filter_ne_of_not_mem _ _ hx.1).symm, (filter_ne_of_not_mem _ _ hx.2.1).symm, (filter_ne_of_not_mem _ _ hx.2.2).symm⟩

theorem weight_evictNode (p : Policy) (c y : Nat) : ((evictNode p c).node y).weight = (p.node y).weight :=
  makeDead_weight p c y

theorem max_makeDead (p : Policy) (c : Nat) : (makeDead p c).maximum = p.maximum := by
  unfold makeDead
  simp only
  have h1 : (if dqContains p (p.node c).qt c = true then dqDelete (discount p c) (p.node c).qt c else p).maximum = p.maximum := by
    split
    · unfold dqDelete
      cases linkedIn (discount p c) c with
      | none => unfold discount; simp only; split <;> (try split) <;> rfl
      | some q' =>
        simp only
        unfold setDq
        split <;> (try split) <;> (unfold discount; simp only; split <;> (try split) <;> rfl)
    · rfl
  generalize (if dqContains p (p.node c).qt c = true then dqDelete (discount p c) (p.node c).qt c else p) = p1 at h1
  split <;> exact h1

/-! ### `next` is the successor within the node's queue -/

theorem next_window (p : Policy) (x : Nat) (hx : x ∈ p.window) : next p x = succOf p.window x := by
  unfold next linkedIn succOf
  simp only [List.contains_eq_mem, decide_eq_true_eq, hx, ↓reduceIte]
  show (match List.dropWhile (fun y => y != x) p.window with | _ :: y :: _ => some y | _ => none) = _
  cases List.dropWhile (fun y => y != x) p.window with
  | nil => rfl
  | cons a as => cases as <;> rfl

theorem next_probation (p : Policy) (x : Nat) (hn : (all p).Nodup) (hx : x ∈ p.probation) : next p x = succOf p.probation x := by
  have hw : x ∉ p.window := by
    unfold all at hn
    exact fun h => (List.nodup_append.mp hn).2.2 x h x (List.mem_append_left _ hx) rfl
  unfold next linkedIn succOf
  simp only [List.contains_eq_mem, decide_eq_true_eq, hx, hw, ↓reduceIte]
  show (match List.dropWhile (fun y => y != x) p.probation with | _ :: y :: _ => some y | _ => none) = _
  cases List.dropWhile (fun y => y != x) p.probation with
  | nil => rfl
  | cons a as => cases as <;> rfl

theorem next_prot (p : Policy) (x : Nat) (hn : (all p).Nodup) (hx : x ∈ p.prot) : next p x = succOf p.prot x := by
  unfold all at hn
  have hw : x ∉ p.window := fun h => (List.nodup_append.mp hn).2.2 x h x (List.mem_append_right _ hx) rfl
  have hp : x ∉ p.probation := fun h => (List.nodup_append.mp (List.nodup_append.mp hn).2.1).2.2 x h x hx rfl
  unfold next linkedIn succOf
  simp only [List.contains_eq_mem, decide_eq_true_eq, hx, hw, hp, ↓reduceIte]
  show (match List.dropWhile (fun y => y != x) p.prot with | _ :: y :: _ => some y | _ => none) = _
  cases List.dropWhile (fun y => y != x) p.prot with
  | nil => rfl
  | cons a as => cases as <;> rfl


/-! ### the victim-pointer invariant -/

def Z (p : Policy) (vq : Nat) (v : Option Nat) : Prop :=
  if vq = 1 then ZB p p.probation v
  else if vq = 2 then AllZ p p.probation ∧ ZB p p.prot v
  else AllZ p p.probation ∧ AllZ p p.prot ∧ ZB p p.window v

def Good (r : Policy) : Prop := BitVec.ult r.maximum r.weightedSize = false ∨ AllZ r (all r)

theorem nodup_parts (p : Policy) (hn : (all p).Nodup) : p.window.Nodup ∧ p.probation.Nodup ∧ p.prot.Nodup := by
  unfold all at hn
  have a := List.nodup_append.mp hn
  have b := List.nodup_append.mp a.2.1
  exact ⟨a.1, b.1, b.2.1⟩

theorem Z_evict_other (p : Policy) (vq c : Nat) (v : Option Nat) (hn : (all p).Nodup) (hne : v ≠ some c) (h : Z p vq v) :
    Z (evictNode p c) vq v := by
  have hq := dqs_evictNode p c hn
  have hw := weight_evictNode p c
  unfold Z at *
  rw [hq.1, hq.2.1, hq.2.2]
  split
  · rename_i e; rw [if_pos e] at h
    exact ZB.congr hw (ZB_evict_other p _ v c hne h)
  · rename_i e1; rw [if_neg e1] at h
    split
    · rename_i e; rw [if_pos e] at h
      exact ⟨AllZ.congr hw (AllZ.filter c h.1), ZB.congr hw (ZB_evict_other p _ v c hne h.2)⟩
    · rename_i e; rw [if_neg e] at h
      exact ⟨AllZ.congr hw (AllZ.filter c h.1), AllZ.congr hw (AllZ.filter c h.2.1), ZB.congr hw (ZB_evict_other p _ v c hne h.2.2)⟩

theorem Z_evict_self (p : Policy) (vq x : Nat) (hn : (all p).Nodup) (h : Z p vq (some x)) :
    Z (evictNode p x) vq (next p x) := by
  have hq := dqs_evictNode p x hn
  have hw := weight_evictNode p x
  have hp := nodup_parts p hn
  unfold Z at *
  rw [hq.1, hq.2.1, hq.2.2]
  split
  · rename_i e; rw [if_pos e] at h
    rw [next_probation p x hn h.1]
    exact ZB.congr hw (ZB_evict_self p _ x hp.2.1 h)
  · rename_i e1; rw [if_neg e1] at h
    split
    · rename_i e; rw [if_pos e] at h
      rw [next_prot p x hn h.2.1]
      exact ⟨AllZ.congr hw (AllZ.filter x h.1), ZB.congr hw (ZB_evict_self p _ x hp.2.2 h.2)⟩
    · rename_i e; rw [if_neg e] at h
      rw [next_window p x h.2.2.1]
      exact ⟨AllZ.congr hw (AllZ.filter x h.1), AllZ.congr hw (AllZ.filter x h.2.1), ZB.congr hw (ZB_evict_self p _ x hp.1 h.2.2)⟩

theorem Z_skip (p : Policy) (vq x : Nat) (hn : (all p).Nodup) (h : Z p vq (some x)) (hz : (p.node x).weight = 0) :
    Z p vq (next p x) := by
  have hp := nodup_parts p hn
  unfold Z at *
  split
  · rename_i e; rw [if_pos e] at h
    rw [next_probation p x hn h.1]
    exact ZB_skip p _ x hp.2.1 h hz
  · rename_i e1; rw [if_neg e1] at h
    split
    · rename_i e; rw [if_pos e] at h
      rw [next_prot p x hn h.2.1]
      exact ⟨h.1, ZB_skip p _ x hp.2.2 h.2 hz⟩
    · rename_i e; rw [if_neg e] at h
      rw [next_window p x h.2.2.1]
      exact ⟨h.1, h.2.1, ZB_skip p _ x hp.1 h.2.2 hz⟩

theorem Z_same (p p' : Policy) (vq : Nat) (v : Option Nat) (h1 : p'.window = p.window) (h2 : p'.probation = p.probation)
    (h3 : p'.prot = p.prot) (hw : ∀ y, (p'.node y).weight = (p.node y).weight) (h : Z p vq v) : Z p' vq v := by
  unfold Z at *
  rw [h1, h2, h3]
  split
  · rename_i e; rw [if_pos e] at h; exact ZB.congr hw h
  · rename_i e1; rw [if_neg e1] at h
    split
    · rename_i e; rw [if_pos e] at h; exact ⟨AllZ.congr hw h.1, ZB.congr hw h.2⟩
    · rename_i e; rw [if_neg e] at h; exact ⟨AllZ.congr hw h.1, AllZ.congr hw h.2.1, ZB.congr hw h.2.2⟩

theorem Z_switch12 (p : Policy) (h : Z p 1 none) : Z p 2 p.prot.head? := by
  unfold Z at *
  simp only [↓reduceIte] at h
  simp only [Nat.reduceEqDiff, ↓reduceIte]
  exact ⟨h, ZB_head p p.prot⟩

theorem Z_switch20 (p : Policy) (h : Z p 2 none) : Z p 0 p.window.head? := by
  unfold Z at *
  simp only [Nat.reduceEqDiff, ↓reduceIte] at h
  rw [if_neg (by decide), if_neg (by decide)]
  exact ⟨h.1, h.2, ZB_head p p.window⟩

theorem Z_final (p : Policy) (vq : Nat) (h1 : vq ≠ 1) (h2 : vq ≠ 2) (h : Z p vq none) : AllZ p (all p) := by
  unfold Z at h
  rw [if_neg h1, if_neg h2] at h
  intro y hy
  unfold all at hy
  rcases List.mem_append.mp hy with hm | hm
  · exact h.2.2 y hm
  · rcases List.mem_append.mp hm with hm | hm
    · exact h.1 y hm
    · exact h.2.1 y hm

theorem linv_admit {S : List Nat} {p : Policy} (a b : Nat) (hi : LInv S p) : LInv S (admit p a b).1 := LInv.admit a b hi

theorem Z_admit (p : Policy) (vq a b : Nat) (v : Option Nat) (h : Z p vq v) : Z (admit p a b).1 vq v := by
  have hf : (admit p a b).1.window = p.window ∧ (admit p a b).1.probation = p.probation ∧ (admit p a b).1.prot = p.prot := by
    unfold admit; simp only; split
    · exact ⟨rfl, rfl, rfl⟩
    · split
      · split <;> exact ⟨rfl, rfl, rfl⟩
      · exact ⟨rfl, rfl, rfl⟩
  exact Z_same p _ vq v hf.1 hf.2.1 hf.2.2 (fun y => by rw [node_admit]) h

theorem next_admit (p : Policy) (a b x : Nat) : next (admit p a b).1 x = next p x := by
  have hf : (admit p a b).1.window = p.window ∧ (admit p a b).1.probation = p.probation ∧ (admit p a b).1.prot = p.prot := by
    unfold admit; simp only; split
    · exact ⟨rfl, rfl, rfl⟩
    · split
      · split <;> exact ⟨rfl, rfl, rfl⟩
      · exact ⟨rfl, rfl, rfl⟩
  unfold next linkedIn dq
  rw [hf.1, hf.2.1, hf.2.2]

theorem bound_go {S : List Nat} (fuel : Nat) : ∀ (p : Policy) (vq cq : Nat) (v c : Option Nat),
    LInv S p → Z p vq v → (evictFromMainX.go p vq cq v c fuel).2 = false → Good (evictFromMainX.go p vq cq v c fuel).1 := by
  induction fuel with
  | zero => intro p vq cq v c _ _ h; unfold evictFromMainX.go at h; cases h
  | succ fuel ih =>
    intro p vq cq v c hi hz hr
    unfold evictFromMainX.go at hr ⊢
    simp only at hr ⊢
    revert hr
    generalize (if (c.isNone && cq == 1) = true then p.window.head? else c) = c'
    generalize (if (c.isNone && cq == 1) = true then 0 else cq) = cq'
    have hn := hi.c
    split
    · rename_i hb
      intro _
      exact Or.inl (by simpa using hb)
    · split
      · rename_i hnone
        have hv : v = none := by
          cases v with
          | none => rfl
          | some x => simp at hnone
        subst hv
        split
        · rename_i e
          have e1 : vq = 1 := by simpa using e
          subst e1
          intro hr
          exact ih _ _ _ _ _ hi (Z_switch12 p hz) hr
        · rename_i e1
          split
          · rename_i e
            have e2 : vq = 2 := by simpa using e
            subst e2
            intro hr
            exact ih _ _ _ _ _ hi (Z_switch20 p hz) hr
          · rename_i e2
            intro _
            exact Or.inr (Z_final p vq (by simpa using e1) (by simpa using e2) hz)
      · rename_i hsome
        split
        · -- some v_1, x
          rename_i xo v1
          split
          · rename_i hw0
            intro hr
            exact ih _ _ _ _ _ hi (Z_skip p vq v1 hn hz (by simpa using hw0)) hr
          · split
            · rename_i c1
              split
              · intro hr; exact ih _ _ _ _ _ hi hz hr
              · split
                · rename_i hcv
                  have e : c1 = v1 := by simpa using hcv
                  subst e
                  intro hr
                  exact ih _ _ _ _ _ (LInv.evictNode _ hi) (Z_evict_self p vq c1 hn hz) hr
                · rename_i hcv
                  have hne : (some v1 : Option Nat) ≠ some c1 := by
                    intro e; injection e with e; exact hcv (by simp [e])
                  split
                  · intro hr
                    exact ih _ _ _ _ _ (LInv.evictNode _ hi) (Z_evict_self p vq v1 hn hz) hr
                  · split
                    · intro hr
                      exact ih _ _ _ _ _ (LInv.evictNode _ hi) (Z_evict_other p vq c1 _ hn hne hz) hr
                    · split
                      · intro hr
                        exact ih _ _ _ _ _ (LInv.evictNode _ hi) (Z_evict_other p vq c1 _ hn hne hz) hr
                      · split
                        · intro hr
                          have hi' := linv_admit (p.node c1).key (p.node v1).key hi
                          have hz' := Z_admit p vq (p.node c1).key (p.node v1).key _ hz
                          have := Z_evict_self _ vq v1 hi'.c hz'
                          exact ih _ _ _ _ _ (LInv.evictNode _ hi') this hr
                        · intro hr
                          have hi' := linv_admit (p.node c1).key (p.node v1).key hi
                          have hz' := Z_admit p vq (p.node c1).key (p.node v1).key _ hz
                          exact ih _ _ _ _ _ (LInv.evictNode _ hi') (Z_evict_other _ vq c1 _ hi'.c hne hz') hr
            · intro hr
              exact ih _ _ _ _ _ (LInv.evictNode _ hi) (Z_evict_self p vq v1 hn hz) hr
        · -- none, some c_1
          rename_i c1
          split
          · intro hr; exact ih _ _ _ _ _ hi hz hr
          · intro hr
            exact ih _ _ _ _ _ (LInv.evictNode _ hi) (Z_evict_other p vq c1 none hn (by intro e; cases e) hz) hr
        · -- none, none: excluded by the test above
          intro _
          simp at hsome


/-- after evictNodes: within the maximum, or nothing but zero-weight entries left — provided the model's loop bound was not
    hit (the code's loop has no bound; the driver checks the flag on every run) -/
theorem bound_evictNodes {S : List Nat} {p : Policy} (hi : LInv S p) (hr : evictNodesRanOut p = false) : Good (evictNodes p) := by
  unfold Policy.evictNodes evictFromMain evictFromMainX
  unfold evictNodesRanOut evictFromMainX at hr
  simp only at hr ⊢
  have hm := mv_evictFromWindow p hi.c
  have hi1 := hi.mv hm
  have hz : Z (evictFromWindow p).1 1 (evictFromWindow p).1.probation.head? := by
    unfold Z; simp only [↓reduceIte]; exact ZB_head _ _
  exact bound_go _ _ 1 1 _ _ hi1 hz hr


/-! ### entries of weight zero are never evicted for size reasons -/

/-- every node the run handed to evictNode beyond those in `base` has a non-zero weight -/
def NZ (base : List Nat) (w : Nat → Nat) (r : Policy) : Prop := ∀ x, x ∈ r.evicted → x ∈ base ∨ w x ≠ 0

theorem evicted_evictNode (p : Policy) (c : Nat) : (evictNode p c).evicted = (delete p c).evicted ++ [c] := rfl

theorem evicted_makeDead (p : Policy) (c : Nat) : (makeDead p c).evicted = p.evicted := by
  unfold makeDead
  simp only
  have h1 : (if dqContains p (p.node c).qt c = true then dqDelete (discount p c) (p.node c).qt c else p).evicted = p.evicted := by
    split
    · unfold dqDelete
      cases linkedIn (discount p c) c with
      | none => unfold discount; simp only; split <;> (try split) <;> rfl
      | some q' =>
        simp only
        unfold setDq
        split <;> (try split) <;> (unfold discount; simp only; split <;> (try split) <;> rfl)
    · rfl
  generalize (if dqContains p (p.node c).qt c = true then dqDelete (discount p c) (p.node c).qt c else p) = p1 at h1
  split <;> exact h1

theorem evicted_admit (p : Policy) (a b : Nat) : (admit p a b).1.evicted = p.evicted := by
  unfold admit; simp only; split
  · rfl
  · split
    · split <;> rfl
    · rfl

theorem nz_evict (base : List Nat) (w : Nat → Nat) (p : Policy) (c : Nat) (h : NZ base w p) (hc : w c ≠ 0) :
    NZ base w (evictNode p c) := by
  intro x hx
  rw [evicted_evictNode] at hx
  rcases List.mem_append.mp hx with hm | hm
  · have : (delete p c).evicted = p.evicted := evicted_makeDead p c
    rw [this] at hm; exact h x hm
  · simp at hm; rw [hm]; exact Or.inr hc

theorem nz_go (fuel : Nat) (base : List Nat) (w : Nat → Nat) : ∀ (p : Policy) (vq cq : Nat) (v c : Option Nat),
    (∀ y, (p.node y).weight = w y) → NZ base w p → NZ base w (evictFromMainX.go p vq cq v c fuel).1 := by
  induction fuel with
  | zero => intro p vq cq v c _ h; unfold evictFromMainX.go; exact h
  | succ fuel ih =>
    intro p vq cq v c hw h
    have hwe : ∀ z y, ((evictNode p z).node y).weight = w y := fun z y => by rw [weight_evictNode, hw]
    have hwa : ∀ a b y, ((admit p a b).1.node y).weight = w y := fun a b y => by rw [node_admit, hw]
    have hwae : ∀ a b z y, ((evictNode (admit p a b).1 z).node y).weight = w y := fun a b z y => by rw [weight_evictNode, hwa]
    have hna : ∀ a b, NZ base w (admit p a b).1 := fun a b x hx => by rw [evicted_admit] at hx; exact h x hx
    unfold evictFromMainX.go
    simp only
    generalize (if (c.isNone && cq == 1) = true then p.window.head? else c) = c'
    generalize (if (c.isNone && cq == 1) = true then 0 else cq) = cq'
    split
    · exact h
    · split
      · split
        · exact ih _ _ _ _ _ hw h
        · split
          · exact ih _ _ _ _ _ hw h
          · exact h
      · rename_i hsome
        split
        · rename_i xo v1
          split
          · exact ih _ _ _ _ _ hw h
          · rename_i hv0
            have hv : w v1 ≠ 0 := by rw [← hw]; simpa using hv0
            split
            · rename_i c1
              split
              · exact ih _ _ _ _ _ hw h
              · rename_i hc0
                have hc : w c1 ≠ 0 := by rw [← hw]; simpa using hc0
                split
                · exact ih _ _ _ _ _ (hwe _) (nz_evict base w p c1 h hc)
                · split
                  · exact ih _ _ _ _ _ (hwe _) (nz_evict base w p v1 h hv)
                  · split
                    · exact ih _ _ _ _ _ (hwe _) (nz_evict base w p c1 h hc)
                    · split
                      · exact ih _ _ _ _ _ (hwe _) (nz_evict base w p c1 h hc)
                      · split
                        · exact ih _ _ _ _ _ (hwae _ _ _) (nz_evict base w _ v1 (hna _ _) hv)
                        · exact ih _ _ _ _ _ (hwae _ _ _) (nz_evict base w _ c1 (hna _ _) hc)
            · exact ih _ _ _ _ _ (hwe _) (nz_evict base w p v1 h hv)
        · rename_i c1
          split
          · exact ih _ _ _ _ _ hw h
          · rename_i hc0
            have hc : w c1 ≠ 0 := by rw [← hw]; simpa using hc0
            exact ih _ _ _ _ _ (hwe _) (nz_evict base w p c1 h hc)
        · exact h

theorem evicted_evictFromWindow (p : Policy) : (evictFromWindow p).1.evicted = p.evicted := by
  have key : ∀ fuel (p : Policy) (n first : Option Nat), (evictFromWindow.go p n first fuel).1.evicted = p.evicted := by
    intro fuel
    induction fuel with
    | zero => intro p n first; unfold evictFromWindow.go; rfl
    | succ fuel ih =>
      intro p n first
      unfold evictFromWindow.go
      split
      · rfl
      · split
        · rfl
        · simp only
          split
          · rw [ih]
            rename_i id _
            have hd : ∀ (q : Policy) (a b : Nat), (dqDelete q a b).evicted = q.evicted := by
              intro q a b
              unfold dqDelete
              cases linkedIn q b with
              | none => rfl
              | some q' => simp only; unfold setDq; split <;> (try split) <;> rfl
            have hp : ∀ (q : Policy) (a b : Nat), (dqPushBack q a b).evicted = q.evicted := by
              intro q a b
              unfold dqPushBack setDq; split <;> (try split) <;> rfl
            show (dqPushBack (dqDelete (p.setNode { p.node id with qt := 1 }) 0 id) 1 id).evicted = p.evicted
            rw [hp, hd]; rfl
          · exact ih _ _ _
  unfold evictFromWindow
  exact key _ _ _ _

/-- evictNodes hands only non-zero-weight nodes to the eviction callback -/
theorem evictNodes_nonzero (p : Policy) : ∀ x, x ∈ (evictNodes p).evicted → x ∈ p.evicted ∨ (p.node x).weight ≠ 0 := by
  unfold Policy.evictNodes evictFromMain evictFromMainX
  simp only
  have hk := wk_evictFromWindow p
  have hb : NZ p.evicted (fun y => (p.node y).weight) (evictFromWindow p).1 := by
    intro x hx; rw [evicted_evictFromWindow] at hx; exact Or.inl hx
  exact nz_go _ p.evicted (fun y => (p.node y).weight) _ 1 1 _ _ (fun y => hk.1 y) hb


/-! ### the loop bound of the model is never reached: a potential that every iteration decreases -/

/-- number of elements of l from the pointer on -/
def sfx (l : List Nat) (v : Option Nat) : Nat :=
  match v with
  | none => 0
  | some x => (l.dropWhile (· != x)).length

theorem sfx_le (l : List Nat) (v : Option Nat) : sfx l v ≤ l.length := by
  cases v with
  | none => exact Nat.zero_le _
  | some x => exact (List.dropWhile_sublist _).length_le

theorem sfx_notin (l : List Nat) (x : Nat) (h : x ∉ l) : sfx l (some x) = 0 := by
  unfold sfx
  simp only
  have : l.dropWhile (· != x) = [] := by
    induction l with
    | nil => rfl
    | cons a as ih =>
      have hne : (a != x) = true := by
        simp only [bne_iff_ne, ne_eq]; intro e; exact h (e ▸ List.mem_cons_self)
      rw [List.dropWhile_cons, hne]
      simp only [↓reduceIte]
      exact ih (fun hm => h (List.mem_cons_of_mem _ hm))
  rw [this]; rfl

theorem dropWhile_append_of_notin (pre rest : List Nat) (y : Nat) (h : y ∉ pre) :
    (pre ++ y :: rest).dropWhile (· != y) = y :: rest := by
  induction pre with
  | nil => simp
  | cons a as ih =>
    have hne : (a != y) = true := by
      simp only [bne_iff_ne, ne_eq]; intro e; exact h (e ▸ List.mem_cons_self)
    rw [List.cons_append, List.dropWhile_cons, hne]
    simp only [↓reduceIte]
    exact ih (fun hm => h (List.mem_cons_of_mem _ hm))

theorem sfx_head (l : List Nat) : sfx l l.head? = l.length := by
  cases l with
  | nil => rfl
  | cons a as => simp [sfx]

theorem sfx_succ (l : List Nat) (x : Nat) (hn : l.Nodup) (hx : x ∈ l) : sfx l (succOf l x) + 1 ≤ sfx l (some x) := by
  obtain ⟨pre, rest, h1, h2, h3, h4⟩ := split_at l x hx
  unfold succOf
  rw [h4]
  show sfx l rest.head? + 1 ≤ (l.dropWhile (· != x)).length
  rw [h4]
  cases rest with
  | nil => simp [sfx]
  | cons r rs =>
    have hnd : (pre ++ x :: r :: rs).Nodup := h1 ▸ hn
    have hr : r ∉ pre ++ [x] := by
      intro hm
      have := List.nodup_append.mp (by simpa using hnd : ((pre ++ [x]) ++ (r :: rs)).Nodup)
      exact this.2.2 r hm r List.mem_cons_self rfl
    have e : l = (pre ++ [x]) ++ r :: rs := by rw [h1]; simp
    show (l.dropWhile (· != r)).length + 1 ≤ _
    rw [e, dropWhile_append_of_notin _ _ _ hr]
    simp

theorem sfx_filter_self (l : List Nat) (x : Nat) (hn : l.Nodup) (hx : x ∈ l) :
    sfx (l.filter (· != x)) (succOf l x) + 1 ≤ sfx l (some x) := by
  obtain ⟨pre, rest, h1, h2, h3, h4⟩ := split_at l x hx
  have hnd : (pre ++ x :: rest).Nodup := h1 ▸ hn
  have hxr : x ∉ rest := by
    intro hm
    have := (List.nodup_append.mp hnd).2.1
    exact (List.nodup_cons.mp this).1 hm
  have hf : l.filter (· != x) = pre ++ rest := by
    rw [h1, List.filter_append, filter_ne_of_not_mem _ _ h2, List.filter_cons]
    simp [filter_ne_of_not_mem _ _ hxr]
  unfold succOf
  rw [h4, hf]
  show sfx (pre ++ rest) rest.head? + 1 ≤ (l.dropWhile (· != x)).length
  rw [h4]
  cases rest with
  | nil => simp [sfx]
  | cons r rs =>
    have hr : r ∉ pre := by
      intro hm
      exact (List.nodup_append.mp hnd).2.2 r hm r (by simp) rfl
    show ((pre ++ r :: rs).dropWhile (· != r)).length + 1 ≤ _
    rw [dropWhile_append_of_notin _ _ _ hr]
    simp

theorem dropWhile_filter (l : List Nat) (x c : Nat) (hne : x ≠ c) :
    (l.filter (· != c)).dropWhile (· != x) = (l.dropWhile (· != x)).filter (· != c) := by
  induction l with
  | nil => rfl
  | cons a as ih =>
    by_cases ec : a = c
    · subst ec
      have h1 : (a != a) = false := by simp
      have h2 : (a != x) = true := by simp only [bne_iff_ne, ne_eq]; exact fun e => hne e.symm
      rw [List.filter_cons, h1, List.dropWhile_cons, h2]
      simpa using ih
    · have h1 : (a != c) = true := by simp [ec]
      rw [List.filter_cons, h1]
      simp only [↓reduceIte]
      by_cases ex : a = x
      · subst ex
        simp [h1]
      · have h2 : (a != x) = true := by simp [ex]
        rw [List.dropWhile_cons, h2, List.dropWhile_cons, h2]
        simpa using ih

theorem sfx_filter_other (l : List Nat) (v : Option Nat) (c : Nat) (hne : v ≠ some c) : sfx (l.filter (· != c)) v ≤ sfx l v := by
  cases v with
  | none => exact Nat.le_refl _
  | some x =>
    have hxc : x ≠ c := fun e => hne (by rw [e])
    unfold sfx
    simp only
    rw [dropWhile_filter l x c hxc]
    exact (List.filter_sublist).length_le

theorem length_filter_le' (l : List Nat) (c : Nat) : (l.filter (· != c)).length ≤ l.length := (List.filter_sublist).length_le

end OtterVerif.Impl.Policy
