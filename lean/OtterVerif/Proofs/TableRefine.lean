/-
  Proofs.TableRefine — Impl.Table (the transcription of cache_impl.go's per-key decision code) refines Spec.Core
  (the map with deadlines written from the property texts).

  Abstraction: a node is its (value, weight, expiration deadline, refresh deadline); the table is the spec's map.
  `cfgOf` instantiates the code-level calculators from the spec's configuration exactly as the library's built-in
  calculators behave ("keep" = return the entry's current duration).  Theorems:
    * visibility: getNode finds a node iff the spec's `live` does;
    * deadlines: the expiration / refresh deadline atomicSet gives the new node is the spec's expAfterWrite / refAfterWrite,
      for every built-in and per-key calculator — including the `currentDuration != d` shortcut and int64 wrap of
      `entry.ExpiresAfter()`;
    * causes and events; reads (ExpireAfterRead incl. the |d - current| test);
    * Set, SetIfAbsent, Invalidate, GetIfPresent as whole steps: new table, result and deletion events are the spec's.
  Side conditions (explicit): clock readings within ±2^62, stored deadlines at most MaxInt64, built-in durations positive,
  the node stored under key k has key k.
-/
import OtterVerif.Impl.Table
import OtterVerif.Spec.Core

namespace OtterVerif.Proofs.TableRefine
open OtterVerif OtterVerif.Impl.Table
open OtterVerif.Spec (Cause Event Out Entry Cfg Kind)

def absN (n : TNode) : Entry := { val := n.val, weight := n.weight, exp := n.exp, ref := n.ref }
def absT (t : Tbl) : List (Nat × Entry) := t.map (fun p => (p.1, absN p.2))

/-- the library's calculators for a spec configuration -/
def cfgOf (c : Cfg) : TCfg where
  withExp := c.withExpiry
  withRef := c.withRefresh
  weigh := c.weigh
  expCreate := fun k _ _ => match c.expiry with
    | .creating d => d | .writing d => d | .accessing d => d | .custom => c.expCreate.get k | .none => 0
  expUpdate := fun k _ cur => match c.expiry with
    | .creating _ => cur | .writing d => d | .accessing d => d | .custom => c.expUpdate.get k | .none => 0
  expRead := fun k _ cur => match c.expiry with
    | .accessing d => d | .custom => c.expRead.get k | _ => cur
  refCreate := fun k _ _ => match c.refresh with
    | .creating d => d | .writing d => d | .accessing d => d | .custom => c.refCreate.get k | .none => 0
  refUpdate := fun k _ cur => match c.refresh with
    | .creating _ => cur | .writing d => d | .accessing d => d | .custom => c.refUpdate.get k | .none => 0
  refReload := fun k _ cur => match c.refresh with
    | .creating _ => cur | .writing d => d | .accessing d => d | .custom => c.refReload.get k | .none => 0
  refFail := fun k _ cur => match c.refresh with
    | .custom => c.refFail.get k | _ => cur

/-- built-in durations are positive (the constructors of the library reject others) -/
def KindOk : Kind → Prop
  | .creating d => 0 < d
  | .writing d => 0 < d
  | .accessing d => 0 < d
  | _ => True

theorem wrapS64 (x : Int) : wrapS 64 x = (x + 9223372036854775808) % 18446744073709551616 - 9223372036854775808 := by
  unfold wrapS; rfl

theorem deadlineAfter_eq_satAdd (now d : Int) : deadlineAfter now d = satAdd now d := by
  unfold deadlineAfter satAdd; split <;> split <;> omega

/-! ### visibility and causes -/

theorem visible_iff_live (n : TNode) (now : Int) : (!hasExpired n now) = (absN n).liveAt now := by
  unfold hasExpired Entry.liveAt absN
  by_cases h : n.exp ≤ now <;> simp [h] <;> omega

theorem cause_eq (n : TNode) (now : Int) (c : Cause) : getCause n now c = Spec.causeOf (absN n) now c := by
  unfold getCause Spec.causeOf
  rw [← visible_iff_live]
  cases hasExpired n now <;> rfl

/-! ### deadlines of a write -/

/-- the generic step both calculators share: inherit, ask, and set unless told to keep -/
theorem keep_or_set (inherit now d : Int) (hnow : -4611686018427387904 < now ∧ now < 4611686018427387904)
    (hin : inherit ≤ maxI64) (hpos : 0 < d) (hvis : -4611686018427387904 ≤ inherit)
    (hcur : durationTo inherit now = d) : inherit = satAdd now d := by
  unfold durationTo at hcur
  rw [wrapS64] at hcur
  unfold satAdd maxI64 at *
  split <;> omega

/-- "set unless told to keep" is "set if the calculator gave a positive duration": when the calculator's answer equals the
    current duration, the deadline kept is the one that would be set -/
theorem step_eq (inherit now d : Int) (hnow : -4611686018427387904 < now ∧ now < 4611686018427387904)
    (hin : inherit ≤ maxI64) (hvis : -4611686018427387904 ≤ inherit) :
    (if 0 < d ∧ ¬ durationTo inherit now = d then deadlineAfter now d else inherit)
      = (if 0 < d then satAdd now d else inherit) := by
  by_cases hd : 0 < d
  · by_cases hc : durationTo inherit now = d
    · simp only [hd, hc, not_true_eq_false, and_false, ↓reduceIte]
      exact keep_or_set inherit now d hnow hin hd hvis hc
    · simp only [hd, hc, not_false_eq_true, and_self, ↓reduceIte, deadlineAfter_eq_satAdd]
  · simp [hd]

theorem exp_refines (c : Cfg) (k v : Nat) (prev : Option TNode) (now : Int)
    (hnow : -4611686018427387904 < now ∧ now < 4611686018427387904)
    (hprev : ∀ o, prev = some o → now < o.exp ∧ o.exp ≤ maxI64) (hk : KindOk c.expiry) :
    (calcExpiresAtAfterWrite (cfgOf c) (newNode (cfgOf c) k v prev) prev now).exp
      = Spec.expAfterWrite c now k (prev.map absN) := by
  obtain ⟨e, he⟩ : ∃ e, c.expiry = e := ⟨_, rfl⟩
  unfold calcExpiresAtAfterWrite Spec.expAfterWrite
  simp only [newNode, cfgOf, Cfg.withExpiry]
  rw [he] at hk
  simp only [he]
  cases prev with
  | none =>
    cases e with
    | none => simp
    | creating d | writing d | accessing d =>
      have hd : 0 < d := hk
      have := step_eq maxI64 now d hnow (Int.le_refl _) (by unfold maxI64; omega)
      simp only [hd, ↓reduceIte, true_and, ite_not] at this
      simp [apply_ite TNode.exp, hd, this]
    | custom =>
      have := step_eq maxI64 now (c.expCreate.get k) hnow (Int.le_refl _) (by unfold maxI64; omega)
      simp [apply_ite TNode.exp, this]
  | some o =>
    obtain ⟨hvis, hmax⟩ := hprev o rfl
    have hne : hasExpired o now = false := by unfold hasExpired; simp; omega
    cases e with
    | none => simp
    | creating d => simp [hne, absN]
    | writing d | accessing d =>
      have hd : 0 < d := hk
      have := step_eq o.exp now d hnow hmax (by omega)
      simp only [hd, ↓reduceIte, true_and, ite_not] at this
      simp [apply_ite TNode.exp, hne, hd, this]
    | custom =>
      have := step_eq o.exp now (c.expUpdate.get k) hnow hmax (by omega)
      simp [apply_ite TNode.exp, hne, this, absN]

theorem ref_refines (c : Cfg) (k v : Nat) (n : TNode) (prev : Option TNode) (now : Int)
    (hnow : -4611686018427387904 < now ∧ now < 4611686018427387904)
    (hn : n.key = k ∧ n.ref = (newNode (cfgOf c) k v prev).ref)
    (hprev : ∀ o, prev = some o → -4611686018427387904 ≤ o.ref ∧ o.ref ≤ maxI64) (hk : KindOk c.refresh) :
    (calcRefreshableAt (cfgOf c) n prev .plain now).ref = Spec.refAfterWrite c now k (prev.map absN) .normal := by
  obtain ⟨e, he⟩ : ∃ e, c.refresh = e := ⟨_, rfl⟩
  obtain ⟨nk, nv, nw, ne, nr⟩ := n
  obtain ⟨h1, h2⟩ := hn
  simp only at h1 h2
  subst h1
  subst h2
  unfold calcRefreshableAt Spec.refAfterWrite
  simp only [newNode, cfgOf, Cfg.withRefresh]
  rw [he] at hk
  simp only [he]
  cases prev with
  | none =>
    cases e with
    | none => simp
    | creating d | writing d | accessing d =>
      have hd : 0 < d := hk
      have := step_eq maxI64 now d hnow (Int.le_refl _) (by unfold maxI64; omega)
      simp only [hd, ↓reduceIte, true_and, ite_not] at this
      simp [apply_ite TNode.ref, hd, this]
    | custom =>
      have := step_eq maxI64 now (c.refCreate.get nk) hnow (Int.le_refl _) (by unfold maxI64; omega)
      simp [apply_ite TNode.ref, this]
  | some o =>
    obtain ⟨hlow, hmax⟩ := hprev o rfl
    cases e with
    | none => simp
    | creating d => simp [absN]
    | writing d | accessing d =>
      have hd : 0 < d := hk
      have := step_eq o.ref now d hnow hmax hlow
      simp only [hd, ↓reduceIte, true_and, ite_not] at this
      simp [apply_ite TNode.ref, hd, this]
    | custom =>
      have := step_eq o.ref now (c.refUpdate.get nk) hnow hmax hlow
      simp [apply_ite TNode.ref, this, absN]

/-! ### the table as the spec's map -/

theorem find_absT (t : Tbl) (k : Nat) : Spec.find (absT t) k = (lookup t k).map absN := by
  unfold Spec.find absT lookup
  induction t with
  | nil => rfl
  | cons p rest ih =>
    simp only [List.map_cons, List.find?_cons]
    cases h : (p.1 == k)
    · simp only [h]; exact ih
    · simp [h]

theorem erase_absT (t : Tbl) (k : Nat) : Spec.erase (absT t) k = absT (unlink t k) := by
  unfold Spec.erase absT unlink
  induction t with
  | nil => rfl
  | cons p rest ih =>
    simp only [List.map_cons, List.filter_cons]
    cases h : (p.1 != k)
    · simp only [h, Bool.false_eq_true, ↓reduceIte]; exact ih
    · simp only [h, ↓reduceIte, List.map_cons]; rw [ih]

theorem put_absT (t : Tbl) (k : Nat) (n : TNode) : Spec.put (absT t) k (absN n) = absT (store t k n) := by
  unfold Spec.put store
  rw [erase_absT]
  rfl

theorem calcExp_fields (c : TCfg) (n : TNode) (p : Option TNode) (now : Int) :
    (calcExpiresAtAfterWrite c n p now).key = n.key ∧ (calcExpiresAtAfterWrite c n p now).val = n.val ∧
    (calcExpiresAtAfterWrite c n p now).weight = n.weight ∧ (calcExpiresAtAfterWrite c n p now).ref = n.ref := by
  unfold calcExpiresAtAfterWrite
  dsimp only
  repeat' split
  all_goals exact ⟨rfl, rfl, rfl, rfl⟩

theorem calcRef_fields (c : TCfg) (n : TNode) (p : Option TNode) (kd : RefKind) (now : Int) :
    (calcRefreshableAt c n p kd now).key = n.key ∧ (calcRefreshableAt c n p kd now).val = n.val ∧
    (calcRefreshableAt c n p kd now).weight = n.weight ∧ (calcRefreshableAt c n p kd now).exp = n.exp := by
  unfold calcRefreshableAt
  dsimp only
  repeat' split
  all_goals exact ⟨rfl, rfl, rfl, rfl⟩

/-- well-formedness of what is stored under `k`: the node carries that key and its deadlines are int64 values, the refresh
    deadline not absurdly far in the past -/
def NodeOk (k : Nat) (o : TNode) : Prop :=
  o.key = k ∧ o.exp ≤ maxI64 ∧ -4611686018427387904 ≤ o.ref ∧ o.ref ≤ maxI64

theorem visiblePrev_live (s : Spec.State) (t : Tbl) (k : Nat) (hs : s.m = absT t) :
    (visiblePrev (lookup t k) s.now).map absN = s.live k := by
  unfold Spec.State.live Spec.State.phys visiblePrev
  rw [hs, find_absT]
  cases lookup t k with
  | none => rfl
  | some o =>
    have := visible_iff_live o s.now
    cases h : hasExpired o s.now <;> simp [h] at this ⊢ <;> simp [Option.filter, this]

/-- the node atomicSet builds is the entry the spec's write rule installs -/
theorem atomicSet_entry (c : Cfg) (s : Spec.State) (t : Tbl) (k v : Nat) (hs : s.m = absT t)
    (hnow : -4611686018427387904 < s.now ∧ s.now < 4611686018427387904)
    (hwf : ∀ o, lookup t k = some o → NodeOk k o) (hk1 : KindOk c.expiry) (hk2 : KindOk c.refresh) :
    absN (atomicSet (cfgOf c) k v (lookup t k) s.now).1 =
      { val := v, weight := c.weigh k v, exp := Spec.expAfterWrite c s.now k (s.live k),
        ref := Spec.refAfterWrite c s.now k (s.live k) .normal } := by
  have hprev1 : ∀ o, visiblePrev (lookup t k) s.now = some o → s.now < o.exp ∧ o.exp ≤ maxI64 := by
    intro o ho
    unfold visiblePrev at ho
    cases hl : lookup t k with
    | none => rw [hl] at ho; cases ho
    | some o' =>
      rw [hl] at ho
      by_cases he : hasExpired o' s.now = true
      · simp [he] at ho
      · simp only [he, Bool.false_eq_true, ↓reduceIte, Option.some.injEq] at ho
        subst ho
        have := (hwf o' hl).2.1
        unfold hasExpired at he
        simp at he
        exact ⟨he, this⟩
  have hprev2 : ∀ o, visiblePrev (lookup t k) s.now = some o → -4611686018427387904 ≤ o.ref ∧ o.ref ≤ maxI64 := by
    intro o ho
    unfold visiblePrev at ho
    cases hl : lookup t k with
    | none => rw [hl] at ho; cases ho
    | some o' =>
      rw [hl] at ho
      by_cases he : hasExpired o' s.now = true
      · simp [he] at ho
      · simp only [he, Bool.false_eq_true, ↓reduceIte, Option.some.injEq] at ho
        subst ho
        exact ⟨(hwf o' hl).2.2.1, (hwf o' hl).2.2.2⟩
  have hE := exp_refines c k v (visiblePrev (lookup t k) s.now) s.now hnow hprev1 hk1
  have hR := ref_refines c k v (calcExpiresAtAfterWrite (cfgOf c) (newNode (cfgOf c) k v (visiblePrev (lookup t k) s.now))
      (visiblePrev (lookup t k) s.now) s.now) (visiblePrev (lookup t k) s.now) s.now hnow
      ⟨(calcExp_fields _ _ _ _).1, (calcExp_fields _ _ _ _).2.2.2⟩ hprev2 hk2
  rw [visiblePrev_live s t k hs] at hE hR
  show absN (calcRefreshableAt (cfgOf c) (calcExpiresAtAfterWrite (cfgOf c) (newNode (cfgOf c) k v (visiblePrev (lookup t k) s.now))
      (visiblePrev (lookup t k) s.now) s.now) (visiblePrev (lookup t k) s.now) .plain s.now) = _
  unfold absN
  rw [(calcRef_fields _ _ _ _ _).2.1, (calcRef_fields _ _ _ _ _).2.2.1, (calcRef_fields _ _ _ _ _).2.2.2,
    (calcExp_fields _ _ _ _).2.1, (calcExp_fields _ _ _ _).2.2.1, hE, hR]
  rfl

/-! ### whole steps -/

theorem live_clearInflight (s : Spec.State) (k j : Nat) : (s.clearInflight j).live k = s.live k := rfl
theorem phys_clearInflight (s : Spec.State) (k j : Nat) : (s.clearInflight j).phys k = s.phys k := rfl

theorem phys_abs (s : Spec.State) (t : Tbl) (k : Nat) (hs : s.m = absT t) : s.phys k = (lookup t k).map absN := by
  unfold Spec.State.phys; rw [hs, find_absT]

theorem live_abs (s : Spec.State) (t : Tbl) (k : Nat) (hs : s.m = absT t) :
    s.live k = ((lookup t k).map absN).filter (fun e => e.liveAt s.now) := by
  unfold Spec.State.live; rw [phys_abs s t k hs]

theorem set_some (cfg : TCfg) (t : Tbl) (k v : Nat) (now : Int) (o : TNode) (hl : lookup t k = some o) :
    Impl.Table.set cfg t k v false now =
      (store t k (atomicSet cfg k v (some o) now).1,
       (if hasExpired o now then Out.valOk v true else Out.valOk o.val false), (atomicSet cfg k v (some o) now).2) := by
  unfold Impl.Table.set
  rw [hl]
  cases hx : hasExpired o now <;> simp [hx]

theorem set_none (cfg : TCfg) (t : Tbl) (k v : Nat) (now : Int) (hl : lookup t k = none) :
    Impl.Table.set cfg t k v false now =
      (store t k (atomicSet cfg k v none now).1, Out.valOk v true, (atomicSet cfg k v none now).2) := by
  unfold Impl.Table.set
  rw [hl]
  simp

/-- **Set**: new table, returned (value, ok) and the atomic deletion event are the spec's -/
theorem set_refines (c : Cfg) (s : Spec.State) (t : Tbl) (k v : Nat) (hs : s.m = absT t)
    (hnow : -4611686018427387904 < s.now ∧ s.now < 4611686018427387904)
    (hwf : ∀ o, lookup t k = some o → NodeOk k o) (hk1 : KindOk c.expiry) (hk2 : KindOk c.refresh) :
    absT (Impl.Table.set (cfgOf c) t k v false s.now).1 = (Spec.set c s k v).1.m ∧
    (Impl.Table.set (cfgOf c) t k v false s.now).2.1 = (Spec.set c s k v).2.1 ∧
    (Impl.Table.set (cfgOf c) t k v false s.now).2.2 = (Spec.set c s k v).2.2 := by
  have hentry := atomicSet_entry c s t k v hs hnow hwf hk1 hk2
  have hlive := live_abs s t k hs
  have hphys := phys_abs s t k hs
  have hm : (Spec.set c s k v).1.m = Spec.put s.m k (Entry.mk v (c.weigh k v) (Spec.expAfterWrite c s.now k (s.live k))
      (Spec.refAfterWrite c s.now k (s.live k) Spec.WriteKind.normal)) := rfl
  have hout : (Spec.set c s k v).2.1 = (match s.live k with | some o => Out.valOk o.val false | none => Out.valOk v true) := rfl
  have hev : (Spec.set c s k v).2.2 = (match s.phys k with
      | some o => [Event.mk k o.val (Spec.causeOf o s.now Cause.replacement)]
      | none => []) := rfl
  rw [hm, hout, hev]
  cases hl : lookup t k with
  | none =>
    rw [hl] at hentry hlive hphys
    simp only [Option.map_none, Option.filter_none] at hlive hphys
    rw [set_none _ _ _ _ _ hl]
    refine ⟨?_, ?_, ?_⟩
    · show absT (store t k (atomicSet (cfgOf c) k v none s.now).1) = Spec.put s.m k _
      rw [← put_absT, hentry, hs]
    · show Out.valOk v true = _
      rw [hlive]
    · show (atomicSet (cfgOf c) k v none s.now).2 = _
      rw [hphys]; rfl
  | some o =>
    rw [hl] at hentry hlive hphys
    have hkey : o.key = k := (hwf o hl).1
    have hvis := visible_iff_live o s.now
    simp only [Option.map_some] at hlive hphys
    rw [set_some _ _ _ _ _ o hl]
    refine ⟨?_, ?_, ?_⟩
    · show absT (store t k (atomicSet (cfgOf c) k v (some o) s.now).1) = Spec.put s.m k _
      rw [← put_absT, hentry, hs]
    · show (if hasExpired o s.now then Out.valOk v true else Out.valOk o.val false) = _
      rw [hlive]
      cases hx : hasExpired o s.now
      · have : (absN o).liveAt s.now = true := by rw [← hvis, hx]; rfl
        simp only [Option.filter, this, Bool.false_eq_true, ↓reduceIte]
        rfl
      · have : (absN o).liveAt s.now = false := by rw [← hvis, hx]; rfl
        simp only [Option.filter, this, Bool.false_eq_true, ↓reduceIte]
    · show (atomicSet (cfgOf c) k v (some o) s.now).2 = _
      rw [hphys]
      simp only [atomicSet, hkey, cause_eq]
      rfl

/-- **Invalidate** -/
theorem invalidate_refines (s : Spec.State) (t : Tbl) (k : Nat) (hs : s.m = absT t)
    (hwf : ∀ o, lookup t k = some o → o.key = k) :
    absT (invalidate t k s.now).1 = (Spec.invalidate s k).1.m ∧
    (invalidate t k s.now).2.1 = (Spec.invalidate s k).2.1 ∧
    (invalidate t k s.now).2.2 = (Spec.invalidate s k).2.2 := by
  have hlive := live_abs s t k hs
  have hphys := phys_abs s t k hs
  unfold invalidate Spec.invalidate Spec.remove
  simp only [live_clearInflight, phys_clearInflight]
  cases hl : lookup t k with
  | none =>
    rw [hl] at hlive hphys
    simp only [Option.map_none, Option.filter_none] at hlive hphys
    simp only [hlive, hphys]
    refine ⟨?_, ?_, ?_⟩ <;> first | exact hs.symm | rfl | trivial
  | some o =>
    rw [hl] at hlive hphys
    have hkey : o.key = k := hwf o hl
    have hvis := visible_iff_live o s.now
    simp only [Option.map_some] at hlive hphys
    refine ⟨?_, ?_, ?_⟩
    · simp only [hphys]
      show absT (unlink t k) = Spec.erase s.m k
      rw [hs, erase_absT]
    · cases hx : hasExpired o s.now
      · have : (absN o).liveAt s.now = true := by rw [← hvis, hx]; rfl
        simp only [hlive, Option.filter, this, hphys, hx, Bool.false_eq_true, ↓reduceIte]
        rfl
      · have : (absN o).liveAt s.now = false := by rw [← hvis, hx]; rfl
        simp only [hlive, Option.filter, this, hphys, hx, Bool.false_eq_true, ↓reduceIte]
    · simp only [hphys, hkey, cause_eq]
      rfl

theorem find_put (m : List (Nat × Entry)) (k : Nat) (e : Entry) : Spec.find (Spec.put m k e) k = some e := by
  unfold Spec.find Spec.put; simp

/-! ### reads -/

/-- durations handed out by read calculators fit an int64 -/
def ReadOk (c : Cfg) : Prop :=
  (∀ d, c.expiry = .accessing d → 0 < d ∧ d ≤ maxI64) ∧ (∀ k, c.expRead.get k ≤ maxI64)

/-- the deadline a read stores (calcExpiresAtAfterRead + setExpiresAfterRead, with its `|d - current| > 0` test on int64
    differences) is the spec's expAfterRead -/
theorem read_refines (c : Cfg) (k : Nat) (o : TNode) (now : Int)
    (hnow : -4611686018427387904 < now ∧ now < 4611686018427387904)
    (hkey : o.key = k) (hvis : now < o.exp) (hmax : o.exp ≤ maxI64) (hr : ReadOk c) :
    absN (calcExpiresAtAfterRead (cfgOf c) o now) = { absN o with exp := Spec.expAfterRead c now k (absN o) } := by
  obtain ⟨e, he⟩ : ∃ e, c.expiry = e := ⟨_, rfl⟩
  have hkeep : ∀ d : Int, 0 < d → d ≤ maxI64 → d = durationTo o.exp now → o.exp = satAdd now d := by
    intro d hd _ hz
    exact keep_or_set o.exp now d hnow hmax hd (by omega) hz.symm
  unfold calcExpiresAtAfterRead Spec.expAfterRead
  simp only [cfgOf, Cfg.withExpiry, hkey]
  have hacc := hr.1
  rw [he] at hacc
  simp only [he]
  cases e with
  | none => simp [absN]
  | creating d | writing d =>
    -- the calculator answers with the current duration: nothing is stored
    simp only [bne_iff_ne, ne_eq, reduceCtorEq, not_false_eq_true, decide_true, Bool.not_true, Bool.false_eq_true, ↓reduceIte]
    by_cases hle : durationTo o.exp now ≤ 0
    · simp [hle, absN]
    · simp [hle, absN]
  | accessing d =>
    obtain ⟨hd, hdm⟩ := hacc d rfl
    simp only [bne_iff_ne, ne_eq, reduceCtorEq, not_false_eq_true, decide_true, Bool.not_true, Bool.false_eq_true, ↓reduceIte]
    have hnle : ¬ d ≤ 0 := by omega
    simp only [hnle, ↓reduceIte]
    by_cases hz : d = durationTo o.exp now
    · have := hkeep d hd hdm hz
      have hb : (d != durationTo o.exp now) = false := by rw [← hz]; simp
      simp only [hb, Bool.false_eq_true, ↓reduceIte, absN]
      rw [← this]
      simp [if_pos hz]
    · have hb : (d != durationTo o.exp now) = true := by simpa using hz
      simp [hb, absN, deadlineAfter_eq_satAdd, if_neg hz]
  | custom =>
    simp only [bne_iff_ne, ne_eq, reduceCtorEq, not_false_eq_true, decide_true, Bool.not_true, Bool.false_eq_true, ↓reduceIte]
    by_cases hd : 0 < c.expRead.get k
    · have hnle : ¬ c.expRead.get k ≤ 0 := by omega
      simp only [hnle, ↓reduceIte, gt_iff_lt, hd]
      by_cases hz : c.expRead.get k = durationTo o.exp now
      · have := hkeep _ hd (hr.2 k) hz
        have hb : (c.expRead.get k != durationTo o.exp now) = false := by rw [← hz]; simp
        simp only [hb, Bool.false_eq_true, ↓reduceIte, absN]
        rw [← this]
        simp [if_pos hz]
      · have hb : (c.expRead.get k != durationTo o.exp now) = true := by simpa using hz
        simp [hb, absN, deadlineAfter_eq_satAdd, if_neg hz]
    · have hle : c.expRead.get k ≤ 0 := by omega
      have : ¬ c.expRead.get k > 0 := by omega
      simp [hle, this, absN]

/-- **GetIfPresent** (table and result; the hit/miss counters are C20's) -/
theorem getIfPresent_refines (c : Cfg) (s : Spec.State) (t : Tbl) (k : Nat) (hs : s.m = absT t)
    (hnow : -4611686018427387904 < s.now ∧ s.now < 4611686018427387904)
    (hwf : ∀ o, lookup t k = some o → NodeOk k o) (hr : ReadOk c) :
    absT (getIfPresent (cfgOf c) t k s.now).1 = (Spec.getIfPresent c s k).1.m ∧
    (getIfPresent (cfgOf c) t k s.now).2 = (Spec.getIfPresent c s k).2 := by
  have hlive := live_abs s t k hs
  unfold getIfPresent Spec.getIfPresent Spec.lookup
  cases hl : lookup t k with
  | none =>
    rw [hl] at hlive
    simp only [Option.map_none, Option.filter_none] at hlive
    simp only [hlive]
    refine ⟨?_, ?_⟩ <;> first | exact hs.symm | rfl | trivial
  | some o =>
    rw [hl] at hlive
    obtain ⟨hkey, hmax, _, _⟩ := hwf o hl
    have hvis := visible_iff_live o s.now
    simp only [Option.map_some] at hlive
    cases hx : hasExpired o s.now
    · have hlv : (absN o).liveAt s.now = true := by rw [← hvis, hx]; rfl
      have hlt : s.now < o.exp := by unfold hasExpired at hx; simp at hx; exact hx
      have hread := read_refines c k o s.now hnow hkey hlt hmax hr
      simp only [hlive, Option.filter, hlv, hx, ↓reduceIte, Bool.false_eq_true]
      have hm : (Spec.touch c (Spec.hit s) k (absN o)).m = absT (store t k (calcExpiresAtAfterRead (cfgOf c) o s.now)) := by
        show Spec.put s.m k { absN o with exp := Spec.expAfterRead c s.now k (absN o) } = _
        rw [← put_absT, hread, hs]
      have hph : (Spec.touch c (Spec.hit s) k (absN o)).phys k = some { absN o with exp := Spec.expAfterRead c s.now k (absN o) } := by
        show Spec.find (Spec.put s.m k _) k = _
        rw [find_put]
        rfl
      simp only [hph]
      exact ⟨hm.symm, rfl⟩
    · have hlv : (absN o).liveAt s.now = false := by rw [← hvis, hx]; rfl
      simp only [hlive, Option.filter, hlv, hx, ↓reduceIte, Bool.false_eq_true]
      refine ⟨?_, ?_⟩ <;> first | exact hs.symm | rfl | trivial

/-- **SetIfAbsent**: a visible entry is only read (its deadline may move), otherwise the write rule applies -/
theorem setIfAbsent_refines (c : Cfg) (s : Spec.State) (t : Tbl) (k v : Nat) (hs : s.m = absT t)
    (hnow : -4611686018427387904 < s.now ∧ s.now < 4611686018427387904)
    (hwf : ∀ o, lookup t k = some o → NodeOk k o) (hk1 : KindOk c.expiry) (hk2 : KindOk c.refresh) (hr : ReadOk c) :
    absT (Impl.Table.set (cfgOf c) t k v true s.now).1 = (Spec.setIfAbsent c s k v).1.m ∧
    (Impl.Table.set (cfgOf c) t k v true s.now).2.1 = (Spec.setIfAbsent c s k v).2.1 ∧
    (Impl.Table.set (cfgOf c) t k v true s.now).2.2 = (Spec.setIfAbsent c s k v).2.2 := by
  have hlive := live_abs s t k hs
  have hset := set_refines c s t k v hs hnow hwf hk1 hk2
  cases hl : lookup t k with
  | none =>
    rw [hl] at hlive
    simp only [Option.map_none, Option.filter_none] at hlive
    have himpl : Impl.Table.set (cfgOf c) t k v true s.now =
        (store t k (atomicSet (cfgOf c) k v none s.now).1, Out.valOk v true, (atomicSet (cfgOf c) k v none s.now).2) := by
      unfold Impl.Table.set; rw [hl]; simp
    have hspec : Spec.setIfAbsent c s k v = ((Spec.write c (s.clearInflight k) k v).1, Out.valOk v true, (Spec.write c (s.clearInflight k) k v).2) := by
      unfold Spec.setIfAbsent; rw [hlive]
    rw [set_none _ _ _ _ _ hl] at hset
    rw [himpl, hspec]
    exact ⟨hset.1, rfl, hset.2.2⟩
  | some o =>
    rw [hl] at hlive
    obtain ⟨hkey, hmax, _, _⟩ := hwf o hl
    have hvis := visible_iff_live o s.now
    simp only [Option.map_some] at hlive
    cases hx : hasExpired o s.now
    · have hlv : (absN o).liveAt s.now = true := by rw [← hvis, hx]; rfl
      have hlt : s.now < o.exp := by unfold hasExpired at hx; simp at hx; exact hx
      have hread := read_refines c k o s.now hnow hkey hlt hmax hr
      have himpl : Impl.Table.set (cfgOf c) t k v true s.now =
          (store t k (calcExpiresAtAfterRead (cfgOf c) o s.now), Out.valOk o.val false, []) := by
        unfold Impl.Table.set; rw [hl]; simp [hx]
      have hspec : Spec.setIfAbsent c s k v = (Spec.touch c s k (absN o), Out.valOk (absN o).val false, []) := by
        unfold Spec.setIfAbsent; rw [hlive]; simp [Option.filter, hlv]
      rw [himpl, hspec]
      refine ⟨?_, rfl, rfl⟩
      show absT (store t k (calcExpiresAtAfterRead (cfgOf c) o s.now)) = Spec.put s.m k { absN o with exp := Spec.expAfterRead c s.now k (absN o) }
      rw [← hread, hs, put_absT]
    · have hlv : (absN o).liveAt s.now = false := by rw [← hvis, hx]; rfl
      have himpl : Impl.Table.set (cfgOf c) t k v true s.now =
          (store t k (atomicSet (cfgOf c) k v (some o) s.now).1, Out.valOk v true, (atomicSet (cfgOf c) k v (some o) s.now).2) := by
        unfold Impl.Table.set; rw [hl]; simp [hx]
      have hspec : Spec.setIfAbsent c s k v = ((Spec.write c (s.clearInflight k) k v).1, Out.valOk v true, (Spec.write c (s.clearInflight k) k v).2) := by
        unfold Spec.setIfAbsent; rw [hlive]; simp [Option.filter, hlv]
      rw [set_some _ _ _ _ _ o hl] at hset
      rw [himpl, hspec]
      exact ⟨hset.1, rfl, hset.2.2⟩

/-! ### Compute -/

/-- the write rule alone (what Set, Compute's WriteOp and a load's installation share) -/
theorem write_refines (c : Cfg) (s : Spec.State) (t : Tbl) (k v : Nat) (hs : s.m = absT t)
    (hnow : -4611686018427387904 < s.now ∧ s.now < 4611686018427387904)
    (hwf : ∀ o, lookup t k = some o → NodeOk k o) (hk1 : KindOk c.expiry) (hk2 : KindOk c.refresh) :
    absT (store t k (atomicSet (cfgOf c) k v (lookup t k) s.now).1) = (Spec.write c (s.clearInflight k) k v).1.m ∧
    (atomicSet (cfgOf c) k v (lookup t k) s.now).2 = (Spec.write c (s.clearInflight k) k v).2 := by
  have hset := set_refines c s t k v hs hnow hwf hk1 hk2
  cases hl : lookup t k with
  | none => rw [set_none _ _ _ _ _ hl] at hset; exact ⟨hset.1, hset.2.2⟩
  | some o => rw [set_some _ _ _ _ _ o hl] at hset; exact ⟨hset.1, hset.2.2⟩

theorem invalidate_some (t : Tbl) (k : Nat) (now : Int) (o : TNode) (hl : lookup t k = some o) :
    invalidate t k now = (unlink t k, (if hasExpired o now then Out.valOk 0 false else Out.valOk o.val true),
      [{ key := o.key, val := o.val, cause := getCause o now .invalidation }]) := by
  unfold invalidate; rw [hl]

theorem invalidate_none (t : Tbl) (k : Nat) (now : Int) (hl : lookup t k = none) :
    invalidate t k now = (t, Out.valOk 0 false, []) := by
  unfold invalidate; rw [hl]

/-- **Compute** (its critical section): WriteOp, InvalidateOp, CancelOp, and a panicking or invalid answer -/
theorem computeStep_refines (c : Cfg) (s : Spec.State) (t : Tbl) (k : Nat) (act : Spec.Act) (hs : s.m = absT t)
    (hnow : -4611686018427387904 < s.now ∧ s.now < 4611686018427387904)
    (hwf : ∀ o, lookup t k = some o → NodeOk k o) (hk1 : KindOk c.expiry) (hk2 : KindOk c.refresh) :
    absT (computeStep (cfgOf c) t k act s.now).1 = (Spec.computeStep c s k act).1.m ∧
    (computeStep (cfgOf c) t k act s.now).2.1 = (Spec.computeStep c s k act).2.1 ∧
    (computeStep (cfgOf c) t k act s.now).2.2 = (Spec.computeStep c s k act).2.2 := by
  have hinv := invalidate_refines s t k hs (fun o ho => (hwf o ho).1)
  have hlive := live_abs s t k hs
  have hphys := phys_abs s t k hs
  have hrm1 : (Spec.invalidate s k).1 = (Spec.remove (s.clearInflight k) k .invalidation).1 := rfl
  have hrm2 : (Spec.invalidate s k).2.2 = (Spec.remove (s.clearInflight k) k .invalidation).2 := rfl
  rw [hrm1, hrm2] at hinv
  cases act with
  | panic => exact ⟨hs.symm, rfl, rfl⟩
  | bad => exact ⟨hs.symm, rfl, rfl⟩
  | write v =>
    have hw := write_refines c s t k v hs hnow hwf hk1 hk2
    exact ⟨hw.1, rfl, hw.2⟩
  | invalidate =>
    cases hl : lookup t k with
    | none =>
      rw [invalidate_none _ _ _ hl] at hinv
      have himpl : computeStep (cfgOf c) t k .invalidate s.now = (t, Out.valOk 0 false, []) := by
        unfold computeStep; rw [hl]
      rw [himpl]
      exact ⟨hinv.1, rfl, hinv.2.2⟩
    | some o =>
      rw [invalidate_some _ _ _ o hl] at hinv
      have himpl : computeStep (cfgOf c) t k .invalidate s.now = (unlink t k, Out.valOk 0 false,
          [{ key := o.key, val := o.val, cause := getCause o s.now .invalidation }]) := by
        unfold computeStep; rw [hl]
      rw [himpl]
      exact ⟨hinv.1, rfl, hinv.2.2⟩
  | cancel =>
    cases hl : lookup t k with
    | none =>
      rw [hl] at hlive hphys
      simp only [Option.map_none, Option.filter_none] at hlive hphys
      have himpl : computeStep (cfgOf c) t k .cancel s.now = (t, Out.valOk 0 false, []) := by
        unfold computeStep; rw [hl]
      have hspec : Spec.computeStep c s k .cancel = (s, Out.valOk 0 false, []) := by
        unfold Spec.computeStep; simp only [hlive, hphys]
      rw [himpl, hspec]
      exact ⟨hs.symm, rfl, rfl⟩
    | some o =>
      rw [hl] at hlive hphys
      rw [invalidate_some _ _ _ o hl] at hinv
      have hvis := visible_iff_live o s.now
      simp only [Option.map_some] at hlive hphys
      cases hx : hasExpired o s.now
      · have hlv : (absN o).liveAt s.now = true := by rw [← hvis, hx]; rfl
        have himpl : computeStep (cfgOf c) t k .cancel s.now = (t, Out.valOk o.val true, []) := by
          unfold computeStep; rw [hl]; simp [hx]
        have hspec : Spec.computeStep c s k .cancel = (s, Out.valOk (absN o).val true, []) := by
          unfold Spec.computeStep; simp only [hlive, Option.filter, hlv, ↓reduceIte]
        rw [himpl, hspec]
        exact ⟨hs.symm, rfl, rfl⟩
      · have hlv : (absN o).liveAt s.now = false := by rw [← hvis, hx]; rfl
        have himpl : computeStep (cfgOf c) t k .cancel s.now = (unlink t k, Out.valOk 0 false,
            [{ key := o.key, val := o.val, cause := getCause o s.now .invalidation }]) := by
          unfold computeStep; rw [hl]; simp [hx]
        have hspec : Spec.computeStep c s k .cancel = ((Spec.remove (s.clearInflight k) k .invalidation).1, Out.valOk 0 false,
            (Spec.remove (s.clearInflight k) k .invalidation).2) := by
          unfold Spec.computeStep; simp only [hlive, Option.filter, hlv, hphys, ↓reduceIte, Bool.false_eq_true]
        rw [himpl, hspec]
        exact ⟨hinv.1, rfl, hinv.2.2⟩

/-! ### completion of a load (afterDeleteCall) -/

theorem ref_refines_reload (c : Cfg) (k v : Nat) (n : TNode) (o : TNode) (now : Int)
    (hnow : -4611686018427387904 < now ∧ now < 4611686018427387904)
    (hn : n.key = k ∧ n.ref = (newNode (cfgOf c) k v (some o)).ref)
    (hprev : -4611686018427387904 ≤ o.ref ∧ o.ref ≤ maxI64) (hk : KindOk c.refresh) :
    (calcRefreshableAt (cfgOf c) n (some o) .reload now).ref = Spec.refAfterWrite c now k (some (absN o)) .reload := by
  obtain ⟨e, he⟩ : ∃ e, c.refresh = e := ⟨_, rfl⟩
  obtain ⟨nk, nv, nw, ne, nr⟩ := n
  obtain ⟨h1, h2⟩ := hn
  simp only at h1 h2
  subst h1
  subst h2
  unfold calcRefreshableAt Spec.refAfterWrite
  simp only [newNode, cfgOf, Cfg.withRefresh]
  rw [he] at hk
  simp only [he]
  obtain ⟨hlow, hmax⟩ := hprev
  cases e with
  | none => simp
  | creating d => simp [absN]
  | writing d | accessing d =>
    have hd : 0 < d := hk
    have := step_eq o.ref now d hnow hmax hlow
    simp only [hd, ↓reduceIte, true_and, ite_not] at this
    simp [apply_ite TNode.ref, hd, this]
  | custom =>
    have := step_eq o.ref now (c.refReload.get nk) hnow hmax hlow
    simp [apply_ite TNode.ref, this, absN]

/-- the node a load's installation builds (atomicSet with the call in hand) -/
theorem atomicSet_entry_call (c : Cfg) (s : Spec.State) (t : Tbl) (k v : Nat) (isRefresh : Bool) (hs : s.m = absT t)
    (hnow : -4611686018427387904 < s.now ∧ s.now < 4611686018427387904)
    (hwf : ∀ o, lookup t k = some o → NodeOk k o) (hk1 : KindOk c.expiry) (hk2 : KindOk c.refresh) :
    absN (atomicSet (cfgOf c) k v (lookup t k) s.now (if isRefresh then .reload else .plain)).1 =
      { val := v, weight := c.weigh k v, exp := Spec.expAfterWrite c s.now k (s.live k),
        ref := Spec.refAfterWrite c s.now k (s.live k)
          (if isRefresh && (s.live k).isSome then Spec.WriteKind.reload else Spec.WriteKind.normal) } := by
  cases isRefresh with
  | false => simpa using atomicSet_entry c s t k v hs hnow hwf hk1 hk2
  | true =>
    have hplain := atomicSet_entry c s t k v hs hnow hwf hk1 hk2
    have hvl := visiblePrev_live s t k hs
    cases hp : visiblePrev (lookup t k) s.now with
    | none =>
      -- no visible predecessor: calcRefreshableAt asks RefreshAfterCreate whatever the call is
      rw [hp] at hvl
      have hl : s.live k = none := by simpa using hvl.symm
      have hsame : atomicSet (cfgOf c) k v (lookup t k) s.now .reload = atomicSet (cfgOf c) k v (lookup t k) s.now .plain := by
        unfold atomicSet
        simp only [hp]
        rfl
      simp only [↓reduceIte, hl, Option.isSome_none, Bool.and_false, Bool.false_eq_true]
      rw [hsame]
      simpa [hl] using hplain
    | some o =>
      rw [hp] at hvl
      have hl : s.live k = some (absN o) := by simpa using hvl.symm
      have ho : ∃ o', lookup t k = some o' ∧ o' = o := by
        unfold visiblePrev at hp
        cases hl2 : lookup t k with
        | none => rw [hl2] at hp; cases hp
        | some o' =>
          rw [hl2] at hp
          by_cases hx : hasExpired o' s.now = true
          · simp [hx] at hp
          · simp only [hx, Bool.false_eq_true, ↓reduceIte, Option.some.injEq] at hp
            exact ⟨o', rfl, hp⟩
      obtain ⟨o', hlo, hoo⟩ := ho
      subst hoo
      have hok := hwf o' hlo
      have hvis : s.now < o'.exp := by
        unfold visiblePrev at hp; rw [hlo] at hp
        by_cases hx : hasExpired o' s.now = true
        · simp [hx] at hp
        · unfold hasExpired at hx; simp at hx; exact hx
      have hE := exp_refines c k v (some o') s.now hnow (by intro x hx; cases hx; exact ⟨hvis, hok.2.1⟩) hk1
      have hR := ref_refines_reload c k v (calcExpiresAtAfterWrite (cfgOf c) (newNode (cfgOf c) k v (some o')) (some o') s.now)
        o' s.now hnow ⟨(calcExp_fields _ _ _ _).1, (calcExp_fields _ _ _ _).2.2.2⟩ ⟨hok.2.2.1, hok.2.2.2⟩ hk2
      have hunf : (atomicSet (cfgOf c) k v (lookup t k) s.now .reload).1 =
          calcRefreshableAt (cfgOf c) (calcExpiresAtAfterWrite (cfgOf c) (newNode (cfgOf c) k v (some o')) (some o') s.now) (some o') .reload s.now := by
        unfold atomicSet
        simp only [hp]
      simp only [↓reduceIte, hl, Option.isSome_some, Bool.and_self]
      rw [hunf]
      unfold absN
      rw [(calcRef_fields _ _ _ _ _).2.1, (calcRef_fields _ _ _ _ _).2.2.1, (calcRef_fields _ _ _ _ _).2.2.2,
        (calcExp_fields _ _ _ _).2.1, (calcExp_fields _ _ _ _).2.2.1, hE, hR]
      rfl

/-- the failed-refresh branch of finishCall is calcRefreshableAt on the node itself -/
theorem failure_is_calcRefreshableAt (c : TCfg) (x : TNode) (now : Int) :
    calcRefreshableAt c x (some x) .failure now =
      (if c.withRef && (decide (c.refFail x.key x.val (durationTo x.ref now) > 0) && durationTo x.ref now != c.refFail x.key x.val (durationTo x.ref now))
       then { x with ref := deadlineAfter now (c.refFail x.key x.val (durationTo x.ref now)) } else x) := by
  unfold calcRefreshableAt
  cases c.withRef <;> simp

theorem find_put_other (m : List (Nat × Entry)) (k j : Nat) (e : Entry) (h : j ≠ k) :
    Spec.find (Spec.put m k e) j = Spec.find m j := by
  unfold Spec.find Spec.put Spec.erase
  have hkj : (k == j) = false := by simp [Ne.symm h]
  simp only [List.find?_cons, hkj]
  congr 1
  induction m with
  | nil => rfl
  | cons p rest ih =>
    simp only [List.filter_cons, List.find?_cons]
    by_cases hp : p.1 = k
    · have h1 : (p.1 != k) = false := by simp [hp]
      have h2 : (p.1 == j) = false := by simp [hp, Ne.symm h]
      simp only [h1, h2, Bool.false_eq_true, ↓reduceIte]
      exact ih
    · have h1 : (p.1 != k) = true := by simp [hp]
      simp only [h1, ↓reduceIte, List.find?_cons]
      cases (p.1 == j) <;> simp [ih]

/-- two association lists denote the same map -/
def MapEq (a b : List (Nat × Entry)) : Prop := ∀ j, Spec.find a j = Spec.find b j

theorem MapEq.of_eq {a b : List (Nat × Entry)} (h : a = b) : MapEq a b := fun _ => by rw [h]

/-- **completion of a load**: installation only by a correct call and with the reload calculators for a refresh, removal
    on not-found, the refresh deadline of a failed refresh — table (as a map) and events are the spec's `finishCall` -/
theorem finishCall_refines (c : Cfg) (s : Spec.State) (t : Tbl) (k cid : Nat) (isRefresh fake : Bool) (hs : s.m = absT t)
    (hnow : -4611686018427387904 < s.now ∧ s.now < 4611686018427387904)
    (hwf : ∀ o, lookup t k = some o → NodeOk k o) (hk1 : KindOk c.expiry) (hk2 : KindOk c.refresh) :
    let correct := fake || s.inflightOf k == some cid
    (∀ v, MapEq (absT (finishCall (cfgOf c) t k correct isRefresh (.ok v) s.now).1) (Spec.finishCall c s k cid isRefresh fake (.ok v)).1.m ∧
          (finishCall (cfgOf c) t k correct isRefresh (.ok v) s.now).2 = (Spec.finishCall c s k cid isRefresh fake (.ok v)).2) ∧
    (∀ v, MapEq (absT (finishCall (cfgOf c) t k correct isRefresh .notFound s.now).1) (Spec.finishCall c s k cid isRefresh fake (.notFound v)).1.m ∧
          (finishCall (cfgOf c) t k correct isRefresh .notFound s.now).2 = (Spec.finishCall c s k cid isRefresh fake (.notFound v)).2) ∧
    (∀ v, MapEq (absT (finishCall (cfgOf c) t k correct isRefresh .err s.now).1) (Spec.finishCall c s k cid isRefresh fake (.err v)).1.m ∧
          (finishCall (cfgOf c) t k correct isRefresh .err s.now).2 = (Spec.finishCall c s k cid isRefresh fake (.err v)).2) := by
  intro correct
  -- the state the spec continues with differs from s only in the in-flight table
  let s2 : Spec.State := if s.inflightOf k == some cid then s.clearInflight k else s
  have hs2m : s2.m = absT t := by show (if _ then _ else _ : Spec.State).m = _; split <;> exact hs
  have hs2n : s2.now = s.now := by show (if _ then _ else _ : Spec.State).now = _; split <;> rfl
  have hnow2 : -4611686018427387904 < s2.now ∧ s2.now < 4611686018427387904 := by rw [hs2n]; exact hnow
  refine ⟨?_, ?_, ?_⟩
  · intro v
    have hspec : Spec.finishCall c s k cid isRefresh fake (.ok v) =
        (if correct then Spec.write c s2 k v (if isRefresh && (s2.live k).isSome then .reload else .normal) else (s2, [])) := rfl
    rw [hspec]
    unfold finishCall
    cases hc : correct with
    | false => simp only [Bool.false_eq_true, ↓reduceIte]; exact ⟨MapEq.of_eq hs2m.symm, by first | rfl | trivial⟩
    | true =>
      simp only [↓reduceIte]
      have hentry := atomicSet_entry_call c s2 t k v isRefresh hs2m hnow2 hwf hk1 hk2
      have hphys := phys_abs s2 t k hs2m
      rw [hs2n] at hentry
      refine ⟨MapEq.of_eq ?_, ?_⟩
      · show absT (store t k (atomicSet (cfgOf c) k v (lookup t k) s.now (if isRefresh then .reload else .plain)).1) = Spec.put s2.m k _
        rw [← put_absT, hentry, hs2m, hs2n]
      · show (atomicSet (cfgOf c) k v (lookup t k) s.now (if isRefresh then .reload else .plain)).2 = _
        unfold Spec.write
        simp only [hphys]
        cases hl : lookup t k with
        | none => simp [atomicSet]
        | some o => simp only [atomicSet, Option.map_some, (hwf o hl).1, cause_eq, hs2n]; rfl
  · intro v
    have hspec : Spec.finishCall c s k cid isRefresh fake (.notFound v) =
        (if correct then Spec.remove s2 k .invalidation else (s2, [])) := rfl
    rw [hspec]
    unfold finishCall
    cases hc : correct with
    | false => simp only [Bool.false_eq_true, ↓reduceIte]; exact ⟨MapEq.of_eq hs2m.symm, by first | rfl | trivial⟩
    | true =>
      simp only [↓reduceIte]
      have hphys := phys_abs s2 t k hs2m
      unfold Spec.remove
      simp only [hphys]
      cases hl : lookup t k with
      | none => simp only [Option.map_none]; exact ⟨MapEq.of_eq hs2m.symm, by first | rfl | trivial⟩
      | some o =>
        simp only [Option.map_some]
        refine ⟨MapEq.of_eq ?_, ?_⟩
        · show absT (unlink t k) = Spec.erase s2.m k
          rw [hs2m, erase_absT]
        · simp only [(hwf o hl).1, cause_eq, hs2n]; rfl
  · intro v
    have hspec : Spec.finishCall c s k cid isRefresh fake (.err v) =
        (if isRefresh then Spec.applyReloadFailure c s2 k else s2, []) := rfl
    rw [hspec]
    unfold finishCall
    have hphys := phys_abs s2 t k hs2m
    cases hl : lookup t k with
    | none =>
      rw [hl] at hphys
      simp only [Option.map_none] at hphys
      refine ⟨?_, by first | rfl | trivial⟩
      cases isRefresh
      · exact MapEq.of_eq hs2m.symm
      · simp only [↓reduceIte, Spec.applyReloadFailure, hphys]; exact MapEq.of_eq hs2m.symm
    | some x =>
      rw [hl] at hphys
      simp only [Option.map_some] at hphys
      obtain ⟨hkey, _, hlow, hmax⟩ := hwf x hl
      cases isRefresh with
      | false => simp only [Bool.false_and, Bool.false_eq_true, ↓reduceIte]; exact ⟨MapEq.of_eq hs2m.symm, by first | rfl | trivial⟩
      | true =>
        simp only [Bool.true_and, ↓reduceIte, Spec.applyReloadFailure, hphys, Spec.refFailDur]
        obtain ⟨e, he⟩ : ∃ e, c.refresh = e := ⟨_, rfl⟩
        simp only [cfgOf, Cfg.withRefresh, he, hkey]
        cases e with
        | none => simp; exact MapEq.of_eq hs2m.symm
        | creating d | writing d | accessing d => simp; exact MapEq.of_eq hs2m.symm
        | custom =>
          simp only [bne_iff_ne, ne_eq, reduceCtorEq, not_false_eq_true, decide_true, ↓reduceIte]
          by_cases hd : c.refFail.get k > 0
          · by_cases hcur : durationTo x.ref s.now = c.refFail.get k
            · -- the calculator answered with the current duration: nothing is stored; the spec re-puts the same entry
              have hkeep := keep_or_set x.ref s.now _ hnow hmax hd hlow hcur
              simp only [hd, decide_true, hcur, bne_self_eq_false, Bool.and_false, Bool.false_eq_true, ↓reduceIte, hs2n]
              refine ⟨?_, by first | rfl | trivial⟩
              intro j
              by_cases hj : j = k
              · subst hj
                rw [find_put, ← hs2m]
                have : s2.phys j = some (absN x) := hphys
                unfold Spec.State.phys at this
                rw [this, ← hkeep]
                rfl
              · rw [find_put_other _ _ _ _ hj, hs2m]
            · have hb : (durationTo x.ref s.now != c.refFail.get k) = true := by simpa using hcur
              simp only [hd, decide_true, hb, Bool.and_self, ↓reduceIte, hs2n]
              refine ⟨MapEq.of_eq ?_, by first | rfl | trivial⟩
              rw [← put_absT, hs2m, deadlineAfter_eq_satAdd]
              rfl
          · have hd' : ¬ (0 < c.refFail.get k) := hd
            simp only [hd, decide_false, Bool.false_and, Bool.false_eq_true, ↓reduceIte]
            exact ⟨MapEq.of_eq hs2m.symm, by first | rfl | trivial⟩

/-! ### explicit deadlines -/

theorem mapEq_put_same (m : List (Nat × Entry)) (k : Nat) (e : Entry) (h : Spec.find m k = some e) :
    MapEq m (Spec.put m k e) := by
  intro j
  by_cases hj : j = k
  · subst hj; rw [find_put, h]
  · rw [find_put_other _ _ _ _ hj]

/-- **SetExpiresAfter** -/
theorem setExpiresAfter_refines (c : Cfg) (s : Spec.State) (t : Tbl) (k : Nat) (d : Int) (hs : s.m = absT t)
    (hnow : -4611686018427387904 < s.now ∧ s.now < 4611686018427387904)
    (hwf : ∀ o, lookup t k = some o → NodeOk k o) :
    MapEq (absT (setExpiresAfter (cfgOf c) t k d s.now)) (Spec.setExpiresAfter c s k d).m := by
  have hlive := live_abs s t k hs
  unfold setExpiresAfter Spec.setExpiresAfter
  simp only [cfgOf]
  by_cases hw : c.withExpiry = true
  · by_cases hd : d > 0
    · have hnd : ¬ d ≤ 0 := by omega
      simp only [hw, Bool.not_true, Bool.false_or, hnd, decide_false, Bool.false_eq_true, ↓reduceIte, Bool.true_and, hd, decide_true]
      cases hl : lookup t k with
      | none =>
        rw [hl] at hlive
        simp only [Option.map_none, Option.filter_none] at hlive
        simp only [hlive]
        exact MapEq.of_eq hs.symm
      | some n =>
        rw [hl] at hlive
        obtain ⟨_, hmax, _, _⟩ := hwf n hl
        have hvis := visible_iff_live n s.now
        simp only [Option.map_some] at hlive
        cases hx : hasExpired n s.now
        · have hlv : (absN n).liveAt s.now = true := by rw [← hvis, hx]; rfl
          have hlt : s.now < n.exp := by unfold hasExpired at hx; simp at hx; exact hx
          simp only [hlive, Option.filter, hlv, hx, ↓reduceIte, Bool.false_eq_true]
          by_cases hc : d = durationTo n.exp s.now
          · have hkeep := keep_or_set n.exp s.now d hnow hmax hd (by omega) hc.symm
            have hb : (d != durationTo n.exp s.now) = false := by rw [← hc]; simp
            simp only [hb, Bool.false_eq_true, ↓reduceIte]
            have hf : Spec.find s.m k = some (absN n) := by rw [hs, find_absT, hl]; rfl
            have : ({ absN n with exp := satAdd s.now d } : Entry) = absN n := by
              rw [← hkeep]; rfl
            rw [this, ← hs]
            exact mapEq_put_same s.m k (absN n) hf
          · have hb : (d != durationTo n.exp s.now) = true := by simpa using hc
            simp only [hb, ↓reduceIte]
            apply MapEq.of_eq
            rw [← put_absT, hs, deadlineAfter_eq_satAdd]
            rfl
        · have hlv : (absN n).liveAt s.now = false := by rw [← hvis, hx]; rfl
          simp only [hlive, Option.filter, hlv, hx, ↓reduceIte, Bool.false_eq_true]
          exact MapEq.of_eq hs.symm
    · have hle : d ≤ 0 := by omega
      simp only [hw, hle, decide_true, Bool.or_true, ↓reduceIte, hd, decide_false, Bool.and_false, Bool.false_eq_true]
      exact MapEq.of_eq hs.symm
  · have hw' : c.withExpiry = false := by simpa using hw
    simp only [hw', Bool.not_false, Bool.true_or, ↓reduceIte, Bool.false_and, Bool.false_eq_true]
    exact MapEq.of_eq hs.symm

/-- **SetRefreshableAfter** (the entry physically present: an expired-but-unswept entry is updated too, on both sides) -/
theorem setRefreshableAfter_refines (c : Cfg) (s : Spec.State) (t : Tbl) (k : Nat) (d : Int) (hs : s.m = absT t)
    (hnow : -4611686018427387904 < s.now ∧ s.now < 4611686018427387904)
    (hwf : ∀ o, lookup t k = some o → NodeOk k o) :
    MapEq (absT (setRefreshableAfter (cfgOf c) t k d s.now)) (Spec.setRefreshableAfter c s k d).m := by
  have hphys := phys_abs s t k hs
  unfold setRefreshableAfter Spec.setRefreshableAfter
  simp only [cfgOf]
  by_cases hw : c.withRefresh = true
  · by_cases hd : d > 0
    · have hnd : ¬ d ≤ 0 := by omega
      simp only [hw, Bool.not_true, Bool.false_or, hnd, decide_false, Bool.false_eq_true, ↓reduceIte, Bool.true_and, hd, decide_true]
      cases hl : lookup t k with
      | none =>
        rw [hl] at hphys
        simp only [Option.map_none] at hphys
        simp only [hphys]
        exact MapEq.of_eq hs.symm
      | some n =>
        rw [hl] at hphys
        obtain ⟨_, _, hlow, hmax⟩ := hwf n hl
        simp only [Option.map_some] at hphys
        simp only [hphys]
        by_cases hc : durationTo n.ref s.now = d
        · have hkeep := keep_or_set n.ref s.now d hnow hmax hd hlow hc
          simp only [hc, bne_self_eq_false, Bool.false_eq_true, ↓reduceIte]
          have hf : Spec.find s.m k = some (absN n) := by rw [hs, find_absT, hl]; rfl
          have : ({ absN n with ref := satAdd s.now d } : Entry) = absN n := by
            rw [← hkeep]; rfl
          rw [this, ← hs]
          exact mapEq_put_same s.m k (absN n) hf
        · have hb : (durationTo n.ref s.now != d) = true := by simpa using hc
          simp only [hb, ↓reduceIte]
          apply MapEq.of_eq
          rw [← put_absT, hs, deadlineAfter_eq_satAdd]
          rfl
    · have hle : d ≤ 0 := by omega
      simp only [hw, hle, decide_true, Bool.or_true, ↓reduceIte, hd, decide_false, Bool.and_false, Bool.false_eq_true]
      exact MapEq.of_eq hs.symm
  · have hw' : c.withRefresh = false := by simpa using hw
    simp only [hw', Bool.not_false, Bool.true_or, ↓reduceIte, Bool.false_and, Bool.false_eq_true]
    exact MapEq.of_eq hs.symm

/-! ### statistics of a lookup (C20) -/

theorem lookupIsHit_live (s : Spec.State) (t : Tbl) (k : Nat) (hs : s.m = absT t) :
    lookupIsHit t k s.now = (s.live k).isSome := by
  rw [live_abs s t k hs]
  unfold lookupIsHit
  cases lookup t k with
  | none => rfl
  | some n =>
    have := visible_iff_live n s.now
    simp only [Option.map_some, Option.filter]
    cases hx : hasExpired n s.now <;> simp [hx] at this ⊢ <;> simp [this]

/-- GetIfPresent counts exactly one lookup: a hit iff the code's test (found and not expired) holds -/
theorem getIfPresent_stats (c : Cfg) (s : Spec.State) (t : Tbl) (k : Nat) (hs : s.m = absT t) :
    (Spec.getIfPresent c s k).1.stats.hits = s.stats.hits + (if lookupIsHit t k s.now then 1 else 0) ∧
    (Spec.getIfPresent c s k).1.stats.misses = s.stats.misses + (if lookupIsHit t k s.now then 0 else 1) := by
  rw [lookupIsHit_live s t k hs]
  unfold Spec.getIfPresent Spec.lookup
  cases hl : s.live k with
  | none => simp [Spec.miss]
  | some e =>
    simp only [Spec.touch, Spec.hit, ↓reduceIte, Option.isSome_some]
    constructor <;> (split <;> rename_i heq <;> simp only [Prod.mk.injEq] at heq <;> obtain ⟨h1, _⟩ := heq <;> subst h1 <;> rfl)

/-- Compute counts exactly one lookup, by the same test, unless its function panics or answers with an invalid op -/
theorem compute_stats (c : Cfg) (s : Spec.State) (t : Tbl) (k : Nat) (onFound onAbsent : Spec.Act) (hs : s.m = absT t)
    (hf : onFound ≠ .panic ∧ onFound ≠ .bad) (ha : onAbsent ≠ .panic ∧ onAbsent ≠ .bad) :
    (Spec.compute c s k onFound onAbsent).1.stats.hits = s.stats.hits + (if lookupIsHit t k s.now then 1 else 0) ∧
    (Spec.compute c s k onFound onAbsent).1.stats.misses = s.stats.misses + (if lookupIsHit t k s.now then 0 else 1) := by
  rw [lookupIsHit_live s t k hs]
  unfold Spec.compute
  cases hl : s.live k with
  | none =>
    simp only [Option.isSome_none, Bool.false_eq_true, ↓reduceIte]
    cases onAbsent <;> simp_all [Spec.computeStep, Spec.miss, Spec.write, Spec.remove, Spec.State.clearInflight, Spec.State.live, Spec.State.phys] <;>
      (repeat' split) <;> simp_all
  | some e =>
    simp only [Option.isSome_some, ↓reduceIte]
    cases onFound <;> simp_all [Spec.computeStep, Spec.hit, Spec.write, Spec.remove, Spec.State.clearInflight, Spec.State.live, Spec.State.phys] <;>
      (repeat' split) <;> simp_all

end OtterVerif.Proofs.TableRefine
