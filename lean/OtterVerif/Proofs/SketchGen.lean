/-
  Proofs.SketchGen — the frequency-sketch model (Impl.Sketch) against the REGENERATED computations of sketch.go
  (Gen.SketchSites: every index, shift, mask, comparison and counter update of ensureCapacity / frequency / increment /
  incrementAt / reset).  Each model function is shown to be its control structure over the generated definitions, for all
  sketches and hashes; so the never-under-count theorem (Proofs.SketchCount), which is about Impl.Sketch, is about the
  arithmetic the code has now.
-/
import OtterVerif.Impl.Sketch
import OtterVerif.Gen.SketchSites

namespace OtterVerif.Proofs.SketchGen
open OtterVerif OtterVerif.Impl.Sketch OtterVerif.Gen.SketchSites

/-- the four (slot, nibble) positions `increment` bumps -/
theorem increment_positions (s : Sketch) (bh : BitVec 64) :
    counterPosUnrolled s bh =
      let ch := sketch_increment_a1 bh
      let block := sketch_increment_a2 bh s.blockMask
      let h0 := sketch_increment_a3 ch
      let h1 := sketch_increment_a4 ch
      let h2 := sketch_increment_a5 ch
      let h3 := sketch_increment_a6 ch
      [(sketch_increment_a11 block h0, sketch_increment_a7 h0), (sketch_increment_a12 block h1, sketch_increment_a8 h1),
       (sketch_increment_a13 block h2, sketch_increment_a9 h2), (sketch_increment_a14 block h3, sketch_increment_a10 h3)] := rfl

/-- the position `frequency` reads in round i (i < 4; the loop bound is `sketch_frequency_c1`) -/
theorem frequency_position (s : Sketch) (bh : BitVec 64) (i : Nat) (hi : i < 4) :
    counterPos s bh i =
      let ch := sketch_frequency_a2 bh
      let block := sketch_frequency_a3 bh s.blockMask
      let h := sketch_frequency_a5 ch (BitVec.ofNat 64 i)
      (sketch_frequency_a8 block (BitVec.ofNat 64 i) (sketch_frequency_a7 h), sketch_frequency_a6 h) := by
  have : i = 0 ∨ i = 1 ∨ i = 2 ∨ i = 3 := by omega
  rcases this with h | h | h | h <;> subst h <;> rfl

theorem frequency_loop (i : Nat) (hi : i < 2 ^ 64) : sketch_frequency_c1 (BitVec.ofNat 64 i) = decide (i < 4) := by
  unfold sketch_frequency_c1
  simp [BitVec.ult, Nat.mod_eq_of_lt hi]

/-- reading one 4-bit counter, and the running minimum that starts from all ones -/
theorem frequency_read (s : Sketch) (slot index f : BitVec 64) :
    readCount s slot index = sketch_frequency_a9 index (s.table.getD slot.toNat 0) ∧
    sketch_frequency_a10 (readCount s slot index) f = Bv.umin f (readCount s slot index) ∧
    sketch_frequency_a0 = BitVec.allOnes 64 ∧ sketch_frequency_r0 = 0#64 :=
  ⟨rfl, rfl, by decide, rfl⟩

/-- incrementAt: saturation test and the added unit -/
theorem incrementAt_gen (s : Sketch) (i j : BitVec 64) :
    incrementAt s i j =
      let offset := sketch_incrementAt_a0 j
      let mask := sketch_incrementAt_a1 offset
      let w := s.table.getD i.toNat 0
      if sketch_incrementAt_c0 mask w then
        ({ s with table := s.table.setIfInBounds i.toNat (sketch_incrementAt_u0 offset w) }, sketch_incrementAt_r0)
      else (s, sketch_incrementAt_r1) := rfl

/-- reset: every word is halved nibble-wise, the odd counters are counted, the sample size is halved accordingly -/
theorem reset_gen (w count size : BitVec 64) :
    sketch_reset_a2 w = (w >>> 1) &&& Gen.SketchMix.resetMask ∧
    sketch_reset_u1 count w = count + Bv.onesCount64 (w &&& Gen.SketchMix.oneMask) ∧
    sketch_reset_a3 count size = (size - (count >>> 2)) >>> 1 :=
  ⟨rfl, rfl, rfl⟩

/-- increment: the aging step runs exactly when the sample is full; size counts the calls that added to a counter -/
theorem increment_gen (size sample : BitVec 64) (a b : Bool) :
    sketch_increment_c2 sample size = (size == sample) ∧ sketch_increment_u0 size = size + 1 ∧
    sketch_increment_a16 a b = (b || a) ∧ sketch_increment_a17 a b = (b || a) ∧ sketch_increment_a18 a b = (b || a) :=
  ⟨rfl, rfl, rfl, rfl, rfl⟩

/-- ensureCapacity from the generated pieces -/
theorem ensureCapacity_gen (s : Sketch) (maximumSize : BitVec 64) :
    ensureCapacity s maximumSize =
      if sketch_ensureCapacity_c0 (BitVec.ofNat 64 s.table.size) maximumSize then (s, false)
      else
        let newSize := sketch_ensureCapacity_a0 maximumSize
        let newSize := if sketch_ensureCapacity_c2 newSize then sketch_ensureCapacity_a1 else newSize
        let sampleSize := if sketch_ensureCapacity_c3 maximumSize then sketch_ensureCapacity_a4 maximumSize else sketch_ensureCapacity_a3
        ({ table := Array.replicate newSize.toNat 0, sampleSize := sampleSize,
           blockMask := sketch_ensureCapacity_a5 newSize, size := sketch_ensureCapacity_a6, initialized := true }, true) := rfl

end OtterVerif.Proofs.SketchGen
