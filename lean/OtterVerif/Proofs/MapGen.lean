/-
  Proofs.MapGen — the parallel table copy of hashmap.Map.resize covers every source bucket exactly once.

  Gen.MapSites is regenerated from internal/hashmap/map.go on every run; it contains the number of copy goroutines
  (`chunks := max(min(tableLen/64, GOMAXPROCS), 1)`), the chunk size, and the bounds handed to each goroutine
  (`c*chunkSize`, `min((c+1)*chunkSize, tableLen)`).  The theorem below is about THOSE definitions: for every table
  length and every processor count — in particular processor counts that do not divide the table length — every bucket
  index below tableLen lies in the range of exactly one goroutine.  (Rounding the chunk size down instead of up loses the
  last tableLen mod chunks buckets whenever chunks does not divide tableLen: four independent sub-agents seeded exactly
  that change; with it `chunk_cover` fails and no proof of the statement exists.)
-/
import OtterVerif.Gen.MapSites

namespace OtterVerif.Proofs.MapGen
open OtterVerif

/-! ### arithmetic on naturals -/

theorem ceil_mul_ge (n k : Nat) (hk : 0 < k) : n ≤ k * ((n + k - 1) / k) := by
  have h1 := Nat.div_add_mod (n + k - 1) k
  have h2 := Nat.mod_lt (n + k - 1) hk
  omega

/-- with the chunk size rounded UP, the ranges [c*s, min((c+1)*s, n)) for c < k cover [0, n) -/
theorem chunk_cover (n k : Nat) (hk : 0 < k) (hkn : k ≤ n) (i : Nat) (hi : i < n) :
    ∃ c, c < k ∧ c * ((n + k - 1) / k) ≤ i ∧ i < min ((c + 1) * ((n + k - 1) / k)) n := by
  have hs : 0 < (n + k - 1) / k := Nat.div_pos (by omega) hk
  refine ⟨i / ((n + k - 1) / k), ?_, Nat.div_mul_le_self i _, ?_⟩
  · have hge := ceil_mul_ge n k hk
    apply (Nat.div_lt_iff_lt_mul hs).2
    omega
  · have h := Nat.lt_mul_div_succ i hs
    rw [Nat.mul_comm] at h
    omega

/-- the ranges are disjoint: a later goroutine starts where the previous one ended or after -/
theorem chunk_disjoint (n s c d : Nat) (h : c < d) : min ((c + 1) * s) n ≤ d * s := by
  have : (c + 1) * s ≤ d * s := Nat.mul_le_mul_right s h
  omega

/-! ### the generated definitions compute exactly that -/

private theorem nonneg_of_lt (x : BitVec 64) (h : x.toNat < 2 ^ 63) : x.msb = false := by
  rw [BitVec.msb_eq_decide]; simp; omega

theorem sdiv_nonneg (x y : BitVec 64) (hx : x.toNat < 2 ^ 63) (hy : y.toNat < 2 ^ 63) :
    (BitVec.sdiv x y).toNat = x.toNat / y.toNat := by
  rw [BitVec.sdiv_eq, nonneg_of_lt x hx, nonneg_of_lt y hy]
  simp [BitVec.toNat_udiv]

theorem slt_nonneg (x y : BitVec 64) (hx : x.toNat < 2 ^ 63) (hy : y.toNat < 2 ^ 63) :
    BitVec.slt x y = decide (x.toNat < y.toNat) := by
  rw [BitVec.slt_eq_decide, BitVec.toInt_eq_toNat_cond, BitVec.toInt_eq_toNat_cond]
  have e1 : (2 * x.toNat < 2 ^ 64) := by omega
  have e2 : (2 * y.toNat < 2 ^ 64) := by omega
  simp only [e1, e2, ↓reduceIte]
  congr 1
  apply propext
  constructor <;> intro h <;> omega

/-- chunkSize := (tableLen + chunks - 1) / chunks, on naturals -/
theorem chunkSize_eq (chunks tableLen : BitVec 64) (hc : 0 < chunks.toNat) (hcb : chunks.toNat < 2 ^ 31) (hn : tableLen.toNat < 2 ^ 62) :
    (Gen.MapSites.Map_resize_a10 chunks tableLen).toNat = (tableLen.toNat + chunks.toNat - 1) / chunks.toNat := by
  unfold Gen.MapSites.Map_resize_a10
  have h1 : ((tableLen + chunks) - 1#64).toNat = tableLen.toNat + chunks.toNat - 1 := by
    rw [BitVec.toNat_sub, BitVec.toNat_add]
    have : (1#64).toNat = 1 := by decide
    rw [this, Nat.mod_eq_of_lt (by omega : tableLen.toNat + chunks.toNat < 2 ^ 64)]
    have : 2 ^ 64 - 1 + (tableLen.toNat + chunks.toNat) = (tableLen.toNat + chunks.toNat - 1) + 2 ^ 64 := by omega
    rw [this, Nat.add_mod_right, Nat.mod_eq_of_lt (by omega)]
  rw [sdiv_nonneg _ _ (by rw [h1]; omega) (by omega), h1]

/-- the bounds handed to copy goroutine `c` -/
theorem range_eq (c cs n : BitVec 64) (hc : c.toNat < 2 ^ 31) (hcs : cs.toNat < 2 ^ 31) (hn : n.toNat < 2 ^ 62) :
    (Gen.MapSites.Map_resize_g0_0 c cs).toNat = c.toNat * cs.toNat ∧
    (Gen.MapSites.Map_resize_g0_1 c cs n).toNat = min ((c.toNat + 1) * cs.toNat) n.toNat := by
  unfold Gen.MapSites.Map_resize_g0_0 Gen.MapSites.Map_resize_g0_1 Bv.smin
  have hm1 : c.toNat * cs.toNat < 2 ^ 62 := by
    calc c.toNat * cs.toNat < 2 ^ 31 * 2 ^ 31 := Nat.mul_lt_mul'' hc hcs
      _ = 2 ^ 62 := by decide
  have hm2 : (c.toNat + 1) * cs.toNat ≤ 2 ^ 31 * 2 ^ 31 := Nat.mul_le_mul (by omega) (by omega)
  have e62 : (2 : Nat) ^ 31 * 2 ^ 31 = 2 ^ 62 := by decide
  have h1 : (c * cs).toNat = c.toNat * cs.toNat := by
    rw [BitVec.toNat_mul, Nat.mod_eq_of_lt (by omega)]
  have h2 : ((c + 1#64) * cs).toNat = (c.toNat + 1) * cs.toNat := by
    rw [BitVec.toNat_mul, BitVec.toNat_add]
    have : (1#64).toNat = 1 := by decide
    rw [this, Nat.mod_eq_of_lt (by omega : c.toNat + 1 < 2 ^ 64), Nat.mod_eq_of_lt (by omega)]
  refine ⟨h1, ?_⟩
  rw [slt_nonneg _ _ (by omega) (by rw [h2]; omega)]
  by_cases hlt : n.toNat < ((c + 1#64) * cs).toNat
  · simp only [hlt, decide_true, ↓reduceIte]; rw [h2] at hlt; omega
  · simp only [hlt, decide_false, Bool.false_eq_true, ↓reduceIte]; rw [h2] at hlt ⊢; omega

/-- chunks := max(min(tableLen/64, GOMAXPROCS), 1) is between 1 and tableLen/64 (so at most tableLen) once the parallel
    path is taken (tableLen ≥ 128) -/
theorem chunks_bounds (procs tableLen : BitVec 64) (hp : procs.toNat < 2 ^ 31) (hn : tableLen.toNat < 2 ^ 62)
    (hpar : 128 ≤ tableLen.toNat) (chunks : BitVec 64)
    (hch : chunks = Gen.MapSites.Map_resize_a9 (Gen.MapSites.Map_resize_a8 procs tableLen)) :
    0 < chunks.toNat ∧ chunks.toNat ≤ tableLen.toNat ∧ chunks.toNat < 2 ^ 31 := by
  have hdiv : (BitVec.sdiv tableLen 64#64).toNat = tableLen.toNat / 64 :=
    sdiv_nonneg tableLen 64#64 (by omega) (by decide)
  have h8 : (Gen.MapSites.Map_resize_a8 procs tableLen).toNat = min (tableLen.toNat / 64) procs.toNat := by
    unfold Gen.MapSites.Map_resize_a8 Bv.smin
    rw [slt_nonneg _ _ (by omega) (by rw [hdiv]; omega)]
    by_cases hlt : procs.toNat < (BitVec.sdiv tableLen 64#64).toNat
    · simp only [hlt, decide_true, ↓reduceIte]; rw [hdiv] at hlt; omega
    · simp only [hlt, decide_false, Bool.false_eq_true, ↓reduceIte]; rw [hdiv] at hlt ⊢; omega
  have h9 : chunks.toNat = max (min (tableLen.toNat / 64) procs.toNat) 1 := by
    rw [hch]
    unfold Gen.MapSites.Map_resize_a9 Bv.smax
    have h1 : (1#64).toNat = 1 := by decide
    rw [slt_nonneg _ _ (by rw [h8]; omega) (by decide), h1]
    by_cases hlt : (Gen.MapSites.Map_resize_a8 procs tableLen).toNat < 1
    · simp only [hlt, decide_true, ↓reduceIte]; rw [h8] at hlt; rw [h1]; omega
    · simp only [hlt, decide_false, Bool.false_eq_true, ↓reduceIte]; rw [h8] at hlt ⊢; omega
  have hq : tableLen.toNat / 64 ≤ tableLen.toNat := Nat.div_le_self _ _
  have hq2 : 2 ≤ tableLen.toNat / 64 := by omega
  rw [h9]
  omega

/-- **every source bucket is copied by exactly one goroutine**, for every table length that takes the parallel path and
    every processor count: stated over the regenerated chunk count, chunk size and goroutine bounds -/
theorem parallel_copy_covers (procs tableLen : BitVec 64) (hp : procs.toNat < 2 ^ 31) (hn : tableLen.toNat < 2 ^ 31)
    (hpar : 128 ≤ tableLen.toNat) (i : Nat) (hi : i < tableLen.toNat) (chunks cs : BitVec 64)
    (hch : chunks = Gen.MapSites.Map_resize_a9 (Gen.MapSites.Map_resize_a8 procs tableLen))
    (hcsdef : cs = Gen.MapSites.Map_resize_a10 chunks tableLen) :
    (∃ c : Nat, c < chunks.toNat ∧
      (Gen.MapSites.Map_resize_g0_0 (BitVec.ofNat 64 c) cs).toNat ≤ i ∧
      i < (Gen.MapSites.Map_resize_g0_1 (BitVec.ofNat 64 c) cs tableLen).toNat) ∧
    (∀ c d : Nat, c < d → d < chunks.toNat →
      (Gen.MapSites.Map_resize_g0_1 (BitVec.ofNat 64 c) cs tableLen).toNat ≤ (Gen.MapSites.Map_resize_g0_0 (BitVec.ofNat 64 d) cs).toNat) := by
  obtain ⟨hc0, hcn, hcb⟩ := chunks_bounds procs tableLen hp (by omega) hpar chunks hch
  have hcs : cs.toNat = (tableLen.toNat + chunks.toNat - 1) / chunks.toNat := by
    rw [hcsdef]; exact chunkSize_eq chunks tableLen hc0 hcb (by omega)
  have hcsb : cs.toNat < 2 ^ 31 := by
    rw [hcs]
    have : (tableLen.toNat + chunks.toNat - 1) / chunks.toNat ≤ tableLen.toNat + chunks.toNat - 1 := Nat.div_le_self _ _
    have : (tableLen.toNat + chunks.toNat - 1) / chunks.toNat ≤ tableLen.toNat := by
      apply Nat.div_le_of_le_mul
      obtain ⟨k', hk'⟩ : ∃ k', chunks.toNat = k' + 1 := ⟨chunks.toNat - 1, by omega⟩
      rw [hk', Nat.add_mul, Nat.one_mul]
      have : k' ≤ k' * tableLen.toNat := Nat.le_mul_of_pos_right _ (by omega)
      omega
    omega
  have ofn (c : Nat) (h : c < 2 ^ 31) : (BitVec.ofNat 64 c).toNat = c := by
    rw [BitVec.toNat_ofNat]; exact Nat.mod_eq_of_lt (by omega)
  constructor
  · obtain ⟨c, hck, hlo, hhi⟩ := chunk_cover tableLen.toNat chunks.toNat hc0 hcn i hi
    refine ⟨c, hck, ?_, ?_⟩
    · rw [(range_eq (BitVec.ofNat 64 c) cs tableLen (by rw [ofn c (by omega)]; omega) hcsb (by omega)).1, ofn c (by omega), hcs]
      exact hlo
    · rw [(range_eq (BitVec.ofNat 64 c) cs tableLen (by rw [ofn c (by omega)]; omega) hcsb (by omega)).2, ofn c (by omega), hcs]
      exact hhi
  · intro c d hcd hd
    rw [(range_eq (BitVec.ofNat 64 c) cs tableLen (by rw [ofn c (by omega)]; omega) hcsb (by omega)).2,
        (range_eq (BitVec.ofNat 64 d) cs tableLen (by rw [ofn d (by omega)]; omega) hcsb (by omega)).1,
        ofn c (by omega), ofn d (by omega)]
    exact chunk_disjoint _ _ _ _ hcd

/-! ### one bucket-index formula at all four sites -/

/-- the bucket Get searches, the bucket Compute locks and writes, and the bucket both copy routines put a node into are
    computed by the same formula from the key's hash and the table length; for a table length that is a power of two it is
    `h1(hash) mod len`, hence in range -/
theorem bucket_index_same (len hash : BitVec 64) (k : Nat) (hk : k ≤ 62) (hlen : len.toNat = 2 ^ k) :
    let i := Gen.MapSites.Map_Compute_a6 (Gen.MapSites.Map_Compute_a3 hash) len
    Gen.MapSites.Map_Get_a4 (Gen.MapSites.Map_Get_a2 hash) len = i ∧
    Gen.MapSites.Map_copyBucket_a4 hash len = i ∧ Gen.MapSites.Map_copyBucketWithDestLock_a4 hash len = i ∧
    i.toNat = (Gen.MapSites.h_h1 hash).toNat % 2 ^ k ∧ i.toNat < len.toNat := by
  intro i
  have hp : 0 < 2 ^ k := Nat.pow_pos (by decide)
  have hle : 2 ^ k ≤ 2 ^ 62 := Nat.pow_le_pow_right (by decide) hk
  have hm : (len - 1#64).toNat = 2 ^ k - 1 := by
    rw [BitVec.toNat_sub]
    have h1 : (1#64).toNat = 1 := by decide
    rw [h1, hlen]
    have e : 2 ^ 64 - 1 + 2 ^ k = (2 ^ k - 1) + 2 ^ 64 := by omega
    rw [e, Nat.add_mod_right, Nat.mod_eq_of_lt (by omega)]
  have hi : i.toNat = (Gen.MapSites.h_h1 hash).toNat % 2 ^ k := by
    show ((len - 1#64) &&& Gen.MapSites.h_h1 hash).toNat = _
    rw [BitVec.toNat_and, hm, Nat.and_comm, Nat.and_two_pow_sub_one_eq_mod]
  refine ⟨rfl, rfl, rfl, hi, ?_⟩
  rw [hi, hlen]; exact Nat.mod_lt _ hp

end OtterVerif.Proofs.MapGen
