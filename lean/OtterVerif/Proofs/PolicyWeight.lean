/-
  Proofs.PolicyWeight — the policy's weightedSize counter equals the sum of the weights of the linked nodes (mod 2^64,
  as in Go), in every state reachable by any order of events (Proofs.PolicyLink.Reach).
-/
import OtterVerif.Proofs.PolicyLink

namespace OtterVerif.Impl.Policy

/-- weight of a node as the uint64 the counters use -/
def wt (p : Policy) (id : Nat) : BitVec 64 := w64 (p.node id).weight

def wsum (p : Policy) (l : List Nat) : BitVec 64 := l.foldr (fun id acc => wt p id + acc) 0

@[simp] theorem wsum_nil (p : Policy) : wsum p [] = 0 := rfl
@[simp] theorem wsum_cons (p : Policy) (x : Nat) (l : List Nat) : wsum p (x :: l) = wt p x + wsum p l := rfl

theorem wsum_perm (p : Policy) {l1 l2 : List Nat} (h : l1.Perm l2) : wsum p l1 = wsum p l2 := by
  induction h with
  | nil => rfl
  | cons x _ ih => simp only [wsum_cons, ih]
  | swap x y l =>
    simp only [wsum_cons]
    rw [← BitVec.add_assoc, ← BitVec.add_assoc, BitVec.add_comm (wt p y)]
  | trans _ _ ih1 ih2 => exact ih1.trans ih2

theorem wsum_congr (p p' : Policy) (l : List Nat) (h : ∀ id, id ∈ l → wt p' id = wt p id) : wsum p' l = wsum p l := by
  induction l with
  | nil => rfl
  | cons x xs ih =>
    simp only [wsum_cons]
    rw [h x List.mem_cons_self, ih (fun id hid => h id (List.mem_cons_of_mem _ hid))]

theorem wsum_filter_ne (p : Policy) (l : List Nat) (x : Nat) (hn : l.Nodup) :
    wsum p l = (if x ∈ l then wt p x else 0) + wsum p (l.filter (· != x)) := by
  by_cases hx : x ∈ l
  · simp only [hx, ↓reduceIte]
    rw [← hn.erase_eq_filter]
    exact wsum_perm p (List.perm_cons_erase hx)
  · simp [hx, filter_ne_of_not_mem _ _ hx]

theorem wsum_map_repl (p : Policy) (l : List Nat) (old n : Nat) (hn : l.Nodup) (ho : old ∈ l) :
    wsum p (l.map (repl old n)) + wt p old = wsum p l + wt p n := by
  induction l with
  | nil => cases ho
  | cons x xs ih =>
    have ⟨hx, hxs⟩ := List.nodup_cons.mp hn
    simp only [List.map_cons, wsum_cons]
    by_cases e : x = old
    · subst e
      have : repl x n x = n := by unfold repl; simp
      rw [this, map_repl_of_not_mem _ _ _ hx]
      rw [BitVec.add_comm (wt p n), BitVec.add_assoc, BitVec.add_comm (wt p n), ← BitVec.add_assoc,
        BitVec.add_comm (wsum p xs)]
    · have hr : repl old n x = x := by unfold repl; simp [e]
      have ho' : old ∈ xs := by
        rcases List.mem_cons.mp ho with h | h
        · exact absurd h.symm e
        · exact h
      rw [hr, BitVec.add_assoc, ih hxs ho', BitVec.add_assoc]


/-! ### operations that change neither a node's weight nor the weightedSize counter -/

/-- `Wk p p'`: every node has the weight it had, and weightedSize is unchanged -/
def Wk (p p' : Policy) : Prop := (∀ id, (p'.node id).weight = (p.node id).weight) ∧ p'.weightedSize = p.weightedSize

theorem Wk.refl (p : Policy) : Wk p p := ⟨fun _ => rfl, rfl⟩
theorem Wk.trans {p p' p'' : Policy} (h1 : Wk p p') (h2 : Wk p' p'') : Wk p p'' :=
  ⟨fun id => (h2.1 id).trans (h1.1 id), h2.2.trans h1.2⟩

theorem wt_of_wk {p p' : Policy} (h : Wk p p') (id : Nat) : wt p' id = wt p id := by unfold wt; rw [h.1 id]

theorem ws_setDq (p : Policy) (q : Nat) (l : List Nat) : (setDq p q l).weightedSize = p.weightedSize := by
  unfold setDq; split <;> (try split) <;> rfl

theorem wk_setDq (p : Policy) (q : Nat) (l : List Nat) : Wk p (setDq p q l) :=
  ⟨fun id => by rw [node_setDq], ws_setDq p q l⟩

theorem wk_dqDelete (p : Policy) (q x : Nat) : Wk p (dqDelete p q x) := by
  unfold dqDelete
  cases linkedIn p x with
  | none => exact Wk.refl p
  | some q' => exact wk_setDq p q' _

theorem wk_pushBack (p : Policy) (q x : Nat) : Wk p (dqPushBack p q x) := wk_setDq p q _
theorem wk_pushFront (p : Policy) (q x : Nat) : Wk p (dqPushFront p q x) := wk_setDq p q _

theorem wk_setNode (p : Policy) (n : Node) (h : n.weight = (p.node n.id).weight) : Wk p (p.setNode n) := by
  refine ⟨fun id => ?_, rfl⟩
  by_cases e : id = n.id
  · subst e; rw [node_setNode_self]; exact h
  · rw [node_setNode_other _ _ _ e]

theorem wk_moveToBack (p : Policy) (q x : Nat) : Wk p (dqMoveToBack p q x) := by
  unfold dqMoveToBack; split
  · exact Wk.refl p
  · exact (wk_dqDelete p q x).trans (wk_pushBack _ q x)

theorem wk_moveToFront (p : Policy) (q x : Nat) : Wk p (dqMoveToFront p q x) := by
  unfold dqMoveToFront; split
  · exact Wk.refl p
  · exact (wk_dqDelete p q x).trans (wk_pushFront _ q x)

theorem wk_reorder (p : Policy) (q x : Nat) : Wk p (reorder p q x) := by
  unfold reorder; split
  · exact wk_moveToBack p q x
  · exact Wk.refl p

theorem wk_reorderProbation (p : Policy) (x : Nat) : Wk p (reorderProbation p x) := by
  unfold reorderProbation
  simp only
  split
  · exact Wk.refl p
  · split
    · exact wk_reorder p 1 x
    · have h1 : Wk p { p with mainProtectedWeightedSize := p.mainProtectedWeightedSize + w64 (p.node x).weight } :=
        ⟨fun _ => rfl, rfl⟩
      have h2 := (h1.trans (wk_dqDelete _ 1 x)).trans (wk_pushBack _ 2 x)
      refine h2.trans (wk_setNode _ _ ?_)
      show (p.node x).weight = _
      exact (h2.1 x).symm

theorem wk_access (p : Policy) (x : Nat) : Wk p (access p x) := by
  unfold access
  simp only
  have h0 : Wk p (p.sketchIncr (p.node x).key) := ⟨fun _ => rfl, rfl⟩
  split
  · exact (h0.trans (wk_reorder _ 0 x)).trans ⟨fun _ => rfl, rfl⟩
  · split
    · exact (h0.trans (wk_reorderProbation _ x)).trans ⟨fun _ => rfl, rfl⟩
    · exact (h0.trans (wk_reorder _ 2 x)).trans ⟨fun _ => rfl, rfl⟩

theorem wk_evictFromWindow_go (fuel : Nat) : ∀ (p : Policy) (n first : Option Nat),
    Wk p (evictFromWindow.go p n first fuel).1 := by
  induction fuel with
  | zero => intro p n first; unfold evictFromWindow.go; exact Wk.refl p
  | succ fuel ih =>
    intro p n first
    unfold evictFromWindow.go
    split
    · exact Wk.refl p
    · split
      · exact Wk.refl p
      · rename_i id
        simp only
        split
        · have h1 : Wk p (p.setNode { p.node id with qt := 1 }) := wk_setNode p _ rfl
          have h2 := (h1.trans (wk_dqDelete _ 0 id)).trans (wk_pushBack _ 1 id)
          have h3 : Wk p { dqPushBack (dqDelete (p.setNode { p.node id with qt := 1 }) 0 id) 1 id with
              windowWeightedSize := (dqPushBack (dqDelete (p.setNode { p.node id with qt := 1 }) 0 id) 1 id).windowWeightedSize - w64 (p.node id).weight } :=
            h2.trans ⟨fun _ => rfl, rfl⟩
          exact h3.trans (ih _ _ _)
        · exact ih p _ _

theorem wk_evictFromWindow (p : Policy) : Wk p (evictFromWindow p).1 := by
  unfold evictFromWindow
  exact wk_evictFromWindow_go _ p _ _

theorem wk_determineAdjustment (p : Policy) : Wk p (determineAdjustment p) := by
  unfold determineAdjustment
  split
  · exact ⟨fun _ => rfl, rfl⟩
  · simp only
    split
    · exact Wk.refl p
    · exact ⟨fun _ => rfl, rfl⟩

theorem wk_demote_go (i : Nat) : ∀ (p : Policy) (sz : BitVec 64), Wk p (demoteFromMainProtected.go p sz i).1 := by
  induction i with
  | zero => intro p sz; unfold demoteFromMainProtected.go; exact Wk.refl p
  | succ i ih =>
    intro p sz
    unfold demoteFromMainProtected.go
    split
    · exact Wk.refl p
    · split
      · exact Wk.refl p
      · rename_i d rest heq
        simp only
        have h0 : Wk p { p with prot := rest } := ⟨fun _ => rfl, rfl⟩
        have h1 : Wk p ({ p with prot := rest }.setNode { p.node d with qt := 1 }) := h0.trans (wk_setNode _ _ rfl)
        exact (h1.trans (wk_pushBack _ 1 d)).trans (ih _ _)

theorem wk_demote (p : Policy) : Wk p (demoteFromMainProtected p) := by
  unfold demoteFromMainProtected
  split
  · exact Wk.refl p
  · simp only
    exact (wk_demote_go _ p _).trans ⟨fun _ => rfl, rfl⟩

theorem wk_incMove (p : Policy) (c : Nat) (b : Bool) : Wk p (incMove p c b) := by
  unfold incMove
  simp only
  have key : ∀ (p1 : Policy) (q : Nat), Wk p p1 →
      Wk p ((dqPushBack { dqDelete p1 q c with windowWeightedSize := (dqDelete p1 q c).windowWeightedSize + w64 (p.node c).weight } 0 c).setNode
        { p.node c with qt := 0 }) := by
    intro p1 q h1
    have h2 : Wk p { dqDelete p1 q c with windowWeightedSize := (dqDelete p1 q c).windowWeightedSize + w64 (p.node c).weight } :=
      (h1.trans (wk_dqDelete p1 q c)).trans ⟨fun _ => rfl, rfl⟩
    have h3 := h2.trans (wk_pushBack _ 0 c)
    refine h3.trans (wk_setNode _ _ ?_)
    show (p.node c).weight = _
    exact (h3.1 c).symm
  split
  · exact key p 1 (Wk.refl p)
  · exact key _ 2 ⟨fun _ => rfl, rfl⟩

theorem wk_increase_go (i : Nat) : ∀ (p : Policy) (quota : Int), Wk p (increaseWindow.go p quota i).1 := by
  induction i with
  | zero => intro p q; unfold increaseWindow.go; exact Wk.refl p
  | succ i ih =>
    intro p quota
    unfold increaseWindow.go
    split
    · exact Wk.refl p
    · simp only
      split
      · exact Wk.refl p
      · exact (wk_incMove p _ _).trans (ih _ _)

theorem wk_increaseWindow (p : Policy) : Wk p (increaseWindow p) := by
  unfold increaseWindow
  split
  · exact Wk.refl p
  · simp only
    generalize (if BitVec.ult p.mainProtectedMaximum (iToU64 p.adjustment) then (p.mainProtectedMaximum.toNat : Int) else p.adjustment) = quota
    have h0 : Wk p { p with mainProtectedMaximum := p.mainProtectedMaximum - iToU64 quota, windowMaximum := p.windowMaximum + iToU64 quota } :=
      ⟨fun _ => rfl, rfl⟩
    exact ((h0.trans (wk_demote _)).trans (wk_increase_go 1000 _ quota)).trans ⟨fun _ => rfl, rfl⟩

theorem wk_decMove (p : Policy) (c : Nat) : Wk p (decMove p c) := by
  unfold decMove
  simp only
  have h1 : Wk p { p with windowWeightedSize := p.windowWeightedSize - iToU64 ((p.node c).weight : Int) } := ⟨fun _ => rfl, rfl⟩
  have h2 := (h1.trans (wk_dqDelete _ 0 c)).trans (wk_pushBack _ 1 c)
  refine h2.trans (wk_setNode _ _ ?_)
  show (p.node c).weight = _
  exact (h2.1 c).symm

theorem wk_decrease_go (i : Nat) : ∀ (p : Policy) (quota : Int), Wk p (decreaseWindow.go p quota i).1 := by
  induction i with
  | zero => intro p q; unfold decreaseWindow.go; exact Wk.refl p
  | succ i ih =>
    intro p quota
    unfold decreaseWindow.go
    split
    · exact Wk.refl p
    · simp only
      split
      · exact Wk.refl p
      · exact (wk_decMove p _).trans (ih _ _)

theorem wk_decreaseWindow (p : Policy) : Wk p (decreaseWindow p) := by
  unfold decreaseWindow
  split
  · exact Wk.refl p
  · simp only
    generalize (if BitVec.ult (p.windowMaximum - 1) (iToU64 (-p.adjustment)) then ((p.windowMaximum - 1).toNat : Int) else -p.adjustment) = quota
    have h0 : Wk p { p with mainProtectedMaximum := p.mainProtectedMaximum + iToU64 quota, windowMaximum := p.windowMaximum - iToU64 quota } :=
      ⟨fun _ => rfl, rfl⟩
    exact (h0.trans (wk_decrease_go 1000 _ quota)).trans ⟨fun _ => rfl, rfl⟩

theorem wk_climb (p : Policy) : Wk p (climb p) := by
  unfold climb
  simp only
  have h2 := (wk_determineAdjustment p).trans (wk_demote _)
  split
  · exact h2
  · split
    · exact h2.trans (wk_increaseWindow _)
    · exact h2.trans (wk_decreaseWindow _)

theorem wk_setMaximumSize (p : Policy) (m : BitVec 64) : Wk p (setMaximumSize p m) := by
  unfold setMaximumSize
  split
  · exact Wk.refl p
  · simp only
    split
    · exact ⟨fun _ => rfl, rfl⟩
    · exact ⟨fun _ => rfl, rfl⟩

/-! ### the counter invariant -/

/-- weightedSize is the sum of the weights of the linked nodes -/
def WInv (p : Policy) : Prop := p.weightedSize = wsum p (all p)

theorem winv_mv {p p' : Policy} (hm : Mv p p') (hk : Wk p p') (hw : WInv p) : WInv p' := by
  unfold WInv at *
  rw [hk.2, hw, wsum_congr p p' _ (fun id _ => wt_of_wk hk id)]
  exact (wsum_perm p hm.1).symm


/-! ### removal -/

theorem ws_discount (p : Policy) (x : Nat) : (discount p x).weightedSize = p.weightedSize - wt p x := by
  unfold discount wt; simp only; split <;> (try split) <;> rfl

theorem makeDead_weight (p : Policy) (x id : Nat) : ((makeDead p x).node id).weight = (p.node id).weight := by
  unfold makeDead
  simp only
  have hnode : ∀ y, ((if dqContains p (p.node x).qt x = true then dqDelete (discount p x) (p.node x).qt x else p).node y) = p.node y := by
    intro y
    split
    · rw [node_dqDelete, node_discount]
    · rfl
  generalize (if dqContains p (p.node x).qt x = true then dqDelete (discount p x) (p.node x).qt x else p) = p' at hnode
  split
  · have := (wk_setNode p' { p'.node x with st := .dead } rfl).1 id
    rw [this, hnode]
  · rw [hnode]

theorem makeDead_ws (p : Policy) (x : Nat) :
    (makeDead p x).weightedSize = if x ∈ all p then p.weightedSize - wt p x else p.weightedSize := by
  unfold makeDead
  simp only
  have h1 : (if dqContains p (p.node x).qt x = true then dqDelete (discount p x) (p.node x).qt x else p).weightedSize
      = if x ∈ all p then p.weightedSize - wt p x else p.weightedSize := by
    by_cases hc : dqContains p (p.node x).qt x = true
    · have hx : x ∈ all p := (linked_iff_all p x).mp ((dqContains_iff p _ x).mp hc)
      simp only [hc, hx, ↓reduceIte]
      rw [(wk_dqDelete _ _ _).2, ws_discount]
    · have hx : x ∉ all p := fun hx => hc ((dqContains_iff p _ x).mpr ((linked_iff_all p x).mpr hx))
      simp [hc, hx]
  generalize (if dqContains p (p.node x).qt x = true then dqDelete (discount p x) (p.node x).qt x else p) = p' at h1
  split
  · exact h1
  · exact h1

theorem winv_makeDead {p : Policy} (x : Nat) (hn : (all p).Nodup) (hw : WInv p) : WInv (makeDead p x) := by
  unfold WInv at *
  have hk := kill_makeDead p x hn
  rw [hk.1, makeDead_ws, wsum_congr p (makeDead p x) _ (fun id _ => by unfold wt; rw [makeDead_weight])]
  have := wsum_filter_ne p (all p) x hn
  by_cases hx : x ∈ all p
  · simp only [hx, ↓reduceIte] at this ⊢
    rw [hw, this]
    bv_omega
  · simp only [hx, ↓reduceIte] at this ⊢
    rw [hw, this]
    bv_omega

theorem winv_evictNode {p : Policy} (x : Nat) (hn : (all p).Nodup) (hw : WInv p) : WInv (evictNode p x) :=
  winv_makeDead x hn hw

theorem winv_same {p : Policy} (hw : WInv p) (p' : Policy) (ha : all p' = all p) (hn : ∀ x, p'.node x = p.node x)
    (hs : p'.weightedSize = p.weightedSize) : WInv p' := by
  unfold WInv at *
  rw [hs, hw, ha]
  exact (wsum_congr p p' _ (fun id _ => by unfold wt; rw [hn])).symm

theorem ws_admit (p : Policy) (c v : Nat) : (admit p c v).1.weightedSize = p.weightedSize := by
  unfold admit; simp only; split
  · rfl
  · split
    · split <;> rfl
    · rfl

/-- evictFromMain: only evictions (and jitter draws) -/
theorem WL_evictFromMain_go {S : List Nat} (fuel : Nat) : ∀ (p : Policy) (vq cq : Nat) (v c : Option Nat),
    LInv S p → WInv p → WInv (evictFromMainX.go p vq cq v c fuel).1 := by
  induction fuel with
  | zero => intro p vq cq v c _ hw; unfold evictFromMainX.go; exact hw
  | succ fuel ih =>
    intro p vq cq v c hi hw
    have hadm : ∀ a b, WInv (admit p a b).1 := fun a b =>
      winv_same hw _ (all_admit p a b) (fun x => node_admit p a b x) (ws_admit p a b)
    unfold evictFromMainX.go
    simp only
    repeat' split
    all_goals first
      | with_reducible exact hw
      | with_reducible exact ih _ _ _ _ _ hi hw
      | with_reducible exact ih _ _ _ _ _ (LInv.evictNode _ hi) (winv_evictNode _ hi.c hw)
      | with_reducible exact ih _ _ _ _ _ (LInv.evictNode _ (LInv.admit _ _ hi)) (winv_evictNode _ (LInv.admit _ _ hi).c (hadm _ _))
      | skip

theorem winv_evictNodes {S : List Nat} {p : Policy} (hi : LInv S p) (hw : WInv p) : WInv (evictNodes p) := by
  unfold Policy.evictNodes evictFromMain evictFromMainX
  simp only
  have hm := mv_evictFromWindow p hi.c
  exact WL_evictFromMain_go _ _ _ _ _ _ (hi.mv hm) (winv_mv hm (wk_evictFromWindow p) hw)


/-! ### introduction: add -/

theorem ws_addPrefix (p : Policy) (id : Nat) : (addPrefix p id).weightedSize =
    if (p.node id).st = .alive then p.weightedSize + wt p id else p.weightedSize := by
  unfold addPrefix wt
  simp only
  by_cases h : (p.node id).st = .alive
  · simp only [h, BEq.rfl, ↓reduceIte]
    split <;> rfl
  · have : ((p.node id).st == NState.alive) = false := by simpa using h
    simp only [this, h, Bool.false_eq_true, ↓reduceIte]
    split <;> rfl

theorem winv_link {p p' : Policy} {id : Nat} (hw : WInv p) (hp : (all p').Perm (id :: all p))
    (hn : ∀ x, (p'.node x).weight = (p.node x).weight) (hs : p'.weightedSize = p.weightedSize + wt p id) : WInv p' := by
  unfold WInv at *
  rw [hs, wsum_perm p' hp, wsum_cons, wsum_congr p p' _ (fun x _ => by unfold wt; rw [hn]), hw]
  have : wt p' id = wt p id := by unfold wt; rw [hn]
  rw [this]
  exact BitVec.add_comm _ _

theorem winv_add {S : List Nat} {p : Policy} {id : Nat} (hi : LInv S p) (hw : WInv p) : WInv (add p id) := by
  rw [add_eq]
  simp only
  have hws := ws_addPrefix p id
  split
  · rename_i h
    have h' : (p.node id).st ≠ .alive := by simpa using h
    simp only [h', ↓reduceIte] at hws
    exact winv_same hw _ (all_addPrefix p id) (node_addPrefix p id) hws
  · rename_i h
    have halive : (p.node id).st = .alive := by simpa using h
    simp only [halive, ↓reduceIte] at hws
    split
    · apply winv_evictNode
      · exact (hi.same _ (all_addPrefix p id) (fun x => by rw [node_addPrefix])).c
      · refine winv_same hw _ (all_addPrefix p id) (node_addPrefix p id) ?_
        show (addPrefix p id).weightedSize - w64 (p.node id).weight = p.weightedSize
        rw [hws]; unfold wt; bv_omega
    · split
      · refine winv_link hw ((all_pushFront _ 0 id).trans (by rw [all_addPrefix])) (fun x => by rw [node_pushFront, node_addPrefix]) ?_
        rw [(wk_pushFront _ 0 id).2, hws]
      · refine winv_link hw ((all_pushBack _ 0 id).trans (by rw [all_addPrefix])) (fun x => by rw [node_pushBack, node_addPrefix]) ?_
        rw [(wk_pushBack _ 0 id).2, hws]

/-! ### introduction: update -/

theorem updateNode_weight (p : Policy) (id old x : Nat) : ((updateNode p id old).node x).weight = (p.node x).weight := by
  unfold updateNode
  simp only
  have h1 : Wk p (p.setNode { p.node id with qt := (p.node old).qt }) := wk_setNode p _ rfl
  have h2 : ∀ y, ((discount (p.setNode { p.node id with qt := (p.node old).qt }) old).node y).weight = (p.node y).weight := by
    intro y; rw [node_discount]; exact h1.1 y
  have h3 : ∀ y, ((dqUpdateNode (discount (p.setNode { p.node id with qt := (p.node old).qt }) old) (p.node old).qt id old).node y).weight
      = (p.node y).weight := by
    intro y; rw [node_dqUpdateNode]; exact h2 y
  generalize (dqUpdateNode (discount (p.setNode { p.node id with qt := (p.node old).qt }) old) (p.node old).qt id old) = pc at h3
  rw [(wk_setNode pc { pc.node old with st := .dead } rfl).1 x, h3]

theorem ws_dqUpdateNode (p : Policy) (q n old : Nat) : (dqUpdateNode p q n old).weightedSize = p.weightedSize := by
  unfold dqUpdateNode
  cases linkedIn p old with
  | none => rfl
  | some q' => exact ws_setDq _ _ _

theorem updateNode_ws (p : Policy) (id old : Nat) (hne : id ≠ old) :
    (updateNode p id old).weightedSize = p.weightedSize - wt p old := by
  unfold updateNode
  simp only
  show (dqUpdateNode (discount (p.setNode { p.node id with qt := (p.node old).qt }) old) _ id old).weightedSize = _
  rw [ws_dqUpdateNode, ws_discount]
  have : wt (p.setNode { p.node id with qt := (p.node old).qt }) old = wt p old := by
    unfold wt
    rw [node_setNode_other _ _ _ (by exact fun e => hne e.symm)]
  rw [this]
  rfl

/-- after updateNode the counter lacks exactly the new node's weight -/
def PreW (p : Policy) (w : BitVec 64) : Prop := p.weightedSize + w = wsum p (all p)

theorem prew_updateNode {S : List Nat} {p : Policy} {id old : Nat} (hi : LInv S p) (hw : WInv p) (hs : id ∉ S)
    (ho : old ∈ all p) : PreW (updateNode p id old) (wt p id) := by
  have hne : id ≠ old := fun e => hs (e ▸ (hi.a old ho).1)
  unfold PreW
  rw [all_updateNode p id old hi.c, updateNode_ws p id old hne,
    wsum_congr p (updateNode p id old) _ (fun x _ => by unfold wt; rw [updateNode_weight])]
  have := wsum_map_repl p (all p) old id hi.c ho
  unfold WInv at hw
  rw [hw]
  bv_omega

theorem winv_of_pre {p p' : Policy} {w : BitVec 64} (hm : Mv p p') (hk : Wk p p') (hp : PreW p w) :
    WInv { p' with weightedSize := p'.weightedSize + w } := by
  unfold WInv PreW at *
  show p'.weightedSize + w = wsum { p' with weightedSize := p'.weightedSize + w } (all p')
  rw [hk.2, hp, wsum_perm _ hm.1]
  exact (wsum_congr p _ _ (fun id _ => by unfold wt; exact congrArg w64 (hk.1 id))).symm

theorem winv_updateTail {T : List Nat} {p : Policy} (id : Nat) (w : BitVec 64) (hi : LInv T p) (hp : PreW p w) :
    WInv (updateTail p id w) := by
  have hrefl : ∀ p1 : Policy, all p1 = all p → (∀ x, p1.node x = p.node x) → p1.weightedSize = p.weightedSize →
      Mv p p1 ∧ Wk p p1 := fun p1 ha hn hs =>
    ⟨⟨by rw [ha], fun x => by rw [hn]⟩, ⟨fun x => by rw [hn], hs⟩⟩
  unfold Policy.updateTail
  simp only
  split
  · have ⟨m1, k1⟩ := hrefl { p with windowWeightedSize := p.windowWeightedSize + w } rfl (fun _ => rfl) rfl
    split
    · exact winv_evictNode id (m1.nodup hi.c) (winv_of_pre m1 k1 hp)
    · split
      · exact winv_of_pre (m1.trans (mv_access _ id (m1.nodup hi.c))) (k1.trans (wk_access _ id)) hp
      · split
        · rename_i h
          have hx := (linked_iff_all _ id).mp ((dqContains_iff _ 0 id).mp h)
          exact winv_of_pre (m1.trans (mv_moveToFront _ 0 id (m1.nodup hi.c) hx)) (k1.trans (wk_moveToFront _ 0 id)) hp
        · exact winv_of_pre m1 k1 hp
  · split
    · split
      · exact winv_of_pre (mv_access _ id hi.c) (wk_access _ id) hp
      · exact winv_evictNode id hi.c (winv_of_pre (Mv.refl p) (Wk.refl p) hp)
    · have ⟨m1, k1⟩ := hrefl { p with mainProtectedWeightedSize := p.mainProtectedWeightedSize + w } rfl (fun _ => rfl) rfl
      split
      · exact winv_of_pre (m1.trans (mv_access _ id (m1.nodup hi.c))) (k1.trans (wk_access _ id)) hp
      · exact winv_evictNode id (m1.nodup hi.c) (winv_of_pre m1 k1 hp)

theorem winv_update {S : List Nat} {p : Policy} {id : Nat} (old : Nat) (hi : LInv S p) (hw : WInv p) (hs : id ∉ S) :
    WInv (update p id old) := by
  rw [update_eq]
  split
  · exact winv_makeDead old hi.c hw
  · split
    · have h1 : LInv S (makeDead p old) := hi.kill (kill_makeDead p old hi.c)
      have w1 := winv_makeDead old hi.c hw
      split
      · exact winv_add h1 w1
      · exact w1
    · rename_i h2
      have ho : old ∈ all p := by
        have : dqContains p (p.node old).qt old = true := by simpa using h2
        exact (linked_iff_all p old).mp ((dqContains_iff p _ old).mp this)
      rename_i h1
      have hnd : (p.node id).st ≠ .dead := by simpa using h1
      exact winv_updateTail id _ (hi.updateNode hs ho hnd) (prew_updateNode hi hw hs ho)

/-! ### the table's actions -/

theorem winv_mkNode {S : List Nat} {p : Policy} (id key w : Nat) (st : NState) (hi : LInv S p) (hw : WInv p) (hs : id ∉ S) :
    WInv (mkNode p id key w st) := by
  have hnl : id ∉ all p := fun h => hs (hi.a id h).1
  unfold Policy.mkNode WInv at *
  show p.weightedSize = wsum _ (all p)
  rw [hw]
  refine (wsum_congr p _ _ (fun x hx => ?_)).symm
  have hne : x ≠ id := fun e => hnl (e ▸ hx)
  unfold wt
  rw [node_setNode_other _ _ _ (by exact hne)]

theorem winv_retire {p : Policy} (id : Nat) (hw : WInv p) : WInv (retire p id) := by
  unfold Policy.retire
  simp only
  split
  · have hk := wk_setNode p { p.node id with st := .retired } rfl
    unfold WInv at *
    show p.weightedSize = wsum _ (all p)
    rw [hw]
    exact (wsum_congr p _ _ (fun x _ => wt_of_wk hk x)).symm
  · exact hw

/-! ### every reachable state -/

theorem reach_winv {S : List Nat} {p : Policy} (h : Reach S p) : WInv p := by
  induction h with
  | init p e0 e1 e2 e3 =>
    have : all p = [] := by unfold all; rw [e0, e1, e2]; rfl
    unfold WInv; rw [this, e3]; rfl
  | mk id key w st hr hs ih => exact winv_mkNode id key w st (reach_inv hr) ih hs
  | retire id _ ih => exact winv_retire id ih
  | add id hr hs ih => exact winv_add (reach_inv hr) ih
  | update id old hr hs ih => exact winv_update old (reach_inv hr) ih hs
  | delete id hr ih => exact winv_makeDead id (reach_inv hr).c ih
  | access id hr ih => exact winv_mv (mv_access _ id (reach_inv hr).c) (wk_access _ id) ih
  | evict hr ih => exact winv_evictNodes (reach_inv hr) ih
  | climb hr ih => exact winv_mv (mv_climb _ (reach_inv hr).c) (wk_climb _) ih
  | setmax m hr ih => exact winv_mv (mv_setMaximumSize _ m) (wk_setMaximumSize _ m) ih

end OtterVerif.Impl.Policy
