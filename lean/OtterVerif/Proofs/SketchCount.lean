/-
  Proofs.SketchCount — the 4-bit counters of Impl.Sketch at word and table level: reading a counter is `nib`, the
  saturating increment adds one to exactly that counter (no carry into a neighbour, no wrap of the word), and the
  counters of a key never under-count within a sampling period.
-/
import OtterVerif.Impl.Sketch
import OtterVerif.Proofs.Nibble

namespace OtterVerif.Impl.Sketch
open OtterVerif OtterVerif.Nibble

/-! ### word level -/

/-- the value of counter j of word w as the code reads it -/
def rd (w : BitVec 64) (j : BitVec 64) : BitVec 64 := (w >>> (j <<< 2).toNat) &&& 0xf

theorem shl2_toNat (j : BitVec 64) (hj : j.toNat < 16) : (j <<< 2).toNat = 4 * j.toNat := by
  rw [BitVec.toNat_shiftLeft, Nat.shiftLeft_eq]
  have : j.toNat * 2 ^ 2 < 2 ^ 64 := by omega
  rw [Nat.mod_eq_of_lt this]; omega

theorem pow16 (j : Nat) : 2 ^ (4 * j) = 16 ^ j := by
  rw [Nat.pow_mul]

theorem rd_eq_nib (w j : BitVec 64) (hj : j.toNat < 16) : (rd w j).toNat = nib w.toNat j.toNat := by
  unfold rd nib
  rw [BitVec.toNat_and, BitVec.toNat_ushiftRight, shl2_toNat j hj, Nat.shiftRight_eq_div_pow, pow16]
  have : BitVec.toNat (15 : BitVec 64) = 2 ^ 4 - 1 := by decide
  rw [this, Nat.and_two_pow_sub_one_eq_mod]

theorem bit15 : ∀ k : Fin 64, (15#64).getLsbD k.val = decide (k.val < 4) := by decide

theorem bit15' (k : Nat) : (15#64).getLsbD k = decide (k < 4) := by
  by_cases h : k < 64
  · exact bit15 ⟨k, h⟩
  · have : (15#64).getLsbD k = false := BitVec.getLsbD_of_ge _ _ (by omega)
    rw [this]; simp; omega

/-- the saturation test of incrementAt: all four bits set ⇔ the counter reads 15 -/
theorem full_iff (w : BitVec 64) (off : Nat) (ho : off + 4 ≤ 64) :
    (w &&& ((0xf : BitVec 64) <<< off)) = ((0xf : BitVec 64) <<< off) ↔ ((w >>> off) &&& 0xf) = 0xf := by
  constructor
  · intro h
    apply BitVec.eq_of_getLsbD_eq
    intro k hk
    have hb := congrArg (fun x => x.getLsbD (off + k)) h
    simp only [BitVec.getLsbD_and, BitVec.getLsbD_shiftLeft, BitVec.getLsbD_ushiftRight] at hb ⊢
    have e : off + k - off = k := by omega
    rw [e] at hb
    show (w.getLsbD (off + k) && (15#64).getLsbD k) = (15#64).getLsbD k
    change (w.getLsbD (off + k) && (decide (off + k < 64) && !decide (off + k < off) && (15#64).getLsbD k)) =
      (decide (off + k < 64) && !decide (off + k < off) && (15#64).getLsbD k) at hb
    rw [bit15'] at hb ⊢
    by_cases h4 : k < 4
    · have h1 : off + k < 64 := by omega
      have h2 : ¬ off + k < off := by omega
      simp only [h4, h1, h2, decide_true, decide_false, Bool.not_false, Bool.and_true, Bool.true_and] at hb ⊢
      exact hb
    · simp [h4]
  · intro h
    apply BitVec.eq_of_getLsbD_eq
    intro i hi
    simp only [BitVec.getLsbD_and, BitVec.getLsbD_shiftLeft]
    show (w.getLsbD i && (decide (i < 64) && !decide (i < off) && (15#64).getLsbD (i - off))) =
      (decide (i < 64) && !decide (i < off) && (15#64).getLsbD (i - off))
    rw [bit15']
    by_cases h1 : i < off
    · simp [h1]
    · by_cases h4 : i - off < 4
      · have hb := congrArg (fun x => x.getLsbD (i - off)) h
        simp only [BitVec.getLsbD_and, BitVec.getLsbD_ushiftRight] at hb
        change (w.getLsbD (off + (i - off)) && (15#64).getLsbD (i - off)) = (15#64).getLsbD (i - off) at hb
        rw [bit15'] at hb
        have e : off + (i - off) = i := by omega
        rw [e] at hb
        simp only [h4, decide_true, Bool.and_true] at hb
        simp [hi, h1, h4, hb]
      · simp [h4]


theorem nib_lt_16 (w j : Nat) : nib w j < 16 := by unfold nib; omega

/-- the test of incrementAt in terms of the counter's value -/
theorem notfull_iff (w j : BitVec 64) (hj : j.toNat < 16) :
    ((w &&& ((0xf : BitVec 64) <<< (j <<< 2).toNat)) != ((0xf : BitVec 64) <<< (j <<< 2).toNat)) = true ↔ nib w.toNat j.toNat < 15 := by
  have ho : (j <<< 2).toNat + 4 ≤ 64 := by rw [shl2_toNat j hj]; omega
  have h1 := full_iff w (j <<< 2).toNat ho
  have h2 := rd_eq_nib w j hj
  have h3 := nib_lt_16 w.toNat j.toNat
  unfold rd at h2
  simp only [bne_iff_ne, ne_eq]
  rw [h1]
  constructor
  · intro hne
    have : nib w.toNat j.toNat ≠ 15 := fun e => hne (by
      apply BitVec.eq_of_toNat_eq; rw [h2, e]; rfl)
    omega
  · intro hlt e
    rw [e] at h2
    have : BitVec.toNat (15 : BitVec 64) = 15 := by decide
    omega

/-- adding 1 <<< 4j to a word whose counter j is below 15 does not wrap the word -/
theorem add_no_wrap (W j : Nat) (hW : W < 2 ^ 64) (hj : j < 16) (hc : nib W j < 15) : W + 16 ^ j < 2 ^ 64 := by
  unfold nib at hc
  have hP := pow_pos j
  have hsplit : 16 ^ j * (16 * 16 ^ (15 - j)) = 2 ^ 64 := by
    have : (16 : Nat) * 16 ^ (15 - j) = 16 ^ (16 - j) := by
      have e : 16 - j = (15 - j) + 1 := by omega
      rw [e, Nat.pow_succ, Nat.mul_comm]
    rw [this, ← Nat.pow_add]
    have e : j + (16 - j) = 16 := by omega
    rw [e]
  have hR := pow_pos (15 - j)
  -- d = W / P
  have hd2 : W < 16 ^ j * (W / 16 ^ j + 1) := Nat.lt_mul_div_succ W hP
  have hd3 : W / 16 ^ j < 16 * 16 ^ (15 - j) := by
    rw [Nat.div_lt_iff_lt_mul hP, Nat.mul_comm, hsplit]; exact hW
  have hd4 : W / 16 ^ j + 2 ≤ 16 * 16 ^ (15 - j) := by omega
  have hd5 : 16 ^ j * (W / 16 ^ j + 2) ≤ 16 ^ j * (16 * 16 ^ (15 - j)) := Nat.mul_le_mul_left _ hd4
  rw [hsplit] at hd5
  have hd6 : 16 ^ j * (W / 16 ^ j + 2) = 16 ^ j * (W / 16 ^ j + 1) + 16 ^ j := by
    rw [show W / 16 ^ j + 2 = (W / 16 ^ j + 1) + 1 from rfl, Nat.mul_add, Nat.mul_one]
  omega

/-- the word-level effect of incrementAt -/
theorem incr_word (w j : BitVec 64) (hj : j.toNat < 16) (hc : nib w.toNat j.toNat < 15) :
    (w + ((1 : BitVec 64) <<< (j <<< 2).toNat)).toNat = w.toNat + 16 ^ j.toNat := by
  rw [BitVec.toNat_add, BitVec.toNat_shiftLeft, shl2_toNat j hj, Nat.shiftLeft_eq, pow16]
  have h1 : BitVec.toNat (1 : BitVec 64) = 1 := by decide
  rw [h1, Nat.one_mul]
  have hP : 16 ^ j.toNat < 2 ^ 64 := by
    have := add_no_wrap w.toNat j.toNat w.isLt hj hc
    omega
  rw [Nat.mod_eq_of_lt hP, Nat.mod_eq_of_lt (add_no_wrap w.toNat j.toNat w.isLt hj hc)]


/-! ### table level -/

/-- counter (slot, idx) of the table -/
def cnt (s : Sketch) (slot idx : BitVec 64) : Nat := nib (s.table.getD slot.toNat 0).toNat idx.toNat

theorem readCount_eq_cnt (s : Sketch) (slot idx : BitVec 64) (h : idx.toNat < 16) :
    (readCount s slot idx).toNat = cnt s slot idx := rd_eq_nib _ idx h

theorem cnt_le_15 (s : Sketch) (slot idx : BitVec 64) : cnt s slot idx ≤ 15 := by
  have := nib_lt_16 (s.table.getD slot.toNat 0).toNat idx.toNat
  unfold cnt; omega

theorem getD_set (t : Array (BitVec 64)) (i k : Nat) (v : BitVec 64) :
    (t.setIfInBounds i v).getD k 0 = if i = k ∧ i < t.size then v else t.getD k 0 := by
  simp only [Array.getD_eq_getD_getElem?, Array.getElem?_setIfInBounds]
  by_cases h : i = k
  · subst h
    by_cases h2 : i < t.size
    · simp [h2]
    · simp [h2]
  · simp [h]

theorem incrementAt_table (s : Sketch) (i j : BitVec 64) (hj : j.toNat < 16) :
    (incrementAt s i j).1.table =
      if nib (s.table.getD i.toNat 0).toNat j.toNat < 15
      then s.table.setIfInBounds i.toNat (s.table.getD i.toNat 0 + ((1 : BitVec 64) <<< (j <<< 2).toNat))
      else s.table := by
  have hiff := notfull_iff (s.table.getD i.toNat 0) j hj
  unfold incrementAt
  by_cases hc : nib (s.table.getD i.toNat 0).toNat j.toNat < 15
  · have := hiff.mpr hc
    simp only [this, ↓reduceIte, hc]
  · have : ((s.table.getD i.toNat 0 &&& ((0xf : BitVec 64) <<< (j <<< 2).toNat)) != ((0xf : BitVec 64) <<< (j <<< 2).toNat)) = false := by
      cases h : ((s.table.getD i.toNat 0 &&& ((0xf : BitVec 64) <<< (j <<< 2).toNat)) != ((0xf : BitVec 64) <<< (j <<< 2).toNat)) with
      | false => rfl
      | true => exact absurd (hiff.mp h) hc
    simp only [this, Bool.false_eq_true, ↓reduceIte, hc]

/-- incrementAt never lowers any counter … -/
theorem incrementAt_mono (s : Sketch) (i j slot idx : BitVec 64) (hj : j.toNat < 16) :
    cnt s slot idx ≤ cnt (incrementAt s i j).1 slot idx := by
  unfold cnt
  rw [incrementAt_table s i j hj]
  by_cases hc : nib (s.table.getD i.toNat 0).toNat j.toNat < 15
  · rw [if_pos hc, getD_set]
    by_cases hk : i.toNat = slot.toNat ∧ i.toNat < s.table.size
    · rw [if_pos hk, ← hk.1, incr_word _ j hj hc]
      by_cases e : idx.toNat = j.toNat
      · rw [e, nib_incr_self _ _ hc]; omega
      · rw [nib_incr_other _ _ _ e hc]; exact Nat.le_refl _
    · rw [if_neg hk]; exact Nat.le_refl _
  · rw [if_neg hc]; exact Nat.le_refl _

/-- … and raises the addressed one unless it is saturated -/
theorem incrementAt_self (s : Sketch) (i j : BitVec 64) (hj : j.toNat < 16) (hib : i.toNat < s.table.size) :
    min 15 (cnt s i j + 1) ≤ cnt (incrementAt s i j).1 i j := by
  unfold cnt
  rw [incrementAt_table s i j hj]
  by_cases hc : nib (s.table.getD i.toNat 0).toNat j.toNat < 15
  · rw [if_pos hc, getD_set, if_pos ⟨rfl, hib⟩, incr_word _ j hj hc, nib_incr_self _ _ hc]
    omega
  · rw [if_neg hc]
    have := nib_lt_16 (s.table.getD i.toNat 0).toNat j.toNat
    omega

theorem incrementAt_size (s : Sketch) (i j : BitVec 64) : (incrementAt s i j).1.table.size = s.table.size := by
  unfold incrementAt; simp only; split
  · simp
  · rfl

theorem incrementAt_mask (s : Sketch) (i j : BitVec 64) : (incrementAt s i j).1.blockMask = s.blockMask := by
  unfold incrementAt; simp only; split <;> rfl

theorem incrementAt_init (s : Sketch) (i j : BitVec 64) : (incrementAt s i j).1.initialized = s.initialized := by
  unfold incrementAt; simp only; split <;> rfl


/-! ### the four counters of a key -/

theorem bumpAll_cons (p : BitVec 64 × BitVec 64) (ps : List (BitVec 64 × BitVec 64)) (acc : Sketch × Bool) :
    bumpAll (p :: ps) acc = bumpAll ps ((incrementAt acc.1 p.1 p.2).1, (incrementAt acc.1 p.1 p.2).2 || acc.2) := by
  unfold bumpAll
  rw [List.foldl_cons]

theorem bumpAll_mono (ps : List (BitVec 64 × BitVec 64)) (hidx : ∀ p ∈ ps, p.2.toNat < 16) :
    ∀ (acc : Sketch × Bool) (slot idx : BitVec 64), cnt acc.1 slot idx ≤ cnt (bumpAll ps acc).1 slot idx := by
  induction ps with
  | nil => intro acc slot idx; exact Nat.le_refl _
  | cons p ps ih =>
    intro acc slot idx
    rw [bumpAll_cons]
    have h1 := incrementAt_mono acc.1 p.1 p.2 slot idx (hidx p List.mem_cons_self)
    have h2 := ih (fun q hq => hidx q (List.mem_cons_of_mem _ hq)) ((incrementAt acc.1 p.1 p.2).1, (incrementAt acc.1 p.1 p.2).2 || acc.2) slot idx
    exact Nat.le_trans h1 h2

theorem bumpAll_size (ps : List (BitVec 64 × BitVec 64)) : ∀ (acc : Sketch × Bool),
    (bumpAll ps acc).1.table.size = acc.1.table.size ∧ (bumpAll ps acc).1.blockMask = acc.1.blockMask ∧
    (bumpAll ps acc).1.initialized = acc.1.initialized := by
  induction ps with
  | nil => intro acc; exact ⟨rfl, rfl, rfl⟩
  | cons p ps ih =>
    intro acc
    rw [bumpAll_cons]
    have := ih ((incrementAt acc.1 p.1 p.2).1, (incrementAt acc.1 p.1 p.2).2 || acc.2)
    simp only at this
    rw [incrementAt_size, incrementAt_mask, incrementAt_init] at this
    exact this

theorem bumpAll_self (ps : List (BitVec 64 × BitVec 64)) (hidx : ∀ p ∈ ps, p.2.toNat < 16) :
    ∀ (acc : Sketch × Bool), (∀ p ∈ ps, p.1.toNat < acc.1.table.size) →
      ∀ p ∈ ps, min 15 (cnt acc.1 p.1 p.2 + 1) ≤ cnt (bumpAll ps acc).1 p.1 p.2 := by
  induction ps with
  | nil => intro acc _ p hp; cases hp
  | cons q qs ih =>
    intro acc hib p hp
    rw [bumpAll_cons]
    have hq := hidx q List.mem_cons_self
    have hidx' : ∀ p ∈ qs, p.2.toNat < 16 := fun r hr => hidx r (List.mem_cons_of_mem _ hr)
    rcases List.mem_cons.mp hp with e | hp'
    · subst e
      have h1 := incrementAt_self acc.1 p.1 p.2 hq (hib p List.mem_cons_self)
      have h2 := bumpAll_mono qs hidx' ((incrementAt acc.1 p.1 p.2).1, (incrementAt acc.1 p.1 p.2).2 || acc.2) p.1 p.2
      exact Nat.le_trans h1 h2
    · have h1 := incrementAt_mono acc.1 q.1 q.2 p.1 p.2 hq
      have hib' : ∀ r ∈ qs, r.1.toNat < ((incrementAt acc.1 q.1 q.2).1, (incrementAt acc.1 q.1 q.2).2 || acc.2).1.table.size := by
        intro r hr
        show r.1.toNat < (incrementAt acc.1 q.1 q.2).1.table.size
        rw [incrementAt_size]; exact hib r (List.mem_cons_of_mem _ hr)
      have h2 := ih hidx' ((incrementAt acc.1 q.1 q.2).1, (incrementAt acc.1 q.1 q.2).2 || acc.2) hib' p hp'
      have h3 : min 15 (cnt acc.1 p.1 p.2 + 1) ≤ min 15 (cnt (incrementAt acc.1 q.1 q.2).1 p.1 p.2 + 1) := by omega
      exact Nat.le_trans h3 h2

/-- `increment` is `incrementNR`, followed by the aging step exactly when the sample is full -/
theorem incrementH_eq (s : Sketch) (h : BitVec 64) :
    incrementH s h = incrementNR s h ∨ incrementH s h = reset (incrementNR s h) := by
  unfold incrementH
  simp only
  split
  · exact Or.inr rfl
  · exact Or.inl rfl


/-! ### a key's estimate never under-counts within a sampling period -/

theorem pos_idx (s : Sketch) (h : BitVec 64) : ∀ p ∈ counterPosUnrolled s h, p.2.toNat < 16 := by
  intro p hp
  unfold counterPosUnrolled at hp
  simp only [List.mem_cons, List.not_mem_nil, or_false] at hp
  have key : ∀ x : BitVec 64, (x &&& 15).toNat < 16 := by
    intro x
    rw [BitVec.toNat_and]
    have : BitVec.toNat (15 : BitVec 64) = 15 := by decide
    rw [this]
    have := @Nat.and_le_right x.toNat 15
    omega
  rcases hp with e | e | e | e <;> (subst e; exact key _)

theorem pos_congr (s s' : Sketch) (h : BitVec 64) (hm : s'.blockMask = s.blockMask) :
    counterPosUnrolled s' h = counterPosUnrolled s h := by
  unfold counterPosUnrolled; rw [hm]

/-- every counter position of every key lies inside the table (established by ensureCapacity: the table has
    8 * (blockMask + 1) words; validated at run time by the driver after every ensureCapacity) -/
def WF (s : Sketch) : Prop := ∀ h, ∀ p ∈ counterPosUnrolled s h, p.1.toNat < s.table.size

/-- every counter of key h holds at least min(15, n) -/
def LB (s : Sketch) (h : BitVec 64) (n : Nat) : Prop := ∀ p ∈ counterPosUnrolled s h, min 15 n ≤ cnt s p.1 p.2

theorem finishNR_facts (r : Sketch × Bool) :
    (finishNR r).table = r.1.table ∧ (finishNR r).blockMask = r.1.blockMask ∧ (finishNR r).initialized = r.1.initialized := by
  unfold finishNR; split <;> exact ⟨rfl, rfl, rfl⟩

theorem incrementNR_facts (s : Sketch) (h : BitVec 64) :
    (incrementNR s h).table.size = s.table.size ∧ (incrementNR s h).blockMask = s.blockMask ∧
    (incrementNR s h).initialized = s.initialized := by
  unfold incrementNR
  split
  · exact ⟨rfl, rfl, rfl⟩
  · have h1 := bumpAll_size (counterPosUnrolled s h) (s, false)
    have h2 := finishNR_facts (bumpAll (counterPosUnrolled s h) (s, false))
    rw [h2.1, h2.2.1, h2.2.2]
    exact h1

theorem incrementNR_wf (s : Sketch) (h : BitVec 64) (hw : WF s) : WF (incrementNR s h) := by
  intro h' p hp
  have f := incrementNR_facts s h
  rw [pos_congr s _ h' f.2.1] at hp
  rw [f.1]; exact hw h' p hp

theorem cnt_congr (s s' : Sketch) (h : s'.table = s.table) (slot idx : BitVec 64) : cnt s' slot idx = cnt s slot idx := by
  unfold cnt; rw [h]

theorem incrementNR_cnt (s : Sketch) (h : BitVec 64) (hi : s.initialized = true) (slot idx : BitVec 64) :
    cnt (incrementNR s h) slot idx = cnt (bumpAll (counterPosUnrolled s h) (s, false)).1 slot idx := by
  apply cnt_congr
  unfold incrementNR
  rw [hi]
  simp only [Bool.not_true, Bool.false_eq_true, ↓reduceIte]
  exact (finishNR_facts _).1

theorem incrementNR_uninit (s : Sketch) (h : BitVec 64) (hi : s.initialized = false) : incrementNR s h = s := by
  unfold incrementNR; rw [hi]; rfl

/-- recording another key never lowers a counter -/
theorem incrementNR_other (s : Sketch) (h h' : BitVec 64) (n : Nat) (hl : LB s h n) : LB (incrementNR s h') h n := by
  intro p hp
  rw [pos_congr s _ h (incrementNR_facts s h').2.1] at hp
  cases hi : s.initialized with
  | false => rw [incrementNR_uninit s h' hi]; exact hl p hp
  | true =>
    rw [incrementNR_cnt s h' hi]
    exact Nat.le_trans (hl p hp) (bumpAll_mono _ (pos_idx s h') (s, false) p.1 p.2)

/-- recording the key itself raises each of its counters (saturating at 15) -/
theorem incrementNR_same (s : Sketch) (h : BitVec 64) (n : Nat) (hw : WF s) (hi : s.initialized = true) (hl : LB s h n) :
    LB (incrementNR s h) h (n + 1) := by
  intro p hp
  rw [pos_congr s _ h (incrementNR_facts s h).2.1] at hp
  rw [incrementNR_cnt s h hi]
  have h1 := bumpAll_self _ (pos_idx s h) (s, false) (hw h) p hp
  have h2 := hl p hp
  have h1' : min 15 (cnt s p.1 p.2 + 1) ≤ cnt (bumpAll (counterPosUnrolled s h) (s, false)).1 p.1 p.2 := h1
  omega

theorem umin_toNat {w : Nat} (a b : BitVec w) : (Bv.umin a b).toNat = min a.toNat b.toNat := by
  unfold Bv.umin; split
  · rename_i h; simp [BitVec.ult] at h; omega
  · rename_i h; simp [BitVec.ult] at h; omega

/-- the estimate is the minimum of the key's four counters -/
theorem frequencyH_lb (s : Sketch) (h : BitVec 64) (n : Nat) (hi : s.initialized = true) (hl : LB s h n) :
    min 15 n ≤ (frequencyH s h).toNat := by
  have hpos : counterPosUnrolled s h = (List.range 4).map (counterPos s h) := by
    have : List.range 4 = [0, 1, 2, 3] := by decide
    rw [this]
    unfold counterPosUnrolled counterPos
    simp
  have hr : List.range 4 = [0, 1, 2, 3] := by decide
  have hmem : ∀ i, i ∈ [0, 1, 2, 3] → min 15 n ≤ (readCount s (counterPos s h i).1 (counterPos s h i).2).toNat := by
    intro i him
    have hp : counterPos s h i ∈ counterPosUnrolled s h := by
      rw [hpos, hr]; exact List.mem_map_of_mem him
    rw [readCount_eq_cnt _ _ _ (pos_idx s h _ hp)]
    exact hl _ hp
  unfold frequencyH
  simp only [hi, Bool.not_true, Bool.false_eq_true, ↓reduceIte]
  rw [hr, List.foldl_cons, List.foldl_cons, List.foldl_cons, List.foldl_cons, List.foldl_nil]
  simp only [umin_toNat]
  have h0 := hmem 0 (by simp)
  have h1 := hmem 1 (by simp)
  have h2 := hmem 2 (by simp)
  have h3 := hmem 3 (by simp)
  have ha : (BitVec.allOnes 64).toNat = 2 ^ 64 - 1 := by decide
  omega

/-- the number of times key h occurs in a recording sequence -/
def occ (h : BitVec 64) (hs : List (BitVec 64)) : Nat := (hs.filter (· == h)).length

theorem record_lb (hs : List (BitVec 64)) : ∀ (s : Sketch) (h : BitVec 64) (n : Nat), WF s → s.initialized = true → LB s h n →
    LB (hs.foldl incrementNR s) h (n + occ h hs) ∧ WF (hs.foldl incrementNR s) ∧ (hs.foldl incrementNR s).initialized = true := by
  induction hs with
  | nil => intro s h n hw hi hl; exact ⟨hl, hw, hi⟩
  | cons x xs ih =>
    intro s h n hw hi hl
    rw [List.foldl_cons]
    have hw' := incrementNR_wf s x hw
    have hi' : (incrementNR s x).initialized = true := by rw [(incrementNR_facts s x).2.2]; exact hi
    by_cases e : x = h
    · subst e
      have := ih (incrementNR s x) x (n + 1) hw' hi' (incrementNR_same s x n hw hi hl)
      have ho : occ x (x :: xs) = occ x xs + 1 := by unfold occ; simp
      rw [ho]
      have e2 : n + (occ x xs + 1) = n + 1 + occ x xs := by omega
      rw [e2]; exact this
    · have := ih (incrementNR s x) h n hw' hi' (incrementNR_other s h x n hl)
      have ho : occ h (x :: xs) = occ h xs := by
        unfold occ
        have : (x == h) = false := by simp [e]
        simp [this]
      rw [ho]; exact this


/-! ### the aging step halves every counter -/

theorem resetMask_bits : ∀ i : Fin 64, Gen.SketchMix.resetMask.getLsbD i.val = decide (i.val % 4 ≠ 3) := by decide

theorem halve_word (w j : BitVec 64) (hj : j.toNat < 16) :
    rd ((w >>> 1) &&& Gen.SketchMix.resetMask) j = (rd w j) >>> 1 := by
  unfold rd
  rw [shl2_toNat j hj]
  apply BitVec.eq_of_getLsbD_eq
  intro k hk
  simp only [BitVec.getLsbD_and, BitVec.getLsbD_ushiftRight]
  show (w.getLsbD (1 + (4 * j.toNat + k)) && Gen.SketchMix.resetMask.getLsbD (4 * j.toNat + k) && (15#64).getLsbD k) =
    (w.getLsbD (4 * j.toNat + (1 + k)) && (15#64).getLsbD (1 + k))
  rw [bit15', bit15']
  have e : 1 + (4 * j.toNat + k) = 4 * j.toNat + (1 + k) := by omega
  rw [e]
  by_cases h4 : k < 4
  · have hlt : 4 * j.toNat + k < 64 := by omega
    have := resetMask_bits ⟨4 * j.toNat + k, hlt⟩
    simp only at this
    rw [this]
    by_cases h3 : k < 3
    · have m : (4 * j.toNat + k) % 4 ≠ 3 := by omega
      have m2 : 1 + k < 4 := by omega
      simp only [h4, m2, decide_true, Bool.and_true, m, ne_eq, not_false_eq_true]
    · have m : ¬ (4 * j.toNat + k) % 4 ≠ 3 := by omega
      have m2 : ¬ 1 + k < 4 := by omega
      simp only [m, m2, decide_false, Bool.and_false, Bool.false_and]
  · have m2 : ¬ 1 + k < 4 := by omega
    simp [h4, m2]

theorem reset_cnt (s : Sketch) (slot idx : BitVec 64) (hj : idx.toNat < 16) :
    cnt (reset s) slot idx = cnt s slot idx / 2 := by
  unfold cnt
  have ht : (reset s).table = s.table.map (fun (w : BitVec 64) => (w >>> 1) &&& Gen.SketchMix.resetMask) := rfl
  rw [ht]
  have hg : (s.table.map (fun (w : BitVec 64) => (w >>> 1) &&& Gen.SketchMix.resetMask)).getD slot.toNat 0 =
      ((s.table.getD slot.toNat 0) >>> 1) &&& Gen.SketchMix.resetMask := by
    simp only [Array.getD_eq_getD_getElem?, Array.getElem?_map]
    cases s.table[slot.toNat]? with
    | none => decide
    | some w => rfl
  rw [hg, ← rd_eq_nib _ idx hj, halve_word _ idx hj, BitVec.toNat_ushiftRight, rd_eq_nib _ idx hj, Nat.shiftRight_eq_div_pow]


/-! ### the table layout makes every position valid -/

/-- the table has 8 words per block and blockMask + 1 blocks -/
def Layout (s : Sketch) : Prop := s.table.size = 8 * (s.blockMask.toNat + 1) ∧ s.table.size < 2 ^ 64

theorem slot_bound (m x y c : BitVec 64) (M : Nat) (hM : m.toNat = M) (h8 : 8 * (M + 1) < 2 ^ 64) (hc : c.toNat ≤ 6) :
    (((x &&& m) <<< 3) + (y &&& 1) + c).toNat < 8 * (M + 1) := by
  have ha : (x &&& m).toNat ≤ M := by rw [BitVec.toNat_and, ← hM]; exact Nat.and_le_right
  have ho : (y &&& 1).toNat ≤ 1 := by
    rw [BitVec.toNat_and]
    have : BitVec.toNat (1 : BitVec 64) = 1 := by decide
    rw [this]; exact Nat.and_le_right
  have hb : ((x &&& m) <<< 3).toNat = (x &&& m).toNat * 8 := by
    rw [BitVec.toNat_shiftLeft, Nat.shiftLeft_eq]
    have : (x &&& m).toNat * 2 ^ 3 < 2 ^ 64 := by omega
    rw [Nat.mod_eq_of_lt this]
  rw [BitVec.toNat_add, BitVec.toNat_add, hb]
  omega

theorem mem_pos (s : Sketch) (h : BitVec 64) (p : BitVec 64 × BitVec 64) (hp : p ∈ counterPosUnrolled s h) :
    ∃ y c : BitVec 64, c.toNat ≤ 6 ∧ p.1 = ((h &&& s.blockMask) <<< 3) + (y &&& 1) + c := by
  unfold counterPosUnrolled at hp
  simp only [List.mem_cons, List.not_mem_nil, or_false] at hp
  rcases hp with e | e | e | e
  · exact ⟨Gen.SketchMix.rehash h, 0, by decide, by rw [e]; exact (BitVec.add_zero _).symm⟩
  · exact ⟨Gen.SketchMix.rehash h >>> 8, 2, by decide, by rw [e]⟩
  · exact ⟨Gen.SketchMix.rehash h >>> 16, 4, by decide, by rw [e]⟩
  · exact ⟨Gen.SketchMix.rehash h >>> 24, 6, by decide, by rw [e]⟩

theorem wf_of_layout (s : Sketch) (hl : Layout s) : WF s := by
  intro h p hp
  obtain ⟨h1, h2⟩ := hl
  rw [h1] at h2 ⊢
  obtain ⟨y, c, hc, e⟩ := mem_pos s h p hp
  rw [e]
  exact slot_bound s.blockMask h y c _ rfl h2 hc

/-- a table of n words with blockMask n/8 - 1 has the layout whenever n is a multiple of 8 (and at least 8) -/
theorem layout_of_multiple (n ss : BitVec 64) (h8 : n.toNat % 8 = 0) (hge : 8 ≤ n.toNat) :
    Layout { table := Array.replicate n.toNat 0, sampleSize := ss, blockMask := (n >>> 3) - 1, size := 0, initialized := true } := by
  unfold Layout
  simp only [Array.size_replicate]
  have hlt := n.isLt
  constructor
  · have e1 : (n >>> 3).toNat = n.toNat / 8 := by rw [BitVec.toNat_ushiftRight, Nat.shiftRight_eq_div_pow]
    have e2 : ((n >>> 3) - 1).toNat = n.toNat / 8 - 1 := by
      rw [BitVec.toNat_sub, e1]
      have : BitVec.toNat (1 : BitVec 64) = 1 := by decide
      rw [this]
      omega
    rw [e2]; omega
  · exact hlt

/-- what ensureCapacity builds when it (re)allocates: a zeroed table of max(8, RoundUpPowerOf2(maximum)) words -/
theorem ensureCapacity_shape (s : Sketch) (m : BitVec 64) (hch : (ensureCapacity s m).2 = true) :
    ∃ n ss : BitVec 64, 8 ≤ n.toNat ∧
      n = (if BitVec.ult (Gen.Xmath.RoundUpPowerOf264 m) 8 then 8 else Gen.Xmath.RoundUpPowerOf264 m) ∧
      (ensureCapacity s m).1 = { table := Array.replicate n.toNat 0, sampleSize := ss, blockMask := (n >>> 3) - 1, size := 0, initialized := true } := by
  unfold ensureCapacity at hch ⊢
  by_cases hle : BitVec.ule m (BitVec.ofNat 64 s.table.size) = true
  · rw [if_pos hle] at hch; cases hch
  · rw [if_neg hle]
    refine ⟨_, _, ?_, rfl, rfl⟩
    split
    · decide
    · rename_i h; simp [BitVec.ult] at h; exact h


/-! ### RoundUpPowerOf2: the smeared word has all bits below its top bit set, so a result of at least 8 is a multiple of 8 -/

/-- bit i of x is the disjunction of n consecutive bits of v starting at i -/
def Covers (x v : BitVec 64) (n : Nat) : Prop := ∀ i, x.getLsbD i = true ↔ ∃ d, d < n ∧ v.getLsbD (i + d) = true

theorem covers_self (v : BitVec 64) : Covers v v 1 := by
  intro i
  constructor
  · intro h; exact ⟨0, by omega, by simpa using h⟩
  · intro ⟨d, hd, h⟩
    have : d = 0 := by omega
    subst this; simpa using h

theorem covers_step (x v : BitVec 64) (n : Nat) (h : Covers x v n) : Covers (x ||| (x >>> n)) v (2 * n) := by
  intro i
  rw [BitVec.getLsbD_or, BitVec.getLsbD_ushiftRight, Bool.or_eq_true, h i, h (n + i)]
  constructor
  · intro hh
    rcases hh with ⟨d, hd, hb⟩ | ⟨d, hd, hb⟩
    · exact ⟨d, by omega, hb⟩
    · exact ⟨n + d, by omega, by rw [show i + (n + d) = n + i + d by omega]; exact hb⟩
  · intro ⟨d, hd, hb⟩
    by_cases hlt : d < n
    · exact Or.inl ⟨d, hlt, hb⟩
    · exact Or.inr ⟨d - n, by omega, by rw [show n + i + (d - n) = i + d by omega]; exact hb⟩

/-- the smearing of RoundUpPowerOf264 -/
def smear (x : BitVec 64) : BitVec 64 :=
  let x := (x ||| (x >>> 1))
  let x := (x ||| (x >>> 2))
  let x := (x ||| (x >>> 4))
  let x := (x ||| (x >>> 8))
  let x := (x ||| (x >>> 16))
  (x ||| (x >>> 32))

theorem smear_covers (v : BitVec 64) : Covers (smear v) v 64 := by
  unfold smear
  have h0 := covers_self v
  have h1 := covers_step _ v 1 h0
  have h2 := covers_step _ v 2 h1
  have h3 := covers_step _ v 4 h2
  have h4 := covers_step _ v 8 h3
  have h5 := covers_step _ v 16 h4
  exact covers_step _ v 32 h5

/-- below its top bit the smeared word is all ones -/
theorem smear_closed (v : BitVec 64) (i : Nat) (h : (smear v).getLsbD (i + 1) = true) : (smear v).getLsbD i = true := by
  have hc := smear_covers v
  obtain ⟨d, hd, hb⟩ := (hc (i + 1)).mp h
  refine (hc i).mpr ⟨d + 1, ?_, by rw [show i + (d + 1) = i + 1 + d by omega]; exact hb⟩
  by_cases h64 : d + 1 < 64
  · exact h64
  · exfalso
    have : v.getLsbD (i + 1 + d) = false := BitVec.getLsbD_of_ge _ _ (by omega)
    rw [this] at hb; cases hb

theorem smear_closed_le (v : BitVec 64) (i j : Nat) (hij : j ≤ i) (h : (smear v).getLsbD i = true) : (smear v).getLsbD j = true := by
  induction i with
  | zero => have : j = 0 := by omega
            subst this; exact h
  | succ i ih =>
    by_cases e : j = i + 1
    · subst e; exact h
    · exact ih (by omega) (smear_closed v i h)

theorem bit7 : ∀ k : Fin 64, (7#64).getLsbD k.val = decide (k.val < 3) := by decide

/-- a smeared word that is at least 7 ends in 111 -/
theorem smear_low (v : BitVec 64) (h7 : 7 ≤ (smear v).toNat) : (smear v).toNat % 8 = 7 := by
  -- some bit at position ≥ 2 … in fact bit 2 is set: otherwise the value is below 4 + (bits above 2 are closed downwards)
  have hb2 : (smear v).getLsbD 2 = true := by
    cases hcase : (smear v).getLsbD 2 with
    | true => rfl
    | false =>
      exfalso
      -- no bit ≥ 2 is set, so the value is below 4
      have hz : ∀ i, 2 ≤ i → (smear v).getLsbD i = false := by
        intro i hi
        cases hh : (smear v).getLsbD i with
        | false => rfl
        | true => rw [smear_closed_le v i 2 hi hh] at hcase; cases hcase
      have : (smear v).toNat < 2 ^ 2 := by
        apply Nat.lt_pow_two_of_testBit
        intro i hi
        have := hz i hi
        rwa [BitVec.getLsbD] at this
      omega
  have hb1 := smear_closed v 1 hb2
  have hb0 := smear_closed v 0 hb1
  have hand : (smear v) &&& 7#64 = 7#64 := by
    apply BitVec.eq_of_getLsbD_eq
    intro k hk
    rw [BitVec.getLsbD_and, bit7 ⟨k, hk⟩]
    by_cases h3 : k < 3
    · have : (smear v).getLsbD k = true := by
        rcases (by omega : k = 0 ∨ k = 1 ∨ k = 2) with e | e | e <;> subst e <;> assumption
      simp [this, h3]
    · simp [h3]
  have := congrArg BitVec.toNat hand
  rw [BitVec.toNat_and] at this
  have e7 : (7#64).toNat = 2 ^ 3 - 1 := by decide
  rw [e7, Nat.and_two_pow_sub_one_eq_mod] at this
  omega

theorem roundUp_eq (m : BitVec 64) (hm : m ≠ 0) : Gen.Xmath.RoundUpPowerOf264 m = smear (m - 1) + 1 := by
  unfold Gen.Xmath.RoundUpPowerOf264 smear
  have : (m == 0#64) = false := by simpa using hm
  simp only [this, Bool.false_eq_true, ↓reduceIte]
  rfl

/-- RoundUpPowerOf2 of anything, if at least 8, is a multiple of 8 -/
theorem roundUp_multiple (m : BitVec 64) (h8 : 8 ≤ (Gen.Xmath.RoundUpPowerOf264 m).toNat) :
    (Gen.Xmath.RoundUpPowerOf264 m).toNat % 8 = 0 := by
  by_cases hm : m = 0
  · subst hm
    have : (Gen.Xmath.RoundUpPowerOf264 0).toNat = 1 := by decide
    omega
  · rw [roundUp_eq m hm] at h8 ⊢
    rw [BitVec.toNat_add] at h8 ⊢
    have e1 : BitVec.toNat (1 : BitVec 64) = 1 := by decide
    rw [e1] at h8 ⊢
    have hlt := (smear (m - 1)).isLt
    have h7 : 7 ≤ (smear (m - 1)).toNat := by omega
    have := smear_low (m - 1) h7
    omega

/-- ensureCapacity always establishes the layout (for every requested maximum) -/
theorem ensureCapacity_layout (s : Sketch) (m : BitVec 64) (hch : (ensureCapacity s m).2 = true) :
    Layout (ensureCapacity s m).1 := by
  obtain ⟨n, ss, hge, hn, he⟩ := ensureCapacity_shape s m hch
  rw [he]
  apply layout_of_multiple n ss _ hge
  rw [hn]
  split
  · decide
  · rename_i h
    have h8 : 8 ≤ (Gen.Xmath.RoundUpPowerOf264 m).toNat := by simp [BitVec.ult] at h; exact h
    exact roundUp_multiple m h8

end OtterVerif.Impl.Sketch
