/-
  Helper lemmas: the association list of `Spec.State` behaves as a finite map.
-/
import OtterVerif.Spec.Core

namespace OtterVerif.Spec

theorem find_nil (k : Nat) : find [] k = none := rfl

theorem find_cons (p : Nat × Entry) (m : List (Nat × Entry)) (k : Nat) :
    find (p :: m) k = if p.1 == k then some p.2 else find m k := by
  unfold find
  simp only [List.find?_cons]
  split <;> simp_all

theorem find_erase_self (m : List (Nat × Entry)) (k : Nat) : find (erase m k) k = none := by
  induction m with
  | nil => rfl
  | cons p m ih =>
    unfold erase at *
    simp only [List.filter_cons]
    split
    · rename_i h
      rw [find_cons]
      have : (p.1 == k) = false := by simpa using h
      simp [this, ih]
    · exact ih

theorem find_erase_other (m : List (Nat × Entry)) (k k' : Nat) (h : k' ≠ k) :
    find (erase m k) k' = find m k' := by
  induction m with
  | nil => rfl
  | cons p m ih =>
    unfold erase at *
    simp only [List.filter_cons]
    split
    · rw [find_cons, find_cons, ih]
    · rename_i hp
      have hpk : p.1 = k := by simpa using hp
      rw [find_cons]
      have : (p.1 == k') = false := by
        simp only [beq_eq_false_iff_ne, ne_eq]; intro e; exact h (by rw [← e, hpk])
      simp [this, ih]

theorem find_put_self (m : List (Nat × Entry)) (k : Nat) (e : Entry) : find (put m k e) k = some e := by
  unfold put; rw [find_cons]; simp

theorem find_put_other (m : List (Nat × Entry)) (k k' : Nat) (e : Entry) (h : k' ≠ k) :
    find (put m k e) k' = find m k' := by
  unfold put; rw [find_cons]
  have : (k == k') = false := by simp only [beq_eq_false_iff_ne, ne_eq]; exact fun e => h e.symm
  simp [this, find_erase_other m k k' h]

/-- keys of the association list are pairwise distinct -/
def WF (m : List (Nat × Entry)) : Prop := (m.map (·.1)).Nodup

theorem erase_keys_sub (m : List (Nat × Entry)) (k x : Nat) : x ∈ (erase m k).map (·.1) → x ∈ m.map (·.1) ∧ x ≠ k := by
  unfold erase
  simp only [List.mem_map, List.mem_filter]
  rintro ⟨p, ⟨hp, hne⟩, rfl⟩
  exact ⟨⟨p, hp, rfl⟩, by simpa using hne⟩

theorem WF_erase (m : List (Nat × Entry)) (k : Nat) (h : WF m) : WF (erase m k) := by
  unfold WF erase at *
  induction m with
  | nil => simp
  | cons p m ih =>
    simp only [List.filter_cons]
    simp only [List.map_cons, List.nodup_cons] at h
    split
    · simp only [List.map_cons, List.nodup_cons]
      refine ⟨?_, ih h.2⟩
      intro hm
      exact h.1 ((erase_keys_sub m k p.1 (by unfold erase; exact hm)).1)
    · exact ih h.2

theorem WF_put (m : List (Nat × Entry)) (k : Nat) (e : Entry) (h : WF m) : WF (put m k e) := by
  unfold put WF
  simp only [List.map_cons, List.nodup_cons]
  refine ⟨?_, WF_erase m k h⟩
  intro hm
  exact (erase_keys_sub m k k hm).2 rfl

theorem WF_nil : WF [] := by unfold WF; simp

/-! ### liveness as a function of the map and the clock -/

def liveIn (m : List (Nat × Entry)) (now : Int) (k : Nat) : Option Entry :=
  (find m k).filter (fun e => e.liveAt now)

theorem live_eq (s : State) (k : Nat) : s.live k = liveIn s.m s.now k := rfl

theorem liveIn_put_other (m : List (Nat × Entry)) (now : Int) (k k' : Nat) (e : Entry) (h : k' ≠ k) :
    liveIn (put m k e) now k' = liveIn m now k' := by
  unfold liveIn; rw [find_put_other _ _ _ _ h]

theorem liveIn_put_self (m : List (Nat × Entry)) (now : Int) (k : Nat) (e : Entry) :
    liveIn (put m k e) now k = if e.liveAt now then some e else none := by
  unfold liveIn; rw [find_put_self]; simp [Option.filter]

theorem liveIn_erase_self (m : List (Nat × Entry)) (now : Int) (k : Nat) : liveIn (erase m k) now k = none := by
  unfold liveIn; rw [find_erase_self]; rfl

theorem liveIn_erase_other (m : List (Nat × Entry)) (now : Int) (k k' : Nat) (h : k' ≠ k) :
    liveIn (erase m k) now k' = liveIn m now k' := by
  unfold liveIn; rw [find_erase_other _ _ _ h]

theorem liveIn_some (m : List (Nat × Entry)) (now : Int) (k : Nat) (e : Entry) :
    liveIn m now k = some e ↔ find m k = some e ∧ now < e.exp := by
  unfold liveIn Entry.liveAt
  cases h : find m k with
  | none => simp [Option.filter]
  | some x =>
    simp only [Option.filter]
    split <;> rename_i hc
    · constructor
      · intro hx; cases hx; exact ⟨rfl, by simpa using hc⟩
      · intro ⟨hx, _⟩; exact hx
    · constructor
      · intro hx; cases hx
      · intro ⟨hx, hl⟩; cases hx; exact absurd (by simpa using hl) hc

theorem liveIn_none (m : List (Nat × Entry)) (now : Int) (k : Nat) :
    liveIn m now k = none ↔ ∀ e, find m k = some e → e.exp ≤ now := by
  unfold liveIn Entry.liveAt
  cases h : find m k with
  | none => simp [Option.filter]
  | some x =>
    simp only [Option.filter]
    split <;> rename_i hc
    · simp only [reduceCtorEq, Option.some.injEq, forall_eq', false_iff]
      have : now < x.exp := by simpa using hc
      omega
    · simp only [Option.some.injEq, forall_eq', true_iff]
      have : ¬ now < x.exp := by simpa using hc
      omega

/-- what an accepted automatic removal does -/
theorem evict_some (cfg : Cfg) (s s' : State) (ev : Event) (h : evict cfg s ev = some s') :
    ∃ e, s.phys ev.key = some e ∧ e.val = ev.val ∧ evictOk cfg s ev e = true ∧ s' = evictApply s ev e := by
  unfold evict at h
  split at h
  · cases h
  · rename_i e he
    split at h
    · rename_i hc
      simp only [Bool.and_eq_true, beq_iff_eq] at hc
      exact ⟨e, he, hc.1, hc.2, by cases h; rfl⟩
    · cases h

end OtterVerif.Spec
